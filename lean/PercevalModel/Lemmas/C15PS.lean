/-
  C15 (part "PS") — theorems about the PostSelect text format (`Model/C15PS.lean`).  Core Lean only.

  Main results (all for every expression, every nesting depth):
  * `parse_print_fixed`            the repaired writer round-trips every well-formed expression
  * `parseTop_printTop_fixed`      the same including the empty PostSelect
  * `parse_print_asfound_partial`  the writer as found round-trips every well-formed expression in
                                   which no negation is a non-last operand of an n-ary node
  * `print_asfound_changes_meaning` concrete witness: the writer as found changes the predicate
                                   (`…_or`: the same with `|`; `print_asfound_xor_changes_tree_only`:
                                   with `^` the tree changes, the predicate happens not to)
  * `parse_print_asfound_fails`    hence the unrestricted round trip is false for the writer as found
  * `asfound_misreads_first`       the defect for ALL operands: `(!a) o b o …` is read back as
                                   `!(a o b o …)` (`asfound_fails_first`: so the round trip fails there)
  * `eval_roundtrip_fixed`         the repaired round trip preserves the predicate on every state
  * `lex_print`                    the lexer reads the written text as the token view `toks`
  The full converse of `parse_print_asfound_partial` (a negation as a non-last operand at *any*
  position / depth makes the as-found round trip fail) is proved in `Lemmas/C15PSR.lean`
  (`parse_print_asfound_iff`, with the tree read back given in closed form by `rr`); the harness still
  counts disagreements (`asfound-converse-mismatch`, 0 observed).
-/
import PercevalModel.Model.C15PS

namespace PM.C15.PS

/-! ## lexer -/

/-- prefix the tokens already produced -/
def pre (out : List Tok) : Option (List Tok) → Option (List Tok)
  | none => none
  | some ts => some (out ++ ts)

@[simp] theorem pre_nil (x : Option (List Tok)) : pre [] x = x := by cases x <;> rfl

@[simp] theorem pre_pre (a b : List Tok) (x : Option (List Tok)) : pre a (pre b x) = pre (a ++ b) x := by
  cases x <;> simp [pre]

theorem pre_some (a ts : List Tok) : pre a (some ts) = some (a ++ ts) := rfl

/-- the text that follows does not continue a number -/
def NoDigitHead : Text → Prop
  | [] => True
  | c :: _ => c.isDigit = false

theorem lexFrom_cons (s : LS) (c : Char) (cs : Text) :
    lexFrom s (c :: cs) = match step s c with
      | none => none
      | some (s', out) => pre out (lexFrom s' cs) := by
  show (match step s c with
      | none => none
      | some (s', out) => match lexFrom s' cs with
        | none => none
        | some ts => some (out ++ ts)) = _
  cases step s c with
  | none => rfl
  | some p => cases p with | mk s' out => cases h : lexFrom s' cs <;> simp [pre, h]

/-- a pending number is closed by anything that is not a digit -/
theorem lexFrom_num (n : Nat) (r : Text) (h : NoDigitHead r) :
    lexFrom (.num n) r = pre [.num n] (lexFrom .idle r) := by
  cases r with
  | nil => rfl
  | cons c cs =>
    have hc : c.isDigit = false := h
    rw [lexFrom_cons, lexFrom_cons]
    simp only [step, hc, Bool.false_eq_true, if_false]
    cases startTok c with
    | none => rfl
    | some p => cases p with | mk s' out => simp [emit]

theorem digitChar_spec (d : Nat) (h : d < 10) :
    (digitChar d).isDigit = true ∧ (digitChar d).toNat - 48 = d := by
  match d, h with
  | 0, _ => exact ⟨rfl, rfl⟩
  | 1, _ => exact ⟨rfl, rfl⟩
  | 2, _ => exact ⟨rfl, rfl⟩
  | 3, _ => exact ⟨rfl, rfl⟩
  | 4, _ => exact ⟨rfl, rfl⟩
  | 5, _ => exact ⟨rfl, rfl⟩
  | 6, _ => exact ⟨rfl, rfl⟩
  | 7, _ => exact ⟨rfl, rfl⟩
  | 8, _ => exact ⟨rfl, rfl⟩
  | 9, _ => exact ⟨rfl, rfl⟩
  | n + 10, h => omega

theorem lexFrom_idle_digit (d : Nat) (h : d < 10) (r : Text) :
    lexFrom .idle (digitChar d :: r) = lexFrom (.num d) r := by
  have ⟨h1, h2⟩ := digitChar_spec d h
  rw [lexFrom_cons]
  simp [step, startTok, h1, h2]

theorem lexFrom_num_digit (n d : Nat) (h : d < 10) (r : Text) :
    lexFrom (.num n) (digitChar d :: r) = lexFrom (.num (n * 10 + d)) r := by
  have ⟨h1, h2⟩ := digitChar_spec d h
  rw [lexFrom_cons]
  simp [step, h1, h2]

theorem lexFrom_decF (f : Nat) : ∀ (n : Nat) (r : Text), n < f →
    lexFrom .idle (decF f n ++ r) = lexFrom (.num n) r := by
  induction f with
  | zero => intro n r h; omega
  | succ f ih =>
    intro n r h
    unfold decF
    by_cases h10 : n < 10
    · simp only [h10, if_true, List.cons_append, List.nil_append]
      exact lexFrom_idle_digit n h10 r
    · simp only [h10, if_false, List.append_assoc, List.cons_append, List.nil_append]
      rw [ih (n / 10) _ (by omega), lexFrom_num_digit _ _ (by omega)]
      congr 2
      omega

/-- a written numeral is read back as its value -/
theorem lexFrom_dec (n : Nat) (r : Text) (h : NoDigitHead r) :
    lexFrom .idle (dec n ++ r) = pre [.num n] (lexFrom .idle r) := by
  unfold dec
  rw [lexFrom_decF _ _ _ (by omega), lexFrom_num _ _ h]

theorem lexFrom_step {s s' : LS} {c : Char} {out : List Tok} (cs : Text) (h : step s c = some (s', out)) :
    lexFrom s (c :: cs) = pre out (lexFrom s' cs) := by
  rw [lexFrom_cons, h]

theorem lexFrom_sp (cs : Text) : lexFrom .idle (' ' :: cs) = lexFrom .idle cs := by
  rw [lexFrom_step (s' := .idle) (out := []) cs rfl, pre_nil]

theorem lexFrom_cmp (c : Cmp) (cs : Text) :
    lexFrom .idle (c.sym ++ ' ' :: cs) = pre [.cmp c] (lexFrom .idle cs) := by
  cases c
  · show lexFrom .idle ('=' :: '=' :: ' ' :: cs) = _
    rw [lexFrom_step (s' := .eq1) (out := []) _ rfl, lexFrom_step (s' := .idle) (out := [.cmp .eq]) _ rfl,
      lexFrom_sp]; simp
  · show lexFrom .idle ('!' :: '=' :: ' ' :: cs) = _
    rw [lexFrom_step (s' := .bang) (out := []) _ rfl, lexFrom_step (s' := .idle) (out := [.cmp .ne]) _ rfl,
      lexFrom_sp]; simp
  · show lexFrom .idle ('<' :: ' ' :: cs) = _
    rw [lexFrom_step (s' := .lt) (out := []) _ rfl, lexFrom_step (s' := .idle) (out := [.cmp .lt]) _ rfl]; simp
  · show lexFrom .idle ('<' :: '=' :: ' ' :: cs) = _
    rw [lexFrom_step (s' := .lt) (out := []) _ rfl, lexFrom_step (s' := .idle) (out := [.cmp .le]) _ rfl,
      lexFrom_sp]; simp
  · show lexFrom .idle ('>' :: ' ' :: cs) = _
    rw [lexFrom_step (s' := .gt) (out := []) _ rfl, lexFrom_step (s' := .idle) (out := [.cmp .gt]) _ rfl]; simp
  · show lexFrom .idle ('>' :: '=' :: ' ' :: cs) = _
    rw [lexFrom_step (s' := .gt) (out := []) _ rfl, lexFrom_step (s' := .idle) (out := [.cmp .ge]) _ rfl,
      lexFrom_sp]; simp

theorem lexFrom_lpar (cs : Text) : lexFrom .idle ('(' :: cs) = pre [.lpar] (lexFrom .idle cs) :=
  lexFrom_step cs rfl
theorem lexFrom_rpar (cs : Text) : lexFrom .idle (')' :: cs) = pre [.rpar] (lexFrom .idle cs) :=
  lexFrom_step cs rfl
theorem lexFrom_lbr (cs : Text) : lexFrom .idle ('[' :: cs) = pre [.lbr] (lexFrom .idle cs) :=
  lexFrom_step cs rfl
theorem lexFrom_comma_sp (cs : Text) : lexFrom .idle (',' :: ' ' :: cs) = pre [.comma] (lexFrom .idle cs) := by
  rw [lexFrom_step (s' := .idle) (out := [.comma]) _ rfl, lexFrom_sp]
theorem lexFrom_rbr_sp (cs : Text) : lexFrom .idle (']' :: ' ' :: cs) = pre [.rbr] (lexFrom .idle cs) := by
  rw [lexFrom_step (s' := .idle) (out := [.rbr]) _ rfl, lexFrom_sp]
theorem lexFrom_bang_sp (cs : Text) : lexFrom .idle ('!' :: ' ' :: cs) = pre [.bang] (lexFrom .idle cs) := by
  rw [lexFrom_step (s' := .bang) (out := []) _ rfl, lexFrom_step (s' := .idle) (out := [.bang]) _ rfl]; simp

theorem lexFrom_bop (o : BOp) (cs : Text) :
    lexFrom .idle (' ' :: o.sym :: ' ' :: cs) = pre [.bop o] (lexFrom .idle cs) := by
  rw [lexFrom_sp]
  cases o
  · show lexFrom .idle ('&' :: ' ' :: cs) = _
    rw [lexFrom_step (s' := .idle) (out := [.bop .and]) _ rfl, lexFrom_sp]
  · show lexFrom .idle ('|' :: ' ' :: cs) = _
    rw [lexFrom_step (s' := .idle) (out := [.bop .or]) _ rfl, lexFrom_sp]
  · show lexFrom .idle ('^' :: ' ' :: cs) = _
    rw [lexFrom_step (s' := .idle) (out := [.bop .xor]) _ rfl, lexFrom_sp]

theorem lexFrom_modes : ∀ (ms : List Nat) (r : Text), NoDigitHead r →
    lexFrom .idle (printModes ms ++ r) = pre (modeToks ms) (lexFrom .idle r)
  | [], r, _ => by simp [printModes, modeToks]
  | [m], r, h => by simpa [printModes, modeToks] using lexFrom_dec m r h
  | m :: m' :: ms, r, h => by
    have ih := lexFrom_modes (m' :: ms) r h
    simp only [printModes, modeToks, List.append_assoc, List.cons_append]
    rw [lexFrom_dec _ _ (by exact (rfl : (',' : Char).isDigit = false))]
    rw [lexFrom_comma_sp, ih]
    simp

theorem noDigit_rpar (r : Text) : NoDigitHead (')' :: r) := (rfl : (')' : Char).isDigit = false)
theorem noDigit_rbr (r : Text) : NoDigitHead (']' :: r) := (rfl : (']' : Char).isDigit = false)
theorem noDigit_sp (r : Text) : NoDigitHead (' ' :: r) := (rfl : (' ' : Char).isDigit = false)

mutual
  theorem lexFrom_print (b : Bool) : ∀ (x : Expr) (r : Text), NoDigitHead r →
      lexFrom .idle (print b x ++ r) = pre (toks b x) (lexFrom .idle r)
    | .cond ms c n, r, h => by
      simp only [print, toks, List.cons_append, List.append_assoc]
      rw [lexFrom_lbr, lexFrom_modes _ _ (noDigit_rbr _), lexFrom_rbr_sp, lexFrom_cmp, lexFrom_dec _ _ h]
      simp
    | .not x, r, h => by
      cases b with
      | false =>
        simp only [print, toks, Bool.false_eq_true, if_false, List.cons_append]
        rw [lexFrom_bang_sp, lexFrom_print false x r h]
        simp
      | true =>
        simp only [print, toks, if_true, List.cons_append, List.append_assoc, List.nil_append]
        rw [lexFrom_lpar, lexFrom_bang_sp, lexFrom_print true x _ (noDigit_rpar r), lexFrom_rpar]
        simp
    | .nary o as, r, h => by
      simp only [print, toks, List.cons_append, List.append_assoc, List.nil_append]
      rw [lexFrom_lpar, lexFrom_printArgs b o as _ (noDigit_rpar r), lexFrom_rpar]
      simp
  theorem lexFrom_printArgs (b : Bool) (o : BOp) : ∀ (as : Args) (r : Text), NoDigitHead r →
      lexFrom .idle (printArgs b o as ++ r) = pre (toksArgs b o as) (lexFrom .idle r)
    | .nil, r, _ => by simp [printArgs, toksArgs]
    | .cons x rest, r, h => by
      simp only [printArgs, toksArgs, List.append_assoc]
      have ht : NoDigitHead (printTail b o rest ++ r) := by
        cases rest with
        | nil => simpa [printTail] using h
        | cons y r' => exact noDigit_sp _
      rw [lexFrom_print b x _ ht, lexFrom_printTail b o rest r h]
      simp
  theorem lexFrom_printTail (b : Bool) (o : BOp) : ∀ (as : Args) (r : Text), NoDigitHead r →
      lexFrom .idle (printTail b o as ++ r) = pre (toksTail b o as) (lexFrom .idle r)
    | .nil, r, _ => by simp [printTail, toksTail]
    | .cons x rest, r, h => by
      simp only [printTail, toksTail, List.cons_append, List.append_assoc]
      have ht : NoDigitHead (printTail b o rest ++ r) := by
        cases rest with
        | nil => simpa [printTail] using h
        | cons y r' => exact noDigit_sp _
      rw [lexFrom_bop, lexFrom_print b x _ ht, lexFrom_printTail b o rest r h]
      simp
end

/-- the lexer reads what either writer wrote as the token view of the expression -/
theorem lex_print (b : Bool) (x : Expr) : lex (print b x) = some (toks b x) := by
  have := lexFrom_print b x [] trivial
  simpa [lex, lexFrom, finish, pre] using this

/-! ## parser: conditions -/

theorem insertSorted_of_incFrom (a : Nat) : ∀ r, incFrom a r = true → insertSorted a r = a :: r
  | [], _ => rfl
  | b :: r, h => by
    simp only [incFrom, Bool.and_eq_true, decide_eq_true_eq] at h
    simp [insertSorted, Nat.le_of_lt h.1]

theorem isort_of_incFrom : ∀ (r : List Nat) (a : Nat), incFrom a r = true → isort r = r
  | [], _, _ => rfl
  | b :: r, a, h => by
    simp only [incFrom, Bool.and_eq_true, decide_eq_true_eq] at h
    simp only [isort]
    rw [isort_of_incFrom r b h.2, insertSorted_of_incFrom b r h.2]

/-- sorting a strictly increasing list changes nothing -/
theorem isort_of_strictInc : ∀ ms, strictInc ms = true → isort ms = ms
  | [], h => by simp [strictInc] at h
  | a :: r, h => by
    simp only [strictInc] at h
    simp only [isort]
    rw [isort_of_incFrom r a h, insertSorted_of_incFrom a r h]

theorem pModes_modeToks : ∀ (ms : List Nat) (r : List Tok), ms ≠ [] →
    pModes (modeToks ms ++ .rbr :: r) = some (ms, r)
  | [], _, h => absurd rfl h
  | [m], r, _ => rfl
  | m :: m' :: ms, r, _ => by
    have ih := pModes_modeToks (m' :: ms) r (by simp)
    show (match pModes (modeToks (m' :: ms) ++ .rbr :: r) with
      | none => none
      | some (ms', r') => some (m :: ms', r')) = _
    rw [ih]

theorem pCond_toks (ms : List Nat) (c : Cmp) (n : Nat) (r : List Tok)
    (h : (Expr.cond ms c n).wfb = true) :
    pCond (modeToks ms ++ .rbr :: .cmp c :: .num n :: r) = some (.cond ms c n, r) := by
  have h' := h
  simp only [Expr.wfb, Bool.and_eq_true] at h'
  have hne : ms ≠ [] := by
    intro e; rw [e] at h'; simp [strictInc] at h'
  unfold pCond
  rw [pModes_modeToks ms _ hne]
  simp only [isort_of_strictInc ms h'.1.1]
  simp only [Expr.wfb] at h
  rw [if_pos h]

/-! ## parser: one unfolding step of each function -/

def NotBangHead : List Tok → Prop
  | .bang :: _ => False
  | _ => True

/-- the rest does not continue a sequence (it is empty or starts with something that is not a
    binary operator) -/
def Closed : List Tok → Prop
  | .bop _ :: _ => False
  | _ => True

theorem closed_nil : Closed [] := trivial
theorem closed_rpar (r : List Tok) : Closed (.rpar :: r) := trivial

theorem pSeq_bang (f : Nat) (ts : List Tok) {x : Expr} {r : List Tok} (h : pSeq f ts = some (x, r)) :
    pSeq (f + 1) (.bang :: ts) = some (.not x, r) := by
  simp [pSeq, h]

theorem pSeq_closed (f : Nat) (ts : List Tok) {x : Expr} {r : List Tok} (hb : NotBangHead ts)
    (h : pOperand f ts = some (x, r)) (hc : Closed r) : pSeq (f + 1) ts = some (x, r) := by
  cases ts with
  | nil => cases r with
    | nil => simp [pSeq, h]
    | cons t r' => cases t <;> first | exact absurd hc id | simp [pSeq, h]
  | cons t0 ts' =>
    cases t0 <;> first | exact absurd hb id | skip
    all_goals
      cases r with
      | nil => simp [pSeq, h]
      | cons t r' => cases t <;> first | exact absurd hc id | simp [pSeq, h]

theorem pSeq_bop (f : Nat) (ts : List Tok) {x : Expr} {o : BOp} {r r' : List Tok} {as : Args}
    (hb : NotBangHead ts) (h : pOperand f ts = some (x, .bop o :: r)) (hl : pLoop f o r = some (as, r')) :
    pSeq (f + 1) ts = some (.nary o (.cons x as), r') := by
  cases ts with
  | nil => simp [pSeq, h, hl]
  | cons t0 ts' =>
    cases t0 <;> first | exact absurd hb id | simp [pSeq, h, hl]

theorem pOperand_lpar (f : Nat) (ts : List Tok) {x : Expr} {r : List Tok}
    (h : pSeq f ts = some (x, .rpar :: r)) : pOperand (f + 1) (.lpar :: ts) = some (x, r) := by
  simp [pOperand, h]

theorem pOperand_bang (f : Nat) (ts : List Tok) {x : Expr} {r : List Tok}
    (h : pSeq f ts = some (x, r)) : pOperand (f + 1) (.bang :: ts) = some (.not x, r) := by
  simp [pOperand, h]

theorem pOperand_lbr (f : Nat) (ts : List Tok) : pOperand (f + 1) (.lbr :: ts) = pCond ts := by
  simp [pOperand]

theorem pLoop_last (f : Nat) (o : BOp) (ts : List Tok) {y : Expr} {r : List Tok}
    (h : pOperand f ts = some (y, r)) (hc : Closed r) : pLoop (f + 1) o ts = some (.cons y .nil, r) := by
  cases r with
  | nil => simp [pLoop, h]
  | cons t r' => cases t <;> first | exact absurd hc id | simp [pLoop, h]

theorem pLoop_more (f : Nat) (o : BOp) (ts : List Tok) {y : Expr} {r r' : List Tok} {ys : Args}
    (h : pOperand f ts = some (y, .bop o :: r)) (hl : pLoop f o r = some (ys, r')) :
    pLoop (f + 1) o ts = some (.cons y ys, r') := by
  simp [pLoop, h, hl]

/-! ## parser: the written token stream is read back -/

mutual
  /-- fuel that certainly suffices to read the expression back -/
  def sz : Expr → Nat
    | .cond .. => 1
    | .not x => sz x + 3
    | .nary _ as => szA as + 2
  def szA : Args → Nat
    | .nil => 0
    | .cons x r => sz x + szA r + 1
end

/-- the writer `b` is adequate for `x`: it is the repaired writer, or no negation is a non-last operand -/
def Ok (b : Bool) (x : Expr) : Prop := b = true ∨ x.nlfb = true
def OkA (b : Bool) (as : Args) : Prop := b = true ∨ as.nlfb = true

/-- the written form of `x` is delimited whatever follows -/
def SelfDelim (b : Bool) (x : Expr) : Prop := b = true ∨ x.isNot = false

theorem toks_notBang (b : Bool) (x : Expr) (r : List Tok) (h : SelfDelim b x) :
    NotBangHead (toks b x ++ r) := by
  cases x with
  | cond ms c n => simp [toks, NotBangHead]
  | nary o as => simp [toks, NotBangHead]
  | not y =>
    rcases h with h | h
    · subst h; simp [toks, NotBangHead]
    · simp [Expr.isNot] at h

structure Good (b : Bool) (x : Expr) : Prop where
  /-- as an operand, whatever follows -/
  opnd : SelfDelim b x → ∀ f r, sz x ≤ f → pOperand f (toks b x ++ r) = some (x, r)
  /-- as an operand, when no binary operator follows -/
  opndC : ∀ f r, Closed r → sz x ≤ f → pOperand f (toks b x ++ r) = some (x, r)
  /-- as a sequence, when no binary operator follows -/
  seqC : ∀ f r, Closed r → sz x + 1 ≤ f → pSeq f (toks b x ++ r) = some (x, r)

theorem good_of_selfDelim {b : Bool} {x : Expr} (hsd : SelfDelim b x)
    (h1 : ∀ f r, sz x ≤ f → pOperand f (toks b x ++ r) = some (x, r)) : Good b x where
  opnd := fun _ => h1
  opndC := fun f r _ hf => h1 f r hf
  seqC := fun f r hc hf => by
    obtain ⟨f', rfl⟩ : ∃ f', f = f' + 1 := ⟨f - 1, by omega⟩
    exact pSeq_closed f' _ (toks_notBang b x r hsd) (h1 f' r (by omega)) hc

theorem args_two : ∀ (as : Args), 2 ≤ as.length → ∃ a1 a2 rest, as = .cons a1 (.cons a2 rest)
  | .nil, h => by simp [Args.length] at h
  | .cons _ .nil, h => by simp [Args.length] at h
  | .cons a1 (.cons a2 rest), _ => ⟨a1, a2, rest, rfl⟩

mutual
  theorem good (b : Bool) : ∀ (x : Expr), x.wfb = true → Ok b x → Good b x
    | .cond ms c n, hw, _ => by
      refine good_of_selfDelim (Or.inr rfl) ?_
      intro f r hf
      obtain ⟨f', rfl⟩ : ∃ f', f = f' + 1 := ⟨f - 1, by simp [sz] at hf; omega⟩
      simp only [toks, List.cons_append, List.append_assoc]
      rw [pOperand_lbr]
      exact pCond_toks ms c n r hw
    | .not y, hw, hok => by
      have hwy : y.wfb = true := by simpa [Expr.wfb] using hw
      have hoky : Ok b y := by
        rcases hok with h | h
        · exact Or.inl h
        · exact Or.inr (by simpa [Expr.nlfb] using h)
      have ih := good b y hwy hoky
      cases b with
      | true =>
        refine good_of_selfDelim (Or.inl rfl) ?_
        intro f r hf
        simp only [sz] at hf
        obtain ⟨f', rfl⟩ : ∃ f', f = f' + 2 := ⟨f - 2, by omega⟩
        simp only [toks, if_true, List.cons_append, List.append_assoc, List.nil_append]
        apply pOperand_lpar
        apply pSeq_bang
        exact ih.seqC f' _ (closed_rpar r) (by omega)
      | false =>
        refine ⟨?_, ?_, ?_⟩
        · intro hsd
          rcases hsd with h | h
          · cases h
          · simp [Expr.isNot] at h
        · intro f r hc hf
          simp only [sz] at hf
          obtain ⟨f', rfl⟩ : ∃ f', f = f' + 1 := ⟨f - 1, by omega⟩
          simp only [toks, Bool.false_eq_true, if_false, List.cons_append]
          apply pOperand_bang
          exact ih.seqC f' r hc (by omega)
        · intro f r hc hf
          simp only [sz] at hf
          obtain ⟨f', rfl⟩ : ∃ f', f = f' + 1 := ⟨f - 1, by omega⟩
          simp only [toks, Bool.false_eq_true, if_false, List.cons_append]
          apply pSeq_bang
          exact ih.seqC f' r hc (by omega)
    | .nary o .nil, hw, _ => by simp [Expr.wfb, Args.length] at hw
    | .nary o (.cons a1 .nil), hw, _ => by simp [Expr.wfb, Args.length] at hw
    | .nary o (.cons a1 (.cons a2 rest)), hw, hok => by
      simp only [Expr.wfb, Args.wfb, Bool.and_eq_true] at hw
      have hw1 : a1.wfb = true := hw.2.1
      have hwr : (Args.cons a2 rest).wfb = true := by simp [Args.wfb, hw.2.2.1, hw.2.2.2]
      have hsd1 : SelfDelim b a1 := by
        rcases hok with h | h
        · exact Or.inl h
        · simp only [Expr.nlfb, Args.nlfb, Bool.and_eq_true, Bool.not_eq_true'] at h
          exact Or.inr h.1.1
      have hok1 : Ok b a1 := by
        rcases hok with h | h
        · exact Or.inl h
        · simp only [Expr.nlfb, Args.nlfb, Bool.and_eq_true] at h
          exact Or.inr h.1.2
      have hokr : OkA b (.cons a2 rest) := by
        rcases hok with h | h
        · exact Or.inl h
        · simp only [Expr.nlfb, Args.nlfb, Bool.and_eq_true] at h
          exact Or.inr h.2
      have ih1 := good b a1 hw1 hok1
      have ihr := goodArgs b o (.cons a2 rest) hwr hokr
      refine good_of_selfDelim (Or.inr rfl) ?_
      intro f r hf
      simp only [sz, szA] at hf
      obtain ⟨f', rfl⟩ : ∃ f', f = f' + 2 := ⟨f - 2, by omega⟩
      simp only [toks, toksArgs, toksTail, List.cons_append, List.append_assoc, List.nil_append]
      apply pOperand_lpar
      refine pSeq_bop f' _ (toks_notBang b a1 _ hsd1) (ih1.opnd hsd1 f' _ (by omega)) ?_
      have := ihr f' (.rpar :: r) (closed_rpar r) (by simp only [szA]; omega) (by simp)
      simpa only [toksArgs, List.append_assoc] using this
  theorem goodArgs (b : Bool) (o : BOp) : ∀ (as : Args), as.wfb = true → OkA b as →
      ∀ f r, Closed r → szA as ≤ f → as ≠ .nil → pLoop f o (toksArgs b o as ++ r) = some (as, r)
    | .nil, _, _ => fun _ _ _ _ h => absurd rfl h
    | .cons x .nil, hw, hok => by
      intro f r hc hf _
      simp only [Args.wfb, Bool.and_eq_true] at hw
      have hokx : Ok b x := by
        rcases hok with h | h
        · exact Or.inl h
        · exact Or.inr (by simpa [Args.nlfb] using h)
      have ih := good b x hw.1 hokx
      simp only [szA] at hf
      obtain ⟨f', rfl⟩ : ∃ f', f = f' + 1 := ⟨f - 1, by omega⟩
      simp only [toksArgs, toksTail, List.append_nil]
      exact pLoop_last f' o _ (ih.opndC f' r hc (by omega)) hc
    | .cons x (.cons y r2), hw, hok => by
      intro f r hc hf _
      simp only [Args.wfb, Bool.and_eq_true] at hw
      have hwr : (Args.cons y r2).wfb = true := by simp [Args.wfb, hw.2.1, hw.2.2]
      have hsd : SelfDelim b x := by
        rcases hok with h | h
        · exact Or.inl h
        · simp only [Args.nlfb, Bool.and_eq_true, Bool.not_eq_true'] at h
          exact Or.inr h.1.1
      have hokx : Ok b x := by
        rcases hok with h | h
        · exact Or.inl h
        · simp only [Args.nlfb, Bool.and_eq_true] at h
          exact Or.inr h.1.2
      have hokr : OkA b (.cons y r2) := by
        rcases hok with h | h
        · exact Or.inl h
        · simp only [Args.nlfb, Bool.and_eq_true] at h
          exact Or.inr h.2
      have ih := good b x hw.1 hokx
      have ihr := goodArgs b o (.cons y r2) hwr hokr
      simp only [szA] at hf
      obtain ⟨f', rfl⟩ : ∃ f', f = f' + 1 := ⟨f - 1, by omega⟩
      simp only [toksArgs, toksTail, List.cons_append, List.append_assoc]
      refine pLoop_more f' o _ (ih.opnd hsd f' _ (by omega)) ?_
      have := ihr f' r hc (by simp only [szA]; omega) (by simp)
      simpa only [toksArgs, List.append_assoc] using this
end

mutual
  theorem sz_le (b : Bool) : ∀ (x : Expr), sz x + 1 ≤ 3 * (toks b x).length
    | .cond ms c n => by simp [sz, toks]; omega
    | .not y => by
      have := sz_le b y
      cases b <;> simp [sz, toks] at * <;> omega
    | .nary o as => by
      have := szA_le b o as
      simp [sz, toks] at *; omega
  theorem szA_le (b : Bool) (o : BOp) : ∀ (as : Args), szA as ≤ 3 * (toksArgs b o as).length
    | .nil => by simp [szA, toksArgs]
    | .cons x r => by
      have h1 := sz_le b x
      have h2 := szT_le b o r
      simp [szA, toksArgs] at *; omega
  theorem szT_le (b : Bool) (o : BOp) : ∀ (as : Args), szA as ≤ 3 * (toksTail b o as).length
    | .nil => by simp [szA, toksTail]
    | .cons x r => by
      have h1 := sz_le b x
      have h2 := szT_le b o r
      simp [szA, toksTail] at *; omega
end

/-- the token parser reads the token view of an adequately written expression back -/
theorem parseToks_toks (b : Bool) (x : Expr) (hw : x.WF) (hok : Ok b x) :
    parseToks (toks b x) = some x := by
  have h := (good b x hw hok).seqC (fuelFor (toks b x)) [] closed_nil (by
    have := sz_le b x
    simp only [fuelFor]; omega)
  simp only [List.append_nil] at h
  simp [parseToks, h]

theorem parse_print (b : Bool) (x : Expr) (hw : x.WF) (hok : Ok b x) : parse (print b x) = some x := by
  simp only [parse, lex_print]
  exact parseToks_toks b x hw hok

/-! ## the theorems -/

/-- **Main theorem.**  The repaired writer (every negation parenthesised) followed by the reader
    is the identity on every well-formed expression. -/
theorem parse_print_fixed : ∀ x : Expr, x.WF → parse (print true x) = some x :=
  fun x hw => parse_print true x hw (Or.inl rfl)

/-- The writer as found is correct on the expressions in which no negation is a non-last operand. -/
theorem parse_print_asfound_partial :
    ∀ x : Expr, x.WF → x.NotLastFree → parse (print false x) = some x :=
  fun x hw hn => parse_print false x hw (Or.inr hn)

theorem print_head (b : Bool) (x : Expr) : ∃ c cs, print b x = c :: cs ∧ c ≠ ' ' := by
  cases x with
  | cond ms c n => exact ⟨'[', _, by simp only [print]; rfl, by decide⟩
  | nary o as => exact ⟨'(', _, by simp only [print]; rfl, by decide⟩
  | not y =>
    cases b with
    | true => exact ⟨'(', _, by simp only [print, if_true]; rfl, by decide⟩
    | false => exact ⟨'!', _, by simp only [print, Bool.false_eq_true, if_false]; rfl, by decide⟩

theorem parseTop_of_parse (b : Bool) (x : Expr) (h : parse (print b x) = some x) :
    parseTop (printTop b (some x)) = some (some x) := by
  obtain ⟨c, cs, hp, hc⟩ := print_head b x
  simp only [printTop, parseTop, h]
  rw [hp] at *
  simp [hc]

/-- the same including the empty PostSelect (`none`, written as the empty text) -/
theorem parseTop_printTop_fixed :
    ∀ x : Option Expr, (∀ e, x = some e → e.WF) → parseTop (printTop true x) = some x
  | none, _ => rfl
  | some e, h => parseTop_of_parse true e (parse_print_fixed e (h e rfl))

theorem parseTop_printTop_asfound_partial :
    ∀ x : Option Expr, (∀ e, x = some e → e.WF ∧ e.NotLastFree) → parseTop (printTop false x) = some x
  | none, _ => rfl
  | some e, h => parseTop_of_parse false e (parse_print_asfound_partial e (h e rfl).1 (h e rfl).2)

/-- round trip through the repaired writer preserves the predicate -/
theorem eval_roundtrip_fixed (x : Option Expr) (h : ∀ e, x = some e → e.WF) (st : List Nat) :
    (parseTop (printTop true x)).map (fun y => evalTop y st) = some (evalTop x st) := by
  rw [parseTop_printTop_fixed x h]; rfl


/-! ### the defect of the writer as found -/

/-- `(![0]==1) & [1]==1` -/
def witness : Expr :=
  .nary .and (.cons (.not (.cond [0] .eq 1)) (.cons (.cond [1] .eq 1) .nil))

/-- `!([0]==1 & [1]==1)` -/
def witnessRead : Expr :=
  .not (.nary .and (.cons (.cond [0] .eq 1) (.cons (.cond [1] .eq 1) .nil)))

/-- **Defect.**  The writer as found turns `(![0]==1) & [1]==1` into the text
    `(! [0] == 1 & [1] == 1)`, which the reader understands as `!([0]==1 & [1]==1)`: a different
    expression and a different predicate (they disagree on the state `|0,0>`). -/
theorem print_asfound_changes_meaning :
    witness.WF ∧
    print false witness = "(! [0] == 1 & [1] == 1)".toList ∧
    parse (print false witness) = some witnessRead ∧
    witnessRead ≠ witness ∧
    eval witness [0, 0] = false ∧ eval witnessRead [0, 0] = true := by
  refine ⟨by decide, by decide, by rfl, by decide, by rfl, by rfl⟩

theorem parse_print_asfound_fails : ¬ ∀ x : Expr, x.WF → parse (print false x) = some x := by
  intro h
  have h1 := h witness (by decide)
  have h2 : parse (print false witness) = some witnessRead := by rfl
  rw [h2] at h1
  exact absurd (Option.some.inj h1) (by decide)

/-- the same defect with `|`: `(![0]==1) | [1]==1` is read back as `!([0]==1 | [1]==1)`;
    they disagree on `|0,1>` -/
theorem print_asfound_changes_meaning_or :
    let x : Expr := .nary .or (.cons (.not (.cond [0] .eq 1)) (.cons (.cond [1] .eq 1) .nil))
    let y : Expr := .not (.nary .or (.cons (.cond [0] .eq 1) (.cons (.cond [1] .eq 1) .nil)))
    parse (print false x) = some y ∧ parse (print true x) = some x ∧
    eval x [0, 1] = true ∧ eval y [0, 1] = false := by
  refine ⟨by rfl, by rfl, by rfl, by rfl⟩

/-- with `^` the expression read back is again a different tree (`PostSelect.__eq__` is `False`),
    but here the predicate happens to be the same: `¬a ⊕ b ⊕ c = ¬(a ⊕ b ⊕ c)` -/
theorem print_asfound_xor_changes_tree_only :
    let x : Expr := .nary .xor (.cons (.not (.cond [0] .eq 1)) (.cons (.cond [1] .eq 1) (.cons (.cond [2] .eq 1) .nil)))
    let y : Expr := .not (.nary .xor (.cons (.cond [0] .eq 1) (.cons (.cond [1] .eq 1) (.cons (.cond [2] .eq 1) .nil))))
    parse (print false x) = some y ∧ y ≠ x ∧ ∀ st, eval x st = eval y st := by
  refine ⟨by rfl, by decide, ?_⟩
  intro st
  simp only [eval, evalArgs, BOp.fold, parity]
  cases Cmp.eq.test (sumModes st [0]) 1 <;> cases Cmp.eq.test (sumModes st [1]) 1 <;>
    cases Cmp.eq.test (sumModes st [2]) 1 <;> rfl

theorem toksTail_of_ne_nil (b : Bool) (o : BOp) : ∀ (as : Args), as ≠ .nil →
    toksTail b o as = .bop o :: toksArgs b o as
  | .nil, h => absurd rfl h
  | .cons _ _, _ => by simp [toksTail, toksArgs]

/-- **The defect, for all operands.**  Whenever the *first* operand of an n-ary node is a negation
    `!a` (of something that is not itself a negation), the writer as found produces a text which the
    reader understands as the negation of the whole node: `(!a) o b o …` comes back as `!(a o b o …)`. -/
theorem asfound_misreads_first (o : BOp) (a : Expr) (rest : Args)
    (ha : a.WF) (hna : a.NotLastFree) (hsa : a.isNot = false)
    (hr : rest.wfb = true) (hnr : rest.nlfb = true) (hne : rest ≠ .nil) :
    parse (print false (.nary o (.cons (.not a) rest))) = some (.not (.nary o (.cons a rest))) := by
  simp only [parse, lex_print]
  have hsd : SelfDelim false a := Or.inr hsa
  have ga := good false a ha (Or.inr hna)
  have gr := goodArgs false o rest hr (Or.inr hnr)
  have htoks : toks false (.nary o (.cons (.not a) rest))
      = .lpar :: .bang :: (toks false a ++ .bop o :: (toksArgs false o rest ++ [.rpar])) := by
    simp [toks, toksArgs, toksTail_of_ne_nil false o rest hne]
  have hlen : (toks false (.nary o (.cons (.not a) rest))).length
      = (toks false a).length + (toksArgs false o rest).length + 4 := by
    rw [htoks]; simp; omega
  have h1 := sz_le false a
  have h2 := szA_le false o rest
  unfold parseToks
  rw [show fuelFor (toks false (.nary o (.cons (.not a) rest)))
      = (3 * (toks false a).length + 3 * (toksArgs false o rest).length + 8) + 1 + 1 + 1 + 1 from by
    simp only [fuelFor, hlen]; omega]
  rw [htoks]
  have hloop := gr (3 * (toks false a).length + 3 * (toksArgs false o rest).length + 8) [.rpar]
    (closed_rpar []) (by omega) hne
  have hop := ga.opnd hsd (3 * (toks false a).length + 3 * (toksArgs false o rest).length + 8)
    (.bop o :: (toksArgs false o rest ++ [.rpar])) (by omega)
  have hseq := pSeq_bop _ _ (toks_notBang false a _ hsd) hop hloop
  have hnot := pSeq_bang _ _ hseq
  have hpar := pOperand_lpar _ _ hnot
  have htop := pSeq_closed _ (.lpar :: .bang :: (toks false a ++ .bop o :: (toksArgs false o rest ++ [.rpar])))
    trivial hpar closed_nil
  rw [htop]

/-- … hence the round trip through the writer as found fails on every such expression -/
theorem asfound_fails_first (o : BOp) (a : Expr) (rest : Args)
    (ha : a.WF) (hna : a.NotLastFree) (hsa : a.isNot = false)
    (hr : rest.wfb = true) (hnr : rest.nlfb = true) (hne : rest ≠ .nil) :
    parse (print false (.nary o (.cons (.not a) rest))) ≠ some (.nary o (.cons (.not a) rest)) := by
  rw [asfound_misreads_first o a rest ha hna hsa hr hnr hne]
  intro h
  cases h

/-! ### non-vacuity -/

example : witness.WF ∧ ¬ witness.NotLastFree := by decide
example : witnessRead.WF ∧ witnessRead.NotLastFree := by decide
example : parse (print true witness) = some witness := parse_print_fixed _ (by decide)
example : parse (print false witness) = some witnessRead :=
  asfound_misreads_first .and _ _ (by decide) (by decide) rfl (by decide) (by decide) (by simp)
example : parse (print false witnessRead) = some witnessRead :=
  parse_print_asfound_partial _ (by decide) (by decide)
/-- a deeper one: nested same-operator groups, a negation in last position, three modes -/
example :
    let x : Expr := .nary .or (.cons (.nary .or (.cons (.cond [0, 2, 4] .ge 2) (.cons (.cond [1] .lt 3) .nil)))
      (.cons (.cond [3] .ne 0) (.cons (.not (.not (.cond [1, 2] .le 1))) .nil)))
    x.WF ∧ x.NotLastFree ∧
    print false x = "(([0, 2, 4] >= 2 | [1] < 3) | [3] != 0 | ! ! [1, 2] <= 1)".toList ∧
    print true x = "(([0, 2, 4] >= 2 | [1] < 3) | [3] != 0 | (! (! [1, 2] <= 1)))".toList := by
  decide
/-- not well-formed: unsorted modes, duplicate modes, a one-operand group, a number at the bound -/
example : ¬ (Expr.cond [2, 0] .eq 1).WF ∧ ¬ (Expr.cond [0, 0] .eq 1).WF ∧ ¬ (Expr.cond [] .eq 1).WF ∧
    ¬ (Expr.nary .and (.cons (.cond [0] .eq 1) .nil)).WF ∧ ¬ (Expr.cond [0] .eq 2147483648).WF ∧
    (Expr.cond [0] .eq 2147483647).WF := by decide

/-! ### facts about the reader on user text (kernel-evaluated examples of the modelled grammar)

  `!` captures the rest of the sequence; a different operator ends an inner sequence; a sequence
  that *starts* with `!` is not continued; one operator per sequence; sorted modes; bound.
  (`String.reduceToList` turns the literal into a character list before the kernel evaluates.) -/

example : parse "![0]==1 & [1]==1".toList = some witnessRead := by
  simp only [String.reduceToList]; rfl
example : (parse "[3]==1 | ![0]==1 & [1]==1 | [2]==1".toList).map (print false)
    = some "([3] == 1 | ! ([0] == 1 & [1] == 1) | [2] == 1)".toList := by
  simp only [String.reduceToList]; rfl
example : parse "![0]==1 | [1]==1 & [2]==1".toList = none := by
  simp only [String.reduceToList]; rfl
example : parse "[1]==1 & [0]==1 | [2]==1".toList = none := by
  simp only [String.reduceToList]; rfl
example : parse "([2 , 0]==01)".toList = some (.cond [0, 2] .eq 1) := by
  simp only [String.reduceToList]; rfl
example : parse "[0,0]==1".toList = none ∧ parse "[]==1".toList = none ∧
    parse "[0]==2147483648".toList = none ∧ parse "[0]= =1".toList = none := by
  simp only [String.reduceToList]
  refine ⟨by rfl, by rfl, by rfl, by rfl⟩
example : parseTop "  ".toList = some none ∧ parseTop "\t".toList = none := by
  simp only [String.reduceToList]
  refine ⟨by rfl, by rfl⟩

end PM.C15.PS
