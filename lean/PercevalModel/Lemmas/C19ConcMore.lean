/-
  C19 (extension) — two objects of one name without the re-open discipline: what a launch (`run_parallel` /
  `run_sequential`, not a rerun) that returns normally leaves in the file, from ANY state of the acting object
  (no invariant, no reachability): lemmas for `Conc.launch_makes_file_the_launchers_list` of `Props/C19.lean`.
-/
import PercevalModel.Lemmas.C19Conc

namespace PM.C19.Conc

open PM.C19 PM.SM

/-- the directory exists and the file is the image of memory -/
def Img (s : State) : Prop := s.dir = true ∧ s.disk = some (s.mem.map toDict)

theorem write_img {s s' : State} (hd : s.dir = true) (h : write s = .ok s') : Img s' :=
  ⟨by rw [write_dir h]; exact hd, write_disk hd h⟩

theorem writeR_ok_img (s : State) (hd : s.dir = true) (hok : (writeR s).2 = .ok) : Img (writeR s).1 := by
  unfold writeR at hok ⊢
  cases hw : write s with
  | ok s' => exact write_img hd hw
  | error e => simp [hw] at hok

/-- a `_write_to_file` after a job was sent (and the wait of the sequential mode) that ends normally leaves the
file equal to the image of memory -/
theorem afterSend_ok (seq : Bool) (s : State) (p : Nat) (hd : s.dir = true) :
    (afterSend fixed seq s p).2 = .ok → Img (afterSend fixed seq s p).1 := by
  unfold afterSend
  cases hw : write s with
  | error e => intro h; cases h
  | ok s1 =>
    have h1 : Img s1 := write_img hd hw
    cases seq with
    | false => intro _; exact h1
    | true =>
      simp only [if_true]
      cases hm : s1.mem[p]? with
      | none => intro _; exact h1
      | some j =>
        simp only
        cases hp : pollSts j.st s1.sts with
        | cut => intro h; cases h
        | done x rest =>
          simp only
          have hI := writeR_ok_img { s1 with sts := rest, mem := upd (setSt x) s1.mem p } h1.1
          generalize writeR { s1 with sts := rest, mem := upd (setSt x) s1.mem p } = r at hI
          obtain ⟨s2, res⟩ := r
          cases res with
          | ok =>
            have h2 : Img s2 := hI rfl
            simp only
            split
            · intro h; cases h
            · intro _; exact h2
          | raised e => intro h; cases h
          | killed => intro h; cases h
        | raised x e rest =>
          simp only [fixed, if_true]
          split
          · intro h; cases h
          · intro h; cases h

/-- one iteration of the launch loop that ends normally: either nothing to do for this position (no job, or the
job has an identifier already) and nothing changed, or the file is the image of memory -/
theorem execIter_ok (seq : Bool) (s : State) (i : Nat) (hd : s.dir = true) :
    (execIter fixed seq s i).2 = .ok →
      Img (execIter fixed seq s i).1 ∨
      ((execIter fixed seq s i).1 = s ∧ ∀ j, s.mem[i]? = some j → j.id.isSome = true) := by
  unfold execIter
  cases hm : s.mem[i]? with
  | none => intro _; right; constructor <;> simp
  | some j =>
    simp only
    by_cases hid : j.id.isSome = true
    · simp only [hid, if_true]
      intro _
      right
      constructor <;> simp [hid]
    · simp only [hid, Bool.false_eq_true, if_false]
      split
      · intro h; cases h
      · cases hn : norm j with
        | error e => intro h; cases h
        | ok j1 =>
          simp only
          cases ho : s.outs with
          | nil => intro h; cases h
          | cons o r =>
            cases o with
            | refuse => intro h; cases h
            | accept g =>
              simp only
              intro h
              exact Or.inl (afterSend_ok seq _ i (by exact hd) h)

theorem launchIdx_ok (rp seq : Bool) : ∀ (is : List Nat) (s : State), s.dir = true →
    (launchIdx fixed false rp seq is s).2 = .ok →
      Img (launchIdx fixed false rp seq is s).1 ∨
      ((launchIdx fixed false rp seq is s).1 = s ∧ ∀ i ∈ is, ∀ j, s.mem[i]? = some j → j.id.isSome = true)
  | [], s, _, _ => Or.inr ⟨rfl, fun i hi => by cases hi⟩
  | i :: is, s, hd, hok => by
    unfold launchIdx at hok ⊢
    simp only [Bool.false_eq_true, if_false] at hok ⊢
    have h1 := execIter_ok seq s i hd
    generalize execIter fixed seq s i = r1 at h1 hok ⊢
    obtain ⟨s1, res1⟩ := r1
    cases res1 with
    | raised e => cases hok
    | killed => cases hok
    | ok =>
      simp only at hok ⊢
      rcases h1 rfl with hI | ⟨he, hi⟩
      · rcases launchIdx_ok rp seq is s1 hI.1 hok with h2 | ⟨h2, _⟩
        · exact Or.inl h2
        · left; rw [h2]; exact hI
      · have he' : s1 = s := he
        subst he'
        rcases launchIdx_ok rp seq is s1 hd hok with h2 | ⟨h2, h3⟩
        · exact Or.inl h2
        · refine Or.inr ⟨h2, ?_⟩
          intro i' hi' j hj
          rcases List.mem_cons.1 hi' with rfl | hi'
          · exact hi j hj
          · exact h3 i' hi' j hj

theorem mem_getElem?_range {α : Type} (l : List α) (x : α) (hx : x ∈ l) :
    ∃ i ∈ List.range l.length, l[i]? = some x := by
  obtain ⟨i, hi, rfl⟩ := List.getElem_of_mem hx
  exact ⟨i, List.mem_range.2 hi, List.getElem?_eq_getElem hi⟩

/-- the operation `run_parallel` / `run_sequential` on ANY state whose `job_group` directory exists -/
theorem launch_ok_written (s : State) (rp seq : Bool) (outs : List Outcome) (sts : List Ans) (hd : s.dir = true) :
    (step fixed s (.launch false rp seq outs sts)).2.res = .ok →
      (step fixed s (.launch false rp seq outs sts)).1.disk =
        some ((step fixed s (.launch false rp seq outs sts)).1.mem.map toDict) ∨
      ((step fixed s (.launch false rp seq outs sts)).1.mem = s.mem ∧
       (step fixed s (.launch false rp seq outs sts)).1.disk = s.disk ∧ ∀ j ∈ s.mem, j.id.isSome = true) := by
  intro hok
  have hok' : (launchIdx fixed false rp seq (List.range s.mem.length) { s with outs := outs, sts := sts }).2 = .ok := by
    simpa [step, launchOp] using hok
  rcases launchIdx_ok rp seq _ { s with outs := outs, sts := sts } hd hok' with h | ⟨h, hall⟩
  · left
    simpa [step, launchOp, clearScript] using h.2
  · right
    refine ⟨?_, ?_, ?_⟩
    · simp [step, launchOp, clearScript, h]
    · simp [step, launchOp, clearScript, h]
    · intro j hj
      obtain ⟨i, hi, hij⟩ := mem_getElem?_range s.mem j hj
      exact hall i hi j hij

/-! ### every launch mode (reruns included): written, or the image of the list and the file untouched -/

/-- since the acting object started (`m0` = image of its list then, `d0` = the file then): the file is the image of
its list now, or neither the image of its list nor the file has changed -/
def Kept (m0 : List DJob) (d0 : Option (List DJob)) (s : State) : Prop :=
  s.dir = true ∧ (s.disk = some (s.mem.map toDict) ∨ (s.mem.map toDict = m0 ∧ s.disk = d0))

theorem Kept.of_img {m0 : List DJob} {d0 : Option (List DJob)} {s : State} (h : Img s) : Kept m0 d0 s :=
  ⟨h.1, Or.inl h.2⟩

theorem Kept.of_same {m0 : List DJob} {d0 : Option (List DJob)} {s s' : State} (h : Kept m0 d0 s)
    (hdir : s'.dir = s.dir) (hdisk : s'.disk = s.disk) (hmem : s'.mem.map toDict = s.mem.map toDict) :
    Kept m0 d0 s' := by
  refine ⟨by rw [hdir]; exact h.1, ?_⟩
  rcases h.2 with h1 | ⟨h1, h2⟩
  · left; rw [hdisk, hmem]; exact h1
  · right; exact ⟨by rw [hmem]; exact h1, by rw [hdisk]; exact h2⟩

theorem setSt_self (j : Job) : setSt j.st j = j := by cases j; rfl

theorem refreshOne_kept {m0 : List DJob} {d0 : Option (List DJob)} (s : State) (i : Nat) (hk : Kept m0 d0 s) :
    (refreshOne fixed s i).2 = .ok → Kept m0 d0 (refreshOne fixed s i).1 := by
  unfold refreshOne
  cases hm : s.mem[i]? with
  | none => intro _; exact hk
  | some j =>
    simp only
    split
    · cases hs : s.sts with
      | nil => intro h; cases h
      | cons a rest =>
        cases a with
        | st x =>
          simp only
          split
          · rename_i hx
            intro _
            refine hk.of_same rfl rfl ?_
            apply map_toDict_upd
            intro j' hj'
            rw [hm] at hj'
            cases hj'
            rw [hx, setSt_self]
          · intro h
            exact Kept.of_img (writeR_ok_img _ hk.1 h)
        | fault e => intro h; cases h
        | ignored => intro _; exact hk.of_same rfl rfl rfl
        | intr => intro h; cases h
    · intro _; exact hk

theorem refreshIdx_kept {m0 : List DJob} {d0 : Option (List DJob)} : ∀ (is : List Nat) (s : State), Kept m0 d0 s →
    (refreshIdx fixed is s).2 = .ok → Kept m0 d0 (refreshIdx fixed is s).1
  | [], s, hk, _ => hk
  | i :: is, s, hk, hok => by
    unfold refreshIdx at hok ⊢
    have h1 := refreshOne_kept s i hk
    generalize refreshOne fixed s i = r1 at h1 hok ⊢
    obtain ⟨s1, res1⟩ := r1
    cases res1 with
    | raised e => cases hok
    | killed => cases hok
    | ok => exact refreshIdx_kept is s1 (h1 rfl) hok

theorem rerunIter_kept {m0 : List DJob} {d0 : Option (List DJob)} (rp seq : Bool) (s : State) (i : Nat)
    (hk : Kept m0 d0 s) :
    (rerunIter fixed rp seq s i).2 = .ok → Kept m0 d0 (rerunIter fixed rp seq s i).1 := by
  unfold rerunIter
  simp only [fixed, if_true]
  cases hm : s.mem[i]? with
  | none => intro _; exact hk
  | some j =>
    simp only
    split
    · intro _; exact hk
    · cases hn : norm j with
      | error e => intro h; cases h
      | ok j1 =>
        simp only
        cases ho : s.outs with
        | nil => intro h; cases h
        | cons o r =>
          cases o with
          | refuse => intro h; cases h
          | accept g =>
            simp only
            cases rp with
            | true =>
              simp only [if_true]
              intro h
              exact Kept.of_img (afterSend_ok seq _ _ (by exact hk.1) h)
            | false =>
              simp only [Bool.false_eq_true, if_false]
              intro h
              exact Kept.of_img (afterSend_ok seq _ _ (by exact hk.1) h)

theorem execIter_kept {m0 : List DJob} {d0 : Option (List DJob)} (seq : Bool) (s : State) (i : Nat)
    (hk : Kept m0 d0 s) :
    (execIter fixed seq s i).2 = .ok → Kept m0 d0 (execIter fixed seq s i).1 := by
  intro h
  rcases execIter_ok seq s i hk.1 h with h1 | ⟨h1, _⟩
  · exact Kept.of_img h1
  · rw [h1]; exact hk

theorem launchIdx_kept {m0 : List DJob} {d0 : Option (List DJob)} (rr rp seq : Bool) :
    ∀ (is : List Nat) (s : State), Kept m0 d0 s →
    (launchIdx fixed rr rp seq is s).2 = .ok → Kept m0 d0 (launchIdx fixed rr rp seq is s).1
  | [], s, hk, _ => hk
  | i :: is, s, hk, hok => by
    unfold launchIdx at hok ⊢
    have h1 : (if rr = true then rerunIter fixed rp seq s i else execIter fixed seq s i).2 = .ok →
        Kept m0 d0 (if rr = true then rerunIter fixed rp seq s i else execIter fixed seq s i).1 := by
      cases rr with
      | true => exact rerunIter_kept rp seq s i hk
      | false => exact execIter_kept seq s i hk
    generalize (if rr = true then rerunIter fixed rp seq s i else execIter fixed seq s i) = r1 at h1 hok ⊢
    obtain ⟨s1, res1⟩ := r1
    cases res1 with
    | raised e => cases hok
    | killed => cases hok
    | ok => exact launchIdx_kept rr rp seq is s1 (h1 rfl) hok

theorem launchOp_kept {m0 : List DJob} {d0 : Option (List DJob)} (rr rp seq : Bool) (s : State)
    (hk : Kept m0 d0 s) :
    (launchOp fixed rr rp seq s).2 = .ok → Kept m0 d0 (launchOp fixed rr rp seq s).1 := by
  unfold launchOp
  have h1 : (if rr = true then refreshAll fixed s else (s, Res.ok)).2 = .ok →
      Kept m0 d0 (if rr = true then refreshAll fixed s else (s, Res.ok)).1 := by
    cases rr with
    | true => exact refreshIdx_kept _ s hk
    | false => intro _; exact hk
  generalize (if rr = true then refreshAll fixed s else (s, Res.ok)) = r1 at h1 ⊢
  obtain ⟨s1, res1⟩ := r1
  cases res1 with
  | raised e => intro h; cases h
  | killed => intro h; cases h
  | ok => exact launchIdx_kept rr rp seq _ s1 (h1 rfl)

/-- every launch operation (`run_parallel`, `run_sequential`, `rerun_failed_parallel`, `rerun_failed_sequential`,
with or without replacement) on ANY state whose `job_group` directory exists: if it returns normally, the file is
the image of memory, or neither the image of memory nor the file has changed -/
theorem launch_any_ok_written (s : State) (rr rp seq : Bool) (outs : List Outcome) (sts : List Ans)
    (hd : s.dir = true) :
    (step fixed s (.launch rr rp seq outs sts)).2.res = .ok →
      (step fixed s (.launch rr rp seq outs sts)).1.disk =
        some ((step fixed s (.launch rr rp seq outs sts)).1.mem.map toDict) ∨
      ((step fixed s (.launch rr rp seq outs sts)).1.mem.map toDict = s.mem.map toDict ∧
       (step fixed s (.launch rr rp seq outs sts)).1.disk = s.disk) := by
  intro hok
  have hk : Kept (s.mem.map toDict) s.disk { s with outs := outs, sts := sts } := ⟨hd, Or.inr ⟨rfl, rfl⟩⟩
  have hok' : (launchOp fixed rr rp seq { s with outs := outs, sts := sts }).2 = .ok := by
    simpa [step] using hok
  have := (launchOp_kept rr rp seq _ hk hok').2
  simpa [step, clearScript] using this

/-! ### the status views `progress`, `list_*`, `track_progress` by an object whose list may be stale -/

theorem refreshAll_kept {m0 : List DJob} {d0 : Option (List DJob)} (s : State) (hk : Kept m0 d0 s) :
    (refreshAll fixed s).2 = .ok → Kept m0 d0 (refreshAll fixed s).1 :=
  refreshIdx_kept _ s hk

theorem trackLoop_kept {m0 : List DJob} {d0 : Option (List DJob)} : ∀ (fuel : Nat) (s : State), Kept m0 d0 s →
    (trackLoop fixed fuel s).2 = .ok → Kept m0 d0 (trackLoop fixed fuel s).1
  | 0, s, _, hok => by cases hok
  | fuel + 1, s, hk, hok => by
    unfold trackLoop at hok ⊢
    have h1 := refreshAll_kept s hk
    generalize refreshAll fixed s = r1 at h1 hok ⊢
    obtain ⟨s1, res1⟩ := r1
    cases res1 with
    | raised e => cases hok
    | killed => cases hok
    | ok =>
      simp only at hok ⊢
      split at hok
      · rename_i h0
        simp only [h0, if_true]
        exact h1 rfl
      · rename_i h0
        simp only [h0, if_false]
        split at hok
        · cases hok
        · exact trackLoop_kept fuel s1 (h1 rfl) hok

theorem trackOp_kept {m0 : List DJob} {d0 : Option (List DJob)} (s : State) (hk : Kept m0 d0 s) :
    (trackOp fixed s).2 = .ok → Kept m0 d0 (trackOp fixed s).1 := by
  unfold trackOp
  have h1 := refreshAll_kept s hk
  generalize refreshAll fixed s = r1 at h1 ⊢
  obtain ⟨s1, res1⟩ := r1
  cases res1 with
  | raised e => intro h; cases h
  | killed => intro h; cases h
  | ok => exact trackLoop_kept _ s1 (h1 rfl)

/-- `progress()`, `list_*()` and `track_progress()` on ANY state whose `job_group` directory exists: if the view
returns normally, the file is the image of memory, or neither the image of memory nor the file has changed -/
theorem views_ok_written (s : State) (op : Op)
    (hop : (∃ sts, op = .progress sts) ∨ (∃ k sts, op = .list k sts) ∨ (∃ sts, op = .track sts))
    (hd : s.dir = true) :
    (step fixed s op).2.res = .ok →
      (step fixed s op).1.disk = some ((step fixed s op).1.mem.map toDict) ∨
      ((step fixed s op).1.mem.map toDict = s.mem.map toDict ∧ (step fixed s op).1.disk = s.disk) := by
  rcases hop with ⟨sts, rfl⟩ | ⟨k, sts, rfl⟩ | ⟨sts, rfl⟩
  · intro hok
    have hk : Kept (s.mem.map toDict) s.disk { s with outs := [], sts := sts } := ⟨hd, Or.inr ⟨rfl, rfl⟩⟩
    have hok' : (refreshAll fixed { s with outs := [], sts := sts }).2 = .ok := by simpa [step] using hok
    simpa [step, clearScript] using (refreshAll_kept _ hk hok').2
  · by_cases hu : k = .unsent
    · intro _
      right
      simp [step, hu, clearScript]
    · intro hok
      have hk : Kept (s.mem.map toDict) s.disk { s with outs := [], sts := sts } := ⟨hd, Or.inr ⟨rfl, rfl⟩⟩
      have hok' : (refreshAll fixed { s with outs := [], sts := sts }).2 = .ok := by simpa [step, hu] using hok
      simpa [step, hu, clearScript] using (refreshAll_kept _ hk hok').2
  · intro hok
    have hk : Kept (s.mem.map toDict) s.disk { s with outs := [], sts := sts, rsps := [] } :=
      ⟨hd, Or.inr ⟨rfl, rfl⟩⟩
    have hok' : (trackOp fixed { s with outs := [], sts := sts, rsps := [] }).2 = .ok := by simpa [step] using hok
    simpa [step, clearScript] using (trackOp_kept _ hk hok').2

/-- the world as object `h` sees it when it starts to act: itself when it acted last, else after the change of
actor (its own — possibly stale — list, the shared file) -/
def actor (t : Two) (h : Bool) : Two := if h = t.who then t else switch fixed t

theorem actor_dir (t : Two) (h : Bool) (hd : t.cur.dir = true) : (actor t h).cur.dir = true := by
  unfold actor
  split
  · exact hd
  · exact switch_dir t hd

theorem step2_actor (t : Two) (h : Bool) (op : Op) :
    (step2 fixed t (h, op)).1.cur = (step fixed (actor t h).cur op).1 ∧
    (step2 fixed t (h, op)).2 = (step fixed (actor t h).cur op).2 := by
  unfold step2 actor
  by_cases hs : h = t.who <;> simp [hs]

end PM.C19.Conc
