/-
  C08 — the ACCEPTED mass of the result of `simulate_detectors` is a linear functional of its input
  (`simulateRaw_accMass_linear`), at exact parameters (`min_p ≤ 0`), in both non-trivial branches; hence the accepted
  mass of a mixture is the weighted sum of the members' accepted masses — the closed form of `logical_perf` of
  `probs_svd` on a mixed input through imperfect detectors.
-/
import PercevalModel.Lemmas.C08Mix

set_option linter.unusedSectionVars false

namespace PM.C08

section accMass
variable {K : Type} [Field K] [LinearOrder K] [IsStrictOrderedRing K]

theorem mass_filter_bump {σ : Type} [DecidableEq σ] (f : σ → Bool) (d : Dist σ K) (k : σ) (v : K) :
    mass ((bump d k v).filter fun e => f e.1) = mass (d.filter fun e => f e.1) + (if f k then v else 0) := by
  induction d with
  | nil =>
    by_cases hf : f k = true
    · simp [bump, hf]
    · simp [bump, hf]
  | cons e rest ih =>
    obtain ⟨k', v'⟩ := e
    simp only [bump]
    by_cases hk : k' = k
    · subst hk
      rw [if_pos rfl]
      by_cases hf : f k' = true
      · rw [List.filter_cons_of_pos (by simpa using hf), List.filter_cons_of_pos (by simpa using hf)]
        simp only [mass_cons, hf, if_true]; ring
      · rw [List.filter_cons_of_neg (by simpa using hf), List.filter_cons_of_neg (by simpa using hf)]
        simp [hf]
    · rw [if_neg hk]
      by_cases hf : f k' = true
      · rw [List.filter_cons_of_pos (by simpa using hf), List.filter_cons_of_pos (by simpa using hf)]
        simp only [mass_cons, ih]; ring
      · rw [List.filter_cons_of_neg (by simpa using hf), List.filter_cons_of_neg (by simpa using hf)]
        exact ih

/-- `add` at `min_p ≤ 0` with a non-negative value: the filtered mass grows by the value when the key is selected -/
theorem mass_filter_addP {σ : Type} [DecidableEq σ] {minP : K} (hmin : minP ≤ 0) (f : σ → Bool) (d : Dist σ K)
    (k : σ) {v : K} (hv : 0 ≤ v) :
    mass ((addP minP d k v).filter fun e => f e.1) = mass (d.filter fun e => f e.1) + (if f k then v else 0) := by
  unfold addP
  split
  · exact mass_filter_bump f d k v
  · next hlt =>
    have hv0 : v = 0 := le_antisymm (le_trans (not_lt.mp hlt) hmin) hv
    rw [hv0]; simp

/-- the contributions of one input state to the selected mass -/
theorem simState_accMass {minP : K} (hmin : minP ≤ 0) (mp : Option ℕ) {p : K} (hp : 0 ≤ p)
    (f : List ℕ → Bool) (sd : Dist (List ℕ) K) (hsd : Nonneg sd) (a : Acc K) :
    mass ((simState minP mp p sd a).1.filter fun e => f e.1)
      = mass (a.1.filter fun e => f e.1) + p * mass (sd.filter fun o => !belowFilter mp o.1 && f o.1) := by
  unfold simState
  induction sd generalizing a with
  | nil => simp
  | cons o sd ih =>
    have hsd' : Nonneg sd := fun e he => hsd e (List.mem_cons_of_mem _ he)
    have ho : 0 ≤ o.2 := hsd o List.mem_cons_self
    simp only [List.foldl_cons]
    rw [ih hsd']
    by_cases hb : belowFilter mp o.1 = true
    · rw [if_pos hb, List.filter_cons_of_neg (by simp [hb])]
    · rw [if_neg hb]
      have hb' : belowFilter mp o.1 = false := by simpa using hb
      simp only []
      rw [mass_filter_addP hmin f a.1 o.1 (mul_nonneg hp ho)]
      by_cases hf : f o.1 = true
      · rw [List.filter_cons_of_pos (by simp [hb', hf]), mass_cons, if_pos hf]; ring
      · rw [List.filter_cons_of_neg (by simp [hf]), if_neg hf]; ring

theorem genFold_accMass {minP : K} (hmin : minP ≤ 0) (mp : Option ℕ) (f : List ℕ → Bool)
    (sdf : List ℕ × K → Dist (List ℕ) K) (dist : Dist (List ℕ) K)
    (hd : ∀ e ∈ dist, 0 ≤ e.2 ∧ Nonneg (sdf e)) (a : Acc K) :
    mass ((genFold minP mp sdf dist a).1.filter fun e => f e.1)
      = mass (a.1.filter fun e => f e.1)
        + (dist.map fun e => e.2 * mass ((sdf e).filter fun o => !belowFilter mp o.1 && f o.1)).sum := by
  unfold genFold
  induction dist generalizing a with
  | nil => simp
  | cons e dist ih =>
    simp only [List.foldl_cons, List.map_cons, List.sum_cons]
    rw [ih (fun x hx => hd x (List.mem_cons_of_mem _ hx)),
      simState_accMass hmin mp (hd e List.mem_cons_self).1 f _ (hd e List.mem_cons_self).2]
    ring

theorem simThreshold_accMass (mp : Option ℕ) (f : List ℕ → Bool) (dist : Dist (List ℕ) K) :
    mass ((simThreshold mp dist).1.filter fun e => f e.1)
      = (dist.map fun e => e.2 *
          (if (!belowFilter mp (e.1.map (min · 1)) && f (e.1.map (min · 1))) = true then (1 : K) else 0)).sum := by
  unfold simThreshold
  have : ∀ a : Acc K, mass ((dist.foldl (fun a e =>
      if belowFilter mp (e.1.map (min · 1)) then (a.1, a.2 - e.2)
      else (bump a.1 (e.1.map (min · 1)) e.2, a.2)) a).1.filter fun e => f e.1)
      = mass (a.1.filter fun e => f e.1) + (dist.map fun e => e.2 *
          (if (!belowFilter mp (e.1.map (min · 1)) && f (e.1.map (min · 1))) = true then (1 : K) else 0)).sum := by
    induction dist with
    | nil => intro a; simp
    | cons e dist ih =>
      intro a
      simp only [List.foldl_cons, List.map_cons, List.sum_cons]
      rw [ih]
      by_cases hb : belowFilter mp (e.1.map (min · 1)) = true
      · rw [if_pos hb]; simp [hb]
      · rw [if_neg hb]
        have hb' : belowFilter mp (e.1.map (min · 1)) = false := by simpa using hb
        simp only []
        rw [mass_filter_bump]
        by_cases hf : f (e.1.map (min · 1)) = true
        · simp [hb', hf]; ring
        · simp [hf]
  rw [this]; simp

/-- the share of one input state `s` that ends in a reading passing the photon filter and selected by `f`
(all-threshold branch: its single reading; general branch: the selected mass of its kernel product) -/
def accOf (minP : K) (ds : List (AnyDet K)) (mp : Option ℕ) (f : List ℕ → Bool) (s : List ℕ) : K :=
  if detectionType ds = .Threshold then
    (if (!belowFilter mp (s.map (min · 1)) && f (s.map (min · 1))) = true then 1 else 0)
  else mass ((stateDist minP ds s).filter fun o => !belowFilter mp o.1 && f o.1)

/-- **selected mass of the readings law = ∑ p·acc(s)**: linear in the input, both non-trivial branches, `min_p ≤ 0` -/
theorem simulateRaw_accMass_linear {minP : K} (hmin : minP ≤ 0) (ds : List (AnyDet K)) (hwf : ∀ d ∈ ds, d.WF)
    (dist : Dist (List ℕ) K) (hnn : Nonneg dist) (hlen : ∀ e ∈ dist, e.1.length = ds.length) (mp : Option ℕ)
    (f : List ℕ → Bool) (hbr : ¬ (dist.isEmpty ∨ detectionType ds = .PNR)) :
    mass ((simulateRaw minP dist ds mp).1.filter fun e => f e.1)
      = (dist.map fun e => e.2 * accOf minP ds mp f e.1).sum := by
  simp only [simulateRaw, if_neg hbr]
  by_cases h : detectionType ds = .Threshold
  · simp only [accOf, h, if_true]; exact simThreshold_accMass mp f dist
  · simp only [accOf, h, if_false]
    have hne : ds ≠ [] := by
      intro hnil; subst hnil; exact hbr (Or.inr rfl)
    rw [simGeneral_eq_genFold, genFold_accMass hmin mp f _ dist
      (fun e he => ⟨hnn e he, (stateDist_mass_one hmin ds hwf e.1 (hlen e he) hne).2⟩)]
    simp

/-- filtering commutes with `normalize()` up to the factor `1/mass` -/
theorem mass_filter_normalize {σ : Type} (f : σ → Bool) (d : Dist σ K) (hM : mass d ≠ 0) :
    mass ((normalize d).filter fun e => f e.1) = mass (d.filter fun e => f e.1) / mass d := by
  unfold normalize
  rw [if_neg hM]
  generalize mass d = c at *
  clear hM
  induction d with
  | nil => simp
  | cons e l ih =>
    simp only [List.map_cons]
    by_cases hp : f e.1 = true
    · rw [List.filter_cons_of_pos (by simpa using hp), List.filter_cons_of_pos (by simpa using hp)]
      simp only [mass_cons, ih]; ring
    · rw [List.filter_cons_of_neg (by simpa using hp), List.filter_cons_of_neg (by simpa using hp)]
      exact ih

end accMass

end PM.C08
