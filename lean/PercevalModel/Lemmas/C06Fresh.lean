/-
  C06 — helper lemmas for `tags_fresh`: every tag other than the common one is used at most once in
  any state of the generated mixture (support reasoning, no probabilities; any threshold).
-/
import PercevalModel.Lemmas.C06

namespace PM.C06

/-- invariant: the fresh tags are pairwise different and numbered in `(lo, hi]` -/
def Inv (lo hi : ℕ) (m : Mode) : Prop :=
  (freshTags m).Nodup ∧ ∀ tg ∈ freshTags m, ∃ k, tg = some k ∧ lo < k ∧ k ≤ hi

theorem Inv.mono {lo hi lo' hi' : ℕ} {m : Mode} (h : Inv lo hi m) (h1 : lo' ≤ lo) (h2 : hi ≤ hi') :
    Inv lo' hi' m :=
  ⟨h.1, fun tg ht => by obtain ⟨k, rfl, a, b⟩ := h.2 tg ht; exact ⟨k, rfl, by omega, by omega⟩⟩

theorem Inv.append {lo mid hi : ℕ} {s e : Mode} (h1 : lo ≤ mid) (h2 : mid ≤ hi) (hs : Inv lo mid s)
    (he : Inv mid hi e) : Inv lo hi (s ++ e) := by
  unfold Inv freshTags at *
  rw [List.filter_append]
  constructor
  · rw [List.nodup_append]
    refine ⟨hs.1, he.1, ?_⟩
    intro a ha b hb hab
    obtain ⟨k, rfl, _, h3⟩ := hs.2 a ha
    obtain ⟨k', rfl, h4, _⟩ := he.2 b hb
    have : k = k' := Option.some.inj hab
    omega
  · intro tg ht
    rw [List.mem_append] at ht
    rcases ht with ht | ht
    · obtain ⟨k, rfl, a, b⟩ := hs.2 tg ht; exact ⟨k, rfl, a, by omega⟩
    · obtain ⟨k, rfl, a, b⟩ := he.2 tg ht; exact ⟨k, rfl, by omega, b⟩

theorem Inv.perm {lo hi : ℕ} {m m' : Mode} (hp : m.Perm m') (h : Inv lo hi m) : Inv lo hi m' := by
  have hf : (freshTags m).Perm (freshTags m') := hp.filter _
  exact ⟨hf.nodup_iff.mp h.1, fun tg ht => h.2 tg (hf.mem_iff.mpr ht)⟩

theorem Inv.merge {lo mid hi : ℕ} {s e : Mode} (h1 : lo ≤ mid) (h2 : mid ≤ hi) (hs : Inv lo mid s)
    (he : Inv mid hi e) : Inv lo hi (mergeTags e s) := by
  have hp : (s ++ e).Perm (mergeTags e s) :=
    (List.perm_append_comm).trans (List.mergeSort_perm (e ++ s) _).symm
  exact (Inv.append h1 h2 hs he).perm hp

theorem Inv_nil (lo hi : ℕ) : Inv lo hi [] := ⟨List.nodup_nil, fun _ h => by simp [freshTags] at h⟩

theorem Inv_replicate_none (lo hi n : ℕ) : Inv lo hi (List.replicate n none) := by
  have : freshTags (List.replicate n none) = [] := by
    simp [freshTags, List.filter_eq_nil_iff, commonTag]
  exact ⟨by rw [this]; exact List.nodup_nil, fun tg h => by rw [this] at h; simp at h⟩

theorem le_nextTag (P : Params) (t : ℕ) : t ≤ nextTag P t := by
  unfold nextTag; split <;> omega

theorem le_tagAfter (P : Params) (n t : ℕ) : t ≤ tagAfter P n t := by
  induction n generalizing t with
  | zero => exact Nat.le_refl t
  | succ n ih => exact Nat.le_trans (le_nextTag P t) (ih _)

theorem onePhoton_Inv (P : Params) (t : ℕ) : ∀ x ∈ onePhoton P t, Inv t (nextTag P t) x.1 := by
  intro x hx
  have hx' : x ∈ onePhotonRaw P t := (List.mem_filter.mp hx).1
  unfold onePhotonRaw at hx'
  have c1 : commonTag (some (t + 1)) = false := rfl
  have c2 : commonTag (some (t + 2)) = false := rfl
  by_cases hpd : partDist P = true <;> by_cases hdm : P.dm = true <;>
    simp only [hpd, hdm, if_true, if_false, Bool.false_eq_true, List.cons_append, List.nil_append,
      List.mem_cons, List.not_mem_nil, or_false] at hx' <;>
    (try rcases hx' with rfl | rfl | rfl | rfl | rfl) <;> (try rcases hx' with rfl | rfl | rfl) <;>
    simp [Inv, freshTags, commonTag, nextTag, hdm, c1, c2]

theorem mem_trim {α : Type} {θ : ℚ} {d : Dist α} {e : α × ℚ} (h : e ∈ trim θ d) : e ∈ d :=
  (List.mem_filter.mp h).1

theorem dfs_mode_Inv (P : Params) (θ : ℚ) (n : ℕ) :
    ∀ (t : ℕ) (s : Mode) (p : ℚ) (lo : ℕ), lo ≤ t → Inv lo t s →
      ∀ x ∈ dfs θ (fun s e => mergeTags e s) ((photonDists P n t).map (trim θ)) s p,
        Inv lo (tagAfter P n t) x.1 := by
  induction n with
  | zero =>
    intro t s p lo _ hs x hx
    simp only [photonDists, List.map_nil, dfs, List.mem_singleton] at hx
    subst hx
    exact hs
  | succ n ih =>
    intro t s p lo hlo hs x hx
    simp only [photonDists, List.map_cons, dfs, List.mem_flatMap] at hx
    obtain ⟨e, he, hx⟩ := hx
    split at hx
    · simp at hx
    · have hi := onePhoton_Inv P t e (mem_trim he)
      have hm : Inv lo (nextTag P t) (mergeTags e.1 s) := Inv.merge hlo (le_nextTag P t) hs hi
      exact ih (nextTag P t) _ _ lo (Nat.le_trans hlo (le_nextTag P t)) hm x hx

theorem mem_addKey {α : Type} [DecidableEq α] (k : α) (p : ℚ) (d : Dist α) (x : α × ℚ)
    (hx : x ∈ addKey k p d) : x.1 = k ∨ ∃ y ∈ d, y.1 = x.1 := by
  induction d with
  | nil => simp only [addKey, List.mem_singleton] at hx; subst hx; exact Or.inl rfl
  | cons e d ih =>
    simp only [addKey] at hx
    split at hx
    · simp only [List.mem_cons] at hx
      rcases hx with rfl | hx
      · exact Or.inr ⟨e, by simp, rfl⟩
      · exact Or.inr ⟨x, by simp [hx], rfl⟩
    · simp only [List.mem_cons] at hx
      rcases hx with rfl | hx
      · exact Or.inr ⟨x, by simp, rfl⟩
      · rcases ih hx with h | ⟨y, hy, h⟩
        · exact Or.inl h
        · exact Or.inr ⟨y, by simp [hy], h⟩

theorem mem_accum_key {α : Type} [DecidableEq α] (d : Dist α) (x : α × ℚ) (hx : x ∈ accum d) :
    ∃ y ∈ d, y.1 = x.1 := by
  unfold accum at hx
  suffices H : ∀ acc : Dist α, x ∈ d.foldl (fun acc e => addKey e.1 e.2 acc) acc →
      (∃ y ∈ acc, y.1 = x.1) ∨ ∃ y ∈ d, y.1 = x.1 by
    rcases H [] hx with ⟨y, hy, _⟩ | h
    · simp at hy
    · exact h
  clear hx
  induction d with
  | nil => intro acc h; exact Or.inl ⟨x, by simpa using h, rfl⟩
  | cons e d ih =>
    intro acc h
    simp only [List.foldl_cons] at h
    rcases ih _ h with ⟨y, hy, hk⟩ | ⟨y, hy, hk⟩
    · rcases mem_addKey _ _ _ _ hy with h1 | ⟨z, hz, h1⟩
      · exact Or.inr ⟨e, by simp, by rw [← h1, hk]⟩
      · exact Or.inl ⟨z, hz, by rw [h1, hk]⟩
    · exact Or.inr ⟨y, by simp [hy], hk⟩

theorem probDist_Inv (P : Params) (θ : ℚ) (n t : ℕ) :
    ∀ x ∈ probDist P θ n t, Inv t (probDistTag P n t) x.1 := by
  intro x hx
  unfold probDist at hx
  unfold probDistTag
  by_cases hs : shortcut P n = true
  · simp only [hs, if_true, List.mem_singleton] at hx ⊢
    subst hx
    exact Inv_replicate_none _ _ _
  · simp only [hs, Bool.false_eq_true, if_false] at hx ⊢
    match n, hx with
    | 0, hx => simp [photonDists, ltpMode] at hx
    | 1, hx =>
      simp only [photonDists, ltpMode] at hx
      exact onePhoton_Inv P t x hx
    | n + 2, hx =>
      simp only [photonDists, ltpMode] at hx
      split at hx
      · simp at hx
      · obtain ⟨y, hy, hk⟩ := mem_accum_key _ x hx
        rw [← hk]
        exact dfs_mode_Inv P θ (n + 2) t [] 1 t (Nat.le_refl t) (Inv_nil t t) y hy

theorem le_probDistTag (P : Params) (n t : ℕ) : t ≤ probDistTag P n t := by
  unfold probDistTag; split
  · exact Nat.le_refl t
  · exact le_tagAfter P n t

/-- the tag counter after `generate_distribution` -/
def genTag (P : Params) : List ℕ → ℕ → ℕ
  | [], t => t
  | n :: ns, t => genTag P ns (probDistTag P n t)

theorem dfs_state_Inv (P : Params) (θ : ℚ) (ns : List ℕ) :
    ∀ (t : ℕ) (s : State) (p : ℚ) (lo : ℕ), lo ≤ t → Inv lo t s.flatten →
      ∀ x ∈ dfs θ (fun s e => s ++ e) (((modeDists P θ ns t).map lift).map (trim θ)) s p,
        Inv lo (genTag P ns t) x.1.flatten := by
  induction ns with
  | nil =>
    intro t s p lo _ hs x hx
    simp only [modeDists, List.map_nil, dfs, List.mem_singleton] at hx
    subst hx
    exact hs
  | cons n ns ih =>
    intro t s p lo hlo hs x hx
    simp only [modeDists, List.map_cons, dfs, List.mem_flatMap] at hx
    obtain ⟨e, he, hx⟩ := hx
    split at hx
    · simp at hx
    · have he' := mem_trim he
      simp only [lift, List.mem_map] at he'
      obtain ⟨y, hy, rfl⟩ := he'
      have hi := probDist_Inv P θ n t y hy
      have hm : Inv lo (probDistTag P n t) (s ++ [y.1]).flatten := by
        simp only [List.flatten_append, List.flatten_cons, List.flatten_nil, List.append_nil]
        exact Inv.append hlo (le_probDistTag P n t) hs hi
      exact ih (probDistTag P n t) _ _ lo (Nat.le_trans hlo (le_probDistTag P n t)) hm x hx

theorem generateRaw_Inv (P : Params) (θ : ℚ) (ns : List ℕ) (t : ℕ) :
    ∀ x ∈ generateRaw P θ ns t, Inv t (genTag P ns t) x.1.flatten := by
  intro x hx
  unfold generateRaw at hx
  match ns, hx with
  | [], hx => simp [modeDists, ltpState] at hx
  | [n], hx =>
    simp only [modeDists, List.map_cons, List.map_nil, ltpState, lift, List.mem_map] at hx
    obtain ⟨y, hy, rfl⟩ := hx
    simpa [genTag] using probDist_Inv P θ n t y hy
  | n₁ :: n₂ :: ns, hx =>
    have hx' : x ∈ dfs θ (fun s e => s ++ e)
        (((modeDists P θ (n₁ :: n₂ :: ns) t).map lift).map (trim θ)) [] 1 := by
      simpa only [modeDists, List.map_cons, ltpState] using hx
    exact dfs_state_Inv P θ _ t [] 1 t (Nat.le_refl t) (by simpa using Inv_nil t t) x hx'

theorem mem_normalize_key {α : Type} (d : Dist α) (x : α × ℚ) (hx : x ∈ normalize d) :
    ∃ y ∈ d, y.1 = x.1 := by
  simp only [normalize, List.mem_map] at hx
  obtain ⟨y, hy, rfl⟩ := hx
  exact ⟨y, hy, rfl⟩

end PM.C06
