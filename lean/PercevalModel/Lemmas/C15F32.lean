import PercevalModel.Model.C15F32
import PercevalModel.Lemmas.C15FF
import Mathlib.Tactic.Linarith
import Mathlib.Tactic.Ring
import Mathlib.Tactic.NormNum
import Mathlib.Tactic.Positivity
import Mathlib.Tactic.FieldSimp
import Mathlib.Algebra.Order.Field.Rat
import Mathlib.Algebra.Order.Field.Power
import Mathlib.Data.Rat.Cast.Order

namespace PM.C15.F32

/-! ### `rhe` -/

theorem rhe_nat (N D : ℕ) (hD : 0 < D) :
    2 * rhe N D * D ≤ 2 * N + D ∧ 2 * N ≤ 2 * rhe N D * D + D := by
  have h := Nat.div_add_mod N D
  have hr := Nat.mod_lt N hD
  unfold rhe
  simp only
  generalize N / D = q at *
  generalize N % D = r at *
  have e1 : 2 * q * D = 2 * (D * q) := by ring
  have e2 : 2 * (q + 1) * D = 2 * (D * q) + 2 * D := by ring
  generalize D * q = p at *
  split_ifs <;> omega

theorem div_le_rhe (N D : ℕ) : N / D ≤ rhe N D := by
  unfold rhe
  simp only
  split_ifs <;> omega

theorem rhe_of_dvd (N D : ℕ) (hD : 0 < D) (h : D ∣ N) : rhe N D = N / D := by
  unfold rhe
  simp only
  rw [Nat.mod_eq_zero_of_dvd h, if_pos (by omega)]

theorem rhe_spec (N D : ℕ) (hD : 0 < D) : |((rhe N D : ℕ) : ℚ) - (N : ℚ) / D| ≤ 1 / 2 := by
  obtain ⟨h1, h2⟩ := rhe_nat N D hD
  have hD' : (0 : ℚ) < D := by exact_mod_cast hD
  have h1' : (2 : ℚ) * rhe N D * D ≤ 2 * N + D := by exact_mod_cast h1
  have h2' : (2 : ℚ) * N ≤ 2 * rhe N D * D + D := by exact_mod_cast h2
  have hN : (N : ℚ) = (N : ℚ) / D * D := by field_simp
  generalize (N : ℚ) / D = x at *
  rw [hN] at h1' h2'
  rw [abs_le]
  constructor
  · apply le_of_mul_le_mul_right _ hD'
    linarith
  · apply le_of_mul_le_mul_right _ hD'
    linarith

theorem rhe_eq_of_eq (N D : ℕ) (hD : 0 < D) (k : ℕ) (h : (N : ℚ) / D = k) : rhe N D = k := by
  have hD' : (0 : ℚ) < D := by exact_mod_cast hD
  rw [div_eq_iff hD'.ne'] at h
  have h' : N = k * D := by exact_mod_cast h
  rw [rhe_of_dvd N D hD ⟨k, by rw [h', Nat.mul_comm]⟩, h', Nat.mul_div_cancel _ hD]

theorem le_rhe (N D : ℕ) (hD : 0 < D) (a : ℕ) (h : (a : ℚ) ≤ (N : ℚ) / D) : a ≤ rhe N D := by
  have hD' : (0 : ℚ) < D := by exact_mod_cast hD
  rw [le_div_iff₀ hD'] at h
  have h' : a * D ≤ N := by exact_mod_cast h
  exact le_trans ((Nat.le_div_iff_mul_le hD).2 h') (div_le_rhe N D)

theorem rhe_le (N D : ℕ) (hD : 0 < D) (b : ℕ) (h : (N : ℚ) / D ≤ b) : rhe N D ≤ b := by
  have hD' : (0 : ℚ) < D := by exact_mod_cast hD
  rw [div_le_iff₀ hD'] at h
  have h' : N ≤ b * D := by exact_mod_cast h
  rcases Nat.lt_or_ge N (b * D) with hlt | hge
  · have hq : N / D < b := (Nat.div_lt_iff_lt_mul hD).2 hlt
    have := (rhe_nat N D hD).1
    have hm := Nat.div_add_mod N D
    have hr := Nat.mod_lt N hD
    unfold rhe
    simp only
    split_ifs <;> omega
  · have e : N = b * D := le_antisymm h' hge
    rw [rhe_of_dvd N D hD ⟨b, by rw [e, Nat.mul_comm]⟩, e, Nat.mul_div_cancel _ hD]

/-! ### powers of two -/

theorem zpow_of_nonneg (t : ℤ) (h : 0 ≤ t) : (2 : ℚ) ^ t = ((2 ^ t.toNat : ℕ) : ℚ) := by
  conv_lhs => rw [← Int.toNat_of_nonneg h]
  rw [zpow_natCast]; push_cast; rfl

theorem zpow_of_neg (t : ℤ) (h : t < 0) : (2 : ℚ) ^ t = 1 / ((2 ^ (-t).toNat : ℕ) : ℚ) := by
  have e : t = -((-t).toNat : ℤ) := by omega
  conv_lhs => rw [e]
  rw [zpow_neg, zpow_natCast]; push_cast; rw [one_div]

theorem scale_eq (k : ℕ) (t : ℤ) : scale k t = (k : ℚ) * (2 : ℚ) ^ t := by
  unfold scale
  split_ifs with h
  · rw [zpow_of_nonneg t h]; push_cast; rfl
  · rw [zpow_of_neg t (by omega), Rat.mkRat_eq_div]; push_cast; rw [mul_one_div]

/-! ### `ilog2` -/

theorem ilog2_spec (n d : ℕ) (hn : 0 < n) (hd : 0 < d) :
    (2 : ℚ) ^ (ilog2 n d) ≤ (n : ℚ) / d ∧ (n : ℚ) / d < (2 : ℚ) ^ (ilog2 n d + 1) := by
  have ha1 : (2 : ℚ) ^ n.log2 ≤ n := by exact_mod_cast Nat.log2_self_le hn.ne'
  have ha2 : (n : ℚ) < 2 ^ (n.log2 + 1) := by exact_mod_cast (Nat.lt_log2_self (n := n))
  have hb1 : (2 : ℚ) ^ d.log2 ≤ d := by exact_mod_cast Nat.log2_self_le hd.ne'
  have hb2 : (d : ℚ) < 2 ^ (d.log2 + 1) := by exact_mod_cast (Nat.lt_log2_self (n := d))
  have hn' : (0 : ℚ) < n := by exact_mod_cast hn
  have hd' : (0 : ℚ) < d := by exact_mod_cast hd
  have hpa : (0 : ℚ) < 2 ^ n.log2 := by positivity
  have hpb : (0 : ℚ) < 2 ^ d.log2 := by positivity
  generalize he : ((n.log2 : ℤ) - (d.log2 : ℤ)) = e
  have hL : (2 : ℚ) ^ (e - 1) < (n : ℚ) / d := by
    have : e - 1 = (n.log2 : ℤ) - ((d.log2 + 1 : ℕ) : ℤ) := by omega
    rw [this, zpow_sub₀ two_ne_zero, zpow_natCast, zpow_natCast, div_lt_div_iff₀ (by positivity) hd']
    calc (2 : ℚ) ^ n.log2 * d < 2 ^ n.log2 * 2 ^ (d.log2 + 1) := by
          apply mul_lt_mul_of_pos_left hb2 hpa
      _ ≤ n * 2 ^ (d.log2 + 1) := by
          apply mul_le_mul_of_nonneg_right ha1 (by positivity)
  have hU : (n : ℚ) / d < (2 : ℚ) ^ (e + 1) := by
    have : e + 1 = ((n.log2 + 1 : ℕ) : ℤ) - (d.log2 : ℤ) := by omega
    rw [this, zpow_sub₀ two_ne_zero, zpow_natCast, zpow_natCast, div_lt_div_iff₀ hd' hpb]
    calc (n : ℚ) * 2 ^ d.log2 < 2 ^ (n.log2 + 1) * 2 ^ d.log2 := by
          apply mul_lt_mul_of_pos_right ha2 hpb
      _ ≤ 2 ^ (n.log2 + 1) * d := by
          apply mul_le_mul_of_nonneg_left hb1 (by positivity)
  have key : ∀ (P : Prop) [Decidable P], (P ↔ (2 : ℚ) ^ e ≤ (n : ℚ) / d) →
      (2 : ℚ) ^ (if P then e else e - 1) ≤ (n : ℚ) / d ∧
        (n : ℚ) / d < (2 : ℚ) ^ ((if P then e else e - 1) + 1) := by
    intro P _ hP
    split_ifs with h
    · exact ⟨hP.1 h, hU⟩
    · refine ⟨hL.le, ?_⟩
      rw [sub_add_cancel]
      exact not_le.1 (fun h' => h (hP.2 h'))
  unfold ilog2
  simp only
  rw [he]
  by_cases h0 : 0 ≤ e
  · rw [if_pos h0]
    apply key
    rw [zpow_of_nonneg e h0, le_div_iff₀ hd', mul_comm]
    exact_mod_cast Iff.rfl
  · rw [if_neg h0]
    apply key
    rw [zpow_of_neg e (by omega), le_div_iff₀ hd', one_div_mul_eq_div, div_le_iff₀ (by positivity)]
    exact_mod_cast Iff.rfl

theorem ilog2_unique (n d : ℕ) (hn : 0 < n) (hd : 0 < d) (e : ℤ)
    (h1 : (2 : ℚ) ^ e ≤ (n : ℚ) / d) (h2 : (n : ℚ) / d < (2 : ℚ) ^ (e + 1)) : ilog2 n d = e := by
  obtain ⟨g1, g2⟩ := ilog2_spec n d hn hd
  have a := (zpow_lt_zpow_iff_right₀ (one_lt_two (α := ℚ))).1 (lt_of_le_of_lt g1 h2)
  have b := (zpow_lt_zpow_iff_right₀ (one_lt_two (α := ℚ))).1 (lt_of_le_of_lt h1 g2)
  omega

/-! ### `mant` -/

theorem mant_eq_rhe (n d : ℕ) (hd : 0 < d) (t : ℤ) :
    ∃ N D : ℕ, 0 < D ∧ mant n d t = rhe N D ∧ (N : ℚ) / D = (n : ℚ) / d / (2 : ℚ) ^ t := by
  have hd' : (d : ℚ) ≠ 0 := by exact_mod_cast hd.ne'
  unfold mant
  split_ifs with h
  · refine ⟨n, d * 2 ^ t.toNat, by positivity, rfl, ?_⟩
    rw [zpow_of_nonneg t h, div_div]; push_cast; rfl
  · refine ⟨n * 2 ^ (-t).toNat, d, hd, rfl, ?_⟩
    rw [zpow_of_neg t (by omega)]; push_cast; field_simp

theorem mant_spec (n d : ℕ) (hd : 0 < d) (t : ℤ) :
    |((mant n d t : ℕ) : ℚ) - (n : ℚ) / d / (2 : ℚ) ^ t| ≤ 1 / 2 := by
  obtain ⟨N, D, hD, e, hv⟩ := mant_eq_rhe n d hd t
  rw [e, ← hv]; exact rhe_spec N D hD

theorem mant_eq_of_eq (n d : ℕ) (hd : 0 < d) (t : ℤ) (k : ℕ)
    (h : (n : ℚ) / d = (k : ℚ) * (2 : ℚ) ^ t) : mant n d t = k := by
  obtain ⟨N, D, hD, e, hv⟩ := mant_eq_rhe n d hd t
  rw [e]; apply rhe_eq_of_eq N D hD
  rw [hv, h]; field_simp

theorem le_mant (n d : ℕ) (hd : 0 < d) (t : ℤ) (a : ℕ)
    (h : (a : ℚ) ≤ (n : ℚ) / d / (2 : ℚ) ^ t) : a ≤ mant n d t := by
  obtain ⟨N, D, hD, e, hv⟩ := mant_eq_rhe n d hd t
  rw [e]; apply le_rhe N D hD; rw [hv]; exact h

theorem mant_le (n d : ℕ) (hd : 0 < d) (t : ℤ) (b : ℕ)
    (h : (n : ℚ) / d / (2 : ℚ) ^ t ≤ b) : mant n d t ≤ b := by
  obtain ⟨N, D, hD, e, hv⟩ := mant_eq_rhe n d hd t
  rw [e]; apply rhe_le N D hD; rw [hv]; exact h

/-! ### `qexp`, `f32pos` -/

theorem qexp_ge (n d : ℕ) : -149 ≤ qexp n d := le_max_right _ _

theorem qexp_le_of_lt (n d : ℕ) (hn : 0 < n) (hd : 0 < d) (E : ℤ) (hE : -126 ≤ E)
    (hv : (n : ℚ) / d < (2 : ℚ) ^ (E + 1)) : qexp n d ≤ E - 23 := by
  obtain ⟨g1, _⟩ := ilog2_spec n d hn hd
  have a := (zpow_lt_zpow_iff_right₀ (one_lt_two (α := ℚ))).1 (lt_of_le_of_lt g1 hv)
  unfold qexp
  omega

theorem f32pos_some (n d : ℕ) (w : ℚ) (h : f32pos n d = some w) :
    w = (mant n d (qexp n d) : ℚ) * (2 : ℚ) ^ (qexp n d) ∧
      ¬(104 < qexp n d ∨ (qexp n d = 104 ∧ 2 ^ 24 ≤ mant n d (qexp n d))) := by
  unfold f32pos at h
  simp only at h
  split_ifs at h with hc
  rw [Option.some.injEq, scale_eq] at h
  exact ⟨h.symm, hc⟩

theorem f32pos_err (n d : ℕ) (hd : 0 < d) (w : ℚ) (h : f32pos n d = some w) :
    |w - (n : ℚ) / d| ≤ (2 : ℚ) ^ (qexp n d - 1) := by
  obtain ⟨hw, -⟩ := f32pos_some n d w h
  have hm := mant_spec n d hd (qexp n d)
  generalize qexp n d = t at *
  generalize mant n d t = k at *
  have hp : (0 : ℚ) < 2 ^ t := by positivity
  have e : w - (n : ℚ) / d = ((k : ℚ) - (n : ℚ) / d / 2 ^ t) * 2 ^ t := by
    rw [hw]; field_simp
  rw [e, abs_mul, abs_of_pos hp, zpow_sub₀ two_ne_zero, zpow_one]
  calc _ ≤ 1 / 2 * (2 : ℚ) ^ t := mul_le_mul_of_nonneg_right hm hp.le
    _ = _ := by ring

/-! ### `f32`: sign handling -/

theorem f32_zero : f32 0 = some 0 := rfl

theorem f32_neg (v : ℚ) : f32 (-v) = (f32 v).map (fun w => -w) := by
  unfold f32
  rw [Rat.neg_num, Rat.neg_den]
  rcases lt_trichotomy v.num 0 with h | h | h
  · rw [if_neg (by omega), if_pos (by omega), if_neg (by omega), if_neg (by omega), Option.map_map]
    have : ((fun w : ℚ => -w) ∘ fun w => -w) = id := by funext x; simp
    rw [this, Option.map_id, id]
  · simp [h]
  · rw [if_neg (by omega), if_neg (by omega), if_neg (by omega), if_pos (by omega), neg_neg]

theorem f32_of_pos (v : ℚ) (hv : 0 < v) :
    ∃ n d : ℕ, 0 < n ∧ 0 < d ∧ (n : ℚ) / d = v ∧ f32 v = f32pos n d := by
  have hn : 0 < v.num := Rat.num_pos.2 hv
  refine ⟨v.num.toNat, v.den, by omega, v.den_pos, ?_, ?_⟩
  · have : ((v.num.toNat : ℕ) : ℚ) = ((v.num.toNat : ℤ) : ℚ) := by push_cast; rfl
    rw [this, Int.toNat_of_nonneg hn.le, Rat.num_div_den]
  · unfold f32
    rw [if_neg (by omega), if_pos hn]

/-- reduction of a statement about `f32 v = some w` to positive `v` -/
theorem f32_induction (P : ℚ → ℚ → Prop) (h0 : P 0 0)
    (hneg : ∀ v w, P v w → P (-v) (-w))
    (hpos : ∀ v w, 0 < v → f32 v = some w → P v w)
    (v w : ℚ) (h : f32 v = some w) : P v w := by
  rcases lt_trichotomy v 0 with hv | hv | hv
  · have h' : f32 (-v) = some (-w) := by rw [f32_neg, h]; rfl
    have := hneg _ _ (hpos (-v) (-w) (by linarith) h')
    rwa [neg_neg, neg_neg] at this
  · subst hv
    rw [f32_zero, Option.some.injEq] at h
    subst h; exact h0
  · exact hpos v w hv h

/-! ### T1, T2, T3: error bounds -/

theorem f32_err (v w : ℚ) (h : f32 v = some w) (E : ℤ) (hE : -126 ≤ E)
    (hv : |v| < (2 : ℚ) ^ (E + 1)) : |w - v| ≤ (2 : ℚ) ^ (E - 24) := by
  revert hv
  refine f32_induction (fun v w => |v| < (2 : ℚ) ^ (E + 1) → |w - v| ≤ (2 : ℚ) ^ (E - 24))
    ?_ ?_ ?_ v w h
  · intro _; simp only [sub_self, abs_zero]; positivity
  · intro v w ih hv
    rw [abs_neg] at hv
    have : -w - -v = -(w - v) := by ring
    rw [this, abs_neg]; exact ih hv
  · intro v w hv0 h hv
    obtain ⟨n, d, hn, hd, e, hf⟩ := f32_of_pos v hv0
    rw [hf] at h
    rw [abs_of_pos hv0, ← e] at hv
    have hq := qexp_le_of_lt n d hn hd E hE hv
    have := f32pos_err n d hd w h
    rw [e] at this
    refine this.trans (zpow_le_zpow_right₀ one_le_two (by omega))

theorem f32_err_rel (v w : ℚ) (h : f32 v = some w) (hv : (2 : ℚ) ^ (-126 : ℤ) ≤ |v|) :
    |w - v| ≤ (2 : ℚ) ^ (-24 : ℤ) * |v| := by
  have hv0 : v ≠ 0 := by
    rintro rfl
    rw [abs_zero] at hv
    exact absurd hv (not_le.2 (by positivity))
  have hpos : 0 < |v| := abs_pos.2 hv0
  obtain ⟨n, d, hn, hd, e, -⟩ := f32_of_pos |v| hpos
  obtain ⟨g1, g2⟩ := ilog2_spec n d hn hd
  rw [e] at g1 g2
  have hE : (-126 : ℤ) < ilog2 n d + 1 :=
    (zpow_lt_zpow_iff_right₀ (one_lt_two (α := ℚ))).1 (lt_of_le_of_lt hv g2)
  have := f32_err v w h (ilog2 n d) (by omega) g2
  refine this.trans ?_
  have : ilog2 n d - 24 = -24 + ilog2 n d := by ring
  rw [this, zpow_add₀ two_ne_zero]
  exact mul_le_mul_of_nonneg_left g1 (by positivity)

theorem f32_err_lt_32 (v w : ℚ) (h : f32 v = some w) (hv : |v| < 32) :
    |w - v| ≤ (2 : ℚ) ^ (-20 : ℤ) ∧ (2 : ℚ) ^ (-20 : ℤ) < 1 / 1000000 := by
  refine ⟨f32_err v w h 4 (by norm_num) (by norm_num; exact hv), by norm_num⟩

theorem f32_err_le_8 (v w : ℚ) (h : f32 v = some w) (hv : |v| ≤ 8) :
    |w - v| ≤ (2 : ℚ) ^ (-21 : ℤ) ∧ (2 : ℚ) ^ (-21 : ℤ) < 1 / 2000000 := by
  refine ⟨f32_err v w h 3 (by norm_num) (lt_of_le_of_lt hv (by norm_num)), by norm_num⟩

/-! ### T4: concrete values -/

theorem f32_example_100_1 : f32 (1001 / 10) = some (13120307 / 131072) ∧
    (1 : ℚ) / 1000000 < |13120307 / 131072 - 1001 / 10| := by
  refine ⟨by decide +kernel, ?_⟩
  rw [abs_of_neg (by norm_num)]; norm_num

theorem f32_example_tie_32 : f32 (32 + 1 / 524288) = some 32 ∧
    |(32 : ℚ) - (32 + 1 / 524288)| = (2 : ℚ) ^ (-19 : ℤ) ∧
    (1 : ℚ) / 1000000 < (2 : ℚ) ^ (-19 : ℤ) := by
  refine ⟨by decide +kernel, ?_, by norm_num⟩
  rw [abs_of_neg (by norm_num)]; norm_num

theorem f32_example_tenth : f32 (1 / 10) = some (13421773 / 134217728) := by decide +kernel

theorem f32_example_overflow : f32 (2 ^ 128 - 2 ^ 103) = none ∧
    f32 (2 ^ 128 - 2 ^ 103 - 1) = some (2 ^ 128 - 2 ^ 104) := by
  constructor <;> decide +kernel

theorem f32_example_subnormal_tie : f32 (3 / 2 ^ 150) = some (1 / 2 ^ 148) ∧
    f32 (1 / 2 ^ 150) = some 0 := by
  constructor <;> decide +kernel

/-! ### T5: every result is a binary32 value -/

/-- `w` is a binary32 value -/
def IsF32 (w : ℚ) : Prop :=
  w = 0 ∨ ∃ (k : ℕ) (t : ℤ), 0 < k ∧ k < 2 ^ 24 ∧ -149 ≤ t ∧ t ≤ 104 ∧
    (w = (k : ℚ) * (2 : ℚ) ^ t ∨ w = -((k : ℚ) * (2 : ℚ) ^ t))

theorem IsF32.neg {w : ℚ} (h : IsF32 w) : IsF32 (-w) := by
  rcases h with rfl | ⟨k, t, h1, h2, h3, h4, h5 | h5⟩
  · left; simp
  · right; exact ⟨k, t, h1, h2, h3, h4, Or.inr (by rw [h5])⟩
  · right; exact ⟨k, t, h1, h2, h3, h4, Or.inl (by rw [h5, neg_neg])⟩

theorem mant_qexp_le (n d : ℕ) (hn : 0 < n) (hd : 0 < d) : mant n d (qexp n d) ≤ 2 ^ 24 := by
  obtain ⟨_, g2⟩ := ilog2_spec n d hn hd
  have hq : ilog2 n d + 1 ≤ 24 + qexp n d := by unfold qexp; omega
  apply mant_le n d hd
  have hp : (0 : ℚ) < 2 ^ qexp n d := by positivity
  rw [div_le_iff₀ hp]
  have hb : (((2 ^ 24 : ℕ)) : ℚ) = (2 : ℚ) ^ (24 : ℤ) := by norm_num
  rw [hb, ← zpow_add₀ two_ne_zero]
  exact g2.le.trans (zpow_le_zpow_right₀ one_le_two hq)

theorem f32_range (v w : ℚ) (h : f32 v = some w) :
    w = 0 ∨ ∃ (k : ℕ) (t : ℤ), 0 < k ∧ k < 2 ^ 24 ∧ -149 ≤ t ∧ t ≤ 104 ∧
      (w = (k : ℚ) * (2 : ℚ) ^ t ∨ w = -((k : ℚ) * (2 : ℚ) ^ t)) := by
  refine f32_induction (fun _ w => IsF32 w) (Or.inl rfl) (fun _ _ ih => ih.neg) ?_ v w h
  intro v w hv0 h
  obtain ⟨n, d, hn, hd, e, hf⟩ := f32_of_pos v hv0
  rw [hf] at h
  obtain ⟨hw, hov⟩ := f32pos_some n d w h
  have hk := mant_qexp_le n d hn hd
  have ht := qexp_ge n d
  generalize qexp n d = t at *
  generalize mant n d t = k at *
  rcases Nat.eq_zero_or_pos k with rfl | hk0
  · left; rw [hw]; simp
  · right
    rcases Nat.lt_or_ge k (2 ^ 24) with hlt | hge
    · exact ⟨k, t, hk0, hlt, ht, by omega, Or.inl hw⟩
    · have hk' : k = 2 ^ 24 := le_antisymm hk hge
      refine ⟨2 ^ 23, t + 1, by norm_num, by norm_num, by omega, by omega, Or.inl ?_⟩
      rw [hw, hk', zpow_add₀ two_ne_zero]; push_cast; ring

/-! ### T6: binary32 values are fixed -/

theorem f32pos_of_repr (n d : ℕ) (hn : 0 < n) (hd : 0 < d) (k : ℕ) (t : ℤ)
    (hk : k < 2 ^ 24) (ht : -149 ≤ t) (ht' : t ≤ 104)
    (hv : (n : ℚ) / d = (k : ℚ) * (2 : ℚ) ^ t) : f32pos n d = some ((k : ℚ) * (2 : ℚ) ^ t) := by
  obtain ⟨g1, _⟩ := ilog2_spec n d hn hd
  have hlt : (n : ℚ) / d < (2 : ℚ) ^ (t + 24) := by
    rw [hv, zpow_add₀ two_ne_zero, mul_comm]
    apply mul_lt_mul_of_pos_left _ (by positivity)
    have : ((k : ℕ) : ℚ) < ((2 ^ 24 : ℕ) : ℚ) := by exact_mod_cast hk
    refine this.trans_le ?_
    norm_num
  have he := (zpow_lt_zpow_iff_right₀ (one_lt_two (α := ℚ))).1 (lt_of_le_of_lt g1 hlt)
  have hq : qexp n d ≤ t := by unfold qexp; omega
  have hq' := qexp_ge n d
  unfold f32pos
  simp only
  generalize qexp n d = q at *
  obtain ⟨m, hm⟩ := Int.eq_ofNat_of_zero_le (show 0 ≤ t - q by omega)
  have ht_eq : t = (m : ℤ) + q := by omega
  have hval : (n : ℚ) / d = ((k * 2 ^ m : ℕ) : ℚ) * (2 : ℚ) ^ q := by
    rw [hv, ht_eq, zpow_add₀ two_ne_zero, zpow_natCast]; push_cast; ring
  have hmant := mant_eq_of_eq n d hd q (k * 2 ^ m) hval
  rw [hmant, if_neg, scale_eq, ← hval, hv]
  rintro (h | ⟨h1, h2⟩)
  · omega
  · have : m = 0 := by omega
    subst this
    omega

theorem f32_of_repr (k : ℕ) (t : ℤ) (hk : k < 2 ^ 24) (ht : -149 ≤ t) (ht' : t ≤ 104) :
    f32 ((k : ℚ) * (2 : ℚ) ^ t) = some ((k : ℚ) * (2 : ℚ) ^ t) := by
  rcases Nat.eq_zero_or_pos k with rfl | hk0
  · simp only [Nat.cast_zero, zero_mul]; exact f32_zero
  · have hpos : (0 : ℚ) < (k : ℚ) * (2 : ℚ) ^ t := by positivity
    obtain ⟨n, d, hn, hd, e, hf⟩ := f32_of_pos _ hpos
    rw [hf]
    exact f32pos_of_repr n d hn hd k t hk ht ht' e

theorem f32_of_repr_neg (k : ℕ) (t : ℤ) (hk : k < 2 ^ 24) (ht : -149 ≤ t) (ht' : t ≤ 104) :
    f32 (-((k : ℚ) * (2 : ℚ) ^ t)) = some (-((k : ℚ) * (2 : ℚ) ^ t)) := by
  rw [f32_neg, f32_of_repr k t hk ht ht']; rfl

/-! ### T7: idempotence, fixed points -/

theorem f32_of_isF32 (w : ℚ) (h : IsF32 w) : f32 w = some w := by
  rcases h with rfl | ⟨k, t, _, h2, h3, h4, rfl | rfl⟩
  · exact f32_zero
  · exact f32_of_repr k t h2 h3 h4
  · exact f32_of_repr_neg k t h2 h3 h4

theorem f32_idem (v w : ℚ) (h : f32 v = some w) : f32 w = some w :=
  f32_of_isF32 w (f32_range v w h)

theorem f32_fixed_iff (v : ℚ) : f32 v = some v ↔
    v = 0 ∨ ∃ (k : ℕ) (t : ℤ), 0 < k ∧ k < 2 ^ 24 ∧ -149 ≤ t ∧ t ≤ 104 ∧
      (v = (k : ℚ) * (2 : ℚ) ^ t ∨ v = -((k : ℚ) * (2 : ℚ) ^ t)) :=
  ⟨fun h => f32_range v v h, fun h => f32_of_isF32 v h⟩

theorem f32D_of_some (v w : ℚ) (h : f32 v = some w) : f32D v = w := by
  unfold f32D; rw [h]; rfl

theorem f32D_idem (v : ℚ) (h : (f32 v).isSome) : f32D (f32D v) = f32D v := by
  obtain ⟨w, hw⟩ := Option.isSome_iff_exists.1 h
  rw [f32D_of_some v w hw, f32D_of_some w w (f32_idem v w hw)]


/-! ### no overflow below `2^127`, the total conversion `f32D` -/

theorem f32_isSome_of_lt (v : ℚ) (hv : |v| < (2 : ℚ) ^ (127 : ℤ)) : (f32 v).isSome := by
  have pos : ∀ u : ℚ, 0 < u → u < (2 : ℚ) ^ (127 : ℤ) → (f32 u).isSome := by
    intro u hu hlt
    obtain ⟨n, d, hn, hd, hnd, hf⟩ := f32_of_pos u hu
    have hq := qexp_le_of_lt n d hn hd 126 (by norm_num) (by rw [hnd]; exact hlt)
    rw [hf]
    unfold f32pos
    simp only
    rw [if_neg (by omega)]
    rfl
  rcases lt_trichotomy v 0 with h | h | h
  · have h1 := pos (-v) (by linarith) (by rw [abs_of_neg h] at hv; exact hv)
    have : f32 v = (f32 (-v)).map (fun w => -w) := by
      have := f32_neg (-v); rw [neg_neg] at this; exact this
    rw [this]; simpa using h1
  · subst h; rw [f32_zero]; rfl
  · exact pos v h (by rw [abs_of_pos h] at hv; exact hv)

/-- unconditional: `f32D` sends an overflow to `0`, which is a fixed point -/
theorem f32D_idem' (v : ℚ) : f32D (f32D v) = f32D v := by
  cases h : f32 v with
  | none =>
    have : f32D v = 0 := by unfold f32D; rw [h]; rfl
    rw [this, f32D_of_some 0 0 f32_zero]
  | some w => exact f32D_idem v (by rw [h]; rfl)

theorem f32D_fixed_iff (v : ℚ) : f32D v = v ↔ IsF32 v := by
  constructor
  · intro h
    cases hf : f32 v with
    | none =>
      have : f32D v = 0 := by unfold f32D; rw [hf]; rfl
      rw [this] at h
      subst h
      rw [f32_zero] at hf
      cases hf
    | some w =>
      rw [f32D_of_some v w hf] at h
      subst h
      exact f32_range _ _ hf
  · intro h
    exact f32D_of_some v v (f32_of_isF32 v h)

/-- the bound that matters for the property: below 32 a configuration value comes back within `2^-20 < 1e-6` -/
theorem f32D_err_lt_32 (v : ℚ) (hv : |v| < 32) :
    |f32D v - v| ≤ (2 : ℚ) ^ (-20 : ℤ) ∧ (2 : ℚ) ^ (-20 : ℤ) < 1 / 1000000 := by
  have hs := f32_isSome_of_lt v (lt_trans hv (by norm_num))
  obtain ⟨w, hw⟩ := Option.isSome_iff_exists.1 hs
  rw [f32D_of_some v w hw]
  exact f32_err_lt_32 v w hw hv

/-! ### `FFConfigurator` with the real conversion (`Lemmas/C15FF.lean` at `V = ℚ`, `rnd = f32D`) -/

open PM.C15.FFC in
/-- The rebuilt configurator is the original one (up to dict order) iff every table value is a binary32 number. -/
theorem configurator_exact_iff_f32 {κ γ δ : Type} [DecidableEq κ] (I : Ctl γ) (enc : γ → δ) (dec : δ → Option γ)
    (ksize : κ → Nat) (x : Cfgr κ γ ℚ) (hv : Valid ksize x) (c' : γ) (hdec : dec (enc x.ctrl) = some c')
    (hvars : (I.vars c').Perm x.linked) (hfree : ∀ n ∈ I.vars c', n ∈ I.free c')
    (wd : Table ℚ) (hwd : wd.Perm x.defaultConfig) (wc : List (κ × Table ℚ)) (hwc : CfgPerm wc x.configs)
    (y : Cfgr κ γ ℚ) (hy : decCfgr I dec ksize x.m (encCfgr enc f32D x wd wc) = .ok y) :
    Equiv y (expected I (fun v => v) x c') ↔ AllValues IsF32 x := by
  rw [roundtrip_configurator_exact_iff I enc dec f32D ksize x hv c' hdec hvars hfree wd hwd wc hwc y hy]
  unfold AllValues
  simp only [f32D_fixed_iff]

open PM.C15.FFC in
/-- Every table value below 32 in absolute value comes back within `2^-20 < 1e-6`; the names, the states, the
flag, the offset and the name are exact. -/
theorem configurator_values_close {κ γ δ : Type} [DecidableEq κ] (I : Ctl γ) (enc : γ → δ) (dec : δ → Option γ)
    (ksize : κ → Nat) (x : Cfgr κ γ ℚ) (hv : Valid ksize x) (c' : γ) (hdec : dec (enc x.ctrl) = some c')
    (hvars : (I.vars c').Perm x.linked) (hfree : ∀ n ∈ I.vars c', n ∈ I.free c')
    (wd : Table ℚ) (hwd : wd.Perm x.defaultConfig) (wc : List (κ × Table ℚ)) (hwc : CfgPerm wc x.configs) :
    ∃ y, decCfgr I dec ksize x.m (encCfgr enc f32D x wd wc) = .ok y ∧
      y.defaultConfig = mapT f32D wd ∧ y.configs = mapC f32D wc ∧
      ∀ v : ℚ, |v| < 32 → |f32D v - v| ≤ (2 : ℚ) ^ (-20 : ℤ) := by
  obtain ⟨y, hy, hyeq, _, _⟩ := roundtrip_configurator I enc dec f32D ksize x hv c' hdec hvars hfree wd hwd wc hwc
  exact ⟨y, hy, by rw [hyeq], by rw [hyeq], fun v h => (f32D_err_lt_32 v h).1⟩

open PM.C15.FFC in
/-- A second round trip returns exactly what the first one returned. -/
theorem configurator_second_f32 {κ γ δ : Type} [DecidableEq κ] (I : Ctl γ) (enc : γ → δ) (dec : δ → Option γ)
    (ksize : κ → Nat) (x : Cfgr κ γ ℚ) (hv : Valid ksize x) (c' : γ) (hdec : dec (enc x.ctrl) = some c')
    (hvars : (I.vars c').Perm x.linked) (hfree : ∀ n ∈ I.vars c', n ∈ I.free c')
    (wd : Table ℚ) (hwd : wd.Perm x.defaultConfig) (wc : List (κ × Table ℚ)) (hwc : CfgPerm wc x.configs)
    (y : Cfgr κ γ ℚ) (hy : decCfgr I dec ksize x.m (encCfgr enc f32D x wd wc) = .ok y)
    (hdec2 : dec (enc c') = some c')
    (wd2 : Table ℚ) (hwd2 : wd2.Perm y.defaultConfig) (wc2 : List (κ × Table ℚ)) (hwc2 : CfgPerm wc2 y.configs) :
    ∃ z, decCfgr I dec ksize y.m (encCfgr enc f32D y wd2 wc2) = .ok z ∧ Equiv z y :=
  roundtrip_configurator_second I enc dec f32D f32D_idem' ksize x hv c' hdec hvars hfree wd hwd wc hwc y hy hdec2
    wd2 hwd2 wc2 hwc2

/-- non-vacuity and the boundary in one concrete object: default table `{a: 0.5, b: 100.1}`; `0.5` is a
binary32 number, `100.1` is not and moves by more than `1e-6` -/
example : IsF32 (1 / 2) ∧ ¬ IsF32 (1001 / 10) := by
  refine ⟨Or.inr ⟨1, -1, by norm_num, by norm_num, by norm_num, by norm_num, Or.inl (by norm_num)⟩, ?_⟩
  intro h
  have h1 := f32_of_isF32 _ h
  rw [f32_example_100_1.1] at h1
  have : (13120307 / 131072 : ℚ) = 1001 / 10 := Option.some.inj h1
  norm_num at this

end PM.C15.F32
