/-
  C09 (extension) — lemmas about `Model/C09Iter.lean` (Sampler iterations).
-/
import PercevalModel.Model.C09Iter
import Mathlib.Data.List.Basic

set_option linter.unusedSimpArgs false
set_option linter.unusedVariables false

namespace PM.C09

/-- the part of a configuration that `applyIt` computes from the defaults and the iteration alone -/
def noParams (c : SCfg) : SCfg := { c with params := [] }

theorem applyIt_noParams (d : SCfg) (it : Iter) (c c' : SCfg) :
    noParams (applyIt d it c) = noParams (applyIt d it c') := by
  simp [applyIt, noParams]

theorem runIts_length (d : SCfg) : ∀ (its : List Iter) (c : SCfg), (runIts d its c).1.length = its.length := by
  intro its
  induction its with
  | nil => intro c; rfl
  | cons it rest ih => intro c; simp [runIts, ih]

theorem runIts_noParams (d : SCfg) : ∀ (its : List Iter) (c : SCfg),
    (runIts d its c).1.map noParams = its.map fun it => noParams (applyIt d it d) := by
  intro its
  induction its with
  | nil => intro c; rfl
  | cons it rest ih =>
    intro c
    simp only [runIts, List.map_cons, ih]
    rw [applyIt_noParams d it c d]

theorem applyIt_noIter (d c : SCfg) : applyIt d noIter c = d := by
  simp [applyIt, noIter]

/-! ### circuit parameters -/

theorem setParams_length (l : List (Nat × Nat)) : ∀ ps : List Nat, (setParams l ps).length = ps.length := by
  induction l with
  | nil => intro ps; rfl
  | cons iv l ih => intro ps; simp [setParams, List.foldl_cons] at ih ⊢; rw [ih]; simp

/-- value the dictionary `l` gives to position `i` (its last entry for `i`) -/
def lastVal (l : List (Nat × Nat)) (i : Nat) : Option Nat :=
  l.foldl (fun acc iv => if iv.1 = i then some iv.2 else acc) none

theorem foldl_lastVal_some (l : List (Nat × Nat)) (i : Nat) : ∀ a : Option Nat, a.isSome = true →
    (l.foldl (fun acc iv => if iv.1 = i then some iv.2 else acc) a).isSome = true := by
  induction l with
  | nil => intro a h; exact h
  | cons iv l ih =>
    intro a h
    simp only [List.foldl_cons]
    apply ih
    by_cases hi : iv.1 = i <;> simp [hi, h]

theorem setParams_get (l : List (Nat × Nat)) (i : Nat) : ∀ (ps : List Nat) (a : Option Nat),
    (∀ v, a = some v → ps[i]? = some v) →
    i < ps.length →
    (setParams l ps)[i]? =
      match l.foldl (fun acc iv => if iv.1 = i then some iv.2 else acc) a with
      | some v => some v
      | none => ps[i]? := by
  induction l with
  | nil =>
    intro ps a ha hi
    cases a with
    | none => rfl
    | some v => simp [setParams, ha v rfl]
  | cons iv l ih =>
    intro ps a ha hi
    simp only [setParams, List.foldl_cons] at ih ⊢
    by_cases hj : iv.1 = i
    · simp only [hj, ↓reduceIte]
      have := ih (ps.set i iv.2) (some iv.2) (by intro v hv; simp at hv; subst hv; simp [hi]) (by simpa using hi)
      rw [this]
      have hs := foldl_lastVal_some l i (some iv.2) rfl
      cases hf : l.foldl (fun acc iv => if iv.1 = i then some iv.2 else acc) (some iv.2) with
      | none => rw [hf] at hs; simp at hs
      | some v => rfl
    · simp only [hj, ↓reduceIte]
      have := ih (ps.set iv.1 iv.2) a
        (by intro v hv; rw [List.getElem?_set_ne hj]; exact ha v hv) (by simpa using hi)
      rw [this, List.getElem?_set_ne hj]

/-- a dictionary naming every position decides the whole parameter vector -/
theorem setParams_full (n : Nat) (l : List (Nat × Nat)) (ps ps' : List Nat)
    (hl : (List.range n).all (fun i => l.any fun iv => iv.1 == i) = true)
    (h1 : ps.length = n) (h2 : ps'.length = n) : setParams l ps = setParams l ps' := by
  apply List.ext_getElem?
  intro i
  by_cases hi : i < n
  · rw [setParams_get l i ps none (by simp) (by omega), setParams_get l i ps' none (by simp) (by omega)]
    have hcov : (l.any fun iv => iv.1 == i) = true := by
      simp only [List.all_eq_true, List.mem_range] at hl
      exact hl i hi
    have hsome : (l.foldl (fun acc iv => if iv.1 = i then some iv.2 else acc) none).isSome = true := by
      clear hl h1 h2
      induction l with
      | nil => simp at hcov
      | cons iv l ih =>
        simp only [List.foldl_cons]
        by_cases hj : iv.1 = i
        · simp only [hj, ↓reduceIte]
          exact foldl_lastVal_some l i _ rfl
        · simp only [hj, ↓reduceIte]
          apply ih
          simpa [List.any_cons, hj] using hcov
    cases hf : l.foldl (fun acc iv => if iv.1 = i then some iv.2 else acc) none with
    | none => rw [hf] at hsome; simp at hsome
    | some v => rfl
  · have e1 : (setParams l ps).length = n := by rw [setParams_length, h1]
    have e2 : (setParams l ps').length = n := by rw [setParams_length, h2]
    rw [List.getElem?_eq_none (by omega), List.getElem?_eq_none (by omega)]

theorem applyIt_params_length (n : Nat) (d c : SCfg) (it : Iter) (hd : d.params.length = n) (hc : c.params.length = n) :
    (applyIt d it c).params.length = n := by
  unfold applyIt
  cases it.params with
  | none => simpa using hd
  | some l => simpa [setParams_length] using hc

theorem runIts_full (n : Nat) (d : SCfg) (hd : d.params.length = n) : ∀ (its : List Iter) (c : SCfg),
    c.params.length = n → (∀ it ∈ its, fullParams n it = true) →
    (runIts d its c).1 = its.map (fun it => applyIt d it d) := by
  intro its
  induction its with
  | nil => intro c _ _; rfl
  | cons it rest ih =>
    intro c hc hfull
    have hit : fullParams n it = true := hfull it List.mem_cons_self
    have e : applyIt d it c = applyIt d it d := by
      unfold applyIt
      cases hp : it.params with
      | none => rfl
      | some l =>
        simp only
        unfold fullParams at hit
        rw [hp] at hit
        rw [setParams_full n l c.params d.params hit hc hd]
    simp only [runIts, List.map_cons]
    rw [e, ih (applyIt d it d) (applyIt_params_length n d d it hd hd)
      (fun it' h' => hfull it' (List.mem_cons_of_mem _ h'))]


/-! ### the one-slot cache -/

/-- a slot is coherent when it holds the value of its key -/
def SlotOk {K V : Type} (f : K → V) (slot : Option (K × V)) : Prop := ∀ k v, slot = some (k, v) → v = f k

theorem slotStep_ok {K V : Type} [DecidableEq K] (f : K → V) (slot : Option (K × V)) (k : K) (h : SlotOk f slot) :
    SlotOk f (slotStep f slot k).1 ∧ (slotStep f slot k).2 = f k := by
  have hnew : SlotOk f (some (k, f k)) := by
    intro k' v' e
    simp only [Option.some.injEq, Prod.mk.injEq] at e
    obtain ⟨rfl, rfl⟩ := e
    rfl
  cases slot with
  | none => exact ⟨hnew, rfl⟩
  | some kv =>
    obtain ⟨k0, v0⟩ := kv
    by_cases hk : k0 = k
    · subst hk
      have e : slotStep f (some (k0, v0)) k0 = (some (k0, v0), v0) := by simp [slotStep]
      rw [e]
      exact ⟨h, h k0 v0 rfl⟩
    · have e : slotStep f (some (k0, v0)) k = (some (k, f k), f k) := by simp [slotStep, hk]
      rw [e]
      exact ⟨hnew, rfl⟩

end PM.C09
