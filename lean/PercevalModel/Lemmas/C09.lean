/-
  C09 — helper lemmas (loop invariant, stop characterisation, list sums, repair loop).
-/
import PercevalModel.Model.C09
import Mathlib.Algebra.Order.Field.Rat
import Mathlib.Tactic.FieldSimp
import Mathlib.Tactic.Positivity
import Mathlib.Tactic.Linarith
import Mathlib.Tactic.Ring

set_option linter.unusedSimpArgs false

namespace PM.C09

/-! ### the `_noisy_sampling` loop -/

/-- invariant of the loop -/
structure Inv (c : Cfg) (s : St) : Prop where
  out_le : s.out ≤ c.maxSamples
  shots_le : ∀ k, c.maxShots = some k → s.shots ≤ k
  account : s.shots = s.out + s.notSel + s.notSelPhys
  idx_le : s.idx ≤ s.batchLen

theorem inv_init (c : Cfg) (f : Nat) : Inv c (init f) :=
  ⟨Nat.zero_le _, fun _ _ => Nat.zero_le _, rfl, Nat.zero_le _⟩

theorem cond_true_iff (c : Cfg) (s : St) :
    cond c s = true ↔ s.out < c.maxSamples ∧ ∀ k, c.maxShots = some k → s.shots < k := by
  unfold cond
  cases h : c.maxShots with
  | none => simp
  | some k => simp

theorem classify_out_le (s : St) (o : Outcome) : (classify s o).out ≤ s.out + 1 := by
  cases o <;> simp [classify]

theorem classify_fields (s : St) (o : Outcome) :
    (classify s o).shots = s.shots ∧ (classify s o).idx = s.idx ∧
    (classify s o).batchLen = s.batchLen ∧ (classify s o).halt = s.halt ∧
    (classify s o).out + (classify s o).notSel + (classify s o).notSelPhys
      = s.out + s.notSel + s.notSelPhys + 1 := by
  cases o <;> simp [classify] <;> omega

theorem step_stopped (c : Cfg) (s : St) (op : Shot) (h : stopped c s = true) :
    step c s op = (s, ⟨false, none⟩) := by
  simp [step, h]

theorem step_inv (c : Cfg) (s : St) (op : Shot) (h : Inv c s) : Inv c (step c s op).1 := by
  by_cases hs : stopped c s = true
  · rw [step_stopped c s op hs]; exact h
  · have hc : cond c s = true := by
      simp [stopped] at hs; exact hs.2
    obtain ⟨h1, h2⟩ := (cond_true_iff c s).1 hc
    obtain ⟨a1, a2, a3, a4⟩ := h
    obtain ⟨out, shots, ns, nsp, idx, bl, halt⟩ := s
    obtain ⟨cancel, batch, outcome⟩ := op
    simp only at h1 h2 a1 a2 a3 a4
    unfold step
    simp only [hs, Bool.false_eq_true, ↓reduceIte]
    by_cases hcan : (c.hasCallback && cancel) = true
    · simp only [hcan, Bool.false_eq_true, ↓reduceIte]
      exact ⟨a1, a2, a3, a4⟩
    · simp only [hcan, Bool.false_eq_true, ↓reduceIte]
      by_cases he : (idx == bl) = true
      · simp only [he, Bool.false_eq_true, ↓reduceIte]
        by_cases hlt : 0 < batch
        · simp only [hlt, Bool.false_eq_true, ↓reduceIte]
          cases outcome <;> refine ⟨?_, ?_, ?_, ?_⟩ <;> simp only [classify, Bool.false_eq_true, ↓reduceIte] <;>
            first | omega | (intro k hk; have := h2 k hk; omega)
        · simp only [hlt, Bool.false_eq_true, ↓reduceIte]
          refine ⟨a1, a2, a3, ?_⟩
          simp only; omega
      · simp only [he, Bool.false_eq_true, ↓reduceIte]
        have he' : idx ≠ bl := by simpa using he
        by_cases hlt : idx < bl
        · simp only [hlt, Bool.false_eq_true, ↓reduceIte]
          cases outcome <;> refine ⟨?_, ?_, ?_, ?_⟩ <;> simp only [classify, Bool.false_eq_true, ↓reduceIte] <;>
            first | omega | (intro k hk; have := h2 k hk; omega)
        · simp only [hlt, Bool.false_eq_true, ↓reduceIte]
          exact ⟨a1, a2, a3, a4⟩

theorem inv_loop (c : Cfg) (f : Nat) (ops : List Shot) : Inv c (loop c f ops) :=
  PM.SM.inv_exec (step c) (Inv c) (fun s op h => step_inv c s op h) _ (inv_init c f) ops

/-- once stopped, always stopped, and the state never moves again -/
theorem exec_stopped (c : Cfg) (s : St) (h : stopped c s = true) (ops : List Shot) :
    PM.SM.exec (step c) s ops = s := by
  induction ops with
  | nil => rfl
  | cons x xs ih => rw [PM.SM.exec_cons, step_stopped c s x h]; exact ih

/-- a step from a running state that leaves the loop running is a genuine shot -/
theorem step_running_shot (c : Cfg) (s : St) (op : Shot)
    (h' : stopped c (step c s op).1 = false) :
    stopped c s = false ∧ (step c s op).1.shots = s.shots + 1 := by
  by_cases hs : stopped c s = true
  · rw [step_stopped c s op hs] at h'; simp [hs] at h'
  · have hs' : stopped c s = false := by simpa using hs
    refine ⟨hs', ?_⟩
    obtain ⟨out, shots, ns, nsp, idx, bl, halt⟩ := s
    obtain ⟨cancel, batch, outcome⟩ := op
    unfold step at h' ⊢
    simp only [hs, Bool.false_eq_true, ↓reduceIte] at h' ⊢
    by_cases hcan : (c.hasCallback && cancel) = true
    · simp only [hcan, Bool.false_eq_true, ↓reduceIte] at h'
      simp [stopped] at h'
    · simp only [hcan, Bool.false_eq_true, ↓reduceIte] at h' ⊢
      by_cases he : (idx == bl) = true
      · simp only [he, Bool.false_eq_true, ↓reduceIte] at h' ⊢
        by_cases hlt : 0 < batch
        · simp only [hlt, Bool.false_eq_true, ↓reduceIte]
          cases outcome <;> simp [classify]
        · simp only [hlt, Bool.false_eq_true, ↓reduceIte] at h'
          simp [stopped] at h'
      · simp only [he, Bool.false_eq_true, ↓reduceIte] at h' ⊢
        by_cases hlt : idx < bl
        · simp only [hlt, Bool.false_eq_true, ↓reduceIte]
          cases outcome <;> simp [classify]
        · simp only [hlt, Bool.false_eq_true, ↓reduceIte] at h'
          simp [stopped] at h'

/-- if the loop is still running after a history, every operation of it was a shot -/
theorem running_shots (c : Cfg) (s : St) (ops : List Shot)
    (h : stopped c (PM.SM.exec (step c) s ops) = false) :
    stopped c s = false ∧ (PM.SM.exec (step c) s ops).shots = s.shots + ops.length := by
  induction ops generalizing s with
  | nil => exact ⟨h, rfl⟩
  | cons x xs ih =>
    rw [PM.SM.exec_cons] at h ⊢
    obtain ⟨h1, h2⟩ := ih _ h
    obtain ⟨h3, h4⟩ := step_running_shot c s x h1
    refine ⟨h3, ?_⟩
    rw [h2, h4, List.length_cons]; omega

/-! ### sums and counting -/

theorem sumI_append (a b : List Int) : sumI (a ++ b) = sumI a + sumI b := by
  induction a with
  | nil => simp [sumI]
  | cons x xs ih => simp [sumI, ih]; omega

theorem sumI_set (cs : List Int) (k : Nat) (v : Int) (hk : k < cs.length) :
    sumI (cs.set k v) = sumI cs - cs.getD k 0 + v := by
  induction cs generalizing k with
  | nil => simp at hk
  | cons x xs ih =>
    cases k with
    | zero => simp [sumI]; omega
    | succ k =>
      have hk' : k < xs.length := by simpa using hk
      simp [sumI, ih k hk']; omega

theorem sumI_map_ofNat (l : List Nat) : sumI (l.map Int.ofNat) = (l.sum : Int) := by
  induction l with
  | nil => rfl
  | cons x xs ih => simp [sumI, ih]

/-- total of occurrence counts over `{0..n-1}` = number of samples that lie in that range -/
theorem sum_occ_range (n : Nat) (samples : List Nat) :
    ((List.range n).map fun i => occ i samples).sum = (samples.filter (· < n)).length := by
  induction samples with
  | nil =>
    simp only [occ, List.filter_nil, List.length_nil]
    induction n with
    | zero => rfl
    | succ n ih => rw [List.range_succ, List.map_append, List.sum_append, ih]; rfl
  | cons s ss ih =>
    have key : ∀ n, ((List.range n).map fun i => occ i (s :: ss)).sum
        = (if s < n then 1 else 0) + ((List.range n).map fun i => occ i ss).sum := by
      intro n
      induction n with
      | zero => simp
      | succ n ihn =>
        rw [List.range_succ, List.map_append, List.sum_append, ihn, List.map_append, List.sum_append]
        simp only [List.map_cons, List.map_nil, List.sum_cons, List.sum_nil, occ]
        by_cases h1 : s = n
        · subst h1; simp; omega
        · by_cases h2 : s < n
          · have : s < n + 1 := by omega
            simp [h1, h2, this]; omega
          · have : ¬ s < n + 1 := by omega
            simp [h1, h2, this]
    rw [key, ih, List.filter_cons]
    by_cases h : s < n <;> simp [h]; omega

theorem countOf_sum (n : Nat) (samples : List Nat) (h : ∀ s ∈ samples, s < n) :
    (countOf n samples).sum = samples.length := by
  unfold countOf
  rw [sum_occ_range]
  congr 1
  apply List.filter_eq_self.2
  intro a ha; simpa using h a ha

theorem countOf_length (n : Nat) (samples : List Nat) : (countOf n samples).length = n := by
  simp [countOf]

/-! ### the too-many repair loop -/

theorem getD_eq_getElem' {α : Type} (l : List α) (d : α) {i : Nat} (h : i < l.length) :
    l.getD i d = l[i] := by
  simp [List.getD_eq_getElem?_getD, h]

theorem getD_eq_default' {α : Type} (l : List α) (d : α) {i : Nat} (h : l.length ≤ i) :
    l.getD i d = d := by
  simp [List.getD_eq_getElem?_getD, h]


theorem keysOf_lt (cs : List Int) : ∀ k ∈ keysOf cs, k < cs.length := by
  intro k hk
  simp [keysOf] at hk
  exact hk.1

theorem getD_keys_lt (cs : List Int) (keys : List Nat) (hkeys : ∀ k ∈ keys, k < cs.length)
    (hne : keys ≠ []) (p : Nat) : keys.getD (p % keys.length) 0 < cs.length := by
  have hl : 0 < keys.length := List.length_pos_iff.2 hne
  have : p % keys.length < keys.length := Nat.mod_lt _ hl
  rw [getD_eq_getElem' _ _ this]
  exact hkeys _ (List.getElem_mem this)

theorem getD_nonneg (cs : List Int) (h : ∀ c ∈ cs, 0 ≤ c) (k : Nat) : 0 ≤ cs.getD k 0 := by
  by_cases hk : k < cs.length
  · rw [getD_eq_getElem' _ _ hk]; exact h _ (List.getElem_mem hk)
  · have := getD_eq_default' cs (0 : Int) (i := k) (by omega)
    omega

theorem set_nonneg (cs : List Int) (h : ∀ c ∈ cs, 0 ≤ c) (k : Nat) (v : Int) (hv : 0 ≤ v) :
    ∀ c ∈ cs.set k v, 0 ≤ c := by
  intro c hc
  rcases List.mem_or_eq_of_mem_set hc with h1 | h1
  · exact h c h1
  · omega

/-- every completed run of the too-many repair removes exactly `d` and keeps all counts ≥ 0 -/
theorem repairHigh_spec (keys : List Nat) (picks : List Nat) :
    ∀ (cs : List Int) (d : Int) (r : List Int),
      (∀ k ∈ keys, k < cs.length) → keys ≠ [] → (∀ c ∈ cs, 0 ≤ c) → 0 ≤ d →
      repairHigh keys cs d picks = some r →
      sumI r = sumI cs - d ∧ (∀ c ∈ r, 0 ≤ c) ∧ r.length = cs.length := by
  induction picks with
  | nil =>
    intro cs d r _ _ hnn hd h
    unfold repairHigh at h
    by_cases h0 : d ≤ 0
    · simp [h0] at h; subst h
      have : d = 0 := by omega
      exact ⟨by omega, hnn, rfl⟩
    · simp [h0] at h
  | cons p rest ih =>
    intro cs d r hkeys hne hnn hd h
    unfold repairHigh at h
    by_cases h0 : d ≤ 0
    · simp [h0] at h; subst h
      have : d = 0 := by omega
      exact ⟨by omega, hnn, rfl⟩
    · simp only [h0, if_false] at h
      have hk := getD_keys_lt cs keys hkeys hne p
      have hc := getD_nonneg cs hnn (keys.getD (p % keys.length) 0)
      have hmin : 0 ≤ min (cs.getD (keys.getD (p % keys.length) 0) 0) d := by omega
      have hset := set_nonneg cs hnn (keys.getD (p % keys.length) 0)
        (cs.getD (keys.getD (p % keys.length) 0) 0 - min (cs.getD (keys.getD (p % keys.length) 0) 0) d)
        (by omega)
      obtain ⟨e1, e2, e3⟩ := ih _ _ r (by simpa using hkeys) hne hset (by omega) h
      refine ⟨?_, e2, by simpa using e3⟩
      rw [e1, sumI_set cs _ _ hk]; omega

theorem repairHigh_of_le (keys : List Nat) (cs : List Int) (d : Int) (picks : List Nat)
    (h : d ≤ 0) : repairHigh keys cs d picks = some cs := by
  unfold repairHigh; simp [h]

theorem getD_set_ne (cs : List Int) (k i : Nat) (v : Int) (h : k ≠ i) :
    (cs.set k v).getD i 0 = cs.getD i 0 := by
  simp [List.getD_eq_getElem?_getD, List.getElem?_set_ne h]

theorem getD_set_self (cs : List Int) (k : Nat) (v : Int) (h : k < cs.length) :
    (cs.set k v).getD k 0 = v := by
  simp [List.getD_eq_getElem?_getD, h]

theorem sumI_eq_zero (cs : List Int) (h : ∀ c ∈ cs, c = 0) : sumI cs = 0 := by
  induction cs with
  | nil => rfl
  | cons x xs ih =>
    have hx : x = 0 := h x (by simp)
    have := ih (fun c hc => h c (by simp [hc]))
    simp [sumI, hx, this]

/-- Termination under fairness: if every key that still holds a positive count is picked at
least once in the remaining stream (and, as in the calling context, what has to be removed is
less than what the table holds), the repair loop finishes inside the stream. -/
theorem repairHigh_fair (keys : List Nat) (picks : List Nat) :
    ∀ (cs : List Int) (d : Int),
      (∀ k ∈ keys, k < cs.length) → keys ≠ [] → (∀ c ∈ cs, 0 ≤ c) →
      (∀ i, i ∉ keys → cs.getD i 0 = 0) → d < sumI cs →
      (∀ k ∈ keys, 0 < cs.getD k 0 → ∃ p ∈ picks, keys.getD (p % keys.length) 0 = k) →
      (repairHigh keys cs d picks).isSome = true := by
  induction picks with
  | nil =>
    intro cs d _ _ hnn hout hlt hfair
    by_cases h0 : d ≤ 0
    · rw [repairHigh_of_le _ _ _ _ h0]; rfl
    · exfalso
      have hz : ∀ c ∈ cs, c = 0 := by
        intro c hc
        obtain ⟨i, hi, rfl⟩ := List.getElem_of_mem hc
        have hg : cs.getD i 0 = cs[i] := getD_eq_getElem' _ _ hi
        by_cases hik : i ∈ keys
        · by_cases hp : 0 < cs.getD i 0
          · obtain ⟨p, hp', _⟩ := hfair i hik hp; simp at hp'
          · have := hnn cs[i] (List.getElem_mem hi); omega
        · have := hout i hik; omega
      have := sumI_eq_zero cs hz
      omega
  | cons p rest ih =>
    intro cs d hkeys hne hnn hout hlt hfair
    by_cases h0 : d ≤ 0
    · rw [repairHigh_of_le _ _ _ _ h0]; rfl
    · unfold repairHigh
      simp only [h0, if_false]
      have hk := getD_keys_lt cs keys hkeys hne p
      have hc := getD_nonneg cs hnn (keys.getD (p % keys.length) 0)
      have hkmem : keys.getD (p % keys.length) 0 ∈ keys := by
        have hl : 0 < keys.length := List.length_pos_iff.2 hne
        have : p % keys.length < keys.length := Nat.mod_lt _ hl
        rw [getD_eq_getElem' _ _ this]; exact List.getElem_mem this
      generalize hkdef : keys.getD (p % keys.length) 0 = k at *
      generalize hcdef : cs.getD k 0 = c at *
      by_cases hd' : d - min c d ≤ 0
      · rw [repairHigh_of_le _ _ _ _ hd']; rfl
      · have hmin : min c d = c := by omega
        apply ih
        · simpa using hkeys
        · exact hne
        · exact set_nonneg cs hnn k _ (by omega)
        · intro i hi
          have : k ≠ i := by intro e; subst e; exact hi hkmem
          rw [getD_set_ne _ _ _ _ this]; exact hout i hi
        · rw [sumI_set cs _ _ hk, hcdef]; omega
        · intro k' hk' hpos
          by_cases e : k = k'
          · subst e
            rw [getD_set_self _ _ _ hk, hmin] at hpos; omega
          · rw [getD_set_ne _ _ _ _ e] at hpos
            obtain ⟨q, hq, hq'⟩ := hfair k' hk' hpos
            rcases List.mem_cons.1 hq with rfl | hq
            · exact absurd (hkdef.symm.trans hq') e
            · exact ⟨q, hq, hq'⟩

/-! ### rationals: rounding, perturbation, normalisation -/

theorem floor_le_roundHalfEven (x : ℚ) : x.floor ≤ roundHalfEven x := by
  unfold roundHalfEven
  simp only
  split
  · omega
  · split
    · omega
    · split <;> omega

theorem roundHalfEven_nonneg (x : ℚ) (h : 0 ≤ x) : 0 ≤ roundHalfEven x := by
  have h1 : (0 : ℤ) ≤ x.floor := Rat.le_floor_iff.2 (by simpa using h)
  have := floor_le_roundHalfEven x
  omega

theorem one_le_roundHalfEven (x : ℚ) (h : 1 ≤ x) : 1 ≤ roundHalfEven x := by
  have h1 : (1 : ℤ) ≤ x.floor := Rat.le_floor_iff.2 (by simpa using h)
  have := floor_le_roundHalfEven x
  omega

theorem perturb_nonneg : ∀ (ps ns : List ℚ), ∀ x ∈ perturb ps ns, 0 ≤ x
  | [], _ => by intro x hx; simp [perturb] at hx
  | _ :: _, [] => by intro x hx; simp [perturb] at hx
  | p :: ps, n :: ns => by
    intro x hx
    simp only [perturb, List.mem_cons] at hx
    rcases hx with rfl | hx
    · exact le_max_right _ _
    · exact perturb_nonneg ps ns x hx

theorem sumQ_nonneg (l : List ℚ) (h : ∀ x ∈ l, 0 ≤ x) : 0 ≤ sumQ l := by
  induction l with
  | nil => simp [sumQ]
  | cons x xs ih =>
    have h1 := h x (by simp)
    have h2 := ih (fun y hy => h y (by simp [hy]))
    simp only [sumQ]; linarith

theorem maxQ_mem (l : List ℚ) (h : 0 < maxQ l) : maxQ l ∈ l := by
  induction l with
  | nil => simp [maxQ] at h
  | cons x xs ih =>
    simp only [maxQ] at h ⊢
    rcases le_total x (maxQ xs) with hle | hle
    · rw [max_eq_right hle] at h ⊢
      exact List.mem_cons_of_mem _ (ih h)
    · rw [max_eq_left hle]; simp

theorem sumI_nonneg_mem (cs : List ℤ) (h : ∀ c ∈ cs, 0 ≤ c) : 0 ≤ sumI cs := by
  induction cs with
  | nil => simp [sumI]
  | cons x xs ih =>
    have h1 := h x (by simp)
    have h2 := ih (fun y hy => h y (by simp [hy]))
    simp only [sumI]; omega

/-- an entry ≥ 1 makes the key list non-empty -/
theorem keysOf_ne_nil (cs : List ℤ) (c : ℤ) (hc : c ∈ cs) (h1 : 1 ≤ c) : keysOf cs ≠ [] := by
  obtain ⟨i, hi, rfl⟩ := List.getElem_of_mem hc
  intro hnil
  have : i ∈ keysOf cs := by
    simp only [keysOf, List.mem_filter, List.mem_range]
    refine ⟨hi, ?_⟩
    rw [getD_eq_getElem' _ _ hi]
    simp; omega
  rw [hnil] at this; simp at this

theorem keysOf_compl_zero (cs : List ℤ) : ∀ i, i ∉ keysOf cs → cs.getD i 0 = 0 := by
  intro i hi
  by_cases hlt : i < cs.length
  · by_contra hne
    apply hi
    simp only [keysOf, List.mem_filter, List.mem_range]
    exact ⟨hlt, by simpa using hne⟩
  · exact getD_eq_default' _ _ (by omega)

/-- normalising constants: `Σ probOf tot c = (Σ c) / tot` -/
theorem sumQ_probOf (tot : ℤ) (cs : List ℤ) :
    sumQ ((cs.map (probOf tot)).map getQ) = (sumI cs : ℚ) / (tot : ℚ) := by
  induction cs with
  | nil => simp [sumQ, sumI]
  | cons x xs ih =>
    simp only [List.map_cons, sumQ, sumI, ih]
    by_cases hx : x = 0
    · subst hx; simp [probOf, getQ]
    · simp only [probOf, hx, ↓reduceIte, getQ]
      push_cast; ring

/-! ## removal of heralded modes -/

theorem removeFrom_length_add (modes : List Nat) (st : List Nat) :
    ∀ i, (removeFrom modes i st).length + modesIn modes i st = st.length := by
  induction st with
  | nil => intro i; simp [removeFrom, modesIn]
  | cons x xs ih =>
    intro i
    have := ih (i + 1)
    by_cases h : modes.contains i = true
    · simp only [removeFrom, modesIn, h, ↓reduceIte, List.length_cons]; omega
    · simp only [removeFrom, modesIn, h, Bool.false_eq_true, ↓reduceIte, List.length_cons]; omega

theorem removeFrom_sum_add (modes : List Nat) (st : List Nat) :
    ∀ i, (removeFrom modes i st).sum + photonsIn modes i st = st.sum := by
  induction st with
  | nil => intro i; simp [removeFrom, photonsIn]
  | cons x xs ih =>
    intro i
    have := ih (i + 1)
    by_cases h : modes.contains i = true
    · simp only [removeFrom, photonsIn, h, ↓reduceIte, List.sum_cons]; omega
    · simp only [removeFrom, photonsIn, h, Bool.false_eq_true, ↓reduceIte, List.sum_cons]; omega

theorem photonsIn_nil (st : List Nat) : ∀ i, photonsIn [] i st = 0 := by
  induction st with
  | nil => intro i; rfl
  | cons x xs ih => intro i; simp [photonsIn, ih]

theorem modesIn_nil (st : List Nat) : ∀ i, modesIn [] i st = 0 := by
  induction st with
  | nil => intro i; rfl
  | cons x xs ih => intro i; simp [modesIn, ih]

theorem photonsIn_cons (m : Nat) (ms : List Nat) (hm : m ∉ ms) (st : List Nat) :
    ∀ i, photonsIn (m :: ms) i st =
      (if i ≤ m ∧ m < i + st.length then st.getD (m - i) 0 else 0) + photonsIn ms i st := by
  induction st with
  | nil => intro i; simp [photonsIn]
  | cons x xs ih =>
    intro i
    rw [photonsIn, photonsIn, ih (i + 1)]
    by_cases e : m = i
    · subst e
      simp [hm]
    · have hc : (m :: ms).contains i = ms.contains i := by
        simp [Ne.symm e]
      rw [hc]
      by_cases hlt : i + 1 ≤ m ∧ m < i + 1 + xs.length
      · have h2 : i ≤ m ∧ m < i + (x :: xs).length := by simp; omega
        have e3 : m - i = (m - (i + 1)) + 1 := by omega
        simp only [hlt, h2, and_self, ↓reduceIte]
        rw [e3, List.getD_cons_succ]; omega
      · have h2 : ¬ (i ≤ m ∧ m < i + (x :: xs).length) := by simp at hlt ⊢; omega
        simp only [hlt, h2, ↓reduceIte]; omega

theorem modesIn_cons (m : Nat) (ms : List Nat) (hm : m ∉ ms) (st : List Nat) :
    ∀ i, modesIn (m :: ms) i st =
      (if i ≤ m ∧ m < i + st.length then 1 else 0) + modesIn ms i st := by
  induction st with
  | nil => intro i; simp [modesIn]
  | cons x xs ih =>
    intro i
    rw [modesIn, modesIn, ih (i + 1)]
    by_cases e : m = i
    · subst e
      simp [hm]
    · have hc : (m :: ms).contains i = ms.contains i := by
        simp [Ne.symm e]
      rw [hc]
      by_cases hlt : i + 1 ≤ m ∧ m < i + 1 + xs.length
      · have h2 : i ≤ m ∧ m < i + (x :: xs).length := by simp; omega
        simp only [hlt, h2, and_self, ↓reduceIte]; omega
      · have h2 : ¬ (i ≤ m ∧ m < i + (x :: xs).length) := by simp at hlt ⊢; omega
        simp only [hlt, h2, ↓reduceIte]; omega

/-- distinct, in-range herald modes whose expectations are met hold exactly the expected photons -/
theorem photonsIn_heralds (st : List Nat) : ∀ (hs : List (Nat × Nat)),
    (hs.map (·.1)).Nodup → (∀ h ∈ hs, h.1 < st.length) → heraldsOk hs st = true →
    photonsIn (hs.map (·.1)) 0 st = heraldPhotons hs ∧ modesIn (hs.map (·.1)) 0 st = hs.length := by
  intro hs
  induction hs with
  | nil => intro _ _ _; simp [photonsIn_nil, modesIn_nil, heraldPhotons]
  | cons h hs ih =>
    intro hnd hr hok
    simp only [List.map_cons, List.nodup_cons] at hnd
    have hr' : ∀ h' ∈ hs, h'.1 < st.length := fun h' hh => hr h' (List.mem_cons_of_mem _ hh)
    simp only [heraldsOk, List.all_cons, Bool.and_eq_true, beq_iff_eq] at hok
    obtain ⟨i1, i2⟩ := ih hnd.2 hr' (by simpa [heraldsOk] using hok.2)
    have hlt := hr h (List.mem_cons_self ..)
    rw [List.map_cons, photonsIn_cons _ _ hnd.1, modesIn_cons _ _ hnd.1, i1, i2]
    simp only [Nat.zero_le, Nat.zero_add, hlt, and_self, ↓reduceIte, Nat.sub_zero, hok.1,
      heraldPhotons, List.map_cons, List.sum_cons, List.length_cons]
    exact ⟨trivial, Nat.add_comm _ _⟩

/-! ## memo table -/

theorem findKey_mem {K V : Type} [DecidableEq K] (k : K) (v : V) (t : List (K × V)) :
    findKey k t = some v → (k, v) ∈ t := by
  induction t with
  | nil => simp [findKey]
  | cons a t ih =>
    obtain ⟨k', v'⟩ := a
    unfold findKey
    by_cases h : k' = k
    · simp only [h, ↓reduceIte, Option.some.injEq, List.mem_cons, Prod.mk.injEq]
      intro hv; exact Or.inl ⟨trivial, hv.symm⟩
    · simp only [h, ↓reduceIte, List.mem_cons, Prod.mk.injEq]
      intro hv; exact Or.inr (ih hv)

end PM.C09
