/-
  C05 — helper lemmas: invariants of the four machines of `Model/C05.lean` and their preservation.
-/
import PercevalModel.Model.C05

namespace PM.C05

open SM

/-! ## Stepper -/

/-- the compiled key describes the configuration `_out` was computed for -/
def InvSt (s : St) : Prop :=
  ∀ k, s.compiled = some k → ∃ c, s.circ = some c ∧ s.out = (c, k.1, k.2.1, k.2.2)

theorem invSt_init : InvSt initSt := by
  intro k h; simp [initSt] at h

theorem invSt_step (s : St) (op : StOp) (h : InvSt s) : InvSt (stepSt true s op).1 := by
  cases op with
  | setCircuit c => intro k hk; simp [stepSt] at hk
  | setParams pv => intro k hk; simpa [stepSt] using h k (by simpa [stepSt] using hk)
  | setFilter f => intro k hk; simpa [stepSt] using h k (by simpa [stepSt] using hk)
  | evolve inp =>
    simp only [stepSt]
    cases hc : s.circ with
    | none => simpa using h
    | some c =>
      by_cases hk : s.compiled = some (s.pv, inp, s.filt)
      · simp [hk]; intro k hk'; have := h k (by simpa [hk] using hk'); simpa [hc] using this
      · simp [hk]; intro k hk'; simp at hk'; subst hk'; exact ⟨c, rfl, rfl⟩

def specSt (cfg : StCfg) (inp : Nat) : StOut :=
  match cfg.circ with
  | none => .exc "NoCircuit"
  | some c => .res c cfg.pv inp cfg.filt

theorem querySt_spec (s : St) (inp : Nat) (h : InvSt s) :
    (stepSt true s (.evolve inp)).2 = specSt s.config inp := by
  simp only [stepSt, specSt, St.config]
  cases hc : s.circ with
  | none => rfl
  | some c =>
    by_cases hk : s.compiled = some (s.pv, inp, s.filt)
    · obtain ⟨c', hc', ho⟩ := h _ hk
      rw [hc] at hc'; cases hc'
      simp [hk, ho]
    · simp [hk]

theorem configSt_canon (cfg : StCfg) : (exec (stepSt true) initSt (canonSt cfg)).config = cfg := by
  obtain ⟨c, pv, f⟩ := cfg
  cases c <;> simp [canonSt, exec, run, stepSt, initSt, St.config]

/-! ## Simulator -/

/-- every cached evolved state was computed for the current circuit, under the mask the current mode asks for
(tuple keys) resp. under no mask (bare keys) -/
structure InvSi (s : Si) : Prop where
  ev : ∀ e ∈ s.evolve, ∃ c, s.circ = some c ∧ e.2 = (c, wantM s.canMask s.heralds e.1.2)
  bare : ∀ e ∈ s.bare, ∃ c, s.circ = some c ∧ e.2 = (c, none)

theorem invSi_init : InvSi initSi := ⟨by simp [initSi], by simp [initSi]⟩

theorem mem_lookupK {k : Nat × Nat} {l : List ((Nat × Nat) × SiGhost)} {g : SiGhost}
    (h : lookupK k l = some g) : (k, g) ∈ l := by
  induction l with
  | nil => simp [lookupK] at h
  | cons x r ih =>
    obtain ⟨k', v⟩ := x
    simp only [lookupK] at h
    by_cases hk : k' = k
    · simp [hk] at h; subst h; subst hk; simp
    · simp [hk] at h; exact List.mem_cons_of_mem _ (ih h)

theorem mem_lookupN {α : Type} {k : Nat} {l : List (Nat × α)} {v : α} (h : lookup k l = some v) :
    (k, v) ∈ l := by
  induction l with
  | nil => simp [lookup] at h
  | cons x r ih =>
    obtain ⟨k', v'⟩ := x
    simp only [lookup] at h
    by_cases hk : k' = k
    · simp [hk] at h; subst h; subst hk; simp
    · simp [hk] at h; exact List.mem_cons_of_mem _ (ih h)

theorem wantM_zero (cm : Bool) (h : Nat) : wantM cm h 0 = none := by simp [wantM]

/-- the walk of `_evolve_cache_with_n`, started with no mask on the backend, keeps the invariant, leaves the
configuration alone and returns ghosts of the current configuration only -/
theorem evolveAllF_spec (c : Nat) (fk : List (Bool × SiKey)) :
    ∀ s : Si, s.circ = some c → InvSi s →
      InvSi (evolveAllF s c none fk).1 ∧
      (evolveAllF s c none fk).1.circ = s.circ ∧ (evolveAllF s c none fk).1.heralds = s.heralds ∧
      (evolveAllF s c none fk).1.nHeralds = s.nHeralds ∧ (evolveAllF s c none fk).1.other = s.other ∧
      (evolveAllF s c none fk).1.canMask = s.canMask ∧ (evolveAllF s c none fk).1.bare = s.bare ∧
      (∀ p ∈ (evolveAllF s c none fk).2, p.2 = (c, wantM s.canMask s.heralds p.1.2)) ∧
      (evolveAllF s c none fk).2.map (fun p => p.1.1) = (fk.filter (·.1)).map (fun k => k.2.1) := by
  induction fk with
  | nil => intro s _ h; simp [evolveAllF, h]
  | cons k r ih =>
    intro s hc h
    obtain ⟨fl, st, nExt, nOwn⟩ := k
    simp only [evolveAllF]
    cases hl : lookupK (st, bestN s.canMask s.nHeralds nExt nOwn) s.evolve with
    | some g =>
      obtain ⟨c', hc', hg⟩ := h.ev _ (mem_lookupK hl)
      rw [hc] at hc'; cases hc'
      obtain ⟨i1, i2, i3, i4, i5, i6, i6b, i7, i8⟩ := ih s hc h
      simp at hg
      refine ⟨i1, i2, i3, i4, i5, i6, i6b, ?_, ?_⟩
      · intro p hp
        cases fl with
        | true =>
          simp at hp
          rcases hp with rfl | hp
          · exact hg
          · exact i7 p hp
        | false => simp at hp; exact i7 p hp
      · cases fl <;> simp [i8]
    | none =>
      have hw : (if bestN s.canMask s.nHeralds nExt nOwn = 0 then (none : BMask)
          else wantM s.canMask s.heralds (bestN s.canMask s.nHeralds nExt nOwn)) =
          wantM s.canMask s.heralds (bestN s.canMask s.nHeralds nExt nOwn) := by
        by_cases hz : bestN s.canMask s.nHeralds nExt nOwn = 0
        · simp [hz, wantM_zero]
        · simp [hz]
      have h' : InvSi { s with
          evolve := ((st, bestN s.canMask s.nHeralds nExt nOwn),
            (c, if bestN s.canMask s.nHeralds nExt nOwn = 0 then (none : BMask)
              else wantM s.canMask s.heralds (bestN s.canMask s.nHeralds nExt nOwn))) :: s.evolve,
          bmask := if bestN s.canMask s.nHeralds nExt nOwn = 0 then s.bmask
            else wantM s.canMask s.heralds (bestN s.canMask s.nHeralds nExt nOwn) } := by
        refine ⟨?_, h.bare⟩
        intro e he
        simp at he
        rcases he with rfl | he
        · exact ⟨c, hc, by simp [hw]⟩
        · exact h.ev e he
      obtain ⟨i1, i2, i3, i4, i5, i6, i6b, i7, i8⟩ := ih _ (by simpa using hc) h'
      refine ⟨i1, by simpa using i2, by simpa using i3, by simpa using i4, by simpa using i5,
        by simpa using i6, by simpa using i6b, ?_, ?_⟩
      · intro p hp
        cases fl with
        | true =>
          simp at hp
          rcases hp with rfl | hp
          · simp [hw]
          · simpa using i7 p hp
        | false => simp at hp; simpa using i7 p hp
      · cases fl <;> simp [i8]

theorem evolveAllF_spec' (c : Nat) (fk : List (Bool × SiKey)) (s : Si) (bm0 : BMask) (hb : bm0 = none)
    (hc : s.circ = some c) (h : InvSi s) :
      InvSi (evolveAllF s c bm0 fk).1 ∧
      (evolveAllF s c bm0 fk).1.circ = s.circ ∧ (evolveAllF s c bm0 fk).1.heralds = s.heralds ∧
      (evolveAllF s c bm0 fk).1.nHeralds = s.nHeralds ∧ (evolveAllF s c bm0 fk).1.other = s.other ∧
      (evolveAllF s c bm0 fk).1.canMask = s.canMask ∧ (evolveAllF s c bm0 fk).1.bare = s.bare ∧
      (∀ p ∈ (evolveAllF s c bm0 fk).2, p.2 = (c, wantM s.canMask s.heralds p.1.2)) ∧
      (evolveAllF s c bm0 fk).2.map (fun p => p.1.1) = (fk.filter (·.1)).map (fun k => k.2.1) := by
  subst hb
  exact evolveAllF_spec c fk s hc h

theorem initUseMask_spec (s : Si) (pnr : Bool) (h : InvSi s) :
    InvSi (initUseMask true s pnr) ∧ (initUseMask true s pnr).circ = s.circ ∧
    (initUseMask true s pnr).heralds = s.heralds ∧ (initUseMask true s pnr).nHeralds = s.nHeralds ∧
    (initUseMask true s pnr).other = s.other ∧ (initUseMask true s pnr).bmask = none := by
  by_cases hm : ((s.heralds != 0) && pnr) = s.canMask
  · have e : initUseMask true s pnr = { s with canMask := ((s.heralds != 0) && pnr), bmask := none } := by
      simp [initUseMask, clearB, hm]
    rw [e]
    refine ⟨⟨?_, ?_⟩, rfl, rfl, rfl, rfl, rfl⟩
    · intro e he
      obtain ⟨c', hc', hg⟩ := h.ev e he
      exact ⟨c', hc', by rw [hg]; simp [hm]⟩
    · exact h.bare
  · have e : initUseMask true s pnr =
        { s with canMask := ((s.heralds != 0) && pnr), bmask := none, evolve := [], bare := [] } := by
      simp [initUseMask, clearB, hm]
    rw [e]
    refine ⟨⟨?_, ?_⟩, rfl, rfl, rfl, rfl, rfl⟩
    · intro e he; simp at he
    · intro e he; simp at he

/-- `_evolve_cache` with no mask on the backend -/
theorem bareAll_spec (c : Nat) (sts : List Nat) :
    ∀ s : Si, s.circ = some c → InvSi s → s.bmask = none →
      InvSi (bareAll s c sts).1 ∧
      (bareAll s c sts).1.circ = s.circ ∧ (bareAll s c sts).1.heralds = s.heralds ∧
      (bareAll s c sts).1.nHeralds = s.nHeralds ∧ (bareAll s c sts).1.other = s.other ∧
      (∀ p ∈ (bareAll s c sts).2, p.2 = (c, none)) ∧
      (bareAll s c sts).2.map (fun p => p.1) = sts := by
  induction sts with
  | nil => intro s _ h _; simp [bareAll, h]
  | cons st r ih =>
    intro s hc h hb
    simp only [bareAll]
    cases hl : lookup st s.bare with
    | some g =>
      obtain ⟨c', hc', hg⟩ := h.bare _ (mem_lookupN hl)
      rw [hc] at hc'; cases hc'
      obtain ⟨i1, i2, i3, i4, i5, i7, i8⟩ := ih s hc h hb
      simp at hg
      refine ⟨i1, i2, i3, i4, i5, ?_, ?_⟩
      · intro p hp
        simp at hp
        rcases hp with rfl | hp
        · exact hg
        · exact i7 p hp
      · simp [i8]
    | none =>
      have h' : InvSi { s with bare := (st, (c, s.bmask)) :: s.bare } := by
        refine ⟨h.ev, ?_⟩
        intro e he
        simp at he
        rcases he with rfl | he
        · exact ⟨c, hc, by simp [hb]⟩
        · exact h.bare e he
      obtain ⟨i1, i2, i3, i4, i5, i7, i8⟩ := ih _ (by simpa using hc) h' (by simpa using hb)
      refine ⟨i1, by simpa using i2, by simpa using i3, by simpa using i4, by simpa using i5, ?_, ?_⟩
      · intro p hp
        simp at hp
        rcases hp with rfl | hp
        · simp [hb]
        · exact i7 p hp
      · simp [i8]

theorem clearB_true (s : Si) : clearB true s = { s with bmask := none } := rfl

theorem clearB_inv (s : Si) (h : InvSi s) : InvSi (clearB true s) := by
  rw [clearB_true]
  exact ⟨h.ev, h.bare⟩

theorem invSi_step (s : Si) (op : SiOp) (h : InvSi s) : InvSi (stepSi true s op).1 := by
  cases op with
  | setCircuit c => exact ⟨by simp [stepSi], by simp [stepSi]⟩
  | setHeralds a n => exact ⟨by simp [stepSi], by simp [stepSi]⟩
  | clearHeralds => exact ⟨by simp [stepSi], by simp [stepSi]⟩
  | setOther o => exact ⟨h.ev, h.bare⟩
  | probsSvd pnr generic keys =>
    obtain ⟨i1, i2, _, _, _, ib⟩ := initUseMask_spec s pnr h
    unfold stepSi
    cases hc : s.circ with
    | none => exact h
    | some c =>
      have hc1 : (initUseMask true s pnr).circ = some c := by rw [i2]; exact hc
      cases generic with
      | true => exact (evolveAllF_spec' c (allT keys) (initUseMask true s pnr) _ ib hc1 i1).1
      | false =>
        have i1' : InvSi { initUseMask true s pnr with evolve := [] } := ⟨by simp, i1.bare⟩
        obtain ⟨_, j2, j3, _, _, j6, j7, _, _⟩ :=
          evolveAllF_spec' c (allT keys) { initUseMask true s pnr with evolve := [] } _ ib hc1 i1'
        refine ⟨?_, ?_⟩
        · intro e he
          obtain ⟨c', hc', hg⟩ := i1.ev e he
          refine ⟨c', ?_, ?_⟩
          · show (evolveAllF { initUseMask true s pnr with evolve := [] } c (initUseMask true s pnr).bmask
              (allT keys)).1.circ = some c'
            rw [j2]; exact hc'
          · show e.2 = (c', wantM (evolveAllF { initUseMask true s pnr with evolve := [] } c
                (initUseMask true s pnr).bmask (allT keys)).1.canMask
              (evolveAllF { initUseMask true s pnr with evolve := [] } c (initUseMask true s pnr).bmask
                (allT keys)).1.heralds e.1.2)
            rw [j3, j6]; exact hg
        · intro e he
          have he' : e ∈ (initUseMask true s pnr).bare := by
            have : e ∈ (evolveAllF { initUseMask true s pnr with evolve := [] } c (initUseMask true s pnr).bmask
                (allT keys)).1.bare := he
            rw [j7] at this; exact this
          obtain ⟨c', hc', hg⟩ := i1.bare e he'
          refine ⟨c', ?_, hg⟩
          show (evolveAllF { initUseMask true s pnr with evolve := [] } c (initUseMask true s pnr).bmask
            (allT keys)).1.circ = some c'
          rw [j2]; exact hc'
  | evolve keys =>
    obtain ⟨i1, i2, _, _, _, ib⟩ := initUseMask_spec s true h
    unfold stepSi
    cases hc : s.circ with
    | none => exact h
    | some c =>
      have hc1 : (initUseMask true s true).circ = some c := by rw [i2]; exact hc
      exact (evolveAllF_spec' c (allT keys) (initUseMask true s true) _ ib hc1 i1).1
  | evolveSvd groups =>
    obtain ⟨i1, i2, _, _, _, ib⟩ := initUseMask_spec s true h
    unfold stepSi
    cases hc : s.circ with
    | none => exact h
    | some c =>
      have hc1 : (initUseMask true s true).circ = some c := by rw [i2]; exact hc
      exact (evolveAllF_spec' c (flagged groups) (initUseMask true s true) _ ib hc1 i1).1
  | probs sts =>
    unfold stepSi
    cases hc : s.circ with
    | none => exact h
    | some c => exact (bareAll_spec c sts (clearB true s) (by simpa [clearB] using hc) (clearB_inv s h) (by simp [clearB])).1
  | direct sts =>
    unfold stepSi
    cases hc : s.circ with
    | none => exact h
    | some c => exact clearB_inv s h

theorem siAnswer_current (s : Si) (c : Nat) (sts : List Nat)
    (parts : List ((Nat × Nat) × SiGhost))
    (hp : ∀ p ∈ parts, p.2 = (c, wantM s.canMask s.heralds p.1.2))
    (hk : parts.map (fun p => p.1.1) = sts) :
    siAnswer s parts = .res (sts.map fun st => (st, c)) s.heralds s.other := by
  have hall : parts.all (fun p => p.2.2 == wantM s.canMask s.heralds p.1.2) = true := by
    simp only [List.all_eq_true]
    intro p hpm
    simp [hp p hpm]
  have hmap : parts.map (fun p => (p.1.1, p.2.1)) = sts.map (fun st => (st, c)) := by
    have : parts.map (fun p => (p.1.1, p.2.1)) = (parts.map (fun p => p.1.1)).map (fun a => (a, c)) := by
      simp only [List.map_map]
      apply List.map_congr_left
      intro p hpm
      simp [hp p hpm]
    rw [this, hk]
  simp [siAnswer, hall, hmap]

theorem allT_filter (keys : List SiKey) :
    ((allT keys).filter (·.1)).map (fun k => k.2.1) = keys.map (fun k => k.1) := by
  induction keys with
  | nil => rfl
  | cons k r ih => simpa [allT] using ih

/-- answer of a walk in terms of the configuration -/
theorem evolveAllF_answer (s : Si) (c : Nat) (fk : List (Bool × SiKey)) (bm0 : BMask) (hb : bm0 = none)
    (hc : s.circ = some c) (h : InvSi s) :
    siAnswer (evolveAllF s c bm0 fk).1 (evolveAllF s c bm0 fk).2 =
      .res (((fk.filter (·.1)).map (fun k => k.2.1)).map fun st => (st, c)) s.heralds s.other := by
  obtain ⟨_, _, i3, _, i5, i6, _, i7, i8⟩ := evolveAllF_spec' c fk s bm0 hb hc h
  rw [siAnswer_current _ c _ _ (by rw [i3, i6]; exact i7) i8, i3, i5]

theorem specSi_allT (cfg : SiCfg) (c : Nat) (keys : List SiKey) (hc : cfg.circ = some c) :
    specSi cfg keys =
      .res ((((allT keys).filter (·.1)).map (fun k => k.2.1)).map fun st => (st, c)) cfg.heralds cfg.other := by
  simp [specSi, hc, allT_filter, List.map_map, Function.comp_def]

theorem evolveSi_spec (s : Si) (keys : List SiKey) (h : InvSi s) :
    (stepSi true s (.evolve keys)).2 = specSi s.config keys := by
  obtain ⟨i1, i2, i3, _, i5, ib⟩ := initUseMask_spec s true h
  unfold stepSi
  cases hc : s.circ with
  | none => simp [specSi, Si.config, hc]
  | some c =>
    simp only [if_true]
    rw [specSi_allT s.config c keys (by simpa [Si.config] using hc)]
    have hc1 : (initUseMask true s true).circ = some c := by rw [i2]; exact hc
    have := evolveAllF_answer _ c (allT keys) _ ib hc1 i1
    rw [i3, i5] at this
    exact this

theorem probsSvdSi_spec (s : Si) (pnr generic : Bool) (keys : List SiKey) (h : InvSi s) :
    (stepSi true s (.probsSvd pnr generic keys)).2 = specSi s.config keys := by
  obtain ⟨i1, i2, i3, _, i5, ib⟩ := initUseMask_spec s pnr h
  unfold stepSi
  cases hc : s.circ with
  | none => simp [specSi, Si.config, hc]
  | some c =>
    rw [specSi_allT s.config c keys (by simpa [Si.config] using hc)]
    have hc1 : (initUseMask true s pnr).circ = some c := by rw [i2]; exact hc
    cases generic with
    | true =>
      simp only [if_true]
      have := evolveAllF_answer _ c (allT keys) _ ib hc1 i1
      rw [i3, i5] at this
      exact this
    | false =>
      have i1' : InvSi { initUseMask true s pnr with evolve := [] } := ⟨by simp, i1.bare⟩
      have := evolveAllF_answer { initUseMask true s pnr with evolve := [] } c (allT keys) _ ib hc1 i1'
      have e3 : ({ initUseMask true s pnr with evolve := [] } : Si).heralds = s.heralds := i3
      have e5 : ({ initUseMask true s pnr with evolve := [] } : Si).other = s.other := i5
      rw [e3, e5] at this
      exact this

theorem evolveSvdSi_spec (s : Si) (groups : List (Bool × List SiKey)) (h : InvSi s) :
    (stepSi true s (.evolveSvd groups)).2 = specSi s.config (usedKeys groups) := by
  obtain ⟨i1, i2, i3, _, i5, ib⟩ := initUseMask_spec s true h
  unfold stepSi
  cases hc : s.circ with
  | none => simp [specSi, Si.config, hc]
  | some c =>
    have hc1 : (initUseMask true s true).circ = some c := by rw [i2]; exact hc
    have := evolveAllF_answer _ c (flagged groups) _ ib hc1 i1
    rw [i3, i5] at this
    simp only []
    rw [this]
    simp [specSi, Si.config, hc, usedKeys, List.map_map, Function.comp_def]

theorem probsSi_spec (s : Si) (sts : List Nat) (h : InvSi s) :
    (stepSi true s (.probs sts)).2 = specSiQ s.config (.probs sts) := by
  unfold stepSi specSiQ
  cases hc : s.circ with
  | none => simp [Si.config, hc]
  | some c =>
    obtain ⟨_, _, i3, _, i5, i7, i8⟩ :=
      bareAll_spec c sts (clearB true s) (by simpa [clearB] using hc) (clearB_inv s h) (by simp [clearB])
    have hall : (bareAll (clearB true s) c sts).2.all (fun p => p.2.2 == none) = true := by
      simp only [List.all_eq_true]
      intro p hpm
      simp [i7 p hpm]
    have hmap : (bareAll (clearB true s) c sts).2.map (fun p => (p.1, p.2.1)) = sts.map (fun st => (st, c)) := by
      have : (bareAll (clearB true s) c sts).2.map (fun p => (p.1, p.2.1)) =
          ((bareAll (clearB true s) c sts).2.map (fun p => p.1)).map (fun a => (a, c)) := by
        simp only [List.map_map]
        apply List.map_congr_left
        intro p hpm
        simp [i7 p hpm]
      rw [this, i8]
    simp only [hall, if_true, hmap, i3, i5]
    simp [Si.config, hc, clearB]

theorem directSi_spec (s : Si) (sts : List Nat) (_h : InvSi s) :
    (stepSi true s (.direct sts)).2 = specSiQ s.config (.direct sts) := by
  unfold stepSi specSiQ
  cases hc : s.circ with
  | none => simp [Si.config, hc]
  | some c => simp [Si.config, hc, clearB]

/-- under the invariant every query has the closed form `specSiQ` of the configuration -/
theorem querySi_spec (s : Si) (q : SiOp) (hq : q.isQuery = true) (h : InvSi s) :
    (stepSi true s q).2 = specSiQ s.config q := by
  cases q with
  | probsSvd pnr generic keys => exact probsSvdSi_spec s pnr generic keys h
  | evolve keys => exact evolveSi_spec s keys h
  | evolveSvd groups => exact evolveSvdSi_spec s groups h
  | probs sts => exact probsSi_spec s sts h
  | direct sts => exact directSi_spec s sts h
  | setCircuit c => simp [SiOp.isQuery] at hq
  | setHeralds a n => simp [SiOp.isQuery] at hq
  | clearHeralds => simp [SiOp.isQuery] at hq
  | setOther o => simp [SiOp.isQuery] at hq

/-- `probability` / `prob_amplitude` of a Fock state leave the configuration alone -/
theorem direct_config (s : Si) (sts : List Nat) : (stepSi true s (.direct sts)).1.config = s.config := by
  simp only [stepSi]
  split <;> rfl

/-- `prob_amplitude(StateVector, ·)`: one `prob_amplitude(BasicState, ·)` per term, in sequence — every one of them
has the closed form of the configuration -/
theorem directs_run (s : Si) (h : InvSi s) (terms : List (List Nat)) :
    (run (stepSi true) s (terms.map SiOp.direct)).2 = terms.map (fun sts => specSiQ s.config (.direct sts)) := by
  induction terms generalizing s with
  | nil => rfl
  | cons t ts ih =>
    simp only [List.map_cons, run]
    rw [ih _ (invSi_step s _ h), direct_config, querySi_spec s (.direct t) rfl h]

theorem configSi_canon (cfg : SiCfg) : (exec (stepSi true) initSi (canonSi cfg)).config = cfg := by
  obtain ⟨c, a, n, o⟩ := cfg
  cases c <;> simp [canonSi, exec, run, stepSi, initSi, Si.config]

/-! ## Processor -/

structure InvPr (persist : Bool) (s : Pr) : Prop where
  /-- the source was built from the noise values of the last assignment -/
  src : s.source = s.noise
  /-- the kept simulator was built for the current heralds and post-selection, and has the default precision
  unless the last call gave one -/
  sim : ∀ g, s.sim = some g → g.her = s.her ∧ g.ps = s.ps ∧ (s.precSet = false → g.prec = none)
  /-- the cached input distribution was generated by the current source from the current input -/
  imap : ∀ x, s.inputsMap = some x → ∃ i, s.input = some i ∧ x = genMap s.noise i
  /-- unless the automatic rule wrote it, the stored filter is the one the user asked for -/
  filt : s.auto = false → s.filt = s.filtUser
  noauto : persist = false → s.auto = false

theorem invPr_init (persist : Bool) : InvPr persist initPr :=
  ⟨rfl, by simp [initPr], by simp [initPr], by simp [initPr], by simp [initPr]⟩

theorem simFor_eq (s : Pr) (prec : Option Nat)
    (h2 : ∀ g, s.sim = some g → g.her = s.her ∧ g.ps = s.ps ∧ (s.precSet = false → g.prec = none)) :
    simFor s prec = ⟨s.her, s.ps, prec⟩ := by
  unfold simFor
  cases prec with
  | some p =>
    simp only [reduceCtorEq, false_and, if_false, SimG.withPrec]
    cases hs : s.sim with
    | none => rfl
    | some g => obtain ⟨a1, a2, _⟩ := h2 _ hs; simp [a1, a2]
  | none =>
    simp only [true_and, SimG.withPrec]
    cases hps : s.precSet with
    | true => rfl
    | false =>
      simp only [Bool.false_eq_true, if_false]
      cases hs : s.sim with
      | none => rfl
      | some g =>
        obtain ⟨a1, a2, a3⟩ := h2 _ hs
        obtain ⟨x, y, z⟩ := g
        simp at a1 a2
        have := a3 hps
        simp at this
        simp [a1, a2, this]

theorem invPr_step (persist : Bool) (s : Pr) (op : PrOp) (h : InvPr persist s) :
    InvPr persist (stepPr persist s op).1 := by
  obtain ⟨h1, h2, h3, h4, h5⟩ := h
  cases op with
  | setComps c => exact ⟨h1, h2, h3, h4, h5⟩
  | addComp c => exact ⟨h1, by simp [stepPr], h3, h4, h5⟩
  | addDet d => exact ⟨h1, by simp [stepPr], h3, h4, h5⟩
  | addHerald a n => exact ⟨h1, by simp [stepPr], h3, h4, h5⟩
  | setPs p => exact ⟨h1, by simp [stepPr], h3, h4, h5⟩
  | clearPs =>
    simp only [stepPr]
    by_cases hp : s.ps = 0
    · simp only [hp, if_true]; exact ⟨h1, h2, h3, h4, h5⟩
    · simp only [hp, if_false]; exact ⟨h1, by simp, h3, h4, h5⟩
  | setNoise v =>
    refine ⟨rfl, h2, ?_, h4, h5⟩
    intro x hx
    simp only [stepPr] at hx ⊢
    cases hi : s.input with
    | none => simp [hi] at hx
    | some i =>
      simp only [hi] at hx
      by_cases hk : i.kind = .svd
      · simp only [hk, if_true] at hx
        obtain ⟨i', hi', hy⟩ := h3 x hx
        rw [hi] at hi'; cases hi'
        refine ⟨i, rfl, ?_⟩
        rw [hy]; simp [genMap, hk]
      · simp [hk] at hx
  | mutateNoise v => exact ⟨h1, h2, h3, h4, h5⟩
  | withInput k i n => exact ⟨h1, h2, by simp [stepPr, h1], h4, h5⟩
  | setFilter k => exact ⟨h1, h2, h3, by simp [stepPr], by simp [stepPr]⟩
  | probs prec =>
    simp only [stepPr]
    cases hi : s.input with
    | none => exact ⟨h1, h2, h3, h4, h5⟩
    | some i =>
      simp only []
      cases hf : effFilter s i with
      | none => exact ⟨h1, h2, h3, h4, h5⟩
      | some f =>
        simp only []
        refine ⟨h1, ?_, ?_, ?_, ?_⟩
        · intro g hg
          simp only [Option.some.injEq] at hg
          subst hg
          rw [simFor_eq s prec h2]
          refine ⟨rfl, rfl, ?_⟩
          intro hp
          cases prec with
          | none => rfl
          | some p => simp at hp
        · intro x hx
          simp only [Option.some.injEq] at hx
          subst hx
          cases hm : s.inputsMap with
          | none => exact ⟨i, rfl, by simp [h1]⟩
          | some y =>
            obtain ⟨i', hi', hy⟩ := h3 _ hm
            rw [hi] at hi'; cases hi'
            exact ⟨i, rfl, by simpa using hy⟩
        · intro ha
          cases persist with
          | false => simpa using h4 (by simpa using ha)
          | true =>
            simp only [if_true, Bool.or_eq_false_iff] at ha
            obtain ⟨ha1, ha2⟩ := ha
            have hfu := h4 ha1
            cases hsf : s.filt with
            | none => simp [hsf] at ha2
            | some f0 =>
              simp only [effFilter, autoFilter, hsf, Option.some.injEq] at hf
              subst hf
              simp only [if_true]
              rw [← hfu, hsf]
        · intro hp
          subst hp
          simpa using h5 rfl

  | samples =>
    simp only [stepPr]
    cases hi : s.input with
    | none => exact ⟨h1, h2, h3, h4, h5⟩
    | some i =>
      simp only []
      cases hf : effFilter s i with
      | none => exact ⟨h1, h2, h3, h4, h5⟩
      | some f =>
        simp only []
        refine ⟨h1, h2, ?_, ?_, ?_⟩
        · intro x hx
          by_cases hk : i.kind = .svd
          · simp only [hk, if_true, Option.some.injEq] at hx
            subst hx
            cases hm : s.inputsMap with
            | none => exact ⟨i, rfl, by simp [h1]⟩
            | some y =>
              obtain ⟨i', hi', hy⟩ := h3 _ hm
              rw [hi] at hi'; cases hi'
              exact ⟨i, rfl, by simpa using hy⟩
          · simp only [hk, if_false] at hx
            obtain ⟨i', hi', hy⟩ := h3 _ hx
            rw [hi] at hi'; cases hi'
            exact ⟨i, rfl, hy⟩
        · intro ha
          cases persist with
          | false => simpa using h4 (by simpa using ha)
          | true =>
            simp only [if_true, Bool.or_eq_false_iff] at ha
            obtain ⟨ha1, ha2⟩ := ha
            have hfu := h4 ha1
            cases hsf : s.filt with
            | none => simp [hsf] at ha2
            | some f0 =>
              simp only [effFilter, autoFilter, hsf, Option.some.injEq] at hf
              subst hf
              simp only [if_true]
              rw [← hfu, hsf]
        · intro hp
          subst hp
          simpa using h5 rfl

/-- under the invariant, with an input given after the last herald and a filter that was not written by the
automatic rule, `probs(precision)` has the closed form `specPr` of the configuration -/
theorem probsPr_spec (persist : Bool) (s : Pr) (prec : Option Nat) (h : InvPr persist s)
    (hc : s.inputCurrent) (ha : s.auto = false) :
    (stepPr persist s (.probs prec)).2 = specPr s.config prec := by
  obtain ⟨h1, h2, h3, h4, _⟩ := h
  have hfu := h4 ha
  simp only [stepPr, specPr, Pr.config]
  cases hi : s.input with
  | none => rfl
  | some i =>
    obtain ⟨hc1, hc2⟩ := hc i hi
    have hef : effFilter s i = autoFilter s.filtUser s.noise.2 i.kind i.n := by
      simp only [effFilter, hfu, h1]
      by_cases hk : i.kind = InKind.bs
      · simp [hk, hc2]
      · cases s.filtUser <;> simp [autoFilter, hk]
    simp only [Option.map_some, hef]
    cases hq : autoFilter s.filtUser s.noise.2 i.kind i.n with
    | none => rfl
    | some f =>
      simp only []
      have e2 : s.inputsMap.getD (genMap s.source i) = genMap s.noise i := by
        cases hm : s.inputsMap with
        | none => simp [h1]
        | some y =>
          obtain ⟨i', hi', hy⟩ := h3 _ hm
          rw [hi] at hi'; cases hi'; simpa using hy
      rw [e2, simFor_eq s prec h2]
      simp only [genMap, hc1]

/-- the stored-filter form, WITHOUT the hypothesis `auto = false`: under the invariant, with an input given
after the last herald, `probs(precision)` has the closed form `specPr` of the configuration in which the photon
filter is the stored one (`Pr.configStored`) -/
theorem probsPr_spec_stored (persist : Bool) (s : Pr) (prec : Option Nat) (h : InvPr persist s)
    (hc : s.inputCurrent) :
    (stepPr persist s (.probs prec)).2 = specPr s.configStored prec := by
  obtain ⟨h1, h2, h3, _, _⟩ := h
  simp only [stepPr, specPr, Pr.configStored, Pr.config]
  cases hi : s.input with
  | none => rfl
  | some i =>
    obtain ⟨hc1, hc2⟩ := hc i hi
    have hef : effFilter s i = autoFilter s.filt s.noise.2 i.kind i.n := by
      simp only [effFilter, h1]
      by_cases hk : i.kind = InKind.bs
      · simp [hk, hc2]
      · cases s.filt <;> simp [autoFilter, hk]
    simp only [Option.map_some, hef]
    cases hq : autoFilter s.filt s.noise.2 i.kind i.n with
    | none => rfl
    | some f =>
      simp only []
      have e2 : s.inputsMap.getD (genMap s.source i) = genMap s.noise i := by
        cases hm : s.inputsMap with
        | none => simp [h1]
        | some y =>
          obtain ⟨i', hi', hy⟩ := h3 _ hm
          rw [hi] at hi'; cases hi'; simpa using hy
      rw [e2, simFor_eq s prec h2]
      simp only [genMap, hc1]

/-- `samples`: the same closed form (every argument handed to the sampling simulator is read from the current
configuration and the stored filter) -/
theorem samplesPr_spec_stored (persist : Bool) (s : Pr) (h : InvPr persist s) (hc : s.inputCurrent) :
    (stepPr persist s .samples).2 = specPrQ s.configStored .samples := by
  obtain ⟨h1, _, h3, _, _⟩ := h
  simp only [stepPr, specPrQ, specPr, Pr.configStored, Pr.config]
  cases hi : s.input with
  | none => rfl
  | some i =>
    obtain ⟨hc1, hc2⟩ := hc i hi
    have hef : effFilter s i = autoFilter s.filt s.noise.2 i.kind i.n := by
      simp only [effFilter, h1]
      by_cases hk : i.kind = InKind.bs
      · simp [hk, hc2]
      · cases s.filt <;> simp [autoFilter, hk]
    simp only [Option.map_some, hef]
    cases hq : autoFilter s.filt s.noise.2 i.kind i.n with
    | none => rfl
    | some f =>
      simp only []
      have e2 : (if i.kind = InKind.svd then s.inputsMap.getD (genMap s.source i) else genMap s.source i) =
          genMap s.noise i := by
        by_cases hk : i.kind = InKind.svd
        · simp only [hk, if_true]
          cases hm : s.inputsMap with
          | none => simp [h1]
          | some y =>
            obtain ⟨i', hi', hy⟩ := h3 _ hm
            rw [hi] at hi'; cases hi'; simpa using hy
        · simp [hk, h1]
      rw [e2]
      simp only [genMap, hc1]

theorem queryPr_spec_stored (persist : Bool) (s : Pr) (q : PrOp) (hq : q.isQuery = true) (h : InvPr persist s)
    (hc : s.inputCurrent) :
    (stepPr persist s q).2 = specPrQ s.configStored q := by
  cases q with
  | probs prec => exact probsPr_spec_stored persist s prec h hc
  | samples => exact samplesPr_spec_stored persist s h hc
  | _ => simp [PrOp.isQuery] at hq

/-- when the stored filter was not written by the automatic rule it is the user's: the two configurations agree -/
theorem configStored_eq (persist : Bool) (s : Pr) (h : InvPr persist s) (ha : s.auto = false) :
    s.configStored = s.config := by
  simp [Pr.configStored, Pr.config, h.filt ha]

/-- one step that is not `min_detected_photons_filter(k)` never changes a stored filter -/
theorem stored_filter_step (s : Pr) (op : PrOp) (f : Nat) (hf : s.filt = some f) (hop : op.setsFilter = false) :
    (stepPr true s op).1.filt = some f := by
  cases op with
  | setFilter k => simp [PrOp.setsFilter] at hop
  | clearPs => simp only [stepPr]; split <;> simp [hf]
  | probs prec =>
    simp only [stepPr]
    cases hi : s.input with
    | none => simpa using hf
    | some i => simp [effFilter, autoFilter, hf]
  | samples =>
    simp only [stepPr]
    cases hi : s.input with
    | none => simpa using hf
    | some i => simp [effFilter, autoFilter, hf]
  | _ => simpa [stepPr] using hf

/-- two states that differ at most in what the held NoiseModel object shows, unless the noise is assigned -/
def sameButHeld (a b : Pr) : Prop := ∃ v, { a with held := v } = b

theorem sameButHeld_step (persist : Bool) (a b : Pr) (op : PrOp) (h : sameButHeld a b) :
    sameButHeld (stepPr persist a op).1 (stepPr persist b op).1 ∧
      (stepPr persist a op).2 = (stepPr persist b op).2 := by
  obtain ⟨v, rfl⟩ := h
  obtain ⟨c, hr, nh, ps, d, hl, nz, src, inp, fu, fl, au, im, sm, pset⟩ := a
  cases op with
  | probs prec =>
    cases inp with
    | none => exact ⟨⟨v, rfl⟩, rfl⟩
    | some i =>
      simp only [stepPr, effFilter, sameButHeld]
      cases autoFilter fl src.2 i.kind (i.n + i.nHer - nh) <;> exact ⟨⟨v, rfl⟩, rfl⟩
  | samples =>
    cases inp with
    | none => exact ⟨⟨v, rfl⟩, rfl⟩
    | some i =>
      simp only [stepPr, effFilter, sameButHeld]
      cases autoFilter fl src.2 i.kind (i.n + i.nHer - nh) <;> exact ⟨⟨v, rfl⟩, rfl⟩
  | clearPs =>
    simp only [stepPr, sameButHeld]
    by_cases hp : ps = 0
    · simp only [hp, if_true]; exact ⟨⟨v, rfl⟩, trivial⟩
    · simp only [hp, if_false]; exact ⟨⟨v, rfl⟩, trivial⟩
  | setNoise w => exact ⟨⟨w, rfl⟩, rfl⟩
  | mutateNoise w => exact ⟨⟨w, rfl⟩, rfl⟩
  | _ => exact ⟨⟨v, rfl⟩, rfl⟩

/-- the canonical sequence reproduces every configuration, with a current input and no automatic filter -/
theorem canonPr_state (persist : Bool) (cfg : PrCfg) :
    (exec (stepPr persist) initPr (canonPr cfg)).config = cfg ∧
    (exec (stepPr persist) initPr (canonPr cfg)).inputCurrent ∧
    (exec (stepPr persist) initPr (canonPr cfg)).auto = false := by
  obtain ⟨c, hd, nh, ps, d, nz, i, f⟩ := cfg
  by_cases hp : ps = 0 <;> cases i with
  | none =>
    cases f <;>
      simp [canonPr, exec, run, stepPr, initPr, Pr.config, Pr.inputCurrent, hp]
  | some x =>
    obtain ⟨k, ii, n⟩ := x
    cases f <;> cases k <;>
      simp [canonPr, exec, run, stepPr, initPr, Pr.config, Pr.inputCurrent, hp]

/-! ## Backends -/

theorem mem_lookup {α : Type} {k : Nat} {l : List (Nat × α)} {v : α} (h : lookup k l = some v) :
    (k, v) ∈ l := by
  induction l with
  | nil => simp [lookup] at h
  | cons x r ih =>
    obtain ⟨k', v'⟩ := x
    simp only [lookup] at h
    by_cases hk : k' = k
    · simp [hk] at h; subst h; subst hk; simp
    · simp [hk] at h; exact List.mem_cons_of_mem _ (ih h)

theorem mem_lookupL {α : Type} {k : List Nat} {l : List (List Nat × α)} {v : α}
    (h : lookupL k l = some v) : (k, v) ∈ l := by
  induction l with
  | nil => simp [lookupL] at h
  | cons x r ih =>
    obtain ⟨k', v'⟩ := x
    simp only [lookupL] at h
    by_cases hk : k' = k
    · simp [hk] at h; subst h; subst hk; simp
    · simp [hk] at h; exact List.mem_cons_of_mem _ (ih h)

theorem lookup_cons_isSome {α : Type} (k k' : Nat) (v : α) (l : List (Nat × α))
    (h : (lookup k l).isSome = true) : (lookup k ((k', v) :: l)).isSome = true := by
  simp only [lookup]
  by_cases hk : k' = k <;> simp [hk, h]

theorem lookup_self_isSome {α : Type} (k : Nat) (v : α) (l : List (Nat × α)) :
    (lookup k ((k, v) :: l)).isSome = true := by
  simp [lookup]

/- the invariant of the backend machine and everything about it: `Lemmas/C05Backend.lean` -/

end PM.C05
