/-
  C05 — helper lemmas: invariants of the four machines of `Model/C05.lean` and their preservation.
-/
import PercevalModel.Model.C05

namespace PM.C05

open SM

/-! ## Stepper -/

/-- the compiled key describes the configuration `_out` was computed for -/
def InvSt (s : St) : Prop :=
  ∀ k, s.compiled = some k → ∃ c, s.circ = some c ∧ s.out = (c, k.1, k.2.1, k.2.2)

theorem invSt_init : InvSt initSt := by
  intro k h; simp [initSt] at h

theorem invSt_step (s : St) (op : StOp) (h : InvSt s) : InvSt (stepSt true s op).1 := by
  cases op with
  | setCircuit c => intro k hk; simp [stepSt] at hk
  | setParams pv => intro k hk; simpa [stepSt] using h k (by simpa [stepSt] using hk)
  | setFilter f => intro k hk; simpa [stepSt] using h k (by simpa [stepSt] using hk)
  | evolve inp =>
    simp only [stepSt]
    cases hc : s.circ with
    | none => simpa using h
    | some c =>
      by_cases hk : s.compiled = some (s.pv, inp, s.filt)
      · simp [hk]; intro k hk'; have := h k (by simpa [hk] using hk'); simpa [hc] using this
      · simp [hk]; intro k hk'; simp at hk'; subst hk'; exact ⟨c, rfl, rfl⟩

def specSt (cfg : StCfg) (inp : Nat) : StOut :=
  match cfg.circ with
  | none => .exc "NoCircuit"
  | some c => .res c cfg.pv inp cfg.filt

theorem querySt_spec (s : St) (inp : Nat) (h : InvSt s) :
    (stepSt true s (.evolve inp)).2 = specSt s.config inp := by
  simp only [stepSt, specSt, St.config]
  cases hc : s.circ with
  | none => rfl
  | some c =>
    by_cases hk : s.compiled = some (s.pv, inp, s.filt)
    · obtain ⟨c', hc', ho⟩ := h _ hk
      rw [hc] at hc'; cases hc'
      simp [hk, ho]
    · simp [hk]

theorem configSt_canon (cfg : StCfg) : (exec (stepSt true) initSt (canonSt cfg)).config = cfg := by
  obtain ⟨c, pv, f⟩ := cfg
  cases c <;> simp [canonSt, exec, run, stepSt, initSt, St.config]

/-! ## Simulator -/

/-- every cached evolved state was computed for the current circuit and heralds, in the current mask mode -/
def InvSi (s : Si) : Prop :=
  ∀ e ∈ s.evolve, ∃ c, s.circ = some c ∧ e.2 = (c, s.heralds, s.canMask)

theorem invSi_init : InvSi initSi := by
  intro e h; simp [initSi] at h

theorem mem_lookupK {k : Nat × Nat} {l : List ((Nat × Nat) × SiGhost)} {g : SiGhost}
    (h : lookupK k l = some g) : (k, g) ∈ l := by
  induction l with
  | nil => simp [lookupK] at h
  | cons x r ih =>
    obtain ⟨k', v⟩ := x
    simp only [lookupK] at h
    by_cases hk : k' = k
    · simp [hk] at h; subst h; subst hk; simp
    · simp [hk] at h; exact List.mem_cons_of_mem _ (ih h)

/-- `evolveAll` keeps the invariant, leaves the configuration alone and returns current ghosts only -/
theorem evolveAll_spec (c : Nat) (keys : List SiKey) :
    ∀ s : Si, s.circ = some c → InvSi s →
      InvSi (evolveAll s c keys).1 ∧
      (evolveAll s c keys).1.circ = s.circ ∧ (evolveAll s c keys).1.heralds = s.heralds ∧
      (evolveAll s c keys).1.nHeralds = s.nHeralds ∧ (evolveAll s c keys).1.other = s.other ∧
      (evolveAll s c keys).1.canMask = s.canMask ∧
      (∀ p ∈ (evolveAll s c keys).2, p.2 = (c, s.heralds, s.canMask)) ∧
      (evolveAll s c keys).2.map (fun p => p.1.1) = keys.map (fun k => k.1) := by
  induction keys with
  | nil => intro s _ h; simp [evolveAll, h]
  | cons k r ih =>
    intro s hc h
    obtain ⟨st, nExt, nOwn⟩ := k
    simp only [evolveAll]
    cases hl : lookupK (st, bestN s.canMask s.nHeralds nExt nOwn) s.evolve with
    | some g =>
      obtain ⟨c', hc', hg⟩ := h _ (mem_lookupK hl)
      rw [hc] at hc'; cases hc'
      obtain ⟨i1, i2, i3, i4, i5, i6, i7, i8⟩ := ih s hc h
      simp at hg
      refine ⟨i1, i2, i3, i4, i5, i6, ?_, ?_⟩
      · intro p hp
        simp at hp
        rcases hp with rfl | hp
        · exact hg
        · exact i7 p hp
      · simp [i8]
    | none =>
      have h' : InvSi { s with evolve := ((st, bestN s.canMask s.nHeralds nExt nOwn), (c, s.heralds, s.canMask)) :: s.evolve } := by
        intro e he
        simp at he
        rcases he with rfl | he
        · exact ⟨c, hc, rfl⟩
        · exact h e he
      obtain ⟨i1, i2, i3, i4, i5, i6, i7, i8⟩ := ih _ (by simpa using hc) h'
      refine ⟨i1, by simpa using i2, by simpa using i3, by simpa using i4, by simpa using i5,
        by simpa using i6, ?_, ?_⟩
      · intro p hp
        simp at hp
        rcases hp with rfl | hp
        · rfl
        · simpa using i7 p hp
      · simp [i8]

theorem initUseMask_spec (s : Si) (pnr : Bool) (h : InvSi s) :
    InvSi (initUseMask true s pnr) ∧ (initUseMask true s pnr).circ = s.circ ∧
    (initUseMask true s pnr).heralds = s.heralds ∧ (initUseMask true s pnr).nHeralds = s.nHeralds ∧
    (initUseMask true s pnr).other = s.other := by
  unfold initUseMask
  by_cases hm : ((s.heralds != 0) && pnr) = s.canMask
  · have : ¬ (true = true ∧ ((s.heralds != 0) && pnr) ≠ s.canMask) := by simp [hm]
    rw [if_neg this]
    refine ⟨?_, rfl, rfl, rfl, rfl⟩
    intro e he
    obtain ⟨c', hc', hg⟩ := h e he
    exact ⟨c', hc', by rw [hg]; simp [hm]⟩
  · have : (true = true ∧ ((s.heralds != 0) && pnr) ≠ s.canMask) := ⟨rfl, hm⟩
    rw [if_pos this]
    refine ⟨?_, rfl, rfl, rfl, rfl⟩
    intro e he
    simp at he

theorem invSi_step (s : Si) (op : SiOp) (h : InvSi s) : InvSi (stepSi true s op).1 := by
  cases op with
  | setCircuit c => intro e he; simp [stepSi] at he
  | setHeralds a n => intro e he; simp [stepSi] at he
  | clearHeralds => intro e he; simp [stepSi] at he
  | setOther o => exact h
  | probsSvd pnr generic keys =>
    obtain ⟨i1, i2, _, _, _⟩ := initUseMask_spec s pnr h
    unfold stepSi
    cases hc : s.circ with
    | none => exact h
    | some c =>
      cases generic with
      | true => exact (evolveAll_spec c keys _ (by rw [i2]; exact hc) i1).1
      | false => exact i1
  | evolve keys =>
    obtain ⟨i1, i2, _, _, _⟩ := initUseMask_spec s true h
    unfold stepSi
    cases hc : s.circ with
    | none => exact h
    | some c => exact (evolveAll_spec c keys _ (by rw [i2]; exact hc) i1).1

theorem siAnswer_current (s : Si) (c : Nat) (keys : List SiKey)
    (parts : List ((Nat × Nat) × SiGhost))
    (hp : ∀ p ∈ parts, p.2 = (c, s.heralds, s.canMask))
    (hk : parts.map (fun p => p.1.1) = keys.map (fun k => k.1)) :
    siAnswer s parts = .res (keys.map fun k => (k.1, c, s.heralds)) s.heralds s.other := by
  have hall : parts.all (fun p => p.2.2.2 == s.canMask) = true := by
    simp only [List.all_eq_true]
    intro p hpm
    simp [hp p hpm]
  have hmap : parts.map (fun p => (p.1.1, p.2.1, p.2.2.1)) = keys.map (fun k => (k.1, c, s.heralds)) := by
    have : parts.map (fun p => (p.1.1, p.2.1, p.2.2.1)) = (parts.map (fun p => p.1.1)).map (fun a => (a, c, s.heralds)) := by
      simp only [List.map_map]
      apply List.map_congr_left
      intro p hpm
      simp [hp p hpm]
    rw [this, hk]; simp
  simp [siAnswer, hall, hmap]

/-- answer of the generic path in terms of the configuration -/
theorem evolveAll_answer (s : Si) (c : Nat) (keys : List SiKey) (hc : s.circ = some c) (h : InvSi s) :
    siAnswer (evolveAll s c keys).1 (evolveAll s c keys).2 =
      .res (keys.map fun k => (k.1, c, s.heralds)) s.heralds s.other := by
  obtain ⟨_, _, i3, _, i5, i6, i7, i8⟩ := evolveAll_spec c keys s hc h
  rw [siAnswer_current _ c keys _ (by rw [i3, i6]; exact i7) i8, i3, i5]

theorem evolveSi_spec (s : Si) (keys : List SiKey) (h : InvSi s) :
    (stepSi true s (.evolve keys)).2 = specSi s.config keys := by
  obtain ⟨i1, i2, i3, _, i5⟩ := initUseMask_spec s true h
  unfold stepSi specSi Si.config
  cases hc : s.circ with
  | none => rfl
  | some c =>
    have := evolveAll_answer _ c keys (by rw [i2]; exact hc) i1
    rw [i3, i5] at this
    exact this

theorem probsSvdSi_spec (s : Si) (pnr generic : Bool) (keys : List SiKey) (h : InvSi s) :
    (stepSi true s (.probsSvd pnr generic keys)).2 = specSi s.config keys := by
  obtain ⟨i1, i2, i3, _, i5⟩ := initUseMask_spec s pnr h
  unfold stepSi specSi Si.config
  cases hc : s.circ with
  | none => rfl
  | some c =>
    cases generic with
    | true =>
      have := evolveAll_answer _ c keys (by rw [i2]; exact hc) i1
      rw [i3, i5] at this
      exact this
    | false => simp only [i3, i5]; rfl

theorem configSi_canon (cfg : SiCfg) : (exec (stepSi true) initSi (canonSi cfg)).config = cfg := by
  obtain ⟨c, a, n, o⟩ := cfg
  cases c <;> simp [canonSi, exec, run, stepSi, initSi, Si.config]

/-! ## Processor -/

structure InvPr (s : Pr) : Prop where
  src : s.source = s.noise
  sim : ∀ g, s.sim = some g → g = s.sel
  imap : ∀ x, s.inputsMap = some x → ∃ i, s.input = some i ∧ x = (s.noise, i)

theorem invPr_init : InvPr initPr := ⟨rfl, by simp [initPr], by simp [initPr]⟩

theorem invPr_step (s : Pr) (op : PrOp) (h : InvPr s) : InvPr (stepPr s op).1 := by
  obtain ⟨h1, h2, h3⟩ := h
  cases op with
  | setComps c => exact ⟨h1, h2, h3⟩
  | addComp c sel => exact ⟨h1, by simp [stepPr], h3⟩
  | setNoise n => exact ⟨rfl, h2, by simp [stepPr]⟩
  | withInput i => exact ⟨h1, h2, by simp [stepPr, h1]⟩
  | setFilter k => exact ⟨h1, h2, h3⟩
  | probs =>
    simp only [stepPr]
    cases hi : s.input with
    | none => exact ⟨h1, h2, h3⟩
    | some i =>
      cases hf : s.filt with
      | none => exact ⟨h1, h2, h3⟩
      | some f =>
        refine ⟨h1, ?_, ?_⟩
        · intro g hg
          cases hs : s.sim with
          | none => simp [hs] at hg; exact hg.symm
          | some g' => simp [hs] at hg; subst hg; exact h2 _ hs
        · intro x hx
          cases hm : s.inputsMap with
          | none => simp [hm] at hx; exact ⟨i, rfl, by rw [← hx, h1]⟩
          | some y =>
            simp [hm] at hx; subst hx
            obtain ⟨i', hi', hy⟩ := h3 _ hm
            rw [hi] at hi'
            exact ⟨i', hi', hy⟩

def specPr (cfg : PrCfg) : PrOut :=
  match cfg.input, cfg.filt with
  | some i, some f => .res cfg.comps cfg.sel cfg.noise i f
  | _, _ => .exc "NotConfigured"

theorem probsPr_spec (s : Pr) (h : InvPr s) : (stepPr s .probs).2 = specPr s.config := by
  obtain ⟨h1, h2, h3⟩ := h
  simp only [stepPr, specPr, Pr.config]
  cases hi : s.input with
  | none => rfl
  | some i =>
    cases hf : s.filt with
    | none => rfl
    | some f =>
      have e1 : s.sim.getD s.sel = s.sel := by
        cases hs : s.sim with
        | none => rfl
        | some g => simpa using h2 _ hs
      have e2 : s.inputsMap.getD (s.source, i) = (s.noise, i) := by
        cases hm : s.inputsMap with
        | none => simp [h1]
        | some y =>
          obtain ⟨i', hi', hy⟩ := h3 _ hm
          rw [hi] at hi'; cases hi'; simpa using hy
      simp only []
      rw [e1, e2]

theorem configPr_canon (cfg : PrCfg) : (exec stepPr initPr (canonPr cfg)).config = cfg := by
  obtain ⟨c, sel, n, i, f⟩ := cfg
  cases i <;> cases f <;> simp [canonPr, exec, run, stepPr, initPr, Pr.config]

/-! ## Backends -/

theorem mem_lookup {α : Type} {k : Nat} {l : List (Nat × α)} {v : α} (h : lookup k l = some v) :
    (k, v) ∈ l := by
  induction l with
  | nil => simp [lookup] at h
  | cons x r ih =>
    obtain ⟨k', v'⟩ := x
    simp only [lookup] at h
    by_cases hk : k' = k
    · simp [hk] at h; subst h; subst hk; simp
    · simp [hk] at h; exact List.mem_cons_of_mem _ (ih h)

theorem mem_lookupL {α : Type} {k : List Nat} {l : List (List Nat × α)} {v : α}
    (h : lookupL k l = some v) : (k, v) ∈ l := by
  induction l with
  | nil => simp [lookupL] at h
  | cons x r ih =>
    obtain ⟨k', v'⟩ := x
    simp only [lookupL] at h
    by_cases hk : k' = k
    · simp [hk] at h; subst h; subst hk; simp
    · simp [hk] at h; exact List.mem_cons_of_mem _ (ih h)

theorem lookup_cons_isSome {α : Type} (k k' : Nat) (v : α) (l : List (Nat × α))
    (h : (lookup k l).isSome = true) : (lookup k ((k', v) :: l)).isSome = true := by
  simp only [lookup]
  by_cases hk : k' = k <;> simp [hk, h]

theorem lookup_self_isSome {α : Type} (k : Nat) (v : α) (l : List (Nat × α)) :
    (lookup k ((k, v) :: l)).isSome = true := by
  simp [lookup]

/- the invariant of the backend machine and everything about it: `Lemmas/C05Backend.lean` -/

end PM.C05
