/-
  C17, wave 9 — lemmas about the status read on the SHAPE of the answer (`Model/C17W.lean`).
-/
import PercevalModel.Model.C17W
import PercevalModel.Found.SM

namespace PM.C17
open PM.SM

theorem readStatusF_not_due (fixed : Bool) (f : FJob) (now : Int) (r : RespF)
    (hd : statusDue f.job = false) : readStatusF fixed f now r = (f, none, []) := by
  unfold readStatusF
  simp [hd]

theorem readStatusW_not_due (fixed : Bool) (f : FJob) (now : Int) (r : RespW)
    (hd : statusDue f.job = false) : readStatusW fixed f now r = (f, none, []) := by
  unfold readStatusW
  simp [hd]

/-- with every key the code looks up, the read on the shape is the full status read -/
theorem readStatusW_complete (fixed : Bool) (f : FJob) (now : Int) (r : RespW) (h : r.complete = true) :
    readStatusW fixed f now r = readStatusF fixed f now r.toF := by
  cases hd : statusDue f.job with
  | false => rw [readStatusW_not_due _ _ _ _ hd, readStatusF_not_due _ _ _ _ hd]
  | true =>
    cases r with
    | status rb m =>
      simp only [RespW.complete] at h
      unfold readStatusW RespW.toF
      cases hs : rb.status with
      | none => simp [RawBody.missing, hs] at h
      | some s =>
        have hm : rb.missing = none := by simpa using h
        simp [hd, hm, hs]
    | http c => unfold readStatusW RespW.toF; simp [hd]
    | conn => unfold readStatusW RespW.toF; simp [hd]

/-- the exact outcome of a due read on an answer lacking a key the code looks up -/
theorem readStatusW_malformed (fixed : Bool) (f : FJob) (now : Int) (rb : RawBody) (m : Nat) (k : Key)
    (hd : statusDue f.job = true) (hk : rb.missing = some k) :
    readStatusW fixed f now (.status rb m) =
      ({ f with job := { f.job with
            status := (match rb.status with | none => f.job.status | some s => fromServer s),
            streak := 0,
            lastRead := (match rb.status with | none => f.job.lastRead | some s => some (fromServer s)) } },
       some .keyError, [.status f.job.id]) := by
  unfold readStatusW
  cases hs : rb.status with
  | none => simp [hd, hs]
  | some s => simp [hd, hk, hs]

theorem St.failed_completed (s : St) (h : s.failed = true) : s.completed = true := by
  cases s <;> simp_all [St.failed, St.completed]

/-- the full status read never raises KeyError -/
theorem readStatusF_not_keyError (fixed : Bool) (f : FJob) (now : Int) (r : RespF) :
    (readStatusF fixed f now r).2.1 ≠ some .keyError := by
  unfold readStatusF
  split
  · simp
  · cases r with
    | status s m b =>
      simp only
      split <;> simp
    | http c =>
      simp only
      cases (handleErr fixed f.job (some c)).2 <;> simp
    | conn =>
      simp only
      cases (handleErr fixed f.job none).2 <;> simp

theorem wstep_complete (fixed : Bool) (f : FJob) (t : TWOp) (h : t.complete = true) :
    wstep fixed f t = fstep fixed f t.toF := by
  obtain ⟨now, op⟩ := t
  cases op with
  | full op => rfl
  | rawPoll v r =>
    simp only [TWOp.complete] at h
    simp only [wstep, pollW, TWOp.toF, fstep, pollF, readStatusW_complete fixed f now r h]
    rfl

theorem wrun_complete (fixed : Bool) (ts : List TWOp) (h : ∀ t ∈ ts, t.complete = true) (f : FJob) :
    run (wstep fixed) f ts = run (fstep fixed) f (ts.map TWOp.toF) := by
  induction ts generalizing f with
  | nil => rfl
  | cons t ts ih =>
    have ht := h t (by simp)
    have hts : ∀ u ∈ ts, u.complete = true := fun u hu => h u (by simp [hu])
    simp only [List.map_cons, run, wstep_complete fixed f t ht, ih hts]

end PM.C17
