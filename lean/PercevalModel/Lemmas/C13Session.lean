/-
  C13 — histories that also *edit* the circuit held by the long-lived object (`Circuit.add`,
  `Parameter.set_value` on a leaf) — definitions and helper lemmas; the property theorems are in
  `Props/C13.lean`, section 11.

  The machine of `Model/C13.lean` (`sessionStep`, requests `set_circuit` / `probs`) is not changed:
  the extended machine below is built *on top of it* (every request is delegated to `sessionStep`),
  and `lower` translates an extended history to the history of plain requests the harness replays
  (an edit becomes `set_circuit` of the edited circuit).
-/
import PercevalModel.Lemmas.C13

open Matrix

namespace PM.C13

variable {R : Type}

section Session
variable {C I M S O E : Type}

/-- requests of a history that may also edit the circuit in place -/
inductive CmdX (C I E : Type) where
  /-- `sim.set_circuit(c)` with a new circuit object -/
  | setCircuit (c : C)
  /-- mutate the circuit object the session holds (`c.add(off, sub)`, `param.set_value(v)`), then
  make the object see it (`sim.set_circuit(c)`; a `Processor` does that before every computation) -/
  | edit (e : E)
  /-- `sim.probs(bs)` -/
  | probs (i : I)

/-- the long-lived object together with the circuit object the session holds -/
structure ObjX (C M : Type) where
  held : Option C
  layer : Layer M

/-- One extended request.  `apply e c` is the edit (`.error` when the edit itself raises, e.g. the
range assertion of `add`: nothing is mutated then). -/
def sessionStepX (env : Env C I M S O) (apply : E → C → Except String C) (st : ObjX C M) :
    CmdX C I E → ObjX C M × Except String (Option O)
  | .setCircuit c =>
    let r := sessionStep env st.layer (.setCircuit c)
    (⟨some c, r.1⟩, r.2)
  | .edit e =>
    match st.held with
    | none => (st, .error "NameError")
    | some c =>
      match apply e c with
      | .error err => (st, .error err)
      | .ok c' =>
        let r := sessionStep env st.layer (.setCircuit c')
        (⟨some c', r.1⟩, r.2)
  | .probs i =>
    let r := sessionStep env st.layer (.probs i)
    (⟨st.held, r.1⟩, r.2)

/-- the stateless specification of extended histories: its memory is the circuit object held and
the circuit in force (the last one `set_circuit` accepted); a query is answered by `answer` -/
def specStepX (env : Env C I M S O) (apply : E → C → Except String C) (a : Option C × Option C) :
    CmdX C I E → (Option C × Option C) × Except String (Option O)
  | .setCircuit c =>
    let r := specStep env a.2 (.setCircuit c)
    ((some c, r.1), r.2)
  | .edit e =>
    match a.1 with
    | none => (a, .error "NameError")
    | some c =>
      match apply e c with
      | .error err => (a, .error err)
      | .ok c' =>
        let r := specStep env a.2 (.setCircuit c')
        ((some c', r.1), r.2)
  | .probs i => (a, answer env a.2 i)

/-- the circuit in force after an extended history -/
def inForceX (env : Env C I M S O) (apply : E → C → Except String C) (h : List (CmdX C I E)) :
    Option C :=
  (SM.exec (specStepX env apply) (none, none) h).2

/-- the circuit object held after an extended history -/
def heldX (env : Env C I M S O) (apply : E → C → Except String C) (h : List (CmdX C I E)) :
    Option C :=
  (SM.exec (specStepX env apply) (none, none) h).1

def TracksX (env : Env C I M S O) (st : ObjX C M) (a : Option C × Option C) : Prop :=
  st.held = a.1 ∧ Tracks env st.layer a.2

theorem sessionStepX_tracks (env : Env C I M S O) (apply : E → C → Except String C)
    (st : ObjX C M) (a : Option C × Option C) (op : CmdX C I E) (h : TracksX env st a) :
    TracksX env (sessionStepX env apply st op).1 (specStepX env apply a op).1 ∧
      (sessionStepX env apply st op).2 = (specStepX env apply a op).2 := by
  obtain ⟨hh, ht⟩ := h
  cases op with
  | setCircuit c =>
    have := sessionStep_tracks env st.layer a.2 (.setCircuit c) ht
    exact ⟨⟨rfl, this.1⟩, this.2⟩
  | probs i =>
    have := sessionStep_tracks env st.layer a.2 (.probs i) ht
    refine ⟨⟨hh, ?_⟩, this.2⟩
    exact this.1
  | edit e =>
    cases hc : a.1 with
    | none =>
      have hs : st.held = none := hh.trans hc
      simp only [sessionStepX, specStepX, hs, hc]
      exact ⟨⟨hs.trans hc.symm, ht⟩, trivial⟩
    | some c =>
      have hs : st.held = some c := hh.trans hc
      cases ha : apply e c with
      | error err =>
        simp only [sessionStepX, specStepX, hs, hc, ha]
        exact ⟨⟨hs.trans hc.symm, ht⟩, trivial⟩
      | ok c' =>
        simp only [sessionStepX, specStepX, hs, hc, ha]
        have := sessionStep_tracks env st.layer a.2 (.setCircuit c') ht
        exact ⟨⟨rfl, this.1⟩, this.2⟩

/-- the plain history the harness replays for an extended one: an accepted edit becomes
`set_circuit` of the edited circuit, an edit that raises (or has nothing to edit) leaves no trace -/
def lower (apply : E → C → Except String C) : Option C → List (CmdX C I E) → List (Cmd C I)
  | _, [] => []
  | _, .setCircuit c :: r => .setCircuit c :: lower apply (some c) r
  | held, .probs i :: r => .probs i :: lower apply held r
  | none, .edit _ :: r => lower apply none r
  | some c, .edit e :: r =>
    match apply e c with
    | .error _ => lower apply (some c) r
    | .ok c' => .setCircuit c' :: lower apply (some c') r

theorem exec_lower (env : Env C I M S O) (apply : E → C → Except String C) :
    ∀ (h : List (CmdX C I E)) (st : ObjX C M),
      (SM.exec (sessionStepX env apply) st h).layer =
        SM.exec (sessionStep env) st.layer (lower apply st.held h)
  | [], st => rfl
  | .setCircuit c :: r, st => by
    rw [SM.exec_cons, exec_lower env apply r]
    simp only [lower, SM.exec_cons, sessionStepX]
  | .probs i :: r, st => by
    rw [SM.exec_cons, exec_lower env apply r]
    simp only [lower, SM.exec_cons, sessionStepX]
  | .edit e :: r, st => by
    rw [SM.exec_cons, exec_lower env apply r]
    cases hs : st.held with
    | none => simp only [sessionStepX, hs, lower]
    | some c =>
      cases ha : apply e c with
      | error err => simp only [sessionStepX, hs, ha, lower]
      | ok c' => simp only [sessionStepX, hs, ha, lower, SM.exec_cons]

end Session

/-! ### the two edits of the harness, on polarised trees -/

def PItems.append : PItems R → PItems R → PItems R
  | .nil, ys => ys
  | .cons o c r, ys => .cons o c (r.append ys)

/-- `Circuit.add(off, sub)` (nested; `C01.unitaryOf_addMerged_eq_addNested` shows that merging gives
the same matrix): the assertions of `add`, then the item is appended -/
def addP (off : ℕ) (sub : PComp R) : PComp R → Except String (PComp R)
  | .circ m items =>
    if off + sub.size ≤ m ∧ 0 < sub.size then .ok (.circ m (items.append (.cons off sub .nil)))
    else .error "AssertionError"
  | _ => .error "AttributeError"

theorem dblItems_append [Zero R] : (a b : PItems R) →
    dblItems (a.append b) = (dblItems a).append (dblItems b)
  | .nil, b => rfl
  | .cons o c r, b => by simp [PItems.append, dblItems, C01.Items.append, dblItems_append r b]

theorem PItems.WF_append {m : ℕ} : (a b : PItems R) → a.WF m → b.WF m → (a.append b).WF m
  | .nil, _, _, hb => hb
  | .cons o c r, b, ha, hb => by
    simp only [PItems.WF, PItems.append] at *
    exact ⟨ha.1, ha.2.1, PItems.WF_append r b ha.2.2 hb⟩

theorem PItems.AllUnitary_append [CommRing R] [StarRing R] : (a b : PItems R) → a.AllUnitary →
    b.AllUnitary → (a.append b).AllUnitary
  | .nil, _, _, hb => hb
  | .cons o c r, b, ha, hb => by
    simp only [PItems.AllUnitary, PItems.append] at *
    exact ⟨ha.1, PItems.AllUnitary_append r b ha.2 hb⟩

/-- two leaves of the same kind and width (`set_value` changes the angles of a component, not what
it is) -/
def sameShape : PComp R → PComp R → Bool
  | .plain k _, .plain k' _ => k == k'
  | .pol k _, .pol k' _ => k == k'
  | _, _ => false

mutual
  /-- replace the leaf at `path` (item indices from the top) by `new`, a leaf of the same shape -/
  def retune (new : PComp R) : List ℕ → PComp R → Option (PComp R)
    | [], .plain k U => if sameShape (.plain k U) new then some new else none
    | [], .pol k U => if sameShape (.pol k U) new then some new else none
    | [], .circ _ _ => none
    | _ :: _, .plain _ _ => none
    | _ :: _, .pol _ _ => none
    | i :: p, .circ m items =>
      match retuneItems new i p items with
      | some items' => some (.circ m items')
      | none => none
  def retuneItems (new : PComp R) : ℕ → List ℕ → PItems R → Option (PItems R)
    | _, _, .nil => none
    | 0, p, .cons off c rest =>
      match retune new p c with
      | some c' => some (.cons off c' rest)
      | none => none
    | i + 1, p, .cons off c rest =>
      match retuneItems new i p rest with
      | some r => some (.cons off c r)
      | none => none
end

theorem sameShape_size {a b : PComp R} (h : sameShape a b = true) : b.size = a.size := by
  cases a <;> cases b <;> simp [sameShape] at h <;> simp [PComp.size, h]

theorem sameShape_WF {a b : PComp R} (h : sameShape a b = true) : b.WF := by
  cases a <;> cases b <;> simp [sameShape] at h <;> trivial

mutual
  theorem retune_spec [CommRing R] [StarRing R] (new : PComp R) :
      (p : List ℕ) → (c c' : PComp R) → retune new p c = some c' →
        c'.size = c.size ∧ (c.WF → c'.WF) ∧ (new.AllUnitary → c.AllUnitary → c'.AllUnitary)
    | [], .plain k U, c', h => by
      simp only [retune] at h
      split_ifs at h with hs
      cases h
      exact ⟨sameShape_size hs, fun _ => sameShape_WF hs, fun hn _ => hn⟩
    | [], .pol k U, c', h => by
      simp only [retune] at h
      split_ifs at h with hs
      cases h
      exact ⟨sameShape_size hs, fun _ => sameShape_WF hs, fun hn _ => hn⟩
    | [], .circ _ _, c', h => by simp [retune] at h
    | _ :: _, .plain _ _, c', h => by simp [retune] at h
    | _ :: _, .pol _ _, c', h => by simp [retune] at h
    | i :: p, .circ m items, c', h => by
      simp only [retune] at h
      cases hr : retuneItems new i p items with
      | none => simp [hr] at h
      | some items' =>
        simp only [hr, Option.some.injEq] at h
        subst h
        obtain ⟨h1, h2⟩ := retuneItems_spec new i p items items' hr
        exact ⟨rfl, fun hw => h1 m hw, h2⟩
  theorem retuneItems_spec [CommRing R] [StarRing R] (new : PComp R) :
      (i : ℕ) → (p : List ℕ) → (items items' : PItems R) → retuneItems new i p items = some items' →
        (∀ m, items.WF m → items'.WF m) ∧
          (new.AllUnitary → items.AllUnitary → items'.AllUnitary)
    | _, _, .nil, _, h => by simp [retuneItems] at h
    | 0, p, .cons off c rest, items', h => by
      simp only [retuneItems] at h
      cases hr : retune new p c with
      | none => simp [hr] at h
      | some c' =>
        simp only [hr, Option.some.injEq] at h
        subst h
        obtain ⟨h1, h2, h3⟩ := retune_spec new p c c' hr
        refine ⟨fun m hw => ?_, fun hn hu => ?_⟩
        · simp only [PItems.WF] at hw ⊢
          exact ⟨by rw [h1]; exact hw.1, h2 hw.2.1, hw.2.2⟩
        · simp only [PItems.AllUnitary] at hu ⊢
          exact ⟨h3 hn hu.1, hu.2⟩
    | i + 1, p, .cons off c rest, items', h => by
      simp only [retuneItems] at h
      cases hr : retuneItems new i p rest with
      | none => simp [hr] at h
      | some r =>
        simp only [hr, Option.some.injEq] at h
        subst h
        obtain ⟨h1, h2⟩ := retuneItems_spec new i p rest r hr
        refine ⟨fun m hw => ?_, fun hn hu => ?_⟩
        · simp only [PItems.WF] at hw ⊢
          exact ⟨hw.1, hw.2.1, h1 m hw.2.2⟩
        · simp only [PItems.AllUnitary] at hu ⊢
          exact ⟨hu.1, h2 hn hu.2⟩
end

/-- the edits of the harness's histories -/
inductive Edit (R : Type) where
  | add (off : ℕ) (sub : PComp R)
  | retune (path : List ℕ) (new : PComp R)

def applyEdit : Edit R → PComp R → Except String (PComp R)
  | .add off sub, c => addP off sub c
  | .retune path new, c =>
    match retune new path c with
    | some c' => .ok c'
    | none => .error "KeyError"

end PM.C13
