/-
  C06 — the routing condition of `generate_samples` implies that the normalising constant of the event
  table is positive: on the `.events` route `phys_perf = sum(prob_table.values()) > 0`, so the division
  `v / phys_perf` of `_compute_prob_table` is by a non-zero number.  This discharges the hypothesis
  `physPerf P ns.sum f ≠ 0` of the sampler theorems in favour of the code's own routing test.
-/
import PercevalModel.Lemmas.C06SampF

namespace PM.C06

/-- membership in the three nested `range` loops, spelled out -/
theorem mem_tableRawOf_iff (a b c z : ℚ) (n f : ℕ) (e : (ℕ × ℕ × ℕ) × ℚ) :
    e ∈ tableRawOf a b c z n f ↔
      ∃ i j k, i < n + 1 ∧ j < (if b = 0 then 1 else n + 1 - i) ∧
        k < (if c = 0 then 1 else n + 1 - i - j) ∧ f ≤ i + j + 2 * k ∧
        e = ((i, j, k), coef a b c z n i j k) := by
  simp only [tableRawOf, List.mem_flatMap, List.mem_range]
  constructor
  · rintro ⟨i, hi, j, hj, k, hk, he⟩
    split at he
    · rename_i hf
      simp only [List.mem_singleton] at he
      exact ⟨i, j, k, hi, hj, hk, hf, he⟩
    · simp at he
  · rintro ⟨i, j, k, hi, hj, hk, hf, he⟩
    refine ⟨i, hi, j, hj, k, hk, ?_⟩
    rw [if_pos hf]
    simp [he]

theorem mass_nonneg_of_NonNeg {α : Type} {d : Dist α} (hd : NonNeg d) : 0 ≤ mass d := by
  induction d with
  | nil => simp [mass]
  | cons x xs ih =>
    have hx : 0 ≤ x.2 := hd x List.mem_cons_self
    have hxs : NonNeg xs := fun y hy => hd y (List.mem_cons_of_mem _ hy)
    have := ih hxs
    simp only [mass, List.map_cons, List.sum_cons] at this ⊢
    linarith

/-- a distribution with non-negative entries has total mass at least any single entry -/
theorem mass_ge_of_mem {α : Type} {d : Dist α} (hd : NonNeg d) {e : α × ℚ} (he : e ∈ d) :
    e.2 ≤ mass d := by
  induction d with
  | nil => simp at he
  | cons x xs ih =>
    have hx : 0 ≤ x.2 := hd x List.mem_cons_self
    have hxs : NonNeg xs := fun y hy => hd y (List.mem_cons_of_mem _ hy)
    have hm := mass_nonneg_of_NonNeg hxs
    simp only [mass, List.map_cons, List.sum_cons] at hm ⊢
    rcases List.mem_cons.1 he with rfl | h
    · linarith
    · have := ih hxs h
      simp only [mass] at this
      linarith

theorem coef_nonneg {a b c z : ℚ} (ha : 0 ≤ a) (hb : 0 ≤ b) (hc : 0 ≤ c) (hz : 0 ≤ z) (n i j k : ℕ) :
    0 ≤ coef a b c z n i j k := by
  unfold coef
  positivity

theorem coef_all_duo (a b c z : ℚ) (n : ℕ) : coef a b c z n 0 0 n = c ^ n := by
  have hn : (n.factorial : ℚ) ≠ 0 := Nat.cast_ne_zero.mpr (Nat.factorial_ne_zero n)
  unfold coef
  simp only [Nat.sub_zero, Nat.sub_self, pow_zero, Nat.factorial_zero, Nat.cast_one, mul_one, one_mul]
  field_simp

theorem coef_all_signal (a b c z : ℚ) (n : ℕ) : coef a b c z n n 0 0 = a ^ n := by
  have hn : (n.factorial : ℚ) ≠ 0 := Nat.cast_ne_zero.mpr (Nat.factorial_ne_zero n)
  unfold coef
  simp only [Nat.sub_self, pow_zero, Nat.factorial_zero, Nat.cast_one, mul_one]
  field_simp

theorem pSignal_nonneg {P : Params} (hP : P.WF) : 0 ≤ pSignal P :=
  add_nonneg (p11_nonneg hP) (p21_nonneg hP)

/-- every entry of the (unnormalised) event table is non-negative -/
theorem table_nonneg {P : Params} (hP : P.WF) (n f : ℕ) : NonNeg (tableRaw P n f) := by
  intro e he
  obtain ⟨i, j, k, -, -, -, -, rfl⟩ := (mem_tableRawOf_iff _ _ _ _ n f e).1 he
  exact coef_nonneg (pSignal_nonneg hP) (p21_nonneg hP) (p22_nonneg hP) (pNone_nonneg hP) n i j k

theorem physPerf_nonneg {P : Params} (hP : P.WF) (n f : ℕ) : 0 ≤ physPerf P n f :=
  mass_nonneg_of_NonNeg (table_nonneg hP n f)

/-- what the `.events` route means, clause by clause -/
theorem sampRoute_events_iff (P : Params) (n f : ℕ) :
    sampRoute P n f = .events ↔
      isPerfect P = false ∧ f ≠ 0 ∧ P.beta * P.eta ≠ 0 ∧ tableRaw P n f ≠ [] := by
  have hempty : f ≠ 0 → ((table P n f).isEmpty = true ↔ tableRaw P n f = []) := by
    intro hf
    simp [table, hf]
  unfold sampRoute
  by_cases h1 : isPerfect P = true
  · simp [h1]
  · by_cases h2 : f = 0
    · simp [h1, h2]
    · by_cases h3 : P.beta * P.eta = 0
      · simp [h1, h2, h3]
      · by_cases h4 : (table P n f).isEmpty = true
        · have := (hempty h2).1 h4
          simp [h1, h2, h3, h4, this]
        · have : tableRaw P n f ≠ [] := fun h0 => h4 ((hempty h2).2 h0)
          simp [h1, h2, h3, h4, this]

/-- on a non-empty filtered table with a lossless-enough source, the normalising constant is positive -/
theorem physPerf_pos_of_table_ne_nil {P : Params} (hP : P.WF) (n f : ℕ) (hη : P.eta ≠ 0)
    (hne : tableRaw P n f ≠ []) : 0 < physPerf P n f := by
  obtain ⟨e, he⟩ := List.exists_mem_of_ne_nil _ hne
  have hle := mem_tableRawOf_le _ _ _ _ n f e he
  obtain ⟨i, j, k, hi, hj, hk, hf, rfl⟩ := (mem_tableRawOf_iff _ _ _ _ n f e).1 he
  simp only at hle
  have hηpos : 0 < P.eta := lt_of_le_of_ne hP.eta_nonneg (Ne.symm hη)
  by_cases hc : pDuo P = 0
  · -- no pairs: `p2 = 0`, so `pG2 = 0` too and only the keys `(i, 0, 0)` exist
    have hp2 : p2 P = 0 := by
      have h := hc
      unfold pDuo p22 at h
      rcases mul_eq_zero.1 h with h | h
      · exact absurd ((pow_eq_zero_iff two_ne_zero).1 h) hη
      · exact h
    have hb : pG2 P = 0 := by simp [pG2, p21, hp2]
    have ha : pSignal P = P.eta * P.beta := by simp [pSignal, p11, p21, p1, hp2]
    rw [if_pos hb] at hj
    rw [if_pos hc] at hk
    have hmem : ((n, 0, 0), coef (pSignal P) (pG2 P) (pDuo P) (pNone P) n n 0 0) ∈ tableRaw P n f :=
      (mem_tableRawOf_iff _ _ _ _ n f _).2
        ⟨n, 0, 0, by omega, by rw [if_pos hb]; omega, by rw [if_pos hc]; omega, by omega, rfl⟩
    have hge := mass_ge_of_mem (table_nonneg hP n f) hmem
    rw [coef_all_signal, ha] at hge
    have hpos : 0 < (P.eta * P.beta) ^ n := pow_pos (mul_pos hηpos hP.beta_pos) n
    exact lt_of_lt_of_le hpos hge
  · have hcpos : 0 < pDuo P := lt_of_le_of_ne (p22_nonneg hP) (Ne.symm hc)
    have hmem : ((0, 0, n), coef (pSignal P) (pG2 P) (pDuo P) (pNone P) n 0 0 n) ∈ tableRaw P n f :=
      (mem_tableRawOf_iff _ _ _ _ n f _).2
        ⟨0, 0, n, by omega, by split <;> omega, by rw [if_neg hc]; omega, by omega, rfl⟩
    have hge := mass_ge_of_mem (table_nonneg hP n f) hmem
    rw [coef_all_duo] at hge
    exact lt_of_lt_of_le (pow_pos hcpos n) hge

/-- **the `.events` route never divides by zero**: `phys_perf > 0` -/
theorem physPerf_pos_of_events {P : Params} (hP : P.WF) (n f : ℕ) (h : sampRoute P n f = .events) :
    0 < physPerf P n f := by
  obtain ⟨-, -, h3, h4⟩ := (sampRoute_events_iff P n f).1 h
  exact physPerf_pos_of_table_ne_nil hP n f (right_ne_zero_of_mul h3) h4

theorem physPerf_ne_zero_of_events {P : Params} (hP : P.WF) (n f : ℕ) (h : sampRoute P n f = .events) :
    physPerf P n f ≠ 0 :=
  (physPerf_pos_of_events hP n f h).ne'

end PM.C06
