/-
  C16, wave 9 — helper lemmas about the estimator decision layer (`Model/C16Est.lean`)
-/
import PercevalModel.Model.C16Est

namespace PM.C16

theorem interest_ok (e : Exp) (g : Interest) :
    interest e = .ok g ↔ ∃ s, e.input = some s ∧ g = interestOf (s.sum : Nat) e.filter (heraldSum e : Nat) := by
  unfold interest
  cases e.input with
  | none => simp [throw, throwThe, MonadExceptOf.throw]
  | some s =>
    simp only [pure, Except.pure, Except.ok.injEq, Option.some.injEq, exists_eq_left']
    exact eq_comm

theorem interestOf_zero (n : Int) (fl : Option Int) (hs : Int) :
    interestOf n fl hs = .zero ↔ ∃ f, fl = some f ∧ f + hs > n := by
  unfold interestOf
  cases fl with
  | none => simp only [reduceCtorEq, false_and, exists_false, iff_false]; split <;> simp
  | some f =>
    simp only [Option.some.injEq, exists_eq_left']
    split
    · simpa using ‹_›
    · rename_i hh; split <;> simp [hh]

theorem interestOf_simulate (n : Int) (fl : Option Int) (hs k : Int) (h : interestOf n fl hs = .simulate k) :
    2 ≤ k ∧ k ≤ n ∧ (∀ f, fl = some f → k = f + hs) ∧ (fl = none → k = n) := by
  unfold interestOf at h
  cases fl with
  | none =>
    simp only at h ⊢
    split at h
    · simp at h
    · injection h with h; simp; omega
  | some f =>
    simp only at h ⊢
    split at h
    · simp at h
    · split at h
      · simp at h
      · injection h with h; simp; omega

end PM.C16
