/-
  C08 — the Fock amplitude specification on an input with all photons in ONE mode.

  `Found/Fock.lean`: `pamp U s t = perm(U[t|s])` (Mathlib `Matrix.permanent`).  For `s = |n,0,…,0>` every
  column of `U[t|s]` is (a selection of rows of) column 0 of `U`, so the permanent collapses:

      perm(U[t|s]) = n! · ∏_k U[k,0]^{t_k}                      (`pamp_single_mode`)

  and the probability `|perm|² / (n! ∏ t_k!)` is the multinomial law `n!/∏ t_k! · ∏_k (|U[k,0]|²)^{t_k}`
  (`prob_single_mode`).
-/
import PercevalModel.Found.Fock
import Mathlib.Algebra.BigOperators.Fin
import Mathlib.GroupTheory.Perm.Basic
import Mathlib.Data.Fintype.Perm
import Mathlib.Algebra.Star.Basic
import Mathlib.Data.List.GetD
import Mathlib.Tactic.FieldSimp

open Matrix Finset

namespace PM.C08

open PM.Fock

variable {R : Type} [CommRing R]

/-- the permanent of a square matrix whose columns are all the same vector `v` is `n! · ∏ v i` -/
theorem permanent_const_cols {n : ℕ} (v : Fin n → R) :
    (Matrix.of fun (i : Fin n) (_ : Fin n) => v i).permanent = (n.factorial : R) * ∏ i, v i := by
  unfold Matrix.permanent
  have h : ∀ σ : Equiv.Perm (Fin n),
      ∏ i, (Matrix.of fun (i : Fin n) (_ : Fin n) => v i) (σ i) i = ∏ i, v i := by
    intro σ
    simp only [Matrix.of_apply]
    exact Equiv.prod_comp σ v
  rw [Finset.sum_congr rfl (fun σ _ => h σ), Finset.sum_const, Finset.card_univ, Fintype.card_perm,
    Fintype.card_fin, nsmul_eq_mul]

/-- `∏_k f(i+k)^{t_k}` over the modes of a state -/
def powProd (f : ℕ → R) : ℕ → List ℕ → R
  | _, [] => 1
  | i, c :: r => f i ^ c * powProd f (i + 1) r

theorem prod_map_expandFrom (f : ℕ → R) (i : ℕ) (t : List ℕ) :
    ((expandFrom i t).map f).prod = powProd f i t := by
  induction t generalizing i with
  | nil => rfl
  | cons c r ih => simp [expandFrom, powProd, ih]

theorem expandFrom_replicate_zero (i k : ℕ) : expandFrom i (List.replicate k 0) = [] := by
  induction k generalizing i with
  | zero => rfl
  | succ k ih => simp [List.replicate_succ, expandFrom, ih]

/-- `|n,0,…,0>`: all `n` photons in mode 0 of `m` modes (`m ≥ 1`) -/
def single (m n : ℕ) : List ℕ := n :: List.replicate (m - 1) 0

theorem single_sum (m n : ℕ) : (single m n).sum = n := by simp [single]

theorem single_length {m : ℕ} (hm : 0 < m) (n : ℕ) : (single m n).length = m := by
  simp [single]; omega

theorem expand_single (m n : ℕ) : expand (single m n) = List.replicate n 0 := by
  simp [expand, single, expandFrom, expandFrom_replicate_zero]

theorem prod_fin_getD {N : ℕ} (l : List ℕ) (hl : l.length = N) (g : ℕ → R) :
    ∏ i : Fin N, g (l.getD i.val 0) = (l.map g).prod := by
  subst hl
  rw [← Fin.prod_univ_fun_getElem l g]
  apply Finset.prod_congr rfl
  intro i _
  rw [List.getD_eq_getElem _ _ i.isLt]

/-- **the amplitude from a single occupied input mode.** For every `m × m` matrix `U`, every photon number
`n` and every output state `t` with `n` photons: `perm(U[t | n,0,…,0]) = n! · ∏_k U[k,0]^{t_k}`. -/
theorem pamp_single_mode {m : ℕ} (U : Matrix (Fin m) (Fin m) R) (n : ℕ) (t : List ℕ)
    (ht : t.sum = n) :
    pamp U (single m n) t = (n.factorial : R) * powProd (fun k => entry U k 0) 0 t := by
  have hs : (single m n).sum = t.sum := by rw [single_sum, ht]
  unfold pamp
  rw [if_pos hs]
  have hM : subMat U (single m n) t
      = Matrix.of fun (i : Fin (single m n).sum) (_ : Fin (single m n).sum) =>
          entry U ((expand t).getD i.val 0) 0 := by
    funext i j
    simp only [subMat, Matrix.of_apply]
    congr 1
    rw [expand_single]
    have hj : j.val < n := lt_of_lt_of_eq j.isLt (single_sum m n)
    rw [List.getD_eq_getElem _ _ (by simpa using hj)]
    simp
  rw [hM, permanent_const_cols, single_sum,
    prod_fin_getD (expand t) (by simp [expand_length, single_sum, ht]) (fun a => entry U a 0)]
  unfold expand
  rw [prod_map_expandFrom]

/-! ### squared moduli -/
section star
variable [StarRing R]

/-- `|x|² = x̄ x` in a commutative star ring -/
def nsq (x : R) : R := star x * x

theorem nsq_mul (x y : R) : nsq (x * y) = nsq x * nsq y := by
  unfold nsq; rw [star_mul']; ring

theorem nsq_one : nsq (1 : R) = 1 := by simp [nsq]

theorem nsq_zero : nsq (0 : R) = 0 := by simp [nsq]

theorem nsq_natCast (k : ℕ) : nsq (k : R) = (k : R) * k := by simp [nsq]

theorem nsq_pow (x : R) (k : ℕ) : nsq (x ^ k) = nsq x ^ k := by
  induction k with
  | zero => simp [nsq_one]
  | succ k ih => rw [pow_succ, pow_succ, nsq_mul, ih]

theorem nsq_powProd (f : ℕ → R) (i : ℕ) (t : List ℕ) :
    nsq (powProd f i t) = powProd (fun k => nsq (f k)) i t := by
  induction t generalizing i with
  | nil => exact nsq_one
  | cons c r ih => simp only [powProd, nsq_mul, nsq_pow, ih]

/-- **multinomial law, squared-modulus form**: `|perm(U[t | n,0,…,0])|² = (n!)² · ∏_k (|U[k,0]|²)^{t_k}` -/
theorem nsq_pamp_single_mode {m : ℕ} (U : Matrix (Fin m) (Fin m) R) (n : ℕ) (t : List ℕ)
    (ht : t.sum = n) :
    nsq (pamp U (single m n) t)
      = ((n.factorial : R) * n.factorial) * powProd (fun k => nsq (entry U k 0)) 0 t := by
  rw [pamp_single_mode U n t ht, nsq_mul, nsq_natCast, nsq_powProd]

end star

theorem prodFact_single (m n : ℕ) : prodFact (single m n) = n.factorial := by
  simp [prodFact, single]

theorem GQ_normSq_eq (a : GQ) : GQ.ofRat (GQ.normSq a) = nsq a := by
  unfold nsq; rw [mul_comm, GQ.mul_star_self]

theorem GQ_ofRat_injective : Function.Injective GQ.ofRat := by
  intro a b h; exact congrArg GQ.re h

theorem GQ_ofRat_mul (a b : ℚ) : GQ.ofRat (a * b) = GQ.ofRat a * GQ.ofRat b := by
  ext <;> simp [GQ.ofRat]

theorem GQ_ofRat_one : GQ.ofRat 1 = 1 := rfl

theorem GQ_ofRat_natCast (k : ℕ) : GQ.ofRat (k : ℚ) = (k : GQ) := by
  induction k with
  | zero => rfl
  | succ k ih =>
    push_cast
    rw [← ih]
    ext <;> simp [GQ.ofRat]

theorem GQ_ofRat_pow (a : ℚ) (k : ℕ) : GQ.ofRat (a ^ k) = GQ.ofRat a ^ k := by
  induction k with
  | zero => ext <;> simp [GQ.ofRat]
  | succ k ih => rw [pow_succ, pow_succ, GQ_ofRat_mul, ih]

theorem GQ_ofRat_powProd (f : ℕ → ℚ) (i : ℕ) (t : List ℕ) :
    GQ.ofRat (powProd f i t) = powProd (fun k => GQ.ofRat (f k)) i t := by
  induction t generalizing i with
  | nil => rfl
  | cons c r ih => simp only [powProd, GQ_ofRat_mul, GQ_ofRat_pow, ih]

/-- **the Fock probability from a single occupied input mode is multinomial** in the squared moduli of
column 0 (executable coefficient ring `GQ = ℚ[i]`): for all `U`, `n`, and `t` with `n` photons,
`prob U |n,0,…,0> t = n!/∏ t_k! · ∏_k (|U[k,0]|²)^{t_k}`. -/
theorem prob_single_mode {m : ℕ} (U : Matrix (Fin m) (Fin m) GQ) (n : ℕ) (t : List ℕ)
    (ht : t.sum = n) :
    Fock.prob U (single m n) t
      = (n.factorial : ℚ) / (prodFact t : ℚ) * powProd (fun k => GQ.normSq (entry U k 0)) 0 t := by
  have hq : GQ.normSq (pamp U (single m n) t)
      = ((n.factorial : ℚ) * n.factorial) * powProd (fun k => GQ.normSq (entry U k 0)) 0 t := by
    apply GQ_ofRat_injective
    rw [GQ_normSq_eq, nsq_pamp_single_mode U n t ht, GQ_ofRat_mul, GQ_ofRat_mul, GQ_ofRat_natCast,
      GQ_ofRat_powProd]
    simp only [GQ_normSq_eq]
  unfold Fock.prob
  rw [hq, prodFact_single]
  have hn : (n.factorial : ℚ) ≠ 0 := by exact_mod_cast Nat.factorial_ne_zero n
  have ht' : (prodFact t : ℚ) ≠ 0 := by
    unfold prodFact
    have : (t.map Nat.factorial).prod ≠ 0 := by
      apply List.prod_ne_zero
      simp only [List.mem_map, not_exists, not_and]
      intro x _ hx
      exact Nat.factorial_ne_zero x hx
    exact_mod_cast this
  field_simp

end PM.C08
