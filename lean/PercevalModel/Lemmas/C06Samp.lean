/-
  C06 — the sampler as a function of its draws (`Model/C06Samp.lean`): the push-forward of independent
  ideal draws through `_generate_samples_no_filter` is the (untrimmed) law of `generate_distribution`,
  for EVERY test function of the state.
-/
import PercevalModel.Model.C06Samp
import PercevalModel.Lemmas.C06Cat
set_option linter.unusedSimpArgs false
namespace PM.C06

section gen
variable {α β γ : Type}

/-- two list distributions give every test function the same expectation -/
def Same (d d' : Dist α) : Prop := ∀ g : α → ℚ, E g d = E g d'

theorem Same.refl (d : Dist α) : Same d d := fun _ => rfl
theorem Same.symm {d d' : Dist α} (h : Same d d') : Same d' d := fun g => (h g).symm
theorem Same.trans {d d' d'' : Dist α} (h : Same d d') (h' : Same d' d'') : Same d d'' :=
  fun g => (h g).trans (h' g)

theorem E_pushF (g : β → ℚ) (f : α → β) (d : Dist α) : E g (pushF f d) = E (fun a => g (f a)) d :=
  E_map_key g f d

theorem Same.pushF {d d' : Dist α} (h : Same d d') (f : α → β) : Same (pushF f d) (pushF f d') :=
  fun g => by rw [E_pushF, E_pushF]; exact h _

theorem pushF_pushF (f : α → β) (h : β → γ) (d : Dist α) : pushF h (pushF f d) = pushF (fun a => h (f a)) d := by
  simp [pushF, List.map_map, Function.comp_def]

theorem E_map_cons_scale (F : List α → ℚ) (x : α) (c : ℚ) (D : Dist (List α)) :
    E F (D.map fun r => (x :: r.1, c * r.2)) = c * E (fun l => F (x :: l)) D := by
  induction D with
  | nil => simp
  | cons r D ih => simp only [List.map_cons, E_cons, ih]; ring

/-- Fubini for the law of independent draws -/
theorem E_prodLaw_cons (F : List α → ℚ) (d : Dist α) (ds : List (Dist α)) :
    E F (prodLaw (d :: ds)) = E (fun x => E (fun l => F (x :: l)) (prodLaw ds)) d := by
  simp only [prodLaw, E_flatMap, E_map_cons_scale]
  rfl

theorem E_prodLaw_nil (F : List α → ℚ) : E F (prodLaw ([] : List (Dist α))) = F [] := by
  simp [prodLaw, E]

theorem prodLaw_congr {Ds Ds' : List (Dist α)} (h : List.Forall₂ Same Ds Ds') :
    Same (prodLaw Ds) (prodLaw Ds') := by
  induction h with
  | nil => exact Same.refl _
  | cons hd _ ih =>
    intro F
    rw [E_prodLaw_cons, E_prodLaw_cons, hd]
    apply E_congr
    intro x
    exact ih _

theorem prodLaw_length (Ds : List (Dist α)) : ∀ e ∈ prodLaw Ds, e.1.length = Ds.length := by
  induction Ds with
  | nil => intro e he; simp only [prodLaw, List.mem_singleton] at he; subst he; rfl
  | cons d Ds ih =>
    intro e he
    simp only [prodLaw, List.mem_flatMap, List.mem_map] at he
    obtain ⟨x, _, r, hr, rfl⟩ := he
    simp [ih r hr]

/-- draws from `xs`-indexed laws, each pushed through its own function -/
theorem prodLaw_zipWith {ι : Type} (xs : List ι) (L : ι → Dist β) (f : ι → β → α) :
    Same (pushF (fun l => List.zipWith f xs l) (prodLaw (xs.map L)))
      (prodLaw (xs.map fun x => pushF (f x) (L x))) := by
  induction xs with
  | nil => intro G; simp [pushF, prodLaw]
  | cons x xs ih =>
    intro G
    rw [E_pushF, List.map_cons, List.map_cons, E_prodLaw_cons, E_prodLaw_cons, E_pushF]
    apply E_congr
    intro b
    have := ih (fun l => G (f x b :: l))
    rw [E_pushF] at this
    simpa using this

theorem prodLaw_map_pushF (Ds : List (Dist β)) (f : β → α) :
    Same (pushF (fun l => l.map f) (prodLaw Ds)) (prodLaw (Ds.map (pushF f))) := by
  induction Ds with
  | nil => intro G; simp [pushF, prodLaw]
  | cons d Ds ih =>
    intro G
    rw [E_pushF, List.map_cons, E_prodLaw_cons, E_prodLaw_cons, E_pushF]
    apply E_congr
    intro b
    have := ih (fun l => G (f b :: l))
    rw [E_pushF] at this
    simpa using this

theorem E_prodLaw_empty (F : List α → ℚ) (Ds : List (Dist α)) (h : [] ∈ Ds) : E F (prodLaw Ds) = 0 := by
  induction Ds generalizing F with
  | nil => simp at h
  | cons d Ds ih =>
    rw [E_prodLaw_cons]
    rcases List.mem_cons.mp h with h' | h'
    · rw [← h']; rfl
    · rw [E_congr (g' := fun _ => 0) (fun x => ih _ h')]
      simp [E]

theorem E_prodLaw_trim_zero (F : List α → ℚ) (Ds : List (Dist α)) (h : ∀ d ∈ Ds, NonNeg d) :
    E F (prodLaw (Ds.map (trim 0))) = E F (prodLaw Ds) := by
  induction Ds generalizing F with
  | nil => rfl
  | cons d Ds ih =>
    rw [List.map_cons, E_prodLaw_cons, E_prodLaw_cons, E_trim_zero _ d (h d (by simp))]
    apply E_congr
    intro x
    exact ih _ (fun d' hd' => h d' (by simp [hd']))

/-- the depth-first product at threshold `0` is the law of independent draws, folded -/
theorem E_dfs_zero (g : α → ℚ) (comb : α → α → α) (ds : List (Dist α)) (hds : ∀ d ∈ ds, NonNeg d)
    (s : α) (p : ℚ) (hp : 0 ≤ p) :
    E g (dfs 0 comb ds s p) = p * E (fun l => g (l.foldl comb s)) (prodLaw ds) := by
  induction ds generalizing s p with
  | nil => simp [dfs, prodLaw, E]
  | cons d ds ih =>
    have hd : NonNeg d := hds d (by simp)
    have hds' : ∀ d' ∈ ds, NonNeg d' := fun d' h' => hds d' (by simp [h'])
    rw [E_dfs_cons g comb d ds s p hp hd, E_prodLaw_cons]
    have : ∀ e ∈ d, E g (dfs 0 comb ds (comb s e.1) (p * e.2)) =
        p * (e.2 * E (fun l => g ((e.1 :: l).foldl comb s)) (prodLaw ds)) := by
      intro e he
      rw [ih hds' _ _ (mul_nonneg hp (hd e he))]
      simp only [List.foldl_cons]
      ring
    rw [List.map_congr_left this, List.sum_map_mul_left]
    rfl

theorem range_map_getD (l : List γ) (x : γ) {δ : Type} (h : γ → δ) :
    (List.range l.length).map (fun i => h (l.getD i x)) = l.map h := by
  apply List.ext_getElem
  · simp
  · intro i h1 h2
    simp only [List.length_map, List.length_range] at h1
    simp [List.getD_eq_getElem?_getD, h1]

/-- `random.choices` on the keys of `d` with the values as weights: the push-forward of the ideal index law
is `d` normalised -/
theorem pick_idxLaw [Inhabited α] (d : Dist α) :
    Same (pushF (pickKey d) (idxLaw (d.map Prod.snd))) (normalize d) := by
  intro g
  have hs : (d.map Prod.snd).sum = mass d := rfl
  rw [E_pushF]
  simp only [normalize, idxLaw, E, List.map_map, Function.comp_def, List.length_map, pickKey, hs]
  rw [← range_map_getD d (default, 0) (fun e => e.2 / mass d * g e.1)]
  congr 1
  apply List.map_congr_left
  intro i _
  simp [List.getD_eq_getElem?_getD, List.getElem?_map]
  cases d[i]? <;> simp

end gen

/-! ### `probability_distribution` / `generate_distribution` at threshold 0 as laws of independent draws -/

theorem modeOf_two (x y : Mode) (l : List Mode) :
    modeOf (x :: y :: l) = (x :: y :: l).foldl (fun s e => mergeTags e s) [] := rfl

/-- `BSDistribution.list_tensor_product(merge_modes=True)` at threshold 0: independent draws, merged -/
theorem ltpMode_zero_same (ds : List (Dist Mode)) (hne : ds ≠ []) (hds : ∀ d ∈ ds, NonNeg d) :
    Same (ltpMode 0 ds) (pushF modeOf (prodLaw ds)) := by
  intro g
  rw [E_pushF]
  match ds, hne, hds with
  | [d], _, _ =>
    rw [E_prodLaw_cons]
    simp only [E_prodLaw_nil, modeOf, ltpMode]
  | d₁ :: d₂ :: ds, _, hds =>
    show E g (if (d₁ :: d₂ :: ds).any List.isEmpty then []
      else accum (dfs 0 (fun s e => mergeTags e s) ((d₁ :: d₂ :: ds).map (trim 0)) [] 1)) = _
    split
    · next h =>
      rw [List.any_eq_true] at h
      obtain ⟨d, hd, he⟩ := h
      have : d = [] := List.isEmpty_iff.mp he
      subst this
      rw [E_prodLaw_empty _ _ hd]
      rfl
    · have hds' : ∀ d ∈ (d₁ :: d₂ :: ds).map (trim 0), NonNeg d := by
        intro d hd
        simp only [List.mem_map] at hd
        obtain ⟨x, hx, rfl⟩ := hd
        exact trim_NonNeg 0 x (hds x hx)
      rw [E_accum, E_dfs_zero g _ _ hds' [] 1 zero_le_one, one_mul, E_prodLaw_trim_zero _ _ hds]
      apply E_congr_mem
      intro e he
      have hl := prodLaw_length _ e he
      match e.1, hl with
      | x :: y :: l, _ => rfl

theorem foldl_singletons (l : List Mode) (s : State) :
    (l.map fun m => [m]).foldl (fun s e => s ++ e) s = s ++ l := by
  induction l generalizing s with
  | nil => simp
  | cons m l ih => simp [ih]

theorem lift_eq_pushF (d : Dist Mode) : lift d = pushF (fun m => [m]) d := rfl

/-- `SVDistribution.list_tensor_product` at threshold 0: independent draws of the modes -/
theorem ltpState_zero_same (Ds : List (Dist Mode)) (hne : Ds ≠ []) (hds : ∀ d ∈ Ds, NonNeg d) :
    Same (ltpState 0 (Ds.map lift)) (prodLaw Ds) := by
  intro g
  match Ds, hne, hds with
  | [d], _, _ =>
    rw [E_prodLaw_cons]
    simp only [E_prodLaw_nil, List.map_cons, List.map_nil, ltpState, E_lift]
  | d₁ :: d₂ :: Ds, _, hds =>
    have hl : ∀ d ∈ (d₁ :: d₂ :: Ds).map lift, NonNeg d := by
      intro d hd
      simp only [List.mem_map] at hd
      obtain ⟨x, hx, rfl⟩ := hd
      exact lift_NonNeg x (hds x hx)
    have hds' : ∀ d ∈ ((d₁ :: d₂ :: Ds).map lift).map (trim 0), NonNeg d := by
      intro d hd
      obtain ⟨x, hx, rfl⟩ := List.mem_map.mp hd
      exact trim_NonNeg 0 x (hl x hx)
    show E g (dfs 0 (fun s e => s ++ e) (((d₁ :: d₂ :: Ds).map lift).map (trim 0)) [] 1) = _
    rw [E_dfs_zero g _ _ hds' [] 1 zero_le_one, one_mul, E_prodLaw_trim_zero _ _ hl]
    have h := prodLaw_map_pushF (d₁ :: d₂ :: Ds) (fun m : Mode => [m])
      (fun l => g (l.foldl (fun s e => s ++ e) []))
    rw [E_pushF] at h
    rw [show (d₁ :: d₂ :: Ds).map lift = (d₁ :: d₂ :: Ds).map (pushF fun m => [m]) from rfl, ← h]
    apply E_congr
    intro l
    rw [foldl_singletons, List.nil_append]

theorem tagAfter_zero (P : Params) (t : ℕ) : tagAfter P 0 t = t := rfl

/-- `probability_distribution(n)` of an imperfect source at threshold 0: `n` independent one-photon draws,
merged (also for `n = 0`) -/
theorem probDist_zero_same {P : Params} (hperf : isPerfect P = false) (n t : ℕ) :
    Same (probDist P 0 n t) (pushF modeOf (prodLaw (photonDists P n t))) ∧
    probDistTag P n t = tagAfter P n t := by
  cases n with
  | zero =>
    refine ⟨fun g => ?_, by simp [probDistTag, tagAfter]⟩
    simp [probDist, shortcut, photonDists, pushF, prodLaw, modeOf]
  | succ n =>
    have hs : shortcut P (n + 1) = false := by simp [shortcut, hperf]
    refine ⟨?_, by simp [probDistTag, hs]⟩
    unfold probDist
    rw [hs]
    exact ltpMode_zero_same _ (photonDists_ne_nil P (by omega) t) (photonDists_NonNeg P _ t)

theorem modeDists_zero_same {P : Params} (hperf : isPerfect P = false) (ns : List ℕ) (t : ℕ) :
    List.Forall₂ Same (modeDists P 0 ns t)
      ((nfDistsPd P ns t).map fun ds => pushF modeOf (prodLaw ds)) := by
  induction ns generalizing t with
  | nil => exact List.Forall₂.nil
  | cons n ns ih =>
    simp only [modeDists, nfDistsPd, List.map_cons]
    rw [(probDist_zero_same hperf n t).2]
    exact List.Forall₂.cons (probDist_zero_same hperf n t).1 (ih _)

/-- without partial distinguishability the one-photon distribution does not depend on the tag counter … -/
theorem onePhoton_tag_indep {P : Params} (h : partDist P = false) (t t' : ℕ) :
    onePhoton P t = onePhoton P t' := by
  simp [onePhoton, onePhotonRaw, h]

theorem photonDists_replicate {P : Params} (h : partDist P = false) (n t t' : ℕ) :
    photonDists P n t = List.replicate n (onePhoton P t') := by
  induction n generalizing t with
  | zero => rfl
  | succ n ih => rw [photonDists, ih, onePhoton_tag_indep h t t', List.replicate_succ]

/-- … so the ONE distribution `_generate_samples_no_filter` then reuses is the distribution of every
requested photon -/
theorem nfDists_eq (P : Params) (ns : List ℕ) (t : ℕ) : nfDists P ns t = nfDistsPd P ns t := by
  unfold nfDists
  split
  · rfl
  · next h =>
    have h' : partDist P = false := by simpa using h
    generalize ht : t = t0
    clear ht
    suffices H : ∀ t', nfDistsPd P ns t' = ns.map fun n => List.replicate n (onePhoton P t0) from (H _).symm
    induction ns with
    | nil => intro _; rfl
    | cons n ns ih => intro t'; simp only [nfDistsPd, List.map_cons, ih, photonDists_replicate h' n t' t0]

theorem mem_nfDistsPd {P : Params} {ns : List ℕ} {t : ℕ} {ds : List (Dist Mode)} {d : Dist Mode}
    (h1 : ds ∈ nfDistsPd P ns t) (h2 : d ∈ ds) : ∃ t', d = onePhoton P t' := by
  induction ns generalizing t with
  | nil => simp [nfDistsPd] at h1
  | cons n ns ih =>
    simp only [nfDistsPd, List.mem_cons] at h1
    rcases h1 with rfl | h1
    · clear ih
      induction n generalizing t with
      | zero => simp [photonDists] at h2
      | succ n ihn =>
        simp only [photonDists, List.mem_cons] at h2
        rcases h2 with rfl | h2
        · exact ⟨t, rfl⟩
        · exact ihn h2
    · exact ih h1

theorem forall₂_map_same {ι α' : Type} (xs : List ι) (A B : ι → Dist α') (h : ∀ x ∈ xs, Same (A x) (B x)) :
    List.Forall₂ Same (xs.map A) (xs.map B) := by
  induction xs with
  | nil => exact List.Forall₂.nil
  | cons x xs ih =>
    exact List.Forall₂.cons (h x (by simp)) (ih fun y hy => h y (by simp [hy]))

/-- one `bsd.sample` draw of a one-photon distribution: the push-forward of the ideal index is the
distribution itself (it has mass one) -/
theorem sample_onePhoton {P : Params} (hP : P.WF) (t : ℕ) :
    Same (pushF (pickKey (onePhoton P t)) (sampleIdxLaw (onePhoton P t))) (onePhoton P t) := by
  have hm : mass (onePhoton P t) = 1 := by
    rw [mass_eq_E]
    simpa [poly_one] using cnt_onePhoton hP t 1
  have hn : normalize (onePhoton P t) = onePhoton P t := by
    simp [normalize, hm]
  have h := pick_idxLaw (onePhoton P t)
  rw [hn] at h
  unfold sampleIdxLaw
  rw [hn]
  exact h

/-- **the no-filter sampler under ideal draws**: the law of one sample of `_generate_samples_no_filter` is
the untrimmed product law of `generate_distribution`, for every test function of the state -/
theorem nfLaw_same {P : Params} (hP : P.WF) (hperf : isPerfect P = false) {ns : List ℕ} (hne : ns ≠ [])
    (t : ℕ) : Same (nfLaw P ns t) (generateAt P 0 ns t) := by
  intro g
  rw [E_generateAt_zero hP g hne, generateRaw,
    ltpState_zero_same _ (modeDists_ne_nil P 0 hne t) (modeDists_NonNeg P 0 ns t) g,
    prodLaw_congr (modeDists_zero_same hperf ns t) g]
  unfold nfLaw nfDrawLaw
  rw [nfDists_eq]
  have h1 := prodLaw_zipWith (nfDistsPd P ns t) (fun ds => prodLaw (ds.map sampleIdxLaw))
    (fun ds idx => modeOf (List.zipWith pickKey ds idx)) g
  unfold nfSample
  rw [h1]
  apply prodLaw_congr
  apply forall₂_map_same
  intro ds hds
  have h2 := (prodLaw_zipWith ds sampleIdxLaw pickKey).pushF modeOf
  rw [pushF_pushF] at h2
  refine h2.trans (Same.pushF (prodLaw_congr ?_) modeOf)
  have : ds = ds.map id := by simp
  conv => rhs; rw [this]
  apply forall₂_map_same
  intro d hd
  obtain ⟨t', rfl⟩ := mem_nfDistsPd hds hd
  exact sample_onePhoton hP t'


end PM.C06
