/-
  C08 — `simulate_detectors_sample` at an arbitrary `min_p`:
  * the law of the drawn state is the mode-wise kernel product whenever no per-mode result is an EMPTY
    dictionary (`sampleLoop_spec_gen`), which holds as soon as `min_p · photons < 1` in every mode
    (`kernel_ne_nil`; at the shipped `1e-16`: fewer than `10^16` photons);
  * which per-mode results can be empty at all (`kernel_eq_nil_iff`, `detectWired_eq_nil_iff`): only an
    interleaved detector with at least two wires hit by at least two photons, when every entry of its click law
    is `≤ min_p`;
  * what happens then (`tensor2_nil_left`, `tensor2_nil_right`, `sampleLoop_restart`): `tensor_product` returns
    its RIGHT factor when the left one is empty, so the accumulated product restarts after the last empty
    result — the drawn state only has the modes after it.
-/
import PercevalModel.Lemmas.C08MinP

set_option linter.unusedSectionVars false

namespace PM.C08

section quirk
variable {K : Type} [Field K] [LinearOrder K] [IsStrictOrderedRing K]

/-- `tensor_product(bsd1, bsd2)`: `if len(bsd1) == 0: return bsd2` -/
theorem tensor2_nil_left (b : Dist (List ℕ) K) : tensor2 [] b = b := rfl

/-- an empty RIGHT factor gives the empty product (the double loop never runs) -/
theorem tensor2_nil_right (a : Dist (List ℕ) K) : tensor2 a [] = [] := by
  unfold tensor2
  split
  · rfl
  · induction a with
    | nil => rfl
    | cons x a ih => simp

theorem bump_ne_nil {σ : Type} [DecidableEq σ] (d : Dist σ K) (k : σ) (p : K) : bump d k p ≠ [] := by
  cases d with
  | nil => simp [bump]
  | cons e rest =>
    obtain ⟨k', v⟩ := e
    simp only [bump]
    split <;> simp

theorem t2inner_ne_nil_of_acc (x : List ℕ × K) (b acc : Dist (List ℕ) K) (h : acc ≠ []) :
    t2inner x b acc ≠ [] := by
  induction b generalizing acc with
  | nil => exact h
  | cons y b ih =>
    rw [t2inner_cons]
    apply ih
    split
    · exact h
    · exact bump_ne_nil _ _ _

/-- the loop of `state_distrib *= …` restarts after a per-mode result that is an empty dictionary: whatever was
accumulated before is lost, and the modes before it are missing from the drawn state -/
theorem sampleLoop_restart (minP : K) (s1 s2 : List ℕ) (n : ℕ) (d1 d2 : List (AnyDet K)) (d : AnyDet K)
    (hl : s1.length = d1.length) (hk : d.kernel minP n = []) (acc : Dist (List ℕ) K) :
    sampleLoop true minP (s1 ++ n :: s2) (d1 ++ d :: d2) acc = sampleLoop true minP s2 d2 [] := by
  induction s1 generalizing d1 acc with
  | nil =>
    have : d1 = [] := List.length_eq_zero_iff.mp hl.symm
    subst this
    have hstep : sampleLoop true minP (n :: s2) (d :: d2) acc
        = sampleLoop true minP s2 d2 (tensor2 acc (lift1 (d.kernel minP n))) := by
      cases d <;> simp [sampleLoop]
    simp only [List.nil_append]
    rw [hstep, hk]
    have : lift1 ([] : Dist ℕ K) = [] := rfl
    rw [this, tensor2_nil_right]
  | cons a s1 ih =>
    cases d1 with
    | nil => simp at hl
    | cons e d1 =>
      have hstep : sampleLoop true minP (a :: (s1 ++ n :: s2)) (e :: (d1 ++ d :: d2)) acc
          = sampleLoop true minP (s1 ++ n :: s2) (d1 ++ d :: d2) (tensor2 acc (lift1 (e.kernel minP a))) := by
        cases e <;> simp [sampleLoop]
      simp only [List.cons_append]
      rw [hstep]
      exact ih d1 (by simpa using hl) _

end quirk

section nonEmpty
variable {K : Type} [Field K] [LinearOrder K] [IsStrictOrderedRing K]

theorem t2inner_ne_nil_of_b (x : List ℕ × K) (hx : 0 ≤ x.2) (b : Dist (List ℕ) K) (hb : Nonneg b)
    (hne : b ≠ []) (acc : Dist (List ℕ) K) : t2inner x b acc ≠ [] := by
  cases b with
  | nil => exact absurd rfl hne
  | cons y b =>
    have hy : 0 ≤ y.2 := hb y (by simp)
    rw [t2inner_cons, if_neg (not_lt.mpr (mul_nonneg hx hy))]
    exact t2inner_ne_nil_of_acc x b _ (bump_ne_nil _ _ _)

theorem tensor2_ne_nil (a b : Dist (List ℕ) K) (ha : Nonneg a) (hb : Nonneg b) (hane : a ≠ []) (hbne : b ≠ []) :
    tensor2 a b ≠ [] := by
  have he : a.isEmpty = false := by cases a <;> simp_all
  rw [tensor2_eq]
  simp only [he, Bool.false_eq_true, if_false]
  cases a with
  | nil => exact absurd rfl hane
  | cons x a =>
    have hx : 0 ≤ x.2 := ha x (by simp)
    simp only [List.foldl_cons]
    have key : ∀ (l : Dist (List ℕ) K) (acc : Dist (List ℕ) K), acc ≠ [] →
        l.foldl (fun acc x => t2inner x b acc) acc ≠ [] := by
      intro l
      induction l with
      | nil => intro acc h; exact h
      | cons z l ih => intro acc h; exact ih _ (t2inner_ne_nil_of_acc z b acc h)
    exact key a _ (t2inner_ne_nil_of_b x hx b hb hbne [])

theorem lift1_ne_nil (k : Dist ℕ K) (h : k ≠ []) : lift1 k ≠ [] := by
  cases k with
  | nil => exact absurd rfl h
  | cons e k => simp [lift1]

theorem mass_lift1 (k : Dist ℕ K) : mass (lift1 k) = mass k := by
  simp [lift1, mass, List.map_map, Function.comp_def]

theorem nonneg_lift1 (k : Dist ℕ K) (h : Nonneg k) : Nonneg (lift1 k) := by
  intro e he
  simp only [lift1, List.mem_map] at he
  obtain ⟨x, hx, rfl⟩ := he
  exact h x hx

/-- **the sampling loop at ANY `min_p`, no per-mode result being empty**: the accumulated distribution is
non-empty, its weights are the mode-wise kernel product (kernels at that `min_p`), its mass the product of the
kernels' masses (`BSDistribution.sample` normalises by it) -/
theorem sampleLoop_spec_gen (minP : K) :
    ∀ (s : List ℕ) (ds : List (AnyDet K)), (∀ d ∈ ds, d.WF) → (∀ k ∈ kernels minP ds s, k ≠ []) →
      ∀ (fs : List (Dist ℕ K)) (acc : Dist (List ℕ) K),
        (fs = [] → acc = []) →
        (fs ≠ [] → Nonneg acc ∧ acc ≠ [] ∧ mass acc = (fs.map mass).prod ∧ ∀ t, wt acc t = kprod fs t) →
        fs ++ kernels minP ds s ≠ [] →
        ∃ r, sampleLoop true minP s ds acc = .ok r ∧ Nonneg r ∧ r ≠ [] ∧
          mass r = ((fs ++ kernels minP ds s).map mass).prod ∧
          ∀ t, wt r t = kprod (fs ++ kernels minP ds s) t := by
  intro s
  induction s with
  | nil =>
    intro ds _ _ fs acc _ h2 hne
    have hk : kernels minP ds [] = [] := by simp [kernels]
    rw [hk, List.append_nil] at hne ⊢
    obtain ⟨a1, a2, a3, a4⟩ := h2 hne
    exact ⟨acc, by simp [sampleLoop], a1, a2, a3, a4⟩
  | cons n s ih =>
    intro ds hwf hkne fs acc h1 h2 hne
    cases ds with
    | nil =>
      have hk : kernels minP [] (n :: s) = [] := by simp [kernels]
      rw [hk, List.append_nil] at hne ⊢
      obtain ⟨a1, a2, a3, a4⟩ := h2 hne
      exact ⟨acc, by simp [sampleLoop], a1, a2, a3, a4⟩
    | cons d ds =>
      have hk : kernels minP (d :: ds) (n :: s) = d.kernel minP n :: kernels minP ds s := rfl
      have hknn : Nonneg (d.kernel minP n) := kernel_nonneg minP d (hwf d (by simp)) n
      have hkn : d.kernel minP n ≠ [] := hkne _ (by rw [hk]; simp)
      have hstep : sampleLoop true minP (n :: s) (d :: ds) acc
          = sampleLoop true minP s ds (tensor2 acc (lift1 (d.kernel minP n))) := by
        cases d <;> simp [sampleLoop]
      have hl := nonneg_lift1 _ hknn
      have hacc' : Nonneg (tensor2 acc (lift1 (d.kernel minP n))) ∧
          tensor2 acc (lift1 (d.kernel minP n)) ≠ [] ∧
          mass (tensor2 acc (lift1 (d.kernel minP n))) = ((fs ++ [d.kernel minP n]).map mass).prod ∧
          ∀ t, wt (tensor2 acc (lift1 (d.kernel minP n))) t = kprod (fs ++ [d.kernel minP n]) t := by
        by_cases hfs : fs = []
        · have : acc = [] := h1 hfs
          subst this; subst hfs
          rw [tensor2_nil_left]
          exact ⟨hl, lift1_ne_nil _ hkn, by simp [mass_lift1], fun t => wt_lift _ t⟩
        · obtain ⟨a1, a2, a3, a4⟩ := h2 hfs
          obtain ⟨_, m2, m3⟩ := tensor2_spec acc (lift1 (d.kernel minP n)) a1 hl a2
          refine ⟨m3, tensor2_ne_nil _ _ a1 hl a2 (lift1_ne_nil _ hkn), ?_,
            fun t => tensor2_lift_wt acc fs _ a1 hknn a2 a4 t⟩
          rw [m2, a3, mass_lift1]
          simp
      have := ih ds (fun x hx => hwf x (by simp [hx])) (fun k hk' => hkne k (by rw [hk]; simp [hk']))
        (fs ++ [d.kernel minP n]) (tensor2 acc (lift1 (d.kernel minP n))) (by simp) (fun _ => hacc') (by simp)
      rw [hstep, hk]
      simpa [List.append_assoc] using this

/-- a per-mode result is a non-empty dictionary as soon as `min_p · (add calls behind it) < 1` -/
theorem kernel_ne_nil {minP : K} (d : AnyDet K) (hd : d.WF) (n : ℕ) (h : minP * (d.addCount n : K) < 1) :
    d.kernel minP n ≠ [] := by
  intro he
  rcases le_total minP 0 with hm | hm
  · have := (kernel_mass_one hm d hd n).1
    rw [he] at this
    simp at this
  · have := (kernel_mass_bounds hm d hd n).1
    rw [he, mass_nil] at this
    linarith [mul_comm minP (d.addCount n : K)]

theorem kernels_ne_nil_of_small {minP : K} (ds : List (AnyDet K)) (hwf : ∀ d ∈ ds, d.WF) (s : List ℕ)
    (h : ∀ p ∈ List.zip s ds, minP * (p.2.addCount p.1 : K) < 1) : ∀ k ∈ kernels minP ds s, k ≠ [] := by
  intro k hk
  unfold kernels at hk
  rw [List.mem_iff_getElem] at hk
  obtain ⟨i, hi, rfl⟩ := hk
  rw [List.getElem_zipWith]
  have hi' : i < (List.zip s ds).length := by simpa [List.length_zipWith] using hi
  have hz : (s[i]'(by simp only [List.length_zipWith] at hi; omega), ds[i]'(by
      simp only [List.length_zipWith] at hi; omega)) ∈ List.zip s ds := by
    have := List.getElem_mem hi'
    rwa [List.getElem_zip] at this
  exact kernel_ne_nil _ (hwf _ (List.getElem_mem _)) _ (h _ hz)

/-! #### which per-mode results can be empty -/

theorem addP_eq_nil_iff {σ : Type} [DecidableEq σ] (minP : K) (d : Dist σ K) (k : σ) (p : K) :
    addP minP d k p = [] ↔ d = [] ∧ ¬ minP < p := by
  unfold addP
  split
  · next h => simp [bump_ne_nil, h]
  · next h => simp [h]

theorem detectLoop_eq_nil_iff (w n : ℕ) (minP : K) (is : List ℕ) (acc : Dist ℕ K × K) :
    (detectLoop w n minP is acc).1 = [] ↔ acc.1 = [] ∧ ∀ i ∈ is, ¬ minP < condProb w i n := by
  unfold detectLoop
  induction is generalizing acc with
  | nil => simp
  | cons i is ih =>
    simp only [List.foldl_cons]
    rw [ih, addP_eq_nil_iff]
    simp only [List.mem_cons, forall_eq_or_imp]
    tauto

/-- the dictionary built by the loop branch of `Detector.detect` is empty exactly when `add` dropped every entry:
all `_cond_probability(i, n)` for `1 ≤ i < max_detectable` AND the remainder are `≤ min_p` -/
theorem detectWired_eq_nil_iff (w mx : ℕ) (minP : K) (n : ℕ) :
    detectWired w mx minP n = [] ↔
      (∀ i ∈ List.range' 1 (min mx n - 1), condProb w i n ≤ minP) ∧
        (detectLoop w n minP (List.range' 1 (min mx n - 1)) ([], 1)).2 ≤ minP := by
  unfold detectWired
  simp only []
  rw [addP_eq_nil_iff, detectLoop_eq_nil_iff]
  simp only [true_and, not_lt]

theorem aggregate_eq_nil_iff (d : Dist (List ℕ) K) : aggregate d = [] ↔ d = [] := by
  constructor
  · intro h
    cases d with
    | nil => rfl
    | cons e d =>
      exfalso
      unfold aggregate at h
      simp only [List.foldl_cons] at h
      have key : ∀ (l : Dist (List ℕ) K) (out : Dist ℕ K), out ≠ [] →
          l.foldl (fun out e => bump out (clicks e.1) e.2) out ≠ [] := by
        intro l
        induction l with
        | nil => intro out ho; exact ho
        | cons x l ih => intro out _; exact ih _ (bump_ne_nil _ _ _)
      exact key d _ (bump_ne_nil _ _ _) h
  · intro h; subst h; rfl

/-- an empty dictionary can only come from an interleaved detector with at least two wires, or from a
beam-splitter tree, hit by at least two photons: when `add` dropped every entry (every leaf state, for the tree) -/
theorem kernel_eq_nil_iff (minP : K) (d : AnyDet K) (n : ℕ) :
    d.kernel minP n = [] ↔
      (∃ w mx, d = .det (.wired w mx) ∧ 2 ≤ n ∧ w ≠ 1 ∧ detectWired w mx minP n = []) ∨
      (∃ L r, d = .bs L r ∧ 2 ≤ n ∧ ∀ e ∈ treeOcc r L n, e.2 ≤ minP) := by
  cases d with
  | none => simp [AnyDet.kernel, AnyDet.detect, DetOut.toDist]
  | det d =>
    cases d with
    | pnr => simp [AnyDet.kernel, AnyDet.detect, Det.detect, Det.type, DetOut.toDist]
    | wired w mx =>
      by_cases hs : n < 2 ∨ w = 1
      · simp only [AnyDet.kernel, AnyDet.detect]
        rw [detect_wired_small w mx minP hs]
        constructor
        · intro h; simp [DetOut.toDist] at h
        · rintro (⟨w', mx', he, h2, h3, _⟩ | ⟨L, r, he, _⟩)
          · cases he
            rcases hs with hs | hs
            · omega
            · exact absurd hs h3
          · cases he
      · have hn : 2 ≤ n := by omega
        have hw1 : w ≠ 1 := fun h => hs (Or.inr h)
        simp only [AnyDet.kernel, AnyDet.detect]
        rw [detect_wired_big w mx minP hn hw1]
        simp only [DetOut.toDist]
        constructor
        · intro h; exact Or.inl ⟨w, mx, rfl, hn, hw1, h⟩
        · rintro (⟨w', mx', he, _, _, h⟩ | ⟨L, r, he, _⟩)
          · cases he; exact h
          · cases he
  | bs L r =>
    by_cases hn : n < 2
    · simp only [AnyDet.kernel, AnyDet.detect, bsDetectP, if_pos hn, DetOut.toDist]
      constructor
      · intro h; simp at h
      · rintro (⟨_, _, he, _⟩ | ⟨L', r', he, h2, _⟩)
        · cases he
        · omega
    · simp only [AnyDet.kernel, AnyDet.detect, bsDetectP, if_neg hn, DetOut.toDist]
      rw [aggregate_eq_nil_iff, treeOccP, List.filter_eq_nil_iff]
      constructor
      · intro h
        exact Or.inr ⟨L, r, rfl, by omega, fun e he => not_lt.mp (by simpa using h e he)⟩
      · rintro (⟨_, _, he, _⟩ | ⟨L', r', he, _, h⟩)
        · cases he
        · cases he
          intro e he'
          simpa using h e he'

end nonEmpty

end PM.C08
