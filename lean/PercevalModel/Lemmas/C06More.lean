/-
  C06 — the filtered event table as a conditional law of the categorical counts: `phys_perf` is the
  probability that the draws deliver at least `f` photons, every entry of the filtered table is the
  conditional probability of its event.
-/
import PercevalModel.Lemmas.C06Cat
import PercevalModel.Lemmas.C06Loss
set_option linter.unusedSimpArgs false
namespace PM.C06


section
variable {α β : Type}

theorem E_add (g h : α → ℚ) (d : Dist α) : E (fun x => g x + h x) d = E g d + E h d := by
  induction d with
  | nil => simp
  | cons e d ih => simp only [E_cons, ih]; ring

theorem E_lt_sum (c : α → ℕ) (d : Dist α) (f : ℕ) :
    E (fun x => if c x < f then 1 else 0) d =
      ∑ k ∈ Finset.range f, E (fun x => if c x = k then 1 else 0) d := by
  induction f with
  | zero => simp [E]
  | succ f ih =>
    rw [Finset.sum_range_succ, ← ih, ← E_add]
    apply E_congr
    intro x
    by_cases h1 : c x < f
    · have : c x ≠ f := by omega
      have h2 : c x < f + 1 := by omega
      simp [h1, h2, this]
    · by_cases h2 : c x = f
      · simp [h2]
      · have h3 : ¬ c x < f + 1 := by omega
        simp [h1, h2, h3]

/-- equal count laws and equal masses ⇒ equal tail probabilities -/
theorem massP_ge_of_points (c : α → ℕ) (d : Dist α) (c' : β → ℕ) (d' : Dist β)
    (hm : mass d = mass d')
    (h : ∀ k, massP (fun x => decide (c x = k)) d = massP (fun x => decide (c' x = k)) d') (f : ℕ) :
    massP (fun x => decide (f ≤ c x)) d = massP (fun x => decide (f ≤ c' x)) d' := by
  have e1 : massP (fun x => decide (f ≤ c x)) d =
      mass d - E (fun x => if c x < f then 1 else 0) d := by
    rw [← E_sub_one, massP]
    apply E_congr
    intro x
    by_cases h1 : c x < f
    · have : ¬ f ≤ c x := by omega
      simp [h1, this]
    · have : f ≤ c x := by omega
      simp [h1, this]
  have e2 : massP (fun x => decide (f ≤ c' x)) d' =
      mass d' - E (fun x => if c' x < f then 1 else 0) d' := by
    rw [← E_sub_one, massP]
    apply E_congr
    intro x
    by_cases h1 : c' x < f
    · have : ¬ f ≤ c' x := by omega
      simp [h1, this]
    · have : f ≤ c' x := by omega
      simp [h1, this]
  rw [e1, e2, hm, E_lt_sum, E_lt_sum]
  congr 1
  refine Finset.sum_congr rfl fun k _ => ?_
  have := h k
  simpa [massP] using this
end

/-- the physical performance of the filter is the probability that the categorical draws deliver at least
`f` photons -/
theorem physPerf_eq_cat (P : Params) (n f : ℕ) :
    physPerf P n f =
      massP (fun l => decide (f ≤ evPhotons (catCounts l))) (iid (catDist P) n) := by
  have hcount : ∀ k, massP (fun e => decide (evPhotons e = k)) (table P n 0) =
      massP (fun l => decide (evPhotons (catCounts l) = k)) (iid (catDist P) n) := by
    intro k
    refine law_of_gf_count evPhotons _ (fun l => evPhotons (catCounts l)) _ (fun y => ?_) k
    have h := E_iid_cat P y y (y ^ 2) n
    rw [E_congr (g' := fun l => y ^ evPhotons (catCounts l))
      (fun l => by simp only [evPhotons, pow_add, pow_mul])] at h
    rw [h]
    have h2 := E_tableRawOf_weight (pSignal P) (pG2 P) (pDuo P) (pNone P) y y (y ^ 2) n
    rw [E_congr (g' := fun e : ℕ × ℕ × ℕ => y ^ evPhotons e)
      (fun e => by simp only [evPhotons, pow_add, pow_mul])] at h2
    simp only [table, if_true, tableRaw]
    rw [h2]
  have hmass : mass (table P n 0) = mass (iid (catDist P) n) := by
    rw [mass_iid, catDist_mass, one_pow]
    have := E_tableRawOf_weight (pSignal P) (pG2 P) (pDuo P) (pNone P) 1 1 1 n
    simp only [one_pow, mul_one] at this
    simp only [table, if_true, tableRaw]
    rw [mass_eq_E, this]
    unfold pNone
    ring_nf
  rw [← massP_ge_of_points evPhotons (table P n 0) _ _ hmass hcount f]
  have h1 : tableRaw P n f = (table P n 0).filter (fun e => decide (f ≤ evPhotons e.1)) := by
    simp only [table, if_true, tableRaw]
    exact tableRawOf_filter _ _ _ _ n f
  rw [physPerf, h1, mass_eq_E, massP]
  generalize table P n 0 = d
  induction d with
  | nil => simp
  | cons e d ih =>
    by_cases h : f ≤ evPhotons e.1 <;> simp [List.filter_cons, h, ih]

/-- every entry of the filtered table is the conditional probability of its event given the filter -/
theorem table_filtered_entry (P : Params) (n f : ℕ) (hf : f ≠ 0) :
    ∀ e ∈ table P n f, f ≤ evPhotons e.1 ∧
      e.2 = massP (fun l => decide (catCounts l = e.1)) (iid (catDist P) n) /
        massP (fun l => decide (f ≤ evPhotons (catCounts l))) (iid (catDist P) n) := by
  intro e he
  rw [← physPerf_eq_cat]
  simp only [table, hf, if_false, List.mem_map] at he
  obtain ⟨e', he', rfl⟩ := he
  have h1 : tableRaw P n f = (table P n 0).filter (fun e => decide (f ≤ evPhotons e.1)) := by
    simp only [table, if_true, tableRaw]
    exact tableRawOf_filter _ _ _ _ n f
  rw [h1, List.mem_filter] at he'
  have hk : ((table P n 0).map Prod.fst).Nodup := by
    simp only [table, if_true, tableRaw]
    exact tableRawOf_keys_nodup _ _ _ _ n 0
  refine ⟨by simpa using he'.2, ?_⟩
  simp only
  rw [← massP_key_of_nodup (table P n 0) hk e' he'.1]
  obtain ⟨i, j, k⟩ := e'.1
  rw [table_eq_cat_counts P n i j k]

end PM.C06
