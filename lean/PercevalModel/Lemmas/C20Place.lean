/-
  C20 — a catalog gate placed in a larger processor: from the gate's own layout to the processor's layout.

  `Placement Lg L`: the modes of the gate layout `Lg` are sent to modes of the processor layout `L` (by `φ`, not
  necessarily contiguous or monotone) so that every gate qubit sits rail by rail on a qubit of `L` (`sel` says
  which) and every gate herald on a herald of `L` with the same value.  `PM.place P.g B` is the gate matrix `B`
  on those modes, identity elsewhere (what `_compute_circuit_unitary` builds).

  * `restr_encode`: an encoded logical state of `L`, restricted to the gate's modes, is the encoded state of the
    gate layout for the selected bits.
  * `gateAmp_place`: the logical amplitude of the placed gate is the amplitude of the gate alone between the
    selected bits when all the other modes agree, zero otherwise (`C20Lift.pamp_place`).
  * `noLeak_place`: a heralded gate (zero leakage on its own layout) is heralded in the processor.
-/
import PercevalModel.Lemmas.C20Lift
import PercevalModel.Lemmas.C20Gates

open Matrix

namespace PM.C20
open PM.Fock PM.SimSpec

variable {R : Type*}

structure Placement (Lg L : Layout) where
  φ : ℕ → ℕ
  g : Fin L.m → Option (Fin Lg.m)
  sel : List ℕ
  φ_lt : ∀ a, a < Lg.m → φ a < L.m
  inv : Function.IsPartialInv (fun a : Fin Lg.m => (⟨φ a.val, φ_lt a.val a.isLt⟩ : Fin L.m)) g
  sel_length : sel.length = Lg.qubits.length
  sel_lt : ∀ j ∈ sel, j < L.qubits.length
  qubit : ∀ i, i < Lg.qubits.length →
    φ (Lg.qubits.getD i 0) = L.qubits.getD (sel.getD i 0) 0 ∧
    φ (Lg.qubits.getD i 0 + 1) = L.qubits.getD (sel.getD i 0) 0 + 1
  herald : ∀ h ∈ Lg.heralds, (φ h.1, h.2) ∈ L.heralds

namespace Placement
variable {Lg L : Layout} (P : Placement Lg L)

/-- the map on modes -/
def f : Fin Lg.m → Fin L.m := fun a => ⟨P.φ a.val, P.φ_lt a.val a.isLt⟩

/-- the bits of the qubits the gate acts on -/
def bits (b : List Bool) : List Bool := P.sel.map fun j => b.getD j false

theorem bits_length (b : List Bool) : (P.bits b).length = Lg.qubits.length := by
  rw [bits, List.length_map, P.sel_length]

end Placement

theorem getD_eq_getElem_nat (l : List ℕ) (i : ℕ) (h : i < l.length) : l.getD i 0 = l[i] := by
  rw [List.getD_eq_getElem?_getD, List.getElem?_eq_getElem h, Option.getD_some]

theorem getD_eq_getElem_bool (l : List Bool) (i : ℕ) (h : i < l.length) : l.getD i false = l[i] := by
  rw [List.getD_eq_getElem?_getD, List.getElem?_eq_getElem h, Option.getD_some]

/-- value of an encoded state on the two rails of its `i`-th qubit -/
theorem encode_getD_qubit (L : Layout) (hok : L.ok = true) (b : List Bool) (hb : b.length = L.qubits.length)
    (i : ℕ) (hi : i < L.qubits.length) (c : Bool) :
    (encode L b).getD (rail (L.qubits.getD i 0) c) 0 = if c = b.getD i false then 1 else 0 := by
  have hi' : i < b.length := by omega
  have hz := zip_getElem_mem L.qubits b i hi hi'
  rw [getD_eq_getElem_nat _ _ hi, getD_eq_getElem_bool _ _ hi']
  by_cases hc : c = b[i]
  · rw [if_pos hc, hc]
    exact encode_getD_rail L hok b _ _ hz
  · rw [if_neg hc]
    have : c = !b[i] := by cases c <;> cases hbi : b[i] <;> simp_all
    rw [this]
    exact encode_getD_rail_other L hok b _ _ hz

/-- **restriction of an encoded state to the gate's modes** -/
theorem restr_encode {Lg L : Layout} (P : Placement Lg L) (hokg : Lg.ok = true) (hok : L.ok = true)
    (b : List Bool) (hb : b.length = L.qubits.length) :
    restr P.f (encode L b) = encode Lg (P.bits b) := by
  apply List.ext_getElem
  · rw [restr_length, encode_length]
  · intro a h1 h2
    rw [restr_length] at h1
    have hL : (restr P.f (encode L b))[a] = (encode L b).getD (P.φ a) 0 := by
      have := restr_getD P.f (encode L b) ⟨a, h1⟩
      rw [getD_eq_getElem_nat _ _ (by rw [restr_length]; exact h1)] at this
      exact this
    have hR : (encode Lg (P.bits b))[a] = (encode Lg (P.bits b)).getD a 0 :=
      (getD_eq_getElem_nat _ _ h2).symm
    rw [hL, hR]
    have hu := mem_used_of_lt Lg hokg a h1
    unfold used at hu
    rcases List.mem_append.1 hu with hq | hh
    · obtain ⟨p, hp, hap⟩ := List.mem_flatMap.1 hq
      obtain ⟨i, hi, rfl⟩ := List.mem_iff_getElem.1 hp
      have hsel : P.sel.getD i 0 < L.qubits.length := by
        apply P.sel_lt
        rw [getD_eq_getElem_nat _ _ (by rw [P.sel_length]; exact hi)]
        exact List.getElem_mem _
      have hbit : (P.bits b).getD i false = b.getD (P.sel.getD i 0) false := by
        have hi2 : i < (P.bits b).length := by rw [P.bits_length]; exact hi
        rw [getD_eq_getElem_bool _ _ hi2]
        simp only [Placement.bits, List.getElem_map]
        rw [getD_eq_getElem_nat _ _ (by rw [P.sel_length]; exact hi)]
      obtain ⟨hφ0, hφ1⟩ := P.qubit i hi
      rw [getD_eq_getElem_nat _ _ hi] at hφ0 hφ1
      have key : ∀ c : Bool, (encode L b).getD (P.φ (rail (Lg.qubits[i]) c)) 0 =
          (encode Lg (P.bits b)).getD (rail (Lg.qubits[i]) c) 0 := by
        intro c
        have e1 := encode_getD_qubit Lg hokg (P.bits b) (P.bits_length b) i hi c
        rw [getD_eq_getElem_nat _ _ hi] at e1
        have e2 := encode_getD_qubit L hok b hb (P.sel.getD i 0) hsel c
        rw [e1, hbit, ← e2]
        congr 1
        cases c
        · exact hφ0
        · exact hφ1
      rcases List.mem_cons.1 hap with rfl | hap'
      · exact key false
      · rw [List.mem_singleton] at hap'
        subst hap'
        exact key true
    · obtain ⟨h, hh', rfl⟩ := List.mem_map.1 hh
      rw [encode_getD_herald Lg hokg _ h hh']
      exact encode_getD_herald L hok b (P.φ h.1, h.2) (P.herald h hh')

/-- the un-normalised amplitude of the identity on the spectator modes of a logical state -/
def spectFact {Lg L : Layout} (P : Placement Lg L) (b : List Bool) : ℕ :=
  ∏ j : Fin L.m with P.g j = none, ((encode L b).getD j.val 0).factorial

/-- **logical amplitudes of a placed gate**: the amplitude of the gate alone between the selected bits when
all spectator modes agree, zero otherwise -/
theorem gateAmp_place [CommRing R] {Lg L : Layout} (P : Placement Lg L) (hokg : Lg.ok = true)
    (hok : L.ok = true) (B : Matrix (Fin Lg.m) (Fin Lg.m) R) (ps : PS) (bo bi : List Bool)
    (hbo : bo.length = L.qubits.length) (hbi : bi.length = L.qubits.length) :
    gateAmp (PM.place P.g B) L ps bo bi =
      if ps.eval (encode L bo) = true then
        if ∀ j : Fin L.m, P.g j = none → (encode L bo).getD j.val 0 = (encode L bi).getD j.val 0 then
          (spectFact P bi : R) * gateAmp B Lg PS.tt (P.bits bo) (P.bits bi)
        else 0
      else 0 := by
  unfold gateAmp
  by_cases hps : ps.eval (encode L bo) = true
  · rw [if_pos hps, if_pos hps]
    have := pamp_place P.f P.g P.inv B (encode L bi) (encode L bo) (encode_length L bi) (encode_length L bo)
    rw [this]
    simp only [PS.eval, if_true]
    have e1 := restr_encode P hokg hok bi hbi
    have e2 := restr_encode P hokg hok bo hbo
    unfold restr at e1 e2
    rw [e1, e2]
    rfl
  · rw [if_neg hps, if_neg hps]

/-- herald values `0`/`1`: every mode of an encoded state holds at most one photon, so there is no factorial -/
theorem encode_getD_le_one (L : Layout) (hok : L.ok = true) (hh : ∀ p ∈ L.heralds, p.2 ≤ 1) (b : List Bool)
    (hb : b.length = L.qubits.length) (j : ℕ) : (encode L b).getD j 0 ≤ 1 := by
  by_cases hj : j < L.m
  · have hu := mem_used_of_lt L hok j hj
    unfold used at hu
    rcases List.mem_append.1 hu with hq | hhd
    · obtain ⟨p, hp, hjp⟩ := List.mem_flatMap.1 hq
      obtain ⟨i, hi, rfl⟩ := List.mem_iff_getElem.1 hp
      have key : ∀ c : Bool, (encode L b).getD (rail (L.qubits[i]) c) 0 ≤ 1 := by
        intro c
        have := encode_getD_qubit L hok b hb i hi c
        rw [getD_eq_getElem_nat _ _ hi] at this
        rw [this]
        split_ifs <;> omega
      rcases List.mem_cons.1 hjp with rfl | hjp'
      · exact key false
      · rw [List.mem_singleton] at hjp'
        subst hjp'
        exact key true
    · obtain ⟨h, hh', rfl⟩ := List.mem_map.1 hhd
      rw [encode_getD_herald L hok b h hh']
      exact hh h hh'
  · rw [List.getD_eq_default _ _ (by rw [encode_length]; omega)]
    omega

theorem spectFact_eq_one {Lg L : Layout} (P : Placement Lg L) (hok : L.ok = true)
    (hh : ∀ p ∈ L.heralds, p.2 ≤ 1) (b : List Bool) (hb : b.length = L.qubits.length) :
    spectFact P b = 1 := by
  unfold spectFact
  apply Finset.prod_eq_one
  intro j _
  rcases Nat.le_one_iff_eq_zero_or_eq_one.1 (encode_getD_le_one L hok hh b hb j.val) with h0 | h0 <;>
    rw [h0] <;> rfl

/-- **a gate implementation placed in a processor**: if the gate alone has the logical amplitudes `c · G` on
its own layout, the placed gate has the amplitudes `c · (G on the selected qubits ⊗ identity on the rest)` -/
theorem implements_place [CommRing R] {Lg L : Layout} (P : Placement Lg L) (hokg : Lg.ok = true)
    (hok : L.ok = true) (hh : ∀ p ∈ L.heralds, p.2 ≤ 1) (B : Matrix (Fin Lg.m) (Fin Lg.m) R)
    (G : List Bool → List Bool → R) (c : R)
    (hB : ∀ bo bi : List Bool, bo.length = Lg.qubits.length → bi.length = Lg.qubits.length →
      gateAmp B Lg PS.tt bo bi = c * G bo bi)
    (ps : PS) (bo bi : List Bool) (hbo : bo.length = L.qubits.length) (hbi : bi.length = L.qubits.length) :
    gateAmp (PM.place P.g B) L ps bo bi =
      c * (if ps.eval (encode L bo) = true ∧
              ∀ j : Fin L.m, P.g j = none → (encode L bo).getD j.val 0 = (encode L bi).getD j.val 0
            then G (P.bits bo) (P.bits bi) else 0) := by
  rw [gateAmp_place P hokg hok B ps bo bi hbo hbi]
  by_cases hps : ps.eval (encode L bo) = true
  · rw [if_pos hps]
    by_cases hsp : ∀ j : Fin L.m, P.g j = none →
        (encode L bo).getD j.val 0 = (encode L bi).getD j.val 0
    · rw [if_pos hsp, if_pos ⟨hps, hsp⟩, spectFact_eq_one P hok hh bi hbi, Nat.cast_one, one_mul,
        hB _ _ (P.bits_length bo) (P.bits_length bi)]
    · rw [if_neg hsp, if_neg (fun h => hsp h.2), mul_zero]
  · rw [if_neg hps, if_neg (fun h => hps h.1), mul_zero]

/-! ### a heralded gate stays heralded in the processor -/

/-- the dual-rail pairs of a sane layout do not overlap -/
theorem rail_inj (L : Layout) (hok : L.ok = true) (p p' : ℕ) (hp : p ∈ L.qubits) (hp' : p' ∈ L.qubits)
    (c c' : Bool) (h : rail p c = rail p' c') : p = p' := by
  have hn := ((ok_iff L).1 hok).2.1
  unfold used at hn
  have hq := (List.nodup_append.1 hn).1
  rw [List.nodup_flatMap] at hq
  by_contra hne
  have : Std.Symm (Function.onFun List.Disjoint fun p : ℕ => [p, p + 1]) :=
    ⟨fun _ _ hab => List.Disjoint.symm hab⟩
  have hdis := hq.2.forall hp hp' hne
  exact hdis (rail_mem_pair p c) (h ▸ rail_mem_pair p' c')

/-- a rail of a qubit is not a herald mode -/
theorem rail_not_herald (L : Layout) (hok : L.ok = true) (p : ℕ) (hp : p ∈ L.qubits) (c : Bool)
    (h : ℕ × ℕ) (hh : h ∈ L.heralds) : rail p c ≠ h.1 := by
  have hn := ((ok_iff L).1 hok).2.1
  unfold used at hn
  obtain ⟨_, _, hdisj⟩ := List.nodup_append.1 hn
  exact hdisj _ (List.mem_flatMap.2 ⟨p, hp, rail_mem_pair p c⟩) _ (List.mem_map_of_mem hh)

theorem noLeak_place [CommRing R] {Lg L : Layout} (P : Placement Lg L) (hokg : Lg.ok = true)
    (hok : L.ok = true) (B : Matrix (Fin Lg.m) (Fin Lg.m) R) (hB : NoLeak Lg B) :
    NoLeak L (PM.place P.g B) := by
  intro bi hbi u hul huok hulog
  rw [pamp_place P.f P.g P.inv B (encode L bi) u (encode_length L bi) hul]
  split_ifs with hsp
  · have e1 := restr_encode P hokg hok bi hbi
    unfold restr at e1
    rw [e1]
    change _ * pamp B _ (restr P.f u) = 0
    have hlt : ∀ a ∈ used Lg, a < Lg.m := ((ok_iff Lg).1 hokg).1
    have hval : ∀ a (ha : a < Lg.m), (restr P.f u).getD a 0 = u.getD (P.φ a) 0 :=
      fun a ha => restr_getD P.f u ⟨a, ha⟩
    rw [hB (P.bits bi) (P.bits_length bi) (restr P.f u) (restr_length _ _), mul_zero]
    · -- heralds of the gate
      rw [heraldsOk_iff] at huok ⊢
      intro h hh
      have ha : h.1 < Lg.m := hlt _ (List.mem_append_right _ (List.mem_map_of_mem hh))
      rw [hval _ ha]
      exact huok (P.φ h.1, h.2) (P.herald h hh)
    · -- not logical on the gate layout, because not logical on the processor layout
      by_contra hlg
      have hlg' : isLogical Lg (restr P.f u) = true := by simpa using hlg
      have hgl : ∀ p ∈ Lg.qubits, (restr P.f u).getD p 0 + (restr P.f u).getD (p + 1) 0 = 1 := by
        unfold isLogical pairCounts at hlg'
        rw [List.all_eq_true] at hlg'
        intro p hp
        exact beq_iff_eq.1 (hlg' _ (List.mem_map_of_mem hp))
      have hall : isLogical L u = true := by
        unfold isLogical pairCounts
        rw [List.all_eq_true]
        intro x hx
        obtain ⟨q, hq, rfl⟩ := List.mem_map.1 hx
        rw [beq_iff_eq]
        obtain ⟨β, hβ⟩ := exists_mem_zip L.qubits bi hbi q hq
        have hpair := encode_pair L hok bi q β hβ
        have hqm : q + 1 < L.m := ((ok_iff L).1 hok).1 _
          (List.mem_append_left _ (List.mem_flatMap.2 ⟨q, hq, by simp⟩))
        by_cases hs0 : P.g ⟨q, by omega⟩ = none ∧ P.g ⟨q + 1, hqm⟩ = none
        · have h0 := hsp ⟨q, by omega⟩ hs0.1
          have h1 := hsp ⟨q + 1, hqm⟩ hs0.2
          simp only at h0 h1
          rw [h0, h1]
          exact hpair
        · -- one of the rails is a mode of the gate
          have hex : ∃ (c : Bool) (a : Fin Lg.m), P.φ a.val = rail q c := by
            by_contra hcon
            apply hs0
            constructor
            · cases hg : P.g ⟨q, by omega⟩ with
              | none => rfl
              | some a =>
                exact absurd ⟨false, a, congrArg Fin.val ((P.inv a _).1 hg)⟩ hcon
            · cases hg : P.g ⟨q + 1, hqm⟩ with
              | none => rfl
              | some a =>
                exact absurd ⟨true, a, congrArg Fin.val ((P.inv a _).1 hg)⟩ hcon
          obtain ⟨c, a, ha⟩ := hex
          have hu := mem_used_of_lt Lg hokg a.val a.isLt
          unfold used at hu
          rcases List.mem_append.1 hu with hqa | hha
          · obtain ⟨p, hp, hap⟩ := List.mem_flatMap.1 hqa
            obtain ⟨i, hi, rfl⟩ := List.mem_iff_getElem.1 hp
            obtain ⟨hφ0, hφ1⟩ := P.qubit i hi
            rw [getD_eq_getElem_nat _ _ hi] at hφ0 hφ1
            have hsel : P.sel.getD i 0 < L.qubits.length := by
              apply P.sel_lt
              rw [getD_eq_getElem_nat _ _ (by rw [P.sel_length]; exact hi)]
              exact List.getElem_mem _
            have hq' : L.qubits.getD (P.sel.getD i 0) 0 ∈ L.qubits := by
              rw [getD_eq_getElem_nat _ _ hsel]; exact List.getElem_mem _
            have hqq : L.qubits.getD (P.sel.getD i 0) 0 = q := by
              rcases List.mem_cons.1 hap with h0 | h1
              · exact rail_inj L hok _ _ hq' hq false c (by rw [rail_false, ← hφ0, ← h0, ha])
              · rw [List.mem_singleton] at h1
                exact rail_inj L hok _ _ hq' hq true c (by rw [rail_true, ← hφ1, ← h1, ha])
            have hp1 : Lg.qubits[i] + 1 < Lg.m :=
              hlt _ (List.mem_append_left _ (List.mem_flatMap.2 ⟨_, hp, by simp⟩))
            have := hgl _ hp
            rw [hval _ (by omega), hval _ hp1, hφ0, hφ1, hqq] at this
            exact this
          · obtain ⟨h, hh', hh1⟩ := List.mem_map.1 hha
            exact absurd (by rw [← ha, ← hh1]) (rail_not_herald L hok q hq c _ (P.herald h hh'))
      rw [hall] at hulog
      exact absurd hulog (by simp)
  · rfl

/-- the placed gate is the identity outside the image of the placement -/
theorem localOn_placement [CommRing R] {Lg L : Layout} (P : Placement Lg L)
    (B : Matrix (Fin Lg.m) (Fin Lg.m) R) :
    LocalOn (List.ofFn fun a : Fin Lg.m => (P.f a).val) (PM.place P.g B) :=
  localOn_place P.f P.g P.inv B

/-! ### the post-processed CNOT / CZ placed anywhere in a processor -/

/-- a two-qubit gate given by its entries, as a function of the bit lists -/
def twoQubit (G : Bool → Bool → Bool → Bool → R) [Zero R] : List Bool → List Bool → R
  | [a, b], [c, d] => G a b c d
  | _, _ => 0

theorem gateAmp_ps_logical [CommRing R] {m : ℕ} (U : Matrix (Fin m) (Fin m) R) (L : Layout) (ps : PS)
    (bo bi : List Bool) (h : ps.eval (encode L bo) = true) :
    gateAmp U L ps bo bi = gateAmp U L PS.tt bo bi := by
  simp only [gateAmp, h, if_true, PS.eval]

theorem ppPS_logical (a b : Bool) : ppPS.eval (encode ppLayout [a, b]) = true := by
  cases a <;> cases b <;> decide

theorem ppcnot_amp_tt [CommRing R] (r h : R) (bo bi : List Bool) (hbo : bo.length = 2) (hbi : bi.length = 2) :
    gateAmp (ppcnotMatrix r h) ppLayout PS.tt bo bi = r * r * twoQubit cnotEntry bo bi := by
  match bo, hbo, bi, hbi with
  | [a, b], _, [c, d], _ =>
    rw [← gateAmp_ps_logical _ _ ppPS _ _ (ppPS_logical a b)]
    exact ppcnot_amp r h a b c d

theorem ppcz_amp_tt [CommRing R] (r h : R) (hh : 2 * h * h = 1) (bo bi : List Bool) (hbo : bo.length = 2)
    (hbi : bi.length = 2) :
    gateAmp (ppczMatrix r h) ppLayout PS.tt bo bi = r * r * twoQubit czEntry bo bi := by
  match bo, hbo, bi, hbi with
  | [a, b], _, [c, d], _ =>
    rw [← gateAmp_ps_logical _ _ ppPS _ _ (ppPS_logical a b)]
    exact ppcz_amp r h hh a b c d

/-- **the post-processed CNOT on any two qubits of any processor layout** (herald values `0/1`): its logical
amplitudes are `r² = 1/3` times CNOT on the selected qubits (control `sel[0]`, data `sel[1]`), identity on the
other qubits, for the outputs the processor's post-selection keeps -/
theorem postprocessed_cnot_placed [CommRing R] {L : Layout} (P : Placement ppLayout L) (hok : L.ok = true)
    (hh : ∀ p ∈ L.heralds, p.2 ≤ 1) (r h : R) (h2 : 2 * h * h = 1) (ps : PS) (bo bi : List Bool)
    (hbo : bo.length = L.qubits.length) (hbi : bi.length = L.qubits.length) :
    gateAmp (PM.place P.g (ppcnotCircuit r h)) L ps bo bi =
      r * r * (if ps.eval (encode L bo) = true ∧
              ∀ j : Fin L.m, P.g j = none → (encode L bo).getD j.val 0 = (encode L bi).getD j.val 0
            then twoQubit cnotEntry (P.bits bo) (P.bits bi) else 0) := by
  rw [ppcnotCircuit_eq r h h2]
  exact implements_place P (by decide) hok hh _ _ _ (fun bo bi hbo hbi => ppcnot_amp_tt r h bo bi hbo hbi)
    ps bo bi hbo hbi

theorem postprocessed_cz_placed [CommRing R] {L : Layout} (P : Placement ppLayout L) (hok : L.ok = true)
    (hh : ∀ p ∈ L.heralds, p.2 ≤ 1) (r h : R) (h2 : 2 * h * h = 1) (ps : PS) (bo bi : List Bool)
    (hbo : bo.length = L.qubits.length) (hbi : bi.length = L.qubits.length) :
    gateAmp (PM.place P.g (ppczCircuit r h)) L ps bo bi =
      r * r * (if ps.eval (encode L bo) = true ∧
              ∀ j : Fin L.m, P.g j = none → (encode L bo).getD j.val 0 = (encode L bi).getD j.val 0
            then twoQubit czEntry (P.bits bo) (P.bits bi) else 0) := by
  rw [ppczCircuit_eq r h]
  exact implements_place P (by decide) hok hh _ _ _ (fun bo bi hbo hbi => ppcz_amp_tt r h h2 bo bi hbo hbi)
    ps bo bi hbo hbi

/-! ### table form, and the bridge to `GateImpl` (circuits of heralded gates) -/

/-- the logical gate `G` (given on bit lists of the gate's qubits) acting on the selected qubits of the
processor, identity on the others: the table of the placed gate is `c •` this matrix -/
def placedGate [Zero R] {Lg L : Layout} (P : Placement Lg L) (G : List Bool → List Bool → R) :
    Matrix (Fin (basis L.qubits.length).length) (Fin (basis L.qubits.length).length) R :=
  fun i j =>
    if ∀ k : Fin L.m, P.g k = none →
        (encode L ((basis L.qubits.length).getD i.val [])).getD k.val 0 =
          (encode L ((basis L.qubits.length).getD j.val [])).getD k.val 0
    then G (P.bits ((basis L.qubits.length).getD i.val [])) (P.bits ((basis L.qubits.length).getD j.val []))
    else 0

theorem gateTable_place [CommRing R] {Lg L : Layout} (P : Placement Lg L) (hokg : Lg.ok = true)
    (hok : L.ok = true) (hh : ∀ p ∈ L.heralds, p.2 ≤ 1) (B : Matrix (Fin Lg.m) (Fin Lg.m) R)
    (G : List Bool → List Bool → R) (c : R)
    (hB : ∀ bo bi : List Bool, bo.length = Lg.qubits.length → bi.length = Lg.qubits.length →
      gateAmp B Lg PS.tt bo bi = c * G bo bi)
    (ps : PS) (hps : ∀ b : List Bool, b.length = L.qubits.length → ps.eval (encode L b) = true) :
    gateTable (PM.place P.g B) L ps = c • placedGate P G := by
  ext i j
  have hi := getD_basis_length _ i
  have hj := getD_basis_length _ j
  rw [Matrix.smul_apply, smul_eq_mul]
  simp only [gateTable, placedGate]
  rw [implements_place P hokg hok hh B G c hB ps _ _ hi hj]
  simp only [hps _ hi, true_and]

/-- **a heralded catalog gate placed in a processor is a `GateImpl`** that `heralded_circuit_implements`
accepts: local on the image of the placement, heralded, table `c • placedGate` -/
theorem gateImpl_place_ok [CommRing R] {Lg L : Layout} (P : Placement Lg L) (hokg : Lg.ok = true)
    (hok : L.ok = true) (hh : ∀ p ∈ L.heralds, p.2 ≤ 1) (B : Matrix (Fin Lg.m) (Fin Lg.m) R)
    (G : List Bool → List Bool → R) (c : R)
    (hB : ∀ bo bi : List Bool, bo.length = Lg.qubits.length → bi.length = Lg.qubits.length →
      gateAmp B Lg PS.tt bo bi = c * G bo bi)
    (hN : NoLeak Lg B)
    (ps : PS) (hps : ∀ b : List Bool, b.length = L.qubits.length → ps.eval (encode L b) = true) :
    (⟨List.ofFn fun a : Fin Lg.m => (P.f a).val, PM.place P.g B, placedGate P G, c⟩ : GateImpl L R).Ok ps :=
  ⟨localOn_placement P B, noLeak_place P hokg hok B hN, gateTable_place P hokg hok hh B G c hB ps hps⟩

/-! ### non-vacuity: the post-processed CNOT with control on qubit 2 and data on qubit 0 of a 3-qubit
processor (non-adjacent, reversed), its heralds on modes 6, 7 -/

def exL : Layout := ⟨8, [0, 2, 4], [(6, 0), (7, 0)]⟩

def exPlacement : Placement ⟨6, [0, 2], [(4, 0), (5, 0)]⟩ ⟨8, [0, 2, 4], [(6, 0), (7, 0)]⟩ where
  φ := fun a => [4, 5, 0, 1, 6, 7].getD a 0
  g := (![some 2, some 3, none, none, some 0, some 1, some 4, some 5] : Fin 8 → Option (Fin 6))
  sel := [2, 0]
  φ_lt := by decide
  inv := by
    unfold Function.IsPartialInv
    change ∀ (x : Fin 6) (y : Fin 8), _
    decide
  sel_length := rfl
  sel_lt := by decide
  qubit := by decide
  herald := by decide

/-- the same, typed with the named layouts -/
def exPlacement' : Placement ppLayout exL := exPlacement

example : exL.ok = true ∧ (∀ p ∈ exL.heralds, p.2 ≤ 1) ∧ exPlacement.bits [true, false, true] = [true, true] := by
  decide

end PM.C20
