/-
  C11 — helper lemmas for the matrix-level part (inversion, flattening, regrouping).
  Property theorems are in `Props/C11.lean`.
-/
import PercevalModel.Model.C11
import PercevalModel.Lemmas.C01
import Mathlib.Tactic.LinearCombination
import Mathlib.Tactic.FinCases

open Matrix PM

set_option linter.unusedSectionVars false
set_option linter.unusedSimpArgs false

namespace PM.C11
variable {R : Type}

/-! ### `np.flip` -/

theorem vflip_one [CommRing R] {n : ℕ} : vflip (1 : Matrix (Fin n) (Fin n) R) = 1 := by
  ext i j
  simp [vflip, Matrix.one_apply, Fin.rev_inj]

theorem vflip_mul [CommRing R] {n : ℕ} (A B : Matrix (Fin n) (Fin n) R) :
    vflip (A * B) = vflip A * vflip B := by
  unfold vflip
  exact (Matrix.submatrix_mul_equiv A B Fin.rev Fin.revPerm Fin.rev).symm

theorem vflip_conjTranspose [Star R] {n : ℕ} (A : Matrix (Fin n) (Fin n) R) :
    vflip Aᴴ = (vflip A)ᴴ := by
  ext i j; simp [vflip]

theorem vflip_vflip {n : ℕ} (A : Matrix (Fin n) (Fin n) R) : vflip (vflip A) = A := by
  ext i j; simp [vflip]

/-- entries of an embedded block -/
theorem embed_apply [Zero R] [One R] (N o : ℕ) {k : ℕ} (B : Matrix (Fin k) (Fin k) R) (i j : Fin N) :
    embed N o B i j =
      if hi : o ≤ i.val ∧ i.val < o + k then
        if hj : o ≤ j.val ∧ j.val < o + k then B ⟨i.val - o, by omega⟩ ⟨j.val - o, by omega⟩ else 0
      else if o ≤ j.val ∧ j.val < o + k then 0 else if i = j then 1 else 0 := by
  unfold embed place unshift
  by_cases hi : o ≤ i.val ∧ i.val < o + k <;> by_cases hj : o ≤ j.val ∧ j.val < o + k <;>
    simp [hi, hj]

/-- flipping an embedded block: the block, flipped, at the mirrored position -/
theorem vflip_embed [CommRing R] {N o k : ℕ} (hk : o + k ≤ N) (B : Matrix (Fin k) (Fin k) R) :
    vflip (embed N o B) = embed N (N - o - k) (vflip B) := by
  ext i j
  simp only [vflip, Matrix.submatrix_apply]
  rw [embed_apply, embed_apply]
  have hi := i.isLt
  have hj := j.isLt
  simp only [Fin.val_rev]
  by_cases h1 : o ≤ N - (i.val + 1) ∧ N - (i.val + 1) < o + k
  · have h1' : N - o - k ≤ i.val ∧ i.val < N - o - k + k := by omega
    by_cases h2 : o ≤ N - (j.val + 1) ∧ N - (j.val + 1) < o + k
    · have h2' : N - o - k ≤ j.val ∧ j.val < N - o - k + k := by omega
      rw [dif_pos h1, dif_pos h2, dif_pos h1', dif_pos h2']
      simp only [vflip, Matrix.submatrix_apply]
      congr 1 <;> (apply Fin.ext; simp only [Fin.val_rev]; omega)
    · have h2' : ¬ (N - o - k ≤ j.val ∧ j.val < N - o - k + k) := by omega
      rw [dif_pos h1, dif_neg h2, dif_pos h1', dif_neg h2']
  · have h1' : ¬ (N - o - k ≤ i.val ∧ i.val < N - o - k + k) := by omega
    by_cases h2 : o ≤ N - (j.val + 1) ∧ N - (j.val + 1) < o + k
    · have h2' : N - o - k ≤ j.val ∧ j.val < N - o - k + k := by omega
      rw [dif_neg h1, if_pos h2, dif_neg h1', if_pos h2']
    · have h2' : ¬ (N - o - k ≤ j.val ∧ j.val < N - o - k + k) := by omega
      rw [dif_neg h1, if_neg h2, dif_neg h1', if_neg h2']
      simp only [Fin.rev_inj]

/-! ### the advertised effect `xform v h` is compatible with products and embeddings -/

theorem xform_one [CommRing R] [StarRing R] {n : ℕ} (v h : Bool) :
    xform v h (1 : Matrix (Fin n) (Fin n) R) = 1 := by
  cases v <;> cases h <;> simp [xform, vflip_one]

theorem xform_mul [CommRing R] [StarRing R] {n : ℕ} (v h : Bool) (A B : Matrix (Fin n) (Fin n) R) :
    xform v h (A * B) = if h then xform v h B * xform v h A else xform v h A * xform v h B := by
  cases v <;> cases h <;> simp [xform, vflip_mul, conjTranspose_mul]

theorem xform_embed [CommRing R] [StarRing R] {N o k : ℕ} (hk : o + k ≤ N) (v h : Bool)
    (B : Matrix (Fin k) (Fin k) R) :
    xform v h (embed N o B) = embed N (if v then N - o - k else o) (xform v h B) := by
  cases v <;> cases h <;> simp [xform, vflip_embed hk, embed_conjTranspose]

/-! ### beam splitter -/

structure ImagUnit [CommRing R] [StarRing R] (I : R) : Prop where
  sq : I * I = -1
  star : star I = -I

/-- parameters that come from real angles: `c`, `s` self-adjoint (the unit-circle condition is only
needed for unitarity), phases of modulus one -/
structure BSP.Real [CommRing R] [StarRing R] (p : BSP R) : Prop where
  c : star p.c = p.c
  s : star p.s = p.s

structure BSP.Unit [CommRing R] [StarRing R] (p : BSP R) : Prop extends p.Real where
  cs : p.c * p.c + p.s * p.s = 1
  tl : p.tl * star p.tl = 1
  bl : p.bl * star p.bl = 1
  tr : p.tr * star p.tr = 1
  br : p.br * star p.br = 1

/-- repaired `v` map: exactly the flipped matrix — a ring identity, no hypothesis on the parameters -/
theorem bsMat_vInv [CommRing R] (I : R) (p : BSP R) :
    bsMat I (p.vInv true) = vflip (bsMat I p) := by
  obtain ⟨conv, c, s, tl, bl, tr, br⟩ := p
  ext i j
  cases conv <;> fin_cases i <;> fin_cases j <;>
    simp [bsMat, BSP.vInv, BSP.vTheta, BSP.negTheta, BSP.twoPiMinusTheta, vflip, Fin.rev] <;> ring

/-- repaired `h` map: exactly the conjugate transpose -/
theorem bsMat_hInv [CommRing R] [StarRing R] {I : R} (hI : ImagUnit I) {p : BSP R} (hp : p.Real) :
    bsMat I (p.hInv true) = (bsMat I p)ᴴ := by
  obtain ⟨conv, c, s, tl, bl, tr, br⟩ := p
  have hc : star c = c := hp.c
  have hs : star s = s := hp.s
  ext i j
  cases conv <;> fin_cases i <;> fin_cases j <;>
    simp [bsMat, BSP.hInv, BSP.hTheta, BSP.negTheta, conjTranspose_apply, hc, hs, hI.star] <;> ring

/-- a phase on each of two modes -/
def diag2 [Zero R] (p q : R) : Matrix (Fin 2) (Fin 2) R := !![p, 0; 0, q]

/-- the phase-free beam splitter `T(θ)` of a convention -/
def bsCore [CommRing R] (I : R) (conv : Conv) (c s : R) : Matrix (Fin 2) (Fin 2) R :=
  match conv with
  | .Rx => !![c, I * s; I * s, c]
  | .Ry => !![c, -s; s, c]
  | .H => !![c, s; s, -c]

/-- `U = diag(e^{i φ_tr}, e^{i φ_br}) · T(θ) · diag(e^{i φ_tl}, e^{i φ_bl})` -/
theorem bsMat_factor [CommRing R] (I : R) (p : BSP R) :
    bsMat I p = diag2 p.tr p.br * bsCore I p.conv p.c p.s * diag2 p.tl p.bl := by
  obtain ⟨conv, c, s, tl, bl, tr, br⟩ := p
  ext i j
  cases conv <;> fin_cases i <;> fin_cases j <;>
    simp [bsMat, bsCore, diag2, Matrix.mul_apply, Fin.sum_univ_two] <;> ring

theorem diag2_isUnitary [CommRing R] [StarRing R] {p q : R} (hp : p * star p = 1)
    (hq : q * star q = 1) : IsUnitary (diag2 p q) := by
  have hp' : star p * p = 1 := by rw [mul_comm]; exact hp
  have hq' : star q * q = 1 := by rw [mul_comm]; exact hq
  constructor <;> ext i j <;> fin_cases i <;> fin_cases j <;>
    simp [diag2, Matrix.mul_apply, Fin.sum_univ_two, hp, hq, hp', hq']

theorem bsCore_isUnitary [CommRing R] [StarRing R] {I : R} (hI : ImagUnit I) (conv : Conv) {c s : R}
    (hc : star c = c) (hs : star s = s) (hcs : c * c + s * s = 1) :
    IsUnitary (bsCore I conv c s) := by
  have h1 := hI.sq
  constructor <;> ext i j <;> cases conv <;> fin_cases i <;> fin_cases j <;>
    simp [bsCore, Matrix.mul_apply, Fin.sum_univ_two, hc, hs, hI.star] <;>
    first
      | ring1
      | linear_combination hcs
      | linear_combination hcs - s * s * h1

theorem bsMat_isUnitary [CommRing R] [StarRing R] {I : R} (hI : ImagUnit I) {p : BSP R}
    (hp : p.Unit) : IsUnitary (bsMat I p) := by
  rw [bsMat_factor]
  exact ((diag2_isUnitary hp.tr hp.br).mul (bsCore_isUnitary hI p.conv hp.c hp.s hp.cs)).mul
    (diag2_isUnitary hp.tl hp.bl)

theorem BSP.Real.vInv [CommRing R] [StarRing R] {p : BSP R} (hp : p.Real) (fixed : Bool) :
    (p.vInv fixed).Real := by
  obtain ⟨conv, c, s, tl, bl, tr, br⟩ := p
  have hc : star c = c := hp.c
  have hs : star s = s := hp.s
  cases conv <;> cases fixed <;>
    constructor <;> simp [BSP.vInv, BSP.vTheta, BSP.negTheta, BSP.twoPiMinusTheta, hc, hs]

/-- the repaired parameter map has exactly the advertised effect, for every `(v, h)` -/
theorem bsMat_inv [CommRing R] [StarRing R] {I : R} (hI : ImagUnit I) {p : BSP R} (hp : p.Real)
    (v h : Bool) : bsMat I (p.inv true v h) = xform v h (bsMat I p) := by
  cases v <;> cases h <;> simp only [BSP.inv, xform, if_true, if_false, Bool.false_eq_true]
  · exact bsMat_hInv hI hp
  · exact bsMat_vInv I p
  · rw [bsMat_hInv hI (hp.vInv true), bsMat_vInv]

/-! ### trees -/

mutual
  def Cmp.All (P : Leaf R → Prop) : Cmp R → Prop
    | .leaf l => P l
    | .circ _ items => items.All P
  def Its.All (P : Leaf R → Prop) : Its R → Prop
    | .nil => True
    | .cons _ c rest => c.All P ∧ rest.All P
end

/-- what `inverse` needs to know of a leaf: beam-splitter parameters come from real angles -/
def Leaf.Real [CommRing R] [StarRing R] : Leaf R → Prop
  | .bs p => p.Real
  | _ => True

/-- leaves that are unitary components -/
def Leaf.Unitary [CommRing R] [StarRing R] : Leaf R → Prop
  | .bs p => p.Unit
  | .ps z => z * star z = 1
  | .un _ U => IsUnitary U
  | .barrier _ => True

theorem Leaf.size_inv [Neg R] [Star R] (fixed v h : Bool) (l : Leaf R) :
    (l.inv fixed v h).size = l.size := by cases l <;> rfl

theorem Cmp.size_inv [Neg R] [Star R] (fixed v h : Bool) (c : Cmp R) :
    (c.inv fixed v h).size = c.size := by
  cases c with
  | leaf l => simp [Cmp.inv, Cmp.size, Leaf.size_inv]
  | circ m items => simp [Cmp.inv, Cmp.size]

theorem Cmp.size_toC01 [CommRing R] (I : R) (c : Cmp R) : (c.toC01 I).size = c.size := by
  cases c <;> simp [Cmp.toC01, C01.Comp.size, Cmp.size]

theorem Its.toC01_append [CommRing R] (I : R) : (a b : Its R) →
    (a.append b).toC01 I = (a.toC01 I).append (b.toC01 I)
  | .nil, b => by simp [Its.append, Its.toC01, C01.Items.append]
  | .cons o c r, b => by simp [Its.append, Its.toC01, C01.Items.append, Its.toC01_append I r b]

theorem prodItems_reverse [CommRing R] (I : R) (m : ℕ) : (a : Its R) → (o : ℕ) → (c : Cmp R) →
    C01.prodItems m ((Its.cons o c a).reverse.toC01 I) =
      embed m o (C01.unitaryOf (c.toC01 I)) * C01.prodItems m (a.reverse.toC01 I) := by
  intro a o c
  simp [Its.reverse, Its.toC01_append, C01.prodItems_append, Its.toC01]

/-- the leaf-level statement, phrased through an embedding so that no type cast appears -/
theorem leaf_inv_embed [CommRing R] [StarRing R] {I : R} (hI : ImagUnit I) (v h : Bool)
    (l : Leaf R) (hl : l.Real) {N off : ℕ} (hk : off + l.size ≤ N) :
    embed N (if v then N - off - l.size else off) ((l.inv true v h).mat I) =
      xform v h (embed N off (l.mat I)) := by
  rw [xform_embed hk]
  cases l with
  | bs p => exact congrArg _ (bsMat_inv hI hl v h)
  | ps z =>
    apply congrArg
    ext i j
    cases v <;> cases h <;> simp [Leaf.inv, Leaf.mat, xform, vflip, conjTranspose_apply] <;> rfl
  | un k U => rfl
  | barrier k =>
    apply congrArg
    exact (xform_one v h).symm
mutual
  theorem cmp_inv_embed [CommRing R] [StarRing R] {I : R} (hI : ImagUnit I) (v h : Bool) :
      (c : Cmp R) → c.WF → c.All Leaf.Real → ∀ {N off : ℕ}, off + c.size ≤ N →
        embed N (if v then N - off - c.size else off)
            (C01.unitaryOf ((c.inv true v h).toC01 I)) =
          xform v h (embed N off (C01.unitaryOf (c.toC01 I)))
    | .leaf l, _, hl, N, off, hk => by
        simp only [Cmp.inv, Cmp.toC01, C01.embed_unitaryOf_leaf]
        exact leaf_inv_embed hI v h l hl hk
    | .circ m items, hw, hl, N, off, hk => by
        have hk' : off + m ≤ N := hk
        have e := its_inv hI v h m items hw hl
        simp only [Its.U, Its.inv] at e
        simp only [Cmp.inv, Cmp.toC01, C01.embed_unitaryOf_circ]
        rw [xform_embed hk', ← e]
        rfl
  theorem its_inv [CommRing R] [StarRing R] {I : R} (hI : ImagUnit I) (v h : Bool) (m : ℕ) :
      (its : Its R) → its.WF m → its.All Leaf.Real →
        (its.inv true v h m).U I m = xform v h (its.U I m)
    | .nil, _, _ => by
        cases h <;> simp [Its.U, Its.inv, Its.invMap, Its.reverse, Its.toC01, xform_one]
    | .cons off c rest, hw, hl => by
        simp only [Its.WF] at hw
        simp only [Its.All] at hl
        have e1 := cmp_inv_embed hI v h c hw.2.1 hl.1 (N := m) (off := off)
          hw.1
        have e2 := its_inv hI v h m rest hw.2.2 hl.2
        simp only [Its.U, Its.inv] at e2 ⊢
        cases h
        · simp only [Bool.false_eq_true, if_false] at e2 ⊢
          simp only [Its.invMap, Its.toC01, C01.prodItems_cons, xform_mul, Bool.false_eq_true,
            if_false]
          rw [e2, ← e1]
        · simp only [if_true] at e2 ⊢
          simp only [Its.invMap, Its.toC01, C01.prodItems_cons, xform_mul, if_true]
          rw [prodItems_reverse, e2, ← e1]
end

/-! ### unitarity of the tree -/

theorem Leaf.Unitary.real [CommRing R] [StarRing R] {l : Leaf R} (h : l.Unitary) : l.Real := by
  cases l <;> simp [Leaf.Real]
  exact h.toReal

theorem Leaf.Unitary.mat [CommRing R] [StarRing R] {I : R} (hI : ImagUnit I) {l : Leaf R}
    (h : l.Unitary) : IsUnitary (l.mat I) := by
  cases l with
  | bs p => exact bsMat_isUnitary hI h
  | ps z =>
    have h1 : z * star z = 1 := h
    have h2 : star z * z = 1 := by rw [mul_comm]; exact h1
    show IsUnitary (n := Fin 1) (Matrix.of fun _ _ => z)
    constructor <;> ext i j <;>
      simp [Matrix.mul_apply, conjTranspose_apply, h1, h2, Matrix.one_apply, Subsingleton.elim i j]
  | un k U => exact h
  | barrier k => exact isUnitary_one

mutual
  theorem Cmp.toC01_WF [CommRing R] (I : R) : (c : Cmp R) → c.WF → (c.toC01 I).WF
    | .leaf _, _ => by simp [Cmp.toC01, C01.Comp.WF]
    | .circ m items, h => by
        simp only [Cmp.toC01, C01.Comp.WF]; exact Its.toC01_WF I m items h
  theorem Its.toC01_WF [CommRing R] (I : R) (m : ℕ) : (its : Its R) → its.WF m → (its.toC01 I).WF m
    | .nil, _ => by simp [Its.toC01, C01.Items.WF]
    | .cons o c r, h => by
        simp only [Its.WF] at h
        simp only [Its.toC01, C01.Items.WF, Cmp.size_toC01]
        exact ⟨h.1, Cmp.toC01_WF I c h.2.1, Its.toC01_WF I m r h.2.2⟩
end

mutual
  theorem Cmp.toC01_AllUnitary [CommRing R] [StarRing R] {I : R} (hI : ImagUnit I) :
      (c : Cmp R) → c.All Leaf.Unitary → (c.toC01 I).AllUnitary
    | .leaf l, h => by simp only [Cmp.toC01, C01.Comp.AllUnitary]; exact Leaf.Unitary.mat hI h
    | .circ m items, h => by
        simp only [Cmp.toC01, C01.Comp.AllUnitary]; exact Its.toC01_AllUnitary hI items h
  theorem Its.toC01_AllUnitary [CommRing R] [StarRing R] {I : R} (hI : ImagUnit I) :
      (its : Its R) → its.All Leaf.Unitary → (its.toC01 I).AllUnitary
    | .nil, _ => by simp [Its.toC01, C01.Items.AllUnitary]
    | .cons o c r, h => by
        simp only [Its.All] at h
        simp only [Its.toC01, C01.Items.AllUnitary]
        exact ⟨Cmp.toC01_AllUnitary hI c h.1, Its.toC01_AllUnitary hI r h.2⟩
end

mutual
  theorem Cmp.All.imp {P Q : Leaf R → Prop} (hPQ : ∀ l, P l → Q l) :
      (c : Cmp R) → c.All P → c.All Q
    | .leaf l, h => by simp only [Cmp.All] at *; exact hPQ l h
    | .circ _ items, h => by simp only [Cmp.All] at *; exact Its.All.imp hPQ items h
  theorem Its.All.imp {P Q : Leaf R → Prop} (hPQ : ∀ l, P l → Q l) :
      (its : Its R) → its.All P → its.All Q
    | .nil, _ => by simp [Its.All]
    | .cons _ c r, h => by
        simp only [Its.All] at *
        exact ⟨Cmp.All.imp hPQ c h.1, Its.All.imp hPQ r h.2⟩
end

/-! ### flattening and regrouping -/

theorem prodList_append [CommRing R] (I : R) (N : ℕ) (a b : List (ℕ × Cmp R)) :
    prodList I N (a ++ b) = prodList I N b * prodList I N a := by
  induction a with
  | nil => simp [prodList]
  | cons p r ih =>
    obtain ⟨o, c⟩ := p
    simp [prodList, ih, Matrix.mul_assoc]

mutual
  theorem flattenCmp_prod [CommRing R] (I : R) :
      (c : Cmp R) → c.WF → ∀ (N start off : ℕ) (depth : Option ℕ), start + off + c.size ≤ N →
        prodList I N (flattenCmp true start off depth c) =
          embed N (off + start) (C01.unitaryOf (c.toC01 I))
    | .leaf l, _, N, start, off, depth, _ => by
        simp [flattenCmp, prodList]
    | .circ m sub, hw, N, start, off, depth, hk => by
        have hk' : start + off + m ≤ N := hk
        simp only [flattenCmp, if_true]
        split
        · rw [flattenIts_prod I m sub hw N (start + off) _ hk', Nat.add_comm start off]
          simp only [Cmp.toC01, C01.embed_unitaryOf_circ]
        · simp [prodList]
  theorem flattenIts_prod [CommRing R] (I : R) (m : ℕ) :
      (its : Its R) → its.WF m → ∀ (N start : ℕ) (depth : Option ℕ), start + m ≤ N →
        prodList I N (flattenIts true start depth its) =
          embed N start (C01.prodItems m (its.toC01 I))
    | .nil, _, N, start, depth, hk => by
        simp [flattenIts, prodList, Its.toC01, embed_one hk]
    | .cons off c rest, hw, N, start, depth, hk => by
        simp only [Its.WF] at hw
        have h1 : off + (c.toC01 I).size ≤ m := by rw [Cmp.size_toC01]; exact hw.1
        simp only [flattenIts, prodList_append, Its.toC01, C01.prodItems_cons]
        rw [flattenIts_prod I m rest hw.2.2 N start depth hk,
          flattenCmp_prod I c hw.2.1 N start off depth (by have := hw.1; omega),
          ← embed_mul hk, embed_embed hk h1, Nat.add_comm off start]
end

/-- shifting a list of components down by `a` -/
def shiftDown (a : ℕ) (l : List (ℕ × Cmp R)) : List (ℕ × Cmp R) := l.map fun p => (p.1 - a, p.2)

/-- every component lies inside `[a, a + k)` -/
def Within [CommRing R] (I : R) (a k : ℕ) (l : List (ℕ × Cmp R)) : Prop :=
  ∀ p ∈ l, a ≤ p.1 ∧ p.1 + (p.2.toC01 I).size ≤ a + k

theorem prodList_embed [CommRing R] (I : R) {N a k : ℕ} (hk : a + k ≤ N) (l : List (ℕ × Cmp R))
    (hl : Within I a k l) : prodList I N l = embed N a (prodList I k (shiftDown a l)) := by
  induction l with
  | nil => simp [prodList, shiftDown, embed_one hk]
  | cons p r ih =>
    obtain ⟨o, c⟩ := p
    have h1 := hl (o, c) (by simp)
    have h2 : Within I a k r := fun q hq => hl q (by simp [hq])
    simp only [prodList, shiftDown, List.map_cons] at *
    rw [ih h2, ← embed_mul hk, embed_embed hk (by omega : (o - a) + (c.toC01 I).size ≤ k)]
    congr 2
    omega

theorem block_embed [Zero R] [One R] {N a k : ℕ} (hk : a + k ≤ N) (B : Matrix (Fin k) (Fin k) R) :
    block a k (embed N a B) = B := by
  ext i j
  have hi := i.isLt
  have hj := j.isLt
  have h : a + i.val < N ∧ a + j.val < N := by omega
  simp only [block, h, and_self, ↓reduceDIte]
  rw [embed_apply]
  have h1 : a ≤ a + i.val ∧ a + i.val < a + k := by omega
  have h2 : a ≤ a + j.val ∧ a + j.val < a + k := by omega
  simp only [h1, h2, and_self, ↓reduceDIte]
  congr 1 <;> (apply Fin.ext; simp)


/-! ### shared references -/

theorem RefCirc.build_append (st : List (Leaf R)) (a b : List (ℕ × ℕ)) :
    RefCirc.build st (a ++ b) = (RefCirc.build st a).append (RefCirc.build st b) := by
  induction a with
  | nil => simp [RefCirc.build, Its.append]
  | cons x r ih =>
    simp only [RefCirc.build, List.cons_append, List.foldr_cons, Its.append] at *
    rw [ih]

theorem RefCirc.build_reverse (st : List (Leaf R)) (l : List (ℕ × ℕ)) :
    RefCirc.build st l.reverse = (RefCirc.build st l).reverse := by
  induction l with
  | nil => simp [RefCirc.build, Its.reverse]
  | cons x r ih =>
    rw [List.reverse_cons, RefCirc.build_append, ih]
    simp [RefCirc.build, Its.reverse]

/-- the store after the repaired `inverse`: every referenced object inverted once -/
theorem invFixed_store_getD [Neg R] [Star R] (fixed v h : Bool) (rc : RefCirc R) (i : ℕ)
    (hi : i < rc.store.length) (hm : i ∈ rc.items.map Prod.snd) :
    (rc.invFixed fixed v h).store.getD i (.barrier 0) =
      (rc.store.getD i (.barrier 0)).inv fixed v h := by
  have hc : (rc.items.map Prod.snd).contains i = true := by simpa using hm
  simp only [RefCirc.invFixed, List.getD_eq_getElem?_getD, List.getElem?_map, List.getElem?_zipIdx,
    List.getElem?_eq_getElem hi, Option.map_some, Nat.zero_add, hc, if_true, Option.getD_some]

theorem build_invMap [Neg R] [Star R] (v h : Bool) (m : ℕ) (st st' : List (Leaf R)) :
    (items : List (ℕ × ℕ)) →
    (∀ it ∈ items, st'.getD it.2 (.barrier 0) = (st.getD it.2 (.barrier 0)).inv true v h) →
    (RefCirc.build st items).invMap true v h m =
      RefCirc.build st' (items.map fun it =>
        (if v then m - it.1 - (st.getD it.2 (.barrier 0)).size else it.1, it.2))
  | [], _ => by simp [RefCirc.build, Its.invMap]
  | it :: rest, hl => by
    have h1 := hl it (by simp)
    have ih := build_invMap v h m st st' rest (fun q hq => hl q (by simp [hq]))
    simp only [RefCirc.build, List.foldr_cons, List.map_cons, Its.invMap, Cmp.inv, Cmp.size] at *
    rw [ih, h1]


theorem pendingRange_foldl [CommRing R] (I : R) (l : List (ℕ × Cmp R)) (a b : ℕ) :
    let mm := l.foldl (fun mm p => (min mm.1 p.1, max mm.2 (p.1 + (p.2.toC01 I).size))) (a, b)
    mm.1 ≤ a ∧ b ≤ mm.2 ∧ ∀ p ∈ l, mm.1 ≤ p.1 ∧ p.1 + (p.2.toC01 I).size ≤ mm.2 := by
  induction l generalizing a b with
  | nil => simp
  | cons x r ih =>
    simp only [List.foldl_cons]
    obtain ⟨h1, h2, h3⟩ := ih (min a x.1) (max b (x.1 + (x.2.toC01 I).size))
    refine ⟨le_trans h1 (Nat.min_le_left _ _), le_trans (Nat.le_max_left _ _) h2, ?_⟩
    intro p hp
    rcases List.mem_cons.1 hp with rfl | hp
    · exact ⟨le_trans h1 (Nat.min_le_right _ _), le_trans (Nat.le_max_right _ _) h2⟩
    · exact h3 p hp

/-- the `min_r` / `max_r` bookkeeping of `non_unitary_circuit()` covers every pending component -/
theorem pendingRange_within [CommRing R] (I : R) (N : ℕ) (pending : List (ℕ × Cmp R)) :
    Within I (pendingRange I N pending).1
      ((pendingRange I N pending).2 - (pendingRange I N pending).1) pending := by
  intro p hp
  obtain ⟨_, _, h3⟩ := pendingRange_foldl I pending N 0
  have := h3 p hp
  simp only [pendingRange]
  omega


theorem pendingRange_le [CommRing R] (I : R) (N : ℕ) (l : List (ℕ × Cmp R)) (a b : ℕ)
    (hb : b ≤ N) (hl : ∀ p ∈ l, p.1 + (p.2.toC01 I).size ≤ N) :
    (l.foldl (fun mm p => (min mm.1 p.1, max mm.2 (p.1 + (p.2.toC01 I).size))) (a, b)).2 ≤ N := by
  induction l generalizing a b with
  | nil => simpa using hb
  | cons x r ih =>
    simp only [List.foldl_cons]
    exact ih _ _ (Nat.max_le.2 ⟨hb, hl x (by simp)⟩) (fun p hp => hl p (by simp [hp]))


end PM.C11
