/-
  C15 — lemmas about the validation layer of `NoiseModel` (`Model/C15Noise.lean`).
-/
import PercevalModel.Model.C15Noise

namespace PM.C15.NoiseC

theorem valid_put (n : Noise) (k : FKey) (v : Dbl) (h : valid n = true) (hv : inRange k.range v = true) :
    valid (put n k v) = true := by
  cases k <;> simp_all [valid, okField, get, put]

theorem step_valid (n n' : Noise) (o : Op) (h : valid n = true) (hs : step n o = .ok n') : valid n' = true := by
  cases o with
  | bool b =>
    simp only [step, Except.ok.injEq] at hs
    subst hs
    simpa [valid, okField, get] using h
  | num name v =>
    unfold step at hs
    cases hk : FKey.ofName name with
    | none =>
      simp only [hk] at hs
      split at hs <;> cases hs
    | some k =>
      simp only [hk] at hs
      by_cases hv : inRange k.range v = true
      · simp only [hv, if_true, Except.ok.injEq] at hs
        subst hs
        exact valid_put n k v h hv
      · simp [hv] at hs

theorem apply_valid (n : Noise) (o : Op) (h : valid n = true) : valid (apply n o) = true := by
  unfold apply
  cases hs : step n o with
  | ok n' => exact step_valid n n' o h hs
  | error e => exact h

theorem runOps_valid (ops : List Op) : ∀ n : Noise, valid n = true → valid (runOps n ops) = true := by
  induction ops with
  | nil => intro n h; exact h
  | cons o rest ih => intro n h; exact ih (apply n o) (apply_valid n o h)

theorem ctor_valid {a n : Noise} (h : ctor a = .ok n) : n = a ∧ valid n = true := by
  unfold ctor at h
  by_cases hv : valid a = true
  · simp only [hv, if_true, Except.ok.injEq] at h
    subst h
    exact ⟨rfl, hv⟩
  · simp [hv] at h

end PM.C15.NoiseC
