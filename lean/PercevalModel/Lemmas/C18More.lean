/-
  C18 — wave 7: bounded termination (wait-freedom) of the access-level machine of `Model/C18Race.lean`.

  * `WPc.togo`: the number of accesses the worker still has to perform after the task function has been left;
    every step of the worker lowers it, nobody else's step touches it (`togo_exec`).
  * `CPc.cgo`: the number of accesses the caller still has to perform in the API call it is inside of; every step
    of the caller lowers it, nobody else's step touches it (`cgo_exec`), for the code with and without the fix.
  * `flag_read_decides`: the cancel flag the worker reads at `ret2` IS the outcome.
-/
import PercevalModel.Lemmas.C18Race

namespace PM.C18
open PM.SM

/-- the task function has been left (returned or raised) -/
def WPc.left : WPc → Bool
  | .entry | .inTask | .prog1 _ | .prog1b _ | .prog2 _ | .prog3 _ => false
  | _ => true

/-- accesses the worker still has to perform once the task function has been left (upper bound at `ret1`/`ret2`,
where the cancel flag has not been read yet; exact elsewhere) -/
def WPc.togo : WPc → Nat
  | .ret1 _ => 6
  | .ret2 _ => 5
  | .stop1 _ false => 4
  | .stop1 _ true => 3
  | .stop2 _ => 3
  | .stop3 _ _ => 2
  | .exc1 _ _ => 3
  | .exc2 _ _ => 2
  | .exiting _ => 1
  | _ => 0

/-- number of worker steps in a schedule -/
def wCount (w : List REv) : Nat := w.count .w

/-- number of caller steps in a schedule -/
def cCount (w : List REv) : Nat := w.count .c

/-- no API call is begun in the schedule (the caller finishes the call it is in, or is idle) -/
def noBegin : List REv → Bool
  | [] => true
  | .begin _ :: _ => false
  | _ :: w => noBegin w

theorem left_started {s : RState} (h : RInv s) (hl : s.wpc.left = true) : s.started = true := by
  cases hs : s.started
  · rw [h.2.2.1 hs] at hl; simp [WPc.left] at hl
  · rfl

/-- while the worker is past the task function and not dead, its thread is alive -/
theorem left_alive {s : RState} (h : RInv s) (hl : s.wpc.left = true) (hd : ∀ o, s.wpc ≠ .dead o) :
    s.alive = true := by
  have hs := left_started h hl
  have hw := h.1
  unfold wShape at hw
  cases hpc : s.wpc
  all_goals (rw [hpc] at hl; simp only [hpc] at hw)
  all_goals try (simp [WPc.left] at hl; done)
  all_goals try (rw [hw.2.2]; exact hs)
  all_goals try exact hw.2.2.1
  · rename_i o; exact absurd hpc (hd o)

/-- a step of anybody but the worker leaves the worker's program counter alone once the task function is left -/
theorem left_frame (cfg : Cfg) (s : RState) (e : REv) (h : RInv s) (hl : s.wpc.left = true) (he : e ≠ .w) :
    (rstep true cfg s e).1.wpc = s.wpc := by
  have hstd := left_started h hl
  cases e with
  | exec c =>
    simp only [rstep]
    split
    · unfold rexec
      rw [if_pos (st_of_started h.1 hstd)]
    · rfl
  | «begin» a =>
    simp only [rstep]
    split
    · cases a <;> rfl
    · rfl
  | c => simp only [rstep]; exact (caller_frame true s).1
  | w => exact absurd rfl he
  | task e =>
    simp only [rstep]
    unfold taskStep
    split
    · rename_i hsa
      simp only [Bool.and_eq_true, decide_eq_true_eq] at hsa
      rw [hsa.2] at hl; simp [WPc.left] at hl
    · rfl

/-- a step of the worker past the task function: still past it, and one access fewer to go -/
theorem left_worker (s : RState) (h : RInv s) (hl : s.wpc.left = true) :
    (workerStep s).1.wpc.left = true ∧ (workerStep s).1.wpc.togo + 1 ≤ max s.wpc.togo 1 ∧
    (s.wpc.togo = 0 → (workerStep s).1.wpc.togo = 0) := by
  have hstd := left_started h hl
  cases hpc : s.wpc
  all_goals (rw [hpc] at hl)
  all_goals try (simp [WPc.left] at hl; done)
  case dead o =>
    simp [workerStep, hpc, WPc.left, WPc.togo]
  all_goals
    have hal : s.alive = true := left_alive h (by rw [hpc]; rfl) (by intro o ho; rw [hpc] at ho; cases ho)
  all_goals simp [workerStep, hstd, hal, hpc, WPc.left, WPc.togo]
  all_goals try (rename_i c; cases c <;> simp [WPc.left, WPc.togo])
  all_goals try (cases s.cancelReq <;> simp [WPc.left, WPc.togo])

theorem left_step (cfg : Cfg) (s : RState) (e : REv) (h : RInv s) (hl : s.wpc.left = true) :
    (rstep true cfg s e).1.wpc.left = true ∧
    (rstep true cfg s e).1.wpc.togo ≤ s.wpc.togo - (if e = .w then 1 else 0) := by
  by_cases he : e = .w
  · subst he
    obtain ⟨h1, h2, h3⟩ := left_worker s h hl
    refine ⟨h1, ?_⟩
    simp only [rstep, if_true]
    by_cases h0 : s.wpc.togo = 0
    · rw [h3 h0]; exact Nat.zero_le _
    · omega
  · rw [left_frame cfg s e h hl he]
    simp [he, hl]

/-- BOUNDED TERMINATION OF THE WORKER.  Once the task function has been left, every step of the worker brings the
thread's end one access nearer and no step of anybody else interferes. -/
theorem togo_exec (cfg : Cfg) (w : List REv) (s : RState) (h : RInv s) (hl : s.wpc.left = true) :
    (exec (rstep true cfg) s w).wpc.left = true ∧
    (exec (rstep true cfg) s w).wpc.togo ≤ s.wpc.togo - wCount w := by
  induction w generalizing s with
  | nil => exact ⟨hl, by simp [exec_nil, wCount]⟩
  | cons e w ih =>
    rw [exec_cons]
    obtain ⟨h1, h2⟩ := left_step cfg s e h hl
    obtain ⟨h3, h4⟩ := ih _ (rinv_step cfg s e h) h1
    refine ⟨h3, ?_⟩
    simp only [wCount] at *
    by_cases he : e = .w
    · subst he
      simp only [if_true] at h2
      simp only [List.count_cons_self]
      omega
    · simp only [he, if_false] at h2
      rw [List.count_cons_of_ne he]
      omega

/-- past the task function with nothing to go = dead -/
theorem dead_of_togo_zero {pc : WPc} (hl : pc.left = true) (h0 : pc.togo = 0) : ∃ o, pc = .dead o := by
  cases pc
  all_goals try (simp [WPc.left] at hl; done)
  all_goals try (simp [WPc.togo] at h0; done)
  · rename_i r c; cases c <;> simp [WPc.togo] at h0
  · exact ⟨_, rfl⟩

/-! ## the caller -/

/-- accesses the caller still has to perform in the API call it is inside of (upper bound) -/
def contGo : Cont → Nat
  | .obs => 3
  | .get => 5

def CPc.cgo : CPc → Nat
  | .idle => 0
  | .prop0 k => 5 + contGo k
  | .prop1 k => 4 + contGo k
  | .rep1 k => 3 + contGo k
  | .rep2 k => 2 + contGo k
  | .rep3 k => 1 + contGo k
  | .obs1 => 3
  | .obs2 _ => 2
  | .obs3 _ _ => 1
  | .get1 => 5
  | .get2 => 4
  | .get3 => 3
  | .get5 => 2
  | .get6 => 1
  | .cancel1 => 1

theorem cgo_propDone (k : Cont) : (propDone k).cgo = contGo k := by cases k <;> rfl

/-- every step of the caller lowers the number of accesses it still has to perform (both versions of the code) -/
theorem cgo_caller (fixed : Bool) (s : RState) : (callerStep fixed s).1.cpc.cgo ≤ s.cpc.cgo - 1 := by
  unfold callerStep
  cases hpc : s.cpc
  all_goals dsimp only
  all_goals repeat' split
  all_goals try simp only [cgo_propDone]
  all_goals try rw [hpc]
  all_goals simp only [CPc.cgo]
  all_goals omega

theorem worker_cpc (s : RState) : (workerStep s).1.cpc = s.cpc := by
  unfold workerStep
  repeat' split
  all_goals rfl

theorem task_cpc (s : RState) (e : TEv) : (taskStep s e).1.cpc = s.cpc := by
  unfold taskStep
  repeat' split
  all_goals rfl

theorem rexec_cpc (cfg : Cfg) (s : RState) (c : Call) : (rexec cfg s c).1.cpc = s.cpc := by
  unfold rexec
  repeat' split
  all_goals rfl

theorem cgo_step (fixed : Bool) (cfg : Cfg) (s : RState) (e : REv) (hb : ∀ a, e ≠ .begin a) :
    (rstep fixed cfg s e).1.cpc.cgo ≤ s.cpc.cgo - (if e = .c then 1 else 0) := by
  cases e with
  | exec c =>
    simp only [rstep]
    split
    · rw [rexec_cpc]; simp
    · simp
  | «begin» a => exact absurd rfl (hb a)
  | c => simp only [rstep, if_true]; exact cgo_caller fixed s
  | w => simp only [rstep, worker_cpc]; simp
  | task e => simp only [rstep, task_cpc]; simp

/-- WAIT-FREEDOM OF THE API CALLS.  While no new call is begun, every step of the caller brings the end of the call
it is inside of one access nearer, whatever the worker and the task do in between. -/
theorem cgo_exec (fixed : Bool) (cfg : Cfg) (w : List REv) (s : RState) (hb : noBegin w = true) :
    (exec (rstep fixed cfg) s w).cpc.cgo ≤ s.cpc.cgo - cCount w := by
  induction w generalizing s with
  | nil => simp [exec_nil, cCount]
  | cons e w ih =>
    rw [exec_cons]
    have hb1 : ∀ a, e ≠ .begin a := by
      intro a ha; subst ha; simp [noBegin] at hb
    have hb2 : noBegin w = true := by
      cases e <;> first | exact hb | (exact absurd rfl (hb1 _))
    have h1 := cgo_step fixed cfg s e hb1
    have h2 := ih (rstep fixed cfg s e).1 hb2
    simp only [cCount] at *
    by_cases he : e = .c
    · subst he
      simp only [if_true] at h1
      simp only [List.count_cons_self]
      omega
    · simp only [he, if_false] at h1
      rw [List.count_cons_of_ne he]
      omega

theorem idle_of_cgo_zero {pc : CPc} (h0 : pc.cgo = 0) : pc = .idle := by
  cases pc
  all_goals try rfl
  all_goals (simp [CPc.cgo] at h0)

/-! ## the flag read decides -/

/-- the worker's read of `_cancel_requested` decides the outcome -/
theorem flag_read_decides (s : RState) (h : RInv s) (r : Ret) (hpc : s.wpc = .ret2 r) :
    (workerStep s).1.wpc.fate = some (.returned r s.cancelReq) := by
  have hstd : s.started = true := left_started h (by rw [hpc]; rfl)
  have hal : s.alive = true := left_alive h (by rw [hpc]; rfl) (by intro o ho; rw [hpc] at ho; cases ho)
  simp [workerStep, hstd, hal, hpc, WPc.fate]

/-! ## end-to-end statements (restated as theorems in `Props/C18.lean`) -/

theorem cgo_le (pc : CPc) : pc.cgo ≤ 10 := by
  cases pc
  all_goals try (rename_i k; cases k)
  all_goals simp [CPc.cgo, contGo]

theorem togo_le (pc : WPc) : pc.togo ≤ 6 := by
  cases pc
  all_goals try (rename_i c; cases c)
  all_goals simp [WPc.togo]

theorem more_worker_ends (cfg : Cfg) (w1 w2 : List REv)
    (hl : (rafter true cfg w1).wpc.left = true) (hn : (rafter true cfg w1).wpc.togo ≤ wCount w2) :
    ∃ o, (rafter true cfg (w1 ++ w2)).wpc = .dead o ∧ (rafter true cfg (w1 ++ w2)).st = o.st ∧
      (rafter true cfg (w1 ++ w2)).msg = o.msg ∧ (rafter true cfg (w1 ++ w2)).alive = false ∧
      (∀ o', (rafter true cfg w1).wpc.fate = some o' → o = o') := by
  have hi := rinv_after cfg w1
  obtain ⟨h1, h2⟩ := togo_exec cfg w2 _ hi hl
  have h0 : (exec (rstep true cfg) (rafter true cfg w1) w2).wpc.togo = 0 := by omega
  obtain ⟨o, ho⟩ := dead_of_togo_zero h1 h0
  have hi2 : RInv (rafter true cfg (w1 ++ w2)) := rinv_after cfg (w1 ++ w2)
  have hpc : (rafter true cfg (w1 ++ w2)).wpc = .dead o := by
    simp only [rafter, exec_append] at *; exact ho
  have hw := hi2.1
  simp only [wShape, hpc] at hw
  refine ⟨o, hpc, hw.1, hw.2.1, hw.2.2.1, fun o' hf => ?_⟩
  have := (fate_exec cfg w2 _ hi o' hf).1
  simp only [rafter, exec_append] at *
  rw [ho] at this
  simpa [WPc.fate] using this

/-- the worker is handling the return of `r` -/
def Returning (r : Ret) (pc : WPc) : Prop :=
  pc = .ret1 r ∨ pc = .ret2 r ∨ ∃ c, pc.fate = some (.returned r c)

theorem returning_exec (cfg : Cfg) (r : Ret) (w : List REv) (s : RState) (h : RInv s) (hp : Returning r s.wpc) :
    Returning r (exec (rstep true cfg) s w).wpc := by
  refine wpc_pred_exec cfg (Returning r) (by simp [Returning, WPc.fate]) (by simp [Returning, WPc.fate]) ?_ w s h hp
  intro s hp
  unfold workerStep
  split
  · rcases hp with hp | hp | ⟨c, hp⟩
    · rw [hp]; exact Or.inr (Or.inl rfl)
    · rw [hp]; exact Or.inr (Or.inr ⟨s.cancelReq, rfl⟩)
    · right; right; refine ⟨c, ?_⟩
      cases hpc : s.wpc
      all_goals (rw [hpc] at hp; simp only [WPc.fate] at hp ⊢)
      all_goals try (simp at hp; done)
      all_goals try exact hp
      all_goals try (rename_i c'; cases c' <;> simp_all [WPc.fate]; done)
      all_goals try (simp_all [WPc.fate]; done)
  · exact hp

theorem inTask_live {s : RState} (h : RInv s) (hpc : s.wpc = .inTask) : s.started = true ∧ s.alive = true := by
  have hstd : s.started = true := by
    cases hq : s.started
    · rw [h.2.2.1 hq] at hpc; simp at hpc
    · rfl
  have hw := h.1
  simp only [wShape, hpc] at hw
  exact ⟨hstd, by rw [hw.2.2]; exact hstd⟩

theorem more_return_completes (cfg : Cfg) (w1 w2 : List REv) (r : Ret)
    (h : (rafter true cfg w1).wpc = .inTask) (hn : 6 ≤ wCount w2) :
    ∃ c, (rafter true cfg (w1 ++ .task (.ret r) :: w2)).wpc = .dead (.returned r c) ∧
      (rafter true cfg (w1 ++ .task (.ret r) :: w2)).st = (if c then .canceled else .success) ∧
      (rafter true cfg (w1 ++ .task (.ret r) :: w2)).msg = (if c then .canceled else .none) ∧
      (rafter true cfg (w1 ++ .task (.ret r) :: w2)).alive = false ∧
      (c = true → (rafter true cfg (w1 ++ .task (.ret r) :: w2)).cancelReq = true) ∧
      ((rafter true cfg w1).cancelReq = true → c = true) := by
  have hi := rinv_after cfg w1
  obtain ⟨hstd, hal⟩ := inTask_live hi h
  have hstep : (rafter true cfg (w1 ++ [.task (.ret r)])).wpc = .ret1 r := by
    simp only [rafter, exec_append, exec_cons, exec_nil] at *
    simp [rstep, taskStep, h, hstd, hal]
  have hcr : (rafter true cfg (w1 ++ [.task (.ret r)])).cancelReq = (rafter true cfg w1).cancelReq := by
    simp only [rafter, exec_append, exec_cons, exec_nil] at *
    simp [rstep, taskStep, h, hstd, hal]
  have happ : w1 ++ .task (.ret r) :: w2 = (w1 ++ [.task (.ret r)]) ++ w2 := by simp
  rw [happ]
  obtain ⟨o, hpc, hst, hmsg, hdead, _⟩ := more_worker_ends cfg (w1 ++ [.task (.ret r)]) w2
    (by rw [hstep]; rfl) (by rw [hstep]; exact hn)
  have hi1 := rinv_after cfg (w1 ++ [.task (.ret r)])
  have hret := returning_exec cfg r w2 _ hi1 (Or.inl hstep)
  have hpc' := hpc
  simp only [rafter, exec_append] at hpc' hret
  rw [hpc'] at hret
  have ho : ∃ c, o = .returned r c := by
    rcases hret with hr | hr | ⟨c, hr⟩
    · cases hr
    · cases hr
    · exact ⟨c, by simpa [WPc.fate] using hr⟩
  obtain ⟨c, rfl⟩ := ho
  refine ⟨c, hpc, ?_, ?_, hdead, ?_, ?_⟩
  · rw [hst]; cases c <;> rfl
  · rw [hmsg]; cases c <;> rfl
  · intro hc; subst hc
    exact (rinv_after cfg _).2.2.2.1 r (by rw [hpc]; rfl)
  · intro hc
    have h1 : CancelledRet r (rafter true cfg (w1 ++ [.task (.ret r)])) := Or.inl ⟨by rw [hcr]; exact hc, Or.inl hstep⟩
    obtain ⟨h2, _⟩ := cancelledRet_exec cfg r w2 _ hi1 h1
    simp only [rafter, exec_append] at hpc h2
    rcases h2 with ⟨_, h2 | h2⟩ | h2
    · rw [hpc] at h2; cases h2
    · rw [hpc] at h2; cases h2
    · rw [hpc] at h2; simpa [WPc.fate] using h2

theorem more_raise_completes (cfg : Cfg) (w1 w2 : List REv) (c t : Nat)
    (h : (rafter true cfg w1).wpc = .inTask) (hn : 3 ≤ wCount w2) :
    (rafter true cfg (w1 ++ .task (.raise c t) :: w2)).wpc = .dead (.raised c t) ∧
    (rafter true cfg (w1 ++ .task (.raise c t) :: w2)).st = .error ∧
    (rafter true cfg (w1 ++ .task (.raise c t) :: w2)).msg = .task c t ∧
    (rafter true cfg (w1 ++ .task (.raise c t) :: w2)).alive = false := by
  have hi := rinv_after cfg w1
  obtain ⟨hstd, hal⟩ := inTask_live hi h
  have hstep : (rafter true cfg (w1 ++ [.task (.raise c t)])).wpc = .exc1 c t := by
    simp only [rafter, exec_append, exec_cons, exec_nil] at *
    simp [rstep, taskStep, h, hstd, hal]
  have happ : w1 ++ .task (.raise c t) :: w2 = (w1 ++ [.task (.raise c t)]) ++ w2 := by simp
  rw [happ]
  obtain ⟨o, hpc, hst, hmsg, hdead, hf⟩ := more_worker_ends cfg (w1 ++ [.task (.raise c t)]) w2
    (by rw [hstep]; rfl) (by rw [hstep]; exact hn)
  have := hf (.raised c t) (by rw [hstep]; rfl)
  subst this
  exact ⟨hpc, hst, hmsg, hdead⟩

theorem more_flag_at_read (cfg : Cfg) (w1 w2 : List REv) (r : Ret)
    (h : (rafter true cfg w1).wpc = .ret2 r) :
    (rafter true cfg (w1 ++ .w :: w2)).wpc.fate = some (.returned r (rafter true cfg w1).cancelReq) := by
  have hi := rinv_after cfg w1
  have h1 := flag_read_decides _ hi r h
  simp only [rafter, exec_append, exec_cons] at *
  exact (fate_exec cfg w2 _ (rinv_step cfg _ .w hi) _ (by simpa [rstep] using h1)).1

theorem more_wait_free (fixed : Bool) (cfg : Cfg) (w1 w2 : List REv) (hb : noBegin w2 = true)
    (hn : (rafter fixed cfg w1).cpc.cgo ≤ cCount w2) : (rafter fixed cfg (w1 ++ w2)).cpc = .idle := by
  have := cgo_exec fixed cfg w2 (rafter fixed cfg w1) hb
  simp only [rafter, exec_append] at *
  exact idle_of_cgo_zero (by omega)

theorem more_status_after_end (cfg : Cfg) (w : List REv) (o : Outcome)
    (h : (rafter true cfg w).wpc = .dead o) (hidle : (rafter true cfg w).cpc = .idle) :
    (rstep true cfg (rafter true cfg (w ++ [.begin .status, .c, .c, .c, .c])) .c).2 =
      .step .rProg (some (.status o.st o.msg (rafter true cfg w).prog)) ∧
    (rafter true cfg (w ++ [.begin .status, .c, .c, .c, .c, .c])).cpc = .idle := by
  have hw := (rinv_after cfg w).1
  simp only [wShape, h] at hw
  obtain ⟨hst, hmsg, hal, hstd, _⟩ := hw
  have hnr : o.st ≠ .running := Outcome.st_ne_running o
  simp only [rafter, exec_append, exec_cons, exec_nil] at *
  generalize exec (rstep true cfg) (rinit cfg) w = s at *
  simp [rstep, callerStep, propStart, propDone, hidle, hstd, hal, hst, hmsg, hnr]

theorem results_after_end_state (cfg : Cfg) (s : RState) (hi : RInv s) (r v : Ret) (c : Bool)
    (h : s.wpc = .dead (.returned r c)) (hidle : s.cpc = .idle)
    (hv : if s.mapPending then convertRet s.mapping r = some v else s.results = v) :
    (rstep true cfg (exec (rstep true cfg) s [.begin .get, .c, .c, .c, .c]) .c).2 =
      .step .rSt (some (.results v)) ∧
    (exec (rstep true cfg) s [.begin .get, .c, .c, .c, .c, .c]).cpc = .idle ∧
    (exec (rstep true cfg) s [.begin .get, .c, .c, .c, .c, .c]).results = v ∧
    (exec (rstep true cfg) s [.begin .get, .c, .c, .c, .c, .c]).mapPending = false := by
  have hw := hi.1
  have hres := hi.2.2.2.2.2 r c (by rw [h]; rfl)
  simp only [wShape, h] at hw
  obtain ⟨hst, hmsg, hal, hstd, _⟩ := hw
  have hnr : (Outcome.returned r c).st ≠ .running := Outcome.st_ne_running _
  have hfin : (Outcome.returned r c).st.isFinal = true := Outcome.st_isFinal _
  simp only [exec_cons, exec_nil]
  cases hmp : s.mapPending
  · simp only [hmp, Bool.false_eq_true, if_false] at hv
    simp [rstep, callerStep, propStart, propDone, hidle, hstd, hal, hst, hnr, hfin, hmp, hv]
  · simp only [hmp, if_true] at hv
    have hr : s.results = r := by
      rcases hres with hr | hr
      · exact hr
      · rw [hmp] at hr; simp at hr
    simp [rstep, callerStep, propStart, propDone, hidle, hstd, hal, hst, hnr, hfin, hmp, hr, hv]

theorem more_results_after_end (cfg : Cfg) (w : List REv) (r v : Ret) (c : Bool)
    (h : (rafter true cfg w).wpc = .dead (.returned r c)) (hidle : (rafter true cfg w).cpc = .idle)
    (hv : if (rafter true cfg w).mapPending then convertRet (rafter true cfg w).mapping r = some v
          else (rafter true cfg w).results = v) :
    (rstep true cfg (rafter true cfg (w ++ [.begin .get, .c, .c, .c, .c])) .c).2 =
      .step .rSt (some (.results v)) ∧
    (rafter true cfg (w ++ [.begin .get, .c, .c, .c, .c, .c])).cpc = .idle ∧
    (rafter true cfg (w ++ [.begin .get, .c, .c, .c, .c, .c])).results = v ∧
    (rafter true cfg (w ++ [.begin .get, .c, .c, .c, .c, .c])).mapPending = false := by
  have := results_after_end_state cfg _ (rinv_after cfg w) r v c h hidle hv
  simp only [rafter, exec_append] at *
  exact this

end PM.C18
