/-
  C12 — the Frobenius norm of complex matrices, by hand (`frob2 M = Σ |M i j|²`, `frob M = √frob2 M`), with the three
  facts the perturbation bound of the decomposition needs: it is Mathlib's Frobenius norm (so the triangle inequality
  holds), it is invariant under multiplication by a unitary matrix, and a matrix with one non-zero entry has the
  modulus of that entry as norm.
-/
import Mathlib.Analysis.Matrix.Normed
import Mathlib.Analysis.Complex.Basic
import Mathlib.LinearAlgebra.Matrix.Trace
import Mathlib.LinearAlgebra.Matrix.ConjTranspose

open Matrix

namespace PM.C12

/-- squared Frobenius norm -/
noncomputable def frob2 {m n : ℕ} (M : Matrix (Fin m) (Fin n) ℂ) : ℝ := ∑ i, ∑ j, Complex.normSq (M i j)

/-- Frobenius norm -/
noncomputable def frob {m n : ℕ} (M : Matrix (Fin m) (Fin n) ℂ) : ℝ := Real.sqrt (frob2 M)

theorem frob2_nonneg {m n : ℕ} (M : Matrix (Fin m) (Fin n) ℂ) : 0 ≤ frob2 M :=
  Finset.sum_nonneg fun _ _ => Finset.sum_nonneg fun _ _ => Complex.normSq_nonneg _

theorem frob_nonneg {m n : ℕ} (M : Matrix (Fin m) (Fin n) ℂ) : 0 ≤ frob M := Real.sqrt_nonneg _

theorem frob_sq {m n : ℕ} (M : Matrix (Fin m) (Fin n) ℂ) : frob M ^ 2 = frob2 M :=
  Real.sq_sqrt (frob2_nonneg M)

section norm
open scoped Matrix.Norms.Frobenius

/-- `frob` is Mathlib's Frobenius norm -/
theorem frob_eq_norm {m n : ℕ} (M : Matrix (Fin m) (Fin n) ℂ) : frob M = ‖M‖ := by
  rw [Matrix.frobenius_norm_def, frob, frob2, Real.sqrt_eq_rpow]
  congr 1
  apply Finset.sum_congr rfl
  intro i _
  apply Finset.sum_congr rfl
  intro j _
  rw [Complex.normSq_eq_norm_sq, Real.rpow_two]

theorem frob_add_le {m n : ℕ} (A B : Matrix (Fin m) (Fin n) ℂ) : frob (A + B) ≤ frob A + frob B := by
  simp only [frob_eq_norm]
  exact norm_add_le A B

theorem frob_sub_le {m n : ℕ} (A B : Matrix (Fin m) (Fin n) ℂ) : frob (A - B) ≤ frob A + frob B := by
  simp only [frob_eq_norm]
  exact norm_sub_le A B

theorem frob_neg {m n : ℕ} (A : Matrix (Fin m) (Fin n) ℂ) : frob (-A) = frob A := by
  simp only [frob_eq_norm]
  exact norm_neg A

theorem frob_sub_comm {m n : ℕ} (A B : Matrix (Fin m) (Fin n) ℂ) : frob (A - B) = frob (B - A) := by
  simp only [frob_eq_norm]
  exact norm_sub_rev A B

theorem frob_zero {m n : ℕ} : frob (0 : Matrix (Fin m) (Fin n) ℂ) = 0 := by
  simp only [frob_eq_norm]
  exact norm_zero

end norm

/-- `Σ |M i j|² = tr(Mᴴ M)` -/
theorem frob2_eq_trace {m n : ℕ} (M : Matrix (Fin m) (Fin n) ℂ) :
    ((frob2 M : ℝ) : ℂ) = Matrix.trace (Mᴴ * M) := by
  simp only [frob2, Matrix.trace, Matrix.diag_apply, Matrix.mul_apply, Matrix.conjTranspose_apply]
  push_cast
  rw [Finset.sum_comm]
  apply Finset.sum_congr rfl
  intro j _
  apply Finset.sum_congr rfl
  intro i _
  rw [Complex.normSq_eq_conj_mul_self]
  rfl

/-- unitary invariance (left multiplication) -/
theorem frob2_unitary_mul {m n : ℕ} (Q : Matrix (Fin m) (Fin m) ℂ) (hQ : Qᴴ * Q = 1)
    (A : Matrix (Fin m) (Fin n) ℂ) : frob2 (Q * A) = frob2 A := by
  have h : ((frob2 (Q * A) : ℝ) : ℂ) = ((frob2 A : ℝ) : ℂ) := by
    rw [frob2_eq_trace, frob2_eq_trace, Matrix.conjTranspose_mul, Matrix.mul_assoc,
      ← Matrix.mul_assoc Qᴴ, hQ, Matrix.one_mul]
  exact_mod_cast h

theorem frob_unitary_mul {m n : ℕ} (Q : Matrix (Fin m) (Fin m) ℂ) (hQ : Qᴴ * Q = 1)
    (A : Matrix (Fin m) (Fin n) ℂ) : frob (Q * A) = frob A := by
  rw [frob, frob, frob2_unitary_mul Q hQ]

/-- a matrix whose only possibly non-zero entry is `z` at `(a₀, b₀)` -/
theorem frob_single {m n : ℕ} (a₀ : Fin m) (b₀ : Fin n) (z : ℂ) :
    frob (fun a b => if a = a₀ ∧ b = b₀ then z else 0 : Matrix (Fin m) (Fin n) ℂ) = ‖z‖ := by
  have h2 : frob2 (fun a b => if a = a₀ ∧ b = b₀ then z else 0 : Matrix (Fin m) (Fin n) ℂ) =
      Complex.normSq z := by
    unfold frob2
    rw [Finset.sum_eq_single a₀, Finset.sum_eq_single b₀]
    · simp
    · intro b _ hb
      simp [hb]
    · simp
    · intro a _ ha
      apply Finset.sum_eq_zero
      intro b _
      simp [ha]
    · simp
  unfold frob
  rw [h2, Complex.normSq_eq_norm_sq, Real.sqrt_sq (norm_nonneg z)]

end PM.C12
