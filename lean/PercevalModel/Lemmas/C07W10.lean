/-
  C07 — wave 10 helper lemmas: the detector pipeline when NOTHING passes the photon filter.
-/
import PercevalModel.Lemmas.C07More

namespace PM.C07
open PM.SimSpec PM.Dist

/-- nothing passes the photon filter: nothing is retained (non-negative distributions) -/
theorem retained_mass_zero_of_physPerf_zero (c : Cond) (d : D) (hn : Nonneg d) (hp : physPerf c d = 0) :
    mass (retained c d) = 0 := by
  unfold retained
  rw [← restrict_restrict]
  exact mass_restrict_zero_of_mass_zero _ _ (nonneg_restrict _ _ hn) hp

/-- the case `inner_drop_post_spec` excludes: when nothing of `x` passes the outer photon filter, the product of the
inner stage's physical performance (`mass y`) and the loss layer's is `0` -/
theorem inner_drop_post_nothing_passes (σ : Sel) (M : ℕ) (x y : D) (hny : Nonneg y)
    (hA : restrict (physOk σ.cond) (postprocess M y) = restrict (physOk σ.cond) (postprocess M x))
    (hp : physPerf σ.cond (postprocess M x) = 0) :
    mass y * (lossPost σ M (normalize (normalize y))).2.2 = 0 := by
  by_cases hW : mass y = 0
  · rw [hW, zero_mul]
  · have hphys : physPerf σ.cond (postprocess M y) = physPerf σ.cond (postprocess M x) := by
      unfold physPerf; rw [hA]
    have hny1 : normalize y = scale (mass y)⁻¹ y := by unfold normalize; rw [if_neg hW]
    have hm1 : mass (normalize y) = 1 := mass_normalize y hW
    have hd' : normalize (normalize y) = scale (mass y)⁻¹ y := by rw [normalize_of_mass_one _ hm1, hny1]
    have hpp : postprocess M (scale (mass y)⁻¹ y) = scale (mass y)⁻¹ (postprocess M y) := by
      unfold postprocess; rw [mapKeys_scale]
    have hp' : physPerf σ.cond (postprocess M (scale (mass y)⁻¹ y)) = 0 := by
      rw [hpp, physPerf_scale, hphys, hp, mul_zero]
    have hk : (0 : ℚ) ≤ (mass y)⁻¹ := inv_nonneg.2 (mass_nonneg y hny)
    have h := lossPost_nothing_passes σ M (scale (mass y)⁻¹ y) (by rw [← hny1]; exact hm1)
      (nonneg_scale _ hk y hny) hp'
    rw [hd', h.1, mul_zero]

/-- `simulate_detectors` (general branch) followed by `_postprocess_bsd` of the loss layer when nothing of the
detected distribution `x` passes the outer photon filter: the reported physical performance is `0` -/
theorem simDet_post_nothing_passes (σ : Sel) (M : ℕ) (x : D) (hx : mass x = 1) (hn : Nonneg x)
    (hp : physPerf σ.cond (postprocess M x) = 0) :
    (1 - mass (restrict (fun t => decide (t.sum < σ.minDet)) x)) *
      (lossPost σ M (normalize (normalize (restrict (fun t => decide (σ.minDet ≤ t.sum)) x)))).2.2 = 0 := by
  have hw : 1 - mass (restrict (fun t => decide (t.sum < σ.minDet)) x) =
      mass (restrict (fun t => decide (σ.minDet ≤ t.sum)) x) := by
    have hadd := mass_restrict_add (fun t => decide (σ.minDet ≤ t.sum)) x
    have hfun : (fun t : Fock => !decide (σ.minDet ≤ t.sum)) = fun t : Fock => decide (t.sum < σ.minDet) := by
      funext t; by_cases h : σ.minDet ≤ t.sum <;> simp [h] <;> omega
    rw [hfun, hx] at hadd
    linarith
  rw [hw]
  exact inner_drop_post_nothing_passes σ M x _ (nonneg_restrict _ x hn) (restrict_physOk_inner σ M x) hp

end PM.C07
