/-
  C10 (extension 3) — helper lemmas for the history state machine (`Model/C10Hist.lean`): the invariant of the
  bookkeeping and its preservation by every mutator that does not go through `compose` (that step is in
  `Props/C10.lean`, where the composition theorems live).
-/
import PercevalModel.Model.C10Hist
import PercevalModel.Lemmas.C10More
import PercevalModel.Lemmas.C10Ext

namespace PM.C10

/-- the invariant of the bookkeeping of a long-lived experiment -/
structure ExpInv (e : Exp) : Prop where
  /-- `_n_moi + _n_heralds` is the number of modes `_mode_type` knows -/
  len : e.nmoi + (e.nher : Int) = (e.mt.length : Int)
  /-- every herald port is a one-mode port on a mode that is not connectible -/
  reserved : HeraldPortsReserved e.cs (e.mt.map MT.isPhot) e.outp
  /-- every mode listed in `heralds` is a mode of the circuit -/
  inside : ∀ h ∈ heraldsOf e.outp, h.1 < e.mt.length
  disjI : PortsDisjoint e.inp
  disjO : PortsDisjoint e.outp

theorem ExpInv.cs_eq {e : Exp} (h : ExpInv e) : e.cs = e.mt.length := by
  unfold Exp.cs; rw [h.len]; simp

/-- availability can only shrink: if `conn'` is connectible nowhere `conn` is not, non-connectible modes stay so -/
theorem connectible_mono {cs cs' : Nat} {conn conn' : List Bool} {k : Int}
    (hcs : ∀ i, cs ≤ i → i < cs' → conn'.getD i false = false)
    (hc : ∀ i, i < cs → conn'.getD i false = true → conn.getD i false = true)
    (h : connectible cs conn k = false) : connectible cs' conn' k = false := by
  unfold connectible at h ⊢
  split_ifs at h ⊢ with h1 h2 h3 h3
  all_goals try rfl
  · -- k ≥ cs, k < cs'
    exact hcs k.toNat (by omega) (by omega)
  · by_contra hne
    have ht : conn'.getD k.toNat false = true := by simpa using hne
    rw [hc k.toNat (by omega) ht] at h; cases h

theorem getD_map_isPhot (mt : List MT) (i : Nat) :
    (mt.map MT.isPhot).getD i false = ((mt[i]?).map MT.isPhot).getD false := by
  simp [List.getD, List.getElem?_map]

theorem connectible_of_nonphot {cs : Nat} {mt : List MT} {k : Nat} {t : MT}
    (h : mt[k]? = some t) (ht : t.isPhot = false) : connectible cs (mt.map MT.isPhot) (k : Int) = false := by
  unfold connectible
  split_ifs
  · rfl
  · rfl
  · simp [getD_map_isPhot, h, ht]

/-- re-typing one mode as non-photonic keeps every non-connectible mode non-connectible -/
theorem connectible_set_nonphot {cs : Nat} {mt : List MT} {j : Nat} {t : MT} {k : Int}
    (ht : t.isPhot = false) (h : connectible cs (mt.map MT.isPhot) k = false) :
    connectible cs ((mt.set j t).map MT.isPhot) k = false := by
  refine connectible_mono (fun i h1 h2 => by omega) (fun i _ hi => ?_) h
  · rw [getD_map_isPhot] at hi ⊢
    by_cases hij : j = i
    · subst hij
      by_cases hl : j < mt.length
      · rw [List.getElem?_set_self hl] at hi
        simp [ht] at hi
      · rw [List.getElem?_eq_none (by simp; omega)] at hi; simp at hi
    · rwa [List.getElem?_set_ne hij] at hi

theorem heraldsOf_sublist {a b : List Port} (h : a.Sublist b) : (heraldsOf a).Sublist (heraldsOf b) := by
  unfold heraldsOf
  exact (h.filter _).map _

theorem heraldsOf_single_plain (p : Port) (hp : p.herald = false) : heraldsOf [p] = [] := by
  simp [heraldsOf, hp]

theorem removeFirst_sublist {ports out : List Port} {m : Nat} (h : removeFirst ports m = some out) :
    out.Sublist ports := by
  unfold removeFirst at h
  split at h
  · cases h
  · cases h; exact List.eraseIdx_sublist _ _

theorem reserved_sublist {cs : Nat} {conn : List Bool} {a b : List Port} (hs : a.Sublist b)
    (h : HeraldPortsReserved cs conn b) : HeraldPortsReserved cs conn a :=
  fun p hp hh => h p (hs.subset hp) hh

/-! ### construction -/

theorem new_inv (m : Option Nat) (e : Exp) (h : Exp.new m = .ok e) : ExpInv e := by
  unfold Exp.new at h
  split at h
  · cases h
    exact ⟨by simp, fun p hp => (by cases hp), fun x hx => (by simp [heraldsOf] at hx),
      List.Pairwise.nil, List.Pairwise.nil⟩
  · split_ifs at h
    cases h
    exact ⟨by simp, fun p hp => (by cases hp), fun x hx => (by simp [heraldsOf] at hx),
      List.Pairwise.nil, List.Pairwise.nil⟩

/-! ### `add_herald` -/

theorem addHerald_inv (e e' : Exp) (mode expected : Nat) (name : Option String) (hi : ExpInv e)
    (h : addHerald e mode expected name = .ok e') : ExpInv e' := by
  unfold addHerald at h
  split_ifs at h with h1 h2 h3
  cases h
  have hfree : modesFree e.inp mode 1 = true ∧ modesFree e.outp mode 1 = true := by
    simpa using h2
  have hlt : mode < e.mt.length := by omega
  have hcs := hi.cs_eq
  refine ⟨?_, ?_, ?_, ?_, ?_⟩
  · simp only [List.length_set]; have := hi.len; push_cast; omega
  · intro p hp hh
    have hcs' : (e.nmoi - 1 + ((e.nher + 1 : Nat) : Int)).toNat = e.cs := by
      unfold Exp.cs; congr 1; push_cast; omega
    show p.size = 1 ∧ connectible (e.nmoi - 1 + ((e.nher + 1 : Nat) : Int)).toNat
      ((e.mt.set mode MT.herald).map MT.isPhot) (p.start : Int) = false
    rw [hcs']
    replace hp : p ∈ e.outp ++ [(⟨mode, 1, name.getD "herald#", true, expected, name⟩ : Port)] := hp
    rcases List.mem_append.1 hp with hp | hp
    · obtain ⟨hs, hc⟩ := hi.reserved p hp hh
      exact ⟨hs, connectible_set_nonphot rfl hc⟩
    · rw [List.mem_singleton] at hp
      subst hp
      exact ⟨rfl, connectible_of_nonphot (t := .herald) (List.getElem?_set_self hlt) rfl⟩
  · intro x hx
    simp only [List.length_set]
    replace hx : x ∈ heraldsOf (e.outp ++ [(⟨mode, 1, name.getD "herald#", true, expected, name⟩ : Port)]) := hx
    rw [heraldsOf_append, heraldsOf_single_herald _ rfl] at hx
    rcases List.mem_append.1 hx with hx | hx
    · exact hi.inside x hx
    · rw [List.mem_singleton] at hx; subst hx; exact hlt
  · exact portsDisjoint_append_single _ _ hi.disjI hfree.1
  · exact portsDisjoint_append_single _ _ hi.disjO hfree.2

/-! ### `add_port`, `remove_port` -/

theorem appIf_disjoint (c : Bool) (l : List Port) (p : Port) (hd : PortsDisjoint l)
    (hf : c = true → modesFree l p.start p.size = true) : PortsDisjoint (appIf c l p) := by
  unfold appIf
  split_ifs with hc
  · exact portsDisjoint_append_single _ _ hd (hf hc)
  · exact hd

theorem mem_appIf {c : Bool} {l : List Port} {p q : Port} (h : q ∈ appIf c l p) : q ∈ l ∨ q = p := by
  unfold appIf at h
  split_ifs at h
  · rcases List.mem_append.1 h with h | h
    · exact Or.inl h
    · exact Or.inr (List.mem_singleton.1 h)
  · exact Or.inl h

theorem heraldsOf_appIf (c : Bool) (l : List Port) (p : Port) (hp : p.herald = false) :
    heraldsOf (appIf c l p) = heraldsOf l := by
  unfold appIf
  split_ifs
  · rw [heraldsOf_append, heraldsOf_single_plain _ hp, List.append_nil]
  · rfl

theorem addPort_inv (e e' : Exp) (mode size : Nat) (name : String) (loc : Loc) (hi : ExpInv e)
    (h : addPort e mode size name loc = .ok e') : ExpInv e' := by
  unfold addPort at h
  split_ifs at h with h1 h2
  cases h
  refine ⟨hi.len, ?_, ?_, ?_, ?_⟩
  · intro p hp hh
    rcases mem_appIf hp with hp | hp
    · exact hi.reserved p hp hh
    · subst hp; cases hh
  · intro x hx
    replace hx : x ∈ heraldsOf (appIf loc.hasOut e.outp ⟨mode, size, name, false, 0, none⟩) := hx
    rw [heraldsOf_appIf _ _ _ rfl] at hx
    exact hi.inside x hx
  · refine appIf_disjoint _ _ _ hi.disjI (fun hl => ?_)
    have : ¬ (loc.hasIn = true ∧ modesFree e.inp mode size = false) := by simpa using h1
    cases hm : modesFree e.inp mode size with
    | true => rfl
    | false => exact absurd ⟨hl, hm⟩ this
  · refine appIf_disjoint _ _ _ hi.disjO (fun hl => ?_)
    have : ¬ (loc.hasOut = true ∧ modesFree e.outp mode size = false) := by simpa using h2
    cases hm : modesFree e.outp mode size with
    | true => rfl
    | false => exact absurd ⟨hl, hm⟩ this

theorem removePort_inv (e e' : Exp) (m : Nat) (loc : Loc) (hi : ExpInv e)
    (h : removePort e m loc = .ok e') : ExpInv e' := by
  unfold removePort at h
  split at h
  · cases h
  · rename_i inp hinp
    split at h
    · cases h
    · rename_i outp houtp
      cases h
      have hsi : inp.Sublist e.inp := by
        split_ifs at hinp
        · exact removeFirst_sublist hinp
        · cases hinp; exact List.Sublist.refl _
      have hso : outp.Sublist e.outp := by
        split_ifs at houtp
        · exact removeFirst_sublist houtp
        · cases houtp; exact List.Sublist.refl _
      exact ⟨hi.len, reserved_sublist hso hi.reserved,
        fun x hx => hi.inside x ((heraldsOf_sublist hso).subset hx),
        List.Pairwise.sublist hsi hi.disjI, List.Pairwise.sublist hso hi.disjO⟩

/-! ### the prelude of `Experiment.add`, repaired (`circuit_size == 0`) -/

theorem defaultM_inv (e e' : Exp) (value : Except HErr Int) (hi : ExpInv e)
    (h : defaultM true e value = .ok e') :
    ExpInv e' ∧ e'.inp = e.inp ∧ e'.outp = e.outp ∧ e'.ps = e.ps ∧ e.mt.length ≤ e'.mt.length := by
  unfold defaultM needDefault at h
  simp only [if_true] at h
  by_cases h0 : (e.cs == 0) = true
  · rw [if_pos h0] at h
    cases value with
    | error x => cases h
    | ok v =>
      simp only at h
      by_cases hn : e.nmoi ≠ 0
      · rw [if_pos hn] at h; cases h
      · rw [if_neg hn] at h
        by_cases hv : v < 1
        · rw [if_pos hv] at h; cases h
        · rw [if_neg hv] at h
          cases h
          have hcs : e.cs = 0 := by simpa using h0
          have hl0 : e.mt.length = 0 := by rw [← hi.cs_eq]; exact hcs
          have hno : heraldsOf e.outp = [] := by
            cases hh : heraldsOf e.outp with
            | nil => rfl
            | cons x xs => have := hi.inside x (by rw [hh]; exact List.mem_cons_self); omega
          have hnher : e.nher = 0 := by
            have := hi.len
            have hn' : e.nmoi = 0 := by simpa using hn
            rw [hn', hl0] at this; omega
          refine ⟨⟨?_, ?_, ?_, hi.disjI, hi.disjO⟩, rfl, rfl, rfl, by omega⟩
          · simp only [List.length_replicate, hnher]; omega
          · intro p hp hh
            have := heraldsOf_mem hp hh
            rw [hno] at this; cases this
          · intro x hx; rw [hno] at hx; cases hx
  · rw [if_neg h0] at h
    cases h
    exact ⟨hi, rfl, rfl, rfl, le_refl _⟩

/-! ### `add(mode, Detector)` -/

theorem addDet_inv (e e' : Exp) (mode : Nat) (name : String) (hi : ExpInv e)
    (h : addDet true e mode name = .ok e') : ExpInv e' := by
  unfold addDet at h
  split at h
  · cases h
  · rename_i e1 h1
    obtain ⟨hi1, -, -, -, -⟩ := defaultM_inv e e1 _ hi h1
    split at h
    · cases h
    · cases h
    · rename_i t ht hnc
      split_ifs at h with hd
      cases h
      have hlen : (retype e1.mt mode t).length = e1.mt.length := by
        unfold retype; split_ifs <;> simp
      refine ⟨by simp only [hlen]; exact hi1.len, ?_, ?_, hi1.disjI, hi1.disjO⟩
      · intro p hp hh
        obtain ⟨hs, hc⟩ := hi1.reserved p hp hh
        refine ⟨hs, ?_⟩
        show connectible e1.cs ((retype e1.mt mode t).map MT.isPhot) (p.start : Int) = false
        unfold retype
        split_ifs
        · exact connectible_set_nonphot rfl hc
        · exact hc
      · intro x hx
        simp only [hlen]
        exact hi1.inside x hx

/-- what the history theorems ask of the objects handed to `add`: the `heralds` of an added processor is the list
of its herald ports (true by construction of `Experiment.heralds`; `Exp.side` satisfies it by definition) -/
def HOp.rightOK : HOp → Prop
  | .add r _ _ => r.comp = false → r.heralds = heraldsOf r.outp
  | _ => True

theorem setps_inv (e : Exp) (ps : PS) (hi : ExpInv e) : ExpInv { e with ps := some ps } :=
  ⟨hi.len, hi.reserved, hi.inside, hi.disjI, hi.disjO⟩

theorem map_isPhot_append_heralds (mt : List MT) (k : Nat) :
    (mt ++ List.replicate k MT.herald).map MT.isPhot = mt.map MT.isPhot ++ List.replicate k false := by
  simp [MT.isPhot]

end PM.C10
