/-
  Lemmas for C03, section 11 of Props/C03.lean: `evolve` / `evolve_svd` at amplitude level, the native cut.
-/
import PercevalModel.Model.C03Evolve
import PercevalModel.Lemmas.C03Prec

open Matrix

namespace PM.C03
open PM.Fock PM.Dist PM.SimSpec

/-- gathering equal annotated outputs does not change the amplitude of any output -/
theorem ampGet_gatherAmps (l : AL) (K : List Fock) : ampGet (gatherAmps l) K = ampGet l K := by
  have h := (gather_inv l [] (by simp)).2.1 K
  rw [← gatherAmps_eq, ampGet_nil, zero_add] at h
  exact h

theorem ampGet_perm {a b : AL} (h : a.Perm b) (K : List Fock) : ampGet a K = ampGet b K := by
  unfold ampGet
  exact ((h.filter _).map _).sum_eq

theorem mass_map_div {α : Type*} (l : List α) (g : α → Fock) (f : α → ℚ) (n2 : ℚ) :
    mass (l.map fun p => (g p, f p / n2)) = (l.map f).sum / n2 := by
  induction l with
  | nil => simp
  | cons x r ih => simp only [List.map_cons, mass_cons, List.sum_cons, ih, add_div]

/-- triangle inequality for moduli with rational upper square roots, on the scale `c` -/
theorem normSq_sum_le (l : List GQ) (c : ℚ) (hc : 0 ≤ c) :
    GQ.normSq l.sum * c ≤ ((l.map fun z => sqrtUp (GQ.normSq z * c)).sum) ^ 2 := by
  induction l with
  | nil => simp [normSq_zero]
  | cons z r ih =>
    simp only [List.sum_cons, List.map_cons]
    set S := (r.map fun z => sqrtUp (GQ.normSq z * c)).sum with hS
    set R := r.sum with hR
    have hS0 : 0 ≤ S := by
      apply List.sum_nonneg
      intro x hx
      obtain ⟨y, _, rfl⟩ := List.mem_map.1 hx
      exact sqrtUp_nonneg _
    set s := sqrtUp (GQ.normSq z * c) with hs
    have hs0 : 0 ≤ s := sqrtUp_nonneg _
    have hp : GQ.normSq z * c ≤ s * s := sqrtUp_sq _
    have hp0 : 0 ≤ GQ.normSq z * c := mul_nonneg (normSq_nonneg _) hc
    have hq0 : 0 ≤ GQ.normSq R * c := mul_nonneg (normSq_nonneg _) hc
    set x := (z.re * R.re + z.im * R.im) * c with hx
    have hexp : GQ.normSq (z + R) * c = GQ.normSq z * c + GQ.normSq R * c + 2 * x := by
      simp only [hx, GQ.normSq, GQ.add_re, GQ.add_im]; ring
    have hcs : x ^ 2 ≤ (GQ.normSq z * c) * (GQ.normSq R * c) := by
      simp only [hx, GQ.normSq]
      have := mul_nonneg (mul_nonneg hc hc) (sq_nonneg (z.re * R.im - z.im * R.re))
      nlinarith [this]
    have hsS : x ^ 2 ≤ (s * S) ^ 2 := by
      have h1 : (GQ.normSq z * c) * (GQ.normSq R * c) ≤ (s * s) * (S ^ 2) :=
        mul_le_mul hp ih hq0 (mul_nonneg hs0 hs0)
      calc x ^ 2 ≤ _ := hcs
        _ ≤ _ := h1
        _ = _ := by ring
    have hx' := (abs_le.1 (abs_le_of_sq_le_sq hsS (mul_nonneg hs0 hS0))).2
    rw [hexp]
    nlinarith [hx', hp, ih]

theorem sum_filter_le_of_perm {α : Type*} {a b l : List α} (h : (a ++ b).Perm l) (P : α → Bool) (f : α → ℚ)
    (hf : ∀ x, 0 ≤ f x) : ((b.filter P).map f).sum ≤ ((l.filter P).map f).sum := by
  rw [← ((h.filter P).map f).sum_eq, List.filter_append, List.map_append, List.sum_append]
  have : 0 ≤ ((a.filter P).map f).sum := by
    apply List.sum_nonneg
    intro x hx
    obtain ⟨y, _, rfl⟩ := List.mem_map.1 hx
    exact hf y
  linarith

end PM.C03
