/-
  C04 — a-priori bounds on the trimmed mass: every threshold removes at most
  (threshold) × (number of entries of the stage it acts on).

  * `_preprocess_svd`: a dropped member has weight ≤ θ and its distribution has mass ≤ 1;
  * `list_tensor_product(prob_threshold = θ')`: a leaf of the product tree that is missing from the result lies under a
    factor entry ≤ θ' (pre-filter) or under a partial product < θ' (pruning); the other factors are ≤ 1, so its value is
    ≤ θ'.  With θ' = θ / (10·w) and the member's weight w this is θ/10 per missing entry;
  * `simulate_detectors`: the same with θ' = max(θ, θ/(10·p)) and the state's probability p ≤ 1: at most θ per missing
    entry.
  The relation `TrimLe θ a b` ("`a` misses at most θ per missing entry of `b`") is additive over concatenation.
-/
import PercevalModel.Lemmas.C04TrimDet

namespace PM.C04
open PM.Fock PM.Dist PM.SimSpec

/-- `mass b − mass a ≤ θ · (|b| − |a|)`, written without subtraction -/
def TrimLe (θ : ℚ) (a b : D) : Prop := mass b + θ * (a.length : ℚ) ≤ mass a + θ * (b.length : ℚ)

theorem TrimLe.refl (θ : ℚ) (a : D) : TrimLe θ a a := le_refl _

theorem TrimLe.append {θ : ℚ} {a b a' b' : D} (h : TrimLe θ a b) (h' : TrimLe θ a' b') :
    TrimLe θ (a ++ a') (b ++ b') := by
  unfold TrimLe at *
  simp only [mass_append, List.length_append, Nat.cast_add]
  linarith

/-- a list whose entries are all ≤ θ weighs at most θ per entry -/
theorem TrimLe.nil_of_small {θ : ℚ} : ∀ {b : D}, (∀ x ∈ b, x.2 ≤ θ) → TrimLe θ [] b
  | [], _ => le_refl _
  | x :: r, h => by
    have ih := TrimLe.nil_of_small (b := r) (fun y hy => h y (List.mem_cons_of_mem _ hy))
    have hx := h x List.mem_cons_self
    unfold TrimLe at *
    simp only [mass_cons, List.length_cons, List.length_nil, Nat.cast_zero, Nat.cast_add, Nat.cast_one, mass_nil,
      mul_zero, add_zero, zero_add] at *
    linarith

theorem TrimLe.mono {θ θ' : ℚ} {a b : D} (h : TrimLe θ a b) (hθ : θ ≤ θ') (hl : a.length ≤ b.length) :
    TrimLe θ' a b := by
  unfold TrimLe at *
  have : (a.length : ℚ) ≤ (b.length : ℚ) := by exact_mod_cast hl
  nlinarith

theorem TrimLe.scale {θ : ℚ} {a b : D} (h : TrimLe θ a b) {w : ℚ} (hw : 0 ≤ w) :
    TrimLe (w * θ) (scale w a) (scale w b) := by
  unfold TrimLe at *
  have e1 : (Dist.scale w a).length = a.length := by simp [Dist.scale]
  have e2 : (Dist.scale w b).length = b.length := by simp [Dist.scale]
  rw [mass_scale, mass_scale, e1, e2]
  nlinarith

/-- entries between 0 and 1 -/
def Unit01 (d : D) : Prop := ∀ p ∈ d, 0 ≤ p.2 ∧ p.2 ≤ 1

theorem entry_le_mass {d : D} (hn : NN d) : ∀ p ∈ d, p.2 ≤ mass d := by
  induction d with
  | nil => intro p hp; cases hp
  | cons x r ih =>
    intro p hp
    have hr : NN r := fun y hy => hn y (List.mem_cons_of_mem _ hy)
    have hx := hn x List.mem_cons_self
    rw [mass_cons]
    rcases List.mem_cons.1 hp with rfl | hp
    · have := hr.mass_nonneg; linarith
    · have := ih hr p hp; linarith

theorem Unit01.of_NN_mass_le {d : D} (hn : NN d) (hm : mass d ≤ 1) : Unit01 d :=
  fun p hp => ⟨hn p hp, le_trans (entry_le_mass hn p hp) hm⟩

theorem Unit01.restrict {d : D} (h : Unit01 d) (f : Fock → Bool) : Unit01 (restrict f d) :=
  fun p hp => h p (mem_restrict hp)

/-- every leaf under a partial product `q` is between 0 and `q` -/
theorem convAll_entries_le {q : ℚ} (hq : 0 ≤ q) : ∀ (rest : List D), (∀ d ∈ rest, Unit01 d) → ∀ acc : D,
    (∀ x ∈ acc, 0 ≤ x.2 ∧ x.2 ≤ q) → ∀ x ∈ convAll acc rest, 0 ≤ x.2 ∧ x.2 ≤ q
  | [], _, _, hacc => by simpa using hacc
  | d :: rest, hu, acc, hacc => by
    rw [convAll_cons]
    apply convAll_entries_le hq rest (fun d' hd' => hu d' (List.mem_cons_of_mem _ hd'))
    intro x hx
    obtain ⟨a, ha, b, hb, rfl⟩ := mem_conv hx
    obtain ⟨a0, a1⟩ := hacc a ha
    obtain ⟨b0, b1⟩ := hu d List.mem_cons_self b hb
    exact ⟨mul_nonneg a0 b0, by nlinarith⟩

theorem convAll_single_cons (cur : Fock) (p : ℚ) (d : D) (rest : List D) :
    convAll [(cur, p)] (d :: rest) = d.flatMap fun q => convAll [(fadd cur q.1, p * q.2)] rest := by
  rw [convAll_cons]
  have : conv [(cur, p)] d = d.flatMap fun q => [(fadd cur q.1, p * q.2)] := by
    simp only [conv, List.flatMap_cons, List.flatMap_nil, List.append_nil]
    exact map_eq_flatMap_singleton _ d
  rw [this, convAll_flatMap]

/-- **the product tree**: what `_inner_tensor_product` at threshold `θ` (on the pre-filtered factors) leaves out of the
full product weighs at most `θ` per missing leaf -/
theorem innerTP_trimLe {θ : ℚ} : ∀ (ds : List D), (∀ d ∈ ds, Unit01 d) → ∀ (cur : Fock) (p : ℚ),
    0 ≤ p → p ≤ 1 →
    TrimLe θ (PM.C03.innerTP θ (ds.map fun d => d.filter fun e => θ < e.2) cur p) (convAll [(cur, p)] ds)
  | [], _, cur, p, _, _ => TrimLe.refl _ _
  | d :: rest, hu, cur, p, hp0, hp1 => by
    have hrest : ∀ d' ∈ rest, Unit01 d' := fun d' hd' => hu d' (List.mem_cons_of_mem _ hd')
    rw [convAll_single_cons]
    simp only [List.map_cons, PM.C03.innerTP]
    -- induction over the entries of the first factor
    have key : ∀ d' : D, (∀ e ∈ d', 0 ≤ e.2 ∧ e.2 ≤ 1) →
        TrimLe θ
          ((d'.filter fun e => θ < e.2).flatMap fun e =>
            if p * e.2 < θ then [] else
              PM.C03.innerTP θ (rest.map fun d => d.filter fun e => θ < e.2) (fadd e.1 cur) (p * e.2))
          (d'.flatMap fun q => convAll [(fadd cur q.1, p * q.2)] rest) := by
      intro d'
      induction d' with
      | nil => intro _; exact TrimLe.refl _ _
      | cons e d'' ih =>
        intro hd
        obtain ⟨e0, e1⟩ := hd e List.mem_cons_self
        have ih' := ih (fun x hx => hd x (List.mem_cons_of_mem _ hx))
        have hpe0 : 0 ≤ p * e.2 := mul_nonneg hp0 e0
        have hpe1 : p * e.2 ≤ 1 := by nlinarith
        have hpe : p * e.2 ≤ e.2 := by nlinarith
        have hleaf : ∀ x ∈ convAll [(fadd cur e.1, p * e.2)] rest, 0 ≤ x.2 ∧ x.2 ≤ p * e.2 :=
          convAll_entries_le hpe0 rest hrest _ (by
            intro x hx
            simp only [List.mem_singleton] at hx
            subst hx
            exact ⟨hpe0, le_refl _⟩)
        simp only [List.flatMap_cons]
        by_cases h1 : θ < e.2
        · have hf : ((e :: d'').filter fun e => θ < e.2) = e :: (d''.filter fun e => θ < e.2) := by
            simp [List.filter_cons, h1]
          rw [hf, List.flatMap_cons]
          apply TrimLe.append _ ih'
          by_cases h2 : p * e.2 < θ
          · rw [if_pos h2]
            exact TrimLe.nil_of_small (fun x hx => le_trans (hleaf x hx).2 (le_of_lt h2))
          · rw [if_neg h2, fadd_comm e.1 cur]
            exact innerTP_trimLe rest hrest _ _ hpe0 hpe1
        · have hf : ((e :: d'').filter fun e => θ < e.2) = (d''.filter fun e => θ < e.2) := by
            simp [List.filter_cons, h1]
          rw [hf]
          have h1' : e.2 ≤ θ := not_lt.1 h1
          have := TrimLe.append (TrimLe.nil_of_small (θ := θ)
            (fun x hx => le_trans (hleaf x hx).2 (le_trans hpe h1'))) ih'
          simpa using this
    exact key d (hu d List.mem_cons_self)

theorem conv_nil_right (a : D) : conv a [] = [] := by
  induction a with
  | nil => rfl
  | cons p r ih => simp [conv]

theorem convAll_of_empty_factor : ∀ (ds : List D) (acc : D), (∃ d ∈ ds, d = []) → convAll acc ds = []
  | [], _, h => by obtain ⟨d, hd, _⟩ := h; cases hd
  | d :: rest, acc, h => by
    rw [convAll_cons]
    by_cases hd : d = []
    · rw [hd, conv_nil_right, convAll_nil_acc]
    · apply convAll_of_empty_factor rest
      obtain ⟨d', hd', e⟩ := h
      rcases List.mem_cons.1 hd' with rfl | h'
      · exact absurd e hd
      · exact ⟨d', h', e⟩

/-- **`list_tensor_product(merge_modes=True, prob_threshold=θ)`** leaves out at most `θ` per missing entry of the full
product (at least one factor) -/
theorem listTensor_trimLe (m : ℕ) {θ : ℚ} (ds : List D) (hne : ds ≠ []) (hu : ∀ d ∈ ds, Unit01 d)
    (hlen : ∀ d ∈ ds, ∀ q ∈ d, q.1.length = m) :
    TrimLe θ (PM.C03.listTensor m θ ds) (convAll [(zeros m, 1)] ds) := by
  match ds, hne, hu, hlen with
  | [], hne, _, _ => exact absurd rfl hne
  | [d], _, _, hlen =>
    simp only [PM.C03.listTensor, convAll_cons, convAll_nil]
    rw [conv_zeros_left m d (hlen d List.mem_cons_self)]
    exact TrimLe.refl _ _
  | d₁ :: d₂ :: rest, _, hu, _ =>
    simp only [PM.C03.listTensor]
    split
    · next hany =>
      have : ∃ d ∈ d₁ :: d₂ :: rest, d = [] := by
        obtain ⟨d, hd, he⟩ := List.any_eq_true.1 hany
        exact ⟨d, hd, List.isEmpty_iff.1 he⟩
      rw [convAll_of_empty_factor _ _ this]
      exact TrimLe.refl _ _
    · exact innerTP_trimLe _ hu _ _ (by norm_num) (le_refl _)

/-! ### the fast path: members and per-member products -/

theorem groupDist_unit01 (eng : Fock → D) (c : Cfg) (nExt : ℕ) (s : Fock) (hn : NN (eng s)) (hm : mass (eng s) = 1) :
    Unit01 (groupDist eng c nExt s) := by
  rw [groupDist_fun]
  exact (Unit01.of_NN_mass_le hn (le_of_eq hm)).restrict _

theorem memberDistθ_trimLe (eng : Fock → D) (c : Cfg) (θ : ℚ) (mb : Member) (hne : mb.groups ≠ [])
    (hn : ∀ s ∈ mb.groups, NN (eng s)) (hm : ∀ s ∈ mb.groups, mass (eng s) = 1)
    (hl : ∀ s ∈ mb.groups, ∀ q ∈ eng s, q.1.length = c.m) :
    TrimLe (θ / (10 * mb.w)) (memberDistθ eng c θ mb) (memberDist eng c mb) := by
  apply listTensor_trimLe
  · simpa using hne
  · intro d hd
    obtain ⟨s, hs, rfl⟩ := List.mem_map.1 hd
    exact groupDist_unit01 eng c mb.n s (hn s hs) (hm s hs)
  · intro d hd q hq
    obtain ⟨s, hs, rfl⟩ := List.mem_map.1 hd
    exact groupDist_length eng c mb.n s (hl s hs) q hq

theorem mass_convAll_le : ∀ (ds : List D) (acc : D), (∀ d ∈ ds, 0 ≤ mass d ∧ mass d ≤ 1) → 0 ≤ mass acc →
    0 ≤ mass (convAll acc ds) ∧ mass (convAll acc ds) ≤ mass acc
  | [], acc, _, h0 => ⟨h0, le_refl _⟩
  | d :: ds, acc, h, h0 => by
    rw [convAll_cons]
    obtain ⟨d0, d1⟩ := h d List.mem_cons_self
    have hc : 0 ≤ mass (conv acc d) := by rw [mass_conv]; exact mul_nonneg h0 d0
    obtain ⟨r0, r1⟩ := mass_convAll_le ds (conv acc d) (fun d' hd' => h d' (List.mem_cons_of_mem _ hd')) hc
    refine ⟨r0, le_trans r1 ?_⟩
    rw [mass_conv]
    nlinarith

theorem mass_memberDist_le (eng : Fock → D) (c : Cfg) (mb : Member)
    (hn : ∀ s ∈ mb.groups, NN (eng s)) (hm : ∀ s ∈ mb.groups, mass (eng s) = 1) :
    0 ≤ mass (memberDist eng c mb) ∧ mass (memberDist eng c mb) ≤ 1 := by
  have := mass_convAll_le (mb.groups.map (groupDist eng c mb.n)) [(zeros c.m, 1)] (by
    intro d hd
    obtain ⟨s, hs, rfl⟩ := List.mem_map.1 hd
    rw [groupDist_fun]
    exact ⟨((hn s hs).restrict _).mass_nonneg, by rw [← hm s hs]; exact mass_restrict_le (hn s hs) _⟩) (by simp)
  simpa [memberDist] using this

/-- members at or below the threshold: at most `θ` each -/
theorem mix_filter_drop (θ : ℚ) (f : Member → D) : ∀ l : List Member,
    (∀ mb ∈ l, 0 ≤ mb.w ∧ 0 ≤ mass (f mb) ∧ mass (f mb) ≤ 1) →
    mass (mix (l.map fun mb => (mb.w, f mb))) + θ * ((l.filter fun mb => decide (θ < mb.w)).length : ℚ) ≤
      mass (mix ((l.filter fun mb => decide (θ < mb.w)).map fun mb => (mb.w, f mb))) + θ * (l.length : ℚ)
  | [], _ => le_refl _
  | mb :: r, h => by
    have ih := mix_filter_drop θ f r (fun x hx => h x (List.mem_cons_of_mem _ hx))
    obtain ⟨w0, m0, m1⟩ := h mb List.mem_cons_self
    by_cases hw : θ < mb.w
    · have e : ((mb :: r).filter fun mb => decide (θ < mb.w)) = mb :: r.filter fun mb => decide (θ < mb.w) := by
        simp [hw]
      rw [e]
      simp only [List.map_cons, mix_cons', mass_append, List.length_cons, Nat.cast_add, Nat.cast_one]
      linarith
    · have e : ((mb :: r).filter fun mb => decide (θ < mb.w)) = r.filter fun mb => decide (θ < mb.w) := by
        simp [hw]
      rw [e]
      simp only [List.map_cons, mix_cons', mass_append, mass_scale, List.length_cons, Nat.cast_add, Nat.cast_one]
      have : mb.w * mass (f mb) ≤ θ := by nlinarith [not_lt.1 hw]
      linarith

/-- per-member products: `θ/10` per missing entry, whatever the member's weight -/
theorem mix_trimLe (θ : ℚ) (f g : Member → D) : ∀ l : List Member,
    (∀ mb ∈ l, 0 < mb.w ∧ TrimLe (θ / (10 * mb.w)) (g mb) (f mb)) →
    TrimLe (θ / 10) (mix (l.map fun mb => (mb.w, g mb))) (mix (l.map fun mb => (mb.w, f mb)))
  | [], _ => TrimLe.refl _ _
  | mb :: r, h => by
    obtain ⟨w0, ht⟩ := h mb List.mem_cons_self
    simp only [List.map_cons, mix_cons']
    apply TrimLe.append _ (mix_trimLe θ f g r (fun x hx => h x (List.mem_cons_of_mem _ hx)))
    have := ht.scale (le_of_lt w0)
    have e : mb.w * (θ / (10 * mb.w)) = θ / 10 := by field_simp
    rwa [e] at this

theorem pThreshold_nonneg (P : Prec) (c : Cfg) (members : List Member) (hminp : 0 ≤ P.minp) :
    0 ≤ pThreshold P c members := le_trans hminp (le_max_left _ _)

/-- the list accumulated after the member threshold only (full per-member products) -/
def codeResMid (eng : Fock → D) (P : Prec) (c : Cfg) (members : List Member) : D :=
  mix ((keptθ P c members).map fun mb => (mb.w, memberDist eng c mb))

/-- **a-priori bound, fast path** (fine form): the two thresholds remove at most `θ` per dropped member plus `θ/10`
per missing entry of the per-member products -/
theorem trimmedMass_apriori_fine (eng : Fock → D) (P : Prec) (c : Cfg) (members : List Member)
    (he : EngOK eng c.m members) (hmix : MixOK members) (hg : ∀ mb ∈ members, mb.groups ≠ []) (hminp : 0 ≤ P.minp) :
    trimmedMass eng P c members ≤
      pThreshold P c members * (((kept c members).length : ℚ) - ((keptθ P c members).length : ℚ)) +
      pThreshold P c members / 10 *
        (((codeResMid eng P c members).length : ℚ) - ((codeResθ eng P c members).length : ℚ)) := by
  have hθ := pThreshold_nonneg P c members hminp
  have h1 := mix_filter_drop (pThreshold P c members) (memberDist eng c) (kept c members) (by
    intro mb hmb
    have hm := mem_kept hmb
    exact ⟨hmix.wpos mb hm, mass_memberDist_le eng c mb (he.nonneg mb hm) (he.massOne mb hm)⟩)
  have h2 : TrimLe (pThreshold P c members / 10) (codeResθ eng P c members) (codeResMid eng P c members) := by
    apply mix_trimLe
    intro mb hmb
    have hk := (List.mem_filter.1 hmb).1
    have hm := mem_kept hk
    have hw : pThreshold P c members < mb.w := by simpa using (List.mem_filter.1 hmb).2
    exact ⟨lt_of_le_of_lt hθ hw, memberDistθ_trimLe eng c _ mb (hg mb hm) (he.nonneg mb hm) (he.massOne mb hm)
      (fun s hs q hq => (he.shape mb hm s hs q hq).1)⟩
  unfold TrimLe at h2
  unfold trimmedMass
  have e : mix ((kept c members).filter (fun mb => decide (pThreshold P c members < mb.w)) |>.map
      fun mb => (mb.w, memberDist eng c mb)) = codeResMid eng P c members := rfl
  rw [e] at h1
  have e2 : ((kept c members).filter fun mb => decide (pThreshold P c members < mb.w)) = keptθ P c members := rfl
  rw [e2] at h1
  linarith

theorem mix_length (l : List Member) (f : Member → D) :
    (mix (l.map fun mb => (mb.w, f mb))).length = (l.map fun mb => (f mb).length).sum := by
  induction l with
  | nil => rfl
  | cons mb r ih =>
    simp only [List.map_cons, mix_cons', List.length_append, List.sum_cons, ih, Dist.scale, List.length_map]

/-- **a-priori bound, fast path**: `trimmed mass ≤ θ · (members that pass the filter + entries of the accumulated
list / 10)` — threshold × number of entries of each stage -/
theorem trimmedMass_apriori (eng : Fock → D) (P : Prec) (c : Cfg) (members : List Member)
    (he : EngOK eng c.m members) (hmix : MixOK members) (hg : ∀ mb ∈ members, mb.groups ≠ []) (hminp : 0 ≤ P.minp) :
    trimmedMass eng P c members ≤
      pThreshold P c members * (((kept c members).length : ℚ) + ((codeRes eng c members).length : ℚ) / 10) := by
  have hθ := pThreshold_nonneg P c members hminp
  have h := trimmedMass_apriori_fine eng P c members he hmix hg hminp
  have hsub : (codeResMid eng P c members).Sublist (codeRes eng c members) :=
    mix_sublist _ _ List.filter_sublist (fun mb => ⟨rfl, List.Sublist.refl _⟩)
  have hl : ((codeResMid eng P c members).length : ℚ) ≤ ((codeRes eng c members).length : ℚ) := by
    exact_mod_cast hsub.length_le
  have h0 : (0 : ℚ) ≤ ((keptθ P c members).length : ℚ) := Nat.cast_nonneg _
  have h1 : (0 : ℚ) ≤ ((codeResθ eng P c members).length : ℚ) := Nat.cast_nonneg _
  nlinarith

/-- the threshold itself is at most `max(min_p, precision)` -/
theorem weight_le_one {members : List Member} (hmix : MixOK members) {mb : Member} (hmb : mb ∈ members) : mb.w ≤ 1 := by
  rw [← hmix.wsum]
  have : ∀ x ∈ members.map (·.w), 0 ≤ x := by
    intro x hx
    obtain ⟨y, hy, rfl⟩ := List.mem_map.1 hx
    exact hmix.wpos y hy
  exact List.single_le_sum this _ (List.mem_map_of_mem hmb)

theorem foldl_max_le (b : ℚ) : ∀ (l : List ℚ) (a : ℚ), a ≤ b → (∀ x ∈ l, x ≤ b) → l.foldl max a ≤ b
  | [], _, ha, _ => ha
  | x :: r, a, ha, h => by
    simp only [List.foldl_cons]
    exact foldl_max_le b r _ (max_le ha (h x List.mem_cons_self)) (fun y hy => h y (List.mem_cons_of_mem _ hy))

theorem pThreshold_le (P : Prec) (c : Cfg) (members : List Member) (hmix : MixOK members) (hprec : 0 ≤ P.prec) :
    pThreshold P c members ≤ max P.minp P.prec := by
  have hM : maxP c members ≤ 1 := by
    apply foldl_max_le 1 _ 0 (by norm_num)
    intro x hx
    obtain ⟨mb, hmb, rfl⟩ := List.mem_map.1 hx
    exact weight_le_one hmix (mem_kept hmb)
  unfold pThreshold
  apply max_le (le_max_left _ _)
  exact le_trans (by nlinarith) (le_max_right _ _)

/-! ### the detector stage -/

theorem mass_le_length {d : D} (h : Unit01 d) : mass d ≤ (d.length : ℚ) := by
  induction d with
  | nil => simp
  | cons x r ih =>
    have := ih (fun y hy => h y (List.mem_cons_of_mem _ hy))
    have hx := (h x List.mem_cons_self).2
    simp only [mass_cons, List.length_cons, Nat.cast_add, Nat.cast_one]
    linarith

theorem detectState_unit01 {N : ℕ} (Ks : List Kern) (t : Fock) (hK : KernsOK N Ks) (ht : t.sum ≤ N) :
    Unit01 (detectState Ks t) :=
  Unit01.of_NN_mass_le (NN_detectState Ks t hK ht) (le_of_eq (mass_detectState_le Ks t hK ht))

theorem length_map_cons (jq : ℕ × ℚ) (d : D) : (d.map fun sp => (jq.1 :: sp.1, jq.2 * sp.2)).length = d.length :=
  List.length_map _

/-- one state through the detectors: what the threshold leaves out weighs, once multiplied by the partial product `p`
that reached this mode, at most `θ` per missing pattern -/
theorem detectStateθ_trim {N : ℕ} {θ : ℚ} : ∀ (Ks : List Kern) (t : Fock) (p : ℚ), KernsOK N Ks → t.sum ≤ N →
    0 ≤ p → p ≤ 1 →
    p * mass (detectState Ks t) + θ * ((detectStateθ θ Ks t p).length : ℚ) ≤
      p * mass (detectStateθ θ Ks t p) + θ * ((detectState Ks t).length : ℚ)
  | [], _, _, _, _, _, _ => by simp [detectStateθ, detectState]
  | _ :: _, [], _, _, _, _, _ => by simp [detectStateθ, detectState]
  | K :: Ks, a :: t, p, hK, ht, hp0, hp1 => by
    simp only [List.sum_cons] at ht
    have htN : t.sum ≤ N := by omega
    have hU := detectState_unit01 Ks t hK.tail htN
    have hML := mass_le_length hU
    have hL0 : (0 : ℚ) ≤ ((detectState Ks t).length : ℚ) := Nat.cast_nonneg _
    simp only [detectStateθ, detectState]
    have key : ∀ row : List (ℕ × ℚ), (∀ jq ∈ row, 0 ≤ jq.2 ∧ jq.2 ≤ 1) →
        p * mass (row.flatMap fun jq => (detectState Ks t).map fun sp => (jq.1 :: sp.1, jq.2 * sp.2)) +
          θ * (((row.filter fun jq => decide (θ < jq.2)).flatMap fun jq =>
            if p * jq.2 < θ then [] else
              (detectStateθ θ Ks t (p * jq.2)).map fun sp => (jq.1 :: sp.1, jq.2 * sp.2)).length : ℚ) ≤
        p * mass ((row.filter fun jq => decide (θ < jq.2)).flatMap fun jq =>
            if p * jq.2 < θ then [] else
              (detectStateθ θ Ks t (p * jq.2)).map fun sp => (jq.1 :: sp.1, jq.2 * sp.2)) +
          θ * ((row.flatMap fun jq => (detectState Ks t).map fun sp => (jq.1 :: sp.1, jq.2 * sp.2)).length : ℚ) := by
      intro row
      induction row with
      | nil => intro _; simp
      | cons jq r ih =>
        intro hrow
        obtain ⟨j0, j1⟩ := hrow jq List.mem_cons_self
        have ih' := ih (fun x hx => hrow x (List.mem_cons_of_mem _ hx))
        have hpj0 : 0 ≤ p * jq.2 := mul_nonneg hp0 j0
        have hpj1 : p * jq.2 ≤ 1 := by nlinarith
        have hpj : p * jq.2 ≤ jq.2 := by nlinarith
        have hblock : p * jq.2 * mass (detectState Ks t) ≤ p * jq.2 * ((detectState Ks t).length : ℚ) :=
          mul_le_mul_of_nonneg_left hML hpj0
        simp only [List.flatMap_cons, mass_append, List.length_append, Nat.cast_add, mass_map_scaled,
          length_map_cons]
        by_cases h1 : θ < jq.2
        · have hf : ((jq :: r).filter fun jq => decide (θ < jq.2)) = jq :: r.filter fun jq => decide (θ < jq.2) := by
            simp [h1]
          rw [hf]
          simp only [List.flatMap_cons, mass_append, List.length_append, Nat.cast_add]
          by_cases h2 : p * jq.2 < θ
          · simp only [if_pos h2, mass_nil, List.length_nil, Nat.cast_zero]
            nlinarith
          · simp only [if_neg h2, mass_map_scaled, length_map_cons]
            have := detectStateθ_trim (θ := θ) Ks t (p * jq.2) hK.tail htN hpj0 hpj1
            nlinarith
        · have hf : ((jq :: r).filter fun jq => decide (θ < jq.2)) = r.filter fun jq => decide (θ < jq.2) := by
            simp [h1]
          rw [hf]
          have h1' : jq.2 ≤ θ := not_lt.1 h1
          nlinarith
    apply key
    intro jq hjq
    have h0 := hK.nonneg K List.mem_cons_self a (by omega) jq hjq
    refine ⟨h0, ?_⟩
    have hs := hK.normed K List.mem_cons_self a (by omega)
    have : ∀ x ∈ (K a).map (·.2), 0 ≤ x := by
      intro x hx
      obtain ⟨y, hy, rfl⟩ := List.mem_map.1 hx
      exact hK.nonneg K List.mem_cons_self a (by omega) y hy
    rw [← hs]
    exact List.single_le_sum this _ (List.mem_map_of_mem hjq)

theorem detectState_of_empty_row : ∀ (Ks : List Kern) (t : Fock), (rowsOf Ks t).any List.isEmpty = true →
    detectState Ks t = []
  | [], _, h => by simp [rowsOf] at h
  | _ :: _, [], h => by simp [rowsOf] at h
  | K :: Ks, a :: t, h => by
    simp only [rowsOf, List.any_cons, Bool.or_eq_true] at h
    simp only [detectState]
    rcases h with h | h
    · rw [List.isEmpty_iff.1 h]; rfl
    · rw [detectState_of_empty_row Ks t h]
      simp

theorem detectStateT_trimLe {N : ℕ} (θ : ℚ) (Ks : List Kern) (t : Fock) (hK : KernsOK N Ks) (ht : t.sum ≤ N) :
    TrimLe θ (detectStateT θ Ks t) (detectState Ks t) := by
  unfold detectStateT
  split
  · exact TrimLe.refl _ _
  · exact TrimLe.refl _ _
  · split
    · next h => rw [detectState_of_empty_row Ks t h]; exact TrimLe.refl _ _
    · have := detectStateθ_trim (θ := θ) Ks t 1 hK ht (by norm_num) (le_refl _)
      unfold TrimLe
      linarith

theorem thrOf_mul_le {θ p : ℚ} (hθ : 0 ≤ θ) (hp0 : 0 ≤ p) (hp1 : p ≤ 1) : p * thrOf θ p ≤ θ := by
  unfold thrOf
  split
  · next hp =>
    rcases le_total θ (θ / (10 * p)) with h | h
    · rw [max_eq_right h]
      have : p * (θ / (10 * p)) = θ / 10 := by field_simp
      rw [this]; linarith
    · rw [max_eq_left h]; nlinarith
  · nlinarith

theorem TrimLe.flatMap {α : Type} {θ : ℚ} (f g : α → D) : ∀ l : List α, (∀ e ∈ l, TrimLe θ (g e) (f e)) →
    TrimLe θ (l.flatMap g) (l.flatMap f)
  | [], _ => TrimLe.refl _ _
  | a :: r, h => by
    simp only [List.flatMap_cons]
    exact (h a List.mem_cons_self).append (TrimLe.flatMap f g r (fun e he => h e (List.mem_cons_of_mem _ he)))

/-- the general branch of `simulate_detectors`: at most `θ` per missing detected pattern -/
theorem detectθ_trimLe {N : ℕ} {θ : ℚ} (hθ : 0 ≤ θ) (Ks : List Kern) (hK : KernsOK N Ks) (Y : D) (hn : NN Y)
    (hm : mass Y ≤ 1) (hs : SumLe N Y) : TrimLe θ (detectθ θ Ks Y) (detect Ks (mergeD Y)) := by
  unfold detectθ detect
  apply TrimLe.flatMap
  intro e he
  obtain ⟨p, hp, hpe⟩ := mergeD_key he
  have hsum : e.1.sum ≤ N := by rw [← hpe]; exact hs p hp
  have h0 : 0 ≤ e.2 := NN_mergeD hn e he
  have h1 : e.2 ≤ 1 := le_trans (entry_le_mass (NN_mergeD hn) e he) (by rw [mass_mergeD]; exact hm)
  have ht := (detectStateT_trimLe (thrOf θ e.2) Ks e.1 hK hsum).scale h0
  apply ht.mono (thrOf_mul_le hθ h0 h1)
  simp only [Dist.scale, List.length_map]
  exact (detectStateT_sublist _ Ks e.1).length_le

theorem keys_mergeF_sublist : ∀ (n : ℕ) (d : D), ((mergeF n d).map (·.1)).Sublist (d.map (·.1))
  | 0, _ => by simp [mergeF]
  | n + 1, [] => by simp [mergeF]
  | n + 1, p :: r => by
    simp only [mergeF, List.map_cons]
    exact ((keys_mergeF_sublist n _).trans (List.filter_sublist.map _)).cons_cons _

theorem length_detect (Ks : List Kern) (d : D) :
    (detect Ks d).length = ((d.map (·.1)).map fun s => (detectState Ks s).length).sum := by
  induction d with
  | nil => rfl
  | cons a r ih =>
    rw [detect_cons, List.length_append, ih]
    simp [Dist.scale]

theorem length_detect_mergeD_le (Ks : List Kern) (d : D) : (detect Ks (mergeD d)).length ≤ (detect Ks d).length := by
  rw [length_detect, length_detect]
  exact ((keys_mergeF_sublist _ d).map _).sum_le_sum (fun _ _ => Nat.zero_le _)

theorem length_detect_scale (Ks : List Kern) (k : ℚ) (d : D) : (detect Ks (scale k d)).length = (detect Ks d).length := by
  rw [length_detect, length_detect]
  simp [Dist.scale, Function.comp_def]

theorem length_detect_normalize (Ks : List Kern) (d : D) : (detect Ks (normalize d)).length = (detect Ks d).length := by
  unfold Dist.normalize
  split
  · rfl
  · exact length_detect_scale Ks _ d

/-! ### the detector path as a whole -/

theorem physInputs_le_one (c : Cfg) (members : List Member) (hmix : MixOK members) : physInputs c members ≤ 1 := by
  unfold physInputs
  have : 0 ≤ ((members.filter fun mb => !decide (minFilter c ≤ mb.n)).map (·.w)).sum := by
    apply List.sum_nonneg
    intro x hx
    obtain ⟨mb, hmb, rfl⟩ := List.mem_map.1 hx
    exact hmix.wpos mb (List.mem_filter.1 hmb).1
  linarith

theorem detIn_facts (eng : Fock → D) (P : Prec) (c : Cfg) (members : List Member) (N : ℕ)
    (he : EngOK eng c.m members) (hmix : MixOK members) (hN : ∀ mb ∈ members, mb.n ≤ N) :
    NN (detInθ eng P c members) ∧ SumLe N (detInθ eng P c members) ∧
    (Xθ eng P c members).Sublist (codeRes eng { c with pnr := false } members) := by
  have hX := codeRes_maskoff eng c members he.shape
  have hsl := full_sumLe eng c.m N members he.shape hN
  have hslX : SumLe N (codeRes eng { c with pnr := false } members) := by rw [hX]; exact hsl.restrict _
  have hnnX : NN (codeRes eng { c with pnr := false } members) :=
    NN_codeRes eng { c with pnr := false } members he.nonneg hmix.wpos
  have hsub : (Xθ eng P c members).Sublist (codeRes eng { c with pnr := false } members) :=
    codeResθ_sublist eng P { c with pnr := false } members (fun mb hmb s hs q hq => (he.shape mb hmb s hs q hq).1)
  have hnnXθ : NN (Xθ eng P c members) := NN.of_sublist hsub hnnX
  have hslXθ : SumLe N (Xθ eng P c members) := fun p hp => hslX p (hsub.subset hp)
  exact ⟨NN_normalize hnnXθ, hslXθ.normalize, hsub⟩

theorem SumLe_mergeD {N : ℕ} {d : D} (h : SumLe N d) : SumLe N (mergeD d) := by
  intro q hq
  obtain ⟨p, hp, e⟩ := mergeD_key hq
  rw [← e]
  exact h p hp

/-- **a-priori bound, detector path**: the three thresholds (members, per-member products, per-state detection)
remove at most `θ · (members that pass the filter + entries of the accumulated list / 10 + entries of the list of
detected patterns)` -/
theorem trimmedMassDet_apriori (eng : Fock → D) (P : Prec) (c : Cfg) (ds : List Det) (members : List Member) (N : ℕ)
    (hp : allPnr ds = false) (he : EngOK eng c.m members) (hmix : MixOK members)
    (hg : ∀ mb ∈ members, mb.groups ≠ []) (hminp : 0 ≤ P.minp)
    (hN : ∀ mb ∈ members, mb.n ≤ N) (hK : KernsOK N (ds.map Det.kern)) :
    trimmedMassDet eng P c ds members ≤
      pThreshold P c members * (((kept c members).length : ℚ) +
        ((codeRes eng { c with pnr := false } members).length : ℚ) / 10 +
        ((detFullU eng c ds members).length : ℚ)) := by
  have F := trimDetFacts eng P c ds members N hp he hmix hN hK
  have Ff := detFacts eng c ds members N hp he hmix hN hK
  obtain ⟨hnnY, hslY, hsub⟩ := detIn_facts eng P c members N he hmix hN
  have hθ := pThreshold_nonneg P c members hminp
  have hfast := trimmedMass_apriori eng P { c with pnr := false } members he hmix hg hminp
  have eθ : pThreshold P { c with pnr := false } members = pThreshold P c members := rfl
  have ek : kept { c with pnr := false } members = kept c members := rfl
  rw [eθ, ek] at hfast
  have etm : trimmedMass eng P { c with pnr := false } members =
      physInputs c members - mass (Xθ eng P c members) := by
    rw [← Ff.massX]; rfl
  rw [etm] at hfast
  have hE0 : (0 : ℚ) ≤ ((detFullU eng c ds members).length : ℚ) := Nat.cast_nonneg _
  have hmT : mass (detTrimU eng P c ds members) =
      mass (Xθ eng P c members) * mass (detResθ eng P c ds members) := by
    have := detTrimU_restrict eng P c ds members (fun _ => true)
    rwa [restrict_true, restrict_true] at this
  unfold trimmedMassDet
  rw [F.massE, hmT]
  by_cases ha : mass (Xθ eng P c members) = 0
  · rw [ha, zero_mul]
    rw [ha] at hfast
    nlinarith
  · have hmY : mass (detInθ eng P c members) = 1 := mass_normalize _ ha
    have ha1 : mass (Xθ eng P c members) ≤ 1 := le_trans F.massLe (physInputs_le_one c members hmix)
    -- what the detection stage loses, relative to the normalised dict
    have hdet : 1 - mass (detResθ eng P c ds members) ≤
        pThreshold P c members * ((detFullU eng c ds members).length : ℚ) := by
      unfold detResθ detStage
      split
      · rw [mass_detect_le _ hK _ hslY, hmY]
        nlinarith
      · have ht := detectθ_trimLe hθ (ds.map Det.kern) hK _ hnnY (le_of_eq hmY) hslY
        unfold TrimLe at ht
        rw [mass_detect_le _ hK _ (SumLe_mergeD hslY), mass_mergeD, hmY] at ht
        have h1 : ((detect (ds.map Det.kern) (mergeD (detInθ eng P c members))).length : ℚ) ≤
            ((detFullU eng c ds members).length : ℚ) := by
          have a1 := length_detect_mergeD_le (ds.map Det.kern) (detInθ eng P c members)
          have a2 : (detect (ds.map Det.kern) (detInθ eng P c members)).length =
              (detect (ds.map Det.kern) (Xθ eng P c members)).length := length_detect_normalize _ _
          have a3 : (detect (ds.map Det.kern) (Xθ eng P c members)).length ≤ (detFullU eng c ds members).length :=
            (detect_sublist _ hsub).length_le
          exact_mod_cast le_trans a1 (a2 ▸ a3)
        have h2 : (0 : ℚ) ≤ ((detectθ (pThreshold P c members) (ds.map Det.kern) (detInθ eng P c members)).length : ℚ) :=
          Nat.cast_nonneg _
        nlinarith
    have hB0 : 0 ≤ pThreshold P c members * ((detFullU eng c ds members).length : ℚ) := mul_nonneg hθ hE0
    have : mass (Xθ eng P c members) * (1 - mass (detResθ eng P c ds members)) ≤
        pThreshold P c members * ((detFullU eng c ds members).length : ℚ) := by
      by_cases hneg : 1 - mass (detResθ eng P c ds members) ≤ 0
      · nlinarith [F.nnA]
      · nlinarith [F.nnA]
    nlinarith

/-! ### the sizes in the bounds, explicitly -/

theorem length_conv (a b : D) : (conv a b).length = a.length * b.length := by
  induction a with
  | nil => simp [conv]
  | cons p r ih =>
    have e : conv (p :: r) b = (b.map fun q => (fadd p.1 q.1, p.2 * q.2)) ++ conv r b := by simp [conv]
    rw [e, List.length_append, ih, List.length_map, List.length_cons]
    ring

theorem length_convAll' : ∀ (ds : List D) (acc : D), (convAll acc ds).length = acc.length * (ds.map List.length).prod
  | [], acc => by simp
  | d :: ds, acc => by
    rw [convAll_cons, length_convAll' ds, length_conv, List.map_cons, List.prod_cons]
    ring

/-- entries of one member's product = product of the sizes of its groups' (masked) distributions -/
theorem length_memberDist (eng : Fock → D) (c : Cfg) (mb : Member) :
    (memberDist eng c mb).length = (mb.groups.map fun s => (groupDist eng c mb.n s).length).prod := by
  unfold memberDist
  rw [length_convAll', List.map_map]
  simp [Function.comp_def]

theorem prod_le_prod_of_le {α : Type} (f g : α → ℕ) : ∀ l : List α, (∀ x ∈ l, f x ≤ g x) →
    (l.map f).prod ≤ (l.map g).prod
  | [], _ => le_refl _
  | a :: r, h => by
    simp only [List.map_cons, List.prod_cons]
    exact Nat.mul_le_mul (h a List.mem_cons_self) (prod_le_prod_of_le f g r (fun x hx => h x (List.mem_cons_of_mem _ hx)))

/-- number of entries of the accumulated list ≤ Σ over the members that pass the filter of the product of the sizes of
the engine's distributions of their groups -/
theorem length_codeRes_le (eng : Fock → D) (c : Cfg) (members : List Member) :
    (codeRes eng c members).length ≤
      ((kept c members).map fun mb => (mb.groups.map fun s => (eng s).length).prod).sum := by
  unfold codeRes
  rw [mix_length]
  apply List.sum_le_sum
  intro mb _
  rw [length_memberDist]
  apply prod_le_prod_of_le
  intro s _
  rw [groupDist_fun]
  exact List.length_filter_le _ _

theorem length_detectState : ∀ (Ks : List Kern) (t : Fock),
    (detectState Ks t).length = ((rowsOf Ks t).map List.length).prod
  | [], _ => by simp [detectState, rowsOf]
  | _ :: _, [] => by simp [detectState, rowsOf]
  | K :: Ks, a :: t => by
    simp only [detectState, rowsOf, List.map_cons, List.prod_cons]
    rw [← length_detectState Ks t]
    generalize K a = row
    induction row with
    | nil => simp
    | cons x r ih => simp only [List.flatMap_cons, List.length_append, List.length_map, ih, List.length_cons]; ring

/-- a-priori bound of the trimmed mass on the fast path as a function of the configured precision and of sizes only -/
def aprioriFast (eng : Fock → D) (P : Prec) (c : Cfg) (members : List Member) : ℚ :=
  max P.minp P.prec * ((members.length : ℚ) + ((codeRes eng c members).length : ℚ) / 10)

/-- …and on the detector path -/
def aprioriDet (eng : Fock → D) (P : Prec) (c : Cfg) (ds : List Det) (members : List Member) : ℚ :=
  max P.minp P.prec * ((members.length : ℚ) + ((codeRes eng { c with pnr := false } members).length : ℚ) / 10 +
    ((detFullU eng c ds members).length : ℚ))

theorem trimmedMass_le_aprioriFast (eng : Fock → D) (P : Prec) (c : Cfg) (members : List Member)
    (he : EngOK eng c.m members) (hmix : MixOK members) (hg : ∀ mb ∈ members, mb.groups ≠ [])
    (hminp : 0 ≤ P.minp) (hprec : 0 ≤ P.prec) :
    trimmedMass eng P c members ≤ aprioriFast eng P c members := by
  have h1 := trimmedMass_apriori eng P c members he hmix hg hminp
  have h2 := pThreshold_le P c members hmix hprec
  have h3 := pThreshold_nonneg P c members hminp
  have hk : ((kept c members).length : ℚ) ≤ (members.length : ℚ) := by
    exact_mod_cast List.length_filter_le _ _
  have h4 : (0 : ℚ) ≤ ((kept c members).length : ℚ) := Nat.cast_nonneg _
  have h5 : (0 : ℚ) ≤ ((codeRes eng c members).length : ℚ) := Nat.cast_nonneg _
  unfold aprioriFast
  have : pThreshold P c members * (((kept c members).length : ℚ) + ((codeRes eng c members).length : ℚ) / 10) ≤
      max P.minp P.prec * ((members.length : ℚ) + ((codeRes eng c members).length : ℚ) / 10) := by
    apply mul_le_mul h2 (by linarith) (by linarith) (le_trans h3 h2)
  linarith

theorem trimmedMassDet_le_aprioriDet (eng : Fock → D) (P : Prec) (c : Cfg) (ds : List Det) (members : List Member)
    (N : ℕ) (hp : allPnr ds = false) (he : EngOK eng c.m members) (hmix : MixOK members)
    (hg : ∀ mb ∈ members, mb.groups ≠ []) (hminp : 0 ≤ P.minp) (hprec : 0 ≤ P.prec)
    (hN : ∀ mb ∈ members, mb.n ≤ N) (hK : KernsOK N (ds.map Det.kern)) :
    trimmedMassDet eng P c ds members ≤ aprioriDet eng P c ds members := by
  have h1 := trimmedMassDet_apriori eng P c ds members N hp he hmix hg hminp hN hK
  have h2 := pThreshold_le P c members hmix hprec
  have h3 := pThreshold_nonneg P c members hminp
  have hk : ((kept c members).length : ℚ) ≤ (members.length : ℚ) := by
    exact_mod_cast List.length_filter_le _ _
  have h4 : (0 : ℚ) ≤ ((kept c members).length : ℚ) := Nat.cast_nonneg _
  have h5 : (0 : ℚ) ≤ ((codeRes eng { c with pnr := false } members).length : ℚ) := Nat.cast_nonneg _
  have h6 : (0 : ℚ) ≤ ((detFullU eng c ds members).length : ℚ) := Nat.cast_nonneg _
  unfold aprioriDet
  have : pThreshold P c members * (((kept c members).length : ℚ) +
        ((codeRes eng { c with pnr := false } members).length : ℚ) / 10 + ((detFullU eng c ds members).length : ℚ)) ≤
      max P.minp P.prec * ((members.length : ℚ) + ((codeRes eng { c with pnr := false } members).length : ℚ) / 10 +
        ((detFullU eng c ds members).length : ℚ)) := by
    apply mul_le_mul h2 (by linarith) (by linarith) (le_trans h3 h2)
  linarith

end PM.C04
