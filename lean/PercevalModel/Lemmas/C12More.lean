/-
  C12 — wave 7 (proofs only).

  * the RELAXED nullability criteria of the two characterised non-universal blocks: what `|equation| <= precision`
    (the acceptance test of `solve`) forces on the cell `(a, b)` — the tolerances the harness applies to every solved
    cell of a `BS(theta)` / `catalog['mzi phase first']` circuit (they were hand-derived, now theorems);
  * the first cell of the elimination: `cells (k+2)` starts with `(k+1, 0)`, so a solver that has no answer for the
    pair `(U[0, m-1], U[1, m-1])` makes the run with the solver plugged in return `None` when neither the identity
    skip nor the PERM substitution takes that cell.
-/
import PercevalModel.Lemmas.C12Other
import PercevalModel.Lemmas.C12Exact

open Matrix

namespace PM.C12

/-! ### the relaxed criteria -/

section relaxed
open Complex

theorem nullEq_bsInvC_re (θ : ℝ) (a b : ℂ) :
    (nullEq (bsInvC θ) a b).re = Real.cos (θ / 2) * a.re + Real.sin (θ / 2) * b.im := by
  unfold bsInvC
  rw [nullEq_bsRxInv]
  simp only [Complex.sub_re, Complex.mul_re, Complex.mul_im, Complex.ofReal_re, Complex.ofReal_im,
    Complex.I_re, Complex.I_im]
  ring

theorem nullEq_bsInvC_im (θ : ℝ) (a b : ℂ) :
    (nullEq (bsInvC θ) a b).im = Real.cos (θ / 2) * a.im - Real.sin (θ / 2) * b.re := by
  unfold bsInvC
  rw [nullEq_bsRxInv]
  simp only [Complex.sub_im, Complex.mul_re, Complex.mul_im, Complex.ofReal_re, Complex.ofReal_im,
    Complex.I_re, Complex.I_im]
  ring

theorem norm_sq_re_im (z : ℂ) : ‖z‖ ^ 2 = z.re ^ 2 + z.im ^ 2 := by
  rw [Complex.sq_norm, Complex.normSq_apply]
  ring

/-- `BS(theta)` alone: the value of the equation controls `Re(a·conj b)`, squared form -/
theorem bs_relaxed_sq (θ : ℝ) (a b : ℂ) :
    (a * (starRingEnd ℂ) b).re ^ 2 ≤ ‖nullEq (bsInvC θ) a b‖ ^ 2 * (‖a‖ ^ 2 + ‖b‖ ^ 2) := by
  rw [re_mul_conj, norm_sq_re_im, norm_sq_re_im a, norm_sq_re_im b, nullEq_bsInvC_re, nullEq_bsInvC_im]
  have hcs : Real.cos (θ / 2) ^ 2 + Real.sin (θ / 2) ^ 2 = 1 := Real.cos_sq_add_sin_sq _
  set c := Real.cos (θ / 2)
  set s := Real.sin (θ / 2)
  set e1 := c * a.re + s * b.im with he1
  set e2 := c * a.im - s * b.re with he2
  set W := a.re * b.re + a.im * b.im with hW
  have h1 : c * W = e1 * b.re + e2 * b.im := by rw [hW, he1, he2]; ring
  have h2 : s * W = a.im * e1 - a.re * e2 := by
    rw [hW, he1, he2]; ring
  have h3 : W ^ 2 = (c * W) ^ 2 + (s * W) ^ 2 := by
    have : (c * W) ^ 2 + (s * W) ^ 2 = (c ^ 2 + s ^ 2) * W ^ 2 := by ring
    rw [this, hcs, one_mul]
  rw [h3, h1, h2]
  nlinarith [sq_nonneg (e1 * b.im - e2 * b.re), sq_nonneg (a.im * e2 + a.re * e1)]

/-- `BS(theta)` alone, relaxed criterion: if some parameter value brings the equation of the cell `(a, b)` below `ε`
then `|Re(a·conj b)| ≤ ε·√(|a|² + |b|²)` -/
theorem bs_relaxed' (θ ε : ℝ) (a b : ℂ) (h : ‖nullEq (bsInvC θ) a b‖ ≤ ε) :
    |(a * (starRingEnd ℂ) b).re| ≤ ε * Real.sqrt (‖a‖ ^ 2 + ‖b‖ ^ 2) := by
  have hε : 0 ≤ ε := le_trans (norm_nonneg _) h
  have hS : 0 ≤ ‖a‖ ^ 2 + ‖b‖ ^ 2 := by positivity
  have hsq : ‖nullEq (bsInvC θ) a b‖ ^ 2 ≤ ε ^ 2 := by
    exact pow_le_pow_left₀ (norm_nonneg _) h 2
  have h1 : (a * (starRingEnd ℂ) b).re ^ 2 ≤ ε ^ 2 * (‖a‖ ^ 2 + ‖b‖ ^ 2) :=
    le_trans (bs_relaxed_sq θ a b) (mul_le_mul_of_nonneg_right hsq hS)
  have h2 := Real.abs_le_sqrt h1
  rwa [Real.sqrt_mul (sq_nonneg ε), Real.sqrt_sq hε] at h2

/-- the form the harness uses: `√(|a|² + |b|²) ≤ √2·max(|a|, |b|)` -/
theorem sqrt_sq_add_sq_le_max (x y : ℝ) (hx : 0 ≤ x) (hy : 0 ≤ y) :
    Real.sqrt (x ^ 2 + y ^ 2) ≤ Real.sqrt 2 * max x y := by
  have hm : 0 ≤ max x y := le_trans hx (le_max_left _ _)
  have h1 : x ^ 2 + y ^ 2 ≤ 2 * (max x y) ^ 2 := by
    have hx2 : x ^ 2 ≤ (max x y) ^ 2 := pow_le_pow_left₀ hx (le_max_left _ _) 2
    have hy2 : y ^ 2 ≤ (max x y) ^ 2 := pow_le_pow_left₀ hy (le_max_right _ _) 2
    linarith
  calc Real.sqrt (x ^ 2 + y ^ 2) ≤ Real.sqrt (2 * (max x y) ^ 2) := Real.sqrt_le_sqrt h1
    _ = Real.sqrt 2 * max x y := by
      rw [Real.sqrt_mul (by norm_num : (0 : ℝ) ≤ 2), Real.sqrt_sq hm]

/-- the phase-first MZI: the equation is half of `e^{-iφ_b}(a − ib) − (a + ib)` up to a unit factor -/
theorem norm_nullEq_mziFirstInvC (φa φb : ℝ) (a b : ℂ) :
    ‖nullEq (mziFirstInvC φa φb) a b‖ = ‖exp (-((φb : ℂ) * I)) * (a - I * b) - (a + I * b)‖ / 2 := by
  unfold mziFirstInvC
  rw [nullEq_mziFirstInv]
  have e : (exp (-((φb : ℂ) * I)) - 1) * a - I * (exp (-((φb : ℂ) * I)) + 1) * b =
      exp (-((φb : ℂ) * I)) * (a - I * b) - (a + I * b) := by ring
  rw [e, norm_mul, norm_mul, norm_exp_neg_mul_I]
  have : ‖(1 / 2 : ℂ)‖ = 1 / 2 := by
    rw [norm_div, norm_one]
    simp
  rw [this]
  ring

/-- relaxed criterion of `catalog['mzi phase first']`: if some parameter values bring the equation of the cell
`(a, b)` below `ε` then `|Im(a·conj b)| ≤ ε·(|a| + |b|)` -/
theorem mziFirst_relaxed' (φa φb ε : ℝ) (a b : ℂ) (h : ‖nullEq (mziFirstInvC φa φb) a b‖ ≤ ε) :
    |(a * (starRingEnd ℂ) b).im| ≤ ε * (‖a‖ + ‖b‖) := by
  rw [norm_nullEq_mziFirstInvC] at h
  rw [im_mul_conj]
  set p := a - I * b with hp
  set q := a + I * b with hq
  have key : ‖p‖ ^ 2 - ‖q‖ ^ 2 = -4 * (a.im * b.re - a.re * b.im) := by
    rw [norm_sq_re_im, norm_sq_re_im, hp, hq]
    simp only [Complex.sub_re, Complex.sub_im, Complex.add_re, Complex.add_im, Complex.mul_re,
      Complex.mul_im, Complex.I_re, Complex.I_im]
    ring
  have hfp : ‖exp (-((φb : ℂ) * I)) * p‖ = ‖p‖ := by rw [norm_mul, norm_exp_neg_mul_I, one_mul]
  have hd : |‖p‖ - ‖q‖| ≤ 2 * ε := by
    have := abs_norm_sub_norm_le (exp (-((φb : ℂ) * I)) * p) q
    rw [hfp] at this
    linarith
  have hIb : ‖I * b‖ = ‖b‖ := by rw [norm_mul, Complex.norm_I, one_mul]
  have hpn : ‖p‖ ≤ ‖a‖ + ‖b‖ := by
    have := norm_sub_le a (I * b)
    rwa [hIb] at this
  have hqn : ‖q‖ ≤ ‖a‖ + ‖b‖ := by
    have := norm_add_le a (I * b)
    rwa [hIb] at this
  have hs : 0 ≤ ‖p‖ + ‖q‖ := by positivity
  have hε : 0 ≤ ε := by
    have := abs_nonneg (‖p‖ - ‖q‖)
    linarith
  have h4 : |4 * (a.im * b.re - a.re * b.im)| ≤ 2 * ε * (‖p‖ + ‖q‖) := by
    have e : 4 * (a.im * b.re - a.re * b.im) = -((‖p‖ - ‖q‖) * (‖p‖ + ‖q‖)) := by
      have : (‖p‖ - ‖q‖) * (‖p‖ + ‖q‖) = ‖p‖ ^ 2 - ‖q‖ ^ 2 := by ring
      rw [this, key]; ring
    rw [e, abs_neg, abs_mul, abs_of_nonneg hs]
    exact mul_le_mul_of_nonneg_right hd hs
  have h5 : |4 * (a.im * b.re - a.re * b.im)| = 4 * |a.im * b.re - a.re * b.im| := by
    rw [abs_mul]; norm_num
  have h6 : 2 * ε * (‖p‖ + ‖q‖) ≤ 2 * ε * (2 * (‖a‖ + ‖b‖)) :=
    mul_le_mul_of_nonneg_left (by linarith) (by linarith)
  linarith

end relaxed

/-! ### the first cell of the elimination -/

variable {R : Type}

theorem cells_succ_succ (k : ℕ) : ∃ cs, cells (k + 2) = (k + 1, 0) :: cs := by
  unfold cells
  rw [List.range_succ, List.reverse_append]
  simp only [List.reverse_cons, List.reverse_nil, List.nil_append, List.singleton_append, List.flatMap_cons]
  rw [List.range_succ_eq_map]
  simp only [List.map_cons, List.cons_append]
  exact ⟨_, rfl⟩

theorem findK_none_of_ignoreId_false [Zero R] (cfg : Cfg R) (hi : cfg.ignoreId = false) {m : ℕ}
    (M : Matrix (Fin m) (Fin m) R) (n j : ℕ) : findK cfg M n j = none := by
  unfold findK
  rw [List.find?_eq_none]
  intro k _
  simp [hi]

/-- the first cell visited is `(j, n) = (m−1, 0)`; if neither the identity skip nor the PERM substitution takes it and
the solver has no answer for its two entries, the run returns `None` -/
theorem decomposeExact_none_of_first_cell [CommRing R] (cfg : Cfg R) (solver : R → R → Option (Sol R)) (k : ℕ)
    (U : Matrix (Fin (k + 2)) (Fin (k + 2)) R)
    (hskip : (cfg.small (getN U 0 (k + 1)) && cfg.ignoreId) = false)
    (hperm : (if cfg.usePerm then findK cfg U 0 (k + 1) else none) = none)
    (hs : solver (getN U 0 (k + 1)) (getN U 1 (k + 1)) = none) :
    decomposeExact cfg solver U = none := by
  obtain ⟨cs, hcs⟩ := cells_succ_succ k
  unfold decomposeExact
  rw [hcs]
  have hu : (initSt U ([] : List (Sol R))).u.toMatrix = U := by simp [initSt]
  have hstep : stepF cfg solver (initSt U ([] : List (Sol R))) (k + 1, 0) = none := by
    unfold stepF
    simp only [hu, hskip, hperm, zero_add, hs]
    rfl
  simp only [runF, hstep, Option.bind_none]

theorem getN_first [Zero R] (k : ℕ) (U : Matrix (Fin (k + 2)) (Fin (k + 2)) R) :
    getN U 0 (k + 1) = U 0 (Fin.last (k + 1)) ∧ getN U 1 (k + 1) = U 1 (Fin.last (k + 1)) := by
  constructor
  · simp [getN]
    rfl
  · simp [getN]
    rfl

/-- with `ignore_identity_block` off there is neither identity skip nor PERM substitution: the first cell goes to the
solver -/
theorem decomposeExact_none_of_first_cell' [CommRing R] (cfg : Cfg R) (hi : cfg.ignoreId = false)
    (solver : R → R → Option (Sol R)) (k : ℕ) (U : Matrix (Fin (k + 2)) (Fin (k + 2)) R)
    (hs : solver (U 0 (Fin.last (k + 1))) (U 1 (Fin.last (k + 1))) = none) :
    decomposeExact cfg solver U = none := by
  apply decomposeExact_none_of_first_cell cfg solver k U
  · simp [hi]
  · split
    · exact findK_none_of_ignoreId_false cfg hi U 0 (k + 1)
    · rfl
  · rw [(getN_first k U).1, (getN_first k U).2]
    exact hs

/-- totality of the run for EVERY request is equivalent to a solver that answers every pair -/
theorem decomposeExact_total_iff [CommRing R] (solver : R → R → Option (Sol R)) :
    (∀ (cfg : Cfg R) (m : ℕ) (U : Matrix (Fin m) (Fin m) R), ∃ st, decomposeExact cfg solver U = some st) ↔
      ∀ a b, (solver a b).isSome = true := by
  constructor
  · intro h a b
    by_contra hn
    have hnone : solver a b = none := by
      cases hsv : solver a b with
      | none => rfl
      | some s => rw [hsv] at hn; exact absurd rfl hn
    obtain ⟨st, hst⟩ := h ⟨fun _ => false, false, false⟩ 2 (Matrix.of ![![0, a], ![0, b]])
    have := decomposeExact_none_of_first_cell' (⟨fun _ => false, false, false⟩ : Cfg R) rfl solver 0
      (Matrix.of ![![0, a], ![0, b]]) (by simpa using hnone)
    rw [this] at hst
    cases hst
  · intro hs cfg m U
    exact Option.isSome_iff_exists.1 (runF_total cfg solver hs (cells m) _)

section runlevel
open Complex

/-- `BS(theta)` alone at run level: whatever the minimiser does, if every accepted answer is an instance of the block
with `|equation| ≤ ε`, a matrix whose first cell violates the relaxed criterion is answered `None` -/
theorem bs_run_none' (cfg : Cfg ℂ) (hi : cfg.ignoreId = false) (solver : ℂ → ℂ → Option (Sol ℂ)) (ε : ℝ)
    (hsol : ∀ a b s, solver a b = some s → ∃ θ : ℝ, s.2 = bsInvC θ ∧ ‖nullEq s.2 a b‖ ≤ ε)
    (k : ℕ) (U : Matrix (Fin (k + 2)) (Fin (k + 2)) ℂ)
    (hU : ε * Real.sqrt (‖U 0 (Fin.last (k + 1))‖ ^ 2 + ‖U 1 (Fin.last (k + 1))‖ ^ 2) <
      |(U 0 (Fin.last (k + 1)) * (starRingEnd ℂ) (U 1 (Fin.last (k + 1)))).re|) :
    decomposeExact cfg solver U = none := by
  apply decomposeExact_none_of_first_cell' cfg hi solver k U
  cases hsv : solver (U 0 (Fin.last (k + 1))) (U 1 (Fin.last (k + 1))) with
  | none => rfl
  | some s =>
    obtain ⟨θ, h1, h2⟩ := hsol _ _ s hsv
    rw [h1] at h2
    exact absurd (bs_relaxed' θ ε _ _ h2) (not_le.2 hU)

/-- the same for `catalog['mzi phase first']` -/
theorem mziFirst_run_none' (cfg : Cfg ℂ) (hi : cfg.ignoreId = false) (solver : ℂ → ℂ → Option (Sol ℂ)) (ε : ℝ)
    (hsol : ∀ a b s, solver a b = some s → ∃ φa φb : ℝ, s.2 = mziFirstInvC φa φb ∧ ‖nullEq s.2 a b‖ ≤ ε)
    (k : ℕ) (U : Matrix (Fin (k + 2)) (Fin (k + 2)) ℂ)
    (hU : ε * (‖U 0 (Fin.last (k + 1))‖ + ‖U 1 (Fin.last (k + 1))‖) <
      |(U 0 (Fin.last (k + 1)) * (starRingEnd ℂ) (U 1 (Fin.last (k + 1)))).im|) :
    decomposeExact cfg solver U = none := by
  apply decomposeExact_none_of_first_cell' cfg hi solver k U
  cases hsv : solver (U 0 (Fin.last (k + 1))) (U 1 (Fin.last (k + 1))) with
  | none => rfl
  | some s =>
    obtain ⟨φa, φb, h1, h2⟩ := hsol _ _ s hsv
    rw [h1] at h2
    exact absurd (mziFirst_relaxed' φa φb ε _ _ h2) (not_le.2 hU)

end runlevel

section exactsolvers
open Complex

/-- an exact solver for `BS(theta)` alone: it answers exactly the nullable cells, with a root -/
noncomputable def bsExactSolver (a b : ℂ) : Option (Sol ℂ) :=
  open Classical in
  if h : ∃ θ : ℝ, nullEq (bsInvC θ) a b = 0 then some (bsC h.choose, bsInvC h.choose) else none

theorem bsExactSolver_spec (a b : ℂ) (s : Sol ℂ) (hs : bsExactSolver a b = some s) :
    ∃ θ : ℝ, s.2 = bsInvC θ ∧ ‖nullEq s.2 a b‖ ≤ 0 := by
  unfold bsExactSolver at hs
  split at hs
  · rename_i h
    simp only [Option.some.injEq] at hs
    subst hs
    exact ⟨_, rfl, by rw [h.choose_spec]; simp⟩
  · cases hs

/-- an exact solver for `catalog['mzi phase first']` -/
noncomputable def mziFirstExactSolver (a b : ℂ) : Option (Sol ℂ) :=
  open Classical in
  if h : ∃ φ : ℝ × ℝ, nullEq (mziFirstInvC φ.1 φ.2) a b = 0 then
    some (mziFirstC h.choose.1 h.choose.2, mziFirstInvC h.choose.1 h.choose.2) else none

theorem mziFirstExactSolver_spec (a b : ℂ) (s : Sol ℂ) (hs : mziFirstExactSolver a b = some s) :
    ∃ φa φb : ℝ, s.2 = mziFirstInvC φa φb ∧ ‖nullEq s.2 a b‖ ≤ 0 := by
  unfold mziFirstExactSolver at hs
  split at hs
  · rename_i h
    simp only [Option.some.injEq] at hs
    subst hs
    exact ⟨_, _, rfl, by rw [h.choose_spec]; simp⟩
  · cases hs

theorem bsExactSolver_answers : (bsExactSolver Complex.I 1).isSome = true := by
  have h : ∃ θ : ℝ, nullEq (bsInvC θ) Complex.I 1 = 0 := by rw [bs_nullable_iff']; simp
  simp [bsExactSolver, h]

theorem mziFirstExactSolver_answers : (mziFirstExactSolver 1 1).isSome = true := by
  have h : ∃ φ : ℝ × ℝ, nullEq (mziFirstInvC φ.1 φ.2) 1 1 = 0 := by
    obtain ⟨φa, φb, h⟩ := (mziFirst_nullable_iff' 1 1).2 (by simp)
    exact ⟨(φa, φb), h⟩
  simp [mziFirstExactSolver, h]

end exactsolvers

/-! ### how sharp the relaxed criteria are -/

section sharp
open Complex

theorem le_of_sq_le_sq_nonneg {x y : ℝ} (hx : 0 ≤ x) (h : x ^ 2 ≤ y ^ 2) : x ≤ |y| := by
  have := sq_le_sq.1 h
  rwa [abs_of_nonneg hx] at this

/-- `BS(theta)` alone, `b ≠ 0`: the parameter `2·arctan(Im(a·conj b)/|b|²)` brings the equation down to
`|cos|·|Re(a·conj b)|/|b|` -/
theorem bs_near_root_b (a b : ℂ) (hb : b ≠ 0) :
    ∃ θ : ℝ, ‖nullEq (bsInvC θ) a b‖ * ‖b‖ ≤ |(a * (starRingEnd ℂ) b).re| := by
  have hy : b.re ^ 2 + b.im ^ 2 ≠ 0 := by
    intro h0
    apply hb
    have h1 : b.re = 0 := by nlinarith [sq_nonneg b.re, sq_nonneg b.im]
    have h2 : b.im = 0 := by nlinarith [sq_nonneg b.re, sq_nonneg b.im]
    exact Complex.ext h1 h2
  refine ⟨2 * Real.arctan ((a.im * b.re - a.re * b.im) / (b.re ^ 2 + b.im ^ 2)), ?_⟩
  apply le_of_sq_le_sq_nonneg (by positivity)
  rw [mul_pow, norm_sq_re_im, norm_sq_re_im b, nullEq_bsInvC_re, nullEq_bsInvC_im, re_mul_conj]
  have e : 2 * Real.arctan ((a.im * b.re - a.re * b.im) / (b.re ^ 2 + b.im ^ 2)) / 2 =
      Real.arctan ((a.im * b.re - a.re * b.im) / (b.re ^ 2 + b.im ^ 2)) := by ring
  rw [e]
  have hm := arctan_modulus (x := a.im * b.re - a.re * b.im) hy
  have hcs := Real.cos_sq_add_sin_sq (Real.arctan ((a.im * b.re - a.re * b.im) / (b.re ^ 2 + b.im ^ 2)))
  set c := Real.cos (Real.arctan ((a.im * b.re - a.re * b.im) / (b.re ^ 2 + b.im ^ 2)))
  set s := Real.sin (Real.arctan ((a.im * b.re - a.re * b.im) / (b.re ^ 2 + b.im ^ 2)))
  set N := b.re ^ 2 + b.im ^ 2 with hN
  set W := a.re * b.re + a.im * b.im with hW
  have h1 : N * (c * a.re + s * b.im) = c * b.re * W := by
    rw [hN, hW]; linear_combination (-b.im) * hm
  have h2 : N * (c * a.im - s * b.re) = c * b.im * W := by
    rw [hN, hW]; linear_combination (b.re) * hm
  have h3 : N * (((c * a.re + s * b.im) ^ 2 + (c * a.im - s * b.re) ^ 2) * N) = N * (c ^ 2 * W ^ 2) := by
    have : N * (((c * a.re + s * b.im) ^ 2 + (c * a.im - s * b.re) ^ 2) * N) =
        (N * (c * a.re + s * b.im)) ^ 2 + (N * (c * a.im - s * b.re)) ^ 2 := by ring
    rw [this, h1, h2, hN]; ring
  rw [mul_left_cancel₀ hy h3]
  nlinarith [sq_nonneg (s * W)]

/-- `BS(theta)` alone, `a ≠ 0`: the parameter `π − 2·arctan(Im(a·conj b)/|a|²)` -/
theorem bs_near_root_a (a b : ℂ) (ha : a ≠ 0) :
    ∃ θ : ℝ, ‖nullEq (bsInvC θ) a b‖ * ‖a‖ ≤ |(a * (starRingEnd ℂ) b).re| := by
  have hy : a.re ^ 2 + a.im ^ 2 ≠ 0 := by
    intro h0
    apply ha
    have h1 : a.re = 0 := by nlinarith [sq_nonneg a.re, sq_nonneg a.im]
    have h2 : a.im = 0 := by nlinarith [sq_nonneg a.re, sq_nonneg a.im]
    exact Complex.ext h1 h2
  refine ⟨Real.pi - 2 * Real.arctan ((a.im * b.re - a.re * b.im) / (a.re ^ 2 + a.im ^ 2)), ?_⟩
  apply le_of_sq_le_sq_nonneg (by positivity)
  rw [mul_pow, norm_sq_re_im, norm_sq_re_im a, nullEq_bsInvC_re, nullEq_bsInvC_im, re_mul_conj]
  have e : (Real.pi - 2 * Real.arctan ((a.im * b.re - a.re * b.im) / (a.re ^ 2 + a.im ^ 2))) / 2 =
      Real.pi / 2 - Real.arctan ((a.im * b.re - a.re * b.im) / (a.re ^ 2 + a.im ^ 2)) := by ring
  rw [e, Real.cos_pi_div_two_sub, Real.sin_pi_div_two_sub]
  have hm := arctan_modulus (x := a.im * b.re - a.re * b.im) hy
  have hcs := Real.cos_sq_add_sin_sq (Real.arctan ((a.im * b.re - a.re * b.im) / (a.re ^ 2 + a.im ^ 2)))
  set s := Real.cos (Real.arctan ((a.im * b.re - a.re * b.im) / (a.re ^ 2 + a.im ^ 2)))
  set c := Real.sin (Real.arctan ((a.im * b.re - a.re * b.im) / (a.re ^ 2 + a.im ^ 2)))
  set N := a.re ^ 2 + a.im ^ 2 with hN
  set W := a.re * b.re + a.im * b.im with hW
  have h1 : N * (c * a.re + s * b.im) = s * a.im * W := by
    rw [hN, hW]; linear_combination (-a.re) * hm
  have h2 : N * (c * a.im - s * b.re) = -(s * a.re * W) := by
    rw [hN, hW]; linear_combination (-a.im) * hm
  have h3 : N * (((c * a.re + s * b.im) ^ 2 + (c * a.im - s * b.re) ^ 2) * N) = N * (s ^ 2 * W ^ 2) := by
    have : N * (((c * a.re + s * b.im) ^ 2 + (c * a.im - s * b.re) ^ 2) * N) =
        (N * (c * a.re + s * b.im)) ^ 2 + (N * (c * a.im - s * b.re)) ^ 2 := by ring
    rw [this, h1, h2, hN]; ring
  rw [mul_left_cancel₀ hy h3]
  nlinarith [sq_nonneg (c * W)]

/-- sufficiency side of the relaxed criterion of `BS(theta)`: some parameter value brings the equation down to
`|Re(a·conj b)| / max(|a|, |b|)` -/
theorem bs_near_root (a b : ℂ) :
    ∃ θ : ℝ, ‖nullEq (bsInvC θ) a b‖ * max ‖a‖ ‖b‖ ≤ |(a * (starRingEnd ℂ) b).re| := by
  rcases le_total ‖a‖ ‖b‖ with h | h
  · rw [max_eq_right h]
    by_cases hb : b = 0
    · exact ⟨0, by rw [hb]; simp⟩
    · exact bs_near_root_b a b hb
  · rw [max_eq_left h]
    by_cases ha : a = 0
    · exact ⟨0, by rw [ha]; simp⟩
    · exact bs_near_root_a a b ha

theorem mziFirst_key (a b : ℂ) :
    ‖a - I * b‖ ^ 2 - ‖a + I * b‖ ^ 2 = -4 * (a * (starRingEnd ℂ) b).im := by
  rw [im_mul_conj, norm_sq_re_im, norm_sq_re_im]
  simp only [Complex.sub_re, Complex.sub_im, Complex.add_re, Complex.add_im, Complex.mul_re,
    Complex.mul_im, Complex.I_re, Complex.I_im]
  ring

/-- the phase-first MZI, every parameter value: `2·|Im(a·conj b)| ≤ |equation|·(|a − ib| + |a + ib|)` -/
theorem mziFirst_lower (φa φb : ℝ) (a b : ℂ) :
    2 * |(a * (starRingEnd ℂ) b).im| ≤
      ‖nullEq (mziFirstInvC φa φb) a b‖ * (‖a - I * b‖ + ‖a + I * b‖) := by
  rw [norm_nullEq_mziFirstInvC]
  have key := mziFirst_key a b
  set p := a - I * b
  set q := a + I * b
  have hfp : ‖exp (-((φb : ℂ) * I)) * p‖ = ‖p‖ := by rw [norm_mul, norm_exp_neg_mul_I, one_mul]
  have hd : |‖p‖ - ‖q‖| ≤ ‖exp (-((φb : ℂ) * I)) * p - q‖ := by
    have := abs_norm_sub_norm_le (exp (-((φb : ℂ) * I)) * p) q
    rwa [hfp] at this
  have hs : 0 ≤ ‖p‖ + ‖q‖ := by positivity
  have e : 4 * (a * (starRingEnd ℂ) b).im = -((‖p‖ - ‖q‖) * (‖p‖ + ‖q‖)) := by
    have : (‖p‖ - ‖q‖) * (‖p‖ + ‖q‖) = ‖p‖ ^ 2 - ‖q‖ ^ 2 := by ring
    rw [this, key]; ring
  have h4 : |4 * (a * (starRingEnd ℂ) b).im| = |‖p‖ - ‖q‖| * (‖p‖ + ‖q‖) := by
    rw [e, abs_neg, abs_mul, abs_of_nonneg hs]
  have h5 : |4 * (a * (starRingEnd ℂ) b).im| = 4 * |(a * (starRingEnd ℂ) b).im| := by
    rw [abs_mul]; norm_num
  have := mul_le_mul_of_nonneg_right hd hs
  linarith

/-- … and the bound is attained at `phi_b = arg(a − ib) − arg(a + ib)`, whatever `phi_a` -/
theorem mziFirst_attained (a b : ℂ) :
    ∃ φb : ℝ, ∀ φa : ℝ, ‖nullEq (mziFirstInvC φa φb) a b‖ * (‖a - I * b‖ + ‖a + I * b‖) =
      2 * |(a * (starRingEnd ℂ) b).im| := by
  refine ⟨arg (a - I * b) - arg (a + I * b), fun φa => ?_⟩
  rw [norm_nullEq_mziFirstInvC]
  have key := mziFirst_key a b
  have hp := norm_mul_exp_arg_mul_I (a - I * b)
  have hq := norm_mul_exp_arg_mul_I (a + I * b)
  have e : exp (-(((arg (a - I * b) - arg (a + I * b) : ℝ) : ℂ) * I)) * exp ((arg (a - I * b) : ℂ) * I) =
      exp ((arg (a + I * b) : ℂ) * I) := by
    rw [← Complex.exp_add]
    congr 1
    push_cast
    ring
  have hdiff : exp (-(((arg (a - I * b) - arg (a + I * b) : ℝ) : ℂ) * I)) * (a - I * b) - (a + I * b) =
      ((‖a - I * b‖ - ‖a + I * b‖ : ℝ) : ℂ) * exp ((arg (a + I * b) : ℂ) * I) := by
    calc exp (-(((arg (a - I * b) - arg (a + I * b) : ℝ) : ℂ) * I)) * (a - I * b) - (a + I * b)
        = exp (-(((arg (a - I * b) - arg (a + I * b) : ℝ) : ℂ) * I)) *
            (((‖a - I * b‖ : ℝ) : ℂ) * exp ((arg (a - I * b) : ℂ) * I)) -
            ((‖a + I * b‖ : ℝ) : ℂ) * exp ((arg (a + I * b) : ℂ) * I) := by rw [hp, hq]
      _ = ((‖a - I * b‖ - ‖a + I * b‖ : ℝ) : ℂ) * exp ((arg (a + I * b) : ℂ) * I) := by
          rw [← e]; push_cast; ring
  rw [hdiff, norm_mul, Complex.norm_exp_ofReal_mul_I, mul_one, Complex.norm_real, Real.norm_eq_abs]
  set p := a - I * b
  set q := a + I * b
  have hs : 0 ≤ ‖p‖ + ‖q‖ := by positivity
  have e4 : 4 * (a * (starRingEnd ℂ) b).im = -((‖p‖ - ‖q‖) * (‖p‖ + ‖q‖)) := by
    have : (‖p‖ - ‖q‖) * (‖p‖ + ‖q‖) = ‖p‖ ^ 2 - ‖q‖ ^ 2 := by ring
    rw [this, key]; ring
  have h4 : |4 * (a * (starRingEnd ℂ) b).im| = |‖p‖ - ‖q‖| * (‖p‖ + ‖q‖) := by
    rw [e4, abs_neg, abs_mul, abs_of_nonneg hs]
  have h5 : |4 * (a * (starRingEnd ℂ) b).im| = 4 * |(a * (starRingEnd ℂ) b).im| := by
    rw [abs_mul]; norm_num
  linarith

/-- `catalog['mzi phase first']`: a cell can be brought below `ε` iff `2·|Im(a·conj b)| ≤ ε·(|a − ib| + |a + ib|)` -/
theorem mziFirst_eps_nullable_iff (ε : ℝ) (hε : 0 ≤ ε) (a b : ℂ) :
    (∃ φa φb : ℝ, ‖nullEq (mziFirstInvC φa φb) a b‖ ≤ ε) ↔
      2 * |(a * (starRingEnd ℂ) b).im| ≤ ε * (‖a - I * b‖ + ‖a + I * b‖) := by
  have hs : 0 ≤ ‖a - I * b‖ + ‖a + I * b‖ := by positivity
  constructor
  · rintro ⟨φa, φb, h⟩
    exact le_trans (mziFirst_lower φa φb a b) (mul_le_mul_of_nonneg_right h hs)
  · intro h
    obtain ⟨φb, hφ⟩ := mziFirst_attained a b
    refine ⟨0, φb, ?_⟩
    have h0 := hφ 0
    rcases hs.lt_or_eq with hpos | hzero
    · rw [← h0] at h
      exact le_of_mul_le_mul_right h hpos
    · have hp : ‖a - I * b‖ = 0 := by
        have := norm_nonneg (a - I * b); have := norm_nonneg (a + I * b); linarith
      have hq : ‖a + I * b‖ = 0 := by
        have := norm_nonneg (a - I * b); have := norm_nonneg (a + I * b); linarith
      rw [norm_nullEq_mziFirstInvC, norm_eq_zero.1 hp, norm_eq_zero.1 hq]
      simpa using hε

end sharp

/-! ### when a run answers `None`; two modes -/

/-- one cell answers `None` exactly when it is neither skipped nor PERM-substituted and the solver has no answer for
its two entries -/
theorem stepF_none_iff [CommRing R] (cfg : Cfg R) (solver : R → R → Option (Sol R)) {m : ℕ} (st : St R m)
    (c : ℕ × ℕ) :
    stepF cfg solver st c = none ↔
      (cfg.small (getN st.u.toMatrix c.2 c.1) && cfg.ignoreId) = false ∧
      (if cfg.usePerm then findK cfg st.u.toMatrix c.2 c.1 else none) = none ∧
      solver (getN st.u.toMatrix c.2 c.1) (getN st.u.toMatrix (c.2 + 1) c.1) = none := by
  unfold stepF
  simp only
  split
  · rename_i h
    simp [h]
  · rename_i h
    split
    · rename_i k hk
      simp [hk]
    · rename_i hk
      split
      · rename_i hs
        simp [h, hk, hs]
      · rename_i B Binv hs
        simp [hs]

theorem runF_none_iff [CommRing R] (cfg : Cfg R) (solver : R → R → Option (Sol R)) {m : ℕ}
    (cs : List (ℕ × ℕ)) : ∀ st : St R m,
    runF cfg solver st cs = none ↔
      ∃ pre c post st', cs = pre ++ c :: post ∧ runF cfg solver st pre = some st' ∧
        stepF cfg solver st' c = none := by
  induction cs with
  | nil =>
    intro st
    simp [runF]
  | cons c cs ih =>
    intro st
    constructor
    · intro h
      cases hst : stepF cfg solver st c with
      | none => exact ⟨[], c, cs, st, rfl, rfl, hst⟩
      | some st1 =>
        simp only [runF, hst, Option.bind_some] at h
        obtain ⟨pre, c', post, st', h1, h2, h3⟩ := (ih st1).1 h
        refine ⟨c :: pre, c', post, st', by rw [h1]; rfl, ?_, h3⟩
        simp only [runF, hst, Option.bind_some]
        exact h2
    · rintro ⟨pre, c', post, st', h1, h2, h3⟩
      cases pre with
      | nil =>
        simp only [List.nil_append, List.cons.injEq] at h1
        obtain ⟨rfl, rfl⟩ := h1
        simp only [runF, Option.some.injEq] at h2
        subst h2
        simp only [runF, h3, Option.bind_none]
      | cons c0 pre =>
        simp only [List.cons_append, List.cons.injEq] at h1
        obtain ⟨rfl, rfl⟩ := h1
        cases hst : stepF cfg solver st c with
        | none => simp only [runF, hst, Option.bind_none]
        | some st1 =>
          simp only [runF, hst, Option.bind_some] at h2 ⊢
          exact (ih st1).2 ⟨pre, c', post, st', rfl, h2, h3⟩

theorem cells_two : cells 2 = [(1, 0)] := by decide

/-- two modes, `ignore_identity_block` off: one cell, the run returns iff the solver answers it -/
theorem decomposeExact_two [CommRing R] (cfg : Cfg R) (hi : cfg.ignoreId = false)
    (solver : R → R → Option (Sol R)) (U : Matrix (Fin 2) (Fin 2) R) :
    (decomposeExact cfg solver U).isSome = (solver (U 0 1) (U 1 1)).isSome := by
  cases hs : solver (U 0 1) (U 1 1) with
  | none =>
    have := decomposeExact_none_of_first_cell' cfg hi solver 0 U hs
    rw [this]
    rfl
  | some s =>
    have hg := getN_first 0 U
    have h1 : (Fin.last 1 : Fin 2) = 1 := rfl
    simp only [zero_add, h1] at hg
    have hperm : (if cfg.usePerm then findK cfg U 0 1 else none) = none := by
      split
      · exact findK_none_of_ignoreId_false cfg hi U 0 1
      · rfl
    have hu : (initSt U ([] : List (Sol R))).u.toMatrix = U := by simp [initSt]
    unfold decomposeExact
    rw [cells_two]
    simp only [runF]
    unfold stepF
    simp only [hu, hi, Bool.and_false, hperm, zero_add, hg.1, hg.2, hs]
    rfl

theorem bsExactSolver_isSome_iff (a b : ℂ) :
    (bsExactSolver a b).isSome = true ↔ (a * (starRingEnd ℂ) b).re = 0 := by
  rw [← bs_nullable_iff']
  unfold bsExactSolver
  split
  · rename_i h
    simp [h]
  · rename_i h
    simp [h]

theorem mziFirstExactSolver_isSome_iff (a b : ℂ) :
    (mziFirstExactSolver a b).isSome = true ↔ (a * (starRingEnd ℂ) b).im = 0 := by
  rw [← mziFirst_nullable_iff']
  have e : (∃ φ : ℝ × ℝ, nullEq (mziFirstInvC φ.1 φ.2) a b = 0) ↔
      ∃ φa φb : ℝ, nullEq (mziFirstInvC φa φb) a b = 0 :=
    ⟨fun ⟨φ, h⟩ => ⟨φ.1, φ.2, h⟩, fun ⟨φa, φb, h⟩ => ⟨(φa, φb), h⟩⟩
  rw [← e]
  unfold mziFirstExactSolver
  split
  · rename_i h
    simp [h]
  · rename_i h
    simp [h]

end PM.C12
