/-
  C04 — lemmas for the long-lived `Simulator` / `Processor` (`Model/C04Session.lean`): the walk over the sorted
  `(group, budget)` keys computes every group under the mask the *current* selection asks for, hence a query on
  the long-lived object is the stateless `probsSvdDet` of the configuration set last.
-/
import PercevalModel.Model.C04Session
import PercevalModel.Lemmas.C04
import PercevalModel.Lemmas.C04Trim

namespace PM.C04
open PM.Fock PM.Dist PM.SimSpec PM.SM

/-- the stateless model, written with the same tail as the session model -/
theorem probsSvdDet_eq_tail (eng : Fock → D) (c : Cfg) (ds : List Det) (members : List Member) :
    probsSvdDet eng c ds members =
      tailDet { c with pnr := allPnr ds } ds (physInputs { c with pnr := allPnr ds } members)
        (resG (groupDist eng { c with pnr := allPnr ds }) { c with pnr := allPnr ds } members) := by
  unfold probsSvdDet tailDet
  split <;> rfl

theorem resG_congr (gd gd' : ℕ → Fock → D) (c : Cfg) (members : List Member)
    (h : ∀ mb ∈ kept c members, ∀ s ∈ mb.groups, gd mb.n s = gd' mb.n s) :
    resG gd c members = resG gd' c members := by
  unfold resG
  apply mix_congr
  intro mb hmb
  have : mb.groups.map (gd mb.n) = mb.groups.map (gd' mb.n) := List.map_congr_left (h mb hmb)
  rw [this]

/-- what the cache must hold for a key: the engine's distribution under the mask the current mode asks for
(no mask for budget 0) -/
def wantDist (eng : Fock → D) (m : ℕ) (st : SimSt) (key : Fock × ℕ) : D :=
  underMask (if key.2 = 0 then none else useMask m st key.2) eng key.1

/-- invariant of the walk: the cache is right, and the mask on the backend is the one of `previous_n` — whose
budget is non-zero and not above any budget still to come (the keys are sorted) -/
structure WalkInv (eng : Fock → D) (m : ℕ) (st : SimSt) (w : Walk) (l : List (Fock × ℕ)) : Prop where
  cache : ∀ e ∈ w.cache, e.2 = wantDist eng m st e.1
  none : w.prev = none → w.bmask = none
  some : ∀ n', w.prev = some n' → n' ≠ 0 ∧ w.bmask = useMask m st n' ∧ ∀ k ∈ l, n' ≤ k.2

theorem walkStep_cache (eng : Fock → D) (m : ℕ) (st : SimSt) (w : Walk) (k : Fock × ℕ) :
    ∃ d, (walkStep eng m st w k).cache = (k, d) :: w.cache := by
  unfold walkStep
  split <;> exact ⟨_, rfl⟩

theorem walkStep_inv (eng : Fock → D) (m : ℕ) (st : SimSt) (w : Walk) (k : Fock × ℕ) (r : List (Fock × ℕ))
    (hk : ∀ k' ∈ r, k.2 ≤ k'.2) (h : WalkInv eng m st w (k :: r)) :
    WalkInv eng m st (walkStep eng m st w k) r := by
  unfold walkStep
  by_cases hc : w.prev ≠ some k.2 ∧ k.2 ≠ 0
  · simp only [hc, and_self, ↓reduceIte, ne_eq, not_false_eq_true]
    refine ⟨?_, ?_, ?_⟩
    · intro e he
      simp only [List.mem_cons] at he
      rcases he with rfl | he
      · simp [wantDist, hc.2]
      · exact h.cache e he
    · intro hn; simp at hn
    · intro n' hn
      simp only [Option.some.injEq] at hn
      subst hn
      exact ⟨hc.2, rfl, hk⟩
  · simp only [hc, ↓reduceIte]
    have hc' : w.prev = some k.2 ∨ k.2 = 0 := by
      by_cases h0 : k.2 = 0
      · exact Or.inr h0
      · left
        by_contra hne
        exact hc ⟨hne, h0⟩
    refine ⟨?_, h.none, ?_⟩
    · intro e he
      simp only [List.mem_cons] at he
      rcases he with rfl | he
      · simp only [wantDist]
        by_cases h0 : k.2 = 0
        · simp only [h0, ↓reduceIte]
          cases hp : w.prev with
          | none => rw [h.none hp]
          | some n' =>
            obtain ⟨hn0, _, hle⟩ := h.some n' hp
            have := hle k List.mem_cons_self
            omega
        · simp only [h0, ↓reduceIte]
          rcases hc' with hp | hp
          · rw [(h.some _ hp).2.1]
          · exact absurd hp h0
      · exact h.cache e he
    · intro n' hn
      obtain ⟨a, b, c⟩ := h.some n' hn
      exact ⟨a, b, fun k' hk' => c k' (List.mem_cons_of_mem _ hk')⟩

theorem walk_foldl (eng : Fock → D) (m : ℕ) (st : SimSt) : ∀ (l : List (Fock × ℕ)) (w : Walk),
    l.Pairwise (fun a b => a.2 ≤ b.2) → WalkInv eng m st w l →
    (∀ e ∈ (l.foldl (walkStep eng m st) w).cache, e.2 = wantDist eng m st e.1) ∧
    (∀ k ∈ l, k ∈ (l.foldl (walkStep eng m st) w).cache.map (·.1)) ∧
    (∀ e ∈ w.cache, e ∈ (l.foldl (walkStep eng m st) w).cache)
  | [], w, _, h => ⟨h.cache, by simp, fun e he => he⟩
  | k :: r, w, hp, h => by
    rw [List.pairwise_cons] at hp
    obtain ⟨a, b, c⟩ := walk_foldl eng m st r (walkStep eng m st w k) hp.2
      (walkStep_inv eng m st w k r hp.1 h)
    obtain ⟨d, hd⟩ := walkStep_cache eng m st w k
    simp only [List.foldl_cons]
    refine ⟨a, ?_, ?_⟩
    · intro k' hk'
      simp only [List.mem_cons] at hk'
      rcases hk' with rfl | hk'
      · have : (k', d) ∈ (walkStep eng m st w k').cache := by rw [hd]; exact List.mem_cons_self
        exact List.mem_map.2 ⟨_, c _ this, rfl⟩
      · exact b k' hk'
    · intro e he
      apply c
      rw [hd]
      exact List.mem_cons_of_mem _ he

theorem lookup_of_cache {α β : Type} [BEq α] [LawfulBEq α] (F : α → β) : ∀ (c : List (α × β)) (k : α),
    (∀ e ∈ c, e.2 = F e.1) → k ∈ c.map (·.1) → c.lookup k = some (F k)
  | [], _, _, hk => by simp at hk
  | (a, b) :: r, k, h, hk => by
    rw [List.lookup_cons]
    by_cases hka : k == a
    · simp only [hka]
      have : a = k := (eq_of_beq hka).symm
      subst this
      exact congrArg some (h (a, b) List.mem_cons_self)
    · have hka' : (k == a) = false := by simpa using hka
      simp only [hka']
      apply lookup_of_cache F r k (fun e he => h e (List.mem_cons_of_mem _ he))
      simp only [List.map_cons, List.mem_cons] at hk
      rcases hk with rfl | hk
      · simp at hka
      · exact hk

/-- the distribution the current mode asks for *is* the stateless model's `groupDist` -/
theorem wantDist_eq_groupDist (eng : Fock → D) (m : ℕ) (st : SimSt) (c : Cfg) (nExt : ℕ) (s : Fock)
    (hm : c.m = m) (hh : c.heralds = st.heralds) (hcan : canUseMask c = st.canUseMask)
    (hn : st.nHer = nHeralds st.heralds) :
    wantDist eng m st (s, bestN st.canUseMask st.nHer nExt s.sum) = groupDist eng c nExt s := by
  unfold wantDist groupDist useMask underMask slack
  rw [hcan, hh, hm, ← hn]
  cases hc : st.canUseMask
  · simp
  · by_cases h0 : bestN true st.nHer nExt s.sum = 0
    · simp [h0]
    · simp [h0]

/-- **a query on the long-lived simulator is the stateless model of the selection set last** -/
theorem simProbs_out (eng : Fock → D) (m : ℕ) (st : SimSt) (ds : List Det) (members : List Member)
    (hn : st.nHer = nHeralds st.heralds) :
    (simProbs eng m st ds members).2 = probsSvdDet eng (st.cfg m) ds members := by
  rw [probsSvdDet_eq_tail]
  unfold simProbs
  simp only
  set st1 : SimSt := { st with canUseMask := !st.heralds.isEmpty && allPnr ds, bmask := none } with hst1
  have hcfg : ({ st1.cfg m with pnr := allPnr ds } : Cfg) = { st.cfg m with pnr := allPnr ds } := rfl
  rw [hcfg]
  set c : Cfg := { st.cfg m with pnr := allPnr ds } with hc
  congr 1
  apply resG_congr
  intro mb hmb s hs
  set keys := (kept c members).flatMap fun mb =>
    mb.groups.map fun s => (s, bestN st1.canUseMask st1.nHer mb.n s.sum) with hkeys
  have hsorted : (keys.mergeSort fun a b => decide (a.2 ≤ b.2)).Pairwise (fun a b => a.2 ≤ b.2) := by
    have := List.pairwise_mergeSort (le := fun (a b : Fock × ℕ) => decide (a.2 ≤ b.2))
      (fun a b c hab hbc => by simp only [decide_eq_true_eq] at *; omega)
      (fun a b => by simp only [Bool.or_eq_true, decide_eq_true_eq]; omega) keys
    exact this.imp (fun h => by simpa using h)
  have hinv0 : WalkInv eng m st1 ⟨none, st1.bmask, []⟩ (keys.mergeSort fun a b => decide (a.2 ≤ b.2)) :=
    ⟨by simp, fun _ => rfl, by simp⟩
  obtain ⟨hcache, hmem, _⟩ := walk_foldl eng m st1 _ _ hsorted hinv0
  have hkey : (s, bestN st1.canUseMask st1.nHer mb.n s.sum) ∈ keys := by
    rw [hkeys]
    exact List.mem_flatMap.2 ⟨mb, hmb, List.mem_map.2 ⟨s, hs, rfl⟩⟩
  have hk2 := hmem _ (List.mem_mergeSort.2 hkey)
  rw [lookup_of_cache (wantDist eng m st1) _ _ hcache hk2]
  simp only [Option.getD_some]
  exact wantDist_eq_groupDist eng m st1 c mb.n s rfl rfl rfl hn

/-- `_n_heralds` is the photon sum of `_heralds` after every history -/
theorem simStep_nHer (eng : Fock → D) (m : ℕ) (st : SimSt) (op : SimOp) (h : st.nHer = nHeralds st.heralds) :
    (simStep eng m st op).1.nHer = nHeralds (simStep eng m st op).1.heralds := by
  cases op with
  | setSelection f p hs =>
    cases f <;> cases p <;> cases hs <;> simp [simStep, h]
  | setHeralds hs => simp [simStep]
  | clearHeralds => simp [simStep, nHeralds]
  | setPostselection p => simpa [simStep] using h
  | clearPostselection => simpa [simStep] using h
  | setFilter k => simpa [simStep] using h
  | keepHeralds b => simpa [simStep] using h
  | probsSvd ds members => simpa [simStep, simProbs] using h

/-- the selection of a simulator state, as the user set it last -/
def SimSt.selection (st : SimSt) : List (ℕ × ℕ) × PS × ℕ × Bool := (st.heralds, st.ps, st.userFilter, st.keep)

/-- a query does not change the selection -/
theorem simProbs_selection (eng : Fock → D) (m : ℕ) (st : SimSt) (ds : List Det) (members : List Member) :
    (simProbs eng m st ds members).1.selection = st.selection := rfl

/-! ### Processor -/

/-- invariant of the processor: a kept simulator was built for the current heralds and post-selection -/
structure ProcInv (p : ProcSt) : Prop where
  sim : ∀ s, p.sim = some s → s.heralds = p.heralds ∧ s.ps = p.ps.getD .tt ∧ s.nHer = nHeralds s.heralds

theorem procInv_init : ProcInv ProcSt.init := ⟨by simp [ProcSt.init]⟩

theorem buildSim_spec (eng : Fock → D) (m : ℕ) (f : Option ℕ) (ps : Option PS) (hs : List (ℕ × ℕ)) :
    (buildSim eng m f ps hs).heralds = hs ∧ (buildSim eng m f ps hs).ps = ps.getD .tt ∧
    (buildSim eng m f ps hs).nHer = nHeralds (buildSim eng m f ps hs).heralds ∧
    (buildSim eng m f ps hs).userFilter = f.getD 0 := by
  unfold buildSim
  cases f <;> cases ps <;> simp [simStep, SimSt.init]

theorem procStep_inv (eng : Fock → D) (m : ℕ) (p : ProcSt) (op : ProcOp) (h : ProcInv p) :
    ProcInv (procStep true eng m p op).1 := by
  cases op with
  | addHerald k v => exact ⟨by simp [procStep]⟩
  | setDetectors ds => exact ⟨by simp [procStep]⟩
  | setPostselection q => exact ⟨by simp [procStep]⟩
  | clearPostselection =>
    unfold procStep
    by_cases hp : p.ps.isSome = true
    · simp only [hp, ↓reduceIte]
      exact ⟨by simp⟩
    · simp only [hp, Bool.false_eq_true, ↓reduceIte]
      exact h
  | setFilter k => exact ⟨fun s hs => h.sim s (by simpa [procStep] using hs)⟩
  | probs members autoN =>
    show ProcInv (procProbs eng m p members autoN).1
    unfold procProbs
    cases hf : p.filter.or autoN with
    | none => exact h
    | some f =>
      simp only
      refine ⟨fun s hs => ?_⟩
      simp only [Option.some.injEq] at hs
      subst hs
      cases hsim : p.sim with
      | none =>
        obtain ⟨a, b, c, _⟩ := buildSim_spec eng m (some f) p.ps p.heralds
        exact ⟨a, b, c⟩
      | some s0 =>
        obtain ⟨a, b, c⟩ := h.sim s0 hsim
        exact ⟨a, b, c⟩

/-- **`probs()` on the long-lived processor is the stateless model of the current configuration** -/
theorem procProbs_out (eng : Fock → D) (m : ℕ) (p : ProcSt) (members : List Member) (autoN : Option ℕ)
    (h : ProcInv p) :
    (procStep true eng m p (.probs members autoN)).2 =
      match p.filter.or autoN with
      | none => .exc "ValueError"
      | some f => .res (probsSvdDet eng (p.cfg m f) p.dets members) := by
  show (procProbs eng m p members autoN).2 = _
  unfold procProbs
  cases hf : p.filter.or autoN with
  | none => rfl
  | some f =>
    simp only
    congr 1
    cases hsim : p.sim with
    | none =>
      obtain ⟨a, b, c, d⟩ := buildSim_spec eng m (some f) p.ps p.heralds
      rw [simProbs_out _ _ _ _ _ (by simpa using c)]
      simp only [SimSt.cfg, ProcSt.cfg, a, b, d, Option.getD_some]
    | some s0 =>
      obtain ⟨a, b, c⟩ := h.sim s0 hsim
      rw [simProbs_out _ _ _ _ _ (by simpa using c)]
      simp only [SimSt.cfg, ProcSt.cfg, a, b]

end PM.C04
