/-
  C06 — the `k` samples of ONE `_generate_samples_no_filter` call: every `bsd.sample(k)` call draws `k` independent
  indices (one `random.choices(…, k=k)`), the calls are independent, sample `i` is built from the `i`-th index of every
  call (`nfSamples`).  Under ideal draws the list of the `k` samples is `k` INDEPENDENT copies of the one-sample law
  `pushF (nfSample dss) (nfDrawLaw dss)`.
  Generic steps: transposition (independent calls of `k` iid draws = `k` iid rows of independent draws), regrouping
  of a flat row of independent draws into blocks, iid of a push-forward.
-/
import PercevalModel.Lemmas.C06PlaceK
namespace PM.C06

/-! ### iid of a push-forward, iid of laws with the same expectations -/

section gen
variable {α β : Type}

theorem E_iid_pushF (f : α → β) (d : Dist α) (k : ℕ) (G : List β → ℚ) :
    E G (iid (pushF f d) k) = E (fun l => G (l.map f)) (iid d k) := by
  rw [iid_eq_prodLaw, iid_eq_prodLaw]
  exact E_prodLaw_replicate_pushF G k f d

theorem iid_congr {d d' : Dist α} (h : Same d d') (k : ℕ) : Same (iid d k) (iid d' k) := by
  induction k with
  | zero => exact Same.refl _
  | succ k ih =>
    intro G
    rw [E_iid_succ, E_iid_succ, h]
    apply E_congr
    intro a
    exact ih _

/-! ### regrouping a flat row of independent draws -/

theorem cutBy_cons_append (n : ℕ) (ns : List ℕ) (x y : List α) (h : x.length = n) :
    cutBy (n :: ns) (x ++ y) = x :: cutBy ns y := by
  show (x ++ y).take n :: cutBy ns ((x ++ y).drop n) = _
  rw [List.take_left' h, List.drop_left' h]

theorem E_prodLaw_flatten (Lss : List (List (Dist α))) (H : List (List α) → ℚ) :
    E (fun row => H (cutBy (Lss.map List.length) row)) (prodLaw Lss.flatten) =
      E H (prodLaw (Lss.map prodLaw)) := by
  induction Lss generalizing H with
  | nil =>
    rw [List.flatten_nil, List.map_nil, List.map_nil, E_prodLaw_nil, E_prodLaw_nil]
    rfl
  | cons ds Lss ih =>
    rw [List.flatten_cons, E_prodLaw_append, List.map_cons, List.map_cons, E_prodLaw_cons]
    apply E_congr_mem
    intro x hx
    have hl := prodLaw_length _ x hx
    rw [← ih (fun l => H (x.1 :: l))]
    apply E_congr
    intro y
    rw [cutBy_cons_append _ _ _ _ hl]

end gen

/-! ### transposition: independent calls of `k` iid draws = `k` iid rows of independent draws -/

/-- the first draw of every call first -/
theorem E_prodLaw_iid_succ {α : Type} (L : List (Dist α)) (k : ℕ) (G : List (List α) → ℚ) :
    E G (prodLaw (L.map fun d => iid d (k + 1))) =
      E (fun heads => E (fun tails => G (List.zipWith (fun a xs => a :: xs) heads tails))
        (prodLaw (L.map fun d => iid d k))) (prodLaw L) := by
  induction L generalizing G with
  | nil => simp only [List.map_nil, E_prodLaw_nil, List.zipWith_nil_left]
  | cons d L ih =>
    simp only [List.map_cons, E_prodLaw_cons]
    rw [E_iid_succ]
    apply E_congr
    intro a
    rw [E_congr (g' := fun xs => E (fun heads => E (fun tails =>
        G ((a :: xs) :: List.zipWith (fun a xs => a :: xs) heads tails))
        (prodLaw (L.map fun d => iid d k))) (prodLaw L))
      (fun xs => ih (fun l => G ((a :: xs) :: l)))]
    rw [E_comm]
    rfl

theorem rowOf_zipWith_zero (heads : List ℕ) (tails : List (List ℕ)) (h : heads.length = tails.length) :
    rowOf (List.zipWith (fun a xs => a :: xs) heads tails) 0 = heads := by
  induction heads generalizing tails with
  | nil => rfl
  | cons a heads ih =>
    cases tails with
    | nil => simp at h
    | cons xs tails =>
      have h' : heads.length = tails.length := by simpa using h
      have := ih tails h'
      unfold rowOf at this ⊢
      simp only [List.zipWith_cons_cons, List.map_cons, this]
      rfl

theorem rowOf_zipWith_succ (heads : List ℕ) (tails : List (List ℕ)) (h : heads.length = tails.length) (i : ℕ) :
    rowOf (List.zipWith (fun a xs => a :: xs) heads tails) (i + 1) = rowOf tails i := by
  induction heads generalizing tails with
  | nil =>
    cases tails with
    | nil => rfl
    | cons xs tails => simp at h
  | cons a heads ih =>
    cases tails with
    | nil => simp at h
    | cons xs tails =>
      have h' : heads.length = tails.length := by simpa using h
      have := ih tails h'
      unfold rowOf at this ⊢
      simp only [List.zipWith_cons_cons, List.map_cons, this]
      rfl

theorem rows_zipWith (heads : List ℕ) (tails : List (List ℕ)) (h : heads.length = tails.length) (k : ℕ) :
    (List.range (k + 1)).map (rowOf (List.zipWith (fun a xs => a :: xs) heads tails)) =
      heads :: (List.range k).map (rowOf tails) := by
  rw [List.range_succ_eq_map, List.map_cons, rowOf_zipWith_zero _ _ h, List.map_map]
  congr 1
  apply List.map_congr_left
  intro i _
  exact rowOf_zipWith_succ _ _ h i

theorem E_prodLaw_iid_zero {α : Type} (L : List (Dist α)) (G : List (List α) → ℚ) :
    E G (prodLaw (L.map fun d => iid d 0)) = G (List.replicate L.length []) := by
  induction L generalizing G with
  | nil => rw [List.map_nil, E_prodLaw_nil]; rfl
  | cons d L ih =>
    rw [List.map_cons, E_prodLaw_cons, E_iid_zero, ih]
    rfl

/-- the `i`-th draws of independent calls of `k` iid draws each are `k` independent rows of independent draws -/
theorem E_rows_iid (L : List (Dist ℕ)) (k : ℕ) (H : List (List ℕ) → ℚ) :
    E (fun calls => H ((List.range k).map (rowOf calls))) (prodLaw (L.map fun d => iid d k)) =
      E H (iid (prodLaw L) k) := by
  induction k generalizing H with
  | zero =>
    rw [E_prodLaw_iid_zero, E_iid_zero]
    rfl
  | succ k ih =>
    rw [E_prodLaw_iid_succ, E_iid_succ]
    apply E_congr_mem
    intro heads hh
    have hl := prodLaw_length _ heads hh
    rw [← ih (fun l => H (heads.1 :: l))]
    apply E_congr_mem
    intro tails ht
    have hl' := prodLaw_length _ tails ht
    rw [List.length_map] at hl'
    rw [rows_zipWith _ _ (hl.trans hl'.symm)]

/-! ### the `k` samples of `_generate_samples_no_filter` -/

theorem nfSamples_length (dss : List (List (Dist Mode))) (k : ℕ) (calls : List (List ℕ)) :
    (nfSamples dss k calls).length = k := by
  simp [nfSamples]

/-- under ideal draws the `k` samples of one call are `k` independent copies of the one-sample law -/
theorem nfSamples_iid (dss : List (List (Dist Mode))) (k : ℕ) (G : List State → ℚ) :
    E (fun calls => G (nfSamples dss k calls)) (prodLaw (dss.flatten.map fun d => iid (sampleIdxLaw d) k)) =
      E G (iid (pushF (nfSample dss) (nfDrawLaw dss)) k) := by
  have hflat : (dss.map fun ds => ds.map sampleIdxLaw).flatten = dss.flatten.map sampleIdxLaw := by
    rw [List.map_flatten]
  have hlen : (dss.map fun ds => ds.map sampleIdxLaw).map List.length = dss.map List.length := by
    rw [List.map_map]
    apply List.map_congr_left
    intro ds _
    simp
  -- one row, regrouped, has the law `nfDrawLaw`
  have hrow : Same (pushF (cutBy (dss.map List.length)) (prodLaw (dss.flatten.map sampleIdxLaw)))
      (nfDrawLaw dss) := by
    intro H
    have := E_prodLaw_flatten (dss.map fun ds => ds.map sampleIdxLaw) H
    rw [hflat, hlen] at this
    rw [E_pushF, this]
    unfold nfDrawLaw
    rw [List.map_map]
    rfl
  have hL : (dss.flatten.map fun d => iid (sampleIdxLaw d) k) =
      (dss.flatten.map sampleIdxLaw).map fun d => iid d k := by
    rw [List.map_map]
    rfl
  rw [E_iid_pushF, ← iid_congr hrow k, E_iid_pushF, hL,
    ← E_rows_iid (dss.flatten.map sampleIdxLaw) k]
  apply E_congr
  intro calls
  unfold nfSamples
  rw [List.map_map, List.map_map]
  rfl

theorem nfSamples_iid_prod (dss : List (List (Dist Mode))) (k : ℕ) (g : State → ℚ) :
    E (fun calls => ((nfSamples dss k calls).map g).prod)
        (prodLaw (dss.flatten.map fun d => iid (sampleIdxLaw d) k)) =
      E g (pushF (nfSample dss) (nfDrawLaw dss)) ^ k :=
  (nfSamples_iid dss k (fun l => (l.map g).prod)).trans (E_iid_prod g _ k)

end PM.C06
