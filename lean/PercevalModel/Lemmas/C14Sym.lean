/-
  C14 (extension 2) — the symbolic branch of the leaf components (`Model/C14Sym.lean`) evaluated at real values:
  interpretation of the function symbols at `ℝ`, evaluation lemmas, base change of the ring-polymorphic component
  definitions along a ring homomorphism.
-/
import PercevalModel.Model.C14Sym
import PercevalModel.Lemmas.C14Complex
import PercevalModel.Lemmas.C14Expr
import Mathlib.Analysis.SpecialFunctions.Trigonometric.Inverse
import Mathlib.Analysis.Real.Sqrt
import Mathlib.Algebra.MvPolynomial.Eval

open Matrix PM Complex

namespace PM.C14

/-- the function symbols at `ℝ`: `sqrt` of a negative number and `acos` outside `[-1, 1]` are not real
(`float()` raises `TypeError: Cannot convert complex to float`) -/
noncomputable def realInterp : Interp ℝ where
  pi := Real.pi
  fn
    | .sin, x => some (Real.sin x)
    | .cos, x => some (Real.cos x)
    | .exp, x => some (Real.exp x)
    | .sqrt, x => if 0 ≤ x then some (Real.sqrt x) else none
    | .acos, x => if -1 ≤ x ∧ x ≤ 1 then some (Real.arccos x) else none

@[simp] theorem realInterp_cos (x : ℝ) : realInterp.fn .cos x = some (Real.cos x) := rfl
@[simp] theorem realInterp_sin (x : ℝ) : realInterp.fn .sin x = some (Real.sin x) := rfl
@[simp] theorem realInterp_exp (x : ℝ) : realInterp.fn .exp x = some (Real.exp x) := rfl
@[simp] theorem realInterp_pi : realInterp.pi = Real.pi := rfl

/-- a real expression at real values -/
noncomputable abbrev XExpr.evalR (env : String → Option ℝ) (e : XExpr) : Option ℝ := e.eval realInterp env

/-- a complex entry at real values -/
noncomputable abbrev CExpr.evalC (env : String → Option ℝ) (e : CExpr) : Option ℂ :=
  e.eval realInterp (fun x : ℝ => (x : ℂ)) Complex.I env

theorem evalR_half {env : String → Option ℝ} {a : XExpr} {t : ℝ} (h : a.evalR env = some t) :
    a.half.evalR env = some (t / 2) := by
  simp only [XExpr.evalR] at h
  simp [XExpr.evalR, XExpr.half, XExpr.eval, h]

theorem evalR_dbl {env : String → Option ℝ} {a : XExpr} {t : ℝ} (h : a.evalR env = some t) :
    a.dbl.evalR env = some (2 * t) := by
  simp only [XExpr.evalR] at h
  simp [XExpr.evalR, XExpr.dbl, XExpr.eval, h]

theorem evalR_add {env : String → Option ℝ} {a b : XExpr} {x y : ℝ} (ha : a.evalR env = some x)
    (hb : b.evalR env = some y) : (XExpr.add a b).evalR env = some (x + y) := by
  simp only [XExpr.evalR] at ha hb
  simp [XExpr.evalR, XExpr.eval, ha, hb]

theorem evalR_cos {env : String → Option ℝ} {a : XExpr} {x : ℝ} (ha : a.evalR env = some x) :
    (XExpr.app .cos a).evalR env = some (Real.cos x) := by
  simp only [XExpr.evalR] at ha
  simp [XExpr.evalR, XExpr.eval, ha]

theorem evalR_sin {env : String → Option ℝ} {a : XExpr} {x : ℝ} (ha : a.evalR env = some x) :
    (XExpr.app .sin a).evalR env = some (Real.sin x) := by
  simp only [XExpr.evalR] at ha
  simp [XExpr.evalR, XExpr.eval, ha]

theorem evalC_re {env : String → Option ℝ} {a : XExpr} {x : ℝ} (ha : a.evalR env = some x) :
    (CExpr.re a).evalC env = some (x : ℂ) := by
  simp only [XExpr.evalR] at ha
  simp [CExpr.evalC, CExpr.eval, ha]

theorem evalC_expI {env : String → Option ℝ} {a : XExpr} {x : ℝ} (ha : a.evalR env = some x) :
    (CExpr.expI a).evalC env = some (ph x) := by
  simp only [XExpr.evalR] at ha
  simp only [CExpr.evalC, CExpr.eval, ha, realInterp_cos, realInterp_sin, ph]
  rw [Complex.exp_mul_I, Complex.ofReal_cos, Complex.ofReal_sin]
  congr 1
  ring

theorem evalC_one (env : String → Option ℝ) : CExpr.one.evalC env = some 1 := by
  simp [CExpr.evalC, CExpr.one, CExpr.eval, XExpr.eval]

theorem evalC_I (env : String → Option ℝ) : CExpr.I.evalC env = some Complex.I := rfl

theorem evalC_mul {env : String → Option ℝ} {a b : CExpr} {x y : ℂ} (ha : a.evalC env = some x)
    (hb : b.evalC env = some y) : (CExpr.mul a b).evalC env = some (x * y) := by
  simp only [CExpr.evalC] at ha hb
  simp [CExpr.evalC, CExpr.eval, ha, hb]

theorem evalC_add {env : String → Option ℝ} {a b : CExpr} {x y : ℂ} (ha : a.evalC env = some x)
    (hb : b.evalC env = some y) : (CExpr.add a b).evalC env = some (x + y) := by
  simp only [CExpr.evalC] at ha hb
  simp [CExpr.evalC, CExpr.eval, ha, hb]

theorem evalC_sub {env : String → Option ℝ} {a b : CExpr} {x y : ℂ} (ha : a.evalC env = some x)
    (hb : b.evalC env = some y) : (CExpr.sub a b).evalC env = some (x - y) := by
  simp only [CExpr.evalC] at ha hb
  simp [CExpr.evalC, CExpr.eval, ha, hb]

theorem evalC_neg {env : String → Option ℝ} {a : CExpr} {x : ℂ} (ha : a.evalC env = some x) :
    (CExpr.neg a).evalC env = some (-x) := by
  simp only [CExpr.evalC] at ha
  simp [CExpr.evalC, CExpr.eval, ha]

/-- the symbolic template evaluates to the numeric template -/
theorem templateS_evalC (env : String → Option ℝ) (conv : Conv) (i j : Fin 2) :
    (templateS conv i j).evalC env = some (template Complex.I conv i j) := by
  cases conv <;> fin_cases i <;> fin_cases j <;>
    simp [templateS, template, evalC_one, evalC_I, evalC_neg (evalC_one env)]

/-! ### base change of the ring-polymorphic definitions -/

section map
variable {R S : Type*} [CommRing R] [CommRing S] (f : R →+* S)

theorem template_map (I : R) (conv : Conv) : (template I conv).map f = template (f I) conv := by
  cases conv <;> ext i j <;> fin_cases i <;> fin_cases j <;> simp [template]

theorem bs_map' (I : R) (conv : Conv) (c s ptl pbl ptr pbr : R) :
    (bs I conv c s ptl pbl ptr pbr).map f = bs (f I) conv (f c) (f s) (f ptl) (f pbl) (f ptr) (f pbr) := by
  cases conv <;> ext i j <;> fin_cases i <;> fin_cases j <;> simp [bs, template]

theorem Ang.map_add (a b : Ang R) :
    (⟨f (a.add b).c, f (a.add b).s⟩ : Ang S) = (⟨f a.c, f a.s⟩ : Ang S).add ⟨f b.c, f b.s⟩ := by
  simp [Ang.add]

theorem bsNum_map' (I : R) (conv : Conv) (h tl bl tr br : Ang R) :
    (bsNum I conv h tl bl tr br).map f =
      bsNum (f I) conv ⟨f h.c, f h.s⟩ ⟨f tl.c, f tl.s⟩ ⟨f bl.c, f bl.s⟩ ⟨f tr.c, f tr.s⟩ ⟨f br.c, f br.s⟩ := by
  cases conv <;> ext i j <;> fin_cases i <;> fin_cases j <;> simp [bsNum, template, Ang.add, Ang.cis]

theorem wp_map' (I : R) (d x : Ang R) :
    (wp I d x).map f = wp (f I) ⟨f d.c, f d.s⟩ ⟨f x.c, f x.s⟩ := by
  ext i j; fin_cases i <;> fin_cases j <;> simp [wp, Ang.add]

theorem pr_map' (d : Ang R) : (pr d).map f = pr ⟨f d.c, f d.s⟩ := by
  ext i j; fin_cases i <;> fin_cases j <;> simp [pr]

theorem ps_map' (p : R) : (ps p).map f = ps (f p) := by
  ext i j; fin_cases i; fin_cases j; simp [ps]

theorem psNum_map' (I : R) (a : Ang R) : (psNum I a).map f = psNum (f I) ⟨f a.c, f a.s⟩ := by
  ext i j; fin_cases i; fin_cases j; simp [psNum, Ang.cis]

theorem permMat_map' {n : ℕ} (σ : Fin n → Fin n) : (permMat (R := R) σ).map f = permMat σ := by
  ext i j
  simp only [Matrix.map_apply, permMat]
  split_ifs <;> simp

end map

end PM.C14
