/-
  C12 — lemmas about the parameter plumbing (`Model/C12Inst.lean`).
-/
import PercevalModel.Model.C12Inst
import Mathlib.Tactic.Linarith
import Mathlib.Tactic.Ring
import Mathlib.Tactic.FieldSimp
import Mathlib.Algebra.Order.Floor.Ring

namespace PM.C12.Inst

open PM.C12.Solve

/-! ### the moving index `get_parameters()[0]` is the positional assignment -/

theorem instantiate_nil (ps : List Par) : instantiate ps [] = some ps := rfl

theorem instantiate_cons (ps : List Par) (v : ℚ) (vs : List ℚ) :
    instantiate ps (v :: vs) = (fixFirst ps v).bind fun qs => instantiate qs vs := by
  simp [instantiate, List.foldlM_cons]

/-- a fixed parameter at the head of the table is skipped by every step of the loop -/
theorem instantiate_fixed_head (p : Par) (hp : p.free = false) :
    ∀ (res : List ℚ) (ps : List Par), instantiate (p :: ps) res = (instantiate ps res).map (p :: ·)
  | [], ps => by simp [instantiate_nil]
  | v :: vs, ps => by
    rw [instantiate_cons, instantiate_cons]
    simp only [fixFirst, hp, Bool.false_eq_true, if_false]
    cases h : fixFirst ps v with
    | none => simp
    | some qs => simpa using instantiate_fixed_head p hp vs qs

theorem fixValue_not_free {p q : Par} {v : ℚ} (h : fixValue p v = some q) : q.free = false := by
  unfold fixValue at h
  cases hc : checkValue v p.lo p.hi p.periodic with
  | none => simp [hc] at h
  | some w => simp [hc] at h; subst h; rfl

theorem instantiate_eq_assign : ∀ (ps : List Par) (res : List ℚ), instantiate ps res = assign ps res
  | [], [] => rfl
  | [], v :: vs => by simp [instantiate_cons, fixFirst, assign]
  | p :: ps, [] => rfl
  | p :: ps, v :: vs => by
    by_cases hp : p.free = true
    · rw [instantiate_cons]
      simp only [fixFirst, assign, hp, if_true]
      cases hf : fixValue p v with
      | none => simp
      | some q =>
        simp only [Option.map_some, Option.bind_some]
        rw [instantiate_fixed_head q (fixValue_not_free hf), instantiate_eq_assign ps vs]
    · have hp' : p.free = false := by simpa using hp
      rw [instantiate_fixed_head p hp', instantiate_eq_assign ps (v :: vs)]
      simp [assign, hp']

/-! ### what the positional assignment does -/

theorem getParameters_cons (p : Par) (ps : List Par) :
    getParameters (p :: ps) = if p.free then p :: getParameters ps else getParameters ps := by
  unfold getParameters
  by_cases h : p.free = true <;> simp [List.filter_cons, h]

/-- static data of a parameter (bounds, periodic flag) -/
def static (p : Par) : Option ℚ × Option ℚ × Bool := (p.lo, p.hi, p.periodic)

theorem fixValue_spec {p q : Par} {v : ℚ} (h : fixValue p v = some q) :
    q.free = false ∧ static q = static p ∧ q.val = checkValue v p.lo p.hi p.periodic ∧ q.val.isSome = true := by
  unfold fixValue at h
  cases hc : checkValue v p.lo p.hi p.periodic with
  | none => simp [hc] at h
  | some w => simp [hc] at h; subst h; simp [static]

theorem assign_spec : ∀ (ps : List Par) (res : List ℚ) (ps' : List Par), assign ps res = some ps' →
    ps'.length = ps.length ∧ ps'.map static = ps.map static ∧
    List.Forall₂ (fun p q => p.free = false → q = p) ps ps' ∧
    (res.length = (getParameters ps).length →
      getParameters ps' = [] ∧
      (atFree ps ps').map (·.val) =
        List.zipWith (fun p v => checkValue v p.lo p.hi p.periodic) (getParameters ps) res ∧
      ∀ q ∈ atFree ps ps', q.val.isSome = true)
  | [], [], ps', h => by
    simp [assign] at h; subst h; simp [getParameters, atFree]
  | [], _ :: _, ps', h => by simp [assign] at h
  | p :: ps, [], ps', h => by
    simp only [assign, Option.some.injEq] at h; subst h
    refine ⟨rfl, rfl, ?_, ?_⟩
    · exact List.forall₂_same.mpr fun _ _ _ => rfl
    · intro hl
      have hl' : getParameters (p :: ps) = [] := List.eq_nil_of_length_eq_zero (by simpa using hl.symm)
      refine ⟨hl', ?_, ?_⟩
      · simp [hl']
        have : ∀ (l : List Par), getParameters l = [] → atFree l l = [] := by
          intro l
          induction l with
          | nil => intro _; rfl
          | cons a l ih =>
            intro h
            rw [getParameters_cons] at h
            by_cases ha : a.free = true
            · simp [ha] at h
            · simp only [ha, Bool.false_eq_true, if_false] at h
              simp [atFree, ha, ih h]
        simp [this _ hl']
      · have : ∀ (l : List Par), getParameters l = [] → atFree l l = [] := by
          intro l
          induction l with
          | nil => intro _; rfl
          | cons a l ih =>
            intro h
            rw [getParameters_cons] at h
            by_cases ha : a.free = true
            · simp [ha] at h
            · simp only [ha, Bool.false_eq_true, if_false] at h
              simp [atFree, ha, ih h]
        simp [this _ hl']
  | p :: ps, v :: vs, ps', h => by
    by_cases hp : p.free = true
    · simp only [assign, hp, if_true] at h
      cases hf : fixValue p v with
      | none => simp [hf] at h
      | some q =>
        simp only [hf, Option.bind_some, Option.map_eq_some_iff] at h
        obtain ⟨qs, hqs, rfl⟩ := h
        obtain ⟨h1, h2, h3, h4⟩ := assign_spec ps vs qs hqs
        obtain ⟨f1, f2, f3, f4⟩ := fixValue_spec hf
        refine ⟨by simp [h1], by simp [h2, f2], List.Forall₂.cons (by simp [hp]) h3, ?_⟩
        intro hl
        rw [getParameters_cons] at hl
        simp only [hp, if_true, List.length_cons, Nat.add_right_cancel_iff] at hl
        obtain ⟨g1, g2, g3⟩ := h4 hl
        refine ⟨?_, ?_, ?_⟩
        · rw [getParameters_cons]; simp [f1, g1]
        · rw [getParameters_cons]; simp [atFree, hp, f3, g2]
        · intro x hx
          simp only [atFree, hp, if_true, List.mem_cons] at hx
          rcases hx with rfl | hx
          · exact f4
          · exact g3 x hx
    · have hp' : p.free = false := by simpa using hp
      simp only [assign, hp', Bool.false_eq_true, if_false, Option.map_eq_some_iff] at h
      obtain ⟨qs, hqs, rfl⟩ := h
      obtain ⟨h1, h2, h3, h4⟩ := assign_spec ps (v :: vs) qs hqs
      refine ⟨by simp [h1], by simp [h2], List.Forall₂.cons (fun _ => rfl) h3, ?_⟩
      intro hl
      simp only [getParameters_cons, hp', Bool.false_eq_true, if_false] at hl ⊢
      obtain ⟨g1, g2, g3⟩ := h4 hl
      exact ⟨g1, by simpa [atFree, hp'] using g2, by simpa [atFree, hp'] using g3⟩

/-- too many values: `get_parameters()[0]` raises IndexError -/
theorem assign_too_many : ∀ (ps : List Par) (res : List ℚ), (getParameters ps).length < res.length →
    assign ps res = none
  | [], [], h => by simp at h
  | [], _ :: _, _ => rfl
  | p :: ps, [], h => by simp at h
  | p :: ps, v :: vs, h => by
    rw [getParameters_cons] at h
    by_cases hp : p.free = true
    · simp only [hp, if_true, List.length_cons, Nat.add_lt_add_iff_right] at h
      simp only [assign, hp, if_true]
      cases fixValue p v with
      | none => rfl
      | some q => simp [assign_too_many ps vs h]
    · have hp' : p.free = false := by simpa using hp
      simp only [hp', Bool.false_eq_true, if_false] at h
      simp [assign, hp', assign_too_many ps (v :: vs) h]

/-- every check passes ⇒ the loop does not raise -/
theorem assign_isSome : ∀ (ps : List Par) (res : List ℚ),
    List.Forall₂ (fun p v => (checkValue v p.lo p.hi p.periodic).isSome = true) (getParameters ps) res →
    (assign ps res).isSome = true
  | [], [], _ => rfl
  | [], _ :: _, h => by simp [getParameters] at h
  | p :: ps, [], _ => rfl
  | p :: ps, v :: vs, h => by
    rw [getParameters_cons] at h
    by_cases hp : p.free = true
    · simp only [hp, if_true, List.forall₂_cons] at h
      have := assign_isSome ps vs h.2
      simp only [assign, hp, if_true, fixValue]
      obtain ⟨w, hw⟩ := Option.isSome_iff_exists.mp h.1
      obtain ⟨qs, hqs⟩ := Option.isSome_iff_exists.mp this
      simp [hw, hqs]
    · have hp' : p.free = false := by simpa using hp
      simp only [hp', Bool.false_eq_true, if_false] at h
      have := assign_isSome ps (v :: vs) h
      obtain ⟨qs, hqs⟩ := Option.isSome_iff_exists.mp this
      simp [assign, hp', hqs]

/-! ### `_check_value` -/

theorem checkValue_in_range {v l h : ℚ} (per : Bool) (hl : l ≤ v) (hh : v ≤ h) (hlt : l < h) :
    checkValue v (some l) (some h) per = some v := by
  cases per
  · simp [checkValue, not_lt.mpr hl, not_lt.mpr hh]
  · simp only [checkValue, hlt, if_true, wrap, not_lt.mpr hl, not_lt.mpr hh, if_false]
    rw [max_eq_left hl, min_eq_left hh]

theorem checkValue_nonperiodic_out {v l h : ℚ} (hout : v < l ∨ h < v) :
    checkValue v (some l) (some h) false = none := by
  rcases hout with h1 | h1 <;> simp [checkValue, h1]

theorem wrap_spec {v l h : ℚ} (hlt : l < h) :
    ∃ k : ℤ, wrap v l h = v + k * (h - l) ∧ l ≤ wrap v l h ∧ wrap v l h ≤ h := by
  have hT : 0 < h - l := sub_pos.mpr hlt
  unfold wrap
  by_cases h1 : h < v
  · simp only [h1, if_true]
    set p : ℤ := ⌊(v - h) / (h - l)⌋ with hp
    have e1 : (p : ℚ) ≤ (v - h) / (h - l) := Int.floor_le _
    have e2 : (v - h) / (h - l) < p + 1 := Int.lt_floor_add_one _
    rw [le_div_iff₀ hT] at e1
    rw [div_lt_iff₀ hT] at e2
    have a1 : l ≤ v - ((p : ℚ) + 1) * (h - l) := by nlinarith
    have a2 : v - ((p : ℚ) + 1) * (h - l) ≤ h := by nlinarith
    refine ⟨-(p + 1), ?_, ?_, ?_⟩
    · rw [max_eq_left a1, min_eq_left a2]; push_cast; ring
    · rw [max_eq_left a1, min_eq_left a2]; exact a1
    · exact min_le_right _ _
  · by_cases h2 : v < l
    · simp only [h1, if_false, h2, if_true]
      set p : ℤ := ⌊(l - v) / (h - l)⌋ with hp
      have e1 : (p : ℚ) ≤ (l - v) / (h - l) := Int.floor_le _
      have e2 : (l - v) / (h - l) < p + 1 := Int.lt_floor_add_one _
      rw [le_div_iff₀ hT] at e1
      rw [div_lt_iff₀ hT] at e2
      have a1 : l ≤ v + ((p : ℚ) + 1) * (h - l) := by nlinarith
      have a2 : v + ((p : ℚ) + 1) * (h - l) ≤ h := by nlinarith
      refine ⟨p + 1, ?_, ?_, ?_⟩
      · rw [max_eq_left a1, min_eq_left a2]; push_cast; ring
      · rw [max_eq_left a1, min_eq_left a2]; exact a1
      · exact min_le_right _ _
    · simp only [h1, h2, if_false]
      have a1 : l ≤ v := not_lt.mp h2
      have a2 : v ≤ h := not_lt.mp h1
      exact ⟨0, by rw [max_eq_left a1, min_eq_left a2]; simp, by rw [max_eq_left a1, min_eq_left a2]; exact a1,
        min_le_right _ _⟩

/-! ### `x0` and `bounds` stay aligned through the recursion of `solve` -/

section
variable {γ δ : Type}

@[simp] theorem freeOf_nil_left (cs : List (Option ℚ)) : freeOf ([] : List γ) cs = [] := by
  cases cs <;> rfl

theorem freeOf_eraseIdx : ∀ (cs : List (Option ℚ)) (l : List γ) (i : ℕ) (c : ℚ), firstSome cs = some (i, c) →
    freeOf (l.eraseIdx i) (cs.eraseIdx i) = freeOf l cs
  | [], _, _, _, h => by simp [firstSome] at h
  | some c' :: cs, l, i, c, h => by
    simp only [firstSome, Option.some.injEq, Prod.mk.injEq] at h
    obtain ⟨rfl, _⟩ := h
    cases l with
    | nil => simp
    | cons a l => simp [freeOf]
  | none :: cs, l, i, c, h => by
    simp only [firstSome, Option.map_eq_some_iff] at h
    obtain ⟨⟨i', c'⟩, h', he⟩ := h
    simp only [Prod.mk.injEq] at he
    obtain ⟨rfl, rfl⟩ := he
    cases l with
    | nil => simp
    | cons a l => simp [freeOf, freeOf_eraseIdx cs l i' c' h']

theorem freeOf_no_imposed : ∀ (cs : List (Option ℚ)) (l : List γ), firstSome cs = none → l.length = cs.length →
    freeOf l cs = l
  | [], l, _, hl => by
    have : l = [] := List.eq_nil_of_length_eq_zero (by simpa using hl)
    subst this; rfl
  | some c :: cs, _, h, _ => by simp [firstSome] at h
  | none :: cs, l, h, hl => by
    cases l with
    | nil => simp at hl
    | cons a l =>
      simp only [firstSome, Option.map_eq_none_iff] at h
      simp only [List.length_cons, Nat.add_right_cancel_iff] at hl
      simp [freeOf, freeOf_no_imposed cs l h hl]

theorem optArgs_eq_freeOf (x0 : List γ) (bs : List δ) (cs : List (Option ℚ))
    (hx : x0.length = cs.length) (hb : bs.length = cs.length) :
    optArgs x0 bs cs = (freeOf x0 cs, freeOf bs cs) := by
  induction hn : cs.length using Nat.strong_induction_on generalizing x0 bs cs with
  | _ n ih =>
    rw [optArgs]
    split
    · rename_i i c h
      have hi := firstSome_lt h
      have hlen : (cs.eraseIdx i).length = cs.length - 1 := by rw [List.length_eraseIdx]; simp [hi]
      rw [ih (cs.length - 1) (by omega) (x0.eraseIdx i) (bs.eraseIdx i) (cs.eraseIdx i)
        (by rw [List.length_eraseIdx, hlen]; simp [hx, hi]) (by rw [List.length_eraseIdx, hlen]; simp [hb, hi]) hlen,
        freeOf_eraseIdx cs x0 i c h, freeOf_eraseIdx cs bs i c h]
    · rename_i h
      rw [freeOf_no_imposed cs x0 h hx, freeOf_no_imposed cs bs h hb]

theorem freeOf_zip : ∀ (l : List γ) (b : List δ) (cs : List (Option ℚ)),
    (freeOf l cs).zip (freeOf b cs) = freeOf (l.zip b) cs
  | [], _, cs => by simp
  | _ :: _, [], cs => by simp
  | a :: l, d :: b, [] => by simp [freeOf]
  | a :: l, d :: b, none :: cs => by simp [freeOf, freeOf_zip l b cs]
  | a :: l, d :: b, some _ :: cs => by simp [freeOf, freeOf_zip l b cs]

theorem length_freeOf : ∀ (l : List γ) (cs : List (Option ℚ)), l.length = cs.length →
    (freeOf l cs).length = (cs.filter (·.isNone)).length
  | [], [], _ => rfl
  | [], _ :: _, h => by simp at h
  | _ :: _, [], h => by simp at h
  | a :: l, none :: cs, h => by
    simp only [List.length_cons, Nat.add_right_cancel_iff] at h
    simp [freeOf, length_freeOf l cs h]
  | a :: l, some _ :: cs, h => by
    simp only [List.length_cons, Nat.add_right_cancel_iff] at h
    simp [freeOf, length_freeOf l cs h]
end

end PM.C12.Inst
