/-
  C18 — wave 7: the call-level machine of `Model/C18.lean` IS the access-level machine of `Model/C18Race.lean`
  run under the schedules that do not preempt (partial refinement theorem).

  `seqBlock e` is the block of accesses an asynchronous-mode event `e` of the call-level machine consists of, run
  without preemption (padded with steps that are disabled once the call / the worker's epilogue has ended — a
  disabled step changes nothing).  `Sim r s` relates a state of the access-level machine (caller idle, worker at
  rest: before the task, inside it, or dead) with a state of the call-level machine.  `sim_step`: every event of
  the asynchronous alphabet keeps `Sim`; `sim_after`: after any asynchronous history `w`,
  `rafter true cfg (w.flatMap seqBlock)` and `after true cfg w` agree on status, message, progress, cancel flag,
  results, pending conversion, both dictionaries and the number of task entries.
-/
import PercevalModel.Lemmas.C18More

namespace PM.C18
open PM.SM

/-- the events of the asynchronous run (no `execute_sync`, no exception escaping the user's callback) -/
def asyncEv : Ev → Bool
  | .execSync _ | .tPropagate => false
  | _ => true

/-- the accesses of one call-level event, without preemption -/
def seqBlock : Ev → List REv
  | .execAsync c => [.exec c]
  | .statusQuery => [.begin .status, .c, .c, .c, .c, .c]
  | .cancel => [.begin .cancel, .c]
  | .getResults => [.begin .get, .c, .c, .c, .c, .c, .c, .c]
  | .tStart => [.w]
  | .tProgress p => [.task (.prog p), .w, .w, .w, .w]
  | .tReturn r => [.task (.ret r), .w, .w, .w, .w, .w, .w]
  | .tRaise c t => [.task (.raise c t), .w, .w, .w]
  | _ => []

/-- the simulation relation: equal job fields; caller idle; the worker at rest in the place the phase says -/
def Sim (r : RState) (s : State) : Prop :=
  r.st = s.status ∧ r.msg = s.msg ∧ r.prog = s.progress ∧ r.cancelReq = s.cancelReq ∧ r.results = s.results ∧
  r.mapPending = s.mapPending ∧ r.command = s.command ∧ r.mapping = s.mapping ∧ r.fnCalls = s.fnCalls ∧
  r.cpc = .idle ∧ s.mode ≠ .sync ∧
  (match s.phase with
   | .idle => r.started = false ∧ r.wpc = .entry ∧ s.status = .waiting
   | .ready => r.started = true ∧ r.alive = true ∧ r.wpc = .entry ∧ s.worker = .alive ∧ s.status = .running
   | .active => r.started = true ∧ r.alive = true ∧ r.wpc = .inTask ∧ s.worker = .alive ∧ s.status = .running
   | .done => r.started = true ∧ r.alive = false ∧ (∃ o, r.wpc = .dead o) ∧ s.worker = .dead ∧
       s.status.isFinal = true)

theorem sim_init (cfg : Cfg) : Sim (rinit cfg) (init cfg) := by
  simp [Sim, rinit, init]

theorem enabled_of_async {s : State} (h : s.mode ≠ .sync) : callerEnabled s = true := by
  unfold callerEnabled
  cases hm : s.mode <;> simp_all

theorem sim_cancel (cfg : Cfg) (r : RState) (s : State) (h : Sim r s) :
    Sim (exec (rstep true cfg) r (seqBlock .cancel)) (step true cfg s .cancel).1 := by
  obtain ⟨h1, h2, h3, h4, h5, h6, h7, h8, h9, hc, hm, hp⟩ := h
  simp only [seqBlock, exec_cons, exec_nil, step, enabled_of_async hm, if_true]
  simp only [rstep, hc, if_true, callerStep]
  exact ⟨h1, h2, h3, rfl, h5, h6, h7, h8, h9, rfl, hm, hp⟩

theorem sim_tStart (cfg : Cfg) (r : RState) (s : State) (h : Sim r s) :
    Sim (exec (rstep true cfg) r (seqBlock .tStart)) (step true cfg s .tStart).1 := by
  obtain ⟨h1, h2, h3, h4, h5, h6, h7, h8, h9, hc, hm, hp⟩ := h
  simp only [seqBlock, exec_cons, exec_nil, step, rstep]
  cases hph : s.phase <;> simp only [hph] at hp
  · simp [workerStep, hp.1, Sim, *]
  · obtain ⟨p1, p2, p3, p4, p5⟩ := hp
    simp [workerStep, taskStart, Sim, *]
  · obtain ⟨p1, p2, p3, p4, p5⟩ := hp
    simp [workerStep, Sim, *]
  · obtain ⟨p1, p2, ⟨o, p3⟩, p4, p5⟩ := hp
    simp [workerStep, Sim, *]

theorem sim_tRaise (cfg : Cfg) (r : RState) (s : State) (c t : Nat) (h : Sim r s)
    (hen : (step true cfg s (.tRaise c t)).2 ≠ .disabled) :
    Sim (exec (rstep true cfg) r (seqBlock (.tRaise c t))) (step true cfg s (.tRaise c t)).1 := by
  obtain ⟨h1, h2, h3, h4, h5, h6, h7, h8, h9, hc, hm, hp⟩ := h
  cases hph : s.phase <;> simp only [hph] at hp
  case active =>
    simp only [seqBlock, exec_cons, exec_nil, step, rstep]
    obtain ⟨p1, p2, p3, p4, p5⟩ := hp
    cases hmd : s.mode
    · simp [workerStep, taskStep, taskRaise, finish, stopRun, Sim, St.isFinal, *]
    · exact absurd hmd hm
    · simp [workerStep, taskStep, taskRaise, finish, stopRun, Sim, St.isFinal, *]
  all_goals exact absurd (by simp [step, hph]) hen

theorem sim_tReturn (cfg : Cfg) (r : RState) (s : State) (v : Ret) (h : Sim r s)
    (hen : (step true cfg s (.tReturn v)).2 ≠ .disabled) :
    Sim (exec (rstep true cfg) r (seqBlock (.tReturn v))) (step true cfg s (.tReturn v)).1 := by
  obtain ⟨h1, h2, h3, h4, h5, h6, h7, h8, h9, hc, hm, hp⟩ := h
  cases hph : s.phase <;> simp only [hph] at hp
  case active =>
    simp only [seqBlock, exec_cons, exec_nil, step, rstep]
    obtain ⟨p1, p2, p3, p4, p5⟩ := hp
    cases hmd : s.mode
    · cases hcr : s.cancelReq <;>
        simp [workerStep, taskStep, taskReturn, finish, stopRun, Sim, St.isFinal, *]
    · exact absurd hmd hm
    · cases hcr : s.cancelReq <;>
        simp [workerStep, taskStep, taskReturn, finish, stopRun, Sim, St.isFinal, *]
  all_goals exact absurd (by simp [step, hph]) hen

theorem sim_tProgress (cfg : Cfg) (r : RState) (s : State) (p : Nat) (h : Sim r s)
    (hen : (step true cfg s (.tProgress p)).2 ≠ .disabled) :
    Sim (exec (rstep true cfg) r (seqBlock (.tProgress p))) (step true cfg s (.tProgress p)).1 := by
  obtain ⟨h1, h2, h3, h4, h5, h6, h7, h8, h9, hc, hm, hp⟩ := h
  cases hph : s.phase <;> simp only [hph] at hp
  case active =>
    simp only [seqBlock, exec_cons, exec_nil, step, rstep]
    obtain ⟨p1, p2, p3, p4, p5⟩ := hp
    have p6 : r.st ≠ .waiting := by rw [h1, p5]; simp
    cases hcr : s.cancelReq
    · cases hcb : s.userCb <;>
        simp [workerStep, taskStep, taskProgress, Sim, *]
    · simp [workerStep, taskStep, taskProgress, Sim, *]
  all_goals exact absurd (by simp [step, hph]) hen

theorem sim_statusQuery (cfg : Cfg) (r : RState) (s : State) (h : Sim r s) :
    Sim (exec (rstep true cfg) r (seqBlock .statusQuery)) (step true cfg s .statusQuery).1 := by
  obtain ⟨h1, h2, h3, h4, h5, h6, h7, h8, h9, hc, hm, hp⟩ := h
  simp only [seqBlock, exec_cons, exec_nil, step, enabled_of_async hm, if_true]
  cases hph : s.phase <;> simp only [hph] at hp
  · obtain ⟨p1, p2, p3⟩ := hp
    simp [rstep, callerStep, propStart, propDone, notePending, actStatus, statusProp, Sim, *]
  · obtain ⟨p1, p2, p3, p4, p5⟩ := hp
    simp [rstep, callerStep, propStart, propDone, notePending, actStatus, statusProp, Sim, *]
  · obtain ⟨p1, p2, p3, p4, p5⟩ := hp
    simp [rstep, callerStep, propStart, propDone, notePending, actStatus, statusProp, Sim, *]
  · obtain ⟨p1, p2, ⟨o, p3⟩, p4, p5⟩ := hp
    have p6 : s.status ≠ .running := by intro hh; rw [hh] at p5; simp [St.isFinal] at p5
    simp [rstep, callerStep, propStart, propDone, notePending, actStatus, statusProp, Sim, *]

theorem sim_getResults (cfg : Cfg) (r : RState) (s : State) (h : Sim r s) :
    Sim (exec (rstep true cfg) r (seqBlock .getResults)) (step true cfg s .getResults).1 := by
  obtain ⟨h1, h2, h3, h4, h5, h6, h7, h8, h9, hc, hm, hp⟩ := h
  simp only [seqBlock, exec_cons, exec_nil, step, enabled_of_async hm, if_true]
  cases hph : s.phase <;> simp only [hph] at hp
  · obtain ⟨p1, p2, p3⟩ := hp
    cases hcb : s.cbOpen <;>
      simp [rstep, callerStep, propStart, propDone, notePending, actGet, getRes, statusProp, Sim, St.isFinal, *]
  · obtain ⟨p1, p2, p3, p4, p5⟩ := hp
    cases hcb : s.cbOpen <;>
      simp [rstep, callerStep, propStart, propDone, notePending, actGet, getRes, statusProp, Sim, St.isFinal, *]
  · obtain ⟨p1, p2, p3, p4, p5⟩ := hp
    cases hcb : s.cbOpen <;>
      simp [rstep, callerStep, propStart, propDone, notePending, actGet, getRes, statusProp, Sim, St.isFinal, *]
  · obtain ⟨p1, p2, ⟨o, p3⟩, p4, p5⟩ := hp
    have p6 : s.status ≠ .running := by intro hh; rw [hh] at p5; simp [St.isFinal] at p5
    cases hmp : s.mapPending
    · simp [rstep, callerStep, propStart, propDone, notePending, actGet, getRes, statusProp, convert, Sim, *]
    · cases hcv : convertRet s.mapping s.results
      · cases hf : s.status.failed <;> cases hcb : s.cbOpen <;>
          simp [rstep, callerStep, propStart, propDone, notePending, actGet, getRes, statusProp, convert, Sim, *]
      · simp [rstep, callerStep, propStart, propDone, notePending, actGet, getRes, statusProp, convert, Sim, *]

theorem sim_execAsync (cfg : Cfg) (r : RState) (s : State) (c : Call) (h : Sim r s) :
    Sim (exec (rstep true cfg) r (seqBlock (.execAsync c))) (step true cfg s (.execAsync c)).1 := by
  obtain ⟨h1, h2, h3, h4, h5, h6, h7, h8, h9, hc, hm, hp⟩ := h
  simp only [seqBlock, exec_cons, exec_nil, step, enabled_of_async hm, if_true]
  by_cases hw : s.status = .waiting
  · cases hph : s.phase <;> simp only [hph] at hp
    · obtain ⟨p1, p2, p3⟩ := hp
      rcases hhp : handleParams cfg.paramNames s.command s.mapping c with ⟨cmd, map, _ | e⟩
      · simp [rstep, rexec, execEntry, notePending, Sim, *]
      · cases hcb : s.cbOpen <;> simp [rstep, rexec, execEntry, notePending, Sim, *]
    · rw [hp.2.2.2.2] at hw; cases hw
    · rw [hp.2.2.2.2] at hw; cases hw
    · rw [hw] at hp; simp [St.isFinal] at hp
  · have hw' : r.st ≠ .waiting := by rw [h1]; exact hw
    cases hph : s.phase <;> simp only [hph] at hp
    · exact absurd hp.2.2 hw
    all_goals cases hcb : s.cbOpen <;> simp [rstep, rexec, execEntry, notePending, Sim, *]
    all_goals exact hp

/-- one event of the asynchronous alphabet that the call-level machine does not refuse as impossible keeps `Sim` -/
theorem sim_step (cfg : Cfg) (r : RState) (s : State) (e : Ev) (h : Sim r s) (ha : asyncEv e = true)
    (hen : (step true cfg s e).2 ≠ .disabled) :
    Sim (exec (rstep true cfg) r (seqBlock e)) (step true cfg s e).1 := by
  cases e with
  | execSync c => simp [asyncEv] at ha
  | execAsync c => exact sim_execAsync cfg r s c h
  | statusQuery => exact sim_statusQuery cfg r s h
  | cancel => exact sim_cancel cfg r s h
  | getResults => exact sim_getResults cfg r s h
  | tStart => exact sim_tStart cfg r s h
  | tProgress p => exact sim_tProgress cfg r s p h hen
  | tReturn v => exact sim_tReturn cfg r s v h hen
  | tRaise c t => exact sim_tRaise cfg r s c t h hen
  | tPropagate => simp [asyncEv] at ha

theorem sim_exec (cfg : Cfg) (w : List Ev) (r : RState) (s : State) (h : Sim r s)
    (ha : ∀ e ∈ w, asyncEv e = true) (hen : Out.disabled ∉ (run (step true cfg) s w).2) :
    Sim (exec (rstep true cfg) r (w.flatMap seqBlock)) (exec (step true cfg) s w) := by
  induction w generalizing r s with
  | nil => exact h
  | cons e w ih =>
    simp only [run, List.mem_cons, not_or] at hen
    rw [List.flatMap_cons, exec_append, exec_cons]
    refine ih _ _ (sim_step cfg r s e h (ha e (by simp)) (fun hh => hen.1 hh.symm)) ?_ hen.2
    intro e' he'
    exact ha e' (by simp [he'])

/-- the answer of a block of accesses: what its last answering step answered -/
def lastAnswer (l : List ROut) : Option Out :=
  l.foldl (fun acc o => match o with | .step _ (some a) => some a | _ => acc) none

/-- the answers of the block of one event, from state `r` -/
def blockAnswer (cfg : Cfg) (r : RState) (e : Ev) : Option Out :=
  lastAnswer (run (rstep true cfg) r (seqBlock e)).2

theorem answer_statusQuery (cfg : Cfg) (r : RState) (s : State) (h : Sim r s) :
    blockAnswer cfg r .statusQuery = some (step true cfg s .statusQuery).2 := by
  obtain ⟨h1, h2, h3, h4, h5, h6, h7, h8, h9, hc, hm, hp⟩ := h
  simp only [blockAnswer, seqBlock, run, step, enabled_of_async hm, if_true]
  cases hph : s.phase <;> simp only [hph] at hp
  · obtain ⟨p1, p2, p3⟩ := hp
    simp [lastAnswer, rstep, callerStep, propStart, propDone, notePending, actStatus, statusProp, *]
  · obtain ⟨p1, p2, p3, p4, p5⟩ := hp
    simp [lastAnswer, rstep, callerStep, propStart, propDone, notePending, actStatus, statusProp, *]
  · obtain ⟨p1, p2, p3, p4, p5⟩ := hp
    simp [lastAnswer, rstep, callerStep, propStart, propDone, notePending, actStatus, statusProp, *]
  · obtain ⟨p1, p2, ⟨o, p3⟩, p4, p5⟩ := hp
    have p6 : s.status ≠ .running := by intro hh; rw [hh] at p5; simp [St.isFinal] at p5
    simp [lastAnswer, rstep, callerStep, propStart, propDone, notePending, actStatus, statusProp, *]

theorem answer_cancel (cfg : Cfg) (r : RState) (s : State) (h : Sim r s) :
    blockAnswer cfg r .cancel = some (step true cfg s .cancel).2 := by
  obtain ⟨h1, h2, h3, h4, h5, h6, h7, h8, h9, hc, hm, hp⟩ := h
  simp [blockAnswer, seqBlock, run, step, enabled_of_async hm, lastAnswer, rstep, callerStep, hc]

theorem answer_getResults (cfg : Cfg) (r : RState) (s : State) (h : Sim r s) :
    blockAnswer cfg r .getResults = some (step true cfg s .getResults).2 := by
  obtain ⟨h1, h2, h3, h4, h5, h6, h7, h8, h9, hc, hm, hp⟩ := h
  simp only [blockAnswer, seqBlock, run, step, enabled_of_async hm, if_true]
  cases hph : s.phase <;> simp only [hph] at hp
  · obtain ⟨p1, p2, p3⟩ := hp
    cases hcb : s.cbOpen <;>
      simp [lastAnswer, rstep, callerStep, propStart, propDone, notePending, actGet, getRes, statusProp, St.isFinal, *]
  · obtain ⟨p1, p2, p3, p4, p5⟩ := hp
    cases hcb : s.cbOpen <;>
      simp [lastAnswer, rstep, callerStep, propStart, propDone, notePending, actGet, getRes, statusProp, St.isFinal, *]
  · obtain ⟨p1, p2, p3, p4, p5⟩ := hp
    cases hcb : s.cbOpen <;>
      simp [lastAnswer, rstep, callerStep, propStart, propDone, notePending, actGet, getRes, statusProp, St.isFinal, *]
  · obtain ⟨p1, p2, ⟨o, p3⟩, p4, p5⟩ := hp
    have p6 : s.status ≠ .running := by intro hh; rw [hh] at p5; simp [St.isFinal] at p5
    cases hmp : s.mapPending
    · simp [lastAnswer, rstep, callerStep, propStart, propDone, notePending, actGet, getRes, statusProp, convert, *]
    · cases hcv : convertRet s.mapping s.results
      · cases hf : s.status.failed <;> cases hcb : s.cbOpen <;>
          simp [lastAnswer, rstep, callerStep, propStart, propDone, notePending, actGet, getRes, statusProp, convert, *]
      · simp [lastAnswer, rstep, callerStep, propStart, propDone, notePending, actGet, getRes, statusProp, convert, *]

theorem answer_execAsync (cfg : Cfg) (r : RState) (s : State) (c : Call) (h : Sim r s) :
    blockAnswer cfg r (.execAsync c) = some (step true cfg s (.execAsync c)).2 := by
  obtain ⟨h1, h2, h3, h4, h5, h6, h7, h8, h9, hc, hm, hp⟩ := h
  simp only [blockAnswer, seqBlock, run, step, enabled_of_async hm, if_true]
  by_cases hw : s.status = .waiting
  · rcases hhp : handleParams cfg.paramNames s.command s.mapping c with ⟨cmd, map, _ | e⟩
    · have hw' : r.st = .waiting := by rw [h1]; exact hw
      simp [lastAnswer, rstep, rexec, execEntry, notePending, *]
    · have hw' : r.st = .waiting := by rw [h1]; exact hw
      cases hcb : s.cbOpen <;> simp [lastAnswer, rstep, rexec, execEntry, notePending, *]
  · have hw' : r.st ≠ .waiting := by rw [h1]; exact hw
    cases hcb : s.cbOpen <;> simp [lastAnswer, rstep, rexec, execEntry, notePending, *]

theorem answer_tStart (cfg : Cfg) (r : RState) (s : State) (h : Sim r s)
    (hen : (step true cfg s .tStart).2 ≠ .disabled) :
    blockAnswer cfg r .tStart = some (step true cfg s .tStart).2 := by
  obtain ⟨h1, h2, h3, h4, h5, h6, h7, h8, h9, hc, hm, hp⟩ := h
  cases hph : s.phase <;> simp only [hph] at hp
  case ready =>
    obtain ⟨p1, p2, p3, p4, p5⟩ := hp
    simp [blockAnswer, seqBlock, run, step, lastAnswer, rstep, workerStep, taskStart, *]
  all_goals exact absurd (by simp [step, hph]) hen

theorem answer_tRaise (cfg : Cfg) (r : RState) (s : State) (c t : Nat) (h : Sim r s)
    (hen : (step true cfg s (.tRaise c t)).2 ≠ .disabled) :
    blockAnswer cfg r (.tRaise c t) = some (step true cfg s (.tRaise c t)).2 := by
  obtain ⟨h1, h2, h3, h4, h5, h6, h7, h8, h9, hc, hm, hp⟩ := h
  cases hph : s.phase <;> simp only [hph] at hp
  case active =>
    obtain ⟨p1, p2, p3, p4, p5⟩ := hp
    cases hmd : s.mode
    · simp [blockAnswer, seqBlock, run, step, lastAnswer, rstep, workerStep, taskStep, taskRaise, finish, stopRun, *]
    · exact absurd hmd hm
    · simp [blockAnswer, seqBlock, run, step, lastAnswer, rstep, workerStep, taskStep, taskRaise, finish, stopRun, *]
  all_goals exact absurd (by simp [step, hph]) hen

theorem answer_tReturn (cfg : Cfg) (r : RState) (s : State) (v : Ret) (h : Sim r s)
    (hen : (step true cfg s (.tReturn v)).2 ≠ .disabled) :
    blockAnswer cfg r (.tReturn v) = some (step true cfg s (.tReturn v)).2 := by
  obtain ⟨h1, h2, h3, h4, h5, h6, h7, h8, h9, hc, hm, hp⟩ := h
  cases hph : s.phase <;> simp only [hph] at hp
  case active =>
    obtain ⟨p1, p2, p3, p4, p5⟩ := hp
    cases hmd : s.mode
    · cases hcr : s.cancelReq <;>
        simp [blockAnswer, seqBlock, run, step, lastAnswer, rstep, workerStep, taskStep, taskReturn, finish, stopRun, *]
    · exact absurd hmd hm
    · cases hcr : s.cancelReq <;>
        simp [blockAnswer, seqBlock, run, step, lastAnswer, rstep, workerStep, taskStep, taskReturn, finish, stopRun, *]
  all_goals exact absurd (by simp [step, hph]) hen

/-- with a user callback the call-level answer also names the callback invoked (the access-level model has none) -/
theorem answer_tProgress (cfg : Cfg) (r : RState) (s : State) (p : Nat) (h : Sim r s)
    (hen : (step true cfg s (.tProgress p)).2 ≠ .disabled) (hcb : s.userCb = none) :
    blockAnswer cfg r (.tProgress p) = some (step true cfg s (.tProgress p)).2 := by
  obtain ⟨h1, h2, h3, h4, h5, h6, h7, h8, h9, hc, hm, hp⟩ := h
  cases hph : s.phase <;> simp only [hph] at hp
  case active =>
    obtain ⟨p1, p2, p3, p4, p5⟩ := hp
    have p6 : r.st ≠ .waiting := by rw [h1, p5]; simp
    cases hcr : s.cancelReq <;>
      simp [blockAnswer, seqBlock, run, step, lastAnswer, rstep, workerStep, taskStep, taskProgress, *]
  all_goals exact absurd (by simp [step, hph]) hen

/-- the block of an event answers what the call-level machine answers -/
theorem answer_step (cfg : Cfg) (r : RState) (s : State) (e : Ev) (h : Sim r s) (ha : asyncEv e = true)
    (hen : (step true cfg s e).2 ≠ .disabled) (hcb : (∃ p, e = .tProgress p) → s.userCb = none) :
    blockAnswer cfg r e = some (step true cfg s e).2 := by
  cases e with
  | execSync c => simp [asyncEv] at ha
  | execAsync c => exact answer_execAsync cfg r s c h
  | statusQuery => exact answer_statusQuery cfg r s h
  | cancel => exact answer_cancel cfg r s h
  | getResults => exact answer_getResults cfg r s h
  | tStart => exact answer_tStart cfg r s h hen
  | tProgress p => exact answer_tProgress cfg r s p h hen (hcb ⟨p, rfl⟩)
  | tReturn v => exact answer_tReturn cfg r s v h hen
  | tRaise c t => exact answer_tRaise cfg r s c t h hen
  | tPropagate => simp [asyncEv] at ha

end PM.C18
