/-
  C04 — the detector path of `Simulator.probs_svd` (a detector that is not PNR switches the herald mask off):
  helper lemmas for the theorems `…_detectors` of `Props/C04.lean`.

  The code applies the photon filter twice — to the *inputs* (`_preprocess_svd`) and to the *detected* patterns
  (`simulate_detectors`) — and renormalises in between; the specification conditions the distribution of
  detected patterns once.  The two agree because no detector reports more photons than it received
  (`KernsOK.noGain`): an input below the threshold cannot produce a detected pattern above it.
-/
import PercevalModel.Lemmas.C04
import Mathlib.Tactic.IntervalCases

namespace PM.C04
open PM.Fock PM.Dist PM.SimSpec

/-- what is assumed of the detection kernels, on the photon numbers `0..N` that can reach a detector: every
row is a probability distribution (non-negative numbers of total 1) and no row reports more photons than
arrived.  (A `Det.table` has finitely many rows, hence the bound `N`.) -/
structure KernsOK (N : ℕ) (Ks : List Kern) : Prop where
  normed : ∀ K ∈ Ks, ∀ k ≤ N, ((K k).map (·.2)).sum = 1
  nonneg : ∀ K ∈ Ks, ∀ k ≤ N, ∀ jq ∈ K k, 0 ≤ jq.2
  noGain : ∀ K ∈ Ks, ∀ k ≤ N, ∀ jq ∈ K k, jq.1 ≤ k

theorem KernsOK.tail {N : ℕ} {K : Kern} {Ks : List Kern} (h : KernsOK N (K :: Ks)) : KernsOK N Ks :=
  ⟨fun K' hK' => h.normed K' (List.mem_cons_of_mem _ hK'),
   fun K' hK' => h.nonneg K' (List.mem_cons_of_mem _ hK'),
   fun K' hK' => h.noGain K' (List.mem_cons_of_mem _ hK')⟩

/-- the built-in detectors (none, PNR, threshold) satisfy it for every bound -/
def Det.builtin : Det → Bool
  | .table _ => false
  | _ => true

theorem kernsOK_builtin (N : ℕ) (ds : List Det) (h : ∀ d ∈ ds, d.builtin = true) :
    KernsOK N (ds.map Det.kern) := by
  refine ⟨?_, ?_, ?_⟩ <;>
  · intro K hK k _
    obtain ⟨d, hd, rfl⟩ := List.mem_map.1 hK
    have := h d hd
    cases d <;> simp_all [Det.kern, Det.builtin]

/-- a kernel given by a table whose rows `0..N` are probability distributions without photon gain -/
theorem kernsOK_cons {N : ℕ} {K : Kern} {Ks : List Kern} (hK : KernsOK N [K]) (h : KernsOK N Ks) :
    KernsOK N (K :: Ks) := by
  refine ⟨?_, ?_, ?_⟩ <;> intro K' hK' <;> rcases List.mem_cons.1 hK' with rfl | h'
  · exact hK.normed _ (List.mem_singleton_self _)
  · exact h.normed _ h'
  · exact hK.nonneg _ (List.mem_singleton_self _)
  · exact h.nonneg _ h'
  · exact hK.noGain _ (List.mem_singleton_self _)
  · exact h.noGain _ h'

/-! ### one state through the detectors -/

theorem mem_detectState_cons {K : Kern} {Ks : List Kern} {a : ℕ} {t : Fock} {x : Fock × ℚ}
    (h : x ∈ detectState (K :: Ks) (a :: t)) :
    ∃ jq ∈ K a, ∃ sp ∈ detectState Ks t, x = (jq.1 :: sp.1, jq.2 * sp.2) := by
  simp only [detectState, List.mem_flatMap, List.mem_map] at h
  obtain ⟨jq, hjq, sp, hsp, rfl⟩ := h
  exact ⟨jq, hjq, sp, hsp, rfl⟩

theorem mass_detectState_le {N : ℕ} : ∀ (Ks : List Kern) (t : Fock), KernsOK N Ks → t.sum ≤ N →
    mass (detectState Ks t) = 1
  | [], _, _, _ => by simp [detectState]
  | _ :: _, [], _, _ => by simp [detectState]
  | K :: Ks, a :: t, hK, ht => by
    simp only [List.sum_cons] at ht
    rw [detectState, mass_flatMap_scaled, hK.normed K (List.mem_cons_self ..) a (by omega),
      mass_detectState_le Ks t hK.tail (by omega)]
    ring

theorem NN_detectState {N : ℕ} : ∀ (Ks : List Kern) (t : Fock), KernsOK N Ks → t.sum ≤ N →
    NN (detectState Ks t)
  | [], _, _, _ => by intro x hx; simp [detectState] at hx; simp [hx]
  | _ :: _, [], _, _ => by intro x hx; simp [detectState] at hx; simp [hx]
  | K :: Ks, a :: t, hK, ht => by
    simp only [List.sum_cons] at ht
    intro x hx
    obtain ⟨jq, hjq, sp, hsp, rfl⟩ := mem_detectState_cons hx
    exact mul_nonneg (hK.nonneg K (List.mem_cons_self ..) a (by omega) jq hjq)
      (NN_detectState Ks t hK.tail (by omega) sp hsp)

/-- no detected pattern holds more photons than the state that reached the detectors -/
theorem sum_detectState_le {N : ℕ} : ∀ (Ks : List Kern) (t : Fock), KernsOK N Ks → t.sum ≤ N →
    ∀ x ∈ detectState Ks t, x.1.sum ≤ t.sum
  | [], _, _, _ => by intro x hx; simp [detectState] at hx; simp [hx]
  | _ :: _, [], _, _ => by intro x hx; simp [detectState] at hx; simp [hx]
  | K :: Ks, a :: t, hK, ht => by
    simp only [List.sum_cons] at ht
    intro x hx
    obtain ⟨jq, hjq, sp, hsp, rfl⟩ := mem_detectState_cons hx
    have h1 := hK.noGain K (List.mem_cons_self ..) a (by omega) jq hjq
    have h2 := sum_detectState_le Ks t hK.tail (by omega) sp hsp
    simp only [List.sum_cons]
    omega

/-! ### a distribution through the detectors -/

theorem detect_nil (Ks : List Kern) : detect Ks [] = [] := rfl

theorem detect_cons (Ks : List Kern) (a : Fock × ℚ) (d : D) :
    detect Ks (a :: d) = scale a.2 (detectState Ks a.1) ++ detect Ks d := by
  simp [detect]

theorem scale_append (k : ℚ) (a b : D) : scale k (a ++ b) = scale k a ++ scale k b := by
  simp [scale]

/-- the detector stage is linear -/
theorem detect_scale (Ks : List Kern) (k : ℚ) (d : D) : detect Ks (scale k d) = scale k (detect Ks d) := by
  induction d with
  | nil => rfl
  | cons a d ih =>
    have e : scale k (a :: d) = (a.1, k * a.2) :: scale k d := rfl
    rw [e, detect_cons, detect_cons, ih, scale_append, scale_scale]

/-- bound on the photon numbers of the states of a distribution -/
def SumLe (N : ℕ) (d : D) : Prop := ∀ p ∈ d, p.1.sum ≤ N

theorem SumLe.tail {N : ℕ} {a : Fock × ℚ} {d : D} (h : SumLe N (a :: d)) : SumLe N d :=
  fun p hp => h p (List.mem_cons_of_mem _ hp)

theorem SumLe.restrict {N : ℕ} {d : D} (h : SumLe N d) (f : Fock → Bool) : SumLe N (restrict f d) :=
  fun p hp => h p (mem_restrict hp)

theorem mass_detect_le {N : ℕ} (Ks : List Kern) (hK : KernsOK N Ks) (d : D) (hd : SumLe N d) :
    mass (detect Ks d) = mass d := by
  induction d with
  | nil => rfl
  | cons a d ih =>
    rw [detect_cons, mass_append, ih hd.tail, mass_scale,
      mass_detectState_le Ks a.1 hK (hd a (List.mem_cons_self ..)), mass_cons]
    ring

theorem NN_detect {N : ℕ} (Ks : List Kern) (hK : KernsOK N Ks) (d : D) (hd : SumLe N d) (hn : NN d) :
    NN (detect Ks d) := by
  induction d with
  | nil => intro x hx; cases hx
  | cons a d ih =>
    rw [detect_cons]
    exact ((NN_detectState Ks a.1 hK (hd a (List.mem_cons_self ..))).scale (hn a (List.mem_cons_self ..))).append
      (ih hd.tail (fun p hp => hn p (List.mem_cons_of_mem _ hp)))

/-- **the input-side filter is implied by the detected-side filter**: states below the threshold only produce
detected patterns below it, so dropping them before the detectors changes nothing above the threshold — as lists -/
theorem restrict_detect_prune {N : ℕ} (Ks : List Kern) (hK : KernsOK N Ks) (n : ℕ) (d : D) (hd : SumLe N d) :
    restrict (fun t => decide (n ≤ t.sum)) (detect Ks d) =
    restrict (fun t => decide (n ≤ t.sum)) (detect Ks (restrict (fun t => decide (n ≤ t.sum)) d)) := by
  induction d with
  | nil => rfl
  | cons a d ih =>
    have ih' := ih hd.tail
    by_cases h : n ≤ a.1.sum
    · have e : restrict (fun t => decide (n ≤ t.sum)) (a :: d) =
          a :: restrict (fun t => decide (n ≤ t.sum)) d := by simp [restrict, h]
      rw [e, detect_cons, detect_cons, restrict_append, restrict_append, ih']
    · have e : restrict (fun t => decide (n ≤ t.sum)) (a :: d) = restrict (fun t => decide (n ≤ t.sum)) d := by
        simp [restrict, h]
      rw [e, detect_cons, restrict_append, ih']
      have hnil : restrict (fun t => decide (n ≤ t.sum)) (scale a.2 (detectState Ks a.1)) = [] := by
        apply restrict_of_none
        intro p hp
        obtain ⟨q, hq, rfl⟩ := mem_scale hp
        have := sum_detectState_le Ks a.1 hK (hd a (List.mem_cons_self ..)) q hq
        simp only [decide_eq_false_iff_not]
        omega
      rw [hnil, List.nil_append]

/-! ### the code's path without the mask -/

theorem memberDist_maskoff (eng : Fock → D) (c : Cfg) (mb : Member) :
    memberDist eng { c with pnr := false } mb = fullMember eng c.m mb := by
  have h : ∀ s, groupDist eng { c with pnr := false } mb.n s = eng s := by
    intro s
    simp [groupDist, canUseMask]
  simp only [memberDist, fullMember]
  congr 1
  exact List.map_congr_left fun s _ => h s

/-- with the mask off, what the code accumulates is the unconditioned distribution of the inputs that pass
the photon filter -/
theorem codeRes_maskoff (eng : Fock → D) (c : Cfg) (members : List Member)
    (hshape : ∀ mb ∈ members, ∀ s ∈ mb.groups, ∀ q ∈ eng s, q.1.length = c.m ∧ q.1.sum = s.sum) :
    codeRes eng { c with pnr := false } members = restrict (physOk (cond c)) (full eng c.m members) := by
  rw [restrict_phys_full eng c members hshape]
  unfold codeRes
  have : kept { c with pnr := false } members = kept c members := rfl
  rw [this]
  apply mix_congr
  intro mb _
  rw [memberDist_maskoff]

theorem full_sumLe (eng : Fock → D) (m N : ℕ) : ∀ (members : List Member),
    (∀ mb ∈ members, ∀ s ∈ mb.groups, ∀ q ∈ eng s, q.1.length = m ∧ q.1.sum = s.sum) →
    (∀ mb ∈ members, mb.n ≤ N) → SumLe N (full eng m members)
  | [], _, _ => by intro p hp; cases hp
  | mb :: r, h, hN => by
    intro p hp
    have e : full eng m (mb :: r) = scale mb.w (fullMember eng m mb) ++ full eng m r := rfl
    rw [e, List.mem_append] at hp
    rcases hp with hp | hp
    · obtain ⟨q, hq, rfl⟩ := mem_scale hp
      rw [(fullMember_keys eng m mb (h mb List.mem_cons_self) q hq).2]
      exact hN mb List.mem_cons_self
    · exact full_sumLe eng m N r (fun mb' hmb' => h mb' (List.mem_cons_of_mem _ hmb'))
        (fun mb' hmb' => hN mb' (List.mem_cons_of_mem _ hmb')) p hp

theorem NN_full (eng : Fock → D) (m : ℕ) (members : List Member)
    (hn : ∀ mb ∈ members, ∀ s ∈ mb.groups, NN (eng s)) (hw : ∀ mb ∈ members, 0 ≤ mb.w) :
    NN (full eng m members) := by
  apply NN.mix
  intro p hp
  obtain ⟨mb, hmb, rfl⟩ := List.mem_map.1 hp
  refine ⟨hw mb hmb, ?_⟩
  apply NN.convAll
  · intro q hq
    simp only [List.mem_singleton] at hq
    simp [hq]
  · intro d hd
    obtain ⟨s, hs, rfl⟩ := List.mem_map.1 hd
    exact hn mb hmb s hs

/-- what `simulate_detectors` receives on the mask-free path -/
def detRes (eng : Fock → D) (c : Cfg) (ds : List Det) (members : List Member) : D :=
  detect (ds.map Det.kern) (normalize (codeRes eng { c with pnr := false } members))

/-- `probsSvdDet` on a detector list that is not all-PNR, in closed form -/
theorem probsSvdDet_nonpnr (eng : Fock → D) (c : Cfg) (ds : List Det) (members : List Member)
    (hp : allPnr ds = false) :
    probsSvdDet eng c ds members =
      if mass (codeRes eng { c with pnr := false } members) = 0 then ⟨[], physInputs c members, 0⟩
      else
        ⟨(postSelect c (normalize (restrict (physOk (cond c)) (detRes eng c ds members)))).1,
         physInputs c members * (1 - mass (restrict (fun t => !physOk (cond c) t) (detRes eng c ds members))),
         (if 0 < mass (codeRes eng { c with pnr := false } members) ∧ 0 < physInputs c members
            then mass (codeRes eng { c with pnr := false } members) / physInputs c members
            else mass (codeRes eng { c with pnr := false } members)) *
          (postSelect c (normalize (restrict (physOk (cond c)) (detRes eng c ds members)))).2⟩ := by
  unfold probsSvdDet
  simp only [hp, Bool.false_eq_true, ↓reduceIte]
  rfl

/-! ### `post_select_distribution` on a normalised list -/

theorem postSelect_normalize_fst (c : Cfg) (Y : D) (hY : mass Y ≠ 0)
    (hR : mass (restrict (logicOk (cond c)) Y) ≠ 0) :
    (postSelect c (normalize Y)).1 =
      normalize (mapKeys (reported (cond c)) (restrict (logicOk (cond c)) Y)) := by
  have hn : normalize Y = scale (mass Y)⁻¹ Y := by simp [Dist.normalize, hY]
  unfold postSelect
  split
  · next hnc =>
    have hnc' : hasCond c.ps = false ∧ c.heralds.isEmpty = true := by simpa using hnc
    have hps := hasCond_false hnc'.1
    have hh : c.heralds = [] := by simpa using hnc'.2
    have e1 : restrict (logicOk (cond c)) Y = Y := by
      apply restrict_of_all
      intro p _
      simp [logicOk, cond, heraldsOk, hps, hh, PS.eval]
    have e2 : mapKeys (reported (cond c)) Y = Y := by
      have : ∀ t, reported (cond c) t = t := by
        intro t
        simp [reported, cond, hh, removeModes_nil]
      simp [mapKeys, this]
    simp only
    rw [e1, e2, normalize_of_mass_one _ (mass_normalize _ hY)]
  · simp only
    rw [hn, restrict_scale, mapKeys_scale, normalize_scale]
    · exact inv_ne_zero hY
    · rwa [mass_mapKeys]

theorem postSelect_normalize_snd (c : Cfg) (Y : D) (hY : mass Y ≠ 0) :
    (postSelect c (normalize Y)).2 = mass (restrict (logicOk (cond c)) Y) / mass Y := by
  have hn : normalize Y = scale (mass Y)⁻¹ Y := by simp [Dist.normalize, hY]
  unfold postSelect
  split
  · next hnc =>
    have hnc' : hasCond c.ps = false ∧ c.heralds.isEmpty = true := by simpa using hnc
    have hps := hasCond_false hnc'.1
    have hh : c.heralds = [] := by simpa using hnc'.2
    have e1 : restrict (logicOk (cond c)) Y = Y := by
      apply restrict_of_all
      intro p _
      simp [logicOk, cond, heraldsOk, hps, hh, PS.eval]
    rw [e1]
    field_simp
  · simp only
    have h1 : mass (normalize Y) = 1 := mass_normalize _ hY
    have h2 := mass_restrict_add (logicOk (cond c)) (normalize Y)
    have h3 : mass (restrict (logicOk (cond c)) (normalize Y)) =
        (mass Y)⁻¹ * mass (restrict (logicOk (cond c)) Y) := by
      rw [hn, restrict_scale, mass_scale]
    have h4 : 1 - mass (restrict (fun t => !logicOk (cond c) t) (normalize Y)) =
        (mass Y)⁻¹ * mass (restrict (logicOk (cond c)) Y) := by linarith
    rw [h4]
    field_simp

/-- on a non-negative list of total 0 the logical coefficient of `post_select_distribution` is 1 -/
theorem postSelect_snd_of_mass_zero (c : Cfg) (Z : D) (hn : NN Z) (h0 : mass Z = 0) :
    (postSelect c (normalize Z)).2 = 1 := by
  have e : normalize Z = Z := by simp [Dist.normalize, h0]
  unfold postSelect
  split
  · rfl
  · simp only
    rw [e]
    have h1 := mass_restrict_le hn (fun t => !logicOk (cond c) t)
    have h2 := (hn.restrict (fun t => !logicOk (cond c) t)).mass_nonneg
    have : mass (restrict (fun t => !logicOk (cond c) t) Z) = 0 := by linarith
    rw [this]
    ring

/-! ### the pieces of the mask-free path in the specification's terms -/

/-- the facts about one request on the mask-free detector path, gathered once -/
structure DetFacts (eng : Fock → D) (c : Cfg) (ds : List Det) (members : List Member) : Prop where
  /-- what the code accumulated has the mass the input-side filter let through -/
  massX : mass (codeRes eng { c with pnr := false } members) = physInputs c members
  physNonneg : 0 ≤ physInputs c members
  /-- the detected patterns above the threshold, as the code computes them before normalising -/
  pass : mass (codeRes eng { c with pnr := false } members) ≠ 0 →
    restrict (physOk (cond c)) (detRes eng c ds members) =
      scale (physInputs c members)⁻¹ (restrict (physOk (cond c)) (detectedFull eng c.m ds members))
  massDet : mass (codeRes eng { c with pnr := false } members) ≠ 0 → mass (detRes eng c ds members) = 1
  nnY : NN (restrict (physOk (cond c)) (detectedFull eng c.m ds members))
  /-- nothing passes the detected-side filter when nothing passed the input-side one -/
  zero : physInputs c members = 0 → mass (restrict (physOk (cond c)) (detectedFull eng c.m ds members)) = 0

theorem detFacts (eng : Fock → D) (c : Cfg) (ds : List Det) (members : List Member) (N : ℕ)
    (hp : allPnr ds = false) (he : EngOK eng c.m members) (hmix : MixOK members)
    (hN : ∀ mb ∈ members, mb.n ≤ N) (hK : KernsOK N (ds.map Det.kern)) :
    DetFacts eng c ds members := by
  have hne : ds.isEmpty = false := by
    cases ds with
    | nil => simp [allPnr] at hp
    | cons _ _ => rfl
  have hDF : detectedFull eng c.m ds members = detect (ds.map Det.kern) (full eng c.m members) := by
    simp [detectedFull, hne]
  have hX := codeRes_maskoff eng c members he.shape
  have hPK := physInputs_eq c members hmix.wsum
  have hmX : mass (codeRes eng { c with pnr := false } members) = physInputs c members := by
    rw [hX, hPK, restrict_phys_full eng c members he.shape, mass_kept_full eng c members he.massOne]
  have hsl := full_sumLe eng c.m N members he.shape hN
  have hnnF := NN_full eng c.m members he.nonneg hmix.wpos
  have hprune : restrict (physOk (cond c)) (detectedFull eng c.m ds members) =
      restrict (physOk (cond c)) (detect (ds.map Det.kern) (codeRes eng { c with pnr := false } members)) := by
    rw [hDF, hX]
    exact restrict_detect_prune (ds.map Det.kern) hK (minFilter c) _ hsl
  have hnnY : NN (restrict (physOk (cond c)) (detectedFull eng c.m ds members)) := by
    rw [hDF]
    exact (NN_detect _ hK _ hsl hnnF).restrict _
  refine ⟨hmX, ?_, ?_, ?_, hnnY, ?_⟩
  · rw [hPK]
    apply List.sum_nonneg
    intro x hx
    obtain ⟨mb, hmb, rfl⟩ := List.mem_map.1 hx
    exact hmix.wpos mb (mem_kept hmb)
  · intro h0
    have hP : physInputs c members ≠ 0 := by rwa [hmX] at h0
    have hn : normalize (codeRes eng { c with pnr := false } members) =
        scale (physInputs c members)⁻¹ (codeRes eng { c with pnr := false } members) := by
      simp [Dist.normalize, hmX, hP]
    rw [detRes, hn, detect_scale, restrict_scale, hprune]
  · intro h0
    have hP : physInputs c members ≠ 0 := by rwa [hmX] at h0
    have hn : normalize (codeRes eng { c with pnr := false } members) =
        scale (physInputs c members)⁻¹ (codeRes eng { c with pnr := false } members) := by
      simp [Dist.normalize, hmX, hP]
    have hslX : SumLe N (codeRes eng { c with pnr := false } members) := by
      rw [hX]; exact hsl.restrict _
    rw [detRes, hn, detect_scale, mass_scale, mass_detect_le _ hK _ hslX, hmX]
    rw [hmX] at h0
    field_simp
  · intro hP0
    have hslX : SumLe N (codeRes eng { c with pnr := false } members) := by
      rw [hX]; exact hsl.restrict _
    have hnnD : NN (detect (ds.map Det.kern) (codeRes eng { c with pnr := false } members)) := by
      apply NN_detect _ hK _ hslX
      rw [hX]; exact hnnF.restrict _
    have h1 := mass_restrict_le hnnD (physOk (cond c))
    rw [mass_detect_le _ hK _ hslX, hmX, hP0, ← hprune] at h1
    have h2 := hnnY.mass_nonneg
    linarith


/-! ### witnesses for the non-vacuity examples of `Props/C04.lean`: identity circuit on 2 modes, herald 1 on mode 0,
filter 1 (threshold 2 with the herald), inputs `|1,2>` and `|0,2>` with probability 1/2 each; `dDets` reads the data
mode with a threshold detector, `dDetsP` reads the *heralded* mode with a threshold detector and the data mode with
an interleaved pseudo-PNR detector of two branches (kernel rows for 0..3 photons) -/

def dCfg : Cfg := { m := 2, heralds := [(0, 1)], ps := .tt, userFilter := 1, keepHeralds := false, pnr := true }
def dMembers : List Member := [⟨1/2, [[1, 2]]⟩, ⟨1/2, [[0, 2]]⟩]
def dDets : List Det := [.none, .thr]
def dDetsP : List Det := [.thr, .table [[(0, 1)], [(1, 1)], [(1, 1/2), (2, 1/2)], [(1, 1/4), (2, 3/4)]]]

theorem dWF : HeraldsWF dCfg.m dCfg.heralds := ⟨by decide, by decide⟩

theorem dEng : EngOK idEng dCfg.m dMembers := by
  refine ⟨?_, ?_, ?_⟩ <;> simp [idEng, dMembers, dCfg, NN, mass]

theorem dMix : MixOK dMembers := by
  refine ⟨?_, ?_⟩
  · norm_num [dMembers]
  · intro mb hmb
    simp only [dMembers, List.mem_cons, List.not_mem_nil, or_false] at hmb
    rcases hmb with rfl | rfl <;> norm_num

theorem dN : ∀ mb ∈ dMembers, mb.n ≤ 3 := by
  intro mb hmb
  simp only [dMembers, List.mem_cons, List.not_mem_nil, or_false] at hmb
  rcases hmb with rfl | rfl <;> decide

theorem dKernsP : KernsOK 3 (dDetsP.map Det.kern) := by
  refine ⟨?_, ?_, ?_⟩ <;>
  · intro K hK k hk
    simp only [dDetsP, List.map_cons, List.map_nil, List.mem_cons, List.not_mem_nil, or_false] at hK
    rcases hK with rfl | rfl <;> interval_cases k <;> simp [Det.kern] <;> norm_num

theorem dRet : mass (retained (cond dCfg) (detectedFull idEng dCfg.m dDets dMembers)) = 1/2 := by
  simp [retained, cond, detectedFull, full, fullMember, convAll, dMembers, dCfg, dDets, idEng, mix, scale, conv,
    restrict, zeros, fadd, physOk, logicOk, heraldsOk, PS.eval, minFilter, nHeralds, mass, List.replicate,
    detect, detectState, Det.kern]
  try norm_num

theorem dRetP : mass (retained (cond dCfg) (detectedFull idEng dCfg.m dDetsP dMembers)) = 1/2 := by
  simp [retained, cond, detectedFull, full, fullMember, convAll, dMembers, dCfg, dDetsP, idEng, mix, scale, conv,
    restrict, zeros, fadd, physOk, logicOk, heraldsOk, PS.eval, minFilter, nHeralds, mass, List.replicate,
    detect, detectState, Det.kern]
  try norm_num
end PM.C04
