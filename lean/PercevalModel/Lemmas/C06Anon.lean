/-
  C06 — lemmas about `anonymize_annotations` (`Model/C06Anon.lean`).
-/
import PercevalModel.Model.C06Anon
import PercevalModel.Lemmas.C06
import PercevalModel.Lemmas.C06Coeff

namespace PM.C06

/-! ### the annotation map -/

/-- the `annot_map` after visiting the photons `l`, starting from `seen` -/
def seenAll (seen : List Tag) (l : List Tag) : List Tag := l.foldl seenAdd seen

theorem seenAll_cons (seen : List Tag) (a : Tag) (l : List Tag) :
    seenAll seen (a :: l) = seenAll (seenAdd seen a) l := rfl

theorem seenAll_append (seen l₁ l₂ : List Tag) :
    seenAll seen (l₁ ++ l₂) = seenAll (seenAll seen l₁) l₂ := by
  simp [seenAll, List.foldl_append]

theorem seenAdd_prefix (seen : List Tag) (a : Tag) : seen <+: seenAdd seen a := by
  unfold seenAdd
  split
  · exact List.prefix_refl _
  · exact List.prefix_append _ _

theorem seenAll_prefix (seen l : List Tag) : seen <+: seenAll seen l := by
  induction l generalizing seen with
  | nil => exact List.prefix_refl _
  | cons a l ih => exact (seenAdd_prefix seen a).trans (ih _)

theorem mem_seenAdd (seen : List Tag) (a x : Tag) : x ∈ seenAdd seen a ↔ x ∈ seen ∨ x = a := by
  unfold seenAdd
  split
  · rename_i h
    constructor
    · exact Or.inl
    · rintro (h1 | rfl)
      · exact h1
      · exact h
  · simp

theorem mem_seenAll (seen l : List Tag) (x : Tag) : x ∈ seenAll seen l ↔ x ∈ seen ∨ x ∈ l := by
  induction l generalizing seen with
  | nil => simp [seenAll]
  | cons b l ih =>
    rw [seenAll_cons, ih, mem_seenAdd, List.mem_cons]
    tauto

theorem newName_of_prefix {l₁ l₂ : List Tag} {a : Tag} (h : l₁ <+: l₂) (ha : a ∈ l₁) :
    newName l₂ a = newName l₁ a := by
  obtain ⟨t, rfl⟩ := h
  unfold newName
  rw [List.idxOf_append_of_mem ha]

theorem anonPhotons_eq (seen l : List Tag) :
    anonPhotons seen l = (seenAll seen l, l.map (newName (seenAll seen l))) := by
  induction l generalizing seen with
  | nil => rfl
  | cons a l ih =>
    have h : newName (seenAll (seenAdd seen a) l) a = newName (seenAdd seen a) a :=
      newName_of_prefix (seenAll_prefix _ l) ((mem_seenAdd seen a a).mpr (Or.inr rfl))
    simp only [anonPhotons, ih, seenAll_cons, List.map_cons, h]

theorem anonModes_eq (seen : List Tag) (s : State) :
    anonModes seen s = s.map (List.map (newName (seenAll seen s.flatten))) := by
  induction s generalizing seen with
  | nil => rfl
  | cons m s ih =>
    simp only [anonModes, anonPhotons_eq, ih, List.flatten_cons, seenAll_append, List.map_cons]
    congr 1
    apply List.map_congr_left
    intro a ha
    exact (newName_of_prefix (seenAll_prefix _ _) ((mem_seenAll _ _ _).mpr (Or.inr ha))).symm

theorem annotMap_eq (s : State) : annotMap s = seenAll [] s.flatten := rfl

/-- the renaming without the re-sorting of the modes -/
theorem anonModes_nil_eq (s : State) : anonModes [] s = s.map (List.map (renameOf s)) :=
  anonModes_eq [] s

theorem anonState_eq (s : State) : anonState s = s.map fun m => sortMode (m.map (renameOf s)) := by
  unfold anonState
  rw [anonModes_nil_eq, List.map_map]
  rfl

theorem renameOf_inj (s : State) {a b : Tag} (ha : a ∈ s.flatten) :
    renameOf s a = renameOf s b ↔ a = b := by
  unfold renameOf newName
  rw [Option.some_inj]
  exact List.idxOf_inj ((mem_seenAll _ _ _).mpr (Or.inr ha))

theorem sortMode_perm (m : Mode) : (sortMode m).Perm m := List.perm_insertionSort _ m

theorem length_sortMode (m : Mode) : (sortMode m).length = m.length := (sortMode_perm m).length_eq

theorem anonState_counts (s : State) : (anonState s).map List.length = s.map List.length := by
  rw [anonState_eq, List.map_map]
  apply List.map_congr_left
  intro m _
  simp [length_sortMode]

theorem anonState_length (s : State) : (anonState s).length = s.length := by
  rw [anonState_eq, List.length_map]

theorem photons_anonState (s : State) : photons (anonState s) = photons s := by
  unfold photons
  rw [anonState_counts]

theorem mem_flatten_renamed (ρ : Tag → Tag) (s : State) (x : Tag) :
    x ∈ (s.map fun m => sortMode (m.map ρ)).flatten ↔ ∃ a ∈ s.flatten, ρ a = x := by
  simp only [List.mem_flatten, List.mem_map]
  constructor
  · rintro ⟨_, ⟨m, hm, rfl⟩, hx⟩
    rw [(sortMode_perm _).mem_iff, List.mem_map] at hx
    obtain ⟨a, ha, rfl⟩ := hx
    exact ⟨a, ⟨m, hm, ha⟩, rfl⟩
  · rintro ⟨a, ⟨m, hm, ha⟩, rfl⟩
    exact ⟨_, ⟨m, hm, rfl⟩, (sortMode_perm _).mem_iff.mpr (List.mem_map_of_mem ha)⟩

theorem oneTag_iff (s : State) : oneTag s = true ↔ ∀ a ∈ s.flatten, ∀ b ∈ s.flatten, a = b := by
  unfold oneTag
  generalize s.flatten = l
  cases l with
  | nil => simp
  | cons a l =>
    simp only [List.all_eq_true, decide_eq_true_eq, List.mem_cons]
    constructor
    · intro h x hx y hy
      have hx' : x = a := by
        rcases hx with rfl | hx
        · rfl
        · exact h _ hx
      have hy' : y = a := by
        rcases hy with rfl | hy
        · rfl
        · exact h _ hy
      rw [hx', hy']
    · intro h b hb
      exact h b (Or.inr hb) a (Or.inl rfl)

theorem oneTag_anonState (s : State) : oneTag (anonState s) = oneTag s := by
  rw [Bool.eq_iff_iff, oneTag_iff, oneTag_iff, anonState_eq]
  constructor
  · intro h a ha b hb
    have := h _ ((mem_flatten_renamed _ s _).mpr ⟨a, ha, rfl⟩) _
      ((mem_flatten_renamed _ s _).mpr ⟨b, hb, rfl⟩)
    exact (renameOf_inj s ha).mp this
  · intro h x hx y hy
    obtain ⟨a, ha, rfl⟩ := (mem_flatten_renamed _ s _).mp hx
    obtain ⟨b, hb, rfl⟩ := (mem_flatten_renamed _ s _).mp hy
    rw [h a ha b hb]

theorem tagPattern_map (ρ : Tag → Tag) (l : List Tag) (h : ∀ a ∈ l, ∀ b, ρ a = ρ b ↔ a = b) :
    tagPattern (l.map ρ) = tagPattern l := by
  unfold tagPattern
  rw [List.map_map]
  apply List.map_congr_left
  intro a ha
  simp only [Function.comp_apply, List.map_map]
  apply List.map_congr_left
  intro b _
  simp only [Function.comp_apply]
  exact decide_eq_decide.mpr (h a ha b)

/-! ### the distribution -/

section dist
variable {α : Type}

theorem E_insDesc (g : α → ℚ) (e : α × ℚ) (d : Dist α) : E g (insDesc e d) = e.2 * g e.1 + E g d := by
  induction d with
  | nil => simp [insDesc]
  | cons x xs ih =>
    unfold insDesc
    split
    · simp only [E_cons]
    · simp only [E_cons, ih]; ring

theorem sortDesc_cons (e : α × ℚ) (d : Dist α) : sortDesc (e :: d) = insDesc e (sortDesc d) := rfl

theorem E_sortDesc (g : α → ℚ) (d : Dist α) : E g (sortDesc d) = E g d := by
  induction d with
  | nil => rfl
  | cons e d ih => rw [sortDesc_cons, E_insDesc, ih, E_cons]

theorem insDesc_perm (e : α × ℚ) (d : Dist α) : (insDesc e d).Perm (e :: d) := by
  induction d with
  | nil => exact List.Perm.refl _
  | cons x xs ih =>
    unfold insDesc
    split
    · exact List.Perm.refl _
    · exact (List.Perm.cons x ih).trans (List.Perm.swap e x xs)

theorem sortDesc_perm (d : Dist α) : (sortDesc d).Perm d := by
  induction d with
  | nil => exact List.Perm.refl _
  | cons e d ih => exact (insDesc_perm e _).trans (List.Perm.cons e ih)

theorem insDesc_sorted (e : α × ℚ) (d : Dist α) (h : d.Pairwise fun x y => y.2 ≤ x.2) :
    (insDesc e d).Pairwise fun x y => y.2 ≤ x.2 := by
  induction d with
  | nil => simp [insDesc]
  | cons x xs ih =>
    rw [List.pairwise_cons] at h
    unfold insDesc
    split
    · rename_i hx
      refine List.pairwise_cons.mpr ⟨?_, List.pairwise_cons.mpr h⟩
      intro y hy
      rcases List.mem_cons.mp hy with rfl | hy
      · exact hx
      · exact (h.1 y hy).trans hx
    · rename_i hx
      refine List.pairwise_cons.mpr ⟨?_, ih h.2⟩
      intro y hy
      rcases List.mem_cons.mp ((insDesc_perm e xs).mem_iff.mp hy) with rfl | hy
      · exact le_of_lt (not_le.mp hx)
      · exact h.1 y hy

theorem sortDesc_sorted (d : Dist α) : (sortDesc d).Pairwise fun x y => y.2 ≤ x.2 := by
  induction d with
  | nil => exact List.Pairwise.nil
  | cons e d ih => exact insDesc_sorted e _ ih

theorem keys_addKey [DecidableEq α] (k : α) (p : ℚ) (d : Dist α) :
    (addKey k p d).map Prod.fst =
      if k ∈ d.map Prod.fst then d.map Prod.fst else d.map Prod.fst ++ [k] := by
  induction d with
  | nil => simp [addKey]
  | cons e rest ih =>
    unfold addKey
    by_cases h : e.1 = k
    · simp [h]
    · have h' : ¬ k = e.1 := fun hh => h hh.symm
      simp only [h, if_false, List.map_cons, List.mem_cons, h', false_or, ih]
      split <;> simp

theorem addKey_keys_nodup [DecidableEq α] (k : α) (p : ℚ) (d : Dist α) (h : (d.map Prod.fst).Nodup) :
    ((addKey k p d).map Prod.fst).Nodup := by
  rw [keys_addKey]
  split
  · exact h
  · rename_i hk
    rw [List.nodup_append]
    refine ⟨h, List.nodup_singleton k, ?_⟩
    intro a ha b hb
    rw [List.mem_singleton] at hb
    subst hb
    exact fun hab => hk (hab ▸ ha)

theorem accum_keys_nodup [DecidableEq α] (d : Dist α) : ((accum d).map Prod.fst).Nodup := by
  unfold accum
  suffices H : ∀ acc : Dist α, (acc.map Prod.fst).Nodup →
      ((d.foldl (fun acc e => addKey e.1 e.2 acc) acc).map Prod.fst).Nodup from H [] List.nodup_nil
  induction d with
  | nil => intro acc h; exact h
  | cons e d ih => intro acc h; exact ih _ (addKey_keys_nodup _ _ _ h)

end dist

/-- push-forward: the simplified distribution is the image of the distribution under `anonState` -/
theorem E_anonDist (g : State → ℚ) (d : Dist State) :
    E g (anonDist d) = E (fun s => g (anonState s)) d := by
  unfold anonDist
  rw [E_sortDesc, E_accum, E_map_key]

theorem anonDist_keys_nodup (d : Dist State) : ((anonDist d).map Prod.fst).Nodup := by
  unfold anonDist
  exact ((sortDesc_perm _).map Prod.fst).nodup_iff.mpr (accum_keys_nodup _)

theorem anonDist_sorted (d : Dist State) : (anonDist d).Pairwise fun x y => y.2 ≤ x.2 :=
  sortDesc_sorted _

theorem mem_anonDist_key (d : Dist State) (x : State × ℚ) (hx : x ∈ anonDist d) :
    ∃ y ∈ d, anonState y.1 = x.1 := by
  unfold anonDist at hx
  obtain ⟨z, hz, hk⟩ := mem_accum_key _ x ((sortDesc_perm _).mem_iff.mp hx)
  obtain ⟨y, hy, rfl⟩ := List.mem_map.mp hz
  exact ⟨y, hy, hk⟩

theorem E_generateSAt_of_invariant (P : Params) (b : Bool) (θ : ℚ) (ns : List ℕ) (t : ℕ)
    (g : State → ℚ) (hg : ∀ s, g (anonState s) = g s) :
    E g (generateSAt P b θ ns t) = E g (generateAt P θ ns t) := by
  unfold generateSAt
  split
  · rw [E_anonDist]; exact E_congr hg _
  · rfl

end PM.C06
