/-
  C16 (wave 6) — the values of a resolved mapping are component inputs: `v < c.m` (the counting argument).
-/
import PercevalModel.Lemmas.C16Add

namespace PM.C16
open PM.SM

/-- a nodup list of `n` numbers below `n` has every number below `n` -/
theorem isPermList_surj (n : Nat) (σ : List Nat) (h : IsPermList n σ) (x : Nat) (hx : x < n) : x ∈ σ := by
  obtain ⟨hlen, hnd, hlt⟩ := h
  have hsub : σ ⊆ List.range n := fun y hy => List.mem_range.2 (hlt y hy)
  have hp : σ.Perm (List.range n) :=
    (List.subperm_of_subset hnd hsub).perm_of_length_le (by simp [hlen])
  exact hp.mem_iff.2 (List.mem_range.2 hx)

theorem nget_mem (nm : NMap) (k v : Nat) (h : nget nm k = some v) : (k, v) ∈ nm := by
  induction nm with
  | nil => simp [nget] at h
  | cons p t ih =>
    obtain ⟨a, b⟩ := p
    by_cases hak : a = k
    · subst hak
      simp only [nget, if_true, Option.some.injEq] at h
      subst h
      exact List.mem_cons_self
    · simp only [nget, hak, if_false] at h
      exact List.mem_cons_of_mem _ (ih h)

/-- a value of the completed mapping is a user's value, or lies strictly above all of them -/
theorem spanVal_cases (nm : NMap) (i : Nat) :
    spanVal nm i ∈ nm.map (·.2) ∨ maxL (nm.map (·.2)) < spanVal nm i := by
  unfold spanVal
  cases hg : nget nm (minL (nm.map (·.1)) + i) with
  | some v => exact Or.inl (List.mem_map.2 ⟨_, nget_mem nm _ v hg, rfl⟩)
  | none => right; simp only; omega

/-- every number up to a user's value is a user's value: the modes the user did not name get values ABOVE the
maximum, and the completed vector is a permutation of `0 … spanLen - 1` -/
theorem below_value_is_value (nm : NMap) (hk : (nm.map (·.1)).Nodup) (hσ : IsPermList (spanLen nm) (permVect nm))
    (k v : Nat) (h : (k, v) ∈ nm) (x : Nat) (hx : x ≤ v) : x ∈ nm.map (·.2) := by
  have hkm : k ∈ nm.map (·.1) := List.mem_map.2 ⟨(k, v), h, rfl⟩
  have hvm : v ∈ nm.map (·.2) := List.mem_map.2 ⟨(k, v), h, rfl⟩
  obtain ⟨h1, h2⟩ := key_in_span nm k hkm
  have hget : nget nm k = some v := nget_of_mem nm hk k v h
  have hsv : spanVal nm (k - minL (nm.map (·.1))) = v := by
    unfold spanVal
    rw [show minL (nm.map (·.1)) + (k - minL (nm.map (·.1))) = k by omega, hget]
  have hlt := permVect_lt nm hσ (k - minL (nm.map (·.1))) (by omega)
  rw [hsv] at hlt
  have hxm := isPermList_surj _ _ hσ x (by omega)
  simp only [permVect, List.mem_map, List.mem_range] at hxm
  obtain ⟨i, -, hi⟩ := hxm
  rcases spanVal_cases nm i with hc | hc
  · rw [hi] at hc; exact hc
  · have := le_maxL _ v hvm
    omega

/-- **the counting argument**: in a mapping `add` has accepted, every value is an input of the component -/
theorem resolved_value_lt (aw : AWorld) (e : Exp) (c : UC) (nm : NMap) (hr : Resolved aw e c nm)
    (k v : Nat) (h : (k, v) ∈ nm) : v < c.m := by
  have hsub : List.range (v + 1) ⊆ nm.map (·.2) := by
    intro x hx
    exact below_value_is_value nm hr.keysNodup hr.perm k v h x (by have := List.mem_range.1 hx; omega)
  have hle := (List.subperm_of_subset List.nodup_range hsub).length_le
  simp only [List.length_range, List.length_map] at hle
  have := hr.len
  omega

/-- … so the values ARE the component's inputs `0 … c.m - 1`, each once -/
theorem resolved_values_perm (aw : AWorld) (e : Exp) (c : UC) (nm : NMap) (hr : Resolved aw e c nm) :
    (nm.map (·.2)).Perm (List.range c.m) := by
  have hsub : nm.map (·.2) ⊆ List.range c.m := by
    intro v hv
    obtain ⟨p, hp, rfl⟩ := List.mem_map.1 hv
    exact List.mem_range.2 (resolved_value_lt aw e c nm hr p.1 p.2 hp)
  exact (List.subperm_of_subset hr.valsNodup hsub).perm_of_length_le (by simp [hr.len])

/-- a mode of the span the user did not name goes BEHIND the component's inputs -/
theorem unnamed_goes_behind (aw : AWorld) (e : Exp) (c : UC) (nm : NMap) (hr : Resolved aw e c nm)
    (i : Nat) (hi : minL (nm.map (·.1)) + i ∉ nm.map (·.1)) : c.m ≤ spanVal nm i := by
  have hnone : nget nm (minL (nm.map (·.1)) + i) = none := by
    cases hg : nget nm (minL (nm.map (·.1)) + i) with
    | none => rfl
    | some v => exact absurd (List.mem_map.2 ⟨_, nget_mem nm _ v hg, rfl⟩) hi
  by_cases hm : c.m = 0
  · omega
  · have hmem : c.m - 1 ∈ nm.map (·.2) :=
      (resolved_values_perm aw e c nm hr).mem_iff.2 (List.mem_range.2 (by omega))
    have := le_maxL _ _ hmem
    unfold spanVal
    rw [hnone]
    simp only
    omega

end PM.C16
