/-
  C02 helper lemmas: the Stepper's PERM shortcut (`PERM.apply`, model `permApply` / `stepperPerm`)
  inside a component-by-component run is the restricted-mode step of the permutation block
  `permMatL k σ` — hence (Lemmas/C02Step.lean) one full-space step with the embedded permutation
  matrix.
-/
import PercevalModel.Lemmas.C02Step
import PercevalModel.Found.Perm
import Mathlib.Data.Finset.Card

open Matrix

namespace PM.C02
open PM.Fock PM.FockComp

variable {R : Type*} [CommRing R]

/-! ### a permutation list and its inverse -/

theorem mem_of_isPermList {k : ℕ} {σ : List ℕ} (h : IsPermList k σ) {a : ℕ} (ha : a < k) :
    a ∈ σ := by
  have hsub : σ.toFinset ⊆ Finset.range k := by
    intro x hx
    exact Finset.mem_range.2 (h.2.2 x (List.mem_toFinset.1 hx))
  have hcard : (Finset.range k).card ≤ σ.toFinset.card := by
    rw [List.toFinset_card_of_nodup h.2.1, h.1, Finset.card_range]
  have := Finset.eq_of_subset_of_card_le hsub hcard
  exact List.mem_toFinset.1 (this ▸ Finset.mem_range.2 ha)

/-- the inverse of `permFn k σ`: the position of `a` in `σ` -/
def invFn (k : ℕ) (σ : List ℕ) (h : IsPermList k σ) (a : Fin k) : Fin k :=
  ⟨σ.idxOf a.val, by
    have := List.idxOf_lt_length_of_mem (mem_of_isPermList h a.isLt)
    rwa [h.1] at this⟩

theorem permFn_val {k : ℕ} {σ : List ℕ} (h : IsPermList k σ) (j : Fin k) :
    (permFn k σ j).val = σ[j.val]'(by rw [h.1]; exact j.isLt) := by
  have hj : j.val < σ.length := by rw [h.1]; exact j.isLt
  have hget : σ.getD j.val k = σ[j.val] := by
    rw [List.getD_eq_getElem?_getD, List.getElem?_eq_getElem hj, Option.getD_some]
  have hlt : σ.getD j.val k < k := by
    rw [hget]; exact h.2.2 _ (List.getElem_mem hj)
  unfold permFn
  rw [dif_pos hlt]
  exact hget

theorem permFn_invFn {k : ℕ} {σ : List ℕ} (h : IsPermList k σ) (a : Fin k) :
    permFn k σ (invFn k σ h a) = a := by
  apply Fin.ext
  rw [permFn_val h]
  exact List.getElem_idxOf _

theorem invFn_permFn {k : ℕ} {σ : List ℕ} (h : IsPermList k σ) (j : Fin k) :
    invFn k σ h (permFn k σ j) = j := by
  apply Fin.ext
  show σ.idxOf (permFn k σ j).val = j.val
  rw [permFn_val h]
  exact h.2.1.idxOf_getElem j.val (by rw [h.1]; exact j.isLt)

/-- the slice relabelled: mode `a` receives the photons of mode `σ⁻¹ a` -/
def relabel (k : ℕ) (σ : List ℕ) (su : List ℕ) : List ℕ :=
  List.ofFn fun a : Fin k => su.getD (σ.idxOf a.val) 0

theorem relabel_mem {k : ℕ} {σ : List ℕ} (h : IsPermList k σ) (su : List ℕ) (hsu : su.length = k) :
    relabel k σ su ∈ allStates k su.sum := by
  have e : relabel k σ su = pushL (permFn k σ) su := by
    rw [pushL_of_inverse (permFn k σ) (invFn k σ h) (permFn_invFn h) (invFn_permFn h)]
    rfl
  rw [e, ← occL_comp_modes (permFn k σ) su hsu rfl]
  exact occL_mem _

/-- **`PERM.apply` on one state is `set_slice` with the relabelled slice** -/
theorem permApply_eq_setSlice {M k r0 : ℕ} (hk : r0 + k ≤ M) (σ : List ℕ) (hp : IsPermList k σ)
    (u : List ℕ) (hu : u.length = M) :
    permApply σ r0 u = setSlice u r0 (relabel k σ (slice u r0 k)) := by
  have hσ : σ.length = k := hp.1
  have hrl : (relabel k σ (slice u r0 k)).length = k := by simp [relabel]
  apply list_ext_getD
  · rw [setSlice_length _ _ _ (by omega)]
    simp [permApply]
  · intro j hj
    have hjM : j < M := by simpa [permApply, hu] using hj
    rw [setSlice_getD u _ r0 j (by omega), hrl]
    have hL : (permApply σ r0 u).getD j 0 =
        if r0 ≤ j ∧ j < r0 + σ.length then u.getD ((invPerm σ).getD (j - r0) 0 + r0) 0
        else u.getD j 0 := by
      unfold permApply
      simp only [List.getD_eq_getElem?_getD, List.getElem?_map]
      rw [List.getElem?_range (by omega)]
      rfl
    rw [hL, hσ]
    by_cases h1 : j < r0
    · rw [if_neg (by omega), if_pos h1]
    · rw [if_neg h1]
      by_cases h2 : j < r0 + k
      · rw [if_pos ⟨by omega, h2⟩, if_pos h2]
        have hjk : j - r0 < k := by omega
        have hinv : (invPerm σ).getD (j - r0) 0 = σ.idxOf (j - r0) := by
          unfold invPerm
          simp only [List.getD_eq_getElem?_getD, List.getElem?_map]
          rw [List.getElem?_range (by omega)]
          rfl
        have hr : (relabel k σ (slice u r0 k)).getD (j - r0) 0 =
            (slice u r0 k).getD (σ.idxOf (j - r0)) 0 := by
          unfold relabel
          rw [List.getD_eq_getElem?_getD, List.getElem?_ofFn, dif_pos hjk]
          rfl
        rw [hinv, hr, slice_getD]
        have h3 : σ.idxOf (j - r0) < k := by
          have := List.idxOf_lt_length_of_mem (mem_of_isPermList hp hjk)
          rwa [hσ] at this
        rw [if_pos h3, Nat.add_comm]
      · rw [if_neg (by omega), if_neg h2]

/-! ### the PERM step is the block step of the permutation matrix -/

theorem pamp_permMatL {k : ℕ} {σ : List ℕ} (h : IsPermList k σ) (su o : List ℕ)
    (hsu : su.length = k) (ho : o ∈ allStates k su.sum) :
    pamp (permMatL (R := R) k σ) su o =
      if o = relabel k σ su then (prodFact su : R) else 0 := by
  obtain ⟨hol, hon⟩ := (mem_allStates_iff k _ o).1 ho
  rw [permMatL_eq_permMatF h,
    pamp_permMatF_of_inverse (permFn k σ) (invFn k σ h) (permFn_invFn h) (invFn_permFn h) su o hsu
      hol hon.symm]
  rfl

theorem perm_entry {M k r0 : ℕ} (hk : r0 + k ≤ M) (inv : List ℕ → R)
    (hinv : ∀ v, inv v * (prodFact v : R) = 1) {σ : List ℕ} (h : IsPermList k σ)
    (u t : List ℕ) (hu : u.length = M) (a : R) :
    (((allStates k (slice u r0 k).sum).map fun o =>
        (setSlice u r0 o, pamp (permMatL (R := R) k σ) (slice u r0 k) o * inv (slice u r0 k) * a)).map
      fun p => if p.1 = t then p.2 else 0).sum =
      if permApply σ r0 u = t then a else 0 := by
  have hsl : (slice u r0 k).length = k := slice_length u r0 k (by omega)
  rw [List.map_map]
  have hcongr : ∀ o ∈ allStates k (slice u r0 k).sum,
      ((fun p : List ℕ × R => if p.1 = t then p.2 else 0) ∘ fun o =>
        (setSlice u r0 o,
          pamp (permMatL (R := R) k σ) (slice u r0 k) o * inv (slice u r0 k) * a)) o =
      (fun o => if o = relabel k σ (slice u r0 k) then
        (if setSlice u r0 o = t then a else 0) else 0) o := by
    intro o ho
    simp only [Function.comp]
    rw [pamp_permMatL h _ o hsl ho]
    by_cases h1 : o = relabel k σ (slice u r0 k)
    · rw [if_pos h1, if_pos h1]
      have := hinv (slice u r0 k)
      split_ifs
      · linear_combination a * this
      · rfl
    · rw [if_neg h1, if_neg h1]
      split_ifs <;> ring
  rw [List.map_congr_left hcongr, sum_map_ite_eq_of_nodup _ (allStates_nodup _ _),
    if_pos (relabel_mem h _ hsl), permApply_eq_setSlice hk σ h u hu]

theorem svGet_stepperPerm {M k r0 : ℕ} (hk : r0 + k ≤ M) (inv : List ℕ → R)
    (hinv : ∀ v, inv v * (prodFact v : R) = 1) {σ : List ℕ} (h : IsPermList k σ) (n : ℕ)
    (sv : SV R) (hsv : KeysIn M n sv) (t : List ℕ) :
    svGet (stepperPerm σ r0 sv) t = svGet (stepperApply inv (permMatL (R := R) k σ) r0 sv) t := by
  unfold stepperPerm stepperApply
  rw [svGet_svCompress, svGet_svCompress]
  induction sv with
  | nil => simp [stepperApplyRaw, svGet]
  | cons p sv ih =>
    have hp := ((mem_allStates_iff M n p.1).1 (hsv p List.mem_cons_self)).1
    have ih' := ih fun q hq => hsv q (List.mem_cons_of_mem _ hq)
    unfold stepperApplyRaw at ih' ⊢
    rw [List.flatMap_cons, svGet_append, ← ih', List.map_cons, svGet_cons]
    congr 1
    exact (perm_entry hk inv hinv h p.1 t hp p.2).symm

theorem keysIn_stepperPerm {M k r0 : ℕ} (hk : r0 + k ≤ M) {σ : List ℕ} (h : IsPermList k σ)
    (n : ℕ) (sv : SV R) (hsv : KeysIn M n sv) : KeysIn M n (stepperPerm σ r0 sv) := by
  unfold stepperPerm
  apply keysIn_svCompress
  intro q hq
  obtain ⟨p, hp, rfl⟩ := List.mem_map.1 hq
  obtain ⟨hpl, hpn⟩ := (mem_allStates_iff M n p.1).1 (hsv p hp)
  have hsl : (slice p.1 r0 k).length = k := slice_length p.1 r0 k (by omega)
  obtain ⟨hol, hon⟩ := (mem_allStates_iff k _ _).1 (relabel_mem h (slice p.1 r0 k) hsl)
  apply (mem_allStates_iff M n _).2
  show (permApply σ r0 p.1).length = M ∧ (permApply σ r0 p.1).sum = n
  rw [permApply_eq_setSlice hk σ h p.1 hpl]
  constructor
  · rw [setSlice_length _ _ _ (by omega), hpl]
  · have := sum_setSlice p.1 (relabel k σ (slice p.1 r0 k)) r0 (by omega)
    rw [hol] at this
    omega

/-! ### circuits with PERM components -/

/-- a step fits into the `M` modes (and a PERM carries a genuine permutation) -/
def StepFits (M : ℕ) : Step R → Prop
  | .block c => c.r0 + c.k ≤ M
  | .perm r0 σ => r0 + σ.length ≤ M ∧ IsPermList σ.length σ

/-- the full-size matrix of one step (`embed`; a PERM is the block `u[σ j, j] = 1`) -/
def stepMatrix (M : ℕ) : Step R → Matrix (Fin M) (Fin M) R
  | .block c => PM.embed M c.r0 c.B
  | .perm r0 σ => PM.embed M r0 (permMatL (R := R) σ.length σ)

def stepsMatrix (M : ℕ) (steps : List (Step R)) : Matrix (Fin M) (Fin M) R :=
  steps.foldl (fun A st => stepMatrix M st * A) 1

theorem stepperStep_spec {M : ℕ} (inv : List ℕ → R) (hinv : ∀ v, inv v * (prodFact v : R) = 1)
    (st : Step R) (hst : StepFits M st) (n : ℕ) (sv : SV R) (hsv : KeysIn M n sv) :
    KeysIn M n (stepperStep inv st sv) ∧
    ∀ t, t.length = M →
      svGet (stepperStep inv st sv) t = stepAmpsInv inv (stepMatrix M st) n (svGet sv) t := by
  cases st with
  | block c =>
    exact ⟨keysIn_stepperApply hst inv c.B n sv hsv,
      fun t ht => stepperApply_eq_stepAmpsInv hst inv hinv c.B n sv hsv t ht⟩
  | perm r0 σ =>
    obtain ⟨hk, hσ⟩ := hst
    refine ⟨keysIn_stepperPerm hk hσ n sv hsv, fun t ht => ?_⟩
    show svGet (stepperPerm σ r0 sv) t = _
    rw [svGet_stepperPerm hk inv hinv hσ n sv hsv t]
    exact stepperApply_eq_stepAmpsInv hk inv hinv _ n sv hsv t ht

theorem stepperRunS_aux {M : ℕ} (inv : List ℕ → R) (hinv : ∀ v, inv v * (prodFact v : R) = 1)
    (s : List ℕ) (hs : s.length = M) (steps : List (Step R)) (hfit : ∀ st ∈ steps, StepFits M st)
    (sv : SV R) (A : Matrix (Fin M) (Fin M) R) (hsv : KeysIn M s.sum sv)
    (hA : ∀ t ∈ allStates M s.sum, svGet sv t = pamp A s t) :
    KeysIn M s.sum (steps.foldl (fun sv st => stepperStep inv st sv) sv) ∧
    ∀ t ∈ allStates M s.sum,
      svGet (steps.foldl (fun sv st => stepperStep inv st sv) sv) t =
        pamp (steps.foldl (fun A st => stepMatrix M st * A) A) s t := by
  induction steps generalizing sv A with
  | nil => exact ⟨hsv, hA⟩
  | cons st rest ih =>
    simp only [List.foldl_cons]
    obtain ⟨hk1, hk2⟩ := stepperStep_spec inv hinv st (hfit st List.mem_cons_self) s.sum sv hsv
    apply ih (fun c' hc' => hfit c' (List.mem_cons_of_mem _ hc')) _ _ hk1
    intro t ht
    obtain ⟨htl, htn⟩ := (mem_allStates_iff M s.sum t).1 ht
    rw [hk2 t htl, pamp_mul_of_inv inv (fun u _ => hinv u) _ A s t hs htl rfl htn,
      List.sum_toFinset _ (allStates_nodup M s.sum)]
    unfold stepAmpsInv
    apply congrArg
    apply List.map_congr_left
    intro u hu
    rw [hA u hu]

end PM.C02
