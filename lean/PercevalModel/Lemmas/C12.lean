/-
  C12 — helper lemmas for the decomposition bookkeeping (`Model/C12.lean`).
-/
import PercevalModel.Model.C12
import Mathlib.Logic.Equiv.Basic
import Mathlib.Tactic.Ring
import Mathlib.Tactic.Abel

open Matrix

namespace PM.C12

variable {R : Type}

/-! ### overwriting one entry -/

theorem zeroAt_add_entryAt [AddMonoid R] {m : ℕ} (M : Matrix (Fin m) (Fin m) R) (n j : ℕ) :
    zeroAt M n j + entryAt M n j = M := by
  ext a b
  simp only [Matrix.add_apply, zeroAt, entryAt]
  split_ifs <;> simp

/-! ### the row swap of the PERM branch -/

theorem swapMat_eq_permMatF [Zero R] [One R] {m n k : ℕ} (hn : n < m) (hk : k < m) :
    swapMat (R := R) m n k = permMatF (fun x => Equiv.swap (⟨n, hn⟩ : Fin m) ⟨k, hk⟩ x) := by
  ext a b
  simp only [swapMat, permMatF, Equiv.swap_apply_def]
  by_cases hbn : b.val = n
  · have hb : b = ⟨n, hn⟩ := Fin.ext hbn
    subst hb
    by_cases han : a.val = n
    · have : a = ⟨n, hn⟩ := Fin.ext han
      subst this
      by_cases hnk : n = k
      · subst hnk; simp
      · have : (⟨k, hk⟩ : Fin m) ≠ ⟨n, hn⟩ := fun h => hnk (by simpa using (congrArg Fin.val h).symm)
        simp [hnk, this]
    · by_cases hak : a.val = k
      · have : a = ⟨k, hk⟩ := Fin.ext hak
        subst this
        simp [han]
      · have h1 : (⟨k, hk⟩ : Fin m) ≠ a := fun h => hak (by rw [← h])
        have h2 : a ≠ ⟨n, hn⟩ := fun h => han (by rw [h])
        simp [han, hak, h1, h2]
  · by_cases hbk : b.val = k
    · have hb : b = ⟨k, hk⟩ := Fin.ext hbk
      subst hb
      have hkn : (⟨k, hk⟩ : Fin m) ≠ ⟨n, hn⟩ := fun h => hbn (by rw [h])
      by_cases han : a.val = n
      · have : a = ⟨n, hn⟩ := Fin.ext han
        subst this
        simp [hkn]
      · have h2 : (⟨n, hn⟩ : Fin m) ≠ a := fun h => han (by rw [← h])
        by_cases hak : a.val = k
        · have : a = ⟨k, hk⟩ := Fin.ext hak
          subst this
          simp [han, hkn, h2, hbn]
        · have h3 : a ≠ ⟨k, hk⟩ := fun h => hak (by rw [h])
          simp [han, hak, hkn, h2, h3]
    · have h1 : b ≠ ⟨n, hn⟩ := fun h => hbn (by rw [h])
      have h2 : b ≠ ⟨k, hk⟩ := fun h => hbk (by rw [h])
      by_cases han : a.val = n
      · have : b ≠ a := fun h => hbn (by rw [h, han])
        simp [han, hbk, h1, h2, this]
      · by_cases hak : a.val = k
        · have : b ≠ a := fun h => hbk (by rw [h, hak])
          simp [han, hak, hbn, hbk, h1, h2, this]
        · simp [han, hak, h1, h2, eq_comm]

theorem swapMat_mul_self [CommRing R] {m n k : ℕ} (hn : n < m) (hk : k < m) :
    swapMat (R := R) m n k * swapMat m n k = 1 := by
  rw [swapMat_eq_permMatF hn hk, permMatF_mul]
  have : ((fun x => Equiv.swap (⟨n, hn⟩ : Fin m) ⟨k, hk⟩ x) ∘ fun x => Equiv.swap (⟨n, hn⟩ : Fin m) ⟨k, hk⟩ x)
      = id := by
    funext x; simp
  rw [this, permMatF_id]

/-! ### the PERM component of the code is that row swap -/

theorem permList_getD {d x : ℕ} (hx : x ≤ d) :
    (permList d).getD x (d + 1) = if x = 0 then d else if x = d then 0 else x := by
  unfold permList
  rw [List.getD_eq_getElem?_getD, List.getElem?_set, List.getElem?_set]
  by_cases h0 : x = 0
  · subst h0
    by_cases hd : d = 0
    · subst hd; simp
    · simp [hd]
  · by_cases hxd : x = d
    · subst hxd
      simp [h0]
    · have h1 : ¬ d = x := fun h => hxd h.symm
      have h2 : ¬ 0 = x := fun h => h0 h.symm
      have h3 : x < d + 1 := by omega
      simp [h0, hxd, h1, h2, h3]

theorem perm_comp_eq_swap [Zero R] [One R] {m n d : ℕ} (hd : 1 ≤ d) (hfit : n + d + 1 ≤ m) :
    compMat (R := R) m (.perm n d) = swapMat m n (n + d) := by
  ext a b
  change embed m n (permMatL (d + 1) (permList d)) a b = _
  simp only [embed, place, unshift, swapMat]
  by_cases ha : n ≤ a.val ∧ a.val < n + (d + 1)
  · by_cases hb : n ≤ b.val ∧ b.val < n + (d + 1)
    · rw [dif_pos ha, dif_pos hb]
      show (if (permList d).getD (b.val - n) (d + 1) = a.val - n then (1 : R) else 0) = _
      rw [permList_getD (by omega)]
      simp only [Fin.ext_iff]
      split_ifs <;> first | rfl | (exfalso; omega)
    · have hb' : ¬ (n ≤ b.val ∧ b.val < n + (d + 1)) := hb
      rw [dif_pos ha, dif_neg hb']
      have h1 : ¬ b.val = n + d := by omega
      have h2 : ¬ b.val = n := by omega
      have h3 : ¬ a = b := by
        intro h; rw [h] at ha; exact hb ha
      simp [h1, h2, h3]
  · have ha' : ¬ (n ≤ a.val ∧ a.val < n + (d + 1)) := ha
    have h1 : ¬ a.val = n + d := by omega
    have h2 : ¬ a.val = n := by omega
    by_cases hb : n ≤ b.val ∧ b.val < n + (d + 1)
    · have h3 : ¬ a = b := by
        intro h; rw [← h] at hb; exact ha hb
      rw [dif_neg ha', dif_pos hb]
      simp [h1, h2, h3]
    · have hb' : ¬ (n ≤ b.val ∧ b.val < n + (d + 1)) := hb
      rw [dif_neg ha', dif_neg hb']
      simp [h1, h2]

/-! ### flat products -/

theorem prodLeaves_append [CommRing R] (m : ℕ) (xs ys : List (Leaf R)) :
    prodLeaves m (xs ++ ys) = prodLeaves m ys * prodLeaves m xs := by
  induction xs with
  | nil => simp
  | cons x xs ih =>
    obtain ⟨o, k, B⟩ := x
    simp [ih, Matrix.mul_assoc]

theorem circMat_append [CommRing R] (m : ℕ) (xs ys : List (Comp R)) :
    circMat m (xs ++ ys) = circMat m ys * circMat m xs := by
  simp [circMat_eq_prodLeaves, prodLeaves_append]

/-! ### the loop invariant -/

/-- every pending solver result is a block with the inverse the code multiplies with -/
def Good [CommRing R] (sols : List (Sol R)) : Prop := ∀ s ∈ sols, s.1 * s.2 = 1

/-- `circMat comps · u + err = U`, and the solver results still to come are good -/
def Inv [CommRing R] {m : ℕ} (U : Matrix (Fin m) (Fin m) R) (st : St R m) : Prop :=
  circMat m st.comps * st.u.toMatrix + st.err.toMatrix = U ∧ Good st.rest

theorem finish_inv [CommRing R] {m : ℕ} {U : Matrix (Fin m) (Fin m) R} (st : St R m)
    (M' : Matrix (Fin m) (Fin m) R) (comps : List (Comp R)) (rest : List (Sol R)) (k n j : ℕ)
    (h : circMat m comps * M' + st.err.toMatrix = U) (hg : Good rest) :
    Inv U (finish st M' comps rest k n j) := by
  refine ⟨?_, hg⟩
  simp only [finish, MatV.toMatrix_ofMatrix]
  change circMat m comps * zeroAt M' n j + (st.err.toMatrix + circMat m comps * entryAt M' n j) = U
  rw [← h]
  conv_rhs => rw [← zeroAt_add_entryAt M' n j]
  rw [Matrix.mul_add]
  abel

theorem findK_spec [Zero R] (cfg : Cfg R) {m : ℕ} (M : Matrix (Fin m) (Fin m) R) {n j k : ℕ}
    (h : findK cfg M n j = some k) : n < k ∧ k ≤ j := by
  have := List.mem_of_find?_eq_some h
  rw [List.mem_range'_1] at this
  omega

theorem step_inv [CommRing R] (cfg : Cfg R) {m : ℕ} {U : Matrix (Fin m) (Fin m) R}
    {st st' : St R m} {cell : ℕ × ℕ} (hc : cell.2 < cell.1 ∧ cell.1 < m)
    (hi : Inv U st) (hs : step cfg st cell = some st') : Inv U st' := by
  obtain ⟨hU, hg⟩ := hi
  unfold step at hs
  simp only at hs
  split at hs
  · cases hs
    exact finish_inv st _ _ _ _ _ _ hU hg
  · split at hs
    · rename_i k hk
      cases hs
      have hk' : findK cfg st.u.toMatrix cell.2 cell.1 = some k := by
        by_cases hp : cfg.usePerm
        · simpa [hp] using hk
        · simp [hp] at hk
      obtain ⟨h1, h2⟩ := findK_spec cfg _ hk'
      apply finish_inv _ _ _ _ _ _ _ _ hg
      rw [circMat_cons, perm_comp_eq_swap (by omega) (by omega)]
      have e : cell.2 + (k - cell.2) = k := by omega
      rw [e, Matrix.mul_assoc, ← Matrix.mul_assoc (swapMat m cell.2 k),
        swapMat_mul_self (by omega) (by omega), Matrix.one_mul]
      exact hU
    · split at hs
      · cases hs
      · rename_i B Binv rest hrest
        cases hs
        have hg' : Good rest := fun s hs' => hg s (by rw [hrest]; exact List.mem_cons_of_mem _ hs')
        have hB : B * Binv = 1 := hg (B, Binv) (by rw [hrest]; exact List.mem_cons_self)
        apply finish_inv _ _ _ _ _ _ _ _ hg'
        have hfit : cell.2 + 2 ≤ m := by omega
        rw [circMat_cons]
        simp only [compMat, Comp.leaf]
        rw [Matrix.mul_assoc, ← Matrix.mul_assoc (embed m cell.2 B), embed_mul hfit, hB,
          embed_one hfit, Matrix.one_mul]
        exact hU

theorem run_inv [CommRing R] (cfg : Cfg R) {m : ℕ} {U : Matrix (Fin m) (Fin m) R}
    (cs : List (ℕ × ℕ)) (hcs : ∀ c ∈ cs, c.2 < c.1 ∧ c.1 < m) :
    ∀ {st st' : St R m}, Inv U st → run cfg st cs = some st' → Inv U st' := by
  induction cs with
  | nil =>
    intro st st' hi hr
    simp only [run, Option.some.injEq] at hr
    subst hr; exact hi
  | cons c cs ih =>
    intro st st' hi hr
    simp only [run] at hr
    cases hstep : step cfg st c with
    | none => simp [hstep] at hr
    | some st1 =>
      simp only [hstep, Option.bind_some] at hr
      exact ih (fun c' hc' => hcs c' (List.mem_cons_of_mem _ hc'))
        (step_inv cfg (hcs c List.mem_cons_self) hi hstep) hr

theorem cells_ok (m : ℕ) : ∀ c ∈ cells m, c.2 < c.1 ∧ c.1 < m := by
  intro c hc
  simp only [cells, List.mem_flatMap, List.mem_reverse, List.mem_range, List.mem_map] at hc
  obtain ⟨j, hj, n, hn, rfl⟩ := hc
  exact ⟨hn, hj⟩

theorem initSt_inv [CommRing R] {m : ℕ} (U : Matrix (Fin m) (Fin m) R) (sols : List (Sol R))
    (hg : Good sols) : Inv U (initSt U sols) := by
  refine ⟨?_, hg⟩
  simp [initSt]

/-! ### `np.flip` -/

theorem vflip_vflip {n : ℕ} (M : Matrix (Fin n) (Fin n) R) : vflip (vflip M) = M := by
  ext i j; simp [vflip]

theorem vflip_one [Zero R] [One R] {n : ℕ} : vflip (1 : Matrix (Fin n) (Fin n) R) = 1 := by
  ext i j; simp [vflip, Matrix.one_apply, Fin.rev_inj]

theorem vflip_mul [CommRing R] {n : ℕ} (A B : Matrix (Fin n) (Fin n) R) :
    vflip (A * B) = vflip A * vflip B := by
  ext i j
  simp only [vflip, Matrix.mul_apply]
  rw [← Equiv.sum_comp Fin.revPerm]
  simp [Fin.revPerm_apply]

theorem vflipIf_vflipIf {n : ℕ} (v : Bool) (M : Matrix (Fin n) (Fin n) R) :
    vflipIf v (vflipIf v M) = M := by
  cases v <;> simp [vflipIf, vflip_vflip]

theorem vflipIf_one [Zero R] [One R] {n : ℕ} (v : Bool) :
    vflipIf v (1 : Matrix (Fin n) (Fin n) R) = 1 := by
  cases v <;> simp [vflipIf, vflip_one]

theorem vflipIf_mul [CommRing R] {n : ℕ} (v : Bool) (A B : Matrix (Fin n) (Fin n) R) :
    vflipIf v (A * B) = vflipIf v A * vflipIf v B := by
  cases v <;> simp [vflipIf, vflip_mul]

theorem unshift_rev {m o k : ℕ} (hk : o + k ≤ m) (i : Fin m) :
    unshift m o k i.rev = (unshift m (m - o - k) k i).map Fin.rev := by
  unfold unshift
  have hv : i.rev.val = m - (i.val + 1) := Fin.val_rev i
  by_cases h : m - o - k ≤ i.val ∧ i.val < m - o - k + k
  · have h' : o ≤ i.rev.val ∧ i.rev.val < o + k := by rw [hv]; omega
    rw [dif_pos h, dif_pos h']
    simp only [Option.map_some, Option.some.injEq]
    apply Fin.ext
    simp only [Fin.val_rev]
    omega
  · have h' : ¬ (o ≤ i.rev.val ∧ i.rev.val < o + k) := by rw [hv]; omega
    rw [dif_neg h, dif_neg h']
    rfl

theorem vflip_embed [Zero R] [One R] {m o k : ℕ} (hk : o + k ≤ m) (B : Matrix (Fin k) (Fin k) R) :
    vflip (embed m o B) = embed m (m - o - k) (vflip B) := by
  ext i j
  show place (unshift m o k) B i.rev j.rev = place (unshift m (m - o - k) k) (vflip B) i j
  unfold place
  rw [unshift_rev hk i, unshift_rev hk j]
  cases unshift m (m - o - k) k i <;> cases unshift m (m - o - k) k j <;>
    simp [vflip, Fin.rev_inj]

/-! ### `Circuit.inverse` on a flat circuit -/

theorem fits_cons {m : ℕ} {x : Leaf R} {xs : List (Leaf R)} (h : Fits m (x :: xs)) :
    x.1 + x.2.1 ≤ m ∧ Fits m xs :=
  ⟨h x List.mem_cons_self, fun l hl => h l (List.mem_cons_of_mem _ hl)⟩

/-- mirroring every leaf mirrors the matrix -/
theorem prodLeaves_map_vflip [CommRing R] (v : Bool) (m : ℕ)
    (inv : (k : ℕ) → Matrix (Fin k) (Fin k) R → Matrix (Fin k) (Fin k) R) (ls : List (Leaf R))
    (hf : Fits m ls) :
    prodLeaves m (ls.map (invLeaf v false m inv)) = vflipIf v (prodLeaves m ls) := by
  induction ls with
  | nil => simp [vflipIf_one]
  | cons x xs ih =>
    obtain ⟨o, k, B⟩ := x
    obtain ⟨h1, h2⟩ := fits_cons hf
    simp only [List.map_cons, invLeaf, prodLeaves_cons, vflipIf_mul, ih h2]
    cases v
    · simp [vflipIf]
    · simp only [vflipIf, if_true]
      rw [vflip_embed h1]
      rfl

/-- reversing the list and inverting every leaf inverts the matrix -/
theorem prodLeaves_reverse_inv [CommRing R] (m : ℕ)
    (inv : (k : ℕ) → Matrix (Fin k) (Fin k) R → Matrix (Fin k) (Fin k) R) (ls : List (Leaf R))
    (hf : Fits m ls)
    (hinv : ∀ l ∈ ls, l.2.2 * inv l.2.1 l.2.2 = 1 ∧ inv l.2.1 l.2.2 * l.2.2 = 1) :
    prodLeaves m (ls.reverse.map (invLeaf false true m inv)) * prodLeaves m ls = 1 ∧
      prodLeaves m ls * prodLeaves m (ls.reverse.map (invLeaf false true m inv)) = 1 := by
  induction ls with
  | nil => simp
  | cons x xs ih =>
    obtain ⟨o, k, B⟩ := x
    obtain ⟨h1, h2⟩ := fits_cons hf
    have hx := hinv (o, ⟨k, B⟩) List.mem_cons_self
    obtain ⟨i1, i2⟩ := ih h2 (fun l hl => hinv l (List.mem_cons_of_mem _ hl))
    simp only [List.reverse_cons, List.map_append, List.map_cons, List.map_nil, prodLeaves_append,
      prodLeaves_cons, prodLeaves_nil, invLeaf, vflipIf, Matrix.one_mul]
    simp only [Bool.false_eq_true, if_false, if_true]
    constructor
    · rw [Matrix.mul_assoc, ← Matrix.mul_assoc _ (prodLeaves m xs), i1, Matrix.one_mul,
        embed_mul h1, hx.2, embed_one h1]
    · rw [Matrix.mul_assoc, ← Matrix.mul_assoc (embed m o B), embed_mul h1, hx.1, embed_one h1,
        Matrix.one_mul, i2]

theorem invLeaf_comp (v h : Bool) (m : ℕ)
    (inv : (k : ℕ) → Matrix (Fin k) (Fin k) R → Matrix (Fin k) (Fin k) R) (l : Leaf R) :
    invLeaf v h m inv l = invLeaf v false m inv (invLeaf false h m inv l) := by
  cases v <;> cases h <;> simp [invLeaf, vflipIf]

theorem fits_map_invLeaf_false {m : ℕ} (h : Bool)
    (inv : (k : ℕ) → Matrix (Fin k) (Fin k) R → Matrix (Fin k) (Fin k) R) {ls : List (Leaf R)}
    (hf : Fits m ls) : Fits m (ls.map (invLeaf false h m inv)) := by
  intro l hl
  simp only [List.mem_map] at hl
  obtain ⟨l', hl', rfl⟩ := hl
  simpa [invLeaf] using hf l' hl'

theorem fits_reverse {m : ℕ} {ls : List (Leaf R)} (hf : Fits m ls) : Fits m ls.reverse :=
  fun l hl => hf l (List.mem_reverse.1 hl)

/-! ### the phase layer -/

theorem embed_one1 [Zero R] [One R] {m : ℕ} (i : Fin m) (z : R) :
    embed m i.val (one1 z) = Matrix.diagonal (Function.update (fun _ => (1 : R)) i z) := by
  ext a b
  show place (unshift m i.val 1) (one1 z) a b = _
  unfold place unshift
  rw [Matrix.diagonal_apply]
  by_cases ha : a = i
  · subst ha
    have h1 : a.val ≤ a.val ∧ a.val < a.val + 1 := by omega
    rw [dif_pos h1]
    by_cases hb : b = a
    · subst hb
      rw [dif_pos h1]
      simp [one1]
    · have h2 : ¬ (a.val ≤ b.val ∧ b.val < a.val + 1) := fun h => hb (Fin.ext (by omega))
      have hab : ¬ a = b := fun h => hb h.symm
      rw [dif_neg h2]
      simp [hab]
  · have ha' : ¬ (i.val ≤ a.val ∧ a.val < i.val + 1) := fun h => ha (Fin.ext (by omega))
    rw [dif_neg ha']
    by_cases hb : b = i
    · subst hb
      have h1 : b.val ≤ b.val ∧ b.val < b.val + 1 := by omega
      rw [dif_pos h1]
      simp [ha]
    · have hb' : ¬ (i.val ≤ b.val ∧ b.val < i.val + 1) := fun h => hb (Fin.ext (by omega))
      rw [dif_neg hb']
      simp [ha, Function.update_apply]

theorem circMat_ps_list [CommRing R] {m : ℕ} (D : Fin m → R) (l : List (Fin m)) (hl : l.Nodup) :
    circMat m (l.map fun i => Comp.ps i.val (D i)) =
      Matrix.diagonal (fun i => if i ∈ l then D i else 1) := by
  induction l with
  | nil => simp
  | cons i l ih =>
    rw [List.nodup_cons] at hl
    rw [List.map_cons, circMat_cons, ih hl.2]
    have : compMat m (Comp.ps i.val (D i)) = embed m i.val (one1 (D i)) := rfl
    rw [this, embed_one1, Matrix.diagonal_mul_diagonal]
    congr 1
    funext a
    by_cases ha : a = i
    · subst ha; simp [hl.1]
    · simp [ha, Function.update_apply]

/-! ### what the component list is made of -/

/-- a legal entry of `list_components`: a block taken from the solver's results on two adjacent modes inside the
circuit, or (only when a permutation type was given and `ignore_identity_block` is on) a PERM on `n..n+d` inside
the circuit; never a phase shifter (those are only in the phase layer) -/
def CompOK (cfg : Cfg R) (m : ℕ) (sols : List (Sol R)) : Comp R → Prop
  | .block n B => n + 2 ≤ m ∧ ∃ Binv, (B, Binv) ∈ sols
  | .perm n d => 1 ≤ d ∧ n + d + 1 ≤ m ∧ cfg.usePerm = true ∧ cfg.ignoreId = true
  | .ps _ _ => False

def Made (cfg : Cfg R) {m : ℕ} (sols : List (Sol R)) (st : St R m) : Prop :=
  (∀ c ∈ st.comps, CompOK cfg m sols c) ∧ (∀ s ∈ st.rest, s ∈ sols)

theorem findK_ignore [Zero R] (cfg : Cfg R) {m : ℕ} (M : Matrix (Fin m) (Fin m) R) {n j k : ℕ}
    (h : findK cfg M n j = some k) : cfg.ignoreId = true := by
  have := List.find?_some h
  simp only [Bool.and_eq_true] at this
  exact this.2

theorem step_made [CommRing R] (cfg : Cfg R) {m : ℕ} (sols : List (Sol R))
    {st st' : St R m} {cell : ℕ × ℕ} (hc : cell.2 < cell.1 ∧ cell.1 < m)
    (hi : Made cfg sols st) (hs : step cfg st cell = some st') : Made cfg sols st' := by
  obtain ⟨h1, h2⟩ := hi
  unfold step at hs
  simp only at hs
  split at hs
  · cases hs
    exact ⟨h1, h2⟩
  · split at hs
    · rename_i k hk
      cases hs
      have hp : cfg.usePerm = true := by
        by_contra hp
        simp [hp] at hk
      have hk' : findK cfg st.u.toMatrix cell.2 cell.1 = some k := by simpa [hp] using hk
      obtain ⟨a1, a2⟩ := findK_spec cfg _ hk'
      refine ⟨?_, h2⟩
      intro c hc'
      simp only [finish, List.mem_cons] at hc'
      rcases hc' with rfl | hc'
      · exact ⟨by omega, by omega, hp, findK_ignore cfg _ hk'⟩
      · exact h1 c hc'
    · split at hs
      · cases hs
      · rename_i B Binv rest hrest
        cases hs
        refine ⟨?_, ?_⟩
        · intro c hc'
          simp only [finish, List.mem_cons] at hc'
          rcases hc' with rfl | hc'
          · exact ⟨by omega, Binv, h2 _ (by rw [hrest]; exact List.mem_cons_self)⟩
          · exact h1 c hc'
        · intro s hs'
          exact h2 s (by rw [hrest]; exact List.mem_cons_of_mem _ hs')

theorem run_made [CommRing R] (cfg : Cfg R) {m : ℕ} (sols : List (Sol R))
    (cs : List (ℕ × ℕ)) (hcs : ∀ c ∈ cs, c.2 < c.1 ∧ c.1 < m) :
    ∀ {st st' : St R m}, Made cfg sols st → run cfg st cs = some st' → Made cfg sols st' := by
  induction cs with
  | nil =>
    intro st st' hi hr
    simp only [run, Option.some.injEq] at hr
    subst hr; exact hi
  | cons c cs ih =>
    intro st st' hi hr
    simp only [run] at hr
    cases hstep : step cfg st c with
    | none => simp [hstep] at hr
    | some st1 =>
      simp only [hstep, Option.bind_some] at hr
      exact ih (fun c' hc' => hcs c' (List.mem_cons_of_mem _ hc'))
        (step_made cfg sols (hcs c List.mem_cons_self) hi hstep) hr

/-! ### the retry loop: what a failed attempt leaves behind -/

theorem getN_val [Zero R] {m : ℕ} (M : Matrix (Fin m) (Fin m) R) (a b : Fin m) :
    getN M a.val b.val = M a b := by
  simp [getN, a.isLt, b.isLt]

theorem zeroedSmall_refl [Zero R] (cfg : Cfg R) {m : ℕ} (U : Matrix (Fin m) (Fin m) R) :
    ZeroedSmall cfg U U := fun _ _ => Or.inl rfl

theorem zeroedSmall_trans [Zero R] (cfg : Cfg R) {m : ℕ} {U V W : Matrix (Fin m) (Fin m) R}
    (h1 : ZeroedSmall cfg U V) (h2 : ZeroedSmall cfg V W) : ZeroedSmall cfg U W := by
  intro a b
  rcases h2 a b with e | ⟨e0, es⟩
  · rw [e]; exact h1 a b
  · rcases h1 a b with e' | ⟨_, es'⟩
    · exact Or.inr ⟨e0, by rw [← e']; exact es⟩
    · exact Or.inr ⟨e0, es'⟩

theorem leadingSkipsV_zeroedSmall [Zero R] (cfg : Cfg R) {m : ℕ} (cs : List (ℕ × ℕ)) :
    ∀ M : MatV R m m, ZeroedSmall cfg M.toMatrix (leadingSkipsV cfg M cs).toMatrix := by
  induction cs with
  | nil => intro M; exact zeroedSmall_refl cfg _
  | cons c cs ih =>
    intro M
    unfold leadingSkipsV
    split
    · rename_i hc
      refine zeroedSmall_trans cfg ?_ (ih _)
      rw [MatV.toMatrix_ofMatrix]
      intro a b
      by_cases hab : a.val = c.2 ∧ b.val = c.1
      · refine Or.inr ⟨by simp [zeroAt, hab], ?_⟩
        have hs : cfg.small (getN M.toMatrix c.2 c.1) = true := by
          simp only [Bool.and_eq_true] at hc
          exact hc.1
        rw [← hab.1, ← hab.2, getN_val] at hs
        exact hs
      · exact Or.inl (by simp [zeroAt, hab])
    · exact zeroedSmall_refl cfg _

theorem inPlace_zeroedSmall' [Zero R] (cfg : Cfg R) {m : ℕ} (U : Matrix (Fin m) (Fin m) R) :
    ZeroedSmall cfg U (inPlace cfg U) := by
  have := leadingSkipsV_zeroedSmall cfg (cells m) (MatV.ofMatrix U)
  rwa [MatV.toMatrix_ofMatrix] at this

/-- without `ignore_identity_block` nothing is ever written into the shared array -/
theorem leadingSkipsV_ignore_off [Zero R] (cfg : Cfg R) {m : ℕ} (h : cfg.ignoreId = false)
    (cs : List (ℕ × ℕ)) (M : MatV R m m) : leadingSkipsV cfg M cs = M := by
  cases cs with
  | nil => rfl
  | cons c cs => simp [leadingSkipsV, h]

end PM.C12
