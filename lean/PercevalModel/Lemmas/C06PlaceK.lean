/-
  C06 — the `k` samples of ONE `generate_samples(k, …)` call on the event-table route: the events are drawn with one
  `random.choices` call (`k` independent indices), all booleans with one `random.choices([True, False], k = Σ (i + k_duo))`
  call, one `random.shuffle` per sample; `fSamples` hands the booleans on from event to event.  Under ideal draws the
  list of the `k` samples is `k` INDEPENDENT copies of the one-sample law `fLaw`.
-/
import PercevalModel.Lemmas.C06Place

namespace PM.C06

/-! ### A : an event reads exactly its own booleans -/

theorem sigPart_append (n : ℕ) (x y : List Bool) (c : ℕ) (h : n ≤ x.length) :
    sigPart n (x ++ y) c = ((sigPart n x c).1, (sigPart n x c).2.1 ++ y, (sigPart n x c).2.2) := by
  induction n generalizing x c with
  | zero => rfl
  | succ n ih =>
    cases x with
    | nil => simp at h
    | cons b x =>
      have h' : n ≤ x.length := by simpa using h
      simp only [sigPart, List.cons_append, List.headD_cons, List.tail_cons]
      rw [ih x _ h']
      rfl

theorem duoPart_append (dm : Bool) (n : ℕ) (x y : List Bool) (c : ℕ) (h : n ≤ x.length) :
    duoPart dm n (x ++ y) c = ((duoPart dm n x c).1, (duoPart dm n x c).2.1 ++ y, (duoPart dm n x c).2.2) := by
  induction n generalizing x c with
  | zero => rfl
  | succ n ih =>
    cases x with
    | nil => simp at h
    | cons b x =>
      have h' : n ≤ x.length := by simpa using h
      simp only [duoPart, List.cons_append, List.headD_cons, List.tail_cons]
      rw [ih x _ h']
      rfl

theorem sigPart_rest (n : ℕ) (bs : List Bool) (c : ℕ) : (sigPart n bs c).2.1 = bs.drop n := by
  induction n generalizing bs c with
  | zero => rfl
  | succ n ih => cases bs <;> simp [sigPart, ih]

theorem duoPart_rest (dm : Bool) (n : ℕ) (bs : List Bool) (c : ℕ) : (duoPart dm n bs c).2.1 = bs.drop n := by
  induction n generalizing bs c with
  | zero => rfl
  | succ n ih => cases bs <;> simp [duoPart, ih]

/-- the booleans behind the `i + k_duo` ones of the event are handed on untouched, and do not influence the event -/
theorem evItems_append (dm : Bool) (n : ℕ) (e : ℕ × ℕ × ℕ) (x y : List Bool) (t : ℕ)
    (hx : x.length = e.1 + e.2.2) :
    evItems dm n e (x ++ y) t = ((evItems dm n e x t).1, y) := by
  have h1 : e.1 ≤ x.length := by omega
  have h2 : e.2.2 ≤ (sigPart e.1 x t).2.1.length := by rw [sigPart_rest, List.length_drop]; omega
  have hd : ∀ c, (duoPart dm e.2.2 (sigPart e.1 x t).2.1 c).2.1 = [] := by
    intro c
    rw [duoPart_rest, sigPart_rest, List.drop_eq_nil_iff, List.length_drop]; omega
  unfold evItems
  simp only [sigPart_append _ _ _ _ h1, duoPart_append _ _ _ _ _ h2, hd, List.nil_append]

theorem fSample_append (dm : Bool) (ns : List ℕ) (t : ℕ) (e : ℕ × ℕ × ℕ) (x y : List Bool) (p : List ℕ)
    (hx : x.length = e.1 + e.2.2) :
    fSample dm ns t e (x ++ y) p = fSample dm ns t e x p := by
  unfold fSample
  rw [evItems_append dm ns.sum e x y t hx]

theorem fSamples_cons_append (dm : Bool) (ns : List ℕ) (t : ℕ) (e : ℕ × ℕ × ℕ) (es : List (ℕ × ℕ × ℕ))
    (x y : List Bool) (p : List ℕ) (perms : List (List ℕ)) (hx : x.length = e.1 + e.2.2) :
    fSamples dm ns t (e :: es) (x ++ y) (p :: perms) =
      fSample dm ns t e x p :: fSamples dm ns t es y perms := by
  show fSample dm ns t e (x ++ y) p :: fSamples dm ns t es (evItems dm ns.sum e (x ++ y) t).2 perms = _
  rw [fSample_append dm ns t e x y p hx, evItems_append dm ns.sum e x y t hx]

/-! ### E : one sample per event -/

theorem fSamples_length (dm : Bool) (ns : List ℕ) (t : ℕ) (events : List (ℕ × ℕ × ℕ)) (bs : List Bool)
    (perms : List (List ℕ)) : (fSamples dm ns t events bs perms).length = events.length := by
  induction events generalizing bs perms with
  | nil => rfl
  | cons e es ih => simp [fSamples, ih]

/-! ### B : the one-sample law as nested expectations over its three draws -/

theorem E_fLaw (P : Params) (ns : List ℕ) (f t : ℕ) (σ : Dist (List ℕ)) (g : State → ℚ) :
    E g (fLaw P ns f t σ) =
      E (fun i => E (fun bs => E (fun p => g (fSample P.dm ns t (eventOf P ns.sum f i) bs p)) σ)
        (prodLaw (List.replicate ((eventOf P ns.sum f i).1 + (eventOf P ns.sum f i).2.2) (boolLaw P))))
        (eventIdxLaw P ns.sum f) := by
  unfold fLaw
  have h1 := E_flatMap_scaled (eventIdxLaw P ns.sum f) 1
    (fun ei => (prodLaw (List.replicate ((eventOf P ns.sum f ei.1).1 + (eventOf P ns.sum f ei.1).2.2)
      (boolLaw P))).flatMap fun b =>
        σ.map fun p => (fSample P.dm ns t (eventOf P ns.sum f ei.1) b.1 p.1, ei.2 * b.2 * p.2))
    g
    (fun i => E (fun bs => E (fun p => g (fSample P.dm ns t (eventOf P ns.sum f i) bs p)) σ)
        (prodLaw (List.replicate ((eventOf P ns.sum f i).1 + (eventOf P ns.sum f i).2.2) (boolLaw P))))
  rw [one_mul] at h1
  refine h1 ?_
  intro ei _
  rw [one_mul]
  exact E_flatMap_scaled
    (prodLaw (List.replicate ((eventOf P ns.sum f ei.1).1 + (eventOf P ns.sum f ei.1).2.2) (boolLaw P))) ei.2
    (fun b => σ.map fun p =>
      (fSample P.dm ns t (eventOf P ns.sum f ei.1) b.1 p.1, ei.2 * b.2 * p.2))
    g
    (fun bs => E (fun p => g (fSample P.dm ns t (eventOf P ns.sum f ei.1) bs p)) σ)
    (fun b _ => by
      rw [E_map_weight g (fun p => fSample P.dm ns t (eventOf P ns.sum f ei.1) b.1 p) (ei.2 * b.2) σ]
      ring)

/-! ### C : the `k` samples of one call are independent copies of the one-sample law -/

/-- number of booleans `_generate_distinguishability` draws for these events -/
def boolsNeeded (events : List (ℕ × ℕ × ℕ)) : ℕ := (events.map fun e => e.1 + e.2.2).sum

theorem boolsNeeded_nil : boolsNeeded [] = 0 := rfl

theorem boolsNeeded_cons (e : ℕ × ℕ × ℕ) (es : List (ℕ × ℕ × ℕ)) :
    boolsNeeded (e :: es) = (e.1 + e.2.2) + boolsNeeded es := rfl

/-- reordering of five nested finite expectations (the law of `y` may depend on `a`) -/
theorem E_swap5 {α β γ δ ε : Type} (A : Dist α) (X : Dist β) (Y : α → Dist γ) (S : Dist δ) (T : Dist ε)
    (F : α → β → γ → δ → ε → ℚ) :
    E (fun a => E (fun x => E (fun y => E (fun p => E (fun u => F a x y p u) T) S) (Y a)) X) A =
      E (fun x => E (fun p => E (fun a => E (fun y => E (fun u => F a x y p u) T) (Y a)) A) S) X := by
  rw [E_comm (fun a x => E (fun y => E (fun p => E (fun u => F a x y p u) T) S) (Y a)) A X]
  apply E_congr
  intro x
  rw [E_congr (g' := fun a => E (fun p => E (fun y => E (fun u => F a x y p u) T) (Y a)) S)
    (fun a => E_comm (fun y p => E (fun u => F a x y p u) T) (Y a) S)]
  exact E_comm (fun a p => E (fun y => E (fun u => F a x y p u) T) (Y a)) A S

theorem fSamples_iid (P : Params) (ns : List ℕ) (f t : ℕ) (σ : Dist (List ℕ)) (k : ℕ) (G : List State → ℚ) :
    E (fun idx => E (fun bs => E (fun perms =>
        G (fSamples P.dm ns t (idx.map (eventOf P ns.sum f)) bs perms)) (iid σ k))
        (prodLaw (List.replicate (boolsNeeded (idx.map (eventOf P ns.sum f))) (boolLaw P))))
      (iid (eventIdxLaw P ns.sum f) k) =
    E G (iid (fLaw P ns f t σ) k) := by
  induction k generalizing G with
  | zero =>
    simp only [E_iid_zero, List.map_nil, boolsNeeded_nil, List.replicate_zero, E_prodLaw_nil]
    rfl
  | succ k ih =>
    -- the head sample's booleans `x`, the others' `y`
    have hsplit : ∀ (i : ℕ) (idx : List ℕ),
        E (fun bs => E (fun perms =>
            G (fSamples P.dm ns t ((i :: idx).map (eventOf P ns.sum f)) bs perms)) (iid σ (k + 1)))
          (prodLaw (List.replicate (boolsNeeded ((i :: idx).map (eventOf P ns.sum f))) (boolLaw P))) =
        E (fun x => E (fun y => E (fun p => E (fun perms =>
            G (fSample P.dm ns t (eventOf P ns.sum f i) x p ::
              fSamples P.dm ns t (idx.map (eventOf P ns.sum f)) y perms)) (iid σ k)) σ)
          (prodLaw (List.replicate (boolsNeeded (idx.map (eventOf P ns.sum f))) (boolLaw P))))
          (prodLaw (List.replicate ((eventOf P ns.sum f i).1 + (eventOf P ns.sum f i).2.2) (boolLaw P))) := by
      intro i idx
      rw [List.map_cons, boolsNeeded_cons, ← List.replicate_append_replicate, E_prodLaw_append]
      apply E_congr_mem
      intro x hx
      have hl : x.1.length = (eventOf P ns.sum f i).1 + (eventOf P ns.sum f i).2.2 := by
        rw [prodLaw_length _ x hx, List.length_replicate]
      apply E_congr
      intro y
      rw [E_iid_succ]
      apply E_congr
      intro p
      apply E_congr
      intro perms
      rw [fSamples_cons_append _ _ _ _ _ _ _ _ _ hl]
    rw [E_iid_succ (eventIdxLaw P ns.sum f) k, E_iid_succ (fLaw P ns f t σ) k, E_fLaw]
    apply E_congr
    intro i
    rw [E_congr (hsplit i)]
    rw [E_swap5 (iid (eventIdxLaw P ns.sum f) k)
      (prodLaw (List.replicate ((eventOf P ns.sum f i).1 + (eventOf P ns.sum f i).2.2) (boolLaw P)))
      (fun idx => prodLaw (List.replicate (boolsNeeded (idx.map (eventOf P ns.sum f))) (boolLaw P)))
      σ (iid σ k)
      (fun idx x y p perms => G (fSample P.dm ns t (eventOf P ns.sum f i) x p ::
        fSamples P.dm ns t (idx.map (eventOf P ns.sum f)) y perms))]
    apply E_congr
    intro x
    apply E_congr
    intro p
    exact ih (fun l => G (fSample P.dm ns t (eventOf P ns.sum f i) x p :: l))

/-! ### D : product test functions -/

theorem fSamples_iid_prod (P : Params) (ns : List ℕ) (f t : ℕ) (σ : Dist (List ℕ)) (k : ℕ) (g : State → ℚ) :
    E (fun idx => E (fun bs => E (fun perms =>
        ((fSamples P.dm ns t (idx.map (eventOf P ns.sum f)) bs perms).map g).prod) (iid σ k))
        (prodLaw (List.replicate (boolsNeeded (idx.map (eventOf P ns.sum f))) (boolLaw P))))
      (iid (eventIdxLaw P ns.sum f) k) = E g (fLaw P ns f t σ) ^ k :=
  (fSamples_iid P ns f t σ k (fun l => (l.map g).prod)).trans (E_iid_prod g _ k)

end PM.C06
