/-
  C11 — helper lemmas for the list-level part (bubble sort, permutation helpers).
-/
import PercevalModel.Model.C11Lists
import PercevalModel.Lemmas.C11
import Mathlib.Data.List.Perm.Subperm

set_option linter.unusedSimpArgs false
set_option linter.unusedSectionVars false

open Matrix PM
namespace PM.C11
variable {R : Type}

/-- the two-mode swap `PERM([1, 0])` -/
def swap2 [Zero R] [One R] : Matrix (Fin 2) (Fin 2) R := permMatL 2 [1, 0]

/-- product of the emitted swaps, first one applied first -/
def prodSwaps [CommRing R] (n : ℕ) : List ℕ → Matrix (Fin n) (Fin n) R
  | [] => 1
  | k :: rest => prodSwaps n rest * embed n k (swap2 (R := R))

/-- matrix of a position vector: row `pos` has its 1 in column `vec[pos]` -/
def vecMat [Zero R] [One R] (n : ℕ) (vec : List ℕ) : Matrix (Fin n) (Fin n) R :=
  fun i j => if vec.getD i.val n = j.val then 1 else 0

def applySwaps : List ℕ → List ℕ → List ℕ
  | vec, [] => vec
  | vec, k :: rest => applySwaps (swapAdj vec k) rest

theorem swapAdj_getD (vec : List ℕ) (k i d : ℕ) (hk : k + 1 < vec.length) :
    (swapAdj vec k).getD i d =
      if i = k then vec.getD (k + 1) d else if i = k + 1 then vec.getD k d else vec.getD i d := by
  unfold swapAdj
  simp only [List.getD_eq_getElem?_getD, List.getElem?_set]
  have h1 : k < vec.length := by omega
  by_cases e1 : i = k
  · subst e1
    simp [h1, hk, List.getElem?_eq_getElem hk]
  · by_cases e2 : i = k + 1
    · subst e2
      simp [hk, List.getElem?_eq_getElem h1]
    · have e1' : ¬ k = i := fun h => e1 h.symm
      have e2' : ¬ k + 1 = i := fun h => e2 h.symm
      simp [e1, e2, e1', e2']

theorem swapAdj_length (vec : List ℕ) (k : ℕ) : (swapAdj vec k).length = vec.length := by
  simp [swapAdj]

theorem embed_swap_mul_vecMat [CommRing R] {n k : ℕ} (hk : k + 2 ≤ n) (vec : List ℕ)
    (hv : vec.length = n) :
    embed n k (swap2 (R := R)) * vecMat n vec = vecMat n (swapAdj vec k) := by
  ext i j
  rw [Matrix.mul_apply]
  have hkl : k + 1 < vec.length := by omega
  simp only [vecMat, swapAdj_getD vec k i.val n hkl]
  by_cases e1 : i.val = k
  · rw [Finset.sum_eq_single (⟨k + 1, by omega⟩ : Fin n)]
    · rw [embed_apply]
      have h1 : k ≤ i.val ∧ i.val < k + 2 := by omega
      have h2 : k ≤ k + 1 ∧ k + 1 < k + 2 := by omega
      simp [h1, h2, e1, swap2, permMatL]
    · intro l _ hl
      rw [embed_apply]
      have h1 : k ≤ i.val ∧ i.val < k + 2 := by omega
      by_cases h2 : k ≤ l.val ∧ l.val < k + 2
      · have : l.val = k := by
          have : l.val ≠ k + 1 := fun h => hl (Fin.ext h)
          omega
        simp [h1, h2, e1, this, swap2, permMatL]
      · simp [h1, h2]
    · simp
  · by_cases e2 : i.val = k + 1
    · rw [Finset.sum_eq_single (⟨k, by omega⟩ : Fin n)]
      · rw [embed_apply]
        have h1 : k ≤ i.val ∧ i.val < k + 2 := by omega
        have h2 : k ≤ k ∧ k < k + 2 := by omega
        simp [h1, h2, e1, e2, swap2, permMatL]
      · intro l _ hl
        rw [embed_apply]
        have h1 : k ≤ i.val ∧ i.val < k + 2 := by omega
        by_cases h2 : k ≤ l.val ∧ l.val < k + 2
        · have : l.val = k + 1 := by
            have : l.val ≠ k := fun h => hl (Fin.ext h)
            omega
          simp [h1, h2, e2, this, swap2, permMatL]
        · simp [h1, h2]
      · simp
    · rw [Finset.sum_eq_single i]
      · rw [embed_apply]
        have h1 : ¬ (k ≤ i.val ∧ i.val < k + 2) := by omega
        simp [h1, e1, e2]
      · intro l _ hl
        rw [embed_apply]
        have h1 : ¬ (k ≤ i.val ∧ i.val < k + 2) := by omega
        by_cases h2 : k ≤ l.val ∧ l.val < k + 2
        · simp [h1, h2]
        · simp [h1, h2, Ne.symm hl]
      · simp

theorem prodSwaps_mul_vecMat [CommRing R] (n : ℕ) : (swaps : List ℕ) → (vec : List ℕ) →
    vec.length = n → (∀ k ∈ swaps, k + 2 ≤ n) →
    prodSwaps (R := R) n swaps * vecMat n vec = vecMat n (applySwaps vec swaps)
  | [], vec, _, _ => by simp [prodSwaps, applySwaps]
  | k :: rest, vec, hv, hs => by
    have hk : k + 2 ≤ n := hs k (by simp)
    simp only [prodSwaps, applySwaps, Matrix.mul_assoc]
    rw [embed_swap_mul_vecMat hk vec hv]
    exact prodSwaps_mul_vecMat n rest (swapAdj vec k) (by rw [swapAdj_length, hv])
      (fun q hq => hs q (by simp [hq]))

theorem vecMat_range [CommRing R] (n : ℕ) : vecMat (R := R) n (List.range n) = 1 := by
  ext i j
  have : (List.range n).getD i.val n = i.val := by
    simp [List.getD_eq_getElem?_getD, List.getElem?_range i.isLt]
  simp [vecMat, this, Matrix.one_apply, Fin.ext_iff]

theorem bubbleInner_applySwaps (p target : ℕ) : (fuel : ℕ) → (vec : List ℕ) →
    (bubbleInner p target fuel vec).1 = applySwaps vec (bubbleInner p target fuel vec).2
  | 0, vec => by simp [bubbleInner, applySwaps]
  | fuel + 1, vec => by
    unfold bubbleInner
    split
    · simp [applySwaps]
    · simp only [applySwaps]
      exact bubbleInner_applySwaps p target fuel _

theorem applySwaps_append (vec : List ℕ) (a b : List ℕ) :
    applySwaps vec (a ++ b) = applySwaps (applySwaps vec a) b := by
  induction a generalizing vec with
  | nil => simp [applySwaps]
  | cons k r ih => simp [applySwaps, ih]

theorem bubbleOuter_applySwaps (σ : List ℕ) : (ps : List ℕ) → (vec : List ℕ) →
    (bubbleOuter σ ps vec).1 = applySwaps vec (bubbleOuter σ ps vec).2
  | [], vec => by simp [bubbleOuter, applySwaps]
  | p :: ps, vec => by
    simp only [bubbleOuter, applySwaps_append]
    rw [← bubbleInner_applySwaps]
    exact bubbleOuter_applySwaps σ ps _

end PM.C11

namespace PM.C11
variable {R : Type}

theorem isPermList_mem {n : ℕ} {σ : List ℕ} (h : IsPermList n σ) {i : ℕ} (hi : i < n) : i ∈ σ := by
  have hsub : σ ⊆ List.range n := fun x hx => List.mem_range.2 (h.2.2 x hx)
  have hp : σ.Perm (List.range n) :=
    (List.subperm_of_subset h.2.1 hsub).perm_of_length_le (by simp [h.1])
  exact hp.symm.subset (List.mem_range.2 hi)

theorem vecMat_invertPerm [Zero R] [One R] {n : ℕ} {σ : List ℕ} (h : IsPermList n σ) :
    vecMat (R := R) n (invertPerm σ) = permMatL n σ := by
  ext i j
  have hi : i.val < σ.length := by rw [h.1]; exact i.isLt
  have hj : j.val < σ.length := by rw [h.1]; exact j.isLt
  have e1 : (invertPerm σ).getD i.val n = σ.idxOf i.val := by
    simp [invertPerm, List.getD_eq_getElem?_getD, hi]
  have e2 : σ.getD j.val n = σ[j.val] := by
    simp [List.getD_eq_getElem?_getD, hj]
  simp only [vecMat, permMatL, e1, e2]
  have hmem : i.val ∈ σ := isPermList_mem h i.isLt
  have key : σ.idxOf i.val = j.val ↔ σ[j.val] = i.val := by
    constructor
    · intro e
      have hlt : σ.idxOf i.val < σ.length := List.idxOf_lt_length_of_mem hmem
      have := List.getElem_idxOf hlt
      simp only [e] at this
      exact this
    · intro e
      have := h.2.1.idxOf_getElem j.val hj
      rw [e] at this
      exact this
  by_cases c : σ.idxOf i.val = j.val
  · rw [if_pos c, if_pos (key.1 c)]
  · rw [if_neg c, if_neg (fun e => c (key.2 e))]

end PM.C11

namespace PM.C11


variable {R : Type}

theorem extendPerm_length (r0 : ℕ) (σ : List ℕ) (m : ℕ) (h : r0 + σ.length ≤ m) :
    (extendPerm r0 σ m).length = m := by
  simp [extendPerm]; omega

theorem extendPerm_getD (r0 : ℕ) (σ : List ℕ) (m j d : ℕ) (h : r0 + σ.length ≤ m) (hj : j < m) :
    (extendPerm r0 σ m).getD j d =
      if j < r0 then j else if j < r0 + σ.length then σ.getD (j - r0) d + r0 else j := by
  unfold extendPerm
  rw [List.getD_eq_getElem?_getD]
  by_cases h1 : j < r0
  · rw [List.append_assoc, List.getElem?_append_left (by simpa using h1)]
    simp [h1]
  · by_cases h2 : j < r0 + σ.length
    · rw [List.getElem?_append_left (by simp; omega),
        List.getElem?_append_right (by simp; omega)]
      have : j - r0 < σ.length := by omega
      simp [h1, h2, this, List.getD_eq_getElem?_getD]
    · rw [List.getElem?_append_right (by simp; omega)]
      have : j - (r0 + σ.length) < m - (r0 + σ.length) := by omega
      simp [h1, h2, List.getElem?_range', this]
      omega

/-- `extend_perm`: the permutation on its own modes, identity on the other modes of the circuit -/
theorem extend_perm_matrix' [Zero R] [One R] {r0 m : ℕ} {σ : List ℕ}
    (hσ : IsPermList σ.length σ) (h : r0 + σ.length ≤ m) :
    permMatL (R := R) m (extendPerm r0 σ m) = embed m r0 (permMatL σ.length σ) := by
  ext i j
  rw [embed_apply]
  simp only [permMatL, extendPerm_getD r0 σ m j.val m h j.isLt]
  have hi := i.isLt
  have hj := j.isLt
  by_cases h1 : j.val < r0
  · have hj' : ¬ (r0 ≤ j.val ∧ j.val < r0 + σ.length) := by omega
    by_cases hi' : r0 ≤ i.val ∧ i.val < r0 + σ.length
    · have : ¬ j.val = i.val := by omega
      simp [h1, hi', hj', this]
    · simp [h1, hi', hj', Fin.ext_iff, eq_comm]
  · by_cases h2 : j.val < r0 + σ.length
    · have hj' : r0 ≤ j.val ∧ j.val < r0 + σ.length := by omega
      have hlt : j.val - r0 < σ.length := by omega
      have hval : σ.getD (j.val - r0) m < σ.length := by
        rw [List.getD_eq_getElem?_getD, List.getElem?_eq_getElem hlt]
        exact hσ.2.2 _ (List.getElem_mem hlt)
      have hsame : σ.getD (j.val - r0) σ.length = σ.getD (j.val - r0) m := by
        simp [List.getD_eq_getElem?_getD, List.getElem?_eq_getElem hlt]
      by_cases hi' : r0 ≤ i.val ∧ i.val < r0 + σ.length
      · simp only [h1, h2, hi', hj', if_false, if_true, and_self, ↓reduceDIte, hsame]
        have : σ.getD (j.val - r0) m + r0 = i.val ↔ σ.getD (j.val - r0) m = i.val - r0 := by omega
        simp only [this]
      · have : ¬ σ.getD (j.val - r0) m + r0 = i.val := by omega
        simp only [h1, h2, hi', hj', if_false, if_true, ↓reduceDIte, this, and_self]
    · have hj' : ¬ (r0 ≤ j.val ∧ j.val < r0 + σ.length) := by omega
      by_cases hi' : r0 ≤ i.val ∧ i.val < r0 + σ.length
      · have : ¬ j.val = i.val := by omega
        simp [h1, h2, hi', hj', this]
      · simp [h1, h2, hi', hj', Fin.ext_iff, eq_comm]


theorem extendPerm_lt {r0 m : ℕ} {σ : List ℕ} (hσ : IsPermList σ.length σ) (h : r0 + σ.length ≤ m)
    (j d : ℕ) (hj : j < m) : (extendPerm r0 σ m).getD j d < m := by
  rw [extendPerm_getD r0 σ m j d h hj]
  by_cases h1 : j < r0
  · rw [if_pos h1]; omega
  · by_cases h2 : j < r0 + σ.length
    · have hlt : j - r0 < σ.length := by omega
      have : σ.getD (j - r0) d < σ.length := by
        rw [List.getD_eq_getElem?_getD, List.getElem?_eq_getElem hlt]
        exact hσ.2.2 _ (List.getElem_mem hlt)
      rw [if_neg h1, if_pos h2]; omega
    · rw [if_neg h1, if_neg h2]; omega

theorem getD_irrel (a : List ℕ) (x d d' : ℕ) (hx : x < a.length) : a.getD x d = a.getD x d' := by
  simp [List.getD_eq_getElem?_getD, List.getElem?_eq_getElem hx]

/-- product of two list permutation matrices: the composed list -/
theorem permMatL_mul [CommRing R] {n : ℕ} (a b : List ℕ) (ha : a.length = n) (hb : b.length = n)
    (hbl : ∀ j < n, b.getD j 0 < n) :
    permMatL (R := R) n a * permMatL n b =
      permMatL n ((List.range n).map fun i => a.getD (b.getD i 0) 0) := by
  ext i j
  rw [Matrix.mul_apply]
  have hj := j.isLt
  have hbj : b.getD j.val n = b.getD j.val 0 := getD_irrel b _ _ _ (by omega)
  have hlt := hbl j.val hj
  have e : ((List.range n).map fun i => a.getD (b.getD i 0) 0).getD j.val n =
      a.getD (b.getD j.val 0) n := by
    rw [List.getD_eq_getElem?_getD, List.getElem?_map, List.getElem?_range hj]
    exact getD_irrel a _ _ _ (by omega)
  simp only [permMatL, e, hbj]
  rw [Finset.sum_eq_single (⟨b.getD j.val 0, hlt⟩ : Fin n)]
  · simp
  · intro l _ hl
    have : ¬ b.getD j.val 0 = l.val := fun h => hl (Fin.ext h.symm)
    rw [if_neg this, mul_zero]
  · simp

/-- `perm_compose`: the composed list is the product "left first, then right" of the two
permutations, each on its own modes of the common range -/
theorem perm_compose_matrix' [CommRing R] {lr0 rr0 : ℕ} {lσ rσ : List ℕ}
    (hl : IsPermList lσ.length lσ) (hr : IsPermList rσ.length rσ) :
    (permCompose lr0 lσ rr0 rσ).1 = max (lr0 + lσ.length) (rr0 + rσ.length) ∧
    permMatL (R := R) (max (lr0 + lσ.length) (rr0 + rσ.length)) (permCompose lr0 lσ rr0 rσ).2 =
      embed (max (lr0 + lσ.length) (rr0 + rσ.length)) rr0 (permMatL rσ.length rσ) *
        embed (max (lr0 + lσ.length) (rr0 + rσ.length)) lr0 (permMatL lσ.length lσ) := by
  refine ⟨rfl, ?_⟩
  have h1 : lr0 + lσ.length ≤ max (lr0 + lσ.length) (rr0 + rσ.length) := Nat.le_max_left _ _
  have h2 : rr0 + rσ.length ≤ max (lr0 + lσ.length) (rr0 + rσ.length) := Nat.le_max_right _ _
  simp only [permCompose]
  rw [← extend_perm_matrix' hl h1, ← extend_perm_matrix' hr h2,
    permMatL_mul _ _ (extendPerm_length _ _ _ h2) (extendPerm_length _ _ _ h1)
      (fun j hj => extendPerm_lt hl h1 j 0 hj), extendPerm_length _ _ _ h2]



theorem getD_eq_getElem' (l : List ℕ) (i d : ℕ) (h : i < l.length) : l.getD i d = l[i] := by
  simp [List.getD_eq_getElem?_getD, List.getElem?_eq_getElem h]

theorem swapAdj_perm (vec : List ℕ) (k : ℕ) (hk : k + 1 < vec.length) :
    (swapAdj vec k).Perm vec := by
  have h1 : k < vec.length := by omega
  have e : vec = vec.take k ++ vec[k] :: vec[k + 1] :: vec.drop (k + 2) := by
    conv_lhs => rw [← List.take_append_drop k vec]
    rw [List.drop_eq_getElem_cons h1, List.drop_eq_getElem_cons hk]
  have hlen : (vec.take k).length = k := by simp; omega
  have e2 : swapAdj vec k = vec.take k ++ vec[k + 1] :: vec[k] :: vec.drop (k + 2) := by
    apply List.ext_getElem
    · simp [swapAdj]; omega
    · intro i hi1 hi2
      have := swapAdj_getD vec k i 0 hk
      rw [getD_eq_getElem' _ _ _ hi1] at this
      rw [this]
      by_cases c1 : i = k
      · subst c1
        rw [List.getElem_append_right (by omega)]
        simp [hlen, List.getElem?_eq_getElem hk]
      · by_cases c2 : i = k + 1
        · subst c2
          rw [List.getElem_append_right (by omega)]
          simp [hlen, List.getElem?_eq_getElem h1]
        · simp only [c1, c2, if_false]
          have hiv : i < vec.length := by rw [swapAdj_length] at hi1; exact hi1
          rw [getD_eq_getElem' _ _ _ hiv]
          by_cases c3 : i < k
          · rw [List.getElem_append_left (by omega)]
            simp
          · rw [List.getElem_append_right (by omega)]
            have : i - (vec.take k).length = (i - k - 2) + 2 := by omega
            simp only [this, List.getElem_cons_succ, List.getElem_drop]
            congr 1; omega
  rw [e2]
  conv_rhs => rw [e]
  exact List.Perm.append_left _ (List.Perm.swap _ _ _)

theorem swapAdj_isPerm {n : ℕ} {vec : List ℕ} (h : IsPermList n vec) (k : ℕ) (hk : k + 1 < n) :
    IsPermList n (swapAdj vec k) := by
  have hp := swapAdj_perm vec k (by rw [h.1]; exact hk)
  exact ⟨by rw [swapAdj_length, h.1], hp.nodup_iff.2 h.2.1, fun x hx => h.2.2 x (hp.mem_iff.1 hx)⟩

theorem idxOf_eq_of_getD {vec : List ℕ} (hn : vec.Nodup) {i t : ℕ} (hi : i < vec.length)
    (h : vec.getD i 0 = t) : vec.idxOf t = i := by
  rw [getD_eq_getElem' _ _ _ hi] at h
  rw [← h]
  exact hn.idxOf_getElem i hi

theorem getD_idxOf {vec : List ℕ} {t : ℕ} (h : t ∈ vec) : vec.getD (vec.idxOf t) 0 = t := by
  have hlt := List.idxOf_lt_length_of_mem h
  rw [getD_eq_getElem' _ _ _ hlt]
  exact List.getElem_idxOf hlt

theorem bubbleInner_spec {n p t : ℕ} : (fuel : ℕ) → (vec : List ℕ) → IsPermList n vec → t ∈ vec →
    p ≤ vec.idxOf t → vec.idxOf t ≤ p + fuel →
    IsPermList n (bubbleInner p t fuel vec).1 ∧ (bubbleInner p t fuel vec).1.getD p 0 = t ∧
      (∀ q < p, (bubbleInner p t fuel vec).1.getD q 0 = vec.getD q 0) ∧
      (∀ k ∈ (bubbleInner p t fuel vec).2, k + 2 ≤ n)
  | 0, vec, hv, ht, h1, h2 => by
    have : vec.idxOf t = p := by omega
    have e : bubbleInner p t 0 vec = (vec, []) := rfl
    rw [e]
    exact ⟨hv, by rw [← this]; exact getD_idxOf ht, fun _ _ => rfl, by simp⟩
  | fuel + 1, vec, hv, ht, h1, h2 => by
    by_cases c : vec.getD p 0 = t
    · have e : bubbleInner p t (fuel + 1) vec = (vec, []) := by
        conv_lhs => unfold bubbleInner
        rw [if_pos c]
      rw [e]
      exact ⟨hv, c, fun _ _ => rfl, by simp⟩
    · have e : bubbleInner p t (fuel + 1) vec =
          ((bubbleInner p t fuel (swapAdj vec (vec.idxOf t - 1))).1,
            (vec.idxOf t - 1) :: (bubbleInner p t fuel (swapAdj vec (vec.idxOf t - 1))).2) := by
        conv_lhs => unfold bubbleInner
        rw [if_neg c]
      rw [e]
      have hlt : vec.idxOf t < n := by rw [← hv.1]; exact List.idxOf_lt_length_of_mem ht
      have hne : vec.idxOf t ≠ p := by
        intro e; apply c; rw [← e]; exact getD_idxOf ht
      have hgt : p < vec.idxOf t := by omega
      have hk : vec.idxOf t - 1 + 1 < n := by omega
      have hv' := swapAdj_isPerm hv (vec.idxOf t - 1) hk
      have hkl : vec.idxOf t - 1 + 1 < vec.length := by rw [hv.1]; exact hk
      have hnew : (swapAdj vec (vec.idxOf t - 1)).getD (vec.idxOf t - 1) 0 = t := by
        rw [swapAdj_getD vec _ _ 0 hkl]
        simp only [if_true]
        have : vec.idxOf t - 1 + 1 = vec.idxOf t := by omega
        rw [this]; exact getD_idxOf ht
      have hidx : (swapAdj vec (vec.idxOf t - 1)).idxOf t = vec.idxOf t - 1 :=
        idxOf_eq_of_getD hv'.2.1 (by rw [hv'.1]; omega) hnew
      have ht' : t ∈ swapAdj vec (vec.idxOf t - 1) :=
        (swapAdj_perm vec _ hkl).mem_iff.2 ht
      have ih := bubbleInner_spec (n := n) (p := p) (t := t) fuel (swapAdj vec (vec.idxOf t - 1)) hv' ht'
        (by rw [hidx]; omega) (by rw [hidx]; omega)
      obtain ⟨i1, i2, i3, i4⟩ := ih
      refine ⟨i1, i2, ?_, ?_⟩
      · intro q hq
        rw [i3 q hq, swapAdj_getD vec _ _ 0 hkl]
        have a1 : ¬ q = vec.idxOf t - 1 := by omega
        have a2 : ¬ q = vec.idxOf t - 1 + 1 := by omega
        simp [a1, a2]
      · intro k hk'
        simp only [List.mem_cons] at hk'
        rcases hk' with rfl | hk'
        · omega
        · exact i4 k hk'

theorem idxOf_inj_of_mem {σ : List ℕ} {a b : ℕ} (ha : a ∈ σ) (hb : b ∈ σ)
    (h : σ.idxOf a = σ.idxOf b) : a = b := by
  rw [← getD_idxOf ha, ← getD_idxOf hb, h]

theorem bubbleOuter_spec {n : ℕ} {σ : List ℕ} (hσ : IsPermList n σ) : (cnt p : ℕ) → (vec : List ℕ) →
    p + cnt = n → IsPermList n vec → (∀ q < p, vec.getD q 0 = σ.idxOf q) →
    IsPermList n (bubbleOuter σ (List.range' p cnt) vec).1 ∧
      (∀ q < n, (bubbleOuter σ (List.range' p cnt) vec).1.getD q 0 = σ.idxOf q) ∧
      (∀ k ∈ (bubbleOuter σ (List.range' p cnt) vec).2, k + 2 ≤ n)
  | 0, p, vec, hp, hv, hinv => by
    simp only [List.range'_zero, bubbleOuter]
    exact ⟨hv, fun q hq => hinv q (by omega), by simp⟩
  | cnt + 1, p, vec, hp, hv, hinv => by
    have hpn : p < n := by omega
    have hpm : p ∈ σ := isPermList_mem hσ hpn
    have htn : σ.idxOf p < n := by rw [← hσ.1]; exact List.idxOf_lt_length_of_mem hpm
    have htv : σ.idxOf p ∈ vec := isPermList_mem hv htn
    have hge : p ≤ vec.idxOf (σ.idxOf p) := by
      by_contra hlt
      have hq : vec.idxOf (σ.idxOf p) < p := by omega
      have e1 := hinv _ hq
      rw [getD_idxOf htv] at e1
      have hqm : vec.idxOf (σ.idxOf p) ∈ σ := isPermList_mem hσ (by omega)
      have := idxOf_inj_of_mem hpm hqm e1
      omega
    have hfuel : vec.idxOf (σ.idxOf p) ≤ p + σ.length := by
      have : vec.idxOf (σ.idxOf p) < n := by rw [← hv.1]; exact List.idxOf_lt_length_of_mem htv
      rw [hσ.1]; omega
    obtain ⟨j1, j2, j3, j4⟩ := bubbleInner_spec (n := n) (p := p) σ.length vec hv htv hge hfuel
    have hinv' : ∀ q < p + 1, (bubbleInner p (σ.idxOf p) σ.length vec).1.getD q 0 = σ.idxOf q := by
      intro q hq
      by_cases c : q = p
      · subst c; exact j2
      · rw [j3 q (by omega)]; exact hinv q (by omega)
    obtain ⟨k1, k2, k3⟩ := bubbleOuter_spec hσ cnt (p + 1) _ (by omega) j1 hinv'
    simp only [List.range'_succ, bubbleOuter]
    refine ⟨k1, k2, ?_⟩
    intro k hk
    rcases List.mem_append.1 hk with h | h
    · exact j4 k h
    · exact k3 k h

/-- the bubble sort always ends with the inverse permutation and emits only swaps inside the circuit -/
theorem bubble_ok {n : ℕ} {σ : List ℕ} (hσ : IsPermList n σ) :
    (∀ k ∈ bubble σ, k + 2 ≤ n) ∧ bubbleFinal σ = invertPerm σ := by
  have hr : IsPermList n (List.range n) :=
    ⟨by simp, List.nodup_range, fun x hx => List.mem_range.1 hx⟩
  have h := bubbleOuter_spec hσ n 0 (List.range n) (by omega) hr (by intro q hq; omega)
  rw [← List.range_eq_range'] at h
  obtain ⟨h1, h2, h3⟩ := h
  simp only [bubble, bubbleFinal, hσ.1]
  refine ⟨h3, ?_⟩
  apply List.ext_getElem
  · simp [invertPerm, h1.1, hσ.1]
  · intro i hi1 hi2
    have hin : i < n := by rw [h1.1] at hi1; exact hi1
    have := h2 i hin
    rw [getD_eq_getElem' _ _ _ hi1] at this
    rw [this]
    simp [invertPerm]



/-- first match of `find?` on an increasing list: smaller members do not satisfy the predicate -/
theorem find?_first {l : List ℕ} {p : ℕ → Bool} {i : ℕ} (hl : l.Pairwise (· < ·))
    (h : l.find? p = some i) : p i = true ∧ i ∈ l ∧ ∀ x ∈ l, x < i → p x = false := by
  obtain ⟨hp, as, bs, e, has⟩ := List.find?_eq_some_iff_append.1 h
  refine ⟨hp, by rw [e]; simp, ?_⟩
  intro x hx hxi
  rw [e] at hx hl
  rcases List.mem_append.1 hx with h1 | h1
  · simpa using has x h1
  · rcases List.mem_cons.1 h1 with h2 | h2
    · omega
    · have := (List.pairwise_append.1 hl).2.1
      have := (List.pairwise_cons.1 this).1 x h2
      omega

theorem find?_last {l : List ℕ} {p : ℕ → Bool} {i : ℕ} (hl : l.Pairwise (· > ·))
    (h : l.find? p = some i) : p i = true ∧ i ∈ l ∧ ∀ x ∈ l, i < x → p x = false := by
  obtain ⟨hp, as, bs, e, has⟩ := List.find?_eq_some_iff_append.1 h
  refine ⟨hp, by rw [e]; simp, ?_⟩
  intro x hx hxi
  rw [e] at hx hl
  rcases List.mem_append.1 hx with h1 | h1
  · simpa using has x h1
  · rcases List.mem_cons.1 h1 with h2 | h2
    · omega
    · have := (List.pairwise_append.1 hl).2.1
      have := (List.pairwise_cons.1 this).1 x h2
      omega

theorem firstMoved_spec (σ : List ℕ) :
    (∀ x < firstMoved σ, σ.getD x 0 = x) ∧ firstMoved σ ≤ σ.length - 1 := by
  unfold firstMoved
  cases h : (List.range σ.length).find? (fun i => σ.getD i 0 != i) with
  | none =>
    simp only
    rw [List.find?_eq_none] at h
    refine ⟨fun x hx => ?_, Nat.le_refl _⟩
    have := h x (List.mem_range.2 (by omega))
    simpa using this
  | some i =>
    simp only
    obtain ⟨_, hm, hf⟩ := find?_first List.pairwise_lt_range h
    refine ⟨fun x hx => ?_, ?_⟩
    · have := hf x (List.mem_range.2 (by have := List.mem_range.1 hm; omega)) hx
      simpa using this
    · have := List.mem_range.1 hm; omega

theorem lastMoved_spec (σ : List ℕ) :
    (∀ x, lastMoved σ < x → x < σ.length → σ.getD x 0 = x) ∧ lastMoved σ ≤ σ.length - 1 := by
  unfold lastMoved
  cases h : (List.range σ.length).reverse.find? (fun i => σ.getD i 0 != i) with
  | none =>
    simp only
    rw [List.find?_eq_none] at h
    refine ⟨fun x _ hx => ?_, Nat.zero_le _⟩
    have := h x (by simp; exact hx)
    simpa using this
  | some j =>
    simp only
    have hp : (List.range σ.length).reverse.Pairwise (· > ·) := by
      rw [List.pairwise_reverse]; exact List.pairwise_lt_range
    obtain ⟨_, hm, hf⟩ := find?_last hp h
    have hj : j < σ.length := by simpa using hm
    refine ⟨fun x hx hxl => ?_, by omega⟩
    have := hf x (by simp; exact hxl) hx
    simpa using this

theorem getD_inj {n : ℕ} {σ : List ℕ} (hσ : IsPermList n σ) {x y : ℕ} (hx : x < n) (hy : y < n)
    (h : σ.getD x 0 = σ.getD y 0) : x = y := by
  have hx' : x < σ.length := by rw [hσ.1]; exact hx
  have hy' : y < σ.length := by rw [hσ.1]; exact hy
  rw [List.getD_eq_getElem?_getD, List.getD_eq_getElem?_getD, List.getElem?_eq_getElem hx',
    List.getElem?_eq_getElem hy'] at h
  exact (hσ.2.1.getElem_inj_iff).1 h

theorem getD_lt {n : ℕ} {σ : List ℕ} (hσ : IsPermList n σ) {x : ℕ} (hx : x < n) : σ.getD x 0 < n := by
  have hx' : x < σ.length := by rw [hσ.1]; exact hx
  rw [List.getD_eq_getElem?_getD, List.getElem?_eq_getElem hx']
  exact hσ.2.2 _ (List.getElem_mem hx')

/-- the reduced permutation is a permutation, and extending it again gives back the original list -/
theorem reducePerm_extend {n : ℕ} {σ : List ℕ} (hσ : IsPermList n σ) (hn : 0 < n) (r0 : ℕ) :
    IsPermList (reducePerm r0 σ).2.length (reducePerm r0 σ).2 ∧
      firstMoved σ + (reducePerm r0 σ).2.length ≤ n ∧
      extendPerm (firstMoved σ) (reducePerm r0 σ).2 n = σ := by
  obtain ⟨ha, hi⟩ := firstMoved_spec σ
  obtain ⟨hb, hj⟩ := lastMoved_spec σ
  rw [hσ.1] at hi hj hb
  have lower : ∀ x, firstMoved σ ≤ x → x < n → firstMoved σ ≤ σ.getD x 0 := by
    intro x h1 h2
    by_contra hc
    have hy : σ.getD x 0 < firstMoved σ := by omega
    have := ha _ hy
    have := getD_inj hσ (by omega) h2 this
    omega
  have upper : ∀ x, x ≤ lastMoved σ → x < n → σ.getD x 0 ≤ lastMoved σ := by
    intro x h1 h2
    by_contra hc
    have hy : lastMoved σ < σ.getD x 0 := by omega
    have := hb _ hy (getD_lt hσ h2)
    have := getD_inj hσ (getD_lt hσ h2) h2 this
    omega
  have hlen : (reducePerm r0 σ).2.length = lastMoved σ + 1 - firstMoved σ := by simp [reducePerm]
  have hget : ∀ y, y < lastMoved σ + 1 - firstMoved σ → ∀ d,
      (reducePerm r0 σ).2.getD y d = σ.getD (firstMoved σ + y) 0 - firstMoved σ := by
    intro y hy d
    simp [reducePerm, List.getD_eq_getElem?_getD, hy]
  refine ⟨⟨rfl, ?_, ?_⟩, by rw [hlen]; omega, ?_⟩
  · -- nodup
    simp only [reducePerm]
    apply List.Nodup.map_on
    · intro x hx y hy hxy
      simp only [List.mem_range'_1] at hx hy
      have h1 := lower x hx.1 (by omega)
      have h2 := lower y hy.1 (by omega)
      exact getD_inj hσ (by omega) (by omega) (by omega)
    · exact List.nodup_range'
  · intro v hv
    simp only [reducePerm, List.mem_map, List.mem_range'_1] at hv
    obtain ⟨x, hx, rfl⟩ := hv
    rw [hlen]
    have h1 := lower x hx.1 (by omega)
    have h2 := upper x (by omega) (by omega)
    omega
  · apply List.ext_getElem
    · rw [extendPerm_length _ _ _ (by rw [hlen]; omega), hσ.1]
    · intro x hx1 hx2
      have hxn : x < n := by rw [hσ.1] at hx2; exact hx2
      have e1 := extendPerm_getD (firstMoved σ) (reducePerm r0 σ).2 n x 0 (by rw [hlen]; omega) hxn
      rw [getD_eq_getElem' _ _ _ hx1] at e1
      rw [e1, ← getD_eq_getElem' σ x 0 hx2]
      by_cases c1 : x < firstMoved σ
      · rw [if_pos c1, ha x c1]
      · rw [if_neg c1]
        by_cases c2 : x < firstMoved σ + (reducePerm r0 σ).2.length
        · rw [if_pos c2, hget (x - firstMoved σ) (by rw [hlen] at c2; omega)]
          have : firstMoved σ + (x - firstMoved σ) = x := by omega
          rw [this]
          have := lower x (by omega) hxn
          omega
        · rw [if_neg c2]
          rw [hlen] at c2
          exact (hb x (by omega) hxn).symm






/-! ### matrix semantics of the simplifier's component lists -/
section simp
variable {R : Type} {P : Type}

/-- what the abstract items stand for: the phase of a numeric phase shifter, of a variable one, and
the matrix of every other component -/
structure Interp (P : Type) (R : Type) where
  e : P → R
  var : ℕ → R
  otherW : ℕ → ℕ
  other : (i : ℕ) → Matrix (Fin (otherW i)) (Fin (otherW i)) R

def itemU [CommRing R] (ι : Interp P R) (m : ℕ) (it : Item P) : Matrix (Fin m) (Fin m) R :=
  match it.k with
  | .perm σ => embed m it.r0 (permMatL (R := R) σ.length σ)
  | .ps φ => embed m it.r0 (Matrix.of fun (_ _ : Fin 1) => ι.e φ)
  | .psVar i => embed m it.r0 (Matrix.of fun (_ _ : Fin 1) => ι.var i)
  | .other i => embed m it.r0 (ι.other i)

/-- matrix of a component list (first component applied first) -/
def listU [CommRing R] (ι : Interp P R) (m : ℕ) : List (Item P) → Matrix (Fin m) (Fin m) R
  | [] => 1
  | it :: rest => listU ι m rest * itemU ι m it

def Item.WF (ι : Interp P R) (m : ℕ) (it : Item P) : Prop :=
  it.r0 + it.w ≤ m ∧
    match it.k with
    | .perm σ => σ.length = it.w ∧ IsPermList σ.length σ
    | .ps _ => it.w = 1
    | .psVar _ => it.w = 1
    | .other i => ι.otherW i = it.w

theorem listU_append [CommRing R] (ι : Interp P R) (m : ℕ) (a b : List (Item P)) :
    listU ι m (a ++ b) = listU ι m b * listU ι m a := by
  induction a with
  | nil => simp [listU]
  | cons x r ih => simp [listU, ih, Matrix.mul_assoc]

/-- identity with `z` at position `r` -/
def diagAt [Zero R] [One R] (m r : ℕ) (z : R) : Matrix (Fin m) (Fin m) R :=
  Matrix.diagonal fun i => if i.val = r then z else 1

theorem embed_ps [Zero R] [One R] {m r : ℕ} (z : R) :
    embed m r (Matrix.of fun (_ _ : Fin 1) => z) = diagAt m r z := by
  ext i j
  rw [embed_apply]
  simp only [diagAt, Matrix.diagonal_apply, Matrix.of_apply]
  by_cases hi : i.val = r
  · by_cases hj : j.val = r
    · have : i = j := Fin.ext (by omega)
      have h1 : r ≤ i.val ∧ i.val < r + 1 := by omega
      have h2 : r ≤ j.val ∧ j.val < r + 1 := by omega
      simp [h1, h2, this, hj]
    · have h1 : r ≤ i.val ∧ i.val < r + 1 := by omega
      have h2 : ¬ (r ≤ j.val ∧ j.val < r + 1) := by omega
      have : i ≠ j := fun e => hj (by rw [← e]; exact hi)
      simp [h1, h2, this]
  · have h1 : ¬ (r ≤ i.val ∧ i.val < r + 1) := by omega
    by_cases hj : j.val = r
    · have h2 : r ≤ j.val ∧ j.val < r + 1 := by omega
      have : i ≠ j := fun e => hi (by rw [e]; exact hj)
      simp [h1, h2, this]
    · have h2 : ¬ (r ≤ j.val ∧ j.val < r + 1) := by omega
      simp [h1, h2, hi]

theorem diagAt_one [Zero R] [One R] (m r : ℕ) : diagAt (R := R) m r 1 = 1 := by
  ext i j; simp [diagAt, Matrix.diagonal_apply, Matrix.one_apply]

theorem diagAt_mul [CommRing R] (m r : ℕ) (z w : R) :
    diagAt m r z * diagAt m r w = diagAt m r (z * w) := by
  simp only [diagAt, Matrix.diagonal_mul_diagonal]
  congr 1; funext i; split <;> simp

/-- a matrix that does not mix position `r` with the others commutes with `diagAt m r z` -/
theorem diagAt_comm [CommRing R] {m r : ℕ} (z : R) (A : Matrix (Fin m) (Fin m) R)
    (h : ∀ i j : Fin m, (i.val = r ∧ j.val ≠ r) ∨ (i.val ≠ r ∧ j.val = r) → A i j = 0) :
    A * diagAt m r z = diagAt m r z * A := by
  ext i j
  simp only [diagAt, Matrix.mul_diagonal, Matrix.diagonal_mul]
  by_cases hi : i.val = r <;> by_cases hj : j.val = r
  · simp [hi, hj, mul_comm]
  · rw [h i j (Or.inl ⟨hi, hj⟩)]; simp
  · rw [h i j (Or.inr ⟨hi, hj⟩)]; simp
  · simp [hi, hj]

theorem embed_noMix [Zero R] [One R] {m o k r : ℕ} (B : Matrix (Fin k) (Fin k) R)
    (hr : ¬ (o ≤ r ∧ r < o + k)) (i j : Fin m)
    (h : (i.val = r ∧ j.val ≠ r) ∨ (i.val ≠ r ∧ j.val = r)) : embed m o B i j = 0 := by
  rw [embed_apply]
  rcases h with ⟨h1, h2⟩ | ⟨h1, h2⟩
  · have a : ¬ (o ≤ i.val ∧ i.val < o + k) := by rw [h1]; exact hr
    have : i ≠ j := fun e => h2 (by rw [← e]; exact h1)
    simp [a, this]
  · have a : ¬ (o ≤ j.val ∧ j.val < o + k) := by rw [h2]; exact hr
    have : i ≠ j := fun e => h1 (by rw [e]; exact h2)
    by_cases b : o ≤ i.val ∧ i.val < o + k
    · simp [a, b]
    · simp [a, b, this]

theorem diagAt_noMix [Zero R] [One R] {m r' r : ℕ} (z : R) (i j : Fin m)
    (h : (i.val = r ∧ j.val ≠ r) ∨ (i.val ≠ r ∧ j.val = r)) : diagAt m r' z i j = 0 := by
  have : i ≠ j := by
    rcases h with ⟨h1, h2⟩ | ⟨h1, h2⟩
    · exact fun e => h2 (by rw [← e]; exact h1)
    · exact fun e => h1 (by rw [e]; exact h2)
  simp [diagAt, Matrix.diagonal_apply, this]

/-- moving a phase on output mode `r` of a permutation to the input mode that is sent to `r` -/
theorem permMatL_diagAt [CommRing R] {m r : ℕ} {ext : List ℕ} (hp : IsPermList m ext) (hr : r < m)
    (z : R) : permMatL m ext * diagAt m (ext.idxOf r) z = diagAt m r z * permMatL m ext := by
  ext i j
  simp only [diagAt, Matrix.mul_diagonal, Matrix.diagonal_mul, permMatL]
  have hj : j.val < ext.length := by rw [hp.1]; exact j.isLt
  have hmem : r ∈ ext := isPermList_mem hp hr
  by_cases c : ext.getD j.val m = i.val
  · have key : j.val = ext.idxOf r ↔ i.val = r := by
      rw [getD_irrel ext _ m 0 hj] at c
      constructor
      · intro e; rw [← c, e]; exact getD_idxOf hmem
      · intro e
        have := idxOf_eq_of_getD hp.2.1 hj (c.trans e)
        exact this.symm
    by_cases d : i.val = r
    · simp [c, d, key.2 d]
    · have : ¬ j.val = ext.idxOf r := fun e => d (key.1 e)
      simp [c, d, this]
  · rw [if_neg c]; simp

theorem extendPerm_isPerm {r0 m : ℕ} {σ : List ℕ} (hσ : IsPermList σ.length σ)
    (h : r0 + σ.length ≤ m) : IsPermList m (extendPerm r0 σ m) := by
  refine ⟨extendPerm_length _ _ _ h, ?_, ?_⟩
  · rw [List.nodup_iff_injective_getElem]
    intro ⟨x, hx⟩ ⟨y, hy⟩ hxy
    simp only at hxy
    have hxm : x < m := by rw [extendPerm_length _ _ _ h] at hx; exact hx
    have hym : y < m := by rw [extendPerm_length _ _ _ h] at hy; exact hy
    rw [← getD_eq_getElem' _ _ 0 hx, ← getD_eq_getElem' _ _ 0 hy,
      extendPerm_getD _ _ _ _ _ h hxm, extendPerm_getD _ _ _ _ _ h hym] at hxy
    apply Fin.ext
    simp only
    by_cases a1 : x < r0 <;> by_cases b1 : y < r0
    · simp [a1, b1] at hxy; exact hxy
    · by_cases b2 : y < r0 + σ.length
      · simp [a1, b1, b2] at hxy; omega
      · simp [a1, b1, b2] at hxy; omega
    · by_cases a2 : x < r0 + σ.length
      · simp [a1, b1, a2] at hxy; omega
      · simp [a1, b1, a2] at hxy; omega
    · by_cases a2 : x < r0 + σ.length <;> by_cases b2 : y < r0 + σ.length
      · simp only [a1, b1, a2, b2, if_false, if_true] at hxy
        have := getD_inj hσ (by omega : x - r0 < σ.length) (by omega : y - r0 < σ.length) (by omega)
        omega
      · simp only [a1, b1, a2, b2, if_false, if_true] at hxy
        have := getD_lt hσ (by omega : x - r0 < σ.length)
        omega
      · simp only [a1, b1, a2, b2, if_false, if_true] at hxy
        have := getD_lt hσ (by omega : y - r0 < σ.length)
        omega
      · simp only [a1, b1, a2, b2, if_false] at hxy; exact hxy
  · intro v hv
    obtain ⟨i, hi, rfl⟩ := List.getElem_of_mem hv
    rw [← getD_eq_getElem' _ _ 0 hi]
    exact extendPerm_lt hσ h i 0 (by rw [extendPerm_length _ _ _ h] at hi; exact hi)

end simp


section pswalk
variable {R : Type} {P : Type}

theorem itemU_comm_diagAt [CommRing R] (ι : Interp P R) {m r : ℕ} (z : R) (it : Item P)
    (hw : it.WF ι m) (hout : ¬ (it.r0 ≤ r ∧ r < it.r0 + it.w)) (hk : ∀ σ, it.k ≠ .perm σ) :
    itemU ι m it * diagAt m r z = diagAt m r z * itemU ι m it := by
  apply diagAt_comm
  intro i j h
  obtain ⟨hfit, hkind⟩ := hw
  unfold itemU
  cases hkk : it.k with
  | perm σ => exact absurd hkk (hk σ)
  | ps φ =>
    simp only [hkk] at hkind ⊢
    exact embed_noMix _ (by rw [← hkind]; exact hout) i j h
  | psVar v =>
    simp only [hkk] at hkind ⊢
    exact embed_noMix _ (by rw [← hkind]; exact hout) i j h
  | other v =>
    simp only [hkk] at hkind ⊢
    exact embed_noMix _ (by rw [hkind]; exact hout) i j h

/-- a one-mode phase (numeric or variable) commutes with `diagAt`, wherever it sits -/
theorem ps_comm_diagAt [CommRing R] {m r r' : ℕ} (z w : R) :
    embed m r' (Matrix.of fun (_ _ : Fin 1) => w) * diagAt m r z =
      diagAt m r z * embed m r' (Matrix.of fun (_ _ : Fin 1) => w) := by
  rw [embed_ps]
  exact diagAt_comm z _ (fun i j h => diagAt_noMix w i j h)

end pswalk


section permsound
variable {R : Type} {P : Type}

theorem permMatL_nil [Zero R] [One R] : permMatL (R := R) 0 [] = 1 := by
  ext i; exact i.elim0

theorem pushPerm_sound [CommRing R] (ι : Interp P R) {m o : ℕ} {τ : List ℕ} (l : List (Item P))
    (ho : o + τ.length ≤ m) :
    listU ι m (pushPerm l (o, τ)) = embed m o (permMatL (R := R) τ.length τ) * listU ι m l := by
  unfold pushPerm
  by_cases c : τ.isEmpty
  · have : τ = [] := List.isEmpty_iff.1 c
    subst this
    simp only [List.isEmpty_nil, if_true, List.length_nil]
    rw [permMatL_nil, embed_one (by simpa using ho), Matrix.one_mul]
  · simp only [c, Bool.false_eq_true, if_false]
    rw [listU_append]
    simp [listU, itemU]

theorem permMatL_invert_transpose [Zero R] [One R] {n : ℕ} {σ : List ℕ} (h : IsPermList n σ) :
    permMatL (R := R) n (invertPerm σ) = (permMatL n σ)ᵀ := by
  have e := vecMat_invertPerm (R := R) h
  ext i j
  have := congrFun (congrFun e j) i
  simp only [vecMat, permMatL] at this
  simp only [permMatL, Matrix.transpose_apply]
  exact this

theorem invertPerm_length (σ : List ℕ) : (invertPerm σ).length = σ.length := by simp [invertPerm]

theorem invertPerm_getD {n : ℕ} {σ : List ℕ} (h : IsPermList n σ) {i : ℕ} (hi : i < n) (d : ℕ) :
    (invertPerm σ).getD i d = σ.idxOf i := by
  simp [invertPerm, List.getD_eq_getElem?_getD, h.1, hi]

theorem invertPerm_isPerm {n : ℕ} {σ : List ℕ} (h : IsPermList n σ) : IsPermList n (invertPerm σ) := by
  refine ⟨by rw [invertPerm_length, h.1], ?_, ?_⟩
  · unfold invertPerm
    apply List.Nodup.map_on
    · intro x hx y hy hxy
      rw [h.1] at hx hy
      exact idxOf_inj_of_mem (isPermList_mem h (List.mem_range.1 hx))
        (isPermList_mem h (List.mem_range.1 hy)) hxy
    · exact List.nodup_range
  · intro v hv
    simp only [invertPerm, List.mem_map, List.mem_range] at hv
    obtain ⟨x, hx, rfl⟩ := hv
    rw [h.1] at hx
    have := List.idxOf_lt_length_of_mem (isPermList_mem h hx)
    rw [h.1] at this; exact this

theorem compose_isPerm {n : ℕ} {a b : List ℕ} (ha : IsPermList n a) (hb : IsPermList n b) :
    IsPermList n ((List.range n).map fun i => a.getD (b.getD i 0) 0) := by
  refine ⟨by simp, ?_, ?_⟩
  · apply List.Nodup.map_on
    · intro x hx y hy hxy
      have hx' := List.mem_range.1 hx
      have hy' := List.mem_range.1 hy
      exact getD_inj hb hx' hy' (getD_inj ha (getD_lt hb hx') (getD_lt hb hy') hxy)
    · exact List.nodup_range
  · intro v hv
    simp only [List.mem_map, List.mem_range] at hv
    obtain ⟨x, hx, rfl⟩ := hv
    exact getD_lt ha (getD_lt hb hx)

theorem permMatL_mul' [CommRing R] {n : ℕ} {a b : List ℕ} (ha : IsPermList n a) (hb : IsPermList n b) :
    permMatL (R := R) n ((List.range n).map fun i => a.getD (b.getD i 0) 0) =
      permMatL n a * permMatL n b :=
  (permMatL_mul a b ha.1 hb.1 (fun _ hj => getD_lt hb hj)).symm

theorem permMatL_range [Zero R] [One R] (n : ℕ) : permMatL (R := R) n (List.range n) = 1 := by
  ext i j
  have : (List.range n).getD j.val n = j.val := by
    simp [List.getD_eq_getElem?_getD, j.isLt]
  simp [permMatL, this, Matrix.one_apply, Fin.ext_iff, eq_comm]

/-- a permutation matrix times its transpose is the identity -/
theorem permMatL_mul_transpose [CommRing R] {n : ℕ} {ρ : List ℕ} (h : IsPermList n ρ) :
    permMatL (R := R) n ρ * (permMatL n ρ)ᵀ = 1 := by
  rw [← permMatL_invert_transpose h, ← permMatL_mul' h (invertPerm_isPerm h), ← permMatL_range]
  congr 1
  apply List.ext_getElem
  · simp
  · intro i h1 h2
    have hi : i < n := by simpa using h2
    simp only [List.getElem_map, List.getElem_range]
    rw [invertPerm_getD h hi]
    exact getD_idxOf (isPermList_mem h hi)

/-- conjugating an embedded block by a permutation that carries the block's modes, in order, to
other consecutive modes: the same block at the new place -/
theorem permMatL_conj_embed [CommRing R] {m o o' w : ℕ} {ρ : List ℕ} (hρ : IsPermList m ρ)
    (ho : o + w ≤ m) (B : Matrix (Fin w) (Fin w) R)
    (hv : ∀ t < w, (invertPerm ρ).getD (o + t) m = o' + t) :
    permMatL m ρ * embed m o' B = embed m o B * permMatL m ρ := by
  -- ρ[o' + t] = o + t
  have hinv : ∀ t < w, o' + t < m ∧ ρ.getD (o' + t) 0 = o + t := by
    intro t ht
    have h1 := hv t ht
    have hlt : o + t < m := by omega
    rw [invertPerm_getD hρ hlt] at h1
    have hm := isPermList_mem hρ hlt
    have := List.idxOf_lt_length_of_mem hm
    rw [hρ.1, h1] at this
    refine ⟨this, ?_⟩
    rw [← h1]; exact getD_idxOf hm
  ext i j
  rw [Matrix.mul_apply, Matrix.mul_apply]
  have hi := i.isLt
  have hj := j.isLt
  have hjl : j.val < ρ.length := by rw [hρ.1]; exact hj
  have him := isPermList_mem hρ hi
  have hail : ρ.idxOf i.val < m := by
    have := List.idxOf_lt_length_of_mem him; rw [hρ.1] at this; exact this
  have hbl : ρ.getD j.val 0 < m := getD_lt hρ hj
  rw [Finset.sum_eq_single (⟨ρ.idxOf i.val, hail⟩ : Fin m),
    Finset.sum_eq_single (⟨ρ.getD j.val 0, hbl⟩ : Fin m)]
  · have e1 : ρ.getD (ρ.idxOf i.val) m = i.val := by
      rw [getD_irrel ρ _ m 0 (by rw [hρ.1]; exact hail)]; exact getD_idxOf him
    have e2 : ρ.getD j.val m = ρ.getD j.val 0 := getD_irrel ρ _ _ _ hjl
    simp only [permMatL, e1, e2, if_true, one_mul, mul_one]
    rw [embed_apply, embed_apply]
    simp only
    -- block membership transfers through ρ
    have rowiff : (o' ≤ ρ.idxOf i.val ∧ ρ.idxOf i.val < o' + w) ↔ (o ≤ i.val ∧ i.val < o + w) := by
      constructor
      · intro h
        obtain ⟨h1, h2⟩ := hinv (ρ.idxOf i.val - o') (by omega)
        have : o' + (ρ.idxOf i.val - o') = ρ.idxOf i.val := by omega
        rw [this, getD_idxOf him] at h2
        omega
      · intro h
        have := hv (i.val - o) (by omega)
        have e : o + (i.val - o) = i.val := by omega
        rw [e, invertPerm_getD hρ hi] at this
        omega
    have coliff : (o' ≤ j.val ∧ j.val < o' + w) ↔ (o ≤ ρ.getD j.val 0 ∧ ρ.getD j.val 0 < o + w) := by
      constructor
      · intro h
        obtain ⟨h1, h2⟩ := hinv (j.val - o') (by omega)
        have : o' + (j.val - o') = j.val := by omega
        rw [this] at h2
        omega
      · intro h
        have h3 := hv (ρ.getD j.val 0 - o) (by omega)
        have e : o + (ρ.getD j.val 0 - o) = ρ.getD j.val 0 := by omega
        rw [e, invertPerm_getD hρ hbl] at h3
        have := idxOf_eq_of_getD hρ.2.1 hjl rfl
        omega
    have rowoff : (o' ≤ ρ.idxOf i.val ∧ ρ.idxOf i.val < o' + w) → ρ.idxOf i.val - o' = i.val - o := by
      intro h
      have h' := rowiff.1 h
      have := hv (i.val - o) (by omega)
      have e : o + (i.val - o) = i.val := by omega
      rw [e, invertPerm_getD hρ hi] at this
      omega
    have coloff : (o' ≤ j.val ∧ j.val < o' + w) → j.val - o' = ρ.getD j.val 0 - o := by
      intro h
      obtain ⟨h1, h2⟩ := hinv (j.val - o') (by omega)
      have : o' + (j.val - o') = j.val := by omega
      rw [this] at h2
      omega
    have eqiff : ρ.idxOf i.val = j.val ↔ i.val = ρ.getD j.val 0 := by
      constructor
      · intro h; rw [← h]; exact (getD_idxOf him).symm
      · intro h; rw [h]; exact idxOf_eq_of_getD hρ.2.1 hjl rfl
    by_cases c1 : o' ≤ ρ.idxOf i.val ∧ ρ.idxOf i.val < o' + w
    · have c1' := rowiff.1 c1
      by_cases c2 : o' ≤ j.val ∧ j.val < o' + w
      · have c2' := coliff.1 c2
        rw [dif_pos c1, dif_pos c2, dif_pos c1', dif_pos c2']
        congr 1 <;> apply Fin.ext <;> simp only
        · exact rowoff c1
        · exact coloff c2
      · have c2' : ¬ (o ≤ ρ.getD j.val 0 ∧ ρ.getD j.val 0 < o + w) := fun h => c2 (coliff.2 h)
        rw [dif_pos c1, dif_neg c2, dif_pos c1', dif_neg c2']
    · have c1' : ¬ (o ≤ i.val ∧ i.val < o + w) := fun h => c1 (rowiff.2 h)
      by_cases c2 : o' ≤ j.val ∧ j.val < o' + w
      · have c2' := coliff.1 c2
        rw [dif_neg c1, if_pos c2, dif_neg c1', if_pos c2']
      · have c2' : ¬ (o ≤ ρ.getD j.val 0 ∧ ρ.getD j.val 0 < o + w) := fun h => c2 (coliff.2 h)
        rw [dif_neg c1, if_neg c2, dif_neg c1', if_neg c2']
        by_cases c3 : ρ.idxOf i.val = j.val
        · have : i.val = ρ.getD j.val 0 := eqiff.1 c3
          rw [if_pos (Fin.ext c3), if_pos (Fin.ext this)]
        · have : ¬ i.val = ρ.getD j.val 0 := fun h => c3 (eqiff.2 h)
          rw [if_neg (fun h => c3 (congrArg Fin.val h)), if_neg (fun h => this (congrArg Fin.val h))]
  · intro l _ hl
    have : ¬ ρ.getD j.val m = l.val := by
      rw [getD_irrel ρ _ m 0 hjl]
      exact fun h => hl (Fin.ext h.symm)
    simp only [permMatL]; rw [if_neg this, mul_zero]
  · simp
  · intro l _ hl
    have : ¬ ρ.getD l.val m = i.val := by
      intro h
      have hll : l.val < ρ.length := by rw [hρ.1]; exact l.isLt
      rw [getD_irrel ρ _ m 0 hll] at h
      exact hl (Fin.ext (idxOf_eq_of_getD hρ.2.1 hll h).symm)
    simp only [permMatL]; rw [if_neg this, zero_mul]
  · simp

end permsound



section stepsound
variable {R : Type} {P : Type}

/-- **walk-back of `_simplify_PS`**: whatever the walk returns, it is the earlier circuit followed by
the phase `e φ` on the mode the walk started from -/
theorem psWalk_sound [CommRing R] [PhaseAlg P] (ι : Interp P R)
    (hadd : ∀ a b : P, ι.e (PhaseAlg.add a b) = ι.e a * ι.e b)
    (hdrop : ∀ a : P, PhaseAlg.canDrop a = true → ι.e a = 1)
    (m : ℕ) (display wantDrop : Bool) (φ : P) :
    (rev : List (Item P)) → (r0 : ℕ) → (l : List (Item P)) → r0 < m → (∀ it ∈ rev, it.WF ι m) →
    psWalk m display wantDrop φ r0 rev = some l →
    listU ι m l.reverse = diagAt m r0 (ι.e φ) * listU ι m rev.reverse
  | [], _, _, _, _, h => by simp [psWalk] at h
  | it :: rest, r0, l, hr, hw, h => by
    have hwit := hw it (by simp)
    have hwrest : ∀ x ∈ rest, x.WF ι m := fun x hx => hw x (by simp [hx])
    have step : ∀ (r0' : ℕ) (l' : List (Item P)), r0' < m →
        psWalk m display wantDrop φ r0' rest = some l' →
        itemU ι m it * diagAt m r0' (ι.e φ) = diagAt m r0 (ι.e φ) * itemU ι m it →
        listU ι m (it :: l').reverse = diagAt m r0 (ι.e φ) * listU ι m (it :: rest).reverse := by
      intro r0' l' hr' hl' hc
      have ih := psWalk_sound ι hadd hdrop m display wantDrop φ rest r0' l' hr' hwrest hl'
      simp only [List.reverse_cons, listU_append, listU, Matrix.one_mul]
      rw [ih, ← Matrix.mul_assoc, hc, Matrix.mul_assoc]
    unfold psWalk at h
    cases hk : it.k with
    | ps ψ =>
      simp only [hk] at h
      by_cases c : r0 = it.r0
      · rw [if_pos c] at h
        have hl := Option.some.inj h
        have hitU : itemU ι m it = diagAt m r0 (ι.e ψ) := by
          unfold itemU; rw [hk]; simp only; rw [embed_ps, c]
        simp only [List.reverse_cons, listU_append, listU, Matrix.one_mul]
        rw [hitU, ← Matrix.mul_assoc, diagAt_mul, ← hadd]
        split at hl
        · rename_i hd
          have hcd : PhaseAlg.canDrop (PhaseAlg.add φ ψ) = true := by
            simp only [dropDecision, Bool.and_eq_true] at hd; exact hd.1.2
          rw [hdrop _ hcd, diagAt_one, Matrix.one_mul, ← hl]
        · rw [← hl]
          simp only [List.reverse_cons, listU_append, listU, Matrix.one_mul]
          congr 1
          unfold itemU; simp only; rw [embed_ps, c]
      · rw [if_neg c] at h
        obtain ⟨l', hl', rfl⟩ := Option.map_eq_some_iff.1 h
        refine step r0 l' hr hl' ?_
        unfold itemU; rw [hk]; simp only
        exact ps_comm_diagAt _ _
    | psVar v =>
      simp only [hk] at h
      obtain ⟨l', hl', rfl⟩ := Option.map_eq_some_iff.1 h
      refine step r0 l' hr hl' ?_
      unfold itemU; rw [hk]; simp only
      exact ps_comm_diagAt _ _
    | perm σ =>
      simp only [hk] at h
      obtain ⟨l', hl', rfl⟩ := Option.map_eq_some_iff.1 h
      obtain ⟨hfit, hkind⟩ := hwit
      simp only [hk] at hkind
      have hfit' : it.r0 + σ.length ≤ m := by rw [hkind.1]; exact hfit
      have hext := extendPerm_isPerm hkind.2 hfit'
      have hmem : r0 ∈ extendPerm it.r0 σ m := isPermList_mem hext hr
      have hidx : (invertPerm (extendPerm it.r0 σ m)).getD r0 0 = (extendPerm it.r0 σ m).idxOf r0 := by
        simp [invertPerm, List.getD_eq_getElem?_getD, hext.1, hr]
      have hlt : (extendPerm it.r0 σ m).idxOf r0 < m := by
        have := List.idxOf_lt_length_of_mem hmem
        rw [hext.1] at this; exact this
      rw [hidx] at hl'
      refine step _ l' hlt hl' ?_
      unfold itemU; rw [hk]; simp only
      rw [← extend_perm_matrix' hkind.2 hfit']
      exact permMatL_diagAt hext hr _
    | other v =>
      simp only [hk] at h
      by_cases c : it.r0 ≤ r0 ∧ r0 < it.r0 + it.w
      · rw [if_pos c] at h; exact absurd h (by simp)
      · rw [if_neg c] at h
        obtain ⟨l', hl', rfl⟩ := Option.map_eq_some_iff.1 h
        refine step r0 l' hr hl' ?_
        exact itemU_comm_diagAt ι _ it hwit c (by intro σ; rw [hk]; simp)

/-- **`_simplify_PS` leaves the matrix unchanged**: the result is the circuit with the phase shifter
appended, for every `display` flag and every rounding outcome of the drop test -/
theorem simplifyPS_sound [CommRing R] [PhaseAlg P] (ι : Interp P R)
    (hadd : ∀ a b : P, ι.e (PhaseAlg.add a b) = ι.e a * ι.e b)
    (hdrop : ∀ a : P, PhaseAlg.canDrop a = true → ι.e a = 1)
    (m : ℕ) (display wantDrop : Bool) (comps : List (Item P)) (r0 : ℕ) (φ : P)
    (hr : r0 < m) (hw : ∀ it ∈ comps, it.WF ι m) :
    listU ι m (simplifyPS m display wantDrop comps r0 φ) =
      listU ι m (comps ++ [⟨r0, 1, .ps φ⟩]) := by
  have hnew : listU ι m (comps ++ [⟨r0, 1, .ps φ⟩]) = diagAt m r0 (ι.e φ) * listU ι m comps := by
    rw [listU_append]; simp [listU, itemU, embed_ps]
  rw [hnew]
  unfold simplifyPS
  cases h : psWalk m display wantDrop φ r0 comps.reverse with
  | some l =>
    simp only
    have := psWalk_sound ι hadd hdrop m display wantDrop φ comps.reverse r0 l hr
      (fun it hit => hw it (List.mem_reverse.1 hit)) h
    rw [this, List.reverse_reverse]
  | none =>
    simp only
    split
    · rename_i hd
      have hcd : PhaseAlg.canDrop φ = true := by
        simp only [dropDecision, Bool.and_eq_true] at hd; exact hd.1.2
      rw [hdrop _ hcd, diagAt_one, Matrix.one_mul]
    · exact hnew




theorem isPerm_spec {m : ℕ} {ρ : List ℕ} (hl : ρ.length = m) (h : isPerm ρ = true) : IsPermList m ρ := by
  have hsub : List.range m ⊆ ρ := by
    intro x hx
    simp only [isPerm, List.all_eq_true, List.mem_range, List.contains_iff_mem] at h
    exact h x (by rw [hl]; exact List.mem_range.1 hx)
  have hp : (List.range m).Perm ρ :=
    (List.subperm_of_subset List.nodup_range hsub).perm_of_length_le (by simp [hl])
  exact ⟨hl, hp.nodup_iff.1 List.nodup_range, fun x hx => List.mem_range.1 (hp.mem_iff.2 hx)⟩

theorem validChoice_spec {m : ℕ} {inComps : List (Item P)} {ρ : List ℕ}
    (h : validChoice m inComps ρ = true) :
    IsPermList m ρ ∧ ∀ it ∈ inComps, ∀ t < it.w,
      (invertPerm ρ).getD (it.r0 + t) m = (invertPerm ρ).getD it.r0 m + t := by
  simp only [validChoice, Bool.and_eq_true, beq_iff_eq, List.all_eq_true, List.mem_range] at h
  obtain ⟨⟨h1, h2⟩, h3⟩ := h
  exact ⟨isPerm_spec h1 h2, fun it hit t ht => h3 it hit t ht⟩

/-- relocating one in-between component by `_move_comp` is conjugation by the unravelling permutation -/
theorem itemU_conj [CommRing R] (ι : Interp P R) {m : ℕ} {ρ : List ℕ} (hρ : IsPermList m ρ)
    (it : Item P) (hw : it.WF ι m)
    (hv : ∀ t < it.w, (invertPerm ρ).getD (it.r0 + t) m = (invertPerm ρ).getD it.r0 m + t) :
    permMatL m ρ * itemU ι m { it with r0 := (invertPerm ρ).getD it.r0 0 } =
      itemU ι m it * permMatL m ρ := by
  obtain ⟨hfit, hkind⟩ := hw
  have hw0 : 0 < it.w ∨ it.w = 0 := by omega
  have hd : ∀ t < it.w, (invertPerm ρ).getD (it.r0 + t) m = (invertPerm ρ).getD it.r0 0 + t := by
    intro t ht
    rw [hv t ht]
    congr 1
    exact getD_irrel _ _ _ _ (by rw [invertPerm_length, hρ.1]; omega)
  unfold itemU
  cases hk : it.k with
  | perm σ =>
    simp only [hk] at hkind ⊢
    exact permMatL_conj_embed hρ (by rw [hkind.1]; exact hfit) _ (by rw [hkind.1]; exact hd)
  | ps φ =>
    simp only [hk] at hkind ⊢
    exact permMatL_conj_embed hρ (by rw [← hkind]; exact hfit) _ (by rw [← hkind]; exact hd)
  | psVar v =>
    simp only [hk] at hkind ⊢
    exact permMatL_conj_embed hρ (by rw [← hkind]; exact hfit) _ (by rw [← hkind]; exact hd)
  | other v =>
    simp only [hk] at hkind ⊢
    exact permMatL_conj_embed hρ (by rw [hkind]; exact hfit) _ (by rw [hkind]; exact hd)

theorem moveComp_conj [CommRing R] (ι : Interp P R) {m : ℕ} {ρ : List ℕ} (hρ : IsPermList m ρ) :
    (l : List (Item P)) → (∀ it ∈ l, it.WF ι m) →
    (∀ it ∈ l, ∀ t < it.w, (invertPerm ρ).getD (it.r0 + t) m = (invertPerm ρ).getD it.r0 m + t) →
    permMatL m ρ * listU ι m (moveComp l (invertPerm ρ)) = listU ι m l * permMatL m ρ
  | [], _, _ => by simp [moveComp, listU]
  | it :: rest, hw, hv => by
    have ih := moveComp_conj ι hρ rest (fun x hx => hw x (by simp [hx])) (fun x hx => hv x (by simp [hx]))
    have h1 := itemU_conj ι hρ it (hw it (by simp)) (hv it (by simp))
    simp only [moveComp, List.map_cons, listU] at ih ⊢
    rw [← Matrix.mul_assoc, ih, Matrix.mul_assoc, h1, Matrix.mul_assoc]

theorem reduce_full [CommRing R] {m : ℕ} {τ : List ℕ} (h : IsPermList m τ) (hm : 0 < m) :
    embed m (reducePerm 0 τ).1 (permMatL (R := R) (reducePerm 0 τ).2.length (reducePerm 0 τ).2) =
      permMatL m τ := by
  obtain ⟨h1, h2, h3⟩ := reducePerm_extend h hm 0
  conv_rhs => rw [← h3]
  rw [extend_perm_matrix' h1 h2]
  simp [reducePerm]

theorem reduce_fits {n : ℕ} {τ : List ℕ} (h : IsPermList n τ) (hn : 0 < n) (r0 : ℕ) :
    (reducePerm r0 τ).1 + (reducePerm r0 τ).2.length ≤ r0 + n := by
  obtain ⟨_, h2, _⟩ := reducePerm_extend h hn r0
  simp only [reducePerm] at h2 ⊢
  omega

/-- **the non-successive branch is sound for every valid choice** -/
theorem unravel_sound [CommRing R] (ι : Interp P R) {m : ℕ} (hm : 0 < m) (display : Bool)
    (before : List (Item P)) (prev : Item P) (prevσ : List ℕ) (inComps : List (Item P))
    (r0 : ℕ) (σ ρ : List ℕ) (l : List (Item P))
    (hprev : prev.k = .perm prevσ) (hwp : prev.WF ι m) (hwin : ∀ it ∈ inComps, it.WF ι m)
    (hσ : IsPermList σ.length σ) (hfit : r0 + σ.length ≤ m)
    (hvalid : validChoice m inComps ρ = true)
    (h : unravel m display before prev prevσ inComps r0 σ ρ = some l) :
    listU ι m l = listU ι m (before ++ prev :: inComps ++ [⟨r0, σ.length, .perm σ⟩]) := by
  obtain ⟨hρ, hv⟩ := validChoice_spec hvalid
  obtain ⟨hpfit, hpk⟩ := hwp
  simp only [hprev] at hpk
  have hpfit' : prev.r0 + prevσ.length ≤ m := by rw [hpk.1]; exact hpfit
  have hc := extendPerm_isPerm hσ hfit
  have hpl := extendPerm_isPerm hpk.2 hpfit'
  have hpi := invertPerm_isPerm hpl
  have hcomp := compose_isPerm hpi hρ
  have hll := invertPerm_isPerm hcomp
  have hright := compose_isPerm hc hρ
  unfold unravel at h
  simp only at h
  split at h
  · have hl := (Option.some.inj h).symm
    subst hl
    rw [pushPerm_sound ι _ (by have := reduce_fits hright hm 0; omega), listU_append,
      pushPerm_sound ι _ (by have := reduce_fits hll hm 0; omega),
      reduce_full hright hm, reduce_full hll hm]
    -- right = P_c * P_ρ ; left = P_ρᵀ * P_prev
    rw [permMatL_mul' hc hρ, permMatL_invert_transpose hcomp, permMatL_mul' hpi hρ,
      Matrix.transpose_mul, permMatL_invert_transpose hpl, Matrix.transpose_transpose]
    have hmv := moveComp_conj ι hρ inComps hwin hv
    have hitem : itemU ι m prev = permMatL m (extendPerm prev.r0 prevσ m) := by
      unfold itemU; rw [hprev]; simp only
      exact (extend_perm_matrix' hpk.2 hpfit').symm
    have hnew : itemU ι m (⟨r0, σ.length, .perm σ⟩ : Item P) = permMatL m (extendPerm r0 σ m) := by
      unfold itemU; simp only
      exact (extend_perm_matrix' hσ hfit).symm
    simp only [List.append_assoc, List.cons_append, listU_append, listU, Matrix.one_mul, hitem, hnew]
    -- P_c P_ρ M' P_ρᵀ P_prev U_b = P_c M P_ρ P_ρᵀ P_prev U_b
    calc permMatL m (extendPerm r0 σ m) * permMatL m ρ *
          (listU ι m (moveComp inComps (invertPerm ρ)) *
            ((permMatL m ρ)ᵀ * permMatL m (extendPerm prev.r0 prevσ m) * listU ι m before))
        = permMatL m (extendPerm r0 σ m) * (permMatL m ρ * listU ι m (moveComp inComps (invertPerm ρ))) *
            ((permMatL m ρ)ᵀ * permMatL m (extendPerm prev.r0 prevσ m) * listU ι m before) := by
          simp only [Matrix.mul_assoc]
      _ = permMatL m (extendPerm r0 σ m) * listU ι m inComps * (permMatL m ρ * (permMatL m ρ)ᵀ) *
            permMatL m (extendPerm prev.r0 prevσ m) * listU ι m before := by
          rw [hmv]; simp only [Matrix.mul_assoc]
      _ = _ := by
          rw [permMatL_mul_transpose hρ]; simp only [Matrix.mul_assoc, Matrix.one_mul]
  · exact absurd h (by simp)


theorem reduce_perm_matrix_aux [Zero R] [One R] {N n r0 : ℕ} {σ : List ℕ} (hσ : IsPermList n σ)
    (hn : 0 < n) (hN : r0 + n ≤ N) :
    embed N (reducePerm r0 σ).1
        (permMatL (R := R) (reducePerm r0 σ).2.length (reducePerm r0 σ).2) =
      embed N r0 (permMatL n σ) := by
  obtain ⟨h1, h2, h3⟩ := reducePerm_extend hσ hn r0
  conv_rhs => rw [← h3]
  rw [extend_perm_matrix' h1 h2, embed_embed hN h2]
  rfl

theorem keep_sound [CommRing R] (ι : Interp P R) {m : ℕ} (hm : 0 < m) (comps : List (Item P))
    (r0 : ℕ) (σ : List ℕ) (hσ : IsPermList σ.length σ) (hfit : r0 + σ.length ≤ m) :
    listU ι m (pushPerm comps (reducePerm 0 (extendPerm r0 σ m))) =
      listU ι m (comps ++ [⟨r0, σ.length, .perm σ⟩]) := by
  have hc := extendPerm_isPerm hσ hfit
  rw [pushPerm_sound ι _ (by have := reduce_fits hc hm 0; omega), reduce_full hc hm,
    extend_perm_matrix' hσ hfit, listU_append]
  simp [listU, itemU]

/-- **`_simplify_perm` leaves the matrix unchanged**, in every branch, for both `display` modes and
for *every* unravelling permutation that satisfies `validChoice` (an invalid one is rejected by the
specification: the result is `none`). -/
theorem simplify_perm_sound' [CommRing R] (ι : Interp P R) {m : ℕ} (hm : 0 < m)
    (fixedAdj display : Bool) (comps : List (Item P)) (r0 : ℕ) (σ : List ℕ)
    (choice : Option (List ℕ)) (l : List (Item P))
    (hw : ∀ it ∈ comps, it.WF ι m) (hσ : IsPermList σ.length σ) (h0 : 0 < σ.length)
    (hfit : r0 + σ.length ≤ m)
    (h : simplifyPerm fixedAdj m display comps r0 σ choice = some l) :
    listU ι m l = listU ι m (comps ++ [⟨r0, σ.length, .perm σ⟩]) := by
  have hnew : listU ι m (comps ++ [⟨r0, σ.length, .perm σ⟩]) =
      embed m r0 (permMatL (R := R) σ.length σ) * listU ι m comps := by
    rw [listU_append]; simp [listU, itemU]
  unfold simplifyPerm at h
  split at h
  · -- single
    have hl := (Option.some.inj h).symm
    subst hl
    rw [hnew, pushPerm_sound ι _ (by have := reduce_fits hσ h0 r0; omega),
      reduce_perm_matrix_aux hσ h0 hfit]
  · -- successive
    split at h
    · rename_i lr0 lw lσ hlast
      have hl := (Option.some.inj h).symm
      subst hl
      have hdec : comps = comps.dropLast ++ [⟨lr0, lw, .perm lσ⟩] :=
        (List.dropLast_append_getLast? _ hlast).symm
      have hwl : (⟨lr0, lw, .perm lσ⟩ : Item P).WF ι m :=
        hw _ (by rw [hdec]; simp)
      obtain ⟨hlfit, hlk⟩ := hwl
      simp only at hlk hlfit
      have hlfit' : lr0 + lσ.length ≤ m := by rw [hlk.1]; exact hlfit
      obtain ⟨hc1, hc2⟩ := perm_compose_matrix' (R := R) (lr0 := lr0) (rr0 := r0) hlk.2 hσ
      have hmax : max (lr0 + lσ.length) (r0 + σ.length) ≤ m := Nat.max_le.2 ⟨hlfit', hfit⟩
      have h1 : lr0 + lσ.length ≤ max (lr0 + lσ.length) (r0 + σ.length) := Nat.le_max_left _ _
      have h2 : r0 + σ.length ≤ max (lr0 + lσ.length) (r0 + σ.length) := Nat.le_max_right _ _
      have hcp : IsPermList (max (lr0 + lσ.length) (r0 + σ.length)) (permCompose lr0 lσ r0 σ).2 := by
        have := compose_isPerm (extendPerm_isPerm hσ h2) (extendPerm_isPerm hlk.2 h1)
        simpa [permCompose, extendPerm_length _ _ _ h2] using this
      have hpos : 0 < max (lr0 + lσ.length) (r0 + σ.length) := by omega
      rw [pushPerm_sound ι _ (by have := reduce_fits hcp hpos 0; omega),
        reduce_perm_matrix_aux hcp hpos (by omega : 0 + max (lr0 + lσ.length) (r0 + σ.length) ≤ m),
        hc2, ← embed_mul (by omega), embed_embed (by omega) h2, embed_embed (by omega) h1]
      conv_rhs => rw [hdec]
      simp only [List.append_assoc, listU_append, listU, itemU, Matrix.one_mul, Nat.zero_add,
        List.cons_append, List.nil_append, Matrix.mul_assoc]
    · exact absurd h (by simp)
  · -- non-successive
    simp only at h
    cases choice with
    | none =>
      have hl := (Option.some.inj h).symm
      subst hl
      exact keep_sound ι hm comps r0 σ hσ hfit
    | some ρ =>
      cases hli : lastPermIdx comps with
      | none => rw [hli] at h; exact absurd h (by simp)
      | some i =>
        rw [hli] at h
        simp only at h
        split at h
        · rename_i pr0 pw pσ hget
          split at h
          · rename_i hvalid
            obtain ⟨hilt, hci⟩ := List.getElem?_eq_some_iff.1 hget
            have hdec : comps = comps.take i ++ ⟨pr0, pw, .perm pσ⟩ :: comps.drop (i + 1) := by
              conv_lhs => rw [← List.take_append_drop i comps, List.drop_eq_getElem_cons hilt, hci]
            have hwp : (⟨pr0, pw, .perm pσ⟩ : Item P).WF ι m := hw _ (by rw [hdec]; simp)
            have hwin : ∀ it ∈ comps.drop (i + 1), it.WF ι m :=
              fun it hit => hw it (List.mem_of_mem_drop hit)
            split at h
            · rename_i l' hun
              have hl := (Option.some.inj h).symm
              subst hl
              rw [unravel_sound ι hm display _ _ pσ _ r0 σ ρ l rfl hwp hwin hσ hfit hvalid hun]
              conv_rhs => rw [hdec]
            · have hl := (Option.some.inj h).symm
              subst hl
              exact keep_sound ι hm comps r0 σ hσ hfit
          · exact absurd h (by simp)
        · exact absurd h (by simp)


/-- **one iteration of `simplify` leaves the matrix unchanged**: whatever the rounding of the drop
test (`wantDrop`) and whatever valid unravelling permutation (`choice`) -/
theorem simplify_step_sound' [CommRing R] [PhaseAlg P] (ι : Interp P R)
    (hadd : ∀ a b : P, ι.e (PhaseAlg.add a b) = ι.e a * ι.e b)
    (hdrop : ∀ a : P, PhaseAlg.canDrop a = true → ι.e a = 1)
    {m : ℕ} (fixedAdj display wantDrop : Bool) (choice : Option (List ℕ))
    (comps : List (Item P)) (it : Item P) (l : List (Item P))
    (hw : ∀ x ∈ comps, x.WF ι m) (hit : it.WF ι m) (hpos : 0 < it.w)
    (h : simplifyStep fixedAdj m display wantDrop choice comps it = some l) :
    listU ι m l = listU ι m (comps ++ [it]) := by
  obtain ⟨r0, w, k⟩ := it
  obtain ⟨hfit, hk⟩ := hit
  simp only at hfit hk hpos
  have hm : 0 < m := by omega
  unfold simplifyStep at h
  cases k with
  | perm σ =>
    simp only at h hk
    obtain ⟨hlen, hp⟩ := hk
    subst hlen
    exact simplify_perm_sound' ι hm fixedAdj display comps r0 σ choice l hw hp hpos hfit h
  | ps φ =>
    simp only at h hk
    subst hk
    have hl := (Option.some.inj h).symm
    subst hl
    exact simplifyPS_sound ι hadd hdrop m display wantDrop comps r0 φ (by omega) hw
  | psVar v =>
    simp only at h
    rw [← Option.some.inj h]
  | other v =>
    simp only at h
    rw [← Option.some.inj h]


end stepsound

end PM.C11
