/-
  C11 — helper lemmas for the list-level part (bubble sort, permutation helpers).
-/
import PercevalModel.Model.C11Lists
import PercevalModel.Lemmas.C11
import Mathlib.Data.List.Perm.Subperm

set_option linter.unusedSimpArgs false
set_option linter.unusedSectionVars false

open Matrix PM
namespace PM.C11
variable {R : Type}

/-- the two-mode swap `PERM([1, 0])` -/
def swap2 [Zero R] [One R] : Matrix (Fin 2) (Fin 2) R := permMatL 2 [1, 0]

/-- product of the emitted swaps, first one applied first -/
def prodSwaps [CommRing R] (n : ℕ) : List ℕ → Matrix (Fin n) (Fin n) R
  | [] => 1
  | k :: rest => prodSwaps n rest * embed n k (swap2 (R := R))

/-- matrix of a position vector: row `pos` has its 1 in column `vec[pos]` -/
def vecMat [Zero R] [One R] (n : ℕ) (vec : List ℕ) : Matrix (Fin n) (Fin n) R :=
  fun i j => if vec.getD i.val n = j.val then 1 else 0

def applySwaps : List ℕ → List ℕ → List ℕ
  | vec, [] => vec
  | vec, k :: rest => applySwaps (swapAdj vec k) rest

theorem swapAdj_getD (vec : List ℕ) (k i d : ℕ) (hk : k + 1 < vec.length) :
    (swapAdj vec k).getD i d =
      if i = k then vec.getD (k + 1) d else if i = k + 1 then vec.getD k d else vec.getD i d := by
  unfold swapAdj
  simp only [List.getD_eq_getElem?_getD, List.getElem?_set]
  have h1 : k < vec.length := by omega
  by_cases e1 : i = k
  · subst e1
    simp [h1, hk, List.getElem?_eq_getElem hk]
  · by_cases e2 : i = k + 1
    · subst e2
      simp [hk, List.getElem?_eq_getElem h1]
    · have e1' : ¬ k = i := fun h => e1 h.symm
      have e2' : ¬ k + 1 = i := fun h => e2 h.symm
      simp [e1, e2, e1', e2']

theorem swapAdj_length (vec : List ℕ) (k : ℕ) : (swapAdj vec k).length = vec.length := by
  simp [swapAdj]

theorem embed_swap_mul_vecMat [CommRing R] {n k : ℕ} (hk : k + 2 ≤ n) (vec : List ℕ)
    (hv : vec.length = n) :
    embed n k (swap2 (R := R)) * vecMat n vec = vecMat n (swapAdj vec k) := by
  ext i j
  rw [Matrix.mul_apply]
  have hkl : k + 1 < vec.length := by omega
  simp only [vecMat, swapAdj_getD vec k i.val n hkl]
  by_cases e1 : i.val = k
  · rw [Finset.sum_eq_single (⟨k + 1, by omega⟩ : Fin n)]
    · rw [embed_apply]
      have h1 : k ≤ i.val ∧ i.val < k + 2 := by omega
      have h2 : k ≤ k + 1 ∧ k + 1 < k + 2 := by omega
      simp [h1, h2, e1, swap2, permMatL]
    · intro l _ hl
      rw [embed_apply]
      have h1 : k ≤ i.val ∧ i.val < k + 2 := by omega
      by_cases h2 : k ≤ l.val ∧ l.val < k + 2
      · have : l.val = k := by
          have : l.val ≠ k + 1 := fun h => hl (Fin.ext h)
          omega
        simp [h1, h2, e1, this, swap2, permMatL]
      · simp [h1, h2]
    · simp
  · by_cases e2 : i.val = k + 1
    · rw [Finset.sum_eq_single (⟨k, by omega⟩ : Fin n)]
      · rw [embed_apply]
        have h1 : k ≤ i.val ∧ i.val < k + 2 := by omega
        have h2 : k ≤ k ∧ k < k + 2 := by omega
        simp [h1, h2, e1, e2, swap2, permMatL]
      · intro l _ hl
        rw [embed_apply]
        have h1 : k ≤ i.val ∧ i.val < k + 2 := by omega
        by_cases h2 : k ≤ l.val ∧ l.val < k + 2
        · have : l.val = k + 1 := by
            have : l.val ≠ k := fun h => hl (Fin.ext h)
            omega
          simp [h1, h2, e2, this, swap2, permMatL]
        · simp [h1, h2]
      · simp
    · rw [Finset.sum_eq_single i]
      · rw [embed_apply]
        have h1 : ¬ (k ≤ i.val ∧ i.val < k + 2) := by omega
        simp [h1, e1, e2]
      · intro l _ hl
        rw [embed_apply]
        have h1 : ¬ (k ≤ i.val ∧ i.val < k + 2) := by omega
        by_cases h2 : k ≤ l.val ∧ l.val < k + 2
        · simp [h1, h2]
        · simp [h1, h2, Ne.symm hl]
      · simp

theorem prodSwaps_mul_vecMat [CommRing R] (n : ℕ) : (swaps : List ℕ) → (vec : List ℕ) →
    vec.length = n → (∀ k ∈ swaps, k + 2 ≤ n) →
    prodSwaps (R := R) n swaps * vecMat n vec = vecMat n (applySwaps vec swaps)
  | [], vec, _, _ => by simp [prodSwaps, applySwaps]
  | k :: rest, vec, hv, hs => by
    have hk : k + 2 ≤ n := hs k (by simp)
    simp only [prodSwaps, applySwaps, Matrix.mul_assoc]
    rw [embed_swap_mul_vecMat hk vec hv]
    exact prodSwaps_mul_vecMat n rest (swapAdj vec k) (by rw [swapAdj_length, hv])
      (fun q hq => hs q (by simp [hq]))

theorem vecMat_range [CommRing R] (n : ℕ) : vecMat (R := R) n (List.range n) = 1 := by
  ext i j
  have : (List.range n).getD i.val n = i.val := by
    simp [List.getD_eq_getElem?_getD, List.getElem?_range i.isLt]
  simp [vecMat, this, Matrix.one_apply, Fin.ext_iff]

theorem bubbleInner_applySwaps (p target : ℕ) : (fuel : ℕ) → (vec : List ℕ) →
    (bubbleInner p target fuel vec).1 = applySwaps vec (bubbleInner p target fuel vec).2
  | 0, vec => by simp [bubbleInner, applySwaps]
  | fuel + 1, vec => by
    unfold bubbleInner
    split
    · simp [applySwaps]
    · simp only [applySwaps]
      exact bubbleInner_applySwaps p target fuel _

theorem applySwaps_append (vec : List ℕ) (a b : List ℕ) :
    applySwaps vec (a ++ b) = applySwaps (applySwaps vec a) b := by
  induction a generalizing vec with
  | nil => simp [applySwaps]
  | cons k r ih => simp [applySwaps, ih]

theorem bubbleOuter_applySwaps (σ : List ℕ) : (ps : List ℕ) → (vec : List ℕ) →
    (bubbleOuter σ ps vec).1 = applySwaps vec (bubbleOuter σ ps vec).2
  | [], vec => by simp [bubbleOuter, applySwaps]
  | p :: ps, vec => by
    simp only [bubbleOuter, applySwaps_append]
    rw [← bubbleInner_applySwaps]
    exact bubbleOuter_applySwaps σ ps _

end PM.C11

namespace PM.C11
variable {R : Type}

theorem isPermList_mem {n : ℕ} {σ : List ℕ} (h : IsPermList n σ) {i : ℕ} (hi : i < n) : i ∈ σ := by
  have hsub : σ ⊆ List.range n := fun x hx => List.mem_range.2 (h.2.2 x hx)
  have hp : σ.Perm (List.range n) :=
    (List.subperm_of_subset h.2.1 hsub).perm_of_length_le (by simp [h.1])
  exact hp.symm.subset (List.mem_range.2 hi)

theorem vecMat_invertPerm [Zero R] [One R] {n : ℕ} {σ : List ℕ} (h : IsPermList n σ) :
    vecMat (R := R) n (invertPerm σ) = permMatL n σ := by
  ext i j
  have hi : i.val < σ.length := by rw [h.1]; exact i.isLt
  have hj : j.val < σ.length := by rw [h.1]; exact j.isLt
  have e1 : (invertPerm σ).getD i.val n = σ.idxOf i.val := by
    simp [invertPerm, List.getD_eq_getElem?_getD, hi]
  have e2 : σ.getD j.val n = σ[j.val] := by
    simp [List.getD_eq_getElem?_getD, hj]
  simp only [vecMat, permMatL, e1, e2]
  have hmem : i.val ∈ σ := isPermList_mem h i.isLt
  have key : σ.idxOf i.val = j.val ↔ σ[j.val] = i.val := by
    constructor
    · intro e
      have hlt : σ.idxOf i.val < σ.length := List.idxOf_lt_length_of_mem hmem
      have := List.getElem_idxOf hlt
      simp only [e] at this
      exact this
    · intro e
      have := h.2.1.idxOf_getElem j.val hj
      rw [e] at this
      exact this
  by_cases c : σ.idxOf i.val = j.val
  · rw [if_pos c, if_pos (key.1 c)]
  · rw [if_neg c, if_neg (fun e => c (key.2 e))]

end PM.C11
