/-
  C18 — helper lemmas for the extension (`Model/C18Ext.lean`): projection of the extended machine onto the
  single-job machine, conversion shapes, the closed loop with a cooperative task.
-/
import PercevalModel.Model.C18Ext
import PercevalModel.Lemmas.C18

namespace PM.C18
open PM.SM

/-! ### the extended machine projects onto the single-job machine -/

theorem xstep_job (fixed : Bool) (cfg : Cfg) (x : XState) (e : XEv) :
    (xstep fixed cfg x e).1.job = exec (step fixed cfg) x.job (eraseX [e]) := by
  cases e with
  | job e => simp [xstep, eraseX, exec_cons, exec_nil]
  | call c => simp [xstep, eraseX, exec_cons, exec_nil]
  | prog p u =>
    simp only [xstep, eraseX, exec_cons, exec_nil]
    split
    · rfl
    · next h => simp [step, h]
  | setName v =>
    simp only [xstep, eraseX, exec_nil]
    split
    · split <;> rfl
    · rfl
  | getName =>
    simp only [xstep, eraseX, exec_nil]
    split <;> rfl

theorem xstep_out (fixed : Bool) (cfg : Cfg) (x : XState) (e : XEv) :
    (baseOut (xstep fixed cfg x e).2).toList = (run (step fixed cfg) x.job (eraseX [e])).2 := by
  cases e with
  | job e => simp [xstep, eraseX, run, baseOut]
  | call c => simp [xstep, eraseX, run, baseOut]
  | prog p u =>
    simp only [xstep, eraseX]
    split
    · simp [run, baseOut]
    · next h => simp [run, baseOut, step, h]
  | setName v =>
    simp only [xstep, eraseX]
    split
    · split <;> simp [run, baseOut]
    · simp [run, baseOut]
  | getName =>
    simp only [xstep, eraseX]
    split <;> simp [run, baseOut]

theorem eraseX_cons (e : XEv) (w : List XEv) : eraseX (e :: w) = eraseX [e] ++ eraseX w := by
  cases e <;> simp [eraseX]

theorem xrun_proj (fixed : Bool) (cfg : Cfg) (w : List XEv) (x : XState) :
    (exec (xstep fixed cfg) x w).job = exec (step fixed cfg) x.job (eraseX w) ∧
    (run (xstep fixed cfg) x w).2.filterMap baseOut = (run (step fixed cfg) x.job (eraseX w)).2 := by
  induction w generalizing x with
  | nil => simp [exec, run, eraseX]
  | cons e w ih =>
    obtain ⟨h1, h2⟩ := ih (xstep fixed cfg x e).1
    rw [eraseX_cons, exec_cons, exec_append, run_append_snd, run_cons]
    refine ⟨by rw [h1, xstep_job], ?_⟩
    rw [← xstep_out, List.filterMap_cons]
    have hx := xstep_job fixed cfg x e
    cases hb : baseOut (xstep fixed cfg x e).2 with
    | none => simp [h2, hx]
    | some o => simp [h2, hx]

/-! ### the closed loop with a cooperative task -/

/-- a step of the closed loop is no step, or one step of the single-job machine -/
theorem cstep_job (fixed : Bool) (cfg : Cfg) (pr : Prog) (c : CState) (e : CEv) :
    ((cstep fixed cfg pr c e).1.job = c.job ∧ (cstep fixed cfg pr c e).2 = .disabled) ∨
    ∃ ev, (cstep fixed cfg pr c e).1.job = (step fixed cfg c.job ev).1 ∧
      (cstep fixed cfg pr c e).2 = (step fixed cfg c.job ev).2 := by
  cases e with
  | caller e =>
    simp only [cstep]
    split
    · exact .inr ⟨e, rfl, rfl⟩
    · exact .inl ⟨rfl, rfl⟩
  | tick u =>
    simp only [cstep]
    split
    · exact .inl ⟨rfl, rfl⟩
    · next p _ => exact .inr ⟨.tProgress p, rfl, rfl⟩
    · next ev _ _ => exact .inr ⟨ev, rfl, rfl⟩

theorem cstep_mapInv (fixed : Bool) (cfg : Cfg) (pr : Prog) (c : CState) (e : CEv) (h : MapInv cfg c.job) :
    MapInv cfg (cstep fixed cfg pr c e).1.job := by
  rcases cstep_job fixed cfg pr c e with ⟨h1, _⟩ | ⟨ev, h1, _⟩
  · rw [h1]; exact h
  · rw [h1]; exact mapInv_step fixed cfg c.job ev h

/-- every closed-loop history is a history of the single-job machine -/
theorem creach (fixed : Bool) (cfg : Cfg) (pr : Prog) (W : List CEv) :
    ∀ c : CState, (∃ w, c.job = after fixed cfg w) →
      ∃ w, (exec (cstep fixed cfg pr) c W).job = after fixed cfg w := by
  induction W with
  | nil => intro c h; exact h
  | cons e W ih =>
    intro c ⟨w, hw⟩
    rw [exec_cons]
    apply ih
    rcases cstep_job fixed cfg pr c e with ⟨h1, _⟩ | ⟨ev, h1, _⟩
    · exact ⟨w, by rw [h1, hw]⟩
    · refine ⟨w ++ [ev], ?_⟩
      rw [h1, hw]
      unfold after
      rw [exec_append, exec_cons, exec_nil]

/-- a caller action never reports the end of the task -/
theorem caller_not_finished (fixed : Bool) (cfg : Cfg) (s : State) (e : Ev) (hc : isCaller e = true)
    (hs : s.status ≠ .waiting) : ∀ r, (step fixed cfg s e).2 ≠ .finished r := by
  intro r
  cases e with
  | execSync c =>
    simp only [step]; split
    · rw [notePending_snd]; simp [execEntry, hs]
    · simp
  | execAsync c =>
    simp only [step]; split
    · rw [notePending_snd]; simp [execEntry, hs]
    · simp
  | statusQuery =>
    simp only [step]; split
    · rw [notePending_snd]; unfold actStatus; split <;> simp
    · simp
  | cancel => simp only [step]; split <;> simp
  | getResults =>
    simp only [step]; split
    · rw [notePending_snd, actGet_eq]; split <;> simp
    · simp
  | _ => simp [isCaller] at hc

theorem caller_keeps_active (fixed : Bool) (cfg : Cfg) (s : State) (e : Ev) (h : Inv s)
    (hc : isCaller e = true) (ha : s.phase = .active) : (step fixed cfg s e).1.phase = .active := by
  have hs : s.status ≠ .waiting := by rw [h.running_of_active ha]; simp
  rcases phase_step fixed cfg s e h with ⟨h1, _⟩ | ⟨h1, _⟩ | ⟨h1, _⟩ | ⟨_, _, r, hr⟩
  · rw [h1]; exact ha
  · rw [ha] at h1; cases h1
  · rw [ha] at h1; cases h1
  · exact absurd hr (caller_not_finished fixed cfg s e hc hs r)

/-- the task has ended, cancelled or failed -/
def CFin (c : CState) : Prop := c.job.phase = .done ∧ (c.job.status = .canceled ∨ c.job.status = .error)

theorem cfin_exec (fixed : Bool) (cfg : Cfg) (pr : Prog) (W : List CEv) :
    ∀ c : CState, Inv c.job → CFin c → CFin (exec (cstep fixed cfg pr) c W) := by
  induction W with
  | nil => intro c _ h; exact h
  | cons e W ih =>
    intro c hi hf
    rw [exec_cons]
    rcases cstep_job fixed cfg pr c e with ⟨h1, _⟩ | ⟨ev, h1, _⟩
    · exact ih _ (by rw [h1]; exact hi) ⟨by rw [h1]; exact hf.1, by rw [h1]; exact hf.2⟩
    · have hfs : FinalSt c.job.status c.job.msg c.job := ⟨hf.1, rfl, rfl⟩
      have := finalSt_step fixed cfg c.job ev hi hfs
      exact ih _ (by rw [h1]; exact inv_step fixed cfg c.job ev hi)
        ⟨by rw [h1]; exact this.1, by rw [h1, this.2.1]; exact hf.2⟩

/-- how many steps of the task a cancel request needs at most -/
def need (c : CState) : Nat :=
  match c.seen, c.todo with
  | .go, _ :: _ => 2
  | _, _ => 1

theorem jobReply_cancel (s : State) (u : Reply) (h : s.cancelReq = true) :
    cancelRequested (jobReply s u) = some true := by
  simp [jobReply, h, cancelRequested]

theorem verdict_stop (p : Policy) (hp : p ≠ .ignore) : verdictOf p (some true) = .stop := by
  cases p <;> simp_all [verdictOf]

/-- the step of the task that ends it -/
theorem tick_ends (fixed : Bool) (cfg : Cfg) (pr : Prog) (c : CState) (u : Reply) (hi : MapInv cfg c.job)
    (ha : c.job.phase = .active) (hq : c.job.cancelReq = true) (hn : need c = 1) :
    CFin (cstep fixed cfg pr c (.tick u)).1 := by
  have hmap := hi.2 (by rw [ha]; simp)
  have key := final_truthful_state fixed cfg c.job hi.1 hmap ha []
  simp only [exec_nil] at key
  have hret : ∀ r, CFin { c with job := (step fixed cfg c.job (.tReturn r)).1 } := by
    intro r
    obtain ⟨a, b, _⟩ := key.1 r
    exact ⟨a, .inl (by rw [b, hq]; rfl)⟩
  have hraise : ∀ cl m, CFin { c with job := (step fixed cfg c.job (.tRaise cl m)).1 } := by
    intro cl m
    obtain ⟨a, b, _⟩ := key.2 cl m
    exact ⟨a, .inr b⟩
  unfold need at hn
  simp only [cstep, nextTaskEv, ha]
  cases hs : c.seen with
  | crash => simp only []; exact hraise _ _
  | stop =>
    simp only []
    cases pr.policy with
    | stop => simp only []; exact hret _
    | raise => simp only []; exact hraise _ _
    | ignore => simp only []; exact hraise _ _
  | go =>
    cases ht : c.todo with
    | nil => simp only []; exact hret _
    | cons p t => rw [hs, ht] at hn; simp at hn

/-- a progress report after a cancel request: the task sees the request -/
theorem tick_progress (fixed : Bool) (cfg : Cfg) (pr : Prog) (c : CState) (u : Reply)
    (ha : c.job.phase = .active) (hq : c.job.cancelReq = true) (hp : pr.policy ≠ .ignore)
    (p : Nat) (t : List Nat) (hs : c.seen = .go) (ht : c.todo = p :: t) :
    (cstep fixed cfg pr c (.tick u)).1 =
      { job := (step fixed cfg c.job (.tProgress p)).1, todo := t, seen := .stop } ∧
    (step fixed cfg c.job (.tProgress p)).1.phase = .active ∧
    (step fixed cfg c.job (.tProgress p)).1.cancelReq = true := by
  refine ⟨?_, ?_, ?_⟩
  · simp only [cstep, nextTaskEv, ha, hs, ht, List.tail_cons, jobReply_cancel _ u hq, verdict_stop _ hp]
  · simp [step, ha, taskProgress, hq]
  · simp [step, ha, taskProgress, hq]

theorem coop_end (fixed : Bool) (cfg : Cfg) (pr : Prog) (hp : pr.policy ≠ .ignore) (W : List CEv) :
    ∀ c : CState, MapInv cfg c.job → c.job.phase = .active → c.job.cancelReq = true → need c ≤ ticks W →
      CFin (exec (cstep fixed cfg pr) c W) := by
  induction W with
  | nil =>
    intro c _ _ _ hn
    unfold need at hn
    simp only [ticks] at hn
    split at hn <;> omega
  | cons e W ih =>
    intro c hi ha hq hn
    rw [exec_cons]
    cases e with
    | caller e =>
      simp only [ticks] at hn
      by_cases hc : isCaller e = true
      · have h1 : (cstep fixed cfg pr c (.caller e)).1 = { c with job := (step fixed cfg c.job e).1 } := by
          simp [cstep, hc]
        rw [h1]
        exact ih _ (mapInv_step fixed cfg c.job e hi) (caller_keeps_active fixed cfg c.job e hi.1 hc ha)
          ((step_frame fixed cfg c.job e hi.1).2.1.mpr (.inl hq)) hn
      · have h1 : (cstep fixed cfg pr c (.caller e)).1 = c := by simp [cstep, hc]
        rw [h1]
        exact ih c hi ha hq hn
    | tick u =>
      simp only [ticks] at hn
      by_cases h1 : need c = 1
      · exact cfin_exec fixed cfg pr W _ (cstep_mapInv fixed cfg pr c _ hi).1
          (tick_ends fixed cfg pr c u hi ha hq h1)
      · have : ∃ p t, c.seen = .go ∧ c.todo = p :: t := by
          unfold need at h1
          split at h1
          · next p t hs ht => exact ⟨_, _, hs, ht⟩
          · exact absurd rfl h1
        obtain ⟨p, t, hs, ht⟩ := this
        obtain ⟨e1, e2, e3⟩ := tick_progress fixed cfg pr c u ha hq hp p t hs ht
        rw [e1]
        refine ih _ (mapInv_step fixed cfg c.job _ hi) e2 e3 ?_
        have hn2 : need c = 2 := by unfold need; rw [hs, ht]
        have : need { job := (step fixed cfg c.job (.tProgress p)).1, todo := t, seen := Verdict.stop } = 1 := by
          unfold need; rfl
        omega

/-! ### the first execute call on a fresh job -/

/-- what the first execute call on a freshly constructed job and the entry of the task answer, from what
`_handle_params` makes of the call -/
theorem fresh_call_outs (fixed : Bool) (cfg : Cfg) (c : Call) (async : Bool) (cmd map : Dict) (ex : Option Exc)
    (hp : handleParams cfg.paramNames cfg.command0 cfg.mapping0 c = (cmd, map, ex)) :
    outs fixed cfg [if async then Ev.execAsync c else Ev.execSync c, .tStart] =
      match ex with
      | none => [.accepted, .started cmd]
      | some x => [.exc x, .disabled] := by
  cases ex <;> cases async <;>
    simp [outs, run, step, callerEnabled, init, notePending, execEntry, hp, taskStart]

/-! ### histories without a cancel request -/

theorem execEntry_out (cfg : Cfg) (s : State) (c : Call) (a : Bool) :
    (execEntry cfg s c a).2 = .accepted ∨ ∃ e, (execEntry cfg s c a).2 = .exc e := by
  by_cases hw : s.status = .waiting
  · rcases hh : handleParams cfg.paramNames s.command s.mapping c with ⟨cmd, map, ex⟩
    cases ex <;> cases a <;> simp [execEntry, hw, hh]
  · exact .inr ⟨.assertion, by simp [execEntry, hw]⟩

/-- only `cancel()` answers "done" -/
theorem only_cancel_answers_done (fixed : Bool) (cfg : Cfg) (s : State) (e : Ev) (he : e ≠ .cancel) :
    (step fixed cfg s e).2 ≠ .done := by
  cases e with
  | execSync c =>
    simp only [step]; split
    · rw [notePending_snd]; rcases execEntry_out cfg s c false with h | ⟨x, h⟩ <;> rw [h] <;> simp
    · simp
  | execAsync c =>
    simp only [step]; split
    · rw [notePending_snd]; rcases execEntry_out cfg s c true with h | ⟨x, h⟩ <;> rw [h] <;> simp
    · simp
  | statusQuery =>
    simp only [step]; split
    · rw [notePending_snd]; unfold actStatus; split <;> simp
    · simp
  | cancel => exact absurd rfl he
  | getResults =>
    simp only [step]; split
    · rw [notePending_snd, actGet_eq]; split <;> simp
    · simp
  | tStart => simp only [step]; split <;> simp [taskStart]
  | tProgress p =>
    simp only [step]; split
    · unfold taskProgress; simp only; split
      · simp
      · split <;> simp
    · simp
  | tReturn r =>
    simp only [step]; split
    · unfold taskReturn; obtain ⟨x, hx⟩ := finish_snd fixed (if ({ s with results := r } : State).cancelReq = true then stopRun { s with results := r } .canceled .canceled else stopRun { s with results := r } .success .none); rw [hx]; simp
    · simp
  | tRaise c m =>
    simp only [step]; split
    · unfold taskRaise; obtain ⟨x, hx⟩ := finish_snd fixed (stopRun s .error (.task c m)); rw [hx]; simp
    · simp
  | tPropagate =>
    simp only [step]; split
    · split
      · unfold taskRaise; next e _ => obtain ⟨x, hx⟩ := finish_snd fixed (stopRun s .error (.caller e)); rw [hx]; simp
      · simp
    · simp

theorem caller_done_only_from_done (fixed : Bool) (cfg : Cfg) (s : State) (e : Ev) (h : Inv s)
    (hc : isCaller e = true) (hd : (step fixed cfg s e).1.phase = .done) : s.phase = .done := by
  rcases phase_step fixed cfg s e h with ⟨h1, _⟩ | ⟨_, _, h1, _⟩ | ⟨_, _, h1⟩ | ⟨ha, _, r, hr⟩
  · rw [← h1]; exact hd
  · rw [h1] at hd; cases hd
  · rw [h1] at hd; cases hd
  · have hs : s.status ≠ .waiting := by rw [h.running_of_active ha]; simp
    exact absurd hr (caller_not_finished fixed cfg s e hc hs r)

theorem check_cancel_spec' (s : State) (u : Reply) :
    cancelRequested (jobReply s u) =
      if s.cancelReq then some true
      else if s.userCb.isSome then cancelRequested u else some false := by
  unfold jobReply
  cases s.cancelReq <;> cases s.userCb <;> simp [cancelRequested]

/-- an event of the closed loop that neither is a `cancel()` nor a progress report whose user callback asks for a
stop (or returns something `cancel_requested` cannot read) -/
def quietEv : CEv → Bool
  | .caller .cancel => false
  | .caller _ => true
  | .tick u => cancelRequested u == some false

/-- what holds along a history without cancel request -/
def Quiet (cfg : Cfg) (pr : Prog) (c : CState) : Prop :=
  MapInv cfg c.job ∧ c.seen = .go ∧ c.job.cancelReq = false ∧
    (c.job.phase = .done → c.job.status = .success ∧ Holds cfg pr.result c.job ∧ c.todo = [])

theorem verdict_go (p : Policy) : verdictOf p (some false) = .go := by cases p <;> rfl

theorem quiet_step (fixed : Bool) (cfg : Cfg) (pr : Prog) (c : CState) (e : CEv) (hq : quietEv e = true)
    (h : Quiet cfg pr c) : Quiet cfg pr (cstep fixed cfg pr c e).1 := by
  obtain ⟨hi, hs, hc, hd⟩ := h
  have frame : ∀ ev, ev ≠ Ev.cancel → (step fixed cfg c.job ev).1.cancelReq = false := by
    intro ev hne
    cases hx : (step fixed cfg c.job ev).1.cancelReq with
    | false => rfl
    | true =>
      rcases (step_frame fixed cfg c.job ev hi.1).2.1.mp hx with h1 | h1
      · rw [hc] at h1; cases h1
      · exact absurd h1 (only_cancel_answers_done fixed cfg c.job ev hne)
  have after_done : ∀ ev, c.job.phase = .done →
      (step fixed cfg c.job ev).1.status = .success ∧ Holds cfg pr.result (step fixed cfg c.job ev).1 := by
    intro ev hdone
    obtain ⟨a, b, _⟩ := hd hdone
    have hf := finalSt_step fixed cfg c.job ev hi.1 (st := .success) (m := c.job.msg) ⟨hdone, a, rfl⟩
    exact ⟨hf.2.1, holds_step fixed cfg c.job ev hi.1 hdone b⟩
  cases e with
  | caller ev =>
    by_cases hcl : isCaller ev = true
    · have hne : ev ≠ .cancel := by intro h; subst h; simp [quietEv] at hq
      have h1 : (cstep fixed cfg pr c (.caller ev)).1 = { c with job := (step fixed cfg c.job ev).1 } := by
        simp [cstep, hcl]
      rw [h1]
      refine ⟨mapInv_step fixed cfg c.job ev hi, hs, frame ev hne, fun hdn => ?_⟩
      have hdone := caller_done_only_from_done fixed cfg c.job ev hi.1 hcl hdn
      exact ⟨(after_done ev hdone).1, (after_done ev hdone).2, (hd hdone).2.2⟩
    · have h1 : (cstep fixed cfg pr c (.caller ev)).1 = c := by simp [cstep, hcl]
      rw [h1]; exact ⟨hi, hs, hc, hd⟩
  | tick u =>
    have hu : cancelRequested u = some false := by simpa [quietEv] using hq
    cases hp : c.job.phase with
    | idle => simp only [cstep, nextTaskEv, hp]; exact ⟨hi, hs, hc, hd⟩
    | done => simp only [cstep, nextTaskEv, hp]; exact ⟨hi, hs, hc, hd⟩
    | ready =>
      simp only [cstep, nextTaskEv, hp]
      refine ⟨mapInv_step fixed cfg c.job .tStart hi, hs, frame _ (by simp), fun hdn => ?_⟩
      simp [step, hp, taskStart] at hdn
    | active =>
      cases ht : c.todo with
      | cons p t =>
        simp only [cstep, nextTaskEv, hp, hs, ht]
        refine ⟨mapInv_step fixed cfg c.job _ hi, ?_, frame _ (by simp), fun hdn => ?_⟩
        · have : cancelRequested (jobReply c.job u) = some false := by
            rw [check_cancel_spec', hc]; simp; intro _; exact hu
          rw [this]; exact verdict_go _
        · simp [step, hp, taskProgress] at hdn
          split at hdn <;> (try split at hdn) <;> simp at hdn
      | nil =>
        simp only [cstep, nextTaskEv, hp, hs, ht]
        have hmap := hi.2 (by rw [hp]; simp)
        have key := (final_truthful_state fixed cfg c.job hi.1 hmap hp []).1 pr.result
        simp only [exec_nil, hc] at key
        exact ⟨mapInv_step fixed cfg c.job _ hi, rfl, frame _ (by simp), fun _ => ⟨key.2.1, key.2.2.2, rfl⟩⟩

theorem quiet_exec (fixed : Bool) (cfg : Cfg) (pr : Prog) (W : List CEv) :
    ∀ c : CState, (∀ e ∈ W, quietEv e = true) → Quiet cfg pr c → Quiet cfg pr (exec (cstep fixed cfg pr) c W) := by
  induction W with
  | nil => intro c _ h; exact h
  | cons e W ih =>
    intro c hq h
    rw [exec_cons]
    exact ih _ (fun e' he' => hq e' (List.mem_cons_of_mem _ he')) (quiet_step fixed cfg pr c e (hq e (List.mem_cons_self ..)) h)

end PM.C18
