/-
  C06 — lemmas about the `Source` object state machine (`Model/C06Src.lean`).
-/
import PercevalModel.Model.C06Src
import PercevalModel.Lemmas.C06Fresh
import PercevalModel.Lemmas.C06Route

namespace PM.C06

theorem coherent_init (P : Params) (t : ℕ) : Src.Coherent P (Src.initT t) := by
  intro tb n f h
  simp [Src.initT] at h

theorem coherent_store (P : Params) (s : Src) (n f : ℕ) (hc : computeFails P n f = false) :
    Src.Coherent P { s with tab := some (table P n f, n, f) } := by
  intro tb n' f' e
  simp only [Option.some.injEq, Prod.mk.injEq] at e
  obtain ⟨rfl, rfl, rfl⟩ := e
  exact ⟨rfl, hc⟩

theorem coherent_step (P : Params) (s : Src) (h : s.Coherent P) (o : SrcOp) :
    (srcStep P s o).1.Coherent P := by
  cases o with
  | cacheTable n f =>
    simp only [srcStep]
    by_cases hc : computeFails P n f = true
    · simp only [hc, if_true]; exact h
    · simp only [hc, Bool.false_eq_true, if_false]
      exact coherent_store P s n f (by simpa using hc)
  | samples ns f =>
    simp only [srcStep]
    by_cases h1 : isPerfect P = true
    · simp only [h1, if_true]; exact h
    simp only [h1, Bool.false_eq_true, if_false]
    by_cases h2 : f = 0
    · simp only [h2, if_true]; exact h
    simp only [h2, if_false]
    by_cases h3 : P.beta * P.eta = 0
    · simp only [h3, if_true]; exact h
    simp only [h3, if_false]
    by_cases h4 : cacheMiss s ns.sum f = true
    · simp only [h4, if_true]
      by_cases hc : computeFails P ns.sum f = true
      · simp only [hc, if_true]; exact h
      · simp only [hc, Bool.false_eq_true, if_false]
        exact coherent_store P s ns.sum f (by simpa using hc)
    · simp only [h4, Bool.false_eq_true, if_false]; exact h
  | dist ns => exact h
  | probDist n => exact h

theorem coherent_foldl (P : Params) (ops : List SrcOp) (s : Src) (h : s.Coherent P) :
    (ops.foldl (fun s o => (srcStep P s o).1) s).Coherent P := by
  induction ops generalizing s with
  | nil => exact h
  | cons o ops ih => exact ih _ (coherent_step P s h o)

theorem coherent_after (P : Params) (t : ℕ) (ops : List SrcOp) : (srcAfter P t ops).Coherent P :=
  coherent_foldl P ops _ (coherent_init P t)

theorem useTable_store (P : Params) (s : Src) (n f : ℕ) :
    useTable { s with tab := some (table P n f, n, f) } =
      if (table P n f).isEmpty then .noEvent else .events (table P n f) := by
  simp [useTable]

/-- on a coherent object the request decides alone what `generate_samples` does -/
theorem samples_step_eq_fresh (P : Params) (s : Src) (h : s.Coherent P) (ns : List ℕ) (f : ℕ) :
    (srcStep P s (.samples ns f)).2 = samplesFresh P ns f := by
  simp only [srcStep, samplesFresh]
  by_cases h1 : isPerfect P = true
  · simp only [h1, if_true]
  simp only [h1, Bool.false_eq_true, if_false]
  by_cases h2 : f = 0
  · simp only [h2, if_true]
  simp only [h2, if_false]
  by_cases h3 : P.beta * P.eta = 0
  · simp only [h3, if_true]
  simp only [h3, if_false]
  by_cases h4 : cacheMiss s ns.sum f = true
  · simp only [h4, if_true]
    by_cases hc : computeFails P ns.sum f = true
    · simp only [hc, if_true]
    · simp only [hc, Bool.false_eq_true, if_false]
      exact useTable_store P s ns.sum f
  · simp only [h4, Bool.false_eq_true, if_false]
    -- a hit: the cache holds an entry filed under this very key
    rcases hs : s.tab with _ | ⟨tb, n', f'⟩
    · simp [cacheMiss, hs] at h4
    · have hk : ns.sum = n' ∧ f = f' := by
        simp only [cacheMiss, hs, Bool.or_eq_true, decide_eq_true_eq, not_or, not_not] at h4
        exact h4
      obtain ⟨rfl, rfl⟩ := hk
      obtain ⟨rfl, hc⟩ := h tb _ _ hs
      simp only [useTable, hs, hc, Bool.false_eq_true, if_false]

theorem le_genTagPd (P : Params) (ns : List ℕ) (t : ℕ) : t ≤ nfTag.genTagPd P ns t := by
  induction ns generalizing t with
  | nil => exact Nat.le_refl t
  | cons n ns ih => exact Nat.le_trans (le_tagAfter P n t) (ih _)

theorem le_nfTag (P : Params) (ns : List ℕ) (t : ℕ) : t ≤ nfTag P ns t := by
  unfold nfTag
  split
  · exact le_genTagPd P ns t
  · exact le_nextTag P t

theorem le_tagAfterGen (P : Params) (ns : List ℕ) (t : ℕ) : t ≤ tagAfterGen P ns t := by
  induction ns generalizing t with
  | nil => exact Nat.le_refl t
  | cons n ns ih => exact Nat.le_trans (le_probDistTag P n t) (ih _)

theorem tag_le_step (P : Params) (s : Src) (o : SrcOp) : s.tag ≤ (srcStep P s o).1.tag := by
  cases o with
  | cacheTable n f =>
    simp only [srcStep]
    split <;> exact Nat.le_refl _
  | samples ns f =>
    simp only [srcStep]
    by_cases h1 : isPerfect P = true
    · simp only [h1, if_true]; exact Nat.le_refl _
    simp only [h1, Bool.false_eq_true, if_false]
    by_cases h2 : f = 0
    · simp only [h2, if_true]; exact le_nfTag P ns s.tag
    simp only [h2, if_false]
    split
    · exact Nat.le_refl _
    · split
      · split <;> exact Nat.le_refl _
      · exact Nat.le_refl _
  | dist ns => exact le_tagAfterGen P ns s.tag
  | probDist n => exact le_probDistTag P n s.tag

theorem samples_filtered_tag (P : Params) (s : Src) (ns : List ℕ) (f : ℕ) (hf : f ≠ 0) :
    (srcStep P s (.samples ns f)).1.tag = s.tag := by
  simp only [srcStep, hf, if_false]
  split
  · rfl
  · split
    · rfl
    · split
      · split <;> rfl
      · rfl

theorem srcAfter_snoc (P : Params) (t : ℕ) (ops : List SrcOp) (o : SrcOp) :
    srcAfter P t (ops ++ [o]) = (srcStep P (srcAfter P t ops) o).1 := by
  simp [srcAfter, List.foldl_append]

theorem tag_le_foldl (P : Params) (ops : List SrcOp) (s : Src) :
    s.tag ≤ (ops.foldl (fun s o => (srcStep P s o).1) s).tag := by
  induction ops generalizing s with
  | nil => exact Nat.le_refl _
  | cons o ops ih => exact Nat.le_trans (tag_le_step P s o) (ih _)

/-- the division in `_compute_prob_table` is safe for every source that can deliver a photon at all -/
theorem computeFails_false_of_WF {P : Params} (hP : P.WF) (n f : ℕ) (h : P.beta * P.eta ≠ 0) :
    computeFails P n f = false := by
  by_cases he : tableRaw P n f = []
  · simp [computeFails, he]
  · have hpos := physPerf_pos_of_table_ne_nil hP n f (right_ne_zero_of_mul h) he
    simp [computeFails, hpos.ne']

theorem samplesFresh_eq_route {P : Params} (hP : P.WF) (ns : List ℕ) (f : ℕ) :
    samplesFresh P ns f = routeOut P ns.sum f (sampRoute P ns.sum f) := by
  simp only [samplesFresh, sampRoute]
  by_cases h1 : isPerfect P = true
  · simp only [h1, if_true, routeOut]
  simp only [h1, Bool.false_eq_true, if_false]
  by_cases h2 : f = 0
  · simp only [h2, if_true, routeOut]
  simp only [h2, if_false]
  by_cases h3 : P.beta * P.eta = 0
  · simp only [h3, if_true, routeOut]
  simp only [h3, if_false, computeFails_false_of_WF hP ns.sum f h3, Bool.false_eq_true]
  by_cases h4 : (table P ns.sum f).isEmpty = true
  · simp only [h4, if_true, routeOut]
  · simp only [h4, Bool.false_eq_true, if_false, routeOut]

theorem tag_le_after (P : Params) (t : ℕ) (ops : List SrcOp) : t ≤ (srcAfter P t ops).tag :=
  tag_le_foldl P ops (Src.initT t)

end PM.C06
