/-
  C08 — `post_select_distribution` on the detector readings (`Model/C08Glue.lean`: `postSelect`, `probsSvd`).

  * `postSelectLoop_shape` / `postSelect_eq`: on a dictionary (no repeated key) of states of one length the loop
    with `result[state] = prob` never overwrites: its result IS the list of the accepted entries, re-keyed by
    `reportState`, and `logical_perf = 1 - (mass of the rejected entries)`;
  * `reportState_inj`: two accepted states of the same length with the same reported state are equal (the
    removed modes hold the heralded values in both);
  * `simulate_keysLen`: every key `simulate_detectors` returns has one reading per detector;
  * `postSelect_core`: the two facts the property theorems need.
-/
import PercevalModel.Lemmas.C08
import PercevalModel.Lemmas.C08Heralds
import PercevalModel.Model.C08Glue

set_option linter.unusedSectionVars false

namespace PM.C08

open PM.SimSpec (PS)

variable {K : Type} [Field K] [LinearOrder K]

/-! ### generic dictionary facts -/
section generic
variable {σ : Type} [DecidableEq σ]

theorem setKey_of_not_mem (a : Dist σ K) (k : σ) (p : K) (h : k ∉ keys a) :
    setKey a k p = a ++ [(k, p)] := by
  induction a with
  | nil => rfl
  | cons e a ih =>
    obtain ⟨k', v⟩ := e
    simp only [keys, List.map_cons, List.mem_cons, not_or] at h
    have h1 : ¬ k' = k := fun e' => h.1 e'.symm
    simp only [setKey, if_neg h1, List.cons_append]
    rw [ih h.2]

theorem keys_append (a b : Dist σ K) : keys (a ++ b) = keys a ++ keys b := by simp [keys]

theorem prob_map_key (f : σ → σ) (d : Dist σ K) (t : σ) (hinj : ∀ e ∈ d, f e.1 = f t → e.1 = t) :
    prob (d.map fun e => (f e.1, e.2)) (f t) = prob d t := by
  induction d with
  | nil => rfl
  | cons e d ih =>
    simp only [List.map_cons, prob]
    by_cases h : e.1 = t
    · rw [if_pos h, if_pos (by rw [h])]
    · have : ¬ f e.1 = f t := fun h' => h (hinj e (by simp) h')
      rw [if_neg h, if_neg this]
      exact ih (fun e' he' => hinj e' (by simp [he']))

theorem prob_filter (P : σ → Bool) (d : Dist σ K) (t : σ) :
    prob (d.filter fun e => P e.1) t = if P t then prob d t else 0 := by
  induction d with
  | nil => simp [prob]
  | cons e d ih =>
    by_cases hp : P e.1 = true
    · rw [List.filter_cons_of_pos (by simpa using hp)]
      simp only [prob]
      by_cases h : e.1 = t
      · subst h; simp [hp]
      · simp only [h, if_false]; exact ih
    · rw [List.filter_cons_of_neg (by simpa using hp)]
      simp only [prob]
      by_cases h : e.1 = t
      · subst h
        rw [ih]; simp [hp]
      · simp only [h, if_false]; exact ih

theorem prob_map_div (c : K) (d : Dist σ K) (t : σ) :
    prob (d.map fun e => (e.1, e.2 / c)) t = prob d t / c := by
  induction d with
  | nil => simp [prob]
  | cons e d ih =>
    simp only [List.map_cons, prob]
    by_cases h : e.1 = t
    · simp [h]
    · simp only [h, if_false]; exact ih

theorem prob_normalize (d : Dist σ K) (t : σ) (hm : mass d ≠ 0) :
    prob (normalize d) t = prob d t / mass d := by
  unfold normalize
  rw [if_neg hm, prob_map_div]

theorem mass_map_key {τ : Type} (f : σ → τ) (d : Dist σ K) :
    mass (d.map fun e => (f e.1, e.2)) = mass d := by
  induction d with
  | nil => rfl
  | cons e d ih => simp only [List.map_cons, mass_cons, ih]

theorem mass_filter_add (P : σ → Bool) (d : Dist σ K) :
    mass (d.filter fun e => P e.1) + mass (d.filter fun e => !P e.1) = mass d := by
  induction d with
  | nil => simp
  | cons e d ih =>
    by_cases hp : P e.1 = true
    · rw [List.filter_cons_of_pos (by simpa using hp), List.filter_cons_of_neg (by simp [hp])]
      simp only [mass_cons]; linear_combination ih
    · rw [List.filter_cons_of_neg (by simpa using hp), List.filter_cons_of_pos (by simpa using hp)]
      simp only [mass_cons]; linear_combination ih

theorem normalize_of_mass_one (d : Dist σ K) (h : mass d = 1) : normalize d = d := by
  unfold normalize
  rw [if_neg (by rw [h]; exact one_ne_zero), h]
  induction d with
  | nil => rfl
  | cons e d ih => simp

theorem keys_filter_nodup (P : σ × K → Bool) (d : Dist σ K) (h : (keys d).Nodup) :
    (keys (d.filter P)).Nodup := by
  unfold keys at *
  exact (List.Nodup.sublist (List.Sublist.map _ List.filter_sublist) h)

end generic

/-! ### all keys have one length -/

/-- every recorded state has `n` modes -/
def KeysLen (d : Dist (List ℕ) K) (n : ℕ) : Prop := ∀ e ∈ d, e.1.length = n

theorem KeysLen.bump {d : Dist (List ℕ) K} {n : ℕ} (h : KeysLen d n) {k : List ℕ} (hk : k.length = n)
    (p : K) : KeysLen (bump d k p) n := by
  induction d with
  | nil => intro e he; simp [PM.C08.bump] at he; rw [he]; exact hk
  | cons e' d ih =>
    obtain ⟨k', v⟩ := e'
    intro e he
    simp only [PM.C08.bump] at he
    split at he
    · rcases List.mem_cons.mp he with rfl | he
      · exact h (k', v) (by simp)
      · exact h e (List.mem_cons_of_mem _ he)
    · rcases List.mem_cons.mp he with rfl | he
      · exact h (k', v) (by simp)
      · exact ih (fun x hx => h x (List.mem_cons_of_mem _ hx)) e he

theorem KeysLen.addP {d : Dist (List ℕ) K} {n : ℕ} (h : KeysLen d n) {k : List ℕ} (hk : k.length = n)
    (minP p : K) : KeysLen (addP minP d k p) n := by
  unfold PM.C08.addP
  split
  · exact h.bump hk p
  · exact h

theorem KeysLen.normalize {d : Dist (List ℕ) K} {n : ℕ} (h : KeysLen d n) : KeysLen (normalize d) n := by
  intro e he
  unfold PM.C08.normalize at he
  split at he
  · exact h e he
  · obtain ⟨e', he', rfl⟩ := List.mem_map.mp he
    exact h e' he'

theorem KeysLen.filter {d : Dist (List ℕ) K} {n : ℕ} (h : KeysLen d n) (P : List ℕ × K → Bool) :
    KeysLen (d.filter P) n := fun e he => h e (List.mem_of_mem_filter he)

theorem innerTensor_keysLen (n : ℕ) : ∀ (rest : List (Dist ℕ K)) (cur : List ℕ) (p : K)
    (res : Dist (List ℕ) K), cur.length + rest.length = n → KeysLen res n →
    KeysLen (innerTensor rest cur p res) n
  | [], cur, p, res, hc, hr => by
    simp only [innerTensor]
    exact hr.bump (by simpa using hc) p
  | d :: rest, cur, p, res, hc, hr => by
    simp only [innerTensor]
    have : ∀ (l : Dist ℕ K) (acc : Dist (List ℕ) K), KeysLen acc n →
        KeysLen (l.foldl (fun acc e =>
          if p * e.2 < 0 then acc else innerTensor rest (cur ++ [e.1]) (p * e.2) acc) acc) n := by
      intro l
      induction l with
      | nil => intro acc ha; exact ha
      | cons e l ih =>
        intro acc ha
        simp only [List.foldl_cons]
        apply ih
        split
        · exact ha
        · exact innerTensor_keysLen n rest (cur ++ [e.1]) (p * e.2) acc
            (by simp only [List.length_append, List.length_cons, List.length_nil] at hc ⊢; omega) ha
    exact this d res hr

theorem listTensor_keysLen (ds : List (Dist ℕ K)) : KeysLen (listTensor ds) ds.length := by
  match ds with
  | [] => intro e he; simp [listTensor] at he
  | [d] =>
    intro e he
    simp only [listTensor, List.mem_map] at he
    obtain ⟨x, _, rfl⟩ := he
    rfl
  | d1 :: d2 :: rest =>
    simp only [listTensor]
    split
    · intro e he; simp at he
    · apply innerTensor_keysLen
      · simp
      · intro e he; simp at he

theorem stateDist_keysLen (minP : K) (ds : List (AnyDet K)) (s : List ℕ) (hlen : s.length = ds.length) :
    KeysLen (stateDist minP ds s) ds.length := by
  have := listTensor_keysLen (List.zipWith (fun n d => AnyDet.kernel minP d n) s ds)
  simp only [List.length_zipWith, hlen, Nat.min_self] at this
  exact this

theorem simState_keysLen (minP : K) (minPhotons : Option ℕ) (p : K) (n : ℕ) :
    ∀ (sd : Dist (List ℕ) K) (a : Acc K), KeysLen sd n → KeysLen a.1 n →
      KeysLen (simState minP minPhotons p sd a).1 n := by
  intro sd
  unfold simState
  induction sd with
  | nil => intro a _ ha; exact ha
  | cons o sd ih =>
    intro a hs ha
    simp only [List.foldl_cons]
    apply ih _ (fun x hx => hs x (List.mem_cons_of_mem _ hx))
    split
    · exact ha
    · exact ha.addP (hs o (by simp)) _ _

theorem simGeneral_keysLen (minP : K) (minPhotons : Option ℕ) (ds : List (AnyDet K))
    (dist : Dist (List ℕ) K) (hlen : ∀ e ∈ dist, e.1.length = ds.length) :
    KeysLen (simGeneral minP minPhotons ds dist).1 ds.length := by
  unfold simGeneral
  have : ∀ (l : Dist (List ℕ) K) (a : Acc K), (∀ e ∈ l, e.1.length = ds.length) → KeysLen a.1 ds.length →
      KeysLen (l.foldl (fun a e => simState minP minPhotons e.2 (stateDist minP ds e.1) a) a).1 ds.length := by
    intro l
    induction l with
    | nil => intro a _ ha; exact ha
    | cons e l ih =>
      intro a hl ha
      simp only [List.foldl_cons]
      apply ih _ (fun x hx => hl x (List.mem_cons_of_mem _ hx))
      exact simState_keysLen minP minPhotons e.2 ds.length _ a
        (stateDist_keysLen minP ds e.1 (hl e (by simp))) ha
  exact this dist ([], 1) hlen (fun e he => by simp at he)

theorem simThreshold_keysLen (minPhotons : Option ℕ) (dist : Dist (List ℕ) K) (n : ℕ)
    (hlen : ∀ e ∈ dist, e.1.length = n) : KeysLen (simThreshold minPhotons dist).1 n := by
  unfold simThreshold
  have : ∀ (l : Dist (List ℕ) K) (a : Acc K), (∀ e ∈ l, e.1.length = n) → KeysLen a.1 n →
      KeysLen (l.foldl (fun a e =>
        let s := e.1.map (min · 1)
        if belowFilter minPhotons s then (a.1, a.2 - e.2) else (PM.C08.bump a.1 s e.2, a.2)) a).1 n := by
    intro l
    induction l with
    | nil => intro a _ ha; exact ha
    | cons e l ih =>
      intro a hl ha
      simp only [List.foldl_cons]
      apply ih _ (fun x hx => hl x (List.mem_cons_of_mem _ hx))
      split
      · exact ha
      · exact ha.bump (by simp [hl e (by simp)]) _
  exact this dist ([], 1) hlen (fun e he => by simp at he)

/-- every key of the result of `simulate_detectors` has one reading per detector -/
theorem simulate_keysLen (minP : K) (dist : Dist (List ℕ) K) (ds : List (AnyDet K))
    (minPhotons : Option ℕ) (hlen : ∀ e ∈ dist, e.1.length = ds.length) :
    KeysLen (simulate minP dist ds minPhotons).1 ds.length := by
  have hraw : KeysLen (simulateRaw minP dist ds minPhotons).1 ds.length := by
    unfold simulateRaw
    simp only []
    split
    · exact hlen
    · split
      · exact simThreshold_keysLen minPhotons dist _ hlen
      · exact simGeneral_keysLen minP minPhotons ds dist hlen
  unfold simulate
  simp only []
  split
  · exact hraw
  · exact hraw.normalize

/-! ### the reported state -/

theorem dropFrom_inj (modes : List ℕ) : ∀ (i : ℕ) (t t' : List ℕ), t.length = t'.length →
    (∀ k, k < t.length → modes.contains (i + k) = true → t[k]? = t'[k]?) →
    dropFrom modes i t = dropFrom modes i t' → t = t'
  | _, [], [], _, _, _ => rfl
  | _, [], _ :: _, hl, _, _ => by simp at hl
  | _, _ :: _, [], hl, _, _ => by simp at hl
  | i, x :: r, x' :: r', hl, hm, he => by
    have hl' : r.length = r'.length := by simpa using hl
    have hm' : ∀ k, k < r.length → modes.contains (i + 1 + k) = true → r[k]? = r'[k]? := by
      intro k hk hc
      have := hm (k + 1) (by simp; omega) (by rw [show i + (k + 1) = i + 1 + k by omega]; exact hc)
      simpa using this
    simp only [dropFrom] at he
    by_cases hc : modes.contains i = true
    · rw [if_pos hc, if_pos hc] at he
      have h0 := hm 0 (by simp) (by simpa using hc)
      simp only [List.getElem?_cons_zero, Option.some.injEq] at h0
      rw [h0, dropFrom_inj modes (i + 1) r r' hl' hm' he]
    · rw [if_neg hc, if_neg hc] at he
      have := List.cons.inj he
      rw [this.1, dropFrom_inj modes (i + 1) r r' hl' hm' this.2]

theorem heraldsOk_getElem {h : List (ℕ × ℕ)} {t t' : List ℕ} (ht : heraldsOk h t = true)
    (ht' : heraldsOk h t' = true) {k : ℕ} (hk : (h.map (·.1)).contains k = true) : t[k]? = t'[k]? := by
  simp only [List.contains_iff_mem, List.mem_map] at hk
  obtain ⟨e, he, rfl⟩ := hk
  simp only [heraldsOk, List.all_eq_true, beq_iff_eq] at ht ht'
  rw [ht e he, ht' e he]

/-- two accepted states of the same length filed under the same reported state are equal -/
theorem reportState_inj (ps : PS) (h : List (ℕ × ℕ)) (keep : Bool) {t t' : List ℕ}
    (hl : t.length = t'.length) (ha : accepted ps h t = true) (ha' : accepted ps h t' = true)
    (he : reportState h keep t = reportState h keep t') : t = t' := by
  unfold reportState at he
  cases keep with
  | true => simpa using he
  | false =>
    simp only [Bool.false_eq_true, if_false] at he
    simp only [accepted, Bool.and_eq_true] at ha ha'
    apply dropFrom_inj _ 0 t t' hl _ he
    intro k _ hc
    rw [Nat.zero_add] at hc
    exact heraldsOk_getElem ha.1 ha'.1 hc

theorem dropFrom_nil (i : ℕ) (t : List ℕ) : dropFrom [] i t = t := by
  induction t generalizing i with
  | nil => rfl
  | cons x r ih => simp [dropFrom, ih]

/-! ### `post_select_distribution` -/

/-- the accepted entries, re-keyed -/
def selected (ps : PS) (h : List (ℕ × ℕ)) (keep : Bool) (d : Dist (List ℕ) K) : Dist (List ℕ) K :=
  (d.filter fun e => accepted ps h e.1).map fun e => (reportState h keep e.1, e.2)

/-- the rejected entries -/
def rejected (ps : PS) (h : List (ℕ × ℕ)) (d : Dist (List ℕ) K) : Dist (List ℕ) K :=
  d.filter fun e => !accepted ps h e.1

theorem postSelectLoop_shape (ps : PS) (h : List (ℕ × ℕ)) (keep : Bool) :
    ∀ (d : Dist (List ℕ) K) (a : Dist (List ℕ) K) (x : K),
      d.Pairwise (fun e e' => accepted ps h e.1 = true → accepted ps h e'.1 = true →
        reportState h keep e.1 ≠ reportState h keep e'.1) →
      (∀ e ∈ d, accepted ps h e.1 = true → reportState h keep e.1 ∉ keys a) →
      postSelectLoop ps h keep d (a, x) = (a ++ selected ps h keep d, x - mass (rejected ps h d))
  | [], a, x, _, _ => by simp [postSelectLoop, selected, rejected]
  | e :: d, a, x, hp, hk => by
    rw [List.pairwise_cons] at hp
    unfold postSelectLoop
    simp only [List.foldl_cons]
    by_cases hacc : accepted ps h e.1 = true
    · rw [if_pos hacc]
      have hnew := hk e (by simp) hacc
      rw [setKey_of_not_mem _ _ _ hnew]
      have := postSelectLoop_shape ps h keep d (a ++ [(reportState h keep e.1, e.2)]) x hp.2 (by
        intro e' he' hacc'
        rw [keys_append]
        simp only [List.mem_append, not_or]
        refine ⟨hk e' (List.mem_cons_of_mem _ he') hacc', ?_⟩
        simp only [keys, List.map_cons, List.map_nil, List.mem_singleton]
        exact fun heq => hp.1 e' he' hacc hacc' heq.symm)
      unfold postSelectLoop at this
      rw [this]
      simp only [selected, rejected]
      rw [List.filter_cons_of_pos (by simpa using hacc), List.filter_cons_of_neg (by simp [hacc])]
      simp
    · rw [if_neg hacc]
      have := postSelectLoop_shape ps h keep d a (x - e.2) hp.2
        (fun e' he' => hk e' (List.mem_cons_of_mem _ he'))
      unfold postSelectLoop at this
      rw [this]
      simp only [selected, rejected]
      rw [List.filter_cons_of_neg (by simpa using hacc), List.filter_cons_of_pos (by simp [hacc])]
      simp only [mass_cons]
      congr 1
      ring

theorem psHasCond_false {ps : PS} (h : psHasCond ps = false) : ps = .tt := by
  cases ps <;> simp [psHasCond] at h ⊢

/-- **`post_select_distribution` never overwrites an entry** on a dictionary of states of one length: its
result is the list of the accepted entries filed under their reported states, normalised, and the logical
performance is `1 -` the mass of the rejected entries. -/
theorem postSelect_eq (ps : PS) (h : List (ℕ × ℕ)) (keep : Bool) (d : Dist (List ℕ) K) (n : ℕ)
    (hnd : (keys d).Nodup) (hlen : KeysLen d n) :
    postSelect ps h keep d
      = (normalize (selected ps h keep d), 1 - mass (rejected ps h d)) := by
  unfold postSelect
  split
  · next hc =>
    simp only [Bool.not_eq_true', Bool.or_eq_false_iff, Bool.not_eq_false'] at hc
    have hps := psHasCond_false hc.1
    have hh : h = [] := List.isEmpty_iff.mp hc.2
    subst hps hh
    have hacc : ∀ t : List ℕ, accepted PS.tt [] t = true := by
      intro t; simp [accepted, heraldsOk, PM.SimSpec.PS.eval]
    have hrep : ∀ t : List ℕ, reportState [] keep t = t := by
      intro t; unfold reportState; cases keep <;> simp [dropFrom_nil]
    have h1 : selected PS.tt [] keep d = d := by
      unfold selected
      have hf : d.filter (fun e => accepted PS.tt [] e.1) = d :=
        List.filter_eq_self.mpr (by intro e _; exact hacc e.1)
      rw [hf]
      simp [hrep]
    have h2 : rejected PS.tt [] d = [] := by
      unfold rejected
      rw [List.filter_eq_nil_iff]
      intro e _; simp [hacc]
    rw [h1, h2]; simp
  · have hp : d.Pairwise (fun e e' => accepted ps h e.1 = true → accepted ps h e'.1 = true →
        reportState h keep e.1 ≠ reportState h keep e'.1) := by
      have hk : d.Pairwise (fun e e' => e.1 ≠ e'.1) := by
        unfold keys at hnd
        exact (List.pairwise_map.mp hnd)
      apply List.Pairwise.imp_of_mem _ hk
      intro e e' he he' hne ha ha' heq
      exact hne (reportState_inj ps h keep (by rw [hlen e he, hlen e' he']) ha ha' heq)
    simp only []
    rw [postSelectLoop_shape ps h keep d [] 1 hp (by intro e _ _; simp [keys])]
    simp

/-- the two facts the property theorems use: on a normalised dictionary `S` of states of one length,
`logical_perf` is the accepted mass `A`, and an accepted state `t` is reported with `S[t] / A` -/
theorem postSelect_core (ps : PS) (h : List (ℕ × ℕ)) (keep : Bool) (S : Dist (List ℕ) K) (n : ℕ)
    (hnd : (keys S).Nodup) (hlen : KeysLen S n) (hm : mass S = 1) :
    (postSelect ps h keep S).2 = mass (S.filter fun e => accepted ps h e.1) ∧
    ∀ t : List ℕ, t.length = n → accepted ps h t = true →
      mass (S.filter fun e => accepted ps h e.1) ≠ 0 →
      prob (postSelect ps h keep S).1 (reportState h keep t)
        = prob S t / mass (S.filter fun e => accepted ps h e.1) := by
  rw [postSelect_eq ps h keep S n hnd hlen]
  have hadd := mass_filter_add (fun t => accepted ps h t) S
  constructor
  · simp only [rejected]
    linear_combination -hm - hadd
  · intro t ht hacc hA
    have hms : mass (selected ps h keep S) = mass (S.filter fun e => accepted ps h e.1) := by
      unfold selected; rw [mass_map_key]
    simp only []
    rw [prob_normalize _ _ (by rw [hms]; exact hA), hms]
    congr 1
    unfold selected
    rw [prob_map_key (reportState h keep) _ t, prob_filter (fun t => accepted ps h t), if_pos hacc]
    intro e he heq
    have hmem := List.mem_filter.mp he
    exact reportState_inj ps h keep (by rw [hlen e hmem.1, ht]) (by simpa using hmem.2) hacc heq

end PM.C08
