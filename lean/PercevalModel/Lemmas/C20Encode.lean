/-
  C20 — list-level lemmas about the dual-rail encoding (`Model/C20.lean`: `Layout`, `encode`, `basis`,
  `isLogical`): `encode` is a well-formed Fock state with the heralds satisfied, logical, injective on
  bit strings of the right length, and every heralded logical state is an encoded bit string.
-/
import PercevalModel.Lemmas.C20
import Mathlib.Data.List.Nodup
import Mathlib.Data.List.GetD
import Mathlib.Data.Nat.Factorial.Basic

namespace PM.C20
open PM.Fock PM.SimSpec

/-- photons carried by the heralds -/
def heraldSum (L : Layout) : ℕ := (L.heralds.map (·.2)).sum
/-- `∏ hᵢ!` over the heralds -/
def heraldFact (L : Layout) : ℕ := (L.heralds.map fun h => h.2.factorial).prod

/-! ### the logical basis -/

theorem mem_basis_iff : ∀ (q : ℕ) (bits : List Bool), bits ∈ basis q ↔ bits.length = q
  | 0, bits => by
    simp only [basis, List.mem_singleton]
    exact ⟨fun h => by rw [h]; rfl, fun h => List.length_eq_zero_iff.mp h⟩
  | q + 1, bits => by
    simp only [basis, List.mem_append, List.mem_map]
    constructor
    · rintro (⟨r, hr, rfl⟩ | ⟨r, hr, rfl⟩) <;>
        simp [(mem_basis_iff q r).1 hr]
    · intro h
      cases bits with
      | nil => simp at h
      | cons b r =>
        have hr : r ∈ basis q := (mem_basis_iff q r).2 (by simpa using h)
        cases b
        · exact Or.inl ⟨r, hr, rfl⟩
        · exact Or.inr ⟨r, hr, rfl⟩

theorem basis_nodup : ∀ (q : ℕ), (basis q).Nodup
  | 0 => by simp [basis]
  | q + 1 => by
    simp only [basis]
    rw [List.nodup_append]
    refine ⟨(basis_nodup q).map (fun a b h => (List.cons.inj h).2),
      (basis_nodup q).map (fun a b h => (List.cons.inj h).2), ?_⟩
    intro a ha b hb
    obtain ⟨r, _, rfl⟩ := List.mem_map.1 ha
    obtain ⟨r', _, rfl⟩ := List.mem_map.1 hb
    intro h
    exact Bool.noConfusion (List.cons.inj h).1

theorem basis_length : ∀ (q : ℕ), (basis q).length = 2 ^ q
  | 0 => rfl
  | q + 1 => by
    simp only [basis, List.length_append, List.length_map, basis_length q]
    omega

/-! ### a list of assignments written into a list -/

/-- write the assignments `(position, value)` in order -/
def setAll (as : List (ℕ × ℕ)) (s : List ℕ) : List ℕ := as.foldl (fun s a => s.set a.1 a.2) s

theorem setAll_nil (s : List ℕ) : setAll [] s = s := rfl
theorem setAll_cons (a : ℕ × ℕ) (as : List (ℕ × ℕ)) (s : List ℕ) :
    setAll (a :: as) s = setAll as (s.set a.1 a.2) := rfl

theorem getD_set_self (s : List ℕ) (i v : ℕ) (h : i < s.length) : (s.set i v).getD i 0 = v := by
  simp [List.getD_eq_getElem?_getD, h]

theorem getD_set_ne (s : List ℕ) (i k v : ℕ) (h : i ≠ k) : (s.set i v).getD k 0 = s.getD k 0 := by
  simp [List.getD_eq_getElem?_getD, h]

theorem getD_replicate_zero (m k : ℕ) : (List.replicate m 0).getD k 0 = 0 := by
  simp only [List.getD_eq_getElem?_getD, List.getElem?_replicate]
  split <;> rfl

theorem sum_set_add : ∀ (s : List ℕ) (i v : ℕ), i < s.length →
    (s.set i v).sum + s.getD i 0 = s.sum + v
  | [], i, v, h => by simp at h
  | x :: s, 0, v, _ => by
    simp only [List.set_cons_zero, List.sum_cons, List.getD_cons_zero]; omega
  | x :: s, i + 1, v, h => by
    have := sum_set_add s i v (by simpa using h)
    simp only [List.set_cons_succ, List.sum_cons, List.getD_cons_succ]; omega

theorem prodFact_cons (x : ℕ) (s : List ℕ) : prodFact (x :: s) = x.factorial * prodFact s := by
  simp [prodFact]

theorem prodFact_set_mul : ∀ (s : List ℕ) (i v : ℕ), i < s.length →
    prodFact (s.set i v) * (s.getD i 0).factorial = prodFact s * v.factorial
  | [], i, v, h => by simp at h
  | x :: s, 0, v, _ => by
    simp only [List.set_cons_zero, prodFact_cons, List.getD_cons_zero]
    rw [Nat.mul_right_comm, Nat.mul_comm v.factorial, Nat.mul_right_comm]
  | x :: s, i + 1, v, h => by
    have := prodFact_set_mul s i v (by simpa using h)
    simp only [List.set_cons_succ, prodFact_cons, List.getD_cons_succ]
    rw [Nat.mul_assoc, this, Nat.mul_assoc]

theorem setAll_length : ∀ (as : List (ℕ × ℕ)) (s : List ℕ), (setAll as s).length = s.length
  | [], s => rfl
  | a :: as, s => by rw [setAll_cons, setAll_length as, List.length_set]

theorem setAll_getD_not_mem : ∀ (as : List (ℕ × ℕ)) (s : List ℕ) (k : ℕ), k ∉ as.map (·.1) →
    (setAll as s).getD k 0 = s.getD k 0
  | [], s, k, _ => rfl
  | a :: as, s, k, h => by
    rw [List.map_cons, List.mem_cons, not_or] at h
    rw [setAll_cons, setAll_getD_not_mem as _ k h.2, getD_set_ne _ _ _ _ (Ne.symm h.1)]

theorem setAll_getD_mem : ∀ (as : List (ℕ × ℕ)) (s : List ℕ), (as.map (·.1)).Nodup →
    (∀ a ∈ as, a.1 < s.length) → ∀ a ∈ as, (setAll as s).getD a.1 0 = a.2
  | [], _, _, _, a, ha => by simp at ha
  | b :: as, s, hn, hr, a, ha => by
    rw [List.map_cons, List.nodup_cons] at hn
    rw [setAll_cons]
    rcases List.mem_cons.1 ha with rfl | ha'
    · rw [setAll_getD_not_mem as _ _ hn.1, getD_set_self _ _ _ (hr a List.mem_cons_self)]
    · exact setAll_getD_mem as _ hn.2
        (fun c hc => by rw [List.length_set]; exact hr c (List.mem_cons_of_mem _ hc)) a ha'

theorem setAll_sum : ∀ (as : List (ℕ × ℕ)) (s : List ℕ), (as.map (·.1)).Nodup →
    (∀ a ∈ as, a.1 < s.length) →
    (setAll as s).sum + (as.map fun a => s.getD a.1 0).sum = s.sum + (as.map (·.2)).sum
  | [], s, _, _ => by simp [setAll]
  | b :: as, s, hn, hr => by
    rw [List.map_cons, List.nodup_cons] at hn
    have ih := setAll_sum as (s.set b.1 b.2) hn.2
      (fun c hc => by rw [List.length_set]; exact hr c (List.mem_cons_of_mem _ hc))
    have hmap : (as.map fun a => (s.set b.1 b.2).getD a.1 0) = as.map fun a => s.getD a.1 0 := by
      apply List.map_congr_left
      intro a ha
      apply getD_set_ne
      intro e
      exact hn.1 (e ▸ List.mem_map_of_mem (f := (·.1)) ha)
    have h1 := sum_set_add s b.1 b.2 (hr b List.mem_cons_self)
    rw [hmap] at ih
    simp only [setAll_cons, List.map_cons, List.sum_cons]
    omega

theorem setAll_prodFact : ∀ (as : List (ℕ × ℕ)) (s : List ℕ), (as.map (·.1)).Nodup →
    (∀ a ∈ as, a.1 < s.length) →
    prodFact (setAll as s) * (as.map fun a => (s.getD a.1 0).factorial).prod
      = prodFact s * (as.map fun a => a.2.factorial).prod
  | [], s, _, _ => by simp [setAll]
  | b :: as, s, hn, hr => by
    rw [List.map_cons, List.nodup_cons] at hn
    have ih := setAll_prodFact as (s.set b.1 b.2) hn.2
      (fun c hc => by rw [List.length_set]; exact hr c (List.mem_cons_of_mem _ hc))
    have hmap : (as.map fun a => ((s.set b.1 b.2).getD a.1 0).factorial)
        = as.map fun a => (s.getD a.1 0).factorial := by
      apply List.map_congr_left
      intro a ha
      congr 1
      apply getD_set_ne
      intro e
      exact hn.1 (e ▸ List.mem_map_of_mem (f := (·.1)) ha)
    have h1 := prodFact_set_mul s b.1 b.2 (hr b List.mem_cons_self)
    rw [hmap] at ih
    simp only [setAll_cons, List.map_cons, List.prod_cons]
    calc prodFact (setAll as (s.set b.1 b.2)) *
          ((s.getD b.1 0).factorial * (as.map fun a => (s.getD a.1 0).factorial).prod)
        = (prodFact (setAll as (s.set b.1 b.2)) * (as.map fun a => (s.getD a.1 0).factorial).prod)
            * (s.getD b.1 0).factorial := by
          rw [Nat.mul_left_comm, Nat.mul_comm]
      _ = prodFact (s.set b.1 b.2) * (s.getD b.1 0).factorial
            * (as.map fun a => a.2.factorial).prod := by rw [ih, Nat.mul_right_comm]
      _ = prodFact s * (b.2.factorial * (as.map fun a => a.2.factorial).prod) := by
          rw [h1, Nat.mul_assoc]

theorem prodFact_replicate_zero (m : ℕ) : prodFact (List.replicate m 0) = 1 := by
  simp [prodFact]

theorem setAll_zero_sum (as : List (ℕ × ℕ)) (m : ℕ) (hn : (as.map (·.1)).Nodup)
    (hr : ∀ a ∈ as, a.1 < m) : (setAll as (List.replicate m 0)).sum = (as.map (·.2)).sum := by
  have h := setAll_sum as (List.replicate m 0) hn (by simpa using hr)
  have h0 : (as.map fun a => (List.replicate m 0).getD a.1 0) = as.map fun _ => 0 :=
    List.map_congr_left fun a _ => getD_replicate_zero m a.1
  rw [h0] at h
  simpa using h

theorem setAll_zero_prodFact (as : List (ℕ × ℕ)) (m : ℕ) (hn : (as.map (·.1)).Nodup)
    (hr : ∀ a ∈ as, a.1 < m) :
    prodFact (setAll as (List.replicate m 0)) = (as.map fun a => a.2.factorial).prod := by
  have h := setAll_prodFact as (List.replicate m 0) hn (by simpa using hr)
  have h0 : (as.map fun a => ((List.replicate m 0).getD a.1 0).factorial) = as.map fun _ => 1 :=
    List.map_congr_left fun a _ => by rw [getD_replicate_zero]; rfl
  rw [h0, prodFact_replicate_zero] at h
  simpa using h

/-! ### `encode` as one list of assignments -/

/-- the modes a layout uses: both rails of every qubit, then the herald modes -/
def used (L : Layout) : List ℕ := L.qubits.flatMap (fun p => [p, p + 1]) ++ L.heralds.map (·.1)

theorem ok_iff (L : Layout) :
    L.ok = true ↔ (∀ k ∈ used L, k < L.m) ∧ (used L).Nodup ∧ (used L).length = L.m := by
  unfold Layout.ok used
  simp only [Bool.and_eq_true, List.all_eq_true, decide_eq_true_eq, beq_iff_eq, and_assoc]

/-- one photon on the rail selected by each bit -/
def qubitAssign (L : Layout) (bits : List Bool) : List (ℕ × ℕ) :=
  (L.qubits.zip bits).map fun p => (rail p.1 p.2, 1)

def assigns (L : Layout) (bits : List Bool) : List (ℕ × ℕ) := qubitAssign L bits ++ L.heralds

theorem encode_eq (L : Layout) (bits : List Bool) :
    encode L bits = setAll (assigns L bits) (List.replicate L.m 0) := by
  unfold encode setAll assigns qubitAssign
  rw [List.foldl_append, List.foldl_map]

theorem railPos_sublist : ∀ (qs : List ℕ) (bits : List Bool),
    ((qs.zip bits).map fun p => rail p.1 p.2).Sublist (qs.flatMap fun p => [p, p + 1])
  | [], _ => by simp
  | p :: qs, [] => by simp
  | p :: qs, b :: bs => by
    simp only [List.zip_cons_cons, List.map_cons, List.flatMap_cons]
    have h1 : [rail p b].Sublist [p, p + 1] := by
      cases b <;> simp [rail]
    exact h1.append (railPos_sublist qs bs)

theorem assigns_pos (L : Layout) (bits : List Bool) :
    (assigns L bits).map (·.1) = ((L.qubits.zip bits).map fun p => rail p.1 p.2) ++ L.heralds.map (·.1) := by
  simp [assigns, qubitAssign, List.map_append, List.map_map, Function.comp_def]

theorem assigns_pos_sublist (L : Layout) (bits : List Bool) :
    ((assigns L bits).map (·.1)).Sublist (used L) := by
  rw [assigns_pos]
  exact (railPos_sublist L.qubits bits).append (List.Sublist.refl _)

theorem assigns_nodup (L : Layout) (hok : L.ok = true) (bits : List Bool) :
    ((assigns L bits).map (·.1)).Nodup :=
  ((ok_iff L).1 hok).2.1.sublist (assigns_pos_sublist L bits)

theorem assigns_lt (L : Layout) (hok : L.ok = true) (bits : List Bool) :
    ∀ a ∈ assigns L bits, a.1 < L.m := fun a ha =>
  ((ok_iff L).1 hok).1 a.1 ((assigns_pos_sublist L bits).subset (List.mem_map_of_mem (f := (·.1)) ha))

theorem encode_length (L : Layout) (bits : List Bool) : (encode L bits).length = L.m := by
  rw [encode_eq, setAll_length, List.length_replicate]

theorem qubitAssign_sum (L : Layout) (bits : List Bool) (hb : bits.length = L.qubits.length) :
    ((qubitAssign L bits).map (·.2)).sum = L.qubits.length := by
  have : (qubitAssign L bits).map (·.2) = List.replicate (L.qubits.zip bits).length 1 := by
    simp [qubitAssign, List.map_map, Function.comp_def, List.map_const']
  rw [this, List.sum_replicate, List.length_zip, hb]
  simp

theorem encode_sum (L : Layout) (hok : L.ok = true) (bits : List Bool)
    (hb : bits.length = L.qubits.length) :
    (encode L bits).sum = L.qubits.length + heraldSum L := by
  rw [encode_eq, setAll_zero_sum _ _ (assigns_nodup L hok bits) (assigns_lt L hok bits)]
  unfold assigns heraldSum
  rw [List.map_append, List.sum_append, qubitAssign_sum L bits hb]

theorem encode_mem_allStates (L : Layout) (hok : L.ok = true) (bits : List Bool)
    (hb : bits.length = L.qubits.length) :
    encode L bits ∈ allStates L.m (L.qubits.length + heraldSum L) :=
  (mem_allStates_iff _ _ _).2 ⟨encode_length L bits, encode_sum L hok bits hb⟩

/-- value of an encoded state at an assigned position -/
theorem encode_getD_assign (L : Layout) (hok : L.ok = true) (bits : List Bool) (a : ℕ × ℕ)
    (ha : a ∈ assigns L bits) : (encode L bits).getD a.1 0 = a.2 := by
  rw [encode_eq]
  exact setAll_getD_mem _ _ (assigns_nodup L hok bits)
    (by simpa using assigns_lt L hok bits) a ha

theorem encode_getD_herald (L : Layout) (hok : L.ok = true) (bits : List Bool) (h : ℕ × ℕ)
    (hh : h ∈ L.heralds) : (encode L bits).getD h.1 0 = h.2 :=
  encode_getD_assign L hok bits h (List.mem_append_right _ hh)

theorem encode_heraldsOk (L : Layout) (hok : L.ok = true) (bits : List Bool)
    (_hb : bits.length = L.qubits.length) : heraldsOk L.heralds (encode L bits) = true := by
  unfold heraldsOk
  rw [List.all_eq_true]
  intro h hh
  rw [beq_iff_eq]
  exact encode_getD_herald L hok bits h hh

theorem qubitAssign_prod (L : Layout) (bits : List Bool) :
    ((qubitAssign L bits).map fun a => a.2.factorial).prod = 1 := by
  have : ((qubitAssign L bits).map fun a => a.2.factorial)
      = List.replicate (L.qubits.zip bits).length 1 := by
    simp [qubitAssign, List.map_map, Function.comp_def, List.map_const']
  rw [this]
  simp

theorem encode_prodFact (L : Layout) (hok : L.ok = true) (bits : List Bool)
    (_hb : bits.length = L.qubits.length) : prodFact (encode L bits) = heraldFact L := by
  rw [encode_eq, setAll_zero_prodFact _ _ (assigns_nodup L hok bits) (assigns_lt L hok bits)]
  unfold assigns heraldFact
  rw [List.map_append, List.prod_append, qubitAssign_prod, Nat.one_mul]

/-! ### the two rails of a qubit -/

theorem rail_false (p : ℕ) : rail p false = p := rfl
theorem rail_true (p : ℕ) : rail p true = p + 1 := rfl

theorem rail_mem_pair (p : ℕ) (b : Bool) : rail p b ∈ [p, p + 1] := by
  cases b <;> simp [rail]

theorem rail_not_ne (p : ℕ) (b : Bool) : rail p (!b) ≠ rail p b := by
  cases b <;> simp [rail]

theorem rail_other_not_mem : ∀ (qs : List ℕ) (bits : List Bool),
    (qs.flatMap fun p => [p, p + 1]).Nodup → ∀ (p : ℕ) (b : Bool), (p, b) ∈ qs.zip bits →
    rail p (!b) ∉ (qs.zip bits).map fun p => rail p.1 p.2
  | [], _, _, p, b, h => by simp at h
  | q :: qs, [], _, p, b, h => by simp at h
  | q :: qs, c :: bs, hn, p, b, h => by
    rw [List.flatMap_cons, List.nodup_append] at hn
    obtain ⟨_, hrest, hdisj⟩ := hn
    have hsub := (railPos_sublist qs bs).subset
    rw [List.zip_cons_cons, List.map_cons, List.mem_cons, not_or]
    rcases List.mem_cons.1 h with heq | hmem
    · obtain ⟨rfl, rfl⟩ := Prod.mk.inj heq
      exact ⟨rail_not_ne p b, fun hin => hdisj _ (rail_mem_pair p (!b)) _ (hsub hin) rfl⟩
    · have hp : p ∈ qs := (List.of_mem_zip hmem).1
      have hin : rail p (!b) ∈ qs.flatMap fun p => [p, p + 1] :=
        List.mem_flatMap.2 ⟨p, hp, rail_mem_pair p (!b)⟩
      exact ⟨fun e => hdisj _ (rail_mem_pair q c) _ hin e.symm,
        rail_other_not_mem qs bs hrest p b hmem⟩

theorem encode_getD_rail (L : Layout) (hok : L.ok = true) (bits : List Bool) (p : ℕ) (b : Bool)
    (h : (p, b) ∈ L.qubits.zip bits) : (encode L bits).getD (rail p b) 0 = 1 :=
  encode_getD_assign L hok bits (rail p b, 1)
    (List.mem_append_left _ (List.mem_map.2 ⟨(p, b), h, rfl⟩))

theorem encode_getD_rail_other (L : Layout) (hok : L.ok = true) (bits : List Bool) (p : ℕ) (b : Bool)
    (h : (p, b) ∈ L.qubits.zip bits) : (encode L bits).getD (rail p (!b)) 0 = 0 := by
  have hn := ((ok_iff L).1 hok).2.1
  unfold used at hn
  rw [List.nodup_append] at hn
  obtain ⟨hnq, _, hdisj⟩ := hn
  rw [encode_eq, setAll_getD_not_mem, getD_replicate_zero]
  rw [assigns_pos, List.mem_append, not_or]
  refine ⟨rail_other_not_mem L.qubits bits hnq p b h, fun hin => ?_⟩
  have hp : p ∈ L.qubits := (List.of_mem_zip h).1
  exact hdisj _ (List.mem_flatMap.2 ⟨p, hp, rail_mem_pair p (!b)⟩) _ hin rfl

theorem encode_pair (L : Layout) (hok : L.ok = true) (bits : List Bool) (p : ℕ) (b : Bool)
    (h : (p, b) ∈ L.qubits.zip bits) :
    (encode L bits).getD p 0 + (encode L bits).getD (p + 1) 0 = 1 := by
  have h1 := encode_getD_rail L hok bits p b h
  have h2 := encode_getD_rail_other L hok bits p b h
  cases b
  · rw [rail_false] at h1
    rw [Bool.not_false, rail_true] at h2
    omega
  · rw [rail_true] at h1
    rw [Bool.not_true, rail_false] at h2
    omega

theorem zip_getElem_mem {α β : Type*} (l₁ : List α) (l₂ : List β) (i : ℕ) (h1 : i < l₁.length)
    (h2 : i < l₂.length) : (l₁[i], l₂[i]) ∈ l₁.zip l₂ :=
  List.mem_iff_getElem.2 ⟨i, by rw [List.length_zip]; omega, by rw [List.getElem_zip]⟩

theorem exists_mem_zip (qs : List ℕ) (bits : List Bool) (hb : bits.length = qs.length) (p : ℕ)
    (hp : p ∈ qs) : ∃ b, (p, b) ∈ qs.zip bits := by
  obtain ⟨i, hi, rfl⟩ := List.mem_iff_getElem.1 hp
  exact ⟨bits[i]'(by omega), zip_getElem_mem qs bits i hi (by omega)⟩

theorem encode_isLogical (L : Layout) (hok : L.ok = true) (bits : List Bool)
    (hb : bits.length = L.qubits.length) : isLogical L (encode L bits) = true := by
  unfold isLogical pairCounts
  rw [List.all_eq_true]
  intro x hx
  obtain ⟨p, hp, rfl⟩ := List.mem_map.1 hx
  obtain ⟨b, hpb⟩ := exists_mem_zip L.qubits bits hb p hp
  rw [beq_iff_eq]
  exact encode_pair L hok bits p b hpb

theorem encode_injective (L : Layout) (hok : L.ok = true) (b₁ b₂ : List Bool)
    (h₁ : b₁.length = L.qubits.length) (h₂ : b₂.length = L.qubits.length)
    (h : encode L b₁ = encode L b₂) : b₁ = b₂ := by
  apply List.ext_getElem (by rw [h₁, h₂])
  intro i hi1 hi2
  have hq : i < L.qubits.length := by omega
  have m1 := zip_getElem_mem L.qubits b₁ i hq hi1
  have m2 := zip_getElem_mem L.qubits b₂ i hq hi2
  by_contra hne
  have e : b₁[i] = !b₂[i] := by
    cases h1 : b₁[i] <;> cases h2 : b₂[i] <;> simp_all
  have g1 := encode_getD_rail L hok b₁ _ _ m1
  have g2 := encode_getD_rail_other L hok b₂ _ _ m2
  rw [h, e, g2] at g1
  exact absurd g1 (by decide)

theorem basis_map_encode_nodup (L : Layout) (hok : L.ok = true) :
    ((basis L.qubits.length).map (encode L)).Nodup :=
  (basis_nodup L.qubits.length).map_on fun x hx y hy h =>
    encode_injective L hok x y ((mem_basis_iff _ _).1 hx) ((mem_basis_iff _ _).1 hy) h

/-! ### every heralded logical state is an encoded bit string -/

theorem mem_used_of_lt (L : Layout) (hok : L.ok = true) (k : ℕ) (hk : k < L.m) : k ∈ used L := by
  obtain ⟨hlt, hnd, hlen⟩ := (ok_iff L).1 hok
  have hsub : used L ⊆ List.range L.m := fun a ha => List.mem_range.2 (hlt a ha)
  have hperm : (used L).Perm (List.range L.m) :=
    (List.subperm_of_subset hnd hsub).perm_of_length_le (by rw [List.length_range, hlen])
  exact hperm.mem_iff.2 (List.mem_range.2 hk)

theorem mem_zip_map (f : ℕ → Bool) : ∀ (qs : List ℕ) (p : ℕ), p ∈ qs → (p, f p) ∈ qs.zip (qs.map f)
  | [], p, h => by simp at h
  | q :: qs, p, h => by
    rw [List.map_cons, List.zip_cons_cons]
    rcases List.mem_cons.1 h with rfl | h'
    · exact List.mem_cons_self
    · exact List.mem_cons_of_mem _ (mem_zip_map f qs p h')

theorem exists_bits_of_logical (L : Layout) (hok : L.ok = true) (t : List ℕ) (ht : t.length = L.m)
    (hh : heraldsOk L.heralds t = true) (hl : isLogical L t = true) :
    ∃ bits, bits.length = L.qubits.length ∧ t = encode L bits := by
  let f : ℕ → Bool := fun p => decide (t.getD p 0 = 0)
  refine ⟨L.qubits.map f, List.length_map _, ?_⟩
  have hher : ∀ h ∈ L.heralds, t.getD h.1 0 = h.2 := by
    unfold heraldsOk at hh
    rw [List.all_eq_true] at hh
    intro h hm
    exact beq_iff_eq.1 (hh h hm)
  have hlog : ∀ p ∈ L.qubits, t.getD p 0 + t.getD (p + 1) 0 = 1 := by
    unfold isLogical pairCounts at hl
    rw [List.all_eq_true] at hl
    intro p hp
    exact beq_iff_eq.1 (hl _ (List.mem_map_of_mem hp))
  have key : ∀ k, k < L.m → t.getD k 0 = (encode L (L.qubits.map f)).getD k 0 := by
    intro k hk
    have hu := mem_used_of_lt L hok k hk
    unfold used at hu
    rcases List.mem_append.1 hu with hq | hhd
    · obtain ⟨p, hp, hkp⟩ := List.mem_flatMap.1 hq
      have hz := mem_zip_map f L.qubits p hp
      have h1 := encode_getD_rail L hok _ p (f p) hz
      have h2 := encode_getD_rail_other L hok _ p (f p) hz
      have hs := hlog p hp
      by_cases h0 : t.getD p 0 = 0
      · have hf : f p = true := decide_eq_true h0
        rw [hf, rail_true] at h1
        rw [hf, Bool.not_true, rail_false] at h2
        rcases List.mem_cons.1 hkp with rfl | hk2
        · rw [h0, h2]
        · rw [List.mem_singleton] at hk2
          subst hk2
          rw [h1]; omega
      · have hf : f p = false := decide_eq_false h0
        rw [hf, rail_false] at h1
        rw [hf, Bool.not_false, rail_true] at h2
        rcases List.mem_cons.1 hkp with rfl | hk2
        · rw [h1]; omega
        · rw [List.mem_singleton] at hk2
          subst hk2
          rw [h2]; omega
    · obtain ⟨h, hm, rfl⟩ := List.mem_map.1 hhd
      rw [hher h hm, encode_getD_herald L hok _ h hm]
  apply List.ext_getElem (by rw [ht, encode_length])
  intro i h1 h2
  rw [← List.getD_eq_getElem t 0 h1, ← List.getD_eq_getElem _ 0 h2]
  exact key i (by omega)

/-! ### non-vacuity: the layouts of the post-processed and the heralded CNOT -/

example : Layout.ok ⟨6, [0, 2], [(4, 0), (5, 0)]⟩ = true := by decide
example : Layout.ok ⟨8, [0, 2], [(4, 1), (5, 1), (6, 0), (7, 0)]⟩ = true := by decide

example : (basis 2).map (encode ⟨6, [0, 2], [(4, 0), (5, 0)]⟩)
    = [[1, 0, 1, 0, 0, 0], [1, 0, 0, 1, 0, 0], [0, 1, 1, 0, 0, 0], [0, 1, 0, 1, 0, 0]] := by decide
example : encode ⟨8, [0, 2], [(4, 1), (5, 1), (6, 0), (7, 0)]⟩ [true, false]
    = [0, 1, 1, 0, 1, 1, 0, 0] := by decide
example : heraldSum ⟨8, [0, 2], [(4, 1), (5, 1), (6, 0), (7, 0)]⟩ = 2 := by decide

end PM.C20
