/-
  C06 — PLACEMENT of the photons over the modes on the event-table route of `generate_samples`:
  an event `(i, j, k)` drawn from the multinomial table, its slots refined by ideal booleans, shuffled by a
  uniform permutation and handed out to the modes block by block has — per-mode class profile by per-mode class
  profile — the law of `generate_distribution` conditioned on the photon filter.

  Chain (for every test function `H` of the list of slot classes):
    E_{x ~ iid physOne}  H x
      = E_x  shAvg H x                                   (`iid_shuffle`: a uniform shuffle of an iid list is iid)
      = E_{y ~ iid catDist}  E_{z ~ ∏ kindLaw yᵢ}  shAvg H z   (`physOne` = category, then class given the category)
      = Σ_{events e}  table(e) · E_{z ~ ∏ kindLaw (canon e)ᵢ}  shAvg H z
                                                          (the inner expectation is permutation invariant in `y`,
                                                           `y ~ canon (counts y)`, the table is the law of the counts)
      = Σ_e table(e) · E_{booleans}  shAvg H (classes of `evItems e booleans`)      (`E_evKinds`)
  and `H = F ∘ blockSum ns` is `F` of the profile of the sample (`profile_fSample`).
-/
import PercevalModel.Lemmas.C06Shuffle
import PercevalModel.Lemmas.C06Kinds

namespace PM.C06

/-! ### one requested photon: category first, class given the category -/

theorem physOne_two_stage (P : Params) (g : ℕ × ℕ → ℚ) :
    E g (physOne P) = E (fun c => E g (kindLaw P c)) (catDist P) := by
  unfold physOne catDist
  by_cases hdm : P.dm = true
  · simp [hdm, kindLaw, bcls, xK, duoK, scaleD, survive, convPair, sigClass, extraClass, E, E_append,
      pSignal, pG2, pDuo, pNone, p11, p21, p22, p1]
    ring
  · simp [hdm, kindLaw, bcls, xK, duoK, scaleD, survive, convPair, sigClass, extraClass, E, E_append,
      pSignal, pG2, pDuo, pNone, p11, p21, p22, p1]
    ring

/-! ### a sequence of categories is a permutation of the canonical slot list of its event -/

theorem cat_length_counts (y : List Cat) :
    y.length = y.count .sig + y.count .g2 + y.count .duo + y.count .none := by
  induction y with
  | nil => simp
  | cons c y ih => cases c <;> simp [List.count_cons, ih] <;> omega

theorem perm_canon (y : List Cat) : y.Perm (canon y.length (catCounts y)) := by
  rw [List.perm_iff_count]
  intro c
  have h := cat_length_counts y
  cases c <;> simp [canon, catCounts, List.count_append, List.count_replicate] <;> omega

/-- the event table is the law of the event of `n` independent categories — for every permutation-invariant
function of the sequence -/
theorem E_iid_cat_table (P : Params) (n : ℕ) (Q : List Cat → ℚ) (hQ : ∀ l l' : List Cat, l.Perm l' → Q l = Q l') :
    E Q (iid (catDist P) n) = E (fun e => Q (canon n e)) (table P n 0) := by
  have h1 : E Q (iid (catDist P) n) =
      E (fun y => (fun e => Q (canon n e)) (catCounts y)) (iid (catDist P) n) := by
    apply E_congr_mem
    intro e he
    have hl := iid_length _ _ e he
    show Q e.1 = Q (canon n (catCounts e.1))
    rw [← hl]
    exact hQ _ _ (perm_canon e.1)
  rw [h1]
  exact E_of_point_masses catCounts _ (fun e : ℕ × ℕ × ℕ => e) (table P n 0)
    (fun v => by obtain ⟨i, j, k⟩ := v; exact (table_eq_cat_counts P n i j k).symm) (fun e => Q (canon n e))

/-! ### the shuffle average -/

/-- average of `H` over the uniform shuffle of the list `x` -/
def shAvg (H : List (ℕ × ℕ) → ℚ) (x : List (ℕ × ℕ)) : ℚ :=
  E (fun p => H (permute (0, 0) x p)) (shuffleLaw x.length)

theorem shAvg_perm (H : List (ℕ × ℕ) → ℚ) {l l' : List (ℕ × ℕ)} (h : l.Perm l') : shAvg H l = shAvg H l' :=
  shuffle_perm_invariant (0, 0) h H

/-- **the combinatorial core**: event from the multinomial table, classes of the slots drawn independently given
their categories, uniform shuffle — is a sequence of independent draws from the physical one-photon description -/
theorem table_shuffle_iid (P : Params) (n : ℕ) (H : List (ℕ × ℕ) → ℚ) :
    E (fun e => E (shAvg H) (prodLaw ((canon n e).map (kindLaw P)))) (table P n 0) =
      E H (iid (physOne P) n) := by
  have hQ : ∀ l l' : List Cat, l.Perm l' →
      E (shAvg H) (prodLaw (l.map (kindLaw P))) = E (shAvg H) (prodLaw (l'.map (kindLaw P))) :=
    fun l l' h => E_prodLaw_perm (shAvg H) (fun a b hab => shAvg_perm H hab) (h.map _)
  rw [← E_iid_cat_table P n (fun y => E (shAvg H) (prodLaw (y.map (kindLaw P)))) hQ,
    ← E_iid_two_stage (catDist P) (kindLaw P) (physOne P) (physOne_two_stage P) n (shAvg H),
    ← iid_shuffle (0, 0) (physOne P) n H]
  apply E_congr_mem
  intro e he
  simp only [shAvg, iid_length _ _ e he]

/-! ### the blocks of an iid sequence -/

theorem massP_blockSum_iid (d : Dist (ℕ × ℕ)) (ns : List ℕ) (cs : List (ℕ × ℕ)) :
    massP (fun x => decide (blockSum ns x = cs)) (iid d ns.sum) =
      if cs.length = ns.length then
        (List.zipWith (fun n c => massP (fun l : List (ℕ × ℕ) => decide (clsSum l = c)) (iid d n)) ns cs).prod
      else 0 := by
  induction ns generalizing cs with
  | nil =>
    cases cs with
    | nil => simp [massP, blockSum, E_iid_zero]
    | cons c cs => simp [massP, blockSum, E_iid_zero]
  | cons n ns ih =>
    cases cs with
    | nil => simp [massP, blockSum, E_zero_fun]
    | cons c cs =>
      have := E_iid_split d n ns.sum (fun l => if clsSum l = c then 1 else 0)
        (fun l => if blockSum ns l = cs then 1 else 0)
      simp only [massP, List.sum_cons, blockSum, List.cons.injEq, decide_eq_true_eq] at this ih ⊢
      rw [E_congr (g' := fun x => (if clsSum (List.take n x) = c then (1 : ℚ) else 0) *
        (if blockSum ns (List.drop n x) = cs then 1 else 0)) (fun x => by
          by_cases h1 : clsSum (List.take n x) = c <;> by_cases h2 : blockSum ns (List.drop n x) = cs <;>
            simp [h1, h2]), this, ih cs]
      by_cases hl : cs.length = ns.length <;> simp [hl]

/-- the per-mode class profile of `generate_distribution` is the block sums of an iid sequence -/
theorem generateAt_profile {P : Params} (hP : P.WF) {ns : List ℕ} (hne : ns ≠ []) (t : ℕ)
    (F : List (ℕ × ℕ) → ℚ) :
    E (fun s => F (profile s)) (generateAt P 0 ns t) = E (fun x => F (blockSum ns x)) (iid (physOne P) ns.sum) := by
  apply E_of_point_masses profile _ (blockSum ns) _ _ F
  intro cs
  rw [massP_blockSum_iid]
  exact generateAt_key_point hP cls _ (fun n t c => probDist_class_point hP n t c) hne t cs

/-! ### one sample of the event-table route -/

theorem E_map_weight {α β : Type} (g : β → ℚ) (h : α → β) (c : ℚ) (σ : Dist α) :
    E g (σ.map fun p => (h p.1, c * p.2)) = c * E (fun a => g (h a)) σ := by
  induction σ with
  | nil => simp
  | cons p σ ih => simp only [List.map_cons, E_cons, ih]; ring

theorem E_flatMap_scaled {ι α : Type} (d : Dist ι) (c : ℚ) (body : ι × ℚ → Dist α) (g : α → ℚ) (X : ι → ℚ)
    (h : ∀ b ∈ d, E g (body b) = c * (b.2 * X b.1)) : E g (d.flatMap body) = c * E X d := by
  rw [E_flatMap, List.map_congr_left h, List.sum_map_mul_left]
  rfl

/-- the profile law of one sample (ideal event, ideal booleans, uniform shuffle) in terms of the event table the
event is drawn from -/
theorem E_fLaw_profile (P : Params) (ns : List ℕ) (f t : ℕ) (F : List (ℕ × ℕ) → ℚ) :
    E (fun s => F (profile s)) (fLaw P ns f t (shuffleLaw ns.sum)) =
      E (fun e => E (shAvg fun x => F (blockSum ns x)) (prodLaw ((canon ns.sum e).map (kindLaw P))))
        (normalize (table P ns.sum f)) := by
  have hpick := pick_idxLaw (table P ns.sum f)
    (fun e => E (shAvg fun x => F (blockSum ns x)) (prodLaw ((canon ns.sum e).map (kindLaw P))))
  rw [E_pushF] at hpick
  rw [← hpick]
  unfold fLaw eventIdxLaw
  have h1 := E_flatMap_scaled (idxLaw ((table P ns.sum f).map Prod.snd)) 1
    (fun ei => (prodLaw (List.replicate ((eventOf P ns.sum f ei.1).1 + (eventOf P ns.sum f ei.1).2.2)
      (boolLaw P))).flatMap fun b =>
        (shuffleLaw ns.sum).map fun p => (fSample P.dm ns t (eventOf P ns.sum f ei.1) b.1 p.1, ei.2 * b.2 * p.2))
    (fun s => F (profile s))
    (fun i => E (shAvg fun x => F (blockSum ns x))
      (prodLaw ((canon ns.sum (pickKey (table P ns.sum f) i)).map (kindLaw P))))
  rw [one_mul] at h1
  refine h1 ?_
  intro ei _
  have he := eventOf_le P ns.sum f ei.1
  rw [one_mul]
  have h2 := E_flatMap_scaled
    (prodLaw (List.replicate ((eventOf P ns.sum f ei.1).1 + (eventOf P ns.sum f ei.1).2.2) (boolLaw P))) ei.2
    (fun b => (shuffleLaw ns.sum).map fun p =>
      (fSample P.dm ns t (eventOf P ns.sum f ei.1) b.1 p.1, ei.2 * b.2 * p.2))
    (fun s => F (profile s))
    (fun bs => shAvg (fun x => F (blockSum ns x)) (evKinds P.dm ns.sum (eventOf P ns.sum f ei.1) bs t))
    (fun b _ => by
      rw [E_map_weight (fun s => F (profile s)) (fun p => fSample P.dm ns t (eventOf P ns.sum f ei.1) b.1 p)
        (ei.2 * b.2) (shuffleLaw ns.sum)]
      have hl : (evKinds P.dm ns.sum (eventOf P ns.sum f ei.1) b.1 t).length = ns.sum := by
        rw [evKinds, List.length_map]; exact evItems_length _ _ _ _ _ he
      simp only [shAvg, hl, profile_fSample]
      ring)
  rw [h2]
  congr 1
  exact E_evKinds P ns.sum (eventOf P ns.sum f ei.1) t (shAvg fun x => F (blockSum ns x))

/-! ### conditioning on the photon filter -/

/-- the average of `F (profile sample)` over ideal booleans and the uniform shuffle, for a given event -/
def evAvg (P : Params) (ns : List ℕ) (F : List (ℕ × ℕ) → ℚ) (e : ℕ × ℕ × ℕ) : ℚ :=
  E (shAvg fun x => F (blockSum ns x)) (prodLaw ((canon ns.sum e).map (kindLaw P)))

/-- … it is what the code computes: booleans, then shuffle, then `distribute` -/
theorem evAvg_sample (P : Params) (ns : List ℕ) (t : ℕ) (e : ℕ × ℕ × ℕ) (he : e.1 + e.2.1 + e.2.2 ≤ ns.sum)
    (F : List (ℕ × ℕ) → ℚ) :
    E (fun bs => E (fun p => F (profile (fSample P.dm ns t e bs p))) (shuffleLaw ns.sum))
        (prodLaw (List.replicate (e.1 + e.2.2) (boolLaw P))) = evAvg P ns F e := by
  rw [evAvg, ← E_evKinds P ns.sum e t]
  apply E_congr
  intro bs
  have hl : (evKinds P.dm ns.sum e bs t).length = ns.sum := by
    rw [evKinds, List.length_map]; exact evItems_length _ _ _ _ _ he
  simp only [shAvg, hl, profile_fSample]

/-- the filter is a function of the event: every sample of the event `e` has `evPhotons e` photons -/
theorem evAvg_filter (P : Params) (ns : List ℕ) (e : ℕ × ℕ × ℕ) (he : e.1 + e.2.1 + e.2.2 ≤ ns.sum)
    (f : ℕ) (F : List (ℕ × ℕ) → ℚ) :
    evAvg P ns (fun cs => if f ≤ (cs.map fun c => c.1 + c.2).sum then F cs else 0) e =
      if f ≤ evPhotons e then evAvg P ns F e else 0 := by
  rw [← evAvg_sample P ns 0 e he, ← evAvg_sample P ns 0 e he]
  have key : ∀ bs : List Bool, E (fun p => (fun cs : List (ℕ × ℕ) =>
        if f ≤ (cs.map fun c => c.1 + c.2).sum then F cs else 0) (profile (fSample P.dm ns 0 e bs p)))
        (shuffleLaw ns.sum) =
      if f ≤ evPhotons e then E (fun p => F (profile (fSample P.dm ns 0 e bs p))) (shuffleLaw ns.sum) else 0 := by
    intro bs
    rw [E_congr_mem (g' := fun p => if f ≤ evPhotons e then F (profile (fSample P.dm ns 0 e bs p)) else 0)
      (shuffleLaw ns.sum) (fun p hp => by
        show (if f ≤ ((profile (fSample P.dm ns 0 e bs p.1)).map fun c => c.1 + c.2).sum then _ else _) = _
        rw [← photons_profile, fSample_photons P.dm ns 0 e bs p.1 he (shuffleLaw_perm ns.sum p hp)])]
    by_cases h : f ≤ evPhotons e
    · simp [h]
    · simp [h, E_zero_fun]
  rw [E_congr key]
  by_cases h : f ≤ evPhotons e
  · simp [h]
  · simp [h, E_zero_fun]

theorem mem_table_zero_le (P : Params) (n : ℕ) : ∀ e ∈ table P n 0, e.1.1 + e.1.2.1 + e.1.2.2 ≤ n := by
  intro e he
  simp only [table, if_true, tableRaw] at he
  exact mem_tableRawOf_le _ _ _ _ n 0 e he

/-- event table and distribution builder agree on every function of the per-mode class profile, restricted to
"at least `f` photons" -/
theorem tail_profile_eq {P : Params} (hP : P.WF) {ns : List ℕ} (hne : ns ≠ []) (t f : ℕ)
    (F : List (ℕ × ℕ) → ℚ) :
    E (fun e => if f ≤ evPhotons e then evAvg P ns F e else 0) (table P ns.sum 0) =
      E (fun s => if f ≤ photons s then F (profile s) else 0) (generateAt P 0 ns t) := by
  rw [E_congr_mem (g' := evAvg P ns (fun cs => if f ≤ (cs.map fun c => c.1 + c.2).sum then F cs else 0))
    (table P ns.sum 0) (fun e he => (evAvg_filter P ns e.1 (mem_table_zero_le P ns.sum e he) f F).symm)]
  have h := table_shuffle_iid P ns.sum
    (fun x => (fun cs : List (ℕ × ℕ) => if f ≤ (cs.map fun c => c.1 + c.2).sum then F cs else 0) (blockSum ns x))
  have h' : E (evAvg P ns fun cs => if f ≤ (cs.map fun c => c.1 + c.2).sum then F cs else 0) (table P ns.sum 0) =
      E (fun x => (fun cs : List (ℕ × ℕ) => if f ≤ (cs.map fun c => c.1 + c.2).sum then F cs else 0) (blockSum ns x))
        (iid (physOne P) ns.sum) := h
  rw [h', ← generateAt_profile hP hne t (fun cs => if f ≤ (cs.map fun c => c.1 + c.2).sum then F cs else 0)]
  apply E_congr
  intro s
  rw [photons_profile]

/-- **placement on the event-table route**: under ideal draws (event, booleans, uniform shuffle) every function of the
per-mode class profile of one sample has the expectation `generate_distribution` conditioned on the photon filter
gives it -/
theorem fLaw_profile_law {P : Params} (hP : P.WF) {ns : List ℕ} (hne : ns ≠ []) (f t : ℕ) (hf : f ≠ 0)
    (hperf : physPerf P ns.sum f ≠ 0) (F : List (ℕ × ℕ) → ℚ) :
    E (fun s => F (profile s)) (fLaw P ns f t (shuffleLaw ns.sum)) =
      E (fun s => F (profile s)) (condMin f (generateAt P 0 ns t)) := by
  have htab : table P ns.sum f = normalize (tableRaw P ns.sum f) := by
    simp [table, hf, normalize, physPerf]
  have hmass : mass (table P ns.sum f) = 1 := by
    rw [htab]; exact mass_normalize _ hperf
  rw [E_fLaw_profile]
  show E (evAvg P ns F) (normalize (table P ns.sum f)) = _
  rw [E_normalize, hmass, div_one, htab, E_normalize, table_filter_eq,
    condMin, E_normalize, mass_eq_E, mass_eq_E,
    E_filter (fun _ => (1 : ℚ)) (fun e => decide (f ≤ evPhotons e)),
    E_filter (fun _ => (1 : ℚ)) (fun s => decide (f ≤ photons s)),
    E_filter (evAvg P ns F) (fun e => decide (f ≤ evPhotons e)),
    E_filter (fun s => F (profile s)) (fun s => decide (f ≤ photons s))]
  have h1 := tail_profile_eq hP hne t f F
  have h2 := tail_gf_eq hP hne t 1 1 f
  simp only [evGF_one] at h2
  simp only [decide_eq_true_eq]
  rw [h1, h2]
  congr 2
  funext s
  simp [stateGF]

/-- … probability by probability -/
theorem fLaw_profile_pmf {P : Params} (hP : P.WF) {ns : List ℕ} (hne : ns ≠ []) (f t : ℕ) (hf : f ≠ 0)
    (hperf : physPerf P ns.sum f ≠ 0) (cs : List (ℕ × ℕ)) :
    massP (fun s => decide (profile s = cs)) (fLaw P ns f t (shuffleLaw ns.sum)) =
      massP (fun s => decide (profile s = cs)) (condMin f (generateAt P 0 ns t)) := by
  have := fLaw_profile_law hP hne f t hf hperf (fun x => if x = cs then 1 else 0)
  simpa [massP] using this

end PM.C06
