/-
  C16 (wave 6) — what the mode mapping of the conversion (`relabelOf`) IS, and that the heralds of the converted
  processor follow the same mapping as its circuit and its post-selection.
-/
import PercevalModel.Lemmas.C16PS
import PercevalModel.Lemmas.C16Mat

namespace PM.C16
open PM.SM

/-- the non-herald modes of the circuit, in increasing order -/
def moiModes (p : Exp) : List Nat := (List.range p.size).filter (fun k => !(heraldModes p).contains k)

theorem relabelOf_eq (p : Exp) : relabelOf p = moiModes p ++ heraldModes p := rfl

theorem moiModes_length (p : Exp) (h : p.WF) : (moiModes p).length = p.m := by
  have hl := (relabelOf_isPerm p h).1
  have hc := h.count
  rw [relabelOf_eq, List.length_append] at hl
  simp only [heraldModes, List.length_map] at hl
  omega

theorem mem_moiModes (p : Exp) (x : Nat) : x ∈ moiModes p ↔ x < p.size ∧ x ∉ heraldModes p := by
  simp only [moiModes, List.mem_filter, List.mem_range, Bool.not_eq_true', List.contains_eq_mem,
    decide_eq_false_iff_not]

theorem moiModes_sorted (p : Exp) : (moiModes p).Pairwise (· < ·) :=
  List.Pairwise.filter _ List.pairwise_lt_range

/-- the first `p.m` remote modes carry the modes of interest, in increasing order -/
theorem relabelOf_take (p : Exp) (h : p.WF) : (relabelOf p).take p.m = moiModes p := by
  rw [relabelOf_eq, ← moiModes_length p h, List.take_left]

/-- the remote modes behind them carry the herald modes, in insertion order -/
theorem relabelOf_drop (p : Exp) (h : p.WF) : (relabelOf p).drop p.m = heraldModes p := by
  rw [relabelOf_eq, ← moiModes_length p h, List.drop_left]

theorem relabelOf_herald_at (p : Exp) (h : p.WF) (k : Nat) :
    (relabelOf p)[p.m + k]? = (heraldModes p)[k]? := by
  rw [← relabelOf_drop p h, List.getElem?_drop]

theorem enumHeralds_getElem? (base : Nat) (l : List (Nat × Nat)) (k : Nat) :
    (enumHeralds base l)[k]? = l[k]?.map (fun x => (base + k, x.2)) := by
  induction l generalizing base k with
  | nil => simp [enumHeralds]
  | cons hd t ih =>
    obtain ⟨a, b⟩ := hd
    cases k with
    | zero => simp [enumHeralds]
    | succ k =>
      simp only [enumHeralds, List.getElem?_cons_succ, ih]
      congr 1
      funext x
      congr 1
      omega

theorem withInput_heralds (e e' : Exp) (s : List Nat) (h : withInput e s = .ok e') : e'.heralds = e.heralds := by
  unfold withInput at h
  split at h
  · cases h
  · cases h; rfl

theorem fromLocal_heralds (fixed : Bool) (p e : Exp) (h : fromLocal fixed p = .ok e) :
    e.heralds = enumHeralds p.m p.heralds := by
  rw [fromLocal_eq] at h
  cases hi : p.input with
  | none => rw [hi] at h; cases h; rfl
  | some s =>
    rw [hi] at h
    exact withInput_heralds _ _ _ h

/-- a herald of the converted processor sits on a remote mode that carries a local HERALD mode with the same
expected value -/
theorem converted_herald_reads_local (fixed : Bool) (p e : Exp) (hp : p.WF) (he : fromLocal fixed p = .ok e)
    (j v : Nat) (hjv : (j, v) ∈ e.heralds) :
    ∃ l, (relabelOf p)[j]? = some l ∧ (l, v) ∈ p.heralds := by
  rw [fromLocal_heralds fixed p e he] at hjv
  obtain ⟨k, hk⟩ := List.getElem?_of_mem hjv
  rw [enumHeralds_getElem?] at hk
  cases hl : p.heralds[k]? with
  | none => rw [hl] at hk; cases hk
  | some x =>
    rw [hl] at hk
    simp only [Option.map_some, Option.some.injEq, Prod.mk.injEq] at hk
    obtain ⟨rfl, rfl⟩ := hk
    refine ⟨x.1, ?_, List.mem_of_getElem? hl⟩
    rw [relabelOf_herald_at p hp k]
    simp only [heraldModes, List.getElem?_map, hl, Option.map_some]

/-- … and every local herald is found again on exactly such a remote mode -/
theorem local_herald_is_converted (fixed : Bool) (p e : Exp) (hp : p.WF) (he : fromLocal fixed p = .ok e)
    (l v : Nat) (hlv : (l, v) ∈ p.heralds) :
    ∃ j, (j, v) ∈ e.heralds ∧ (relabelOf p)[j]? = some l := by
  obtain ⟨k, hk⟩ := List.getElem?_of_mem hlv
  refine ⟨p.m + k, ?_, ?_⟩
  · rw [fromLocal_heralds fixed p e he]
    apply List.mem_of_getElem? (i := k)
    rw [enumHeralds_getElem?, hk]
    rfl
  · rw [relabelOf_herald_at p hp k]
    simp only [heraldModes, List.getElem?_map, hk, Option.map_some]

/-- the mapping is DETERMINED by what it is said to be: any list that has the modes of interest, increasing, on its
first `p.m` positions and the herald modes in insertion order behind them is `relabelOf p` -/
theorem relabelOf_unique (p : Exp) (σ : List Nat)
    (h1 : (σ.take p.m).Pairwise (· < ·)) (h2 : ∀ x, x ∈ σ.take p.m ↔ x < p.size ∧ x ∉ heraldModes p)
    (h3 : σ.drop p.m = heraldModes p) : σ = relabelOf p := by
  have ht : σ.take p.m = moiModes p := by
    apply List.Perm.eq_of_pairwise (le := (· < ·)) ?_ h1 (moiModes_sorted p)
    · apply (List.perm_ext_iff_of_nodup ?_ ?_).2
      · intro a; rw [h2, mem_moiModes]
      · exact h1.imp (fun h => Nat.ne_of_lt h)
      · exact (moiModes_sorted p).imp (fun h => Nat.ne_of_lt h)
    · intro a b _ _ hab hba
      omega
  rw [relabelOf_eq, ← ht, ← h3, List.take_append_drop]

/-! ### `remove_modes` as a filter: the input state of the converted processor -/

theorem removeModes_eq_filter (modes : List Nat) (k : Nat) (s : List Nat) :
    removeModes modes k s =
      ((List.range s.length).filter (fun i => !modes.contains (k + i))).map (fun i => s.getD i 0) := by
  induction s generalizing k with
  | nil => simp [removeModes]
  | cons x xs ih =>
    have hf : (fun i => !modes.contains (k + 1 + i)) = ((fun i => !modes.contains (k + i)) ∘ Nat.succ) := by
      funext i; simp only [Function.comp, Nat.succ_eq_add_one]; congr 2; omega
    have hg : (fun i => xs.getD i 0) = ((fun i => (x :: xs).getD i 0) ∘ Nat.succ) := by
      funext i; simp [Function.comp]
    rw [removeModes, ih (k + 1), List.length_cons, List.range_succ_eq_map, List.filter_cons, List.filter_map, hf, hg]
    by_cases hc : modes.contains k = true
    · rw [if_pos hc, if_neg (by simpa using hc), List.map_map]
    · rw [if_neg hc, if_pos (by simpa using hc), List.map_cons, List.map_map]
      rfl

theorem map_getD_range (t : List Nat) (n : Nat) (h : n ≤ t.length) :
    (List.range n).map (fun i => t.getD i 0) = t.take n := by
  apply List.ext_getElem
  · simp [Nat.min_eq_left h]
  · intro i h1 h2
    simp only [List.length_map, List.length_range] at h1
    simp [List.getD_eq_getElem?_getD, List.getElem?_eq_getElem (Nat.lt_of_lt_of_le h1 h)]

theorem filter_range_tail (m h : Nat) :
    (List.range (m + h)).filter (fun k => !(List.range' m h).contains k) = List.range m := by
  rw [List.range_add, List.filter_append]
  have h1 : (List.range m).filter (fun k => !(List.range' m h).contains k) = List.range m := by
    apply List.filter_eq_self.2
    intro a ha
    have := List.mem_range.1 ha
    simp only [Bool.not_eq_true', List.contains_eq_mem, decide_eq_false_iff_not, List.mem_range'_1]
    omega
  have h2 : ((List.range h).map (m + ·)).filter (fun k => !(List.range' m h).contains k) = [] := by
    apply List.filter_eq_nil_iff.2
    intro a ha
    obtain ⟨i, hi, rfl⟩ := List.mem_map.1 ha
    have := List.mem_range.1 hi
    simp only [Bool.not_eq_true, Bool.not_eq_false', List.contains_eq_mem, decide_eq_true_eq, List.mem_range'_1]
    omega
  rw [h1, h2, List.append_nil]

end PM.C16
