/-
  C14 (wave 7) — the LINK between the rational-valued session model (`Model/C14Expr.lean`: what `float()` reads,
  evaluated with the table of function values the harness supplies) and the real-valued symbolic theorems
  (`Lemmas/C14Sym.lean`: `evalR`, the function symbols interpreted at `ℝ`): evaluation of an expression commutes
  with a field homomorphism along which the interpretation of `pi` and of the function symbols is respected.
-/
import PercevalModel.Lemmas.C14Sym
import Mathlib.Analysis.Real.Pi.Irrational

namespace PM.C14

/-- the constant `pi` occurs -/
def XExpr.usesPi : XExpr → Bool
  | .pi => true
  | .var _ | .const _ => false
  | .add a b | .sub a b | .mul a b | .div a b => a.usesPi || b.usesPi
  | .powi a _ | .neg a | .app _ a => a.usesPi

/-- arithmetic of parameters and numbers only (`+ - * /`, integer powers, unary minus): what the overloaded
operators of `Parameter` build; no `pi`, no function symbol -/
def XExpr.arith : XExpr → Bool
  | .pi | .app _ _ => false
  | .var _ | .const _ => true
  | .add a b | .sub a b | .mul a b | .div a b => a.arith && b.arith
  | .powi a _ | .neg a => a.arith

theorem XExpr.arith_usesPi {e : XExpr} (h : e.arith = true) : e.usesPi = false := by
  induction e with
  | var x => rfl
  | const q => rfl
  | pi => simp [XExpr.arith] at h
  | add a b iha ihb | sub a b iha ihb | mul a b iha ihb | div a b iha ihb =>
    simp only [XExpr.arith, Bool.and_eq_true] at h
    simp [XExpr.usesPi, iha h.1, ihb h.2]
  | powi a n iha | neg a iha => exact iha h
  | app f a iha => simp [XExpr.arith] at h

section map
variable {K L : Type*} [Field K] [DecidableEq K] [Field L] [DecidableEq L]

/-- `J` over `L` extends `I` over `K` along `f`: every function value `I` knows is the value `J` gives -/
def Interp.Extends (f : K →+* L) (I : Interp K) (J : Interp L) : Prop :=
  ∀ g x y, I.fn g x = some y → J.fn g (f x) = some (f y)

/-- Evaluation commutes with a field homomorphism: when `e` evaluates to `v` under `I` at `env`, it evaluates to
`f v` under any interpretation extending `I` at the image environment (`pi` has to be respected only if it
occurs). -/
theorem XExpr.eval_map (f : K →+* L) (I : Interp K) (J : Interp L) (hfn : Interp.Extends f I J)
    (env : String → Option K) (e : XExpr) :
    (e.usesPi = true → f I.pi = J.pi) → ∀ {v : K}, e.eval I env = some v →
      e.eval J (fun x => (env x).map f) = some (f v) := by
  induction e with
  | var x =>
    intro _ v h
    simp only [XExpr.eval] at h ⊢
    simp [h]
  | const q =>
    intro _ v h
    simp only [XExpr.eval, Option.some.injEq] at h ⊢
    rw [← h, map_ratCast]
  | pi =>
    intro hpi v h
    simp only [XExpr.eval, Option.some.injEq] at h ⊢
    rw [← h, hpi rfl]
  | add a b iha ihb =>
    intro hpi v h
    simp only [XExpr.usesPi, Bool.or_eq_true] at hpi
    simp only [XExpr.eval] at h ⊢
    cases hx : a.eval I env with
    | none => simp [hx] at h
    | some x =>
      cases hy : b.eval I env with
      | none => simp [hx, hy] at h
      | some y =>
        simp only [hx, hy, Option.bind_eq_bind, Option.bind_some, Option.pure_def, Option.some.injEq] at h
        rw [iha (fun hp => hpi (Or.inl hp)) hx, ihb (fun hp => hpi (Or.inr hp)) hy, ← h]
        simp
  | sub a b iha ihb =>
    intro hpi v h
    simp only [XExpr.usesPi, Bool.or_eq_true] at hpi
    simp only [XExpr.eval] at h ⊢
    cases hx : a.eval I env with
    | none => simp [hx] at h
    | some x =>
      cases hy : b.eval I env with
      | none => simp [hx, hy] at h
      | some y =>
        simp only [hx, hy, Option.bind_eq_bind, Option.bind_some, Option.pure_def, Option.some.injEq] at h
        rw [iha (fun hp => hpi (Or.inl hp)) hx, ihb (fun hp => hpi (Or.inr hp)) hy, ← h]
        simp
  | mul a b iha ihb =>
    intro hpi v h
    simp only [XExpr.usesPi, Bool.or_eq_true] at hpi
    simp only [XExpr.eval] at h ⊢
    cases hx : a.eval I env with
    | none => simp [hx] at h
    | some x =>
      cases hy : b.eval I env with
      | none => simp [hx, hy] at h
      | some y =>
        simp only [hx, hy, Option.bind_eq_bind, Option.bind_some, Option.pure_def, Option.some.injEq] at h
        rw [iha (fun hp => hpi (Or.inl hp)) hx, ihb (fun hp => hpi (Or.inr hp)) hy, ← h]
        simp
  | div a b iha ihb =>
    intro hpi v h
    simp only [XExpr.usesPi, Bool.or_eq_true] at hpi
    simp only [XExpr.eval] at h ⊢
    cases hx : a.eval I env with
    | none => simp [hx] at h
    | some x =>
      cases hy : b.eval I env with
      | none => simp [hx, hy] at h
      | some y =>
        simp only [hx, hy, Option.bind_eq_bind, Option.bind_some, Option.pure_def] at h
        by_cases hy0 : y = 0
        · simp [hy0] at h
        · simp only [hy0, if_false, Option.some.injEq] at h
          rw [iha (fun hp => hpi (Or.inl hp)) hx, ihb (fun hp => hpi (Or.inr hp)) hy, ← h]
          have : f y ≠ 0 := (map_ne_zero f).mpr hy0
          simp [this]
  | powi a n iha =>
    intro hpi v h
    simp only [XExpr.usesPi] at hpi
    simp only [XExpr.eval] at h ⊢
    cases hx : a.eval I env with
    | none => simp [hx] at h
    | some x =>
      simp only [hx, Option.bind_eq_bind, Option.bind_some, Option.pure_def] at h
      by_cases hc : n < 0 ∧ x = 0
      · simp [hc] at h
      · simp only [hc, if_false, Option.some.injEq] at h
        rw [iha hpi hx, ← h]
        simpa using not_and.mp hc
  | neg a iha =>
    intro hpi v h
    simp only [XExpr.usesPi] at hpi
    simp only [XExpr.eval] at h ⊢
    cases hx : a.eval I env with
    | none => simp [hx] at h
    | some x =>
      simp only [hx, Option.bind_eq_bind, Option.bind_some, Option.pure_def, Option.some.injEq] at h
      rw [iha hpi hx, ← h]
      simp
  | app g a iha =>
    intro hpi v h
    simp only [XExpr.usesPi] at hpi
    simp only [XExpr.eval] at h ⊢
    cases hx : a.eval I env with
    | none => simp [hx] at h
    | some x =>
      simp only [hx, Option.bind_eq_bind, Option.bind_some] at h
      rw [iha hpi hx]
      simpa using hfn g x v h

/-- an arithmetic expression does not look at the interpretation -/
theorem XExpr.eval_arith_interp (I I' : Interp K) (env : String → Option K) {e : XExpr} (h : e.arith = true) :
    e.eval I env = e.eval I' env := by
  induction e with
  | var x => rfl
  | const q => rfl
  | pi => simp [XExpr.arith] at h
  | add a b iha ihb | sub a b iha ihb | mul a b iha ihb | div a b iha ihb =>
    simp only [XExpr.arith, Bool.and_eq_true] at h
    simp only [XExpr.eval, iha h.1, ihb h.2]
  | powi a n iha | neg a iha =>
    simp only [XExpr.arith] at h
    simp only [XExpr.eval, iha h]
  | app f a iha => simp [XExpr.arith] at h

/-- For arithmetic expressions evaluation commutes with EVERY field homomorphism, as an equation of options (a
field homomorphism is injective: a divisor is zero on one side iff it is on the other). -/
theorem XExpr.eval_map_arith (f : K →+* L) (I : Interp K) (J : Interp L) (env : String → Option K) {e : XExpr}
    (h : e.arith = true) : e.eval J (fun x => (env x).map f) = (e.eval I env).map f := by
  induction e with
  | var x => rfl
  | const q => simp [XExpr.eval]
  | pi => simp [XExpr.arith] at h
  | add a b iha ihb | sub a b iha ihb | mul a b iha ihb =>
    simp only [XExpr.arith, Bool.and_eq_true] at h
    simp only [XExpr.eval, iha h.1, ihb h.2]
    cases a.eval I env <;> cases b.eval I env <;> simp
  | div a b iha ihb =>
    simp only [XExpr.arith, Bool.and_eq_true] at h
    simp only [XExpr.eval, iha h.1, ihb h.2]
    cases a.eval I env with
    | none => simp
    | some x =>
      cases b.eval I env with
      | none => simp
      | some y =>
        by_cases hy : y = 0
        · simp [hy]
        · have : f y ≠ 0 := (map_ne_zero f).mpr hy
          simp [hy, this]
  | powi a n iha =>
    simp only [XExpr.arith] at h
    simp only [XExpr.eval, iha h]
    cases a.eval I env with
    | none => simp
    | some x =>
      by_cases hc : n < 0 ∧ x = 0
      · simp [hc]
      · simp [hc]
  | neg a iha =>
    simp only [XExpr.arith] at h
    simp only [XExpr.eval, iha h]
    cases a.eval I env <;> simp
  | app f a iha => simp [XExpr.arith] at h

end map

/-- the rational values of the session as real numbers: the assignment the symbolic matrix is evaluated at -/
noncomputable def realEnv (env : String → Option ℚ) : String → Option ℝ := fun x => (env x).map fun q : ℚ => (q : ℝ)

/-- a table of function values over `ℚ` (what the harness hands to the model) is TRUE: every entry is the exact
real value of the function (`sin 0 = 0`, `cos 0 = 1`, `exp 0 = 1`, `sqrt 4 = 2`, `acos 1 = 0`, …) -/
def Interp.TrueTable (I : Interp ℚ) : Prop := Interp.Extends (Rat.castHom ℝ) I realInterp

/-- session value → real value: an expression without `pi` that evaluates to `v` with a true table evaluates to
`(v : ℝ)` at the real numbers. -/
theorem XExpr.evalR_of_eval (I : Interp ℚ) (hI : I.TrueTable) (env : String → Option ℚ) {e : XExpr}
    (hpi : e.usesPi = false) {v : ℚ} (h : e.eval I env = some v) : e.evalR (realEnv env) = some (v : ℝ) :=
  XExpr.eval_map (Rat.castHom ℝ) I realInterp hI env e (by simp [hpi]) h

/-- …and for arithmetic of parameters no assumption on the table is needed, and it is an equation. -/
theorem XExpr.evalR_arith (I : Interp ℚ) (env : String → Option ℚ) {e : XExpr} (h : e.arith = true) :
    e.evalR (realEnv env) = (e.eval I env).map fun q : ℚ => (q : ℝ) :=
  XExpr.eval_map_arith (Rat.castHom ℝ) I realInterp env h

/-- the session value of `e` is exactly its real value: `e` is arithmetic of parameters and numbers (no assumption
on the table), or `e` does not contain `pi` and the table of function values is true -/
def XExpr.Linkable (I : Interp ℚ) (e : XExpr) : Prop := e.arith = true ∨ (I.TrueTable ∧ e.usesPi = false)

theorem XExpr.linkable_const (I : Interp ℚ) (q : ℚ) : (XExpr.const q).Linkable I := Or.inl rfl

theorem XExpr.evalR_of_linkable (I : Interp ℚ) (env : String → Option ℚ) {e : XExpr} (hl : e.Linkable I) {v : ℚ}
    (h : e.eval I env = some v) : e.evalR (realEnv env) = some (v : ℝ) := by
  rcases hl with ha | ⟨hI, hpi⟩
  · rw [XExpr.evalR_arith I env ha, h]; rfl
  · exact XExpr.evalR_of_eval I hI env hpi h

/-- `π` is not the cast of a rational number -/
theorem pi_ne_ratCast (q : ℚ) : Real.pi ≠ (q : ℝ) := fun h => irrational_pi ⟨q, h.symm⟩

end PM.C14
