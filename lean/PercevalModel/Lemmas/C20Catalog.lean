/-
  C20 — the gates the converter places, as steps of the circuit theorem with leaky gates
  (`forest_circuit_implements`): heralded CZ, heralded CNOT (heralded), post-processed CNOT (leaky), one-qubit
  gates (any 2×2 matrix, heralded), and any other heralded step given with its proof (SWAP).
-/
import PercevalModel.Lemmas.C20ModeMap
import PercevalModel.Lemmas.C20HeraldedCnot

open Matrix

namespace PM.C20
open PM.Fock PM.SimSpec

variable {R : Type*}

/-- layout of a one-qubit gate on its own: two modes, no herald -/
def oneQLayout : Layout := ⟨2, [0], []⟩

theorem oneQLayout_ok : oneQLayout.ok = true := by decide

/-- a one-qubit gate given by its entries, as a function of the bit lists -/
def oneQubit [Zero R] (B : Matrix (Fin 2) (Fin 2) R) : List Bool → List Bool → R
  | [a], [c] => B (if a then 1 else 0) (if c then 1 else 0)
  | _, _ => 0

section ring
variable [CommRing R]

theorem oneQ_amp (B : Matrix (Fin 2) (Fin 2) R) (bo bi : List Bool) (hbo : bo.length = 1) (hbi : bi.length = 1) :
    gateAmp B oneQLayout PS.tt bo bi = 1 * oneQubit B bo bi := by
  match bo, hbo, bi, hbi with
  | [a], _, [c], _ =>
    rw [one_mul]
    unfold gateAmp oneQLayout
    simp only [PS.eval, if_true]
    cases a <;> cases c <;>
      (rw [PM.C02.pamp_single _ _ _ (by decide) (by decide)]; rfl)

theorem oneQ_noLeak (B : Matrix (Fin 2) (Fin 2) R) : NoLeak oneQLayout B :=
  noLeak_of_localOn_pair oneQLayout oneQLayout_ok 0 (by decide) (by
    intro i j hij
    exfalso
    rcases hij with h | h
    · apply h; have := i.isLt; simp only [oneQLayout] at this; simp; omega
    · apply h; have := j.isLt; simp only [oneQLayout] at this; simp; omega)

/-- **any one-qubit gate (any 2×2 matrix) placed on any qubit of any processor** is a heralded step with table
`1 • (B on that qubit ⊗ identity)` -/
theorem oneQ_step_ok {L : Layout} (P : Placement oneQLayout L) (hok : L.ok = true)
    (hh : ∀ p ∈ L.heralds, p.2 ≤ 1) (B : Matrix (Fin 2) (Fin 2) R) :
    (placedStep P B (oneQubit B) 1 false).Ok :=
  placedStep_ok P oneQLayout_ok hok hh B _ 1 false (oneQ_amp B) (fun _ => oneQ_noLeak B)

/-- **the post-processed CNOT placed on any two qubits of any processor** is a (leaky) step with table
`r² • (CNOT on those qubits ⊗ identity)` -/
theorem ppcnot_step_ok {L : Layout} (P : Placement ppLayout L) (hok : L.ok = true)
    (hh : ∀ p ∈ L.heralds, p.2 ≤ 1) (r h : R) (h2 : 2 * h * h = 1) :
    (placedStep P (ppcnotCircuit r h) (twoQubit cnotEntry) (r * r) true).Ok := by
  rw [ppcnotCircuit_eq r h h2]
  exact placedStep_ok P (by decide) hok hh _ _ _ true (fun bo bi hbo hbi => ppcnot_amp_tt r h bo bi hbo hbi)
    (fun hl => by cases hl)

theorem hcz_amp_tt' (r h c2 s2 : R) (hr : 3 * r * r = 1) (hh : 2 * h * h = 1)
    (hc : 6 * c2 * c2 = 3 + 6 * h * r) (hs : 6 * s2 * s2 = 3 - 6 * h * r) (hcs : 2 * c2 * s2 = r)
    (bo bi : List Bool) (hbo : bo.length = 2) (hbi : bi.length = 2) :
    gateAmp (hczMatrix r h c2 s2) hczLayout PS.tt bo bi = (2 * h * r * (r * r)) * twoQubit czEntry bo bi := by
  match bo, hbo, bi, hbi with
  | [a, b], _, [c, d], _ => exact hcz_amp r h c2 s2 hr hh hc hs hcs a b c d

/-- **the heralded CZ placed anywhere** is a heralded step -/
theorem hcz_step_ok {L : Layout} (P : Placement hczLayout L) (hok : L.ok = true)
    (hhL : ∀ p ∈ L.heralds, p.2 ≤ 1) (r h c2 s2 : R) (hr : 3 * r * r = 1) (hh : 2 * h * h = 1)
    (hc : 6 * c2 * c2 = 3 + 6 * h * r) (hs : 6 * s2 * s2 = 3 - 6 * h * r) (hcs : 2 * c2 * s2 = r) :
    (placedStep P (hczCircuit r h c2 s2) (twoQubit czEntry) (2 * h * r * (r * r)) false).Ok := by
  rw [hczCircuit_eq r h c2 s2 hh]
  exact placedStep_ok P hczLayout_ok hok hhL _ _ _ false
    (fun bo bi hbo hbi => hcz_amp_tt' r h c2 s2 hr hh hc hs hcs bo bi hbo hbi)
    (fun _ => hcz_noLeak r h c2 s2 hr hh hc hs hcs)

end ring

section field
variable [Field R] [CharZero R]

/-- **the heralded CNOT placed anywhere** is a heralded step -/
theorem hcnot_step_ok {L : Layout} (P : Placement hczLayout L) (hok : L.ok = true)
    (hhL : ∀ p ∈ L.heralds, p.2 ≤ 1) (r h c2 s2 : R) (hr : 3 * r * r = 1) (hh : 2 * h * h = 1)
    (hc : 6 * c2 * c2 = 3 + 6 * h * r) (hs : 6 * s2 * s2 = 3 - 6 * h * r) (hcs : 2 * c2 * s2 = r) :
    (placedStep P (hcnotCircuit r h c2 s2) (twoQubit cnotEntry) (2 * h * r * (r * r)) false).Ok :=
  placedStep_ok P hczLayout_ok hok hhL _ _ _ false
    (fun bo bi hbo hbi => hcnot_amp_tt r h c2 s2 hr hh hc hs hcs bo bi hbo hbi)
    (fun _ => hcnot_noLeak r h c2 s2 hr hh hc hs hcs)

/-- what the converter places for one gate of the source circuit -/
inductive ConvGate (L : Layout) (R : Type*) where
  | oneQ (P : Placement oneQLayout L) (B : Matrix (Fin 2) (Fin 2) R)
  | hcz (P : Placement hczLayout L)
  | hcnot (P : Placement hczLayout L)
  | ppcnot (P : Placement ppLayout L)
  | other (s : Step L R)            -- e.g. the `PERM` of a SWAP, with its own proof (`ConvGate.Good`)

/-- the step a converter gate stands for (`r, h, c2, s2`: the beam-splitter entries) -/
def ConvGate.step {L : Layout} (r h c2 s2 : R) : ConvGate L R → Step L R
  | .oneQ P B => placedStep P B (oneQubit B) 1 false
  | .hcz P => placedStep P (hczCircuit r h c2 s2) (twoQubit czEntry) (2 * h * r * (r * r)) false
  | .hcnot P => placedStep P (hcnotCircuit r h c2 s2) (twoQubit cnotEntry) (2 * h * r * (r * r)) false
  | .ppcnot P => placedStep P (ppcnotCircuit r h) (twoQubit cnotEntry) (r * r) true
  | .other s => s

/-- side condition for the gates given abstractly: a heralded step with its proof -/
def ConvGate.Good {L : Layout} : ConvGate L R → Prop
  | .other s => s.Ok ∧ s.leaky = false
  | _ => True

theorem ConvGate.step_ok {L : Layout} (hok : L.ok = true) (hhL : ∀ p ∈ L.heralds, p.2 ≤ 1) (r h c2 s2 : R)
    (hr : 3 * r * r = 1) (hh : 2 * h * h = 1) (hc : 6 * c2 * c2 = 3 + 6 * h * r)
    (hs : 6 * s2 * s2 = 3 - 6 * h * r) (hcs : 2 * c2 * s2 = r) (g : ConvGate L R) (hg : g.Good) :
    (g.step r h c2 s2).Ok := by
  cases g with
  | oneQ P B => exact oneQ_step_ok P hok hhL B
  | hcz P => exact hcz_step_ok P hok hhL r h c2 s2 hr hh hc hs hcs
  | hcnot P => exact hcnot_step_ok P hok hhL r h c2 s2 hr hh hc hs hcs
  | ppcnot P => exact ppcnot_step_ok P hok hhL r h hh
  | other s => exact hg.1

/-- the steps of a list of converter gates -/
def convSteps {L : Layout} (r h c2 s2 : R) (gs : List (ConvGate L R)) : List (Step L R) :=
  gs.map fun g => g.step r h c2 s2

/-- **a converted circuit — one-qubit gates, heralded CZ / CNOT, post-processed CNOTs, SWAPs — implements the
product of its gates** when the executable cut check accepts its shape (`cutCheck`: no post-processed CNOT has
its two qubits connected by the two-qubit gates that follow it) and no herald mode is shared by two gates.
Scalar: `∏` of `1`, `2hr·r²` (`√(2/27)`), `r²` (`1/3`). -/
theorem conv_circuit_implements {L : Layout} (hok : L.ok = true) (hhL : ∀ p ∈ L.heralds, p.2 ≤ 1) (ps : PS)
    (hps : ∀ b : List Bool, b.length = L.qubits.length → ps.eval (encode L b) = true)
    (r h c2 s2 : R) (hr : 3 * r * r = 1) (hh : 2 * h * h = 1) (hc : 6 * c2 * c2 = 3 + 6 * h * r)
    (hs : 6 * s2 * s2 = 3 - 6 * h * r) (hcs : 2 * c2 * s2 = r)
    (gs : List (ConvGate L R)) (hgood : ∀ g ∈ gs, g.Good)
    (hcut : cutCheck ((convSteps r h c2 s2 gs).map fun s => (s.Q, s.leaky)) = true)
    (hp : (convSteps r h c2 s2 gs).Pairwise (fun g g' => ∀ hd ∈ L.heralds, hd.1 ∉ g.S ∨ hd.1 ∉ g'.S)) :
    gateTable (PM.C02.circuitMatrix ((convSteps r h c2 s2 gs).map (·.U))) L ps =
      (((convSteps r h c2 s2 gs).map (·.c)).prod) •
        (convSteps r h c2 s2 gs).foldl (fun M g => g.G * M) 1 := by
  have hok' : ∀ s ∈ convSteps r h c2 s2 gs, s.Ok := by
    intro s hs'
    obtain ⟨g, hg, rfl⟩ := List.mem_map.1 hs'
    exact ConvGate.step_ok hok hhL r h c2 s2 hr hh hc hs hcs g (hgood g hg)
  have hcut' : CutOk (convSteps r h c2 s2 gs) := cutCheck_sound _ hcut
  exact (forest_circuit_implements L hok hhL ps hps (convSteps r h c2 s2 gs) hok' hcut' hp).1

end field

end PM.C20
