/-
  C11 — more lemmas for the simplifier: well-formedness of the component list is preserved by every
  branch of one iteration of `simplify`, and the whole loop (`simplifyRun`, a plain fold of
  `simplifyStep`) keeps the matrix of the circuit.
-/
import PercevalModel.Lemmas.C11Lists

set_option linter.unusedSimpArgs false
set_option linter.unusedSectionVars false

open Matrix PM
namespace PM.C11
variable {R : Type} {P : Type}

/-! ### well-formedness is preserved -/

theorem pushPerm_wf (ι : Interp P R) {m : ℕ} (l : List (Item P)) (rp : ℕ × List ℕ)
    (hl : ∀ x ∈ l, x.WF ι m) (hfit : rp.1 + rp.2.length ≤ m)
    (hp : IsPermList rp.2.length rp.2) : ∀ x ∈ pushPerm l rp, x.WF ι m := by
  unfold pushPerm
  split
  · exact hl
  · intro x hx
    rcases List.mem_append.1 hx with h | h
    · exact hl x h
    · simp only [List.mem_singleton] at h
      subst h
      exact ⟨hfit, rfl, hp⟩

/-- the reduced form of a permutation is a well-formed component inside the same modes -/
theorem reducePerm_wf {n : ℕ} {τ : List ℕ} (h : IsPermList n τ) (hn : 0 < n) (r0 : ℕ) {m : ℕ}
    (hm : r0 + n ≤ m) :
    (reducePerm r0 τ).1 + (reducePerm r0 τ).2.length ≤ m ∧
      IsPermList (reducePerm r0 τ).2.length (reducePerm r0 τ).2 :=
  ⟨Nat.le_trans (reduce_fits h hn r0) hm, (reducePerm_extend h hn r0).1⟩

theorem psWalk_wf [PhaseAlg P] (ι : Interp P R) (m : ℕ) (display wantDrop : Bool) (φ : P) :
    (rev : List (Item P)) → (r0 : ℕ) → (l : List (Item P)) → (∀ it ∈ rev, it.WF ι m) →
    psWalk m display wantDrop φ r0 rev = some l → ∀ x ∈ l, x.WF ι m
  | [], _, _, _, h => by simp [psWalk] at h
  | it :: rest, r0, l, hw, h => by
    have hwit := hw it (by simp)
    have hwrest : ∀ x ∈ rest, x.WF ι m := fun x hx => hw x (by simp [hx])
    have step : ∀ (r0' : ℕ) (l' : List (Item P)),
        psWalk m display wantDrop φ r0' rest = some l' → ∀ x ∈ it :: l', x.WF ι m := by
      intro r0' l' hl' x hx
      rcases List.mem_cons.1 hx with hx | hx
      · rw [hx]; exact hwit
      · exact psWalk_wf ι m display wantDrop φ rest r0' l' hwrest hl' x hx
    unfold psWalk at h
    cases hk : it.k with
    | ps ψ =>
      simp only [hk] at h
      by_cases c : r0 = it.r0
      · rw [if_pos c] at h
        have hl := Option.some.inj h
        split at hl
        · rw [← hl]; exact hwrest
        · rw [← hl]
          intro x hx
          rcases List.mem_cons.1 hx with hx | hx
          · obtain ⟨h1, h2⟩ := hwit
            rw [hk] at h2
            rw [hx]
            exact ⟨h1, h2⟩
          · exact hwrest x hx
      · rw [if_neg c] at h
        obtain ⟨l', hl', rfl⟩ := Option.map_eq_some_iff.1 h
        exact step r0 l' hl'
    | psVar v =>
      simp only [hk] at h
      obtain ⟨l', hl', rfl⟩ := Option.map_eq_some_iff.1 h
      exact step r0 l' hl'
    | perm σ =>
      simp only [hk] at h
      obtain ⟨l', hl', rfl⟩ := Option.map_eq_some_iff.1 h
      exact step _ l' hl'
    | other v =>
      simp only [hk] at h
      by_cases c : it.r0 ≤ r0 ∧ r0 < it.r0 + it.w
      · rw [if_pos c] at h; exact absurd h (by simp)
      · rw [if_neg c] at h
        obtain ⟨l', hl', rfl⟩ := Option.map_eq_some_iff.1 h
        exact step r0 l' hl'

theorem simplifyPS_wf [PhaseAlg P] (ι : Interp P R) (m : ℕ) (display wantDrop : Bool)
    (comps : List (Item P)) (r0 : ℕ) (φ : P) (hr : r0 < m) (hw : ∀ it ∈ comps, it.WF ι m) :
    ∀ x ∈ simplifyPS m display wantDrop comps r0 φ, x.WF ι m := by
  unfold simplifyPS
  cases h : psWalk m display wantDrop φ r0 comps.reverse with
  | some l =>
    simp only
    intro x hx
    exact psWalk_wf ι m display wantDrop φ comps.reverse r0 l
      (fun it hit => hw it (List.mem_reverse.1 hit)) h x (List.mem_reverse.1 hx)
  | none =>
    simp only
    split
    · exact hw
    · intro x hx
      rcases List.mem_append.1 hx with h1 | h1
      · exact hw x h1
      · simp only [List.mem_singleton] at h1
        rw [h1]
        exact ⟨by simp only; omega, rfl⟩

/-- `_move_comp` with a valid unravelling permutation keeps every component inside the circuit -/
theorem moveComp_wf (ι : Interp P R) {m : ℕ} {ρ : List ℕ} (hρ : IsPermList m ρ)
    (l : List (Item P)) (hw : ∀ it ∈ l, it.WF ι m)
    (hv : ∀ it ∈ l, ∀ t < it.w,
      (invertPerm ρ).getD (it.r0 + t) m = (invertPerm ρ).getD it.r0 m + t) :
    ∀ x ∈ moveComp l (invertPerm ρ), x.WF ι m := by
  intro x hx
  simp only [moveComp, List.mem_map] at hx
  obtain ⟨it, hit, rfl⟩ := hx
  obtain ⟨hfit, hk⟩ := hw it hit
  refine ⟨?_, hk⟩
  simp only
  have hip := invertPerm_isPerm hρ
  by_cases h0 : it.w = 0
  · rw [h0, Nat.add_zero]
    by_cases hr : it.r0 < m
    · exact Nat.le_of_lt (getD_lt hip hr)
    · rw [List.getD_eq_getElem?_getD, List.getElem?_eq_none (by rw [hip.1]; omega)]
      simp
  · have hlast := hv it hit (it.w - 1) (by omega)
    have hlt : it.r0 + (it.w - 1) < m := by omega
    have h1 : (invertPerm ρ).getD (it.r0 + (it.w - 1)) m < m := by
      rw [getD_irrel _ _ m 0 (by rw [hip.1]; exact hlt)]; exact getD_lt hip hlt
    have h2 : (invertPerm ρ).getD it.r0 m = (invertPerm ρ).getD it.r0 0 :=
      getD_irrel _ _ _ _ (by rw [hip.1]; omega)
    omega

theorem unravel_wf (ι : Interp P R) {m : ℕ} (hm : 0 < m) (display : Bool)
    (before : List (Item P)) (prev : Item P) (prevσ : List ℕ) (inComps : List (Item P))
    (r0 : ℕ) (σ ρ : List ℕ) (l : List (Item P))
    (hprev : prev.k = .perm prevσ) (hwp : prev.WF ι m) (hwb : ∀ it ∈ before, it.WF ι m)
    (hwin : ∀ it ∈ inComps, it.WF ι m)
    (hσ : IsPermList σ.length σ) (hfit : r0 + σ.length ≤ m)
    (hvalid : validChoice m inComps ρ = true)
    (h : unravel m display before prev prevσ inComps r0 σ ρ = some l) :
    ∀ x ∈ l, x.WF ι m := by
  obtain ⟨hρ, hv⟩ := validChoice_spec hvalid
  obtain ⟨hpfit, hpk⟩ := hwp
  simp only [hprev] at hpk
  have hpfit' : prev.r0 + prevσ.length ≤ m := by rw [hpk.1]; exact hpfit
  have hc := extendPerm_isPerm hσ hfit
  have hpl := extendPerm_isPerm hpk.2 hpfit'
  have hpi := invertPerm_isPerm hpl
  have hcomp := compose_isPerm hpi hρ
  have hll := invertPerm_isPerm hcomp
  have hright := compose_isPerm hc hρ
  have wr := reducePerm_wf hright hm 0 (m := m) (by omega)
  have wl := reducePerm_wf hll hm 0 (m := m) (by omega)
  unfold unravel at h
  simp only at h
  split at h
  · have hl := (Option.some.inj h).symm
    subst hl
    refine pushPerm_wf ι _ _ ?_ wr.1 wr.2
    intro x hx
    rcases List.mem_append.1 hx with h1 | h1
    · exact pushPerm_wf ι _ _ hwb wl.1 wl.2 x h1
    · exact moveComp_wf ι hρ inComps hwin hv x h1
  · exact absurd h (by simp)

/-- **`_simplify_perm` returns a component list that fits the circuit**, in every branch -/
theorem simplifyPerm_wf (ι : Interp P R) {m : ℕ} (hm : 0 < m)
    (fixedAdj display : Bool) (comps : List (Item P)) (r0 : ℕ) (σ : List ℕ)
    (choice : Option (List ℕ)) (l : List (Item P))
    (hw : ∀ it ∈ comps, it.WF ι m) (hσ : IsPermList σ.length σ) (h0 : 0 < σ.length)
    (hfit : r0 + σ.length ≤ m)
    (h : simplifyPerm fixedAdj m display comps r0 σ choice = some l) :
    ∀ x ∈ l, x.WF ι m := by
  have hkeep : ∀ x ∈ pushPerm comps (reducePerm 0 (extendPerm r0 σ m)), x.WF ι m := by
    have hc := extendPerm_isPerm hσ hfit
    have w := reducePerm_wf hc hm 0 (m := m) (by omega)
    exact pushPerm_wf ι _ _ hw w.1 w.2
  unfold simplifyPerm at h
  split at h
  · -- single
    have hl := (Option.some.inj h).symm
    subst hl
    have w := reducePerm_wf hσ h0 r0 hfit
    exact pushPerm_wf ι _ _ hw w.1 w.2
  · -- successive
    split at h
    · rename_i lr0 lw lσ hlast
      have hl := (Option.some.inj h).symm
      subst hl
      have hdec : comps = comps.dropLast ++ [⟨lr0, lw, .perm lσ⟩] :=
        (List.dropLast_append_getLast? _ hlast).symm
      have hwl : (⟨lr0, lw, .perm lσ⟩ : Item P).WF ι m :=
        hw _ (by rw [hdec]; simp)
      obtain ⟨hlfit, hlk⟩ := hwl
      simp only at hlk hlfit
      have hlfit' : lr0 + lσ.length ≤ m := by rw [hlk.1]; exact hlfit
      have hmax : max (lr0 + lσ.length) (r0 + σ.length) ≤ m := Nat.max_le.2 ⟨hlfit', hfit⟩
      have h1 : lr0 + lσ.length ≤ max (lr0 + lσ.length) (r0 + σ.length) := Nat.le_max_left _ _
      have h2 : r0 + σ.length ≤ max (lr0 + lσ.length) (r0 + σ.length) := Nat.le_max_right _ _
      have hcp : IsPermList (max (lr0 + lσ.length) (r0 + σ.length)) (permCompose lr0 lσ r0 σ).2 := by
        have := compose_isPerm (extendPerm_isPerm hσ h2) (extendPerm_isPerm hlk.2 h1)
        simpa [permCompose, extendPerm_length _ _ _ h2] using this
      have hpos : 0 < max (lr0 + lσ.length) (r0 + σ.length) := by omega
      have w := reducePerm_wf hcp hpos 0 (m := m) (by omega)
      refine pushPerm_wf ι _ _ ?_ w.1 w.2
      intro x hx
      exact hw x (List.mem_of_mem_dropLast hx)
    · exact absurd h (by simp)
  · -- non-successive
    simp only at h
    cases choice with
    | none =>
      have hl := (Option.some.inj h).symm
      subst hl
      exact hkeep
    | some ρ =>
      cases hli : lastPermIdx comps with
      | none => rw [hli] at h; exact absurd h (by simp)
      | some i =>
        rw [hli] at h
        simp only at h
        split at h
        · rename_i pr0 pw pσ hget
          split at h
          · rename_i hvalid
            obtain ⟨hilt, hci⟩ := List.getElem?_eq_some_iff.1 hget
            have hdec : comps = comps.take i ++ ⟨pr0, pw, .perm pσ⟩ :: comps.drop (i + 1) := by
              conv_lhs => rw [← List.take_append_drop i comps, List.drop_eq_getElem_cons hilt, hci]
            have hwp : (⟨pr0, pw, .perm pσ⟩ : Item P).WF ι m := hw _ (by rw [hdec]; simp)
            have hwin : ∀ it ∈ comps.drop (i + 1), it.WF ι m :=
              fun it hit => hw it (List.mem_of_mem_drop hit)
            have hwb : ∀ it ∈ comps.take i, it.WF ι m :=
              fun it hit => hw it (List.mem_of_mem_take hit)
            split at h
            · rename_i l' hun
              have hl := (Option.some.inj h).symm
              subst hl
              exact unravel_wf ι hm display _ _ pσ _ r0 σ ρ l rfl hwp hwb hwin hσ hfit hvalid hun
            · have hl := (Option.some.inj h).symm
              subst hl
              exact hkeep
          · exact absurd h (by simp)
        · exact absurd h (by simp)

/-- **one iteration of `simplify` returns a component list that fits the circuit** -/
theorem simplifyStep_wf [PhaseAlg P] (ι : Interp P R) {m : ℕ}
    (fixedAdj display wantDrop : Bool) (choice : Option (List ℕ))
    (comps : List (Item P)) (it : Item P) (l : List (Item P))
    (hw : ∀ x ∈ comps, x.WF ι m) (hit : it.WF ι m) (hpos : 0 < it.w)
    (h : simplifyStep fixedAdj m display wantDrop choice comps it = some l) :
    ∀ x ∈ l, x.WF ι m := by
  have happ : ∀ x ∈ comps ++ [it], x.WF ι m := by
    intro x hx
    rcases List.mem_append.1 hx with h1 | h1
    · exact hw x h1
    · simp only [List.mem_singleton] at h1; rw [h1]; exact hit
  obtain ⟨r0, w, k⟩ := it
  obtain ⟨hfit, hk⟩ := hit
  simp only at hfit hk hpos
  have hm : 0 < m := by omega
  unfold simplifyStep at h
  cases k with
  | perm σ =>
    simp only at h hk
    obtain ⟨hlen, hp⟩ := hk
    subst hlen
    exact simplifyPerm_wf ι hm fixedAdj display comps r0 σ choice l hw hp hpos hfit h
  | ps φ =>
    simp only at h hk
    subst hk
    have hl := (Option.some.inj h).symm
    subst hl
    exact simplifyPS_wf ι m display wantDrop comps r0 φ (by omega) hw
  | psVar v =>
    simp only at h
    rw [← Option.some.inj h]; exact happ
  | other v =>
    simp only at h
    rw [← Option.some.inj h]; exact happ

/-! ### the whole loop -/

/-- one iteration's input: the component appended, the floating-point outcome of the drop test
(`wantDrop`) and the heuristic's unravelling permutation (`none`: keep the circuit as it is) -/
structure Iter (P : Type) where
  it : Item P
  wantDrop : Bool
  choice : Option (List Nat)

/-- the `for r, c in circuit` loop of `simplify`: `acc` is `final_circuit_comp`; an invalid choice
anywhere makes the run undefined (`none`) -/
def simplifyRun [PhaseAlg P] (fixedAdj : Bool) (m : Nat) (display : Bool) :
    List (Iter P) → List (Item P) → Option (List (Item P))
  | [], acc => some acc
  | s :: rest, acc =>
    match simplifyStep fixedAdj m display s.wantDrop s.choice acc s.it with
    | some acc' => simplifyRun fixedAdj m display rest acc'
    | none => none

/-- the loop, started from any well-formed state: the result is well formed and its matrix is the
matrix of the state followed by the components fed in -/
theorem simplifyRun_sound [CommRing R] [PhaseAlg P] (ι : Interp P R)
    (hadd : ∀ a b : P, ι.e (PhaseAlg.add a b) = ι.e a * ι.e b)
    (hdrop : ∀ a : P, PhaseAlg.canDrop a = true → ι.e a = 1)
    {m : ℕ} (fixedAdj display : Bool) :
    (steps : List (Iter P)) → (acc l : List (Item P)) →
    (∀ s ∈ steps, s.it.WF ι m ∧ 0 < s.it.w) → (∀ x ∈ acc, x.WF ι m) →
    simplifyRun fixedAdj m display steps acc = some l →
    (∀ x ∈ l, x.WF ι m) ∧ listU ι m l = listU ι m (acc ++ steps.map (·.it))
  | [], acc, l, _, hacc, h => by
    simp only [simplifyRun] at h
    rw [← Option.some.inj h]
    exact ⟨hacc, by simp⟩
  | s :: rest, acc, l, hs, hacc, h => by
    have hs0 := hs s (by simp)
    have hrest : ∀ t ∈ rest, t.it.WF ι m ∧ 0 < t.it.w := fun t ht => hs t (by simp [ht])
    simp only [simplifyRun] at h
    cases hstep : simplifyStep fixedAdj m display s.wantDrop s.choice acc s.it with
    | none => rw [hstep] at h; exact absurd h (by simp)
    | some acc' =>
      rw [hstep] at h
      simp only at h
      have hwf := simplifyStep_wf ι fixedAdj display s.wantDrop s.choice acc s.it acc' hacc hs0.1
        hs0.2 hstep
      have hU := simplify_step_sound' ι hadd hdrop fixedAdj display s.wantDrop s.choice acc s.it acc'
        hacc hs0.1 hs0.2 hstep
      obtain ⟨i1, i2⟩ := simplifyRun_sound ι hadd hdrop fixedAdj display rest acc' l hrest hwf h
      refine ⟨i1, ?_⟩
      rw [i2, listU_append, hU, ← listU_append]
      simp

/-! ### the run is defined as long as every choice offered is valid -/

theorem lastPermIdx_spec {comps : List (Item P)} {i : ℕ} (h : lastPermIdx comps = some i) :
    ∃ r0 w σ, comps[i]? = some ⟨r0, w, .perm σ⟩ := by
  unfold lastPermIdx at h
  have := List.find?_some h
  revert this
  cases hc : comps[i]? with
  | none => simp
  | some it =>
    obtain ⟨r0, w, k⟩ := it
    cases k with
    | perm σ => intro _; exact ⟨r0, w, σ, rfl⟩
    | ps φ => simp
    | psVar v => simp
    | other v => simp

/-- `_simplify_perm` is defined unless it is offered an invalid unravelling permutation: with
`choice = none` (keep), or in the single / successive branches, it always returns -/
theorem simplifyPerm_isSome (fixedAdj : Bool) (m : ℕ) (display : Bool) (comps : List (Item P))
    (r0 : ℕ) (σ : List ℕ) (choice : Option (List ℕ))
    (hch : ∀ ρ, choice = some ρ → ∀ i, lastPermIdx comps = some i →
      validChoice m (comps.drop (i + 1)) ρ = true) :
    (simplifyPerm fixedAdj m display comps r0 σ choice).isSome = true := by
  unfold simplifyPerm
  split
  · rfl
  · rename_i hb
    -- successive: the last component is the PERM found
    unfold permBranch at hb
    cases hli : lastPermIdx comps with
    | none => rw [hli] at hb; simp at hb
    | some i =>
      rw [hli] at hb
      simp only at hb
      by_cases c : i + 1 = comps.length
      · obtain ⟨pr0, pw, pσ, hget⟩ := lastPermIdx_spec hli
        have hlast : comps.getLast? = some ⟨pr0, pw, .perm pσ⟩ := by
          rw [List.getLast?_eq_getElem?, ← hget]
          congr 1; omega
        rw [hlast]
        rfl
      · rw [if_neg c] at hb
        split at hb <;> simp at hb
  · simp only
    cases choice with
    | none => rfl
    | some ρ =>
      cases hli : lastPermIdx comps with
      | none =>
        rename_i hb
        unfold permBranch at hb
        rw [hli] at hb
        simp at hb
      | some i =>
        obtain ⟨pr0, pw, pσ, hget⟩ := lastPermIdx_spec hli
        simp only [hget, hch ρ rfl i hli, if_true]
        split <;> rfl

/-- one iteration of `simplify` is defined unless it is offered an invalid unravelling permutation -/
theorem simplifyStep_isSome [PhaseAlg P] (fixedAdj : Bool) (m : ℕ) (display wantDrop : Bool)
    (choice : Option (List ℕ)) (comps : List (Item P)) (it : Item P)
    (hch : ∀ ρ, choice = some ρ → ∀ i, lastPermIdx comps = some i →
      validChoice m (comps.drop (i + 1)) ρ = true) :
    (simplifyStep fixedAdj m display wantDrop choice comps it).isSome = true := by
  unfold simplifyStep
  cases hk : it.k with
  | perm σ => exact simplifyPerm_isSome fixedAdj m display comps it.r0 σ choice hch
  | ps φ => rfl
  | psVar v => rfl
  | other v => rfl

/-- the loop with the unravelling switched off (`choice = none` in every iteration: the circuit is
kept whenever the non-successive branch is reached) is defined on every input -/
theorem simplifyRun_keep_isSome [PhaseAlg P] (fixedAdj : Bool) (m : ℕ) (display : Bool) :
    (steps : List (Iter P)) → (acc : List (Item P)) → (∀ s ∈ steps, s.choice = none) →
    (simplifyRun fixedAdj m display steps acc).isSome = true
  | [], _, _ => rfl
  | s :: rest, acc, h => by
    have h0 := h s (by simp)
    have hs := simplifyStep_isSome fixedAdj m display s.wantDrop s.choice acc s.it
      (fun ρ hρ => by rw [h0] at hρ; exact absurd hρ (by simp))
    simp only [simplifyRun]
    cases hstep : simplifyStep fixedAdj m display s.wantDrop s.choice acc s.it with
    | none => rw [hstep] at hs; exact absurd hs (by simp)
    | some acc' =>
      simp only
      exact simplifyRun_keep_isSome fixedAdj m display rest acc' (fun t ht => h t (by simp [ht]))

end PM.C11
