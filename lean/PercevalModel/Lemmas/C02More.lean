/-
  C02 helper lemmas, wave 7: amplitudes stored outside the key space vanish; probabilities are
  non-negative, so a mask keeps between 0 and all of the mass.
-/
import PercevalModel.Model.C02
import PercevalModel.Lemmas.C02Step
import PercevalModel.Lemmas.C02
import PercevalModel.Lemmas.FockComp
import Mathlib.Algebra.Order.BigOperators.Group.List
import Mathlib.Algebra.Order.Field.Basic
import Mathlib.Tactic.Linarith

open Matrix

namespace PM.C02
open PM.Fock PM.FockComp

/-- a state that is not a key of the vector has amplitude zero -/
theorem svGet_eq_zero_of_not_key {R : Type*} [AddCommMonoid R] {M n : ℕ} (sv : SV R)
    (hsv : KeysIn M n sv) (t : List ℕ) (ht : t ∉ allStates M n) : svGet sv t = 0 := by
  unfold svGet
  apply List.sum_eq_zero
  intro x hx
  obtain ⟨p, hp, rfl⟩ := List.mem_map.1 hx
  rw [if_neg]
  intro hpt
  exact ht (hpt ▸ hsv p hp)

theorem normSq_nonneg (a : GQ) : 0 ≤ GQ.normSq a := by
  unfold GQ.normSq
  exact add_nonneg (mul_self_nonneg _) (mul_self_nonneg _)

theorem prob_nonneg {m : ℕ} (U : Matrix (Fin m) (Fin m) GQ) (s t : List ℕ) : 0 ≤ prob U s t := by
  unfold prob
  exact div_nonneg (normSq_nonneg _) (mul_nonneg (Nat.cast_nonneg _) (Nat.cast_nonneg _))

theorem sum_map_nonneg {α : Type*} (l : List α) (f : α → ℚ) (h : ∀ a ∈ l, 0 ≤ f a) :
    0 ≤ (l.map f).sum := by
  apply List.sum_nonneg
  intro x hx
  obtain ⟨a, ha, rfl⟩ := List.mem_map.1 hx
  exact h a ha

/-- a sum of non-negative rationals over a list vanishes iff every term does -/
theorem sum_map_eq_zero_iff {α : Type*} (l : List α) (f : α → ℚ) (h : ∀ a ∈ l, 0 ≤ f a) :
    (l.map f).sum = 0 ↔ ∀ a ∈ l, f a = 0 := by
  induction l with
  | nil => simp
  | cons a r ih =>
    have h1 : 0 ≤ f a := h a List.mem_cons_self
    have h2 : 0 ≤ (r.map f).sum := sum_map_nonneg r f fun b hb => h b (List.mem_cons_of_mem _ hb)
    have ih' := ih fun b hb => h b (List.mem_cons_of_mem _ hb)
    simp only [List.map_cons, List.sum_cons, List.forall_mem_cons]
    constructor
    · intro e
      have ha : f a = 0 := by linarith
      have hr : (r.map f).sum = 0 := by linarith
      exact ⟨ha, ih'.1 hr⟩
    · rintro ⟨ha, hr⟩
      rw [ha, ih'.2 hr, add_zero]

/-- the sum over a sub-list of non-negative terms is at most the whole sum -/
theorem sum_map_sublist_le {α : Type*} {l₁ l₂ : List α} (hl : l₁.Sublist l₂) (f : α → ℚ)
    (h : ∀ a ∈ l₂, 0 ≤ f a) : (l₁.map f).sum ≤ (l₂.map f).sum := by
  apply List.Sublist.sum_le_sum (hl.map f)
  intro x hx
  obtain ⟨a, ha, rfl⟩ := List.mem_map.1 hx
  exact h a ha

/-! ### SLOS without the length hypothesis, the unitary of a component list -/

/-- two ranges give the same sum when the summand vanishes between their ends -/
theorem sum_range_support {R : Type*} [AddCommMonoid R] (G : ℕ → R) (a b : ℕ)
    (h : ∀ p, (a ≤ p ∧ p < b) ∨ (b ≤ p ∧ p < a) → G p = 0) :
    ((List.range a).map G).sum = ((List.range b).map G).sum := by
  have key : ∀ (a d : ℕ), (∀ p, a ≤ p → p < a + d → G p = 0) →
      ((List.range (a + d)).map G).sum = ((List.range a).map G).sum := by
    intro a d hz
    rw [List.range_add, List.map_append, List.sum_append, List.map_map]
    have : ((List.range d).map (G ∘ fun x => a + x)).sum = 0 := by
      apply List.sum_eq_zero
      intro x hx
      obtain ⟨i, hi, rfl⟩ := List.mem_map.1 hx
      exact hz (a + i) (by omega) (by have := List.mem_range.1 hi; omega)
    rw [this, add_zero]
  rcases Nat.le_total a b with hab | hab
  · obtain ⟨d, rfl⟩ := Nat.exists_eq_add_of_le hab
    exact (key a d fun p h1 h2 => h p (Or.inl ⟨h1, h2⟩)).symm
  · obtain ⟨d, rfl⟩ := Nat.exists_eq_add_of_le hab
    exact key b d fun p h1 h2 => h p (Or.inr ⟨h1, h2⟩)

/-- `slosCoef_eq_permRec` for an output list of ANY length: a photon recorded beyond the matrix meets
only zero entries, a mode missing from the list holds no photon -/
theorem slosCoef_eq_permRec_any {R : Type*} [CommRing R] {m : ℕ} (U : Matrix (Fin m) (Fin m) R) :
    ∀ (cs t : List ℕ), cs.length = t.sum →
      (prodFact t : R) * slosCoef U cs t = permRec (entry U) (expand t) cs
  | [], t, hs => by
    have h0 : t.sum = 0 := by simpa using hs.symm
    simp [slosCoef, permRec, all_zero_of_sum_zero t h0, prodFact_of_sum_zero t h0]
  | c :: cs, t, hs => by
    have hs' : t.sum = cs.length + 1 := by simpa using hs.symm
    rw [permRec]
    have hterm : ∀ i ∈ List.range (expand t).length,
        entry U ((expand t).getD i 0) c * permRec (entry U) ((expand t).eraseIdx i) cs =
        (fun p => entry U p c * permRec (entry U) (expand (dec t p)) cs) ((expand t).getD i 0) := by
      intro i hi
      obtain ⟨p, _, hv, _, he⟩ := expandFrom_eraseIdx t 0 i (by simpa [expand] using hi)
      simp only [expand] at hv he ⊢
      rw [he, hv]; simp
    rw [List.map_congr_left hterm, map_getD_range (expand t)
      (fun p => entry U p c * permRec (entry U) (expand (dec t p)) cs)]
    unfold expand
    rw [sum_map_expandFrom, sum_range_support _ t.length m ?_, slosCoef, ← List.sum_map_mul_left]
    · simp only [Nat.zero_add]
      apply congrArg
      apply List.map_congr_left
      intro j _
      simp only [Function.comp, decr_eq]
      by_cases hj : 0 < t.getD j 0
      · simp only [hj, ↓reduceIte]
        have ih := slosCoef_eq_permRec_any U cs (dec t j)
          (by have := sum_dec t j hj; omega)
        rw [prodFact_dec t j hj]
        push_cast
        unfold expand at ih
        rw [← ih]; ring
      · have h0 : t[j]?.getD 0 = 0 := by rw [← List.getD_eq_getElem?_getD]; omega
        simp [h0]
    · intro p hp
      rcases hp with ⟨h1, _⟩ | ⟨_, h2⟩
      · have : t[p]?.getD 0 = 0 := by
          rw [List.getElem?_eq_none h1]; rfl
        simp [this]
      · have : entry U p c = 0 := by
          unfold entry
          rw [dif_neg]
          omega
        simp [this]

/-- the matrix of a list of unitary components that fit is unitary -/
theorem compsMatrix_isUnitary {R : Type*} [CommRing R] [StarRing R] {M : ℕ} (comps : List (Comp R))
    (hfit : Fits M comps) (hU : ∀ c ∈ comps, PM.IsUnitary c.B) :
    PM.IsUnitary (compsMatrix M comps) := by
  unfold compsMatrix
  suffices h : ∀ (A : Matrix (Fin M) (Fin M) R), PM.IsUnitary A →
      PM.IsUnitary (comps.foldl (fun A c => PM.embed M c.r0 c.B * A) A) from h 1 PM.isUnitary_one
  induction comps with
  | nil => intro A hA; exact hA
  | cons c rest ih =>
    intro A hA
    simp only [List.foldl_cons]
    apply ih (fun c' hc' => hfit c' (List.mem_cons_of_mem _ hc'))
      (fun c' hc' => hU c' (List.mem_cons_of_mem _ hc'))
    exact (PM.IsUnitary.embed (hfit c List.mem_cons_self) (hU c List.mem_cons_self)).mul hA

theorem normSq_natCast_mul (k : ℕ) (z : GQ) :
    GQ.normSq ((k : GQ) * z) = (k : ℚ) * (k : ℚ) * GQ.normSq z := by
  rw [GQ_natCast]
  simp only [GQ.normSq, GQ.ofRat, GQ.mul_re, GQ.mul_im]
  ring

theorem prodFact_pair (a b : ℕ) : prodFact [a, b] = a.factorial * b.factorial := by
  simp [prodFact]

/-- a state of two modes is a pair -/
theorem eq_pair_of_length_two (t : List ℕ) (h : t.length = 2) :
    t = [t.getD 0 0, t.getD 1 0] := by
  match t, h with
  | [a, b], _ => rfl

end PM.C02
