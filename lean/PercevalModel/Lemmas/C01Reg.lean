import PercevalModel.Model.C01Reg
import PercevalModel.Lemmas.C01

open Matrix

namespace PM.C01

/-! ### the registry -/

theorem regLookup_some {reg : List Var} {n : ℕ} {w : Var} (h : regLookup reg n = some w) :
    w ∈ reg ∧ w.name = n := by
  unfold regLookup at h
  exact ⟨List.mem_of_find?_eq_some h, by simpa using List.find?_some h⟩

theorem regLookup_none {reg : List Var} {n : ℕ} (h : regLookup reg n = none) :
    ∀ w ∈ reg, w.name ≠ n := by
  unfold regLookup at h
  intro w hw
  have := List.find?_eq_none.mp h w hw
  simpa using this

theorem regLookup_of_mem {reg : List Var} (hnd : (reg.map (·.name)).Nodup) {v : Var} (hv : v ∈ reg) :
    regLookup reg v.name = some v := by
  induction reg with
  | nil => simp at hv
  | cons a r ih =>
    simp only [List.map_cons, List.nodup_cons, List.mem_map, not_exists, not_and] at hnd
    unfold regLookup
    rw [List.find?_cons]
    rcases List.mem_cons.mp hv with rfl | hr
    · simp
    · have hne : a.name ≠ v.name := fun e => hnd.1 v hr e.symm
      have : (a.name == v.name) = false := by simpa using hne
      rw [this]
      exact ih hnd.2 hr

theorem mem_regOne {reg : List Var} {v u : Var} (h : u ∈ (regOne reg v).1) : u ∈ reg ∨ u = v := by
  unfold regOne at h
  split at h
  · exact Or.inl h
  · simpa using h

theorem regOne_mono {reg : List Var} {v u : Var} (h : u ∈ reg) : u ∈ (regOne reg v).1 := by
  unfold regOne
  split
  · exact h
  · simp [h]

theorem mem_regOne_ok {reg : List Var} {v : Var} (h : (regOne reg v).2 = true) :
    v ∈ (regOne reg v).1 := by
  unfold regOne at h ⊢
  split at h
  · next w hw =>
    obtain ⟨hm, hn⟩ := regLookup_some hw
    have hp : w.pid = v.pid := by simpa using h
    have : w = v := by
      cases w; cases v; simp_all
    exact this ▸ hm
  · simp

theorem regOne_nodup {reg : List Var} (v : Var) (hnd : (reg.map (·.name)).Nodup) :
    ((regOne reg v).1.map (·.name)).Nodup := by
  unfold regOne
  split
  · exact hnd
  · next hw =>
    have := regLookup_none hw
    simp only [List.map_append, List.map_cons, List.map_nil]
    rw [List.nodup_append]
    refine ⟨hnd, by simp, ?_⟩
    intro a ha b hb
    simp only [List.mem_singleton] at hb
    subst hb
    obtain ⟨w, hw', rfl⟩ := List.mem_map.mp ha
    exact this w hw'

theorem mem_regMany {vs : List Var} : ∀ {reg : List Var} {u : Var},
    u ∈ (regMany reg vs).1 → u ∈ reg ∨ u ∈ vs := by
  induction vs with
  | nil => intro reg u h; exact Or.inl h
  | cons v r ih =>
    intro reg u h
    unfold regMany at h
    split at h
    · rcases ih h with h1 | h1
      · rcases mem_regOne h1 with h2 | h2
        · exact Or.inl h2
        · exact Or.inr (by simp [h2])
      · exact Or.inr (by simp [h1])
    · rcases mem_regOne h with h2 | h2
      · exact Or.inl h2
      · exact Or.inr (by simp [h2])

theorem regMany_mono {vs : List Var} : ∀ {reg : List Var} {u : Var},
    u ∈ reg → u ∈ (regMany reg vs).1 := by
  induction vs with
  | nil => intro reg u h; exact h
  | cons v r ih =>
    intro reg u h
    unfold regMany
    split
    · exact ih (regOne_mono h)
    · exact regOne_mono h

theorem mem_regMany_ok {vs : List Var} : ∀ {reg : List Var}, (regMany reg vs).2 = true →
    ∀ u ∈ vs, u ∈ (regMany reg vs).1 := by
  induction vs with
  | nil => intro reg _ u hu; simp at hu
  | cons v r ih =>
    intro reg h u hu
    unfold regMany at h ⊢
    split
    · next hok =>
      rw [if_pos hok] at h
      rcases List.mem_cons.mp hu with rfl | hr
      · exact regMany_mono (mem_regOne_ok hok)
      · exact ih h u hr
    · next hok => rw [if_neg hok] at h; simp at h

theorem regMany_nodup {vs : List Var} : ∀ {reg : List Var}, (reg.map (·.name)).Nodup →
    ((regMany reg vs).1.map (·.name)).Nodup := by
  induction vs with
  | nil => intro reg h; exact h
  | cons v r ih =>
    intro reg h
    unfold regMany
    split
    · exact ih (regOne_nodup v h)
    · exact regOne_nodup v h

/-- a successful loop: the new registry is the old one plus everything offered -/
theorem mem_regMany_iff {vs reg : List Var} (h : (regMany reg vs).2 = true) (u : Var) :
    u ∈ (regMany reg vs).1 ↔ u ∈ reg ∨ u ∈ vs :=
  ⟨mem_regMany, fun hu => hu.elim regMany_mono (mem_regMany_ok h u)⟩

/-! ### reachability of variable slots -/

variable {pit pit' : ℕ → List PItem}

/-- items are only ever appended: what was reachable stays reachable -/
theorem Occ.mono (hsub : ∀ k, ∀ p ∈ pit k, p ∈ pit' k) {i : ℕ} {v : Var} (h : Occ pit i v) :
    Occ pit' i v := by
  induction h with
  | here hm hv => exact .here (hsub _ _ hm) hv
  | there hm _ ih => exact .there (hsub _ _ hm) ih

/-- entries other than `t` whose items are unchanged and which cannot reach `t` -/
theorem Occ.frame {t : ℕ} (hsame : ∀ k, k ≠ t → pit' k = pit k)
    (hunref : ∀ k, k ≠ t → PItem.ref t ∉ pit k) {i : ℕ} {v : Var} (h : Occ pit' i v) :
    i ≠ t → Occ pit i v := by
  induction h with
  | here hm hv => intro hi; exact .here (hsame _ hi ▸ hm) hv
  | @there i j v hm _ ih =>
    intro hi
    have hm' : PItem.ref j ∈ pit i := hsame _ hi ▸ hm
    have hj : j ≠ t := fun e => hunref i hi (e ▸ hm')
    exact .there hm' (ih hj)

theorem Occ.cases_iff (pit : ℕ → List PItem) (i : ℕ) (v : Var) :
    Occ pit i v ↔ (∃ vs, PItem.vars vs ∈ pit i ∧ v ∈ vs) ∨ (∃ j, PItem.ref j ∈ pit i ∧ Occ pit j v) := by
  constructor
  · intro h
    cases h with
    | here hm hv => exact Or.inl ⟨_, hm, hv⟩
    | there hm h' => exact Or.inr ⟨_, hm, h'⟩
  · rintro (⟨vs, hm, hv⟩ | ⟨j, hm, h'⟩)
    · exact .here hm hv
    · exact .there hm h'

/-! ### the executable traversal -/

theorem mem_occItems (rec : ℕ → List Var) (l : List PItem) (v : Var) :
    v ∈ occItems rec l ↔
      (∃ vs, PItem.vars vs ∈ l ∧ v ∈ vs) ∨ (∃ j, PItem.ref j ∈ l ∧ v ∈ rec j) := by
  induction l with
  | nil => simp [occItems]
  | cons p r ih =>
    cases p with
    | vars vs =>
      simp only [occItems, List.mem_append, ih, List.mem_cons, PItem.vars.injEq, reduceCtorEq,
        false_or]
      constructor
      · rintro (h | ⟨vs', hm, hv⟩ | ⟨j, hm, hv⟩)
        · exact Or.inl ⟨vs, Or.inl rfl, h⟩
        · exact Or.inl ⟨vs', Or.inr hm, hv⟩
        · exact Or.inr ⟨j, hm, hv⟩
      · rintro (⟨vs', rfl | hm, hv⟩ | ⟨j, hm, hv⟩)
        · exact Or.inl hv
        · exact Or.inr (Or.inl ⟨vs', hm, hv⟩)
        · exact Or.inr (Or.inr ⟨j, hm, hv⟩)
    | ref k =>
      simp only [occItems, List.mem_append, ih, List.mem_cons, PItem.ref.injEq, reduceCtorEq,
        false_or]
      constructor
      · rintro (h | ⟨vs', hm, hv⟩ | ⟨j, hm, hv⟩)
        · exact Or.inr ⟨k, Or.inl rfl, h⟩
        · exact Or.inl ⟨vs', hm, hv⟩
        · exact Or.inr ⟨j, Or.inr hm, hv⟩
      · rintro (⟨vs', hm, hv⟩ | ⟨j, rfl | hm, hv⟩)
        · exact Or.inr (Or.inl ⟨vs', hm, hv⟩)
        · exact Or.inl hv
        · exact Or.inr (Or.inr ⟨j, hm, hv⟩)

/-- the traversal only meets reachable slots -/
theorem occAt_sound (pit : ℕ → List PItem) : ∀ (f i : ℕ) (v : Var), v ∈ occAt pit f i → Occ pit i v := by
  intro f
  induction f with
  | zero => intro i v h; simp [occAt] at h
  | succ f ih =>
    intro i v h
    rw [occAt, mem_occItems] at h
    rcases h with ⟨vs, hm, hv⟩ | ⟨j, hm, hv⟩
    · exact .here hm hv
    · exact .there hm (ih j v hv)

/-- … and meets all of them when references go to strictly smaller ranks -/
theorem occAt_complete (pit : ℕ → List PItem) (rank : ℕ → ℕ)
    (hr : ∀ k j, PItem.ref j ∈ pit k → rank j < rank k) {i : ℕ} {v : Var} (h : Occ pit i v) :
    ∀ f, rank i < f → v ∈ occAt pit f i := by
  induction h with
  | here hm hv =>
    intro f hf
    obtain ⟨f', rfl⟩ : ∃ f', f = f' + 1 := ⟨f - 1, by omega⟩
    rw [occAt, mem_occItems]
    exact Or.inl ⟨_, hm, hv⟩
  | @there i j v hm _ ih =>
    intro f hf
    obtain ⟨f', rfl⟩ : ∃ f', f = f' + 1 := ⟨f - 1, by omega⟩
    rw [occAt, mem_occItems]
    exact Or.inr ⟨j, hm, ih f' (by have := hr i j hm; omega)⟩


/-! ### signature of the pool under one structural operation -/

theorem step_target_sig {R : Type} [Zero R] [One R] (h : Heap R) (op : Op R) {t : ℕ}
    (ht : op.target = some t) :
    (step h op).size = h.size ∧ ∀ k, (step h op).rank k = h.rank k := by
  unfold step
  split
  · cases op with
    | new m r => simp [Op.target] at ht
    | copy i φ => simp [Op.target] at ht
    | leaf i off k U => exact ⟨rfl, fun k => Heap.rank_push _ _ _ _⟩
    | nest i j off => exact ⟨rfl, fun k => Heap.rank_push _ _ _ _⟩
    | barrier i => exact ⟨rfl, fun k => Heap.rank_push _ _ _ _⟩
    | merge i j off =>
      simp only [applyOp]
      split
      · exact ⟨rfl, fun k => Heap.rank_push _ _ _ _⟩
      · exact ⟨rfl, fun k => Heap.rank_push _ _ _ _⟩
  · exact ⟨rfl, fun _ => rfl⟩

/-! ### invariants of the registry machine -/

variable {V S : Type}

/-- holds after every history -/
structure RInv (s : RState V S) : Prop where
  heapOk : s.w.heap.Ok
  nodup : ∀ i, ((s.reg i).map (·.name)).Nodup
  refs : ∀ k j, PItem.ref j ∈ s.pit k → j < s.size ∧ s.w.heap.rank j < s.w.heap.rank k
  beyond : ∀ k, s.size ≤ k → s.pit k = []

/-- every registered parameter drives a reachable leaf -/
def RegSub (s : RState V S) : Prop := ∀ i v, v ∈ s.reg i → Occ s.pit i v

/-- the registry is exactly the set of variables of the reachable leaves -/
def RegExact (s : RState V S) : Prop := ∀ i v, v ∈ s.reg i ↔ Occ s.pit i v

/-- what a list of new items makes reachable -/
def pnewOcc (pit : ℕ → List PItem) (pnew : List PItem) (v : Var) : Prop :=
  (∃ vs, PItem.vars vs ∈ pnew ∧ v ∈ vs) ∨ (∃ j, PItem.ref j ∈ pnew ∧ Occ pit j v)

theorem updAt_self {α : Type} (f : ℕ → α) (i : ℕ) (x : α) : updAt f i x i = x := by simp [updAt]
theorem updAt_ne {α : Type} (f : ℕ → α) (i : ℕ) (x : α) {k : ℕ} (h : k ≠ i) : updAt f i x k = f k := by
  simp [updAt, h]

theorem Occ_push_iff {pit : ℕ → List PItem} {t : ℕ} {pnew : List PItem}
    (hself : PItem.ref t ∉ pit t) (hnew : PItem.ref t ∉ pnew)
    (hunref : ∀ k, k ≠ t → PItem.ref t ∉ pit k) (v : Var) :
    Occ (updAt pit t (pit t ++ pnew)) t v ↔ Occ pit t v ∨ pnewOcc pit pnew v := by
  have hsame : ∀ k, k ≠ t → updAt pit t (pit t ++ pnew) k = pit k := fun k hk => updAt_ne _ _ _ hk
  have hmono : ∀ {k u}, Occ pit k u → Occ (updAt pit t (pit t ++ pnew)) k u := by
    intro k u h
    refine h.mono fun k p hp => ?_
    by_cases hk : k = t
    · subst hk; rw [updAt_self]; exact List.mem_append_left _ hp
    · rw [updAt_ne _ _ _ hk]; exact hp
  constructor
  · intro h
    rw [Occ.cases_iff, updAt_self] at h
    rcases h with ⟨vs, hm, hv⟩ | ⟨j, hm, hj⟩
    · rcases List.mem_append.mp hm with h1 | h1
      · exact Or.inl (.here h1 hv)
      · exact Or.inr (Or.inl ⟨vs, h1, hv⟩)
    · have hjt : j ≠ t := by
        rintro rfl
        rcases List.mem_append.mp hm with h1 | h1
        · exact hself h1
        · exact hnew h1
      have hj' : Occ pit j v := Occ.frame hsame hunref hj hjt
      rcases List.mem_append.mp hm with h1 | h1
      · exact Or.inl (.there h1 hj')
      · exact Or.inr (Or.inr ⟨j, h1, hj'⟩)
  · rintro (h | ⟨vs, hm, hv⟩ | ⟨j, hm, hj⟩)
    · exact hmono h
    · exact .here (by rw [updAt_self]; exact List.mem_append_right _ hm) hv
    · exact .there (by rw [updAt_self]; exact List.mem_append_right _ hm) (hmono hj)

theorem Occ_push_of {pit : ℕ → List PItem} {t : ℕ} {pnew : List PItem} {v : Var}
    (h : Occ pit t v ∨ pnewOcc pit pnew v) : Occ (updAt pit t (pit t ++ pnew)) t v := by
  have hmono : ∀ {k u}, Occ pit k u → Occ (updAt pit t (pit t ++ pnew)) k u := by
    intro k u h
    refine h.mono fun k p hp => ?_
    by_cases hk : k = t
    · subst hk; rw [updAt_self]; exact List.mem_append_left _ hp
    · rw [updAt_ne _ _ _ hk]; exact hp
  rcases h with h | ⟨vs, hm, hv⟩ | ⟨j, hm, hj⟩
  · exact hmono h
  · exact .here (by rw [updAt_self]; exact List.mem_append_right _ hm) hv
  · exact .there (by rw [updAt_self]; exact List.mem_append_right _ hm) (hmono hj)

theorem Occ_push_mono {pit : ℕ → List PItem} {t : ℕ} {pnew : List PItem} {k : ℕ} {v : Var}
    (h : Occ pit k v) : Occ (updAt pit t (pit t ++ pnew)) k v := by
  refine h.mono fun k p hp => ?_
  by_cases hk : k = t
  · subst hk; rw [updAt_self]; exact List.mem_append_left _ hp
  · rw [updAt_ne _ _ _ hk]; exact hp

section addTo
variable [Zero S] [One S] (s : RState V S) (i : ℕ) (offered : List Var) (hop : Op (PEnv V → S))
  (pnew : List PItem)

theorem addTo_cases :
    (hop.ok s.w.heap = false ∧ s.addTo i offered hop pnew = (s, .assertion)) ∨
    (hop.ok s.w.heap = true ∧ (regMany (s.reg i) offered).2 = false ∧
      s.addTo i offered hop pnew =
        ({ s with reg := updAt s.reg i (regMany (s.reg i) offered).1 }, .runtime)) ∨
    (hop.ok s.w.heap = true ∧ (regMany (s.reg i) offered).2 = true ∧
      s.addTo i offered hop pnew =
        ({ s with w := wstep s.w (.struct hop),
                  reg := updAt s.reg i (regMany (s.reg i) offered).1,
                  pit := updAt s.pit i (s.pit i ++ pnew) }, .ok)) := by
  unfold RState.addTo
  by_cases h1 : hop.ok s.w.heap = true
  · by_cases h2 : (regMany (s.reg i) offered).2 = true
    · exact Or.inr (Or.inr ⟨h1, h2, by simp [h1, h2]⟩)
    · exact Or.inr (Or.inl ⟨h1, by simpa using h2, by simp [h1, h2]⟩)
  · exact Or.inl ⟨by simpa using h1, by simp [h1]⟩

theorem addTo_inv (hs : RInv s) (ht : hop.target = some i) (hi : hop.ok s.w.heap = true → i < s.size)
    (hnew : hop.ok s.w.heap = true →
      ∀ j, PItem.ref j ∈ pnew → j < s.size ∧ s.w.heap.rank j < s.w.heap.rank i) :
    RInv (s.addTo i offered hop pnew).1 := by
  have hnd : ∀ k, ((updAt s.reg i (regMany (s.reg i) offered).1 k).map (·.name)).Nodup := by
    intro k
    by_cases hk : k = i
    · subst hk; rw [updAt_self]; exact regMany_nodup (hs.nodup k)
    · rw [updAt_ne _ _ _ hk]; exact hs.nodup k
  rcases addTo_cases s i offered hop pnew with ⟨_, e⟩ | ⟨_, _, e⟩ | ⟨hok, _, e⟩ <;> rw [e]
  · exact hs
  · exact ⟨hs.heapOk, hnd, hs.refs, hs.beyond⟩
  · obtain ⟨e1, e2⟩ := step_target_sig s.w.heap hop ht
    refine ⟨step_ok hs.heapOk hop, hnd, ?_, ?_⟩
    rotate_left
    · intro k hk
      have hk' : s.size ≤ k := by
        have : (step s.w.heap hop).size ≤ k := hk
        rw [e1] at this; exact this
      have hne : k ≠ i := by have := hi hok; omega
      show updAt s.pit i (s.pit i ++ pnew) k = []
      rw [updAt_ne _ _ _ hne]; exact hs.beyond k hk'
    intro k j hm
    show j < (step s.w.heap hop).size ∧ (step s.w.heap hop).rank j < (step s.w.heap hop).rank k
    rw [e1, e2, e2]
    by_cases hk : k = i
    · subst hk
      simp only [updAt_self] at hm
      rcases List.mem_append.mp hm with h1 | h1
      · exact hs.refs _ _ h1
      · exact hnew hok j h1
    · simp only [updAt_ne _ _ _ hk] at hm
      exact hs.refs _ _ hm

theorem addTo_regSub (hs : RegSub s) (hne : (s.addTo i offered hop pnew).2 ≠ .runtime)
    (hoff : hop.ok s.w.heap = true → ∀ v ∈ offered, pnewOcc s.pit pnew v) :
    RegSub (s.addTo i offered hop pnew).1 := by
  rcases addTo_cases s i offered hop pnew with ⟨_, e⟩ | ⟨_, _, e⟩ | ⟨hok, h2, e⟩
  · rw [e]; exact hs
  · rw [e] at hne; exact absurd rfl hne
  · rw [e]
    intro k v hv
    show Occ (updAt s.pit i (s.pit i ++ pnew)) k v
    by_cases hk : k = i
    · subst hk
      simp only [updAt_self] at hv
      rcases (mem_regMany_iff h2 v).mp hv with h | h
      · exact Occ_push_of (Or.inl (hs _ _ h))
      · exact Occ_push_of (Or.inr (hoff hok v h))
    · simp only [updAt_ne _ _ _ hk] at hv
      exact Occ_push_mono (hs _ _ hv)

theorem addTo_regExact (hs : RegExact s) (hne : (s.addTo i offered hop pnew).2 ≠ .runtime)
    (hunref : ∀ k, PItem.ref i ∉ s.pit k) (hnew : hop.ok s.w.heap = true → PItem.ref i ∉ pnew)
    (hoff : hop.ok s.w.heap = true → ∀ v, pnewOcc s.pit pnew v ↔ v ∈ offered) :
    RegExact (s.addTo i offered hop pnew).1 := by
  rcases addTo_cases s i offered hop pnew with ⟨_, e⟩ | ⟨_, _, e⟩ | ⟨hok, h2, e⟩
  · rw [e]; exact hs
  · rw [e] at hne; exact absurd rfl hne
  · rw [e]
    intro k v
    show v ∈ updAt s.reg i (regMany (s.reg i) offered).1 k ↔ Occ (updAt s.pit i (s.pit i ++ pnew)) k v
    by_cases hk : k = i
    · subst hk
      rw [updAt_self, mem_regMany_iff h2, Occ_push_iff (hunref k) (hnew hok) (fun k' _ => hunref k'),
        hs k v, hoff hok]
    · rw [updAt_ne _ _ _ hk, hs k v]
      constructor
      · exact Occ_push_mono
      · intro h
        exact Occ.frame (fun k' hk' => updAt_ne _ _ _ hk') (fun k' _ => hunref k') h hk

end addTo


/-! ### `Circuit.copy`: the nested `add` calls raise exactly when two slots left variable share a name -/

theorem addNames_eq : ∀ (ns reg : List ℕ), reg.Nodup →
    addNames reg ns = if (reg ++ ns).Nodup then some (reg ++ ns) else none := by
  intro ns
  induction ns with
  | nil => intro reg h; simp [addNames, h]
  | cons n r ih =>
    intro reg h
    unfold addNames
    by_cases hn : n ∈ reg
    · have : ¬ (reg ++ n :: r).Nodup := by
        rw [List.nodup_append]
        rintro ⟨_, _, h3⟩
        exact h3 n hn n (by simp) rfl
      simp [hn, this]
    · have h' : (reg ++ [n]).Nodup := by
        rw [List.nodup_append]
        refine ⟨h, by simp, ?_⟩
        intro a ha b hb
        simp only [List.mem_singleton] at hb
        subst hb
        rintro rfl
        exact hn ha
      rw [if_neg hn, ih _ h']
      simp

/-- the names of the slots left variable, in iteration order -/
def remNames (keep : Var → Bool) (pit : ℕ → List PItem) (f j : ℕ) : List ℕ :=
  keptNames keep (occAt pit f j)

theorem keptNames_append (keep : Var → Bool) (a b : List Var) :
    keptNames keep (a ++ b) = keptNames keep a ++ keptNames keep b := by
  simp [keptNames]

theorem copyItemsNames_eq (keep : Var → Bool) (rec : ℕ → Option (List ℕ)) (orec : ℕ → List Var)
    (hrec : ∀ j, rec j = if (keptNames keep (orec j)).Nodup then some (keptNames keep (orec j)) else none) :
    ∀ (l : List PItem) (reg : List ℕ), reg.Nodup →
      copyItemsNames keep rec reg l =
        if (reg ++ keptNames keep (occItems orec l)).Nodup
        then some (reg ++ keptNames keep (occItems orec l)) else none := by
  intro l
  induction l with
  | nil => intro reg h; simp [copyItemsNames, occItems, keptNames, h]
  | cons p r ih =>
    intro reg h
    have key : ∀ (X : List ℕ) (rest : List Var),
        (match addNames reg X with
          | some reg' => copyItemsNames keep rec reg' r
          | none => none) =
        if (reg ++ (X ++ keptNames keep (occItems orec r))).Nodup
        then some (reg ++ (X ++ keptNames keep (occItems orec r))) else none := by
      intro X _
      rw [addNames_eq X reg h]
      by_cases hX : (reg ++ X).Nodup
      · rw [if_pos hX]
        simp only
        rw [ih _ hX, List.append_assoc]
      · rw [if_neg hX]
        have : ¬ (reg ++ (X ++ keptNames keep (occItems orec r))).Nodup := by
          intro hh
          rw [← List.append_assoc] at hh
          exact hX (List.nodup_append.mp hh).1
        simp [this]
    cases p with
    | vars vs =>
      simp only [copyItemsNames, occItems, keptNames_append]
      exact key _ []
    | ref j =>
      simp only [copyItemsNames, occItems, keptNames_append]
      rw [hrec j]
      by_cases hj : (keptNames keep (orec j)).Nodup
      · rw [if_pos hj]
        exact key _ []
      · rw [if_neg hj]
        have : ¬ (reg ++ (keptNames keep (orec j) ++ keptNames keep (occItems orec r))).Nodup := by
          intro hh
          exact hj (List.nodup_append.mp (List.nodup_append.mp hh).2.1).1
        simp [this]

theorem copyNames_eq (keep : Var → Bool) (pit : ℕ → List PItem) : ∀ (f j : ℕ),
    copyNames keep pit f j =
      if (remNames keep pit f j).Nodup then some (remNames keep pit f j) else none := by
  intro f
  induction f with
  | zero => intro j; simp [copyNames, remNames, occAt, keptNames]
  | succ f ih =>
    intro j
    rw [copyNames, copyItemsNames_eq keep _ (occAt pit f) ih _ [] List.nodup_nil]
    have e : [] ++ keptNames keep (occItems (occAt pit f) (pit j)) = remNames keep pit (f + 1) j := rfl
    rw [e]

theorem map_name_freshVars : ∀ (names : List ℕ) (next : ℕ), (freshVars next names).map (·.name) = names := by
  intro names
  induction names with
  | nil => intro _; rfl
  | cons n r ih => intro next; simp [freshVars, ih]

theorem mem_freshVars : ∀ (names : List ℕ) (next : ℕ) (v : Var),
    v ∈ freshVars next names → next ≤ v.pid ∧ v.pid < next + names.length := by
  intro names
  induction names with
  | nil => intro _ v h; simp [freshVars] at h
  | cons n r ih =>
    intro next v h
    simp only [freshVars, List.mem_cons] at h
    rcases h with rfl | h
    · simp
    · have := ih (next + 1) v h
      simp only [List.length_cons]
      omega


theorem copyNames_some {keep : Var → Bool} {pit : ℕ → List PItem} {f j : ℕ} {names : List ℕ}
    (h : copyNames keep pit f j = some names) : names = remNames keep pit f j ∧ names.Nodup := by
  rw [copyNames_eq] at h
  split at h
  · next hn => cases h; exact ⟨rfl, hn⟩
  · cases h

/-! ### a new pool entry -/

section alloc
variable {s s' : RState V S} (c : Cell (PEnv V → S)) (R : List Var) (P : List PItem)

theorem alloc_inv (hs : RInv s) (hheap : s'.w.heap = s.w.heap.alloc c) (hOk : s'.w.heap.Ok)
    (hreg : s'.reg = updAt s.reg s.size R) (hpit : s'.pit = updAt s.pit s.size P)
    (hR : (R.map (·.name)).Nodup) (hP : ∀ j, PItem.ref j ∉ P) : RInv s' := by
  refine ⟨hOk, ?_, ?_, ?_⟩
  rotate_right
  · intro k hk
    have hk' : s.w.heap.size + 1 ≤ k := by
      have : s'.w.heap.size ≤ k := hk
      rw [hheap] at this; exact this
    have hne : k ≠ s.size := by show k ≠ s.w.heap.size; omega
    rw [hpit, updAt_ne _ _ _ hne]
    exact hs.beyond k (by show s.w.heap.size ≤ k; omega)
  · intro k
    rw [hreg]
    by_cases hk : k = s.size
    · subst hk; rw [updAt_self]; exact hR
    · rw [updAt_ne _ _ _ hk]; exact hs.nodup k
  · intro k j hm
    rw [hpit] at hm
    by_cases hk : k = s.size
    · subst hk; rw [updAt_self] at hm; exact absurd hm (hP j)
    · rw [updAt_ne _ _ _ hk] at hm
      obtain ⟨h1, h2⟩ := hs.refs k j hm
      have hj : j ≠ s.w.heap.size := Nat.ne_of_lt h1
      show j < s'.w.heap.size ∧ s'.w.heap.rank j < s'.w.heap.rank k
      rw [hheap, Heap.rank_alloc_ne _ _ hj, Heap.rank_alloc_ne _ _ hk]
      exact ⟨by simp only [Heap.size_alloc]; exact Nat.lt_succ_of_lt h1, h2⟩

theorem alloc_occ_frame (hs : RInv s) (hpit : s'.pit = updAt s.pit s.size P) {k : ℕ}
    (hk : k ≠ s.size) (v : Var) : Occ s'.pit k v ↔ Occ s.pit k v := by
  have hun : ∀ k', k' ≠ s.size → PItem.ref s.size ∉ s.pit k' := by
    intro k' _ hm
    exact absurd (hs.refs k' _ hm).1 (Nat.lt_irrefl _)
  have hsame : ∀ k', k' ≠ s.size → s'.pit k' = s.pit k' := by
    intro k' hk'; rw [hpit, updAt_ne _ _ _ hk']
  constructor
  · intro h; exact Occ.frame hsame hun h hk
  · intro h
    refine Occ.frame (t := s.size) (fun k' hk' => (hsame k' hk').symm) ?_ h hk
    intro k' hk'
    rw [hsame k' hk']
    exact hun k' hk'

theorem alloc_regSub (hs : RegSub s) (hinv : RInv s)
    (hreg : s'.reg = updAt s.reg s.size R) (hpit : s'.pit = updAt s.pit s.size P)
    (hRP : ∀ v ∈ R, ∃ vs, PItem.vars vs ∈ P ∧ v ∈ vs) : RegSub s' := by
  intro k v hv
  rw [hreg] at hv
  by_cases hk : k = s.size
  · subst hk
    rw [updAt_self] at hv
    obtain ⟨vs, hm, hvs⟩ := hRP v hv
    exact .here (by rw [hpit, updAt_self]; exact hm) hvs
  · rw [updAt_ne _ _ _ hk] at hv
    exact (alloc_occ_frame P hinv hpit hk v).mpr (hs k v hv)

theorem alloc_regExact (hs : RegExact s) (hinv : RInv s)
    (hreg : s'.reg = updAt s.reg s.size R) (hpit : s'.pit = updAt s.pit s.size P)
    (hP : ∀ j, PItem.ref j ∉ P) (hRP : ∀ v, v ∈ R ↔ ∃ vs, PItem.vars vs ∈ P ∧ v ∈ vs) :
    RegExact s' := by
  intro k v
  rw [hreg]
  by_cases hk : k = s.size
  · subst hk
    rw [updAt_self, hRP, Occ.cases_iff, hpit, updAt_self]
    constructor
    · exact Or.inl
    · rintro (h | ⟨j, hm, _⟩)
      · exact h
      · exact absurd hm (hP j)
  · rw [updAt_ne _ _ _ hk, alloc_occ_frame P hinv hpit hk v]
    exact hs k v

end alloc


/-! ### every operation of the registry machine -/

section rstep
variable [Zero S] [One S]

theorem pnewOcc_merge_items (pit : ℕ → List PItem) (j : ℕ) (v : Var) :
    pnewOcc pit (pit j) v ↔ Occ pit j v := (Occ.cases_iff pit j v).symm

theorem pnewOcc_ref (pit : ℕ → List PItem) (j : ℕ) (v : Var) :
    pnewOcc pit [.ref j] v ↔ Occ pit j v := by
  simp [pnewOcc]

theorem pnewOcc_vars (pit : ℕ → List PItem) (vs : List Var) (v : Var) :
    pnewOcc pit [.vars vs] v ↔ v ∈ vs := by
  simp [pnewOcc]

theorem rstep_new_heap (s : RState V S) (m r : ℕ) (hm : 0 < m) :
    (wstep s.w (.struct (.new m r))).heap = s.w.heap.alloc ⟨m, r, []⟩ := by
  show step s.w.heap (.new m r) = _
  simp [step, Op.ok, hm, applyOp]

theorem rstep_copy_heap (s : RState V S) (i : ℕ) (φ : (PEnv V → S) → (PEnv V → S)) (hi : i < s.size) :
    (wstep s.w (.struct (.copy i φ))).heap =
      s.w.heap.alloc ⟨s.w.heap.msize i, s.w.heap.rank i,
        (s.w.heap.items i).map fun p => (p.1, .val (freezeItem s.w.heap φ p.2))⟩ := by
  show step s.w.heap (.copy i φ) = _
  have : i < s.w.heap.size := hi
  simp [step, Op.ok, this, applyOp]

theorem rstep_inv (s : RState V S) (hs : RInv s) (op : ROp V S) : RInv (rstep s op).1 := by
  cases op with
  | new m r =>
    simp only [rstep]
    split
    · next hm =>
      exact alloc_inv _ [] [] hs (rstep_new_heap s m r hm) (step_ok hs.heapOk _) rfl rfl (by simp)
        (by simp)
    · exact hs
  | leaf i off k slots U =>
    simp only [rstep]
    split
    · exact addTo_inv s i slots _ _ hs rfl
        (fun hok => by simp only [Op.ok, Bool.and_eq_true, decide_eq_true_eq] at hok; exact hok.1.1)
        (by simp)
    · exact hs
  | nest i j off =>
    refine addTo_inv s i _ _ _ hs rfl
      (fun hok => by simp only [Op.ok, Bool.and_eq_true, decide_eq_true_eq] at hok; exact hok.1.1.1) ?_
    intro hok j' hj'
    simp only [List.mem_singleton, PItem.ref.injEq] at hj'
    subst hj'
    simp only [Op.ok, Bool.and_eq_true, decide_eq_true_eq] at hok
    exact ⟨hok.1.1.2, hok.1.2⟩
  | merge i j off =>
    refine addTo_inv s i _ _ _ hs rfl
      (fun hok => by simp only [Op.ok, Bool.and_eq_true, decide_eq_true_eq] at hok; exact hok.1.1.1) ?_
    intro hok j' hj'
    simp only [Op.ok, Bool.and_eq_true, decide_eq_true_eq] at hok
    split at hj'
    · simp only [List.mem_singleton, PItem.ref.injEq] at hj'
      subst hj'
      exact ⟨hok.1.1.2, hok.1.2⟩
    · obtain ⟨h1, h2⟩ := hs.refs j j' hj'
      exact ⟨h1, Nat.lt_trans h2 hok.1.2⟩
  | barrier i =>
    exact addTo_inv s i _ _ _ hs rfl
      (fun hok => by simp only [Op.ok, decide_eq_true_eq] at hok; exact hok) (by simp)
  | copy i σ =>
    simp only [rstep]
    split
    · next hi =>
      split
      · exact hs
      · next names hn =>
        obtain ⟨_, hnd⟩ := copyNames_some hn
        refine alloc_inv _ (freshVars s.next names) [.vars (freshVars s.next names)] hs
          (rstep_copy_heap s i _ hi) (step_ok hs.heapOk _) rfl rfl ?_ (by simp)
        rw [map_name_freshVars]; exact hnd
    · exact hs
  | setv p x => exact ⟨hs.heapOk, hs.nodup, hs.refs, hs.beyond⟩
  | assign i a => exact ⟨hs.heapOk, hs.nodup, hs.refs, hs.beyond⟩

theorem rstep_regSub (s : RState V S) (hinv : RInv s) (hs : RegSub s) (op : ROp V S)
    (hne : (rstep s op).2 ≠ .runtime) : RegSub (rstep s op).1 := by
  cases op with
  | new m r =>
    simp only [rstep]
    split
    · exact alloc_regSub [] [] hs hinv rfl rfl (by simp)
    · exact hs
  | leaf i off k slots U =>
    simp only [rstep] at hne ⊢
    split
    · next h =>
      rw [if_pos h] at hne
      exact addTo_regSub s i slots _ _ hs hne (fun _ v hv => (pnewOcc_vars _ _ _).mpr hv)
    · exact hs
  | nest i j off =>
    exact addTo_regSub s i _ _ _ hs hne (fun _ v hv => (pnewOcc_ref _ _ _).mpr (hs j v hv))
  | merge i j off =>
    refine addTo_regSub s i _ _ _ hs hne (fun _ v hv => ?_)
    split
    · exact (pnewOcc_ref _ _ _).mpr (hs j v hv)
    · exact (pnewOcc_merge_items _ _ _).mpr (hs j v hv)
  | barrier i => exact addTo_regSub s i _ _ _ hs hne (by simp)
  | copy i σ =>
    simp only [rstep]
    split
    · split
      · exact hs
      · next names hn =>
        exact alloc_regSub (freshVars s.next names) [.vars (freshVars s.next names)] hs hinv rfl rfl
          (fun v hv => ⟨_, by simp, hv⟩)
    · exact hs
  | setv p x => exact hs
  | assign i a => exact hs

theorem rstep_regExact (s : RState V S) (hinv : RInv s) (hs : RegExact s) (op : ROp V S)
    (hne : (rstep s op).2 ≠ .runtime) (hsafe : op.safe s) : RegExact (rstep s op).1 := by
  have unb : ∀ i, (∀ k, k < s.size → PItem.ref i ∉ s.pit k) → ∀ k, PItem.ref i ∉ s.pit k := by
    intro i h k
    by_cases hk : k < s.size
    · exact h k hk
    · rw [hinv.beyond k (Nat.le_of_not_lt hk)]; simp
  cases op with
  | new m r =>
    simp only [rstep]
    split
    · exact alloc_regExact [] [] hs hinv rfl rfl (by simp) (by simp)
    · exact hs
  | leaf i off k slots U =>
    simp only [rstep] at hne ⊢
    split
    · next h =>
      rw [if_pos h] at hne
      exact addTo_regExact s i slots _ _ hs hne (unb i hsafe) (by simp) (fun _ v => pnewOcc_vars _ _ _)
    · exact hs
  | nest i j off =>
    refine addTo_regExact s i _ _ _ hs hne (unb i hsafe) ?_ (fun _ v => ?_)
    · intro hok
      simp only [Op.ok, Bool.and_eq_true, decide_eq_true_eq] at hok
      simp only [List.mem_singleton, PItem.ref.injEq]
      intro e
      rw [e] at hok
      exact Nat.lt_irrefl _ hok.1.2
    · rw [pnewOcc_ref, hs j v]
  | merge i j off =>
    refine addTo_regExact s i _ _ _ hs hne (unb i hsafe) ?_ (fun _ v => ?_)
    · intro hok
      simp only [Op.ok, Bool.and_eq_true, decide_eq_true_eq] at hok
      split
      · simp only [List.mem_singleton, PItem.ref.injEq]
        intro e
        rw [e] at hok
        exact Nat.lt_irrefl _ hok.1.2
      · exact unb i hsafe j
    · split
      · rw [pnewOcc_ref, hs j v]
      · rw [pnewOcc_merge_items, hs j v]
  | barrier i =>
    rcases addTo_cases s i [] (.barrier i) [] with ⟨_, e⟩ | ⟨_, h2, _⟩ | ⟨_, _, e⟩
    · simp only [rstep]; rw [e]; exact hs
    · simp [regMany] at h2
    · simp only [rstep]; rw [e]
      intro k v
      show v ∈ updAt s.reg i (regMany (s.reg i) []).1 k ↔ Occ (updAt s.pit i (s.pit i ++ [])) k v
      have e1 : updAt s.reg i (regMany (s.reg i) []).1 = s.reg := by
        funext k'; by_cases hk : k' = i <;> simp [updAt, hk, regMany]
      have e2 : updAt s.pit i (s.pit i ++ []) = s.pit := by
        funext k'; by_cases hk : k' = i <;> simp [updAt, hk]
      rw [e1, e2]; exact hs k v
  | copy i σ =>
    simp only [rstep]
    split
    · split
      · exact hs
      · next names hn =>
        exact alloc_regExact (freshVars s.next names) [.vars (freshVars s.next names)] hs hinv rfl rfl
          (by simp) (by simp)
    · exact hs
  | setv p x => exact hs
  | assign i a => exact hs

end rstep


/-! ### histories -/

theorem empty_inv (e : PEnv V) (next : ℕ) : RInv (RState.empty (S := S) e next) :=
  ⟨Heap.empty_ok, fun _ => by simp [RState.empty], fun k j h => by simp [RState.empty] at h,
    fun _ _ => rfl⟩

theorem empty_regExact (e : PEnv V) (next : ℕ) : RegExact (RState.empty (S := S) e next) := by
  intro i v
  constructor
  · intro h; simp [RState.empty] at h
  · intro h
    cases h with
    | here hm _ => simp [RState.empty] at hm
    | there hm _ => simp [RState.empty] at hm

section hist
variable [Zero S] [One S]

theorem rexec_cons (s : RState V S) (op : ROp V S) (r : List (ROp V S)) :
    rexec s (op :: r) = rexec (rstep s op).1 r := rfl

theorem rexec_inv (ops : List (ROp V S)) : ∀ (s : RState V S), RInv s → RInv (rexec s ops) := by
  induction ops with
  | nil => intro s h; exact h
  | cons op r ih => intro s h; exact ih _ (rstep_inv s h op)

theorem rexec_regSub (ops : List (ROp V S)) : ∀ (s : RState V S), RInv s → RegSub s →
    CleanRun s ops → RegSub (rexec s ops) := by
  induction ops with
  | nil => intro s _ h _; exact h
  | cons op r ih =>
    intro s hi h hc
    exact ih _ (rstep_inv s hi op) (rstep_regSub s hi h op hc.1) hc.2

theorem rexec_regExact (ops : List (ROp V S)) : ∀ (s : RState V S), RInv s → RegExact s →
    CleanRun s ops → SafeRun s ops → RegExact (rexec s ops) := by
  induction ops with
  | nil => intro s _ h _ _; exact h
  | cons op r ih =>
    intro s hi h hc hsf
    exact ih _ (rstep_inv s hi op) (rstep_regExact s hi h op hc.1 hsf.1) hc.2 hsf.2

end hist

/-- under the invariant the executable traversal is reachability -/
theorem mem_occ_iff {s : RState V S} (hs : RInv s) (i : ℕ) (v : Var) : v ∈ s.occ i ↔ Occ s.pit i v :=
  ⟨occAt_sound _ _ _ _, fun h => occAt_complete s.pit s.w.heap.rank (fun k j hm => (hs.refs k j hm).2) h _
    (Nat.lt_succ_self _)⟩


/-! ### frame: an operation that does not add to pool entry `c` leaves that entry alone -/

section frame
variable [Zero S] [One S]

theorem addTo_cell_ne (s : RState V S) (i : ℕ) (offered : List Var) (hop : Op (PEnv V → S))
    (pnew : List PItem) (ht : hop.target = some i) {c : ℕ} (hc : c < s.size) (hci : c ≠ i) :
    (s.addTo i offered hop pnew).1.w.heap.cell c = s.w.heap.cell c ∧
      s.size ≤ (s.addTo i offered hop pnew).1.size := by
  rcases addTo_cases s i offered hop pnew with ⟨_, e⟩ | ⟨_, _, e⟩ | ⟨_, _, e⟩ <;> rw [e]
  · exact ⟨rfl, Nat.le_refl _⟩
  · exact ⟨rfl, Nat.le_refl _⟩
  · exact step_cell_ne s.w.heap hop hc (by rw [ht]; intro h; exact hci (Option.some.inj h).symm)

theorem rstep_cell_ne (s : RState V S) (op : ROp V S) {c : ℕ} (hc : c < s.size)
    (ht : op.target ≠ some c) :
    (rstep s op).1.w.heap.cell c = s.w.heap.cell c ∧ s.size ≤ (rstep s op).1.size := by
  have hne : ∀ i, op.target = some i → c ≠ i := fun i h e => ht (e ▸ h)
  cases op with
  | new m r =>
    simp only [rstep]
    split
    · exact step_cell_ne s.w.heap (.new m r) hc (by simp [Op.target])
    · exact ⟨rfl, Nat.le_refl _⟩
  | leaf i off k slots U =>
    simp only [rstep]
    split
    · exact addTo_cell_ne s i _ _ _ rfl hc (hne i rfl)
    · exact ⟨rfl, Nat.le_refl _⟩
  | nest i j off => exact addTo_cell_ne s i _ _ _ rfl hc (hne i rfl)
  | merge i j off => exact addTo_cell_ne s i _ _ _ rfl hc (hne i rfl)
  | barrier i => exact addTo_cell_ne s i _ _ _ rfl hc (hne i rfl)
  | copy i σ =>
    simp only [rstep]
    split
    · split
      · exact ⟨rfl, Nat.le_refl _⟩
      · exact step_cell_ne s.w.heap (.copy i _) hc (by simp [Op.target])
    · exact ⟨rfl, Nat.le_refl _⟩
  | setv p x => exact ⟨rfl, Nat.le_refl _⟩
  | assign i a => exact ⟨rfl, Nat.le_refl _⟩

theorem rexec_cell_ne (ops : List (ROp V S)) : ∀ (s : RState V S) {c : ℕ}, c < s.size →
    (∀ op ∈ ops, op.target ≠ some c) → (rexec s ops).w.heap.cell c = s.w.heap.cell c := by
  induction ops with
  | nil => intro s c _ _; rfl
  | cons op r ih =>
    intro s c hc ht
    obtain ⟨e1, e2⟩ := rstep_cell_ne s op hc (ht op (by simp))
    rw [rexec_cons, ih (rstep s op).1 (Nat.lt_of_lt_of_le hc e2) (fun o ho => ht o (by simp [ho])), e1]

end frame

end PM.C01
