/-
  C09 (extension, round 6) — the JOINT statement over all pools: the run of the pooled provider on independent
  ideal backend streams has the law of the run of the lazy provider on independent ideal streams.

  Ingredients: (a) the pooled and the lazy provider succeed on exactly the same streams, with the same loop state
  (`loopG_pool_iff_lazy`: the refinement `loopG_sim` used in both directions); (b) a site-wise transformation of
  independent streams whose law is known per site has the product law (`exStreams_sitewise`); (c) `exN_reorder`.
-/
import PercevalModel.Lemmas.C09Perm
import PercevalModel.Lemmas.C09Fubini

set_option linter.unusedSimpArgs false
set_option linter.unusedVariables false

namespace PM.C09

open PM.Dist (D mass)

/-! ### (a) pooled ok ⇔ lazy ok -/

theorem reorder_nil (w : Option Nat) : reorder w [] = [] := by
  rw [reorder_eq]
  split
  · rfl
  · rename_i h
    exfalso
    apply h
    simp only [List.length_nil]
    omega

/-- when the pooled provider fails, the lazy stream of that input state is empty -/
theorem sfPool_error_lazy_nil (p : Prov) (k : Fock) (e : String) (h : sfPool p k = .error e) :
    lazyOf p k = [] := by
  unfold sfPool at h
  unfold lazyOf
  cases hpool : agetD k p.pools [] with
  | cons x xs => rw [hpool] at h; simp at h
  | nil =>
    rw [hpool] at h
    simp only at h
    rw [List.nil_append, reorder_eq]
    by_cases hlen : (agetD k p.streams []).length < min ((aget k p.weights).getD minS) maxS
    · rw [if_pos (Or.inr hlen)]
    · simp only [hlen, ↓reduceIte] at h
      cases hrev : (List.take (min ((aget k p.weights).getD minS) maxS) (agetD k p.streams [])).reverse with
      | cons x xs => rw [hrev] at h; simp at h
      | nil =>
        have h0 : min ((aget k p.weights).getD minS) maxS = 0 := by
          have := congrArg List.length hrev
          simp only [List.length_reverse, List.length_take, List.length_nil] at this
          omega
        rw [if_pos (Or.inl h0)]

/-- the converse of `sfPool_sim`: a successful lazy read is a successful pooled read -/
theorem sfLazy_sim_rev (p : Prov) (q : Fock → List Fock) (k v : Fock) (q' : Fock → List Fock)
    (hR : Sim p q) (h : sfLazy q k = .ok (v, q')) : ∃ p', sfPool p k = .ok (v, p') ∧ Sim p' q' := by
  cases hp : sfPool p k with
  | error e =>
    have hnil := sfPool_error_lazy_nil p k e hp
    rw [← hR k] at hnil
    simp [sfLazy, hnil] at h
  | ok r =>
    obtain ⟨v2, p'⟩ := r
    obtain ⟨q2, hq2, hS⟩ := sfPool_sim p q k v2 p' hR hp
    rw [h] at hq2
    simp only [Except.ok.injEq, Prod.mk.injEq] at hq2
    obtain ⟨rfl, rfl⟩ := hq2
    exact ⟨p', rfl, hS⟩

/-- **the pooled run and the lazy run on the re-ordered streams succeed together, with the same loop state** -/
theorem loopG_pool_iff_lazy (c : SelCfg) (ms : Nat) (sh : Option Nat) (ge : Option String) (fuel : Nat)
    (p : Prov) (s s' : Core) :
    (∃ p', loopG sfPool c ms sh ge fuel p s = .ok (p', s')) ↔
      (∃ q', loopG sfLazy c ms sh ge fuel (lazyOf p) s = .ok (q', s')) := by
  constructor
  · rintro ⟨p', h⟩
    obtain ⟨q', hq, _⟩ := loopG_sim Sim sfPool sfLazy sfPool_sim c ms sh ge fuel p (lazyOf p) s p' s' (sim_lazyOf p) h
    exact ⟨q', hq⟩
  · rintro ⟨q', h⟩
    obtain ⟨p', hp, _⟩ := loopG_sim (fun q p => Sim p q) sfLazy sfPool
      (fun q p k v q' hR h => sfLazy_sim_rev p q k v q' hR h) c ms sh ge fuel (lazyOf p) p s q' s' (sim_lazyOf p) h
    exact ⟨p', hp⟩

/-- the value of an observable `F` of the final loop state; a run that does not finish (a stream ran out, an error of
the code) counts 0 -/
def okVal {P : Type} (F : Core → ℚ) : Except String (P × Core) → ℚ
  | .ok (_, s) => F s
  | .error _ => 0

theorem okVal_pool_eq_lazy (c : SelCfg) (ms : Nat) (sh : Option Nat) (ge : Option String) (fuel : Nat)
    (p : Prov) (s : Core) (F : Core → ℚ) :
    okVal F (loopG sfPool c ms sh ge fuel p s) = okVal F (loopG sfLazy c ms sh ge fuel (lazyOf p) s) := by
  cases h1 : loopG sfPool c ms sh ge fuel p s with
  | ok r =>
    obtain ⟨p', s'⟩ := r
    obtain ⟨q', hq⟩ := (loopG_pool_iff_lazy c ms sh ge fuel p s s').1 ⟨p', h1⟩
    rw [hq]
    rfl
  | error e =>
    cases h2 : loopG sfLazy c ms sh ge fuel (lazyOf p) s with
    | error e' => rfl
    | ok r =>
      obtain ⟨q', s'⟩ := r
      obtain ⟨p', hp⟩ := (loopG_pool_iff_lazy c ms sh ge fuel p s s').2 ⟨q', h2⟩
      rw [h1] at hp
      cases hp

/-! ### (b) site-wise transformations of independent streams -/

section sitewise
variable {K : Type} [DecidableEq K]

/-- transforming every stream by a map whose effect on the law of that stream is known gives the product of the
transformed laws: the sites stay independent -/
theorem exStreams_sitewise (μ : K → D) (len len' : K → ℕ) (T : K → List Fock → List Fock)
    (hT : ∀ k (F : List Fock → ℚ), exN (μ k) (len k) (fun s => F (T k s)) = exN (μ k) (len' k) F)
    (hnil : ∀ k, T k [] = []) :
    ∀ (ks : List K) (G : (K → List Fock) → ℚ),
      exStreams μ len ks (fun q => G (fun k => T k (q k))) = exStreams μ len' ks G := by
  intro ks
  induction ks with
  | nil =>
    intro G
    simp only [exStreams]
    congr 1
    funext k
    exact hnil k
  | cons k ks ih =>
    intro G
    simp only [exStreams]
    rw [← hT k (fun r => exStreams μ len' ks fun q => G (Function.update q k r))]
    apply exN_congr'
    intro l
    rw [← ih (fun q' => G (Function.update q' k (T k l)))]
    apply exStreams_congr
    intro q
    congr 1
    funext k'
    by_cases h : k' = k
    · subst h
      simp only [Function.update_self]
    · simp only [Function.update_of_ne h]

/-- under `exStreams` only the streams that are empty outside the listed sites matter -/
theorem exStreams_congr_out (μ : K → D) (len : K → ℕ) :
    ∀ (ks : List K) (G G' : (K → List Fock) → ℚ), (∀ q, (∀ k, k ∉ ks → q k = []) → G q = G' q) →
      exStreams μ len ks G = exStreams μ len ks G' := by
  intro ks
  induction ks with
  | nil =>
    intro G G' h
    exact h _ (fun _ _ => rfl)
  | cons k ks ih =>
    intro G G' h
    simp only [exStreams]
    apply exN_congr'
    intro l
    apply ih
    intro q hq
    apply h
    intro k' hk'
    have hne : k' ≠ k := fun e => hk' (e ▸ List.mem_cons_self)
    rw [Function.update_of_ne hne]
    exact hq k' (fun hmem => hk' (List.mem_cons_of_mem _ hmem))

end sitewise

/-! ### (c) the pooled provider on given backend streams -/

/-- a pooled provider whose backend streams are `S k` for the input states `k` of `ks` -/
def poolProv (pools : AL (List Fock)) (weights : AL Nat) (reqs : List (Fock × Nat)) (ks : List Fock)
    (S : Fock → List Fock) : Prov :=
  ⟨pools, weights, ks.map fun k => (k, S k), reqs⟩

theorem findKey_map_self {V : Type} (S : Fock → V) (k : Fock) :
    ∀ ks : List Fock, findKey k (ks.map fun k' => (k', S k')) = if k ∈ ks then some (S k) else none := by
  intro ks
  induction ks with
  | nil => simp [findKey]
  | cons a ks ih =>
    simp only [List.map_cons, findKey, List.mem_cons]
    by_cases h : a = k
    · subst h
      simp
    · have h' : ¬ k = a := fun e => h e.symm
      simp only [h, h', ↓reduceIte, false_or]
      exact ih

theorem lazyOf_poolProv (pools : AL (List Fock)) (weights : AL Nat) (reqs : List (Fock × Nat)) (ks : List Fock)
    (S : Fock → List Fock) (hS : ∀ k, k ∉ ks → S k = []) :
    lazyOf (poolProv pools weights reqs ks S) = fun k => agetD k pools [] ++ reorder (aget k weights) (S k) := by
  funext k
  unfold lazyOf poolProv
  simp only
  congr 2
  unfold agetD
  rw [findKey_map_self]
  by_cases hk : k ∈ ks
  · simp [hk]
  · simp [hk, hS k hk]

/-- **the joint law over all pools** -/
theorem pooled_run_joint (bk : Fock → D) (hbk : ∀ k, mass (bk k) = 1) (ks : List Fock) (n : Fock → ℕ)
    (pools : AL (List Fock)) (weights : AL Nat) (reqs : List (Fock × Nat))
    (c : SelCfg) (ms : Nat) (sh : Option Nat) (ge : Option String) (fuel : Nat) (s : Core) (F : Core → ℚ) :
    exStreams bk n ks (fun S => okVal F (loopG sfPool c ms sh ge fuel (poolProv pools weights reqs ks S) s)) =
      exStreams bk (fun k => reorderLen (aget k weights) (n k)) ks
        (fun R => okVal F (loopG sfLazy c ms sh ge fuel (fun k => agetD k pools [] ++ R k) s)) := by
  rw [← exStreams_sitewise bk n (fun k => reorderLen (aget k weights) (n k)) (fun k => reorder (aget k weights))
    (fun k F' => exN_reorder (bk k) (hbk k) (aget k weights) (n k) F') (fun k => reorder_nil _) ks
    (fun R => okVal F (loopG sfLazy c ms sh ge fuel (fun k => agetD k pools [] ++ R k) s))]
  apply exStreams_congr_out
  intro S hS
  rw [okVal_pool_eq_lazy, lazyOf_poolProv pools weights reqs ks S hS]

end PM.C09
