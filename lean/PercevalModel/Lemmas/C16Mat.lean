/-
  C16 (extension) — helper lemmas for the matrix reading of the circuit (`Model/C16Mat.lean`).
-/
import PercevalModel.Model.C16Mat
import PercevalModel.Lemmas.C16
import Mathlib.Data.List.Basic
import Mathlib.Data.List.Nodup
import Mathlib.Data.List.Perm.Basic
import Mathlib.Data.List.Range

namespace PM.C16
open Matrix PM.SM

section Mat
variable {R : Type} [CommRing R] [StarRing R]

/-! ### folds -/

/-- `compute_unitary` continued from a matrix -/
def circFold (ρ : Env R) (N : Nat) (A : Matrix (Fin N) (Fin N) R) (comps : List Comp) :
    Matrix (Fin N) (Fin N) R :=
  comps.foldl (fun A c => c.mat ρ N * A) A

theorem circFoldV_toMatrix (ρ : Env R) (N : Nat) (acc : MatV R N N) (comps : List Comp) :
    (circFoldV ρ N acc comps).toMatrix = circFold ρ N acc.toMatrix comps := by
  induction comps generalizing acc with
  | nil => rfl
  | cons c cs ih =>
    simp only [circFoldV, List.foldl_cons] at ih ⊢
    rw [ih]
    simp [circFold, Comp.mat]

theorem circMat_eq (ρ : Env R) (N : Nat) (comps : List Comp) :
    circMat ρ N comps = circFold ρ N 1 comps := by
  simp [circMat, circMatV, circFoldV_toMatrix]

theorem circFold_mul (ρ : Env R) (N : Nat) (A : Matrix (Fin N) (Fin N) R) (comps : List Comp) :
    circFold ρ N A comps = circFold ρ N 1 comps * A := by
  induction comps generalizing A with
  | nil => simp [circFold]
  | cons c cs ih =>
    have h1 := ih (c.mat ρ N * A)
    have h2 := ih (c.mat ρ N * 1)
    simp only [circFold, List.foldl_cons] at h1 h2 ⊢
    rw [h1, h2, Matrix.mul_one, Matrix.mul_assoc]

theorem circMat_nil (ρ : Env R) (N : Nat) : circMat ρ N [] = 1 := by
  simp [circMat_eq, circFold]

theorem circMat_append (ρ : Env R) (N : Nat) (a b : List Comp) :
    circMat ρ N (a ++ b) = circMat ρ N b * circMat ρ N a := by
  simp only [circMat_eq, circFold, List.foldl_append]
  exact circFold_mul ρ N _ b

theorem circMat_single (ρ : Env R) (N : Nat) (c : Comp) : circMat ρ N [c] = c.mat ρ N := by
  simp [circMat_eq, circFold]

theorem circMat_cons (ρ : Env R) (N : Nat) (c : Comp) (cs : List Comp) :
    circMat ρ N (c :: cs) = circMat ρ N cs * c.mat ρ N := by
  have := circMat_append ρ N [c] cs
  simpa [circMat_single] using this

theorem circMat_snoc (ρ : Env R) (N : Nat) (cs : List Comp) (c : Comp) :
    circMat ρ N (cs ++ [c]) = c.mat ρ N * circMat ρ N cs := by
  rw [circMat_append, circMat_single]

/-- `flatMat` continued from a matrix -/
def flatFold (ρ : Env R) (N : Nat) (A : Matrix (Fin N) (Fin N) R) (ls : List (Nat × Leaf)) :
    Matrix (Fin N) (Fin N) R :=
  ls.foldl (fun acc p => embed N p.1 (ρ p.2.id p.2.k) * acc) A

theorem flatMat_eq (ρ : Env R) (N : Nat) (ls : List (Nat × Leaf)) : flatMat ρ N ls = flatFold ρ N 1 ls := rfl

theorem flatFold_mul (ρ : Env R) (N : Nat) (A : Matrix (Fin N) (Fin N) R) (ls : List (Nat × Leaf)) :
    flatFold ρ N A ls = flatFold ρ N 1 ls * A := by
  induction ls generalizing A with
  | nil => simp [flatFold]
  | cons p ps ih =>
    have h1 := ih (embed N p.1 (ρ p.2.id p.2.k) * A)
    have h2 := ih (embed N p.1 (ρ p.2.id p.2.k) * 1)
    simp only [flatFold, List.foldl_cons] at h1 h2 ⊢
    rw [h1, h2, Matrix.mul_one, Matrix.mul_assoc]

theorem flatMat_nil (ρ : Env R) (N : Nat) : flatMat ρ N [] = 1 := rfl

theorem flatMat_append (ρ : Env R) (N : Nat) (a b : List (Nat × Leaf)) :
    flatMat ρ N (a ++ b) = flatMat ρ N b * flatMat ρ N a := by
  simp only [flatMat_eq, flatFold, List.foldl_append]
  exact flatFold_mul ρ N _ b

/-- the matrix of a user circuit on its own modes is the product of its components -/
theorem ucMat_eq_flatMat (ρ : Env R) (c : UC) : ucMat ρ c = flatMat ρ c.m c.leaves := by
  have key : ∀ (ls : List (Nat × Leaf)) (acc : MatV R c.m c.m),
      (ls.foldl (fun acc p => MatV.ofMatrix (embed c.m p.1 (ρ p.2.id p.2.k) * acc.toMatrix)) acc).toMatrix
        = flatFold ρ c.m acc.toMatrix ls := by
    intro ls
    induction ls with
    | nil => intro acc; rfl
    | cons p ps ih =>
      intro acc
      simp only [List.foldl_cons]
      rw [ih]
      simp [flatFold]
  simp only [ucMat, ucMatV, flatMat_eq]
  rw [key]
  simp

/-- `set_circuit` stores the circuit unpacked: same product -/
theorem circMat_unpack (ρ : Env R) (N : Nat) (c : UC) : circMat ρ N (unpack c) = flatMat ρ N c.leaves := by
  have key : ∀ (ls : List (Nat × Leaf)) (A : Matrix (Fin N) (Fin N) R),
      circFold ρ N A (ls.map fun p => Comp.leaf p.1 p.2) = flatFold ρ N A ls := by
    intro ls
    induction ls with
    | nil => intro A; rfl
    | cons p ps ih =>
      intro A
      simp only [circFold, flatFold, List.map_cons, List.foldl_cons] at ih ⊢
      rw [ih]
      simp [Comp.mat, Comp.matV]
  rw [circMat_eq, flatMat_eq, unpack, key]

/-- `add` stores the circuit nested: the sub-circuit's matrix placed at `k` is the product of its
components at their absolute positions -/
theorem embed_flatMat (ρ : Env R) (N k m : Nat) (ls : List (Nat × Leaf)) (hk : k + m ≤ N)
    (hfit : ∀ p ∈ ls, p.1 + p.2.k ≤ m) :
    embed N k (flatMat ρ m ls) = flatMat ρ N (shiftLeaves k ls) := by
  have key : ∀ (ls : List (Nat × Leaf)) (A : Matrix (Fin m) (Fin m) R), (∀ p ∈ ls, p.1 + p.2.k ≤ m) →
      embed N k (flatFold ρ m A ls) = flatFold ρ N (embed N k A) (shiftLeaves k ls) := by
    intro ls
    induction ls with
    | nil => intro A _; rfl
    | cons p ps ih =>
      intro A hf
      have hp : p.1 + p.2.k ≤ m := hf p (by simp)
      simp only [flatFold, shiftLeaves, List.map_cons, List.foldl_cons] at ih ⊢
      rw [ih _ (fun q hq => hf q (by simp [hq])), ← embed_mul hk, embed_embed hk hp, Nat.add_comm k p.1]
  rw [flatMat_eq, flatMat_eq, key ls 1 hfit, embed_one hk]

theorem sub_mat (ρ : Env R) (N k : Nat) (c : UC) (hk : k + c.m ≤ N) (hc : c.WF) :
    (Comp.sub k c).mat ρ N = flatMat ρ N (shiftLeaves k c.leaves) := by
  have : (Comp.sub k c).mat ρ N = embed N k (ucMat ρ c) := by simp [Comp.mat, Comp.matV, ucMat]
  rw [this, ucMat_eq_flatMat, embed_flatMat ρ N k c.m c.leaves hk hc]

theorem shiftLeaves_zero (ls : List (Nat × Leaf)) : shiftLeaves 0 ls = ls := by
  simp [shiftLeaves]

/-! ### permutations -/

theorem mul_permMatF_apply' {n : ℕ} (f : Fin n → Fin n) (A : Matrix (Fin n) (Fin n) R)
    (i j : Fin n) : (A * permMatF f : Matrix (Fin n) (Fin n) R) i j = A i (f j) := by
  simp only [Matrix.mul_apply, permMatF]
  rw [Finset.sum_eq_single (f j)]
  · simp
  · intro l _ hl; simp [Ne.symm hl]
  · simp

theorem permMatF_conjTranspose_mul_apply' {n : ℕ} (f : Fin n → Fin n)
    (A : Matrix (Fin n) (Fin n) R) (i j : Fin n) :
    ((permMatF f)ᴴ * A : Matrix (Fin n) (Fin n) R) i j = A (f i) j := by
  simp only [Matrix.mul_apply, conjTranspose_apply, permMatF]
  rw [Finset.sum_eq_single (f i)]
  · simp
  · intro l _ hl; simp [Ne.symm hl]
  · simp

/-- `PERM(σ)`, the components of the local processor, the inverted PERM: the local processor's matrix
read through the relabelling -/
theorem circMat_sandwich (ρ : Env R) (N : Nat) (σ : List Nat) (hσ : IsPermList N σ) (pc : List Comp) :
    circMat ρ N (.perm 0 σ :: pc ++ [.permInv 0 σ]) =
      (circMat ρ N pc).submatrix (permFn N σ) (permFn N σ) := by
  have hl : σ.length = N := hσ.1
  subst hl
  rw [List.cons_append, circMat_cons, circMat_snoc]
  have h1 : (Comp.perm 0 σ).mat ρ σ.length = permMatF (R := R) (permFn σ.length σ) := by
    simp only [Comp.mat, Comp.matV, MatV.toMatrix_ofMatrix, embed_full]
    exact permMatL_eq_permMatF hσ
  have h2 : (Comp.permInv 0 σ).mat ρ σ.length = (permMatF (R := R) (permFn σ.length σ))ᴴ := by
    simp only [Comp.mat, Comp.matV, MatV.toMatrix_ofMatrix, embed_full]
    rw [permMatL_eq_permMatF hσ]
  rw [h1, h2]
  ext i j
  rw [Matrix.mul_assoc, permMatF_conjTranspose_mul_apply', mul_permMatF_apply']
  rfl

theorem permFn_identity (N : Nat) (σ : List Nat) (hσ : IsPermList N σ) (hid : isIdentity σ = true) :
    permFn N σ = id := by
  have hl : σ.length = N := hσ.1
  have hr : σ = List.range σ.length := by simpa [isIdentity] using hid
  funext j
  have hj : j.val < σ.length := by rw [hl]; exact j.isLt
  have hg : σ.getD j.val N = j.val := by
    rw [List.getD_eq_getElem?_getD, List.getElem?_eq_getElem hj]
    have : σ[j.val] = (List.range σ.length)[j.val]'(by simpa using hj) := by
      congr 1
    simp [this]
  apply Fin.ext
  show (permFn N σ j).val = j.val
  unfold permFn
  split
  · exact hg
  · rfl

/-- the components `from_local_processor` leaves in the remote processor denote the local
processor's matrix read through the relabelling, with or without the PERM pair -/
theorem circMat_wrapPerm (ρ : Env R) (N : Nat) (σ : List Nat) (hσ : IsPermList N σ) (pc : List Comp) :
    circMat ρ N (wrapPerm σ pc) = (circMat ρ N pc).submatrix (permFn N σ) (permFn N σ) := by
  unfold wrapPerm
  by_cases hid : isIdentity σ = true
  · rw [if_pos hid, permFn_identity N σ hσ hid]
    rfl
  · rw [if_neg hid]
    exact circMat_sandwich ρ N σ hσ pc

end Mat

/-! ### the relabelling of a well-formed local processor is a permutation -/

theorem relabelOf_isPerm (p : Exp) (h : p.WF) : IsPermList p.size (relabelOf p) := by
  have hnd := h.nodup
  have hin := h.inside
  refine ⟨?_, ?_, ?_⟩
  · -- length
    have hsplit := List.length_eq_length_filter_add (l := List.range p.size)
      (fun k => !(heraldModes p).contains k)
    have hperm : ((List.range p.size).filter (fun k => !(!(heraldModes p).contains k))).Perm (heraldModes p) := by
      apply (List.perm_ext_iff_of_nodup ((List.nodup_range).filter _) hnd).2
      intro a
      simp only [List.mem_filter, List.mem_range, Bool.not_not, List.contains_iff_mem]
      exact ⟨fun x => x.2, fun x => ⟨hin a x, x⟩⟩
    have hlen := hperm.length_eq
    simp only [List.length_range] at hsplit
    simp only [relabelOf, List.length_append]
    omega
  · -- no repetition
    simp only [relabelOf]
    refine List.nodup_append.2 ⟨(List.nodup_range).filter _, hnd, ?_⟩
    intro a ha b hb hab
    subst hab
    simp only [List.mem_filter, List.mem_range, Bool.not_eq_true', List.contains_eq_mem,
      decide_eq_false_iff_not] at ha
    exact ha.2 hb
  · intro x hx
    simp only [relabelOf, List.mem_append, List.mem_filter, List.mem_range] at hx
    rcases hx with hx | hx
    · exact hx.1
    · exact hin x hx

/-! ### the symbol machine keeps the size of the processor, except when a processor is created -/

/-- `circuit_size` of the remote processor, if there is one -/
def World.size (w : World) : Option Nat := w.exp.map (·.size)

def Op.createsProcessor : Op → Bool
  | .newRemote .. => true
  | .convert .. => true
  | _ => false

theorem onExp_size (w : World) (f : Exp → Res Exp) (hf : ∀ e e', f e = .ok e' → e'.size = e.size) :
    (onExp w f).1.size = w.size := by
  unfold onExp
  split
  · rfl
  · rename_i e he
    split
    · rfl
    · rename_i e' hfe
      simp [World.size, he, hf e e' hfe]

theorem step_size_frame (w : World) (op : Op) (h : op.createsProcessor = false) :
    (step w op).1.size = w.size := by
  cases op with
  | newRemote via m circ cps noise => simp [Op.createsProcessor] at h
  | convert fixed p => simp [Op.createsProcessor] at h
  | setCircuit checked sz circ cps =>
    simp only [step]; apply onExp_size
    intro e e' hf
    split at hf
    · cases hf
    · unfold setCircuit at hf
      split at hf
      · cases hf
      · split at hf
        · cases hf
        · cases hf; rfl
  | retune circ => simp only [step]; apply onExp_size; intro e e' hf; cases hf; rfl
  | addComponent circ cps =>
    simp only [step]; apply onExp_size
    intro e e' hf
    split at hf
    · cases hf
    · cases hf; rfl
  | addHerald mode ex =>
    simp only [step]; apply onExp_size
    intro e e' hf
    split at hf
    · cases hf
    · unfold addHerald at hf
      split at hf
      · cases hf
      · split at hf
        · cases hf
        · cases hf; rfl
  | withInput s =>
    simp only [step]; apply onExp_size
    intro e e' hf
    unfold withInput at hf
    split at hf
    · cases hf
    · cases hf; rfl
  | setFilter n => simp only [step]; apply onExp_size; intro e e' hf; cases hf; rfl
  | setPost p => simp only [step]; apply onExp_size; intro e e' hf; cases hf; rfl
  | setNoise n => simp only [step]; apply onExp_size; intro e e' hf; cases hf; rfl
  | setParam k v => simp only [step]; apply onExp_size; intro e e' hf; cases hf; rfl
  | clearParams => simp only [step]; apply onExp_size; intro e e' hf; cases hf; rfl
  | prepare cmd cl il kw =>
    simp only [step]
    split
    · rfl
    · rename_i e he
      have h1 := preparePayload_fst w.pf e cmd cl il kw
      have hc : (preparePayload w.pf e cmd cl il kw).1.size = e.size := by
        rcases h1 with h1 | h1 <;> rw [h1] <;> rfl
      split <;> (rename_i e' _ hp; rw [hp] at hc; simp only [World.size, he, Option.map_some]; exact congrArg some hc)
  | newSampler ms =>
    simp only [step]
    split
    · rfl
    · split <;> rfl
  | addIterations its =>
    simp only [step]
    split
    · split <;> rfl
    · rfl
  | clearIterations => simp only [step]; split <;> rfl
  | createJob method =>
    simp only [step]
    split
    · rename_i e s he hs
      have h1 := createJob_fst w.pf e s method
      have hc : (createJob w.pf e s method).1.size = e.size := by
        rcases h1 with h1 | h1 <;> rw [h1] <;> rfl
      split <;> (rename_i e' _ hp; rw [hp] at hc; simp only [World.size, he, Option.map_some]; exact congrArg some hc)
    · rfl
  | execute idx args kw net =>
    rcases step_execute w idx args kw net with ⟨-, h⟩ | ⟨j, its, -, -, h⟩ | ⟨j, its, err, -, -, -, h⟩ | ⟨j, its, pl, -, -, -, h⟩ <;>
      first | (rw [h]; rfl) | rw [h]

/-! ### the two calls that create the processor -/

theorem step_newRemote_cases (w : World) (via : Bool) (m circ : Nat) (cps : List String) (noise : Option Nat) :
    (∃ err, step w (.newRemote via m circ cps noise) = (w, .err err)) ∨
    (∃ e, e.size = m ∧ step w (.newRemote via m circ cps noise) = ({ w with exp := some e, sampler := none }, .done)) := by
  simp only [step]
  cases h : newRemote w.pf via m circ cps noise with
  | error err => exact Or.inl ⟨err, rfl⟩
  | ok e =>
    refine Or.inr ⟨e, ?_, rfl⟩
    unfold newRemote at h
    simp only at h
    split at h
    · cases h
    · split at h
      · split at h
        · cases h
        · cases h; rfl
      · cases h; rfl

theorem withInput_size (e e' : Exp) (s : List Nat) (h : withInput e s = .ok e') : e'.size = e.size := by
  unfold withInput at h
  split at h
  · cases h
  · cases h; rfl

theorem fromLocal_size (fixed : Bool) (p e : Exp) (h : fromLocal fixed p = .ok e) :
    e.size = p.m + p.heralds.length := by
  rw [fromLocal_eq] at h
  cases hi : p.input with
  | none => rw [hi] at h; cases h; rfl
  | some s =>
    rw [hi] at h
    exact withInput_size _ _ _ h

theorem step_convert_cases (w : World) (fixed : Bool) (p : Exp) :
    (∃ err, step w (.convert fixed p) = (w, .err err)) ∨
    (∃ e, e.size = p.size ∧ step w (.convert fixed p) = ({ w with exp := some e, sampler := none }, .done)) := by
  simp only [step]
  by_cases hwf : p.WF
  · rw [if_neg (not_not.2 hwf)]
    cases h : fromLocal fixed p with
    | error err => exact Or.inl ⟨err, rfl⟩
    | ok e =>
      refine Or.inr ⟨e, ?_, rfl⟩
      rw [fromLocal_size fixed p e h]
      exact hwf.count
  · rw [if_pos hwf]
    exact Or.inl ⟨_, rfl⟩

/-! ### the invariant: components and user-level reading denote the same matrix -/

section Inv
variable {R : Type} [CommRing R] [StarRing R]

/-- whenever there is a processor (of `N` modes), its components denote the matrix the user means -/
def MatInv (ρ : Env R) (st : CWorld × Spec) : Prop :=
  ∀ N, st.1.w.size = some N → circMat ρ N st.1.comps = st.2.mat ρ N

theorem specMat_none (ρ : Env R) (N : Nat) (ls : List (Nat × Leaf)) :
    (Spec.mk none ls).mat ρ N = flatMat ρ N ls := by
  simp [Spec.mat]

/-- a call that changes neither the size, nor the components, nor the reading keeps the invariant -/
theorem matInv_same (ρ : Env R) (st st' : CWorld × Spec) (h : MatInv ρ st)
    (hs : st'.1.w.size = st.1.w.size) (hc : st'.1.comps = st.1.comps) (hp : st'.2 = st.2) : MatInv ρ st' := by
  intro N hN
  rw [hc, hp]
  exact h N (hs ▸ hN)

theorem cstep_matInv (ρ : Env R) (cw : CWorld) (sp : Spec) (op : COp) (h : MatInv ρ (cw, sp)) :
    ∀ r, cstep cw op = r → MatInv ρ (r.1, if r.2 = .done then specAfter sp op else sp) := by
  intro r hr
  cases op with
  | newRemote via c noise =>
    simp only [cstep] at hr
    by_cases hwf : c.WF
    · rw [if_neg (not_not.2 hwf)] at hr
      rcases step_newRemote_cases cw.w via c.m c.sym c.cparams noise with ⟨err, he⟩ | ⟨e, hsz, he⟩
      · rw [he] at hr
        subst hr
        exact matInv_same ρ _ _ h rfl rfl (by simp)
      · rw [he] at hr
        subst hr
        intro N hN
        simp only [World.size, Option.map_some, Option.some.injEq] at hN
        simp only [if_true, specAfter, specMat_none]
        have hN' : N = c.m := by rw [← hN, hsz]
        subst hN'
        cases via
        · simp only [Bool.false_eq_true, if_false]
          rw [circMat_single, sub_mat ρ c.m 0 c (by omega) hwf, shiftLeaves_zero]
        · simp only [if_true]
          exact circMat_unpack ρ c.m c
    · rw [if_pos hwf] at hr
      subst hr
      exact matInv_same ρ _ _ h rfl rfl (by simp)
  | convert p pc =>
    simp only [cstep] at hr
    by_cases hσ : IsPermList p.size (relabelOf p)
    · rw [if_neg (not_not.2 hσ)] at hr
      rcases step_convert_cases cw.w true p with ⟨err, he⟩ | ⟨e, hsz, he⟩
      · rw [he] at hr
        subst hr
        exact matInv_same ρ _ _ h rfl rfl (by simp)
      · rw [he] at hr
        subst hr
        intro N hN
        simp only [World.size, Option.map_some, Option.some.injEq] at hN
        have hN' : N = p.size := by rw [← hN, hsz]
        subst hN'
        simp only [if_true, specAfter, Spec.mat, flatMat_nil, Matrix.one_mul]
        exact circMat_wrapPerm ρ p.size (relabelOf p) hσ pc
    · rw [if_pos hσ] at hr
      subst hr
      exact matInv_same ρ _ _ h rfl rfl (by simp)
  | add k c =>
    simp only [cstep] at hr
    cases hexp : cw.w.exp with
    | none =>
      rw [hexp] at hr
      subst hr
      exact matInv_same ρ _ _ h rfl rfl (by simp)
    | some e =>
      rw [hexp] at hr
      simp only at hr
      by_cases hg : ¬ c.WF ∨ addOk e k c = false
      · rw [if_pos hg] at hr
        subst hr
        exact matInv_same ρ _ _ h rfl rfl (by simp)
      · rw [if_neg hg] at hr
        have hwf : c.WF := by
          by_contra hn; exact hg (Or.inl hn)
        have hok : addOk e k c = true := by
          cases hb : addOk e k c with
          | true => rfl
          | false => exact absurd (Or.inr hb) hg
        have hfit : k + c.m ≤ e.size := by
          simp only [addOk, Bool.and_eq_true, decide_eq_true_eq] at hok
          exact hok.1
        have hsize := step_size_frame cw.w (.addComponent c.sym c.cparams) rfl
        generalize step cw.w (.addComponent c.sym c.cparams) = sr at hsize hr
        obtain ⟨w', o⟩ := sr
        simp only at hsize
        cases o with
        | done =>
          simp only at hr
          subst hr
          intro N hN
          simp only at hN
          rw [hsize, World.size, hexp] at hN
          simp only [Option.map_some, Option.some.injEq] at hN
          subst hN
          have h0 := h e.size (by simp [World.size, hexp])
          simp only [if_true, specAfter, Spec.mat] at h0 ⊢
          rw [circMat_snoc, h0, sub_mat ρ e.size k c hfit hwf, flatMat_append, Matrix.mul_assoc]
        | err x => simp only at hr; subst hr; exact matInv_same ρ _ _ h hsize rfl (by simp)
        | payload x => simp only at hr; subst hr; exact matInv_same ρ _ _ h hsize rfl (by simp)
        | sent x => simp only at hr; subst hr; exact matInv_same ρ _ _ h hsize rfl (by simp)
        | lost x => simp only at hr; subst hr; exact matInv_same ρ _ _ h hsize rfl (by simp)
  | setCircuit checked c =>
    simp only [cstep] at hr
    by_cases hwf : c.WF
    · rw [if_neg (not_not.2 hwf)] at hr
      have hsize := step_size_frame cw.w (.setCircuit checked c.m c.sym c.cparams) rfl
      generalize step cw.w (.setCircuit checked c.m c.sym c.cparams) = sr at hsize hr
      obtain ⟨w', o⟩ := sr
      simp only at hsize
      cases o with
      | done =>
        simp only at hr
        subst hr
        intro N _
        simp only [if_true, specAfter, specMat_none]
        exact circMat_unpack ρ N c
      | err x => simp only at hr; subst hr; exact matInv_same ρ _ _ h hsize rfl (by simp)
      | payload x => simp only at hr; subst hr; exact matInv_same ρ _ _ h hsize rfl (by simp)
      | sent x => simp only at hr; subst hr; exact matInv_same ρ _ _ h hsize rfl (by simp)
      | lost x => simp only at hr; subst hr; exact matInv_same ρ _ _ h hsize rfl (by simp)
    · rw [if_pos hwf] at hr
      subst hr
      exact matInv_same ρ _ _ h rfl rfl (by simp)
  | plain op =>
    simp only [cstep] at hr
    by_cases hs : op.structural = true
    · rw [if_pos hs] at hr
      subst hr
      exact matInv_same ρ _ _ h rfl rfl (by simp)
    · rw [if_neg hs] at hr
      subst hr
      have hcp : op.createsProcessor = false := by
        cases op <;> simp_all [Op.structural, Op.createsProcessor]
      exact matInv_same ρ _ _ h (step_size_frame cw.w op hcp) rfl (by simp [specAfter])

theorem sstep_matInv (ρ : Env R) (st : CWorld × Spec) (op : COp) (h : MatInv ρ st) :
    MatInv ρ (sstep st op).1 :=
  cstep_matInv ρ st.1 st.2 op h _ rfl

end Inv

end PM.C16
