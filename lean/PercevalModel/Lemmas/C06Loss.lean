/-
  C06 — a QUANTITATIVE bound on the mass the threshold of `list_tensor_product` removes:
  `1 − θ · lossCount ns ≤ mass (generateRaw P θ ns t)` with an explicit count `lossCount ns` of the
  places where a probability `≤ θ` can be dropped (entries of an "easy trim", nodes of the depth-first
  product), and the total-variation consequence for `generateAt`.
-/
import PercevalModel.Lemmas.C06Trim

namespace PM.C06

/-! ### A. generic facts: mass, lengths -/

section generic
variable {α β : Type}

theorem NonNeg_tail {e : α × ℚ} {d : Dist α} (h : NonNeg (e :: d)) : NonNeg d :=
  fun x hx => h x (List.mem_cons_of_mem _ hx)

theorem NonNeg_head {e : α × ℚ} {d : Dist α} (h : NonNeg (e :: d)) : 0 ≤ e.2 :=
  h e List.mem_cons_self

theorem mass_nil : mass ([] : Dist α) = 0 := rfl

theorem mass_cons (e : α × ℚ) (d : Dist α) : mass (e :: d) = e.2 + mass d := by
  simp only [mass, List.map_cons, List.sum_cons]

theorem mass_nonneg (d : Dist α) (h : NonNeg d) : 0 ≤ mass d := by
  rw [mass_eq_E]; exact E_nonneg _ (fun _ => zero_le_one) d h

theorem Dom.mass_le {d d0 : Dist α} (h : Dom d d0) : mass d ≤ mass d0 := by
  rw [mass_eq_E, mass_eq_E]; exact h _ fun _ => zero_le_one

theorem E_sub_one (g : α → ℚ) (d : Dist α) : E (fun a => 1 - g a) d = mass d - E g d := by
  induction d with
  | nil => simp [mass_nil]
  | cons e d ih => rw [E_cons, E_cons, mass_cons, ih]; ring

theorem E_le_mass (g : α → ℚ) (hg1 : ∀ a, g a ≤ 1) (d : Dist α) (hd : NonNeg d) :
    E g d ≤ mass d := by
  have h := E_nonneg (fun a => 1 - g a) (fun a => sub_nonneg.mpr (hg1 a)) d hd
  rw [E_sub_one] at h
  linarith

/-- `Σ_{e ∈ d} (a · e.2 + c) = a · mass d + |d| · c` -/
theorem sum_affine (a c : ℚ) (d : Dist α) :
    (d.map fun e => a * e.2 + c).sum = a * mass d + (d.length : ℚ) * c := by
  induction d with
  | nil => simp [mass_nil]
  | cons e d ih =>
    rw [List.map_cons, List.sum_cons, ih, mass_cons, List.length_cons, Nat.cast_succ]; ring

theorem length_flatMap_le (l : List β) (f : β → List α) (c : ℕ) (h : ∀ b ∈ l, (f b).length ≤ c) :
    (l.flatMap f).length ≤ l.length * c := by
  induction l with
  | nil => simp
  | cons b l ih =>
    rw [List.flatMap_cons, List.length_append, List.length_cons, Nat.succ_mul]
    have h1 := h b List.mem_cons_self
    have h2 := ih fun x hx => h x (List.mem_cons_of_mem _ hx)
    omega

theorem length_dfs_le (θ : ℚ) (comb : α → α → α) (ds : List (Dist α)) (s : α) (p : ℚ) :
    (dfs θ comb ds s p).length ≤ (ds.map List.length).prod := by
  induction ds generalizing s p with
  | nil => simp [dfs]
  | cons d ds ih =>
    rw [List.map_cons, List.prod_cons]
    simp only [dfs]
    apply length_flatMap_le
    intro e _
    split
    · simp
    · exact ih _ _

theorem length_trim_le (θ : ℚ) (d : Dist α) : (trim θ d).length ≤ d.length :=
  List.length_filter_le _ _

theorem length_positive_le (d : Dist α) : (positive d).length ≤ d.length :=
  List.length_filter_le _ _

theorem length_addKey_le [DecidableEq α] (k : α) (p : ℚ) (d : Dist α) :
    (addKey k p d).length ≤ d.length + 1 := by
  induction d with
  | nil => simp [addKey]
  | cons e d ih =>
    simp only [addKey]
    split
    · simp
    · simp only [List.length_cons]; omega

theorem length_foldl_addKey_le [DecidableEq α] (d acc : Dist α) :
    (d.foldl (fun acc e => addKey e.1 e.2 acc) acc).length ≤ acc.length + d.length := by
  induction d generalizing acc with
  | nil => simp
  | cons e d ih =>
    rw [List.foldl_cons, List.length_cons]
    have h1 := ih (addKey e.1 e.2 acc)
    have h2 := length_addKey_le e.1 e.2 acc
    omega

theorem length_accum_le [DecidableEq α] (d : Dist α) : (accum d).length ≤ d.length := by
  have h := length_foldl_addKey_le d []
  simpa [accum] using h

/-! ### B. the "easy trim" removes at most `θ` per entry -/

theorem mass_trim_ge (θ : ℚ) (hθ : 0 ≤ θ) (d : Dist α) :
    mass d - mass (trim θ d) ≤ θ * (d.length : ℚ) := by
  induction d with
  | nil => simp [trim, mass_nil]
  | cons e d ih =>
    have ih' : mass d - mass (List.filter (fun e => decide (θ < e.2)) d) ≤ θ * (d.length : ℚ) := ih
    simp only [trim, List.filter_cons]
    rw [List.length_cons, Nat.cast_succ, mul_add, mul_one]
    split
    · rw [mass_cons, mass_cons]; linarith
    · next h =>
      have h' : e.2 ≤ θ := by
        simp only [decide_eq_true_eq, not_lt] at h; exact h
      rw [mass_cons]; linarith

theorem mass_trim_zero (d : Dist α) (h : NonNeg d) : mass (trim 0 d) = mass d := by
  rw [mass_eq_E, mass_eq_E]; exact E_trim_zero _ d h

/-! ### C. the depth-first product: deficit of the pruned product of dominated factors -/

/-- number of nodes of the product tree (places where a branch can be abandoned) -/
def pruneCount : List (Dist α) → ℕ
  | [] => 0
  | d :: ds => d.length * (1 + pruneCount ds)

/-- total mass deficit of the factors -/
def defSum : List (Dist α) → List (Dist α) → ℚ
  | d :: ds, d0 :: ds0 => (mass d0 - mass d) + defSum ds ds0
  | _, _ => 0

/-- the relation between a trimmed factor and its untrimmed counterpart -/
def FacRel (d d0 : Dist α) : Prop := NonNeg d ∧ NonNeg d0 ∧ Dom d d0 ∧ mass d0 ≤ 1

theorem FacRel.weaken {ds ds0 : List (Dist α)} (h : List.Forall₂ FacRel ds ds0) :
    List.Forall₂ (fun d d0 => NonNeg d ∧ NonNeg d0 ∧ Dom d d0) ds ds0 :=
  h.imp fun _ _ h => ⟨h.1, h.2.1, h.2.2.1⟩

theorem defSum_nonneg {ds ds0 : List (Dist α)} (h : List.Forall₂ FacRel ds ds0) :
    0 ≤ defSum ds ds0 := by
  induction h with
  | nil => exact le_refl _
  | cons hd _ ih =>
    simp only [defSum]
    have := hd.2.2.1.mass_le
    linarith

theorem prod_mass_bounds {ds0 : List (Dist α)} (h0 : ∀ d0 ∈ ds0, NonNeg d0 ∧ mass d0 ≤ 1) :
    0 ≤ (ds0.map mass).prod ∧ (ds0.map mass).prod ≤ 1 := by
  induction ds0 with
  | nil => simp
  | cons d0 l ih =>
    obtain ⟨h1, h2⟩ := ih fun x hx => h0 x (List.mem_cons_of_mem _ hx)
    obtain ⟨hn, hm⟩ := h0 d0 List.mem_cons_self
    have hm0 := mass_nonneg d0 hn
    rw [List.map_cons, List.prod_cons]
    exact ⟨mul_nonneg hm0 h1, mul_le_one₀ hm h1 h2⟩

theorem forall₂_right {ds ds0 : List (Dist α)} (h : List.Forall₂ FacRel ds ds0) :
    ∀ d0 ∈ ds0, NonNeg d0 ∧ mass d0 ≤ 1 := by
  induction h with
  | nil => intro d0 h0; simp at h0
  | cons hd _ ih =>
    intro d0 h0
    simp only [List.mem_cons] at h0
    rcases h0 with rfl | h0
    · exact ⟨hd.2.1, hd.2.2.2⟩
    · exact ih d0 h0

theorem mass_dfs_zero (comb : α → α → α) (ds : List (Dist α)) (hds : ∀ d ∈ ds, NonNeg d) (s : α)
    (p : ℚ) (hp : 0 ≤ p) : mass (dfs 0 comb ds s p) = p * (ds.map mass).prod := by
  rw [mass_eq_E, E_dfs_mul (fun _ => 1) comb (fun _ _ => (one_mul 1).symm) ds hds s p hp, mul_one]
  congr 2
  apply List.map_congr_left
  intro d _
  exact (mass_eq_E d).symm

theorem mass_dfs_cons (θ : ℚ) (comb : α → α → α) (d : Dist α) (ds : List (Dist α)) (s : α) (p : ℚ) :
    mass (dfs θ comb (d :: ds) s p) =
      (d.map fun e => if p * e.2 < θ then 0 else mass (dfs θ comb ds (comb s e.1) (p * e.2))).sum := by
  rw [mass_eq_E]
  simp only [dfs, E_flatMap]
  congr 1
  apply List.map_congr_left
  intro e _
  split
  · rfl
  · exact (mass_eq_E _).symm

/-- **deficit of the pruned product**: against the unpruned product of the dominating factors it loses
at most (running probability) × (total deficit of the factors) + `θ` per node of the tree. -/
theorem mass_dfs_deficit (comb : α → α → α) (θ : ℚ) (hθ : 0 ≤ θ) (ds ds0 : List (Dist α))
    (h : List.Forall₂ FacRel ds ds0) :
    ∀ (s : α) (p : ℚ), 0 ≤ p →
      mass (dfs 0 comb ds0 s p) - mass (dfs θ comb ds s p) ≤
        p * defSum ds ds0 + θ * (pruneCount ds : ℚ) := by
  induction h with
  | nil =>
    intro s p _
    simp [dfs, defSum, pruneCount]
  | @cons d d0 l l0 hd htl ih =>
    intro s p hp
    obtain ⟨hn, hn0, hdom, hm0⟩ := hd
    have hr := forall₂_right htl
    have hl0 : ∀ x ∈ l0, NonNeg x := fun x hx => (hr x hx).1
    obtain ⟨hM0, hM1⟩ := prod_mass_bounds hr
    have hΔ := defSum_nonneg htl
    have hmd := hdom.mass_le
    have hmd0 := mass_nonneg d hn
    set M := (l0.map mass).prod with hM
    set Δ := defSum l l0 with hΔdef
    set c : ℚ := θ * (1 + (pruneCount l : ℚ)) with hc
    have hc0 : 0 ≤ c := mul_nonneg hθ (by positivity)
    -- left: the unpruned product
    have hL : mass (dfs 0 comb (d0 :: l0) s p) = p * (mass d0 * M) := by
      rw [mass_dfs_zero comb (d0 :: l0) (fun x hx => by
        rcases List.mem_cons.mp hx with rfl | hx
        · exact hn0
        · exact hl0 x hx) s p hp, List.map_cons, List.prod_cons]
    -- right: entry by entry
    have hR : (d.map fun e => p * M * e.2 - (p * Δ * e.2 + c)).sum ≤
        mass (dfs θ comb (d :: l) s p) := by
      rw [mass_dfs_cons]
      apply List.sum_le_sum
      intro e he
      have he2 : 0 ≤ e.2 := hn e he
      have hpe : 0 ≤ p * e.2 := mul_nonneg hp he2
      have h1 : p * M * e.2 ≤ p * e.2 := by
        have := mul_le_mul_of_nonneg_left hM1 hpe
        linarith
      have h2 : 0 ≤ p * Δ * e.2 := mul_nonneg (mul_nonneg hp hΔ) he2
      split
      · next hlt =>
        have : θ ≤ c := by
          rw [hc]; have : 0 ≤ θ * (pruneCount l : ℚ) := mul_nonneg hθ (by positivity)
          linarith
        linarith
      · have hih := ih (comb s e.1) (p * e.2) hpe
        rw [mass_dfs_zero comb l0 hl0 _ _ hpe] at hih
        have : c = θ + θ * (pruneCount l : ℚ) := by rw [hc]; ring
        have e1 : p * e.2 * M = p * M * e.2 := by ring
        have e2 : p * e.2 * Δ = p * Δ * e.2 := by ring
        rw [e1, e2] at hih
        linarith
    have hsum : (d.map fun e => p * M * e.2 - (p * Δ * e.2 + c)).sum =
        (p * M - p * Δ) * mass d + (d.length : ℚ) * (-c) := by
      rw [← sum_affine]
      congr 1
      apply List.map_congr_left
      intro e _
      ring
    rw [hsum] at hR
    rw [hL]
    simp only [defSum, pruneCount]
    rw [← hΔdef]
    push_cast
    -- p·m0·M − (p·M − p·Δ)·m + |d|·c ≤ p·((m0 − m) + Δ) + θ·|d|·(1 + K)
    have h3 : p * ((mass d0 - mass d) * M) ≤ p * (mass d0 - mass d) := by
      apply mul_le_mul_of_nonneg_left _ hp
      have := mul_le_mul_of_nonneg_left hM1 (sub_nonneg.mpr hmd)
      linarith
    have h4 : p * Δ * mass d ≤ p * Δ := by
      have := mul_le_mul_of_nonneg_left (le_trans hmd hm0) (mul_nonneg hp hΔ)
      linarith
    have h5 : (d.length : ℚ) * c = θ * ((d.length : ℚ) * (1 + (pruneCount l : ℚ))) := by
      rw [hc]; ring
    nlinarith [h3, h4, h5, hR]

end generic

/-! ### D. mode level: `ltpMode`, `probDist` -/

theorem mass_accum (d : Dist Mode) : mass (accum d) = mass d := by
  rw [mass_eq_E, mass_eq_E]; exact E_accum _ d

theorem mass_lift (d : Dist Mode) : mass (lift d) = mass d := by
  rw [mass_eq_E, mass_eq_E]; exact E_lift _ d

theorem length_lift (d : Dist Mode) : (lift d).length = d.length := List.length_map _

/-- nodes of the product tree of `n` factors with at most 5 entries each -/
def kk : ℕ → ℕ
  | 0 => 0
  | n + 1 => 5 * (1 + kk n)

theorem pruneCount_le_kk {α : Type} (ds : List (Dist α)) (h : ∀ d ∈ ds, d.length ≤ 5) :
    pruneCount ds ≤ kk ds.length := by
  induction ds with
  | nil => exact le_refl _
  | cons d ds ih =>
    simp only [pruneCount, List.length_cons, kk]
    exact Nat.mul_le_mul (h d List.mem_cons_self)
      (Nat.add_le_add_left (ih fun x hx => h x (List.mem_cons_of_mem _ hx)) 1)

theorem sum_length_le {α : Type} (ds : List (Dist α)) (h : ∀ d ∈ ds, d.length ≤ 5) :
    (ds.map List.length).sum ≤ 5 * ds.length := by
  induction ds with
  | nil => simp
  | cons d ds ih =>
    rw [List.map_cons, List.sum_cons, List.length_cons]
    have h1 := h d List.mem_cons_self
    have h2 := ih fun x hx => h x (List.mem_cons_of_mem _ hx)
    omega

theorem prod_length_le {α : Type} (ds : List (Dist α)) (h : ∀ d ∈ ds, d.length ≤ 5) :
    (ds.map List.length).prod ≤ 5 ^ ds.length := by
  induction ds with
  | nil => simp
  | cons d ds ih =>
    rw [List.map_cons, List.prod_cons, List.length_cons, pow_succ, Nat.mul_comm]
    exact Nat.mul_le_mul (ih fun x hx => h x (List.mem_cons_of_mem _ hx)) (h d List.mem_cons_self)

theorem trim_pair_FacRel {α : Type} (θ : ℚ) (d : Dist α) (hd : NonNeg d) (hm : mass d ≤ 1) :
    FacRel (trim θ d) (trim 0 d) := by
  refine ⟨trim_NonNeg θ d hd, trim_NonNeg 0 d hd, ?_, ?_⟩
  · intro g hg
    rw [E_trim_zero g d hd]
    exact Dom_trim θ d hd g hg
  · rw [mass_trim_zero d hd]; exact hm

theorem defSum_trim_le {α : Type} (θ : ℚ) (hθ : 0 ≤ θ) (ds : List (Dist α))
    (hds : ∀ d ∈ ds, NonNeg d) :
    defSum (ds.map (trim θ)) (ds.map (trim 0)) ≤ θ * ((ds.map List.length).sum : ℕ) := by
  induction ds with
  | nil => simp [defSum]
  | cons d ds ih =>
    have h1 := ih fun x hx => hds x (List.mem_cons_of_mem _ hx)
    have h2 := mass_trim_ge θ hθ d
    have h3 := mass_trim_zero d (hds d List.mem_cons_self)
    simp only [List.map_cons, defSum, List.sum_cons, Nat.cast_add]
    rw [h3, mul_add]
    linarith

/-- what `ltpMode` loses at threshold `θ`: at most `θ` per entry of a factor and per node of the tree -/
theorem mass_ltpMode_deficit (θ : ℚ) (hθ : 0 ≤ θ) (ds : List (Dist Mode))
    (hds : ∀ d ∈ ds, NonNeg d) (hm : ∀ d ∈ ds, mass d ≤ 1) :
    mass (ltpMode 0 ds) - mass (ltpMode θ ds) ≤
      θ * (((ds.map List.length).sum + pruneCount (ds.map (trim θ)) : ℕ) : ℚ) := by
  have hpos : 0 ≤ θ * (((ds.map List.length).sum + pruneCount (ds.map (trim θ)) : ℕ) : ℚ) :=
    mul_nonneg hθ (Nat.cast_nonneg _)
  match ds, hds, hm, hpos with
  | [], _, _, hpos => simpa [ltpMode] using hpos
  | [d], _, _, hpos => simpa [ltpMode] using hpos
  | d₁ :: d₂ :: ds, hds, hm, hpos =>
    show mass (if (d₁ :: d₂ :: ds).any List.isEmpty then []
        else accum (dfs 0 (fun s e => mergeTags e s) ((d₁ :: d₂ :: ds).map (trim 0)) [] 1)) -
      mass (if (d₁ :: d₂ :: ds).any List.isEmpty then []
        else accum (dfs θ (fun s e => mergeTags e s) ((d₁ :: d₂ :: ds).map (trim θ)) [] 1)) ≤ _
    split
    · simpa using hpos
    · rw [mass_accum, mass_accum]
      have hF : List.Forall₂ FacRel ((d₁ :: d₂ :: ds).map (trim θ)) ((d₁ :: d₂ :: ds).map (trim 0)) := by
        rw [List.forall₂_map_left_iff, List.forall₂_map_right_iff, List.forall₂_same]
        intro d hd
        exact trim_pair_FacRel θ d (hds d hd) (hm d hd)
      have h1 := mass_dfs_deficit (fun s e => mergeTags e s) θ hθ _ _ hF [] 1 zero_le_one
      have h2 := defSum_trim_le θ hθ (d₁ :: d₂ :: ds) hds
      rw [one_mul] at h1
      rw [Nat.cast_add, mul_add]
      linarith

theorem length_onePhotonRaw_le (P : Params) (t : ℕ) : (onePhotonRaw P t).length ≤ 5 := by
  unfold onePhotonRaw
  by_cases hpd : partDist P = true <;> by_cases hdm : P.dm = true <;> simp [hpd, hdm]

theorem length_onePhoton_le (P : Params) (t : ℕ) : (onePhoton P t).length ≤ 5 :=
  le_trans (length_positive_le _) (length_onePhotonRaw_le P t)

theorem mass_onePhoton {P : Params} (hP : P.WF) (t : ℕ) : mass (onePhoton P t) = 1 := by
  have h := cnt_onePhoton hP t 1
  simp only [one_pow, poly_one] at h
  rw [mass_eq_E]; exact h

theorem photonDists_length_le (P : Params) (n t : ℕ) : ∀ d ∈ photonDists P n t, d.length ≤ 5 := by
  induction n generalizing t with
  | zero => intro d hd; simp [photonDists] at hd
  | succ n ih =>
    intro d hd
    simp only [photonDists, List.mem_cons] at hd
    rcases hd with rfl | hd
    · exact length_onePhoton_le P t
    · exact ih _ d hd

theorem photonDists_mass {P : Params} (hP : P.WF) (n t : ℕ) :
    ∀ d ∈ photonDists P n t, mass d = 1 := by
  induction n generalizing t with
  | zero => intro d hd; simp [photonDists] at hd
  | succ n ih =>
    intro d hd
    simp only [photonDists, List.mem_cons] at hd
    rcases hd with rfl | hd
    · exact mass_onePhoton hP t
    · exact ih _ d hd

theorem length_photonDists (P : Params) (n t : ℕ) : (photonDists P n t).length = n := by
  induction n generalizing t with
  | zero => rfl
  | succ n ih => simp only [photonDists, List.length_cons, ih]

/-- entries and tree nodes at which one mode (`n` requested photons) can lose a probability `≤ θ` -/
def modeLoss : ℕ → ℕ
  | 0 => 0
  | 1 => 0
  | n + 2 => 5 * (n + 2) + kk (n + 2)

theorem mass_probDist_deficit {P : Params} (hP : P.WF) (θ : ℚ) (hθ : 0 ≤ θ) (n t : ℕ) :
    mass (probDist P 0 n t) - mass (probDist P θ n t) ≤ θ * (modeLoss n : ℚ) := by
  have hpos : 0 ≤ θ * (modeLoss n : ℚ) := mul_nonneg hθ (Nat.cast_nonneg _)
  unfold probDist
  split
  · rw [sub_self]; exact hpos
  · match n, hpos with
    | 0, hpos => simpa [photonDists, ltpMode] using hpos
    | 1, hpos => simpa [photonDists, ltpMode] using hpos
    | n + 2, _ =>
      have hds := photonDists_NonNeg P (n + 2) t
      have hlen := photonDists_length_le P (n + 2) t
      have h1 := mass_ltpMode_deficit θ hθ (photonDists P (n + 2) t) hds
        (fun d hd => le_of_eq (photonDists_mass hP (n + 2) t d hd))
      have h2 := sum_length_le _ hlen
      have h3 : pruneCount ((photonDists P (n + 2) t).map (trim θ)) ≤ kk (n + 2) := by
        have := pruneCount_le_kk ((photonDists P (n + 2) t).map (trim θ)) (by
          intro d hd
          simp only [List.mem_map] at hd
          obtain ⟨x, hx, rfl⟩ := hd
          exact le_trans (length_trim_le θ x) (hlen x hx))
        rwa [List.length_map, length_photonDists] at this
      rw [length_photonDists] at h2
      have h4 : (photonDists P (n + 2) t |>.map List.length).sum +
          pruneCount ((photonDists P (n + 2) t).map (trim θ)) ≤ modeLoss (n + 2) := by
        simp only [modeLoss]; omega
      have h5 : ((((photonDists P (n + 2) t).map List.length).sum +
          pruneCount ((photonDists P (n + 2) t).map (trim θ)) : ℕ) : ℚ) ≤ (modeLoss (n + 2) : ℚ) :=
        Nat.cast_le.mpr h4
      exact le_trans h1 (mul_le_mul_of_nonneg_left h5 hθ)

theorem length_ltpMode_le (θ : ℚ) (ds : List (Dist Mode)) (h : ∀ d ∈ ds, d.length ≤ 5) :
    (ltpMode θ ds).length ≤ 5 ^ ds.length := by
  match ds, h with
  | [], _ => simp [ltpMode]
  | [d], h => simpa [ltpMode] using h d List.mem_cons_self
  | d₁ :: d₂ :: ds, h =>
    show (if (d₁ :: d₂ :: ds).any List.isEmpty then []
        else accum (dfs θ (fun s e => mergeTags e s) ((d₁ :: d₂ :: ds).map (trim θ)) [] 1)).length ≤ _
    split
    · simp
    · refine le_trans (length_accum_le _) (le_trans (length_dfs_le _ _ _ _ _) ?_)
      have := prod_length_le ((d₁ :: d₂ :: ds).map (trim θ)) (by
        intro d hd
        simp only [List.mem_map] at hd
        obtain ⟨x, hx, rfl⟩ := hd
        exact le_trans (length_trim_le θ x) (h x hx))
      rwa [List.length_map] at this

theorem length_probDist_le (P : Params) (θ : ℚ) (n t : ℕ) : (probDist P θ n t).length ≤ 5 ^ n := by
  unfold probDist
  split
  · simpa using Nat.one_le_pow n 5 (by norm_num)
  · have := length_ltpMode_le θ _ (photonDists_length_le P n t)
    rwa [length_photonDists] at this

theorem mass_probDist_zero {P : Params} (hP : P.WF) (n t : ℕ) : mass (probDist P 0 n t) = 1 := by
  have h := cnt_probDist hP n t 1
  simp only [one_pow, poly_one] at h
  rw [mass_eq_E]; exact h

/-! ### E. state level: `generateRaw` -/

/-- nodes of the product tree of the modes (mode `i` has at most `5 ^ nᵢ` entries) -/
def KK : List ℕ → ℕ
  | [] => 0
  | n :: ns => 5 ^ n * (1 + KK ns)

/-- the factors handed to the state-level depth-first product -/
def stateFactors (P : Params) (θ : ℚ) (ns : List ℕ) (t : ℕ) : List (Dist State) :=
  ((modeDists P θ ns t).map lift).map (trim θ)

theorem stateFactors_cons (P : Params) (θ : ℚ) (n : ℕ) (ns : List ℕ) (t : ℕ) :
    stateFactors P θ (n :: ns) t =
      trim θ (lift (probDist P θ n t)) :: stateFactors P θ ns (probDistTag P n t) := rfl

theorem stateFactors_FacRel {P : Params} (hP : P.WF) (θ : ℚ) (ns : List ℕ) (t : ℕ) :
    List.Forall₂ FacRel (stateFactors P θ ns t) (stateFactors P 0 ns t) := by
  induction ns generalizing t with
  | nil => exact List.Forall₂.nil
  | cons n ns ih =>
    rw [stateFactors_cons, stateFactors_cons]
    refine List.Forall₂.cons ?_ (ih _)
    have h1 := lift_NonNeg _ (probDist_NonNeg P θ n t)
    have h0 := lift_NonNeg _ (probDist_NonNeg P 0 n t)
    refine ⟨trim_NonNeg θ _ h1, trim_NonNeg 0 _ h0, ?_, ?_⟩
    · intro g hg
      rw [E_trim_zero g _ h0]
      exact le_trans (Dom_trim θ _ h1 g hg) (Dom_lift (Dom_probDist P θ n t) g hg)
    · rw [mass_trim_zero _ h0, mass_lift, mass_probDist_zero hP]

theorem stateFactors_defSum {P : Params} (hP : P.WF) (θ : ℚ) (hθ : 0 ≤ θ) (ns : List ℕ) (t : ℕ) :
    defSum (stateFactors P θ ns t) (stateFactors P 0 ns t) ≤
      θ * (((ns.map fun n => modeLoss n + 5 ^ n).sum : ℕ) : ℚ) := by
  induction ns generalizing t with
  | nil => simp [stateFactors, modeDists, defSum]
  | cons n ns ih =>
    rw [stateFactors_cons, stateFactors_cons]
    simp only [defSum, List.map_cons, List.sum_cons]
    have h0 := lift_NonNeg _ (probDist_NonNeg P 0 n t)
    rw [mass_trim_zero _ h0, mass_lift, mass_probDist_zero hP]
    have h1 := mass_probDist_deficit hP θ hθ n t
    rw [mass_probDist_zero hP] at h1
    have h2 := mass_trim_ge θ hθ (lift (probDist P θ n t))
    rw [mass_lift, length_lift] at h2
    have h3 : ((probDist P θ n t).length : ℚ) ≤ ((5 ^ n : ℕ) : ℚ) :=
      Nat.cast_le.mpr (length_probDist_le P θ n t)
    have h4 := mul_le_mul_of_nonneg_left h3 hθ
    have h5 := ih (probDistTag P n t)
    rw [Nat.cast_add, Nat.cast_add, mul_add, mul_add]
    linarith

theorem stateFactors_pruneCount (P : Params) (θ : ℚ) (ns : List ℕ) (t : ℕ) :
    pruneCount (stateFactors P θ ns t) ≤ KK ns := by
  induction ns generalizing t with
  | nil => exact le_refl _
  | cons n ns ih =>
    rw [stateFactors_cons]
    simp only [pruneCount, KK]
    refine Nat.mul_le_mul ?_ (Nat.add_le_add_left (ih _) 1)
    exact le_trans (length_trim_le θ _) (by rw [length_lift]; exact length_probDist_le P θ n t)

/-- explicit count of the places where mass ≤ θ can be dropped -/
def lossCount : List ℕ → ℕ
  | [] => 0
  | [n] => modeLoss n
  | n₁ :: n₂ :: ns => ((n₁ :: n₂ :: ns).map fun n => modeLoss n + 5 ^ n).sum + KK (n₁ :: n₂ :: ns)

theorem generateRaw_NonNeg (P : Params) (θ : ℚ) (ns : List ℕ) (t : ℕ) :
    NonNeg (generateRaw P θ ns t) := by
  match ns with
  | [] => intro e he; simp [generateRaw, modeDists, ltpState] at he
  | [n] =>
    show NonNeg (lift (probDist P θ n t))
    exact lift_NonNeg _ (probDist_NonNeg P θ n t)
  | n₁ :: n₂ :: ns =>
    show NonNeg (dfs θ (fun s e => s ++ e) (stateFactors P θ (n₁ :: n₂ :: ns) t) [] 1)
    apply dfs_NonNeg _ _ _ _ _ _ zero_le_one
    intro d hd
    simp only [stateFactors, List.mem_map] at hd
    obtain ⟨x, ⟨y, hy, rfl⟩, rfl⟩ := hd
    exact trim_NonNeg θ _ (lift_NonNeg _ (modeDists_NonNeg P θ _ t y hy))

/-- **quantitative trimming bound**: the threshold removes at most `θ` per place counted by
`lossCount` -/
theorem mass_generateRaw_ge {P : Params} (hP : P.WF) (θ : ℚ) (hθ : 0 ≤ θ) {ns : List ℕ}
    (hne : ns ≠ []) (t : ℕ) :
    1 - θ * (lossCount ns : ℚ) ≤ mass (generateRaw P θ ns t) := by
  match ns, hne with
  | [n], _ =>
    show 1 - θ * (modeLoss n : ℚ) ≤ mass (lift (probDist P θ n t))
    have h1 := mass_probDist_deficit hP θ hθ n t
    rw [mass_probDist_zero hP] at h1
    rw [mass_lift]
    linarith
  | n₁ :: n₂ :: ns, hne =>
    have h0 := mass_generateRaw_zero hP hne t
    have h1 := mass_dfs_deficit (fun (s e : State) => s ++ e) θ hθ _ _
      (stateFactors_FacRel hP θ (n₁ :: n₂ :: ns) t) [] 1 zero_le_one
    have h2 := stateFactors_defSum hP θ hθ (n₁ :: n₂ :: ns) t
    have h3 : (pruneCount (stateFactors P θ (n₁ :: n₂ :: ns) t) : ℚ) ≤ (KK (n₁ :: n₂ :: ns) : ℚ) :=
      Nat.cast_le.mpr (stateFactors_pruneCount P θ _ t)
    have h4 := mul_le_mul_of_nonneg_left h3 hθ
    change mass (dfs 0 (fun s e => s ++ e) (stateFactors P 0 (n₁ :: n₂ :: ns) t) [] 1) = 1 at h0
    rw [h0, one_mul] at h1
    show 1 - θ * (((((n₁ :: n₂ :: ns).map fun n => modeLoss n + 5 ^ n).sum +
        KK (n₁ :: n₂ :: ns) : ℕ)) : ℚ) ≤
      mass (dfs θ (fun s e => s ++ e) (stateFactors P θ (n₁ :: n₂ :: ns) t) [] 1)
    rw [Nat.cast_add, mul_add]
    linarith

theorem mass_generateRaw_le_one {P : Params} (hP : P.WF) (θ : ℚ) {ns : List ℕ} (hne : ns ≠ [])
    (t : ℕ) : mass (generateRaw P θ ns t) ≤ 1 := by
  rw [← mass_generateRaw_zero hP hne t]
  exact (Dom_generateRaw P θ ns t).mass_le

/-- total-variation consequence, for every test function with values in [0,1] -/
theorem generateAt_close {P : Params} (hP : P.WF) (θ : ℚ) (hθ : 0 ≤ θ) {ns : List ℕ}
    (hne : ns ≠ []) (t : ℕ) (hpos : θ * (lossCount ns : ℚ) < 1)
    (g : State → ℚ) (hg0 : ∀ s, 0 ≤ g s) (hg1 : ∀ s, g s ≤ 1) :
    |E g (generateAt P θ ns t) - E g (generateAt P 0 ns t)| ≤ θ * (lossCount ns : ℚ) := by
  rw [E_generateAt_zero hP g hne t, generateAt, E_normalize]
  have hnn := generateRaw_NonNeg P θ ns t
  have hm1 := mass_generateRaw_le_one hP θ hne t
  have hmε := mass_generateRaw_ge hP θ hθ hne t
  have hdom := Dom_generateRaw P θ ns t
  have hxy := hdom g hg0
  have hc := hdom (fun s => 1 - g s) fun s => sub_nonneg.mpr (hg1 s)
  rw [E_sub_one, E_sub_one, mass_generateRaw_zero hP hne t] at hc
  have hx0 := E_nonneg g hg0 _ hnn
  have hxm := E_le_mass g hg1 _ hnn
  set m := mass (generateRaw P θ ns t) with hm
  set x := E g (generateRaw P θ ns t) with hx
  set y := E g (generateRaw P 0 ns t) with hy
  set ε := θ * (lossCount ns : ℚ) with hε
  have hmpos : 0 < m := by linarith
  have hz0 : 0 ≤ x / m := div_nonneg hx0 hmpos.le
  have hz1 : x / m ≤ 1 := (div_le_one hmpos).mpr hxm
  have hxz : x = x / m * m := (div_mul_cancel₀ x hmpos.ne').symm
  have h1 : x / m * (1 - m) ≤ 1 - m :=
    mul_le_of_le_one_left (by linarith) hz1
  have h2 : 0 ≤ x / m * (1 - m) := mul_nonneg hz0 (by linarith)
  rw [abs_le]
  constructor
  · -- y − x/m ≤ y − x ≤ 1 − m ≤ ε
    nlinarith
  · -- x/m − y ≤ x/m − x = (x/m)(1 − m) ≤ 1 − m ≤ ε
    nlinarith

/-- the same without the smallness hypothesis: when `θ · lossCount ns ≥ 1` the bound is trivial, both
expectations lie in `[0, 1]` (also when nothing survives: `normalize` of a massless list gives `0`) -/
theorem generateAt_close_all {P : Params} (hP : P.WF) (θ : ℚ) (hθ : 0 ≤ θ) {ns : List ℕ}
    (hne : ns ≠ []) (t : ℕ) (g : State → ℚ) (hg0 : ∀ s, 0 ≤ g s) (hg1 : ∀ s, g s ≤ 1) :
    |E g (generateAt P θ ns t) - E g (generateAt P 0 ns t)| ≤ θ * (lossCount ns : ℚ) := by
  by_cases hpos : θ * (lossCount ns : ℚ) < 1
  · exact generateAt_close hP θ hθ hne t hpos g hg0 hg1
  · have hε : 1 ≤ θ * (lossCount ns : ℚ) := not_lt.mp hpos
    have hnn := generateRaw_NonNeg P θ ns t
    have hnn0 := generateRaw_NonNeg P 0 ns t
    have hy0 := E_nonneg g hg0 _ hnn0
    have hy1 := E_le_mass g hg1 _ hnn0
    rw [mass_generateRaw_zero hP hne t] at hy1
    have hx0 := E_nonneg g hg0 _ hnn
    have hxm := E_le_mass g hg1 _ hnn
    have hm0 := mass_nonneg _ hnn
    rw [E_generateAt_zero hP g hne t, generateAt, E_normalize]
    have hz0 : 0 ≤ E g (generateRaw P θ ns t) / mass (generateRaw P θ ns t) := div_nonneg hx0 hm0
    have hz1 : E g (generateRaw P θ ns t) / mass (generateRaw P θ ns t) ≤ 1 := by
      rcases hm0.lt_or_eq with h | h
      · exact (div_le_one h).mpr hxm
      · rw [← h, div_zero]; exact zero_le_one
    rw [abs_le]
    constructor <;> linarith

/-! ### F. size of `lossCount` -/

theorem kk_le (n : ℕ) : kk n + 2 ≤ 2 * 5 ^ n := by
  induction n with
  | zero => simp [kk]
  | succ n ih => simp only [kk, pow_succ]; omega

theorem modeLoss_le (n : ℕ) : modeLoss n + 5 ^ n ≤ 8 * 5 ^ n := by
  have h1 : n < 5 ^ n := Nat.lt_pow_self (by norm_num)
  have h2 := kk_le n
  match n, h1, h2 with
  | 0, _, _ => simp [modeLoss]
  | 1, _, _ => simp [modeLoss]
  | n + 2, h1, h2 => simp only [modeLoss]; omega

theorem pow_le_pow_sum_left (n s : ℕ) : 5 ^ n ≤ 5 ^ (n + s) :=
  Nat.pow_le_pow_right (by norm_num) (Nat.le_add_right n s)

theorem pow_le_pow_sum_right (n s : ℕ) : 5 ^ s ≤ 5 ^ (n + s) :=
  Nat.pow_le_pow_right (by norm_num) (Nat.le_add_left s n)

theorem sum_modeLoss_le (ns : List ℕ) :
    (ns.map fun n => modeLoss n + 5 ^ n).sum ≤ 8 * (ns.length * 5 ^ ns.sum) := by
  induction ns with
  | nil => simp
  | cons n ns ih =>
    rw [List.map_cons, List.sum_cons, List.sum_cons, List.length_cons]
    have h1 := modeLoss_le n
    have h2 := pow_le_pow_sum_left n ns.sum
    have h3 : ns.length * 5 ^ ns.sum ≤ ns.length * 5 ^ (n + ns.sum) :=
      Nat.mul_le_mul_left _ (pow_le_pow_sum_right n ns.sum)
    have e : (ns.length + 1) * 5 ^ (n + ns.sum) =
        ns.length * 5 ^ (n + ns.sum) + 5 ^ (n + ns.sum) := by ring
    rw [e]
    omega

theorem KK_le (ns : List ℕ) : KK ns ≤ ns.length * 5 ^ ns.sum := by
  induction ns with
  | nil => simp [KK]
  | cons n ns ih =>
    rw [List.sum_cons, List.length_cons, KK, pow_add, Nat.succ_mul, Nat.mul_add, Nat.mul_one]
    have h1 : 5 ^ n * KK ns ≤ 5 ^ n * (ns.length * 5 ^ ns.sum) := Nat.mul_le_mul_left _ ih
    have h2 : 5 ^ n * 1 ≤ 5 ^ n * 5 ^ ns.sum := Nat.mul_le_mul_left _ (Nat.one_le_pow _ _ (by norm_num))
    have e : ns.length * (5 ^ n * 5 ^ ns.sum) = 5 ^ n * (ns.length * 5 ^ ns.sum) := by ring
    rw [e]
    omega

/-- closed-form size: `lossCount ns ≤ 9 · (number of modes) · 5 ^ (number of requested photons)` -/
theorem lossCount_le (ns : List ℕ) : lossCount ns ≤ 9 * (ns.length * 5 ^ ns.sum) := by
  match ns with
  | [] => simp [lossCount]
  | [n] =>
    have := modeLoss_le n
    simp only [lossCount, List.length_cons, List.length_nil, List.sum_cons, List.sum_nil,
      Nat.add_zero, Nat.zero_add, Nat.one_mul]
    omega
  | n₁ :: n₂ :: ns =>
    have h1 := sum_modeLoss_le (n₁ :: n₂ :: ns)
    have h2 := KK_le (n₁ :: n₂ :: ns)
    simp only [lossCount]
    omega

example : lossCount [1] = 0 := by decide
example : lossCount [2] = 40 := by decide
example : lossCount [1, 1] = 40 := by decide
example : lossCount [2, 1] = 220 := by decide
example : lossCount [1, 1, 1] = 170 := by decide

end PM.C06
