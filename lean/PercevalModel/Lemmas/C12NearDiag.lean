/-
  C12 — a lower-triangular matrix close (in Frobenius norm) to a unitary matrix is close to the diagonal matrix of the
  unit-modulus phases of its own diagonal, with a bound that is linear in the distance:

    `frob (W - L) ≤ δ  →  frob (L - diag (phase (L i i))) ≤ (√(n-1) + 1) δ + n δ²`.

  The combinatorial core (`low_le_up`): for a non-negative square array with all row sums and all column sums equal
  to one, the mass strictly below the diagonal is at most `(n-1)` times the mass strictly above it (weigh every entry
  by `i - j`: the weighted total is zero).
-/
import PercevalModel.Lemmas.C12Frob
import Mathlib.Analysis.Real.Sqrt
import Mathlib.Algebra.Order.BigOperators.Ring.Finset

open Matrix

namespace PM.C12

/-- unit-modulus phase of `z` (1 for `z = 0`) -/
noncomputable def phase (z : ℂ) : ℂ := if z = 0 then 1 else z / (‖z‖ : ℂ)

theorem norm_phase (z : ℂ) : ‖phase z‖ = 1 := by
  unfold phase
  split_ifs with h
  · simp
  · rw [norm_div, Complex.norm_real, norm_norm, div_self (norm_ne_zero_iff.mpr h)]

/-- the distance of `z` to its phase is the distance of its modulus to one -/
theorem norm_sub_phase (z : ℂ) : ‖z - phase z‖ = |‖z‖ - 1| := by
  unfold phase
  split_ifs with h
  · subst h
    simp
  · have hz : (‖z‖ : ℂ) ≠ 0 := by exact_mod_cast (norm_ne_zero_iff.mpr h)
    have e : z - z / (‖z‖ : ℂ) = z / (‖z‖ : ℂ) * ((‖z‖ - 1 : ℝ) : ℂ) := by
      push_cast
      field_simp
    rw [e, norm_mul, norm_div, Complex.norm_real, Complex.norm_real, norm_norm,
      div_self (norm_ne_zero_iff.mpr h), one_mul, Real.norm_eq_abs]

/-- keep the entries selected by `p`, zero the others -/
noncomputable def mask {m n : ℕ} (p : Fin m → Fin n → Prop) [∀ i j, Decidable (p i j)]
    (M : Matrix (Fin m) (Fin n) ℂ) : Matrix (Fin m) (Fin n) ℂ := fun i j => if p i j then M i j else 0

theorem frob2_mask {m n : ℕ} (p : Fin m → Fin n → Prop) [∀ i j, Decidable (p i j)]
    (M : Matrix (Fin m) (Fin n) ℂ) :
    frob2 (mask p M) = ∑ i, ∑ j, if p i j then Complex.normSq (M i j) else 0 := by
  unfold frob2 mask
  apply Finset.sum_congr rfl
  intro i _
  apply Finset.sum_congr rfl
  intro j _
  by_cases h : p i j <;> simp [h]

/-- dropping entries does not increase the norm -/
theorem frob2_mask_le {m n : ℕ} (p : Fin m → Fin n → Prop) [∀ i j, Decidable (p i j)]
    (M : Matrix (Fin m) (Fin n) ℂ) : frob2 (mask p M) ≤ frob2 M := by
  rw [frob2_mask]
  unfold frob2
  apply Finset.sum_le_sum
  intro i _
  apply Finset.sum_le_sum
  intro j _
  by_cases h : p i j <;> simp [h, Complex.normSq_nonneg]

theorem frob_mask_le {m n : ℕ} (p : Fin m → Fin n → Prop) [∀ i j, Decidable (p i j)]
    (M : Matrix (Fin m) (Fin n) ℂ) : frob (mask p M) ≤ frob M :=
  Real.sqrt_le_sqrt (frob2_mask_le p M)

theorem frob2_diagonal {n : ℕ} (d : Fin n → ℂ) :
    frob2 (Matrix.diagonal d) = ∑ i, Complex.normSq (d i) := by
  unfold frob2
  apply Finset.sum_congr rfl
  intro i _
  rw [Finset.sum_eq_single i]
  · rw [Matrix.diagonal_apply_eq]
  · intro j _ hj
    rw [Matrix.diagonal_apply_ne' _ hj, map_zero]
  · simp

/-- the matrix of the moduli of the entries -/
noncomputable def absM {m n : ℕ} (A : Matrix (Fin m) (Fin n) ℂ) : Matrix (Fin m) (Fin n) ℂ :=
  fun i j => ((‖A i j‖ : ℝ) : ℂ)

theorem frob_absM {m n : ℕ} (A : Matrix (Fin m) (Fin n) ℂ) : frob (absM A) = frob A := by
  unfold frob frob2 absM
  congr 1
  apply Finset.sum_congr rfl
  intro i _
  apply Finset.sum_congr rfl
  intro j _
  rw [Complex.normSq_ofReal, Complex.normSq_eq_norm_sq, sq]

/-- entrywise domination by a sum of three moduli gives domination of the Frobenius norms -/
theorem frob_le_of_entry_le3 {m n : ℕ} (D A B C : Matrix (Fin m) (Fin n) ℂ)
    (h : ∀ i j, ‖D i j‖ ≤ ‖A i j‖ + ‖B i j‖ + ‖C i j‖) : frob D ≤ frob A + frob B + frob C := by
  have h1 : frob D ≤ frob (absM A + absM B + absM C) := by
    unfold frob
    apply Real.sqrt_le_sqrt
    unfold frob2
    apply Finset.sum_le_sum
    intro i _
    apply Finset.sum_le_sum
    intro j _
    rw [Matrix.add_apply, Matrix.add_apply]
    unfold absM
    rw [← Complex.ofReal_add, ← Complex.ofReal_add, Complex.normSq_ofReal, Complex.normSq_eq_norm_sq]
    nlinarith [h i j, norm_nonneg (D i j)]
  have h2 := frob_add_le (absM A + absM B) (absM C)
  have h3 := frob_add_le (absM A) (absM B)
  rw [frob_absM] at h2 h3
  rw [frob_absM] at h3
  linarith

/-- the rows of a (right-)unitary matrix have norm one -/
theorem row_normSq_sum {n : ℕ} (W : Matrix (Fin n) (Fin n) ℂ) (hW1 : W * Wᴴ = 1) (i : Fin n) :
    ∑ j, Complex.normSq (W i j) = 1 := by
  have h := congrFun (congrFun hW1 i) i
  rw [Matrix.mul_apply, Matrix.one_apply_eq] at h
  have h' : ((∑ j, Complex.normSq (W i j) : ℝ) : ℂ) = 1 := by
    rw [← h]
    push_cast
    apply Finset.sum_congr rfl
    intro j _
    rw [Matrix.conjTranspose_apply, ← Complex.mul_conj]
    rfl
  exact_mod_cast h'

/-- the columns of a (left-)unitary matrix have norm one -/
theorem col_normSq_sum {n : ℕ} (W : Matrix (Fin n) (Fin n) ℂ) (hW2 : Wᴴ * W = 1) (j : Fin n) :
    ∑ i, Complex.normSq (W i j) = 1 := by
  have h := congrFun (congrFun hW2 j) j
  rw [Matrix.mul_apply, Matrix.one_apply_eq] at h
  have h' : ((∑ i, Complex.normSq (W i j) : ℝ) : ℂ) = 1 := by
    rw [← h]
    push_cast
    apply Finset.sum_congr rfl
    intro i _
    rw [Matrix.conjTranspose_apply, Complex.normSq_eq_conj_mul_self]
    rfl
  exact_mod_cast h'

/-- KEY counting lemma: in a non-negative array with unit row sums and unit column sums, the mass strictly below the
diagonal is at most `n - 1` times the mass strictly above the diagonal. -/
theorem low_le_up {n : ℕ} (a : Fin n → Fin n → ℝ) (ha : ∀ i j, 0 ≤ a i j)
    (hrow : ∀ i, ∑ j, a i j = 1) (hcol : ∀ j, ∑ i, a i j = 1) :
    (∑ i, ∑ j, if j < i then a i j else 0) ≤
      ((n : ℝ) - 1) * ∑ i, ∑ j, if i < j then a i j else 0 := by
  have h0 : ∑ i : Fin n, ∑ j : Fin n, (((i : ℕ) : ℝ) - ((j : ℕ) : ℝ)) * a i j = 0 := by
    have h1 : ∑ i : Fin n, ∑ j : Fin n, ((i : ℕ) : ℝ) * a i j = ∑ i : Fin n, ((i : ℕ) : ℝ) := by
      apply Finset.sum_congr rfl
      intro i _
      rw [← Finset.mul_sum, hrow, mul_one]
    have h2 : ∑ i : Fin n, ∑ j : Fin n, ((j : ℕ) : ℝ) * a i j = ∑ j : Fin n, ((j : ℕ) : ℝ) := by
      rw [Finset.sum_comm]
      apply Finset.sum_congr rfl
      intro j _
      rw [← Finset.mul_sum, hcol, mul_one]
    simp only [sub_mul, Finset.sum_sub_distrib, h1, h2, sub_self]
  have h3 : ∑ i : Fin n, ∑ j : Fin n,
        ((if j < i then a i j else 0) - ((n : ℝ) - 1) * (if i < j then a i j else 0)) ≤
      ∑ i : Fin n, ∑ j : Fin n, (((i : ℕ) : ℝ) - ((j : ℕ) : ℝ)) * a i j := by
    apply Finset.sum_le_sum
    intro i _
    apply Finset.sum_le_sum
    intro j _
    rcases lt_trichotomy i j with h | h | h
    · rw [if_neg (not_lt.mpr h.le), if_pos h]
      have hj : ((j : ℕ) : ℝ) + 1 ≤ (n : ℝ) := by exact_mod_cast j.isLt
      have hi : (0 : ℝ) ≤ ((i : ℕ) : ℝ) := Nat.cast_nonneg _
      have := mul_nonneg (by linarith : (0 : ℝ) ≤ ((i : ℕ) : ℝ) - ((j : ℕ) : ℝ) + ((n : ℝ) - 1)) (ha i j)
      linarith
    · subst h
      simp
    · rw [if_pos h, if_neg (not_lt.mpr h.le)]
      have hij : ((j : ℕ) : ℝ) + 1 ≤ ((i : ℕ) : ℝ) := by exact_mod_cast (Fin.lt_def.mp h)
      have := mul_nonneg (by linarith : (0 : ℝ) ≤ ((i : ℕ) : ℝ) - ((j : ℕ) : ℝ) - 1) (ha i j)
      linarith
  rw [h0] at h3
  simp only [Finset.sum_sub_distrib, ← Finset.mul_sum] at h3
  linarith

/-- A lower-triangular matrix `L` at Frobenius distance at most `δ` from a unitary matrix `W` is at distance at most
`(√(n-1) + 1) δ + n δ²` from the diagonal matrix of the phases of its own diagonal entries (exactly the statement
asked for, no extra hypothesis). -/
theorem lower_triangular_near_unitary_near_diagonal {n : ℕ} (L W : Matrix (Fin n) (Fin n) ℂ)
    (hL : ∀ i j, i < j → L i j = 0) (hW1 : W * Wᴴ = 1) (hW2 : Wᴴ * W = 1)
    (δ : ℝ) (hδ : frob (W - L) ≤ δ) :
    frob (L - Matrix.diagonal (fun i => phase (L i i))) ≤
      (Real.sqrt ((n : ℝ) - 1) + 1) * δ + (n : ℝ) * δ ^ 2 := by
  have hδ0 : 0 ≤ δ := (frob_nonneg _).trans hδ
  rcases Nat.eq_zero_or_pos n with hn | hn
  · subst hn
    have hz : frob (L - Matrix.diagonal (fun i => phase (L i i))) = 0 := by
      unfold frob frob2
      simp
    rw [hz]
    exact add_nonneg (mul_nonneg (add_nonneg (Real.sqrt_nonneg _) zero_le_one) hδ0)
      (mul_nonneg (Nat.cast_nonneg _) (sq_nonneg _))
  have hn1 : (0 : ℝ) ≤ (n : ℝ) - 1 := by
    have : (1 : ℝ) ≤ (n : ℝ) := by exact_mod_cast hn
    linarith
  have hE2 : frob2 (W - L) ≤ δ ^ 2 := by
    rw [← frob_sq]
    exact pow_le_pow_left₀ (frob_nonneg _) hδ 2
  have hrow := row_normSq_sum W hW1
  have hcol := col_normSq_sum W hW2
  -- upper and lower masses of `W`
  have hup : (∑ i, ∑ j, if i < j then Complex.normSq (W i j) else 0) ≤ δ ^ 2 := by
    refine le_trans (le_of_eq ?_) ((frob2_mask_le (fun i j => i < j) (W - L)).trans hE2)
    rw [frob2_mask]
    apply Finset.sum_congr rfl
    intro i _
    apply Finset.sum_congr rfl
    intro j _
    by_cases h : i < j
    · rw [if_pos h, if_pos h, Matrix.sub_apply, hL i j h, sub_zero]
    · rw [if_neg h, if_neg h]
  have hup0 : 0 ≤ ∑ i, ∑ j, if i < j then Complex.normSq (W i j) else 0 :=
    Finset.sum_nonneg fun i _ => Finset.sum_nonneg fun j _ => by
      split_ifs
      · exact Complex.normSq_nonneg _
      · exact le_rfl
  have hlow := low_le_up (fun i j => Complex.normSq (W i j)) (fun i j => Complex.normSq_nonneg _) hrow hcol
  have hlow0 : 0 ≤ ∑ i, ∑ j, if j < i then Complex.normSq (W i j) else 0 :=
    Finset.sum_nonneg fun i _ => Finset.sum_nonneg fun j _ => by
      split_ifs
      · exact Complex.normSq_nonneg _
      · exact le_rfl
  have hlow2 : (∑ i, ∑ j, if j < i then Complex.normSq (W i j) else 0) ≤ ((n : ℝ) - 1) * δ ^ 2 :=
    hlow.trans (mul_le_mul_of_nonneg_left hup hn1)
  -- row defects
  have hr : ∀ i, 1 - Complex.normSq (W i i) =
      (∑ j, if i < j then Complex.normSq (W i j) else 0) + ∑ j, if j < i then Complex.normSq (W i j) else 0 := by
    intro i
    rw [← Finset.sum_add_distrib]
    have e : ∀ j, ((if i < j then Complex.normSq (W i j) else 0) + if j < i then Complex.normSq (W i j) else 0) =
        Complex.normSq (W i j) - if i = j then Complex.normSq (W i j) else 0 := by
      intro j
      rcases lt_trichotomy i j with h | h | h
      · rw [if_pos h, if_neg (not_lt.mpr h.le), if_neg h.ne]
        ring
      · subst h
        simp
      · rw [if_neg (not_lt.mpr h.le), if_pos h, if_neg h.ne']
        ring
    simp only [e, Finset.sum_sub_distrib, Finset.sum_ite_eq, Finset.mem_univ, if_true, hrow]
  have hr0 : ∀ i, 0 ≤ 1 - Complex.normSq (W i i) := by
    intro i
    rw [hr i]
    apply add_nonneg <;>
    · apply Finset.sum_nonneg
      intro j _
      split_ifs
      · exact Complex.normSq_nonneg _
      · exact le_rfl
  have hrsum : ∑ i, (1 - Complex.normSq (W i i)) ≤ (n : ℝ) * δ ^ 2 := by
    have : ∑ i, (1 - Complex.normSq (W i i)) =
        (∑ i, ∑ j, if i < j then Complex.normSq (W i j) else 0) +
          ∑ i, ∑ j, if j < i then Complex.normSq (W i j) else 0 := by
      rw [← Finset.sum_add_distrib]
      exact Finset.sum_congr rfl fun i _ => hr i
    rw [this]
    linarith
  -- the three pieces
  have hA : frob (mask (fun i j => j ≤ i) (W - L)) ≤ δ := (frob_mask_le _ _).trans hδ
  have hB : frob (mask (fun i j => j < i) W) ≤ Real.sqrt ((n : ℝ) - 1) * δ := by
    have : Real.sqrt (((n : ℝ) - 1) * δ ^ 2) = Real.sqrt ((n : ℝ) - 1) * δ := by
      rw [Real.sqrt_mul' _ (sq_nonneg δ), Real.sqrt_sq hδ0]
    rw [← this]
    unfold frob
    apply Real.sqrt_le_sqrt
    rw [frob2_mask]
    exact hlow2
  have hC : frob (Matrix.diagonal (fun i => (((1 - Complex.normSq (W i i) : ℝ)) : ℂ))) ≤ (n : ℝ) * δ ^ 2 := by
    refine le_trans ?_ hrsum
    unfold frob
    rw [Real.sqrt_le_iff]
    refine ⟨Finset.sum_nonneg fun i _ => hr0 i, ?_⟩
    rw [frob2_diagonal]
    have : ∀ i, Complex.normSq (((1 - Complex.normSq (W i i) : ℝ)) : ℂ) = (1 - Complex.normSq (W i i)) ^ 2 := by
      intro i
      rw [Complex.normSq_ofReal, sq]
    simp only [this]
    exact Finset.sum_sq_le_sq_sum_of_nonneg fun i _ => hr0 i
  have hentry : ∀ i j, ‖(L - Matrix.diagonal (fun i => phase (L i i))) i j‖ ≤
      ‖mask (fun i j => j ≤ i) (W - L) i j‖ + ‖mask (fun i j => j < i) W i j‖ +
        ‖Matrix.diagonal (fun i => (((1 - Complex.normSq (W i i) : ℝ)) : ℂ)) i j‖ := by
    intro i j
    rcases lt_trichotomy i j with h | h | h
    · rw [Matrix.sub_apply, hL i j h, Matrix.diagonal_apply_ne _ h.ne, sub_zero, norm_zero]
      positivity
    · subst h
      rw [Matrix.sub_apply, Matrix.diagonal_apply_eq, Matrix.diagonal_apply_eq, norm_sub_phase]
      have eA : mask (fun i j => j ≤ i) (W - L) i i = W i i - L i i := by
        unfold mask
        rw [if_pos le_rfl, Matrix.sub_apply]
      have eB : mask (fun i j => j < i) W i i = 0 := by
        unfold mask
        rw [if_neg (lt_irrefl i)]
      rw [eA, eB, norm_zero, add_zero, Complex.norm_real, Real.norm_eq_abs, abs_of_nonneg (hr0 i)]
      have h1 : |‖L i i‖ - ‖W i i‖| ≤ ‖L i i - W i i‖ := abs_norm_sub_norm_le _ _
      rw [norm_sub_rev] at h1
      have hx0 : 0 ≤ ‖W i i‖ := norm_nonneg _
      have hx2 : Complex.normSq (W i i) = ‖W i i‖ ^ 2 := Complex.normSq_eq_norm_sq _
      have hr0i := hr0 i
      have hx1 : ‖W i i‖ ≤ 1 := by nlinarith
      have hx3 : 1 - ‖W i i‖ ≤ 1 - Complex.normSq (W i i) := by nlinarith
      rw [abs_le] at h1 ⊢
      constructor <;> linarith [h1.1, h1.2]
    · have eA : mask (fun i j => j ≤ i) (W - L) i j = W i j - L i j := by
        unfold mask
        rw [if_pos h.le, Matrix.sub_apply]
      have eB : mask (fun i j => j < i) W i j = W i j := by
        unfold mask
        rw [if_pos h]
      rw [Matrix.sub_apply, Matrix.diagonal_apply_ne _ h.ne', Matrix.diagonal_apply_ne _ h.ne', sub_zero, eA, eB,
        norm_zero, add_zero]
      have e : L i j = W i j - (W i j - L i j) := by ring
      calc ‖L i j‖ = ‖W i j - (W i j - L i j)‖ := by rw [← e]
        _ ≤ ‖W i j‖ + ‖W i j - L i j‖ := norm_sub_le _ _
        _ = ‖W i j - L i j‖ + ‖W i j‖ := add_comm _ _
  have hfin := frob_le_of_entry_le3 _ _ _ _ hentry
  nlinarith [hfin, hA, hB, hC]

/-- non-vacuity: the hypotheses hold for `L = W = 1`, `δ = 0`, and then the conclusion says that the identity is the
diagonal matrix of its own phases. -/
example (n : ℕ) :
    frob ((1 : Matrix (Fin n) (Fin n) ℂ) - Matrix.diagonal (fun i => phase ((1 : Matrix (Fin n) (Fin n) ℂ) i i))) ≤
      (Real.sqrt ((n : ℝ) - 1) + 1) * 0 + (n : ℝ) * (0 : ℝ) ^ 2 :=
  lower_triangular_near_unitary_near_diagonal 1 1
    (fun i j h => Matrix.one_apply_ne h.ne) (by simp) (by simp) 0 (by rw [sub_self, frob_zero])

end PM.C12
