/-
  C13 — helper lemmas (sums over the doubled index, doubling of embedded blocks, tree lemmas).
-/
import PercevalModel.Model.C13
import PercevalModel.Lemmas.C01
import Mathlib.Logic.Equiv.Fin.Basic
import Mathlib.Algebra.BigOperators.Fin
import Mathlib.Tactic.LinearCombination
import Mathlib.Tactic.FinCases

open Matrix

namespace PM.C13

variable {R : Type}

/-! ### sums over `Fin (m * 2)` split into (spatial mode, polarisation) -/

theorem divNat_pair {m : ℕ} (a : Fin m) (p : Fin 2) : (finProdFinEquiv (a, p)).divNat = a :=
  congrArg Prod.fst (finProdFinEquiv.symm_apply_apply (a, p))

theorem modNat_pair {m : ℕ} (a : Fin m) (p : Fin 2) : (finProdFinEquiv (a, p)).modNat = p :=
  congrArg Prod.snd (finProdFinEquiv.symm_apply_apply (a, p))

theorem sum_double [AddCommMonoid R] {m : ℕ} (f : Fin (m * 2) → R) :
    ∑ l, f l = ∑ a : Fin m, ∑ p : Fin 2, f (finProdFinEquiv (a, p)) := by
  rw [← finProdFinEquiv.sum_comp, Fintype.sum_prod_type]

theorem pair_eta {m : ℕ} (i : Fin (m * 2)) : finProdFinEquiv (i.divNat, i.modNat) = i :=
  finProdFinEquiv.apply_symm_apply i

theorem fin_double_ext {m : ℕ} {i j : Fin (m * 2)} (h1 : i.divNat = j.divNat)
    (h2 : i.modNat = j.modNat) : i = j := by
  rw [← pair_eta i, ← pair_eta j, h1, h2]

/-! ### `matrix_double` is a star-monoid homomorphism -/

theorem double_one' [Zero R] [One R] {m : ℕ} :
    double (1 : Matrix (Fin m) (Fin m) R) = 1 := by
  ext i j
  simp only [double, Matrix.one_apply]
  by_cases h : i = j
  · subst h; simp
  · by_cases h2 : i.modNat = j.modNat
    · have : i.divNat ≠ j.divNat := fun h1 => h (fin_double_ext h1 h2)
      simp [h, h2, this]
    · simp [h, h2]

theorem double_mul' [CommRing R] {m : ℕ} (A B : Matrix (Fin m) (Fin m) R) :
    double A * double B = double (A * B) := by
  ext i j
  rw [Matrix.mul_apply, sum_double]
  simp only [double, divNat_pair, modNat_pair, Fin.sum_univ_two]
  by_cases h : i.modNat = j.modNat
  · rw [if_pos h, Matrix.mul_apply]
    apply Finset.sum_congr rfl
    intro a _
    have h01 : ∀ x : Fin 2, x = 0 ∨ x = 1 := by intro x; fin_cases x <;> simp
    rcases h01 i.modNat with hi | hi <;> rw [← h, hi] <;> simp
  · rw [if_neg h]
    apply Finset.sum_eq_zero
    intro a _
    have h01 : ∀ x : Fin 2, x = 0 ∨ x = 1 := by intro x; fin_cases x <;> simp
    rcases h01 i.modNat with hi | hi <;> rcases h01 j.modNat with hj | hj <;>
      simp [hi, hj] at h ⊢

theorem double_conjTranspose' [CommRing R] [StarRing R] {m : ℕ} (A : Matrix (Fin m) (Fin m) R) :
    (double A)ᴴ = double Aᴴ := by
  ext i j
  simp only [double, conjTranspose_apply]
  by_cases h : i.modNat = j.modNat
  · simp [h]
  · have : ¬ j.modNat = i.modNat := fun h' => h h'.symm
    simp [h, this]

/-! ### doubling commutes with embedding at the doubled offset (the `multiplier` logic) -/

theorem double_embed' [Zero R] [One R] {N o k : ℕ} (hk : o + k ≤ N)
    (B : Matrix (Fin k) (Fin k) R) :
    double (embed N o B) = embed (N * 2) (o * 2) (double B) := by
  ext i j
  have hi := i.isLt
  have hj := j.isLt
  simp only [double, embed, place, unshift, Fin.coe_divNat, Fin.coe_modNat]
  by_cases hm : i.modNat = j.modNat
  · have hm' : i.val % 2 = j.val % 2 := by simpa [Fin.ext_iff] using hm
    rw [if_pos hm]
    by_cases h1 : o ≤ i.val / 2 ∧ i.val / 2 < o + k <;>
      by_cases h2 : o ≤ j.val / 2 ∧ j.val / 2 < o + k
    · have h1' : o * 2 ≤ i.val ∧ i.val < o * 2 + k * 2 := by omega
      have h2' : o * 2 ≤ j.val ∧ j.val < o * 2 + k * 2 := by omega
      simp only [h1, h2, h1', h2', and_self, ↓reduceDIte]
      have e : (⟨i.val - o * 2, by omega⟩ : Fin (k * 2)).modNat =
          (⟨j.val - o * 2, by omega⟩ : Fin (k * 2)).modNat := by
        apply Fin.ext; simp only [Fin.coe_modNat]; omega
      rw [if_pos e]
      congr 1 <;> apply Fin.ext <;> simp only [Fin.coe_divNat] <;> omega
    · have h1' : o * 2 ≤ i.val ∧ i.val < o * 2 + k * 2 := by omega
      have h2' : ¬ (o * 2 ≤ j.val ∧ j.val < o * 2 + k * 2) := by omega
      simp [h1, h2, h1', h2']
    · have h1' : ¬ (o * 2 ≤ i.val ∧ i.val < o * 2 + k * 2) := by omega
      have h2' : o * 2 ≤ j.val ∧ j.val < o * 2 + k * 2 := by omega
      simp [h1, h2, h1', h2']
    · have h1' : ¬ (o * 2 ≤ i.val ∧ i.val < o * 2 + k * 2) := by omega
      have h2' : ¬ (o * 2 ≤ j.val ∧ j.val < o * 2 + k * 2) := by omega
      simp only [h1, h2, h1', h2', ↓reduceDIte]
      have : (i.divNat = j.divNat) ↔ i = j := by
        constructor
        · intro h; exact fin_double_ext h hm
        · intro h; rw [h]
      by_cases hij : i = j
      · simp [hij]
      · have : ¬ i.divNat = j.divNat := fun h => hij (this.1 h)
        simp [hij, this]
  · have hm' : ¬ i.val % 2 = j.val % 2 := by
      intro h; apply hm; apply Fin.ext; simpa using h
    rw [if_neg hm]
    by_cases h1 : o * 2 ≤ i.val ∧ i.val < o * 2 + k * 2 <;>
      by_cases h2 : o * 2 ≤ j.val ∧ j.val < o * 2 + k * 2
    · simp only [h1, h2, and_self, ↓reduceDIte]
      have e : ¬ (⟨i.val - o * 2, by omega⟩ : Fin (k * 2)).modNat =
          (⟨j.val - o * 2, by omega⟩ : Fin (k * 2)).modNat := by
        intro h; have := congrArg Fin.val h; simp only [Fin.coe_modNat] at this; omega
      rw [if_neg e]
    · simp [h1, h2]
    · simp [h1, h2]
    · have : i ≠ j := by intro h; apply hm; rw [h]
      simp [h1, h2, this]

/-! ### trees -/

theorem double_isUnitary' [CommRing R] [StarRing R] {m : ℕ} {A : Matrix (Fin m) (Fin m) R}
    (h : IsUnitary A) : IsUnitary (double A) := by
  constructor
  · rw [double_conjTranspose', double_mul', h.1, double_one']
  · rw [double_conjTranspose', double_mul', h.2, double_one']

theorem dbl_size [Zero R] (c : PComp R) : (dbl c).size = c.size * 2 := by
  cases c <;> rfl

mutual
  theorem dbl_WF [Zero R] : (c : PComp R) → c.WF → (dbl c).WF
    | .plain _ _, _ => trivial
    | .pol _ _, _ => trivial
    | .circ m items, h => dblItems_WF m items h
  theorem dblItems_WF [Zero R] (m : ℕ) : (items : PItems R) → items.WF m →
      (dblItems items).WF (m * 2)
    | .nil, _ => trivial
    | .cons off c rest, h => by
      simp only [PItems.WF] at h
      simp only [dblItems, C01.Items.WF, dbl_size]
      exact ⟨by omega, dbl_WF c h.2.1, dblItems_WF m rest h.2.2⟩
end

mutual
  theorem dbl_AllUnitary [CommRing R] [StarRing R] : (c : PComp R) → c.AllUnitary →
      (dbl c).AllUnitary
    | .plain _ _, h => double_isUnitary' h
    | .pol _ _, h => h
    | .circ _ items, h => dblItems_AllUnitary items h
  theorem dblItems_AllUnitary [CommRing R] [StarRing R] : (items : PItems R) →
      items.AllUnitary → (dblItems items).AllUnitary
    | .nil, _ => trivial
    | .cons _ c rest, h => ⟨dbl_AllUnitary c h.1, dblItems_AllUnitary rest h.2⟩
end

mutual
  theorem embed_dbl_plain [CommRing R] {N o : ℕ} : (c : PComp R) → c.requires = false → c.WF →
      o + c.size ≤ N →
      embed (N * 2) (o * 2) (C01.unitaryOf (dbl c)) = double (embed N o (C01.unitaryOf (spatial c)))
    | .plain k U, _, _, hk => by
      show embed (N * 2) (o * 2) (C01.unitaryOf (.leaf (k * 2) (double U))) =
        double (embed N o (C01.unitaryOf (.leaf k U)))
      rw [C01.embed_unitaryOf_leaf, C01.embed_unitaryOf_leaf]
      exact (double_embed' (k := k) hk U).symm
    | .pol _ _, h, _, _ => by simp [PComp.requires] at h
    | .circ m items, h, hw, hk => by
      show embed (N * 2) (o * 2) (C01.unitaryOf (.circ (m * 2) (dblItems items))) =
        double (embed N o (C01.unitaryOf (.circ m (spatialItems items))))
      rw [C01.embed_unitaryOf_circ, C01.embed_unitaryOf_circ,
        prodItems_dbl_plain m items h hw]
      exact (double_embed' (k := m) hk _).symm
  theorem prodItems_dbl_plain [CommRing R] (m : ℕ) : (items : PItems R) →
      items.requires = false → items.WF m →
      C01.prodItems (m * 2) (dblItems items) = double (C01.prodItems m (spatialItems items))
    | .nil, _, _ => by simp [dblItems, spatialItems, double_one']
    | .cons off c rest, h, hw => by
      simp only [PItems.requires, Bool.or_eq_false_iff] at h
      simp only [PItems.WF] at hw
      simp only [dblItems, spatialItems, C01.prodItems_cons]
      rw [prodItems_dbl_plain m rest h.2 hw.2.2, embed_dbl_plain c h.1 hw.2.1 hw.1, double_mul']
end

/-! ### the leaves of a polarised tree, with their first spatial mode -/

inductive PLeaf (R : Type) where
  | plain (k : ℕ) (U : Matrix (Fin k) (Fin k) R)
  | pol (k : ℕ) (U : Matrix (Fin (k * 2)) (Fin (k * 2)) R)

/-- the block a leaf contributes on the doubled modes -/
def PLeaf.block [Zero R] : PLeaf R → (Σ k, Matrix (Fin k) (Fin k) R)
  | .plain k U => ⟨k * 2, double U⟩
  | .pol k U => ⟨k * 2, U⟩

def PLeaf.width : PLeaf R → ℕ
  | .plain k _ => k
  | .pol k _ => k

mutual
  /-- `Circuit.__iter__` on the polarised tree: (first spatial mode, leaf) -/
  def leaves : PComp R → List (ℕ × PLeaf R)
    | .plain k U => [(0, .plain k U)]
    | .pol k U => [(0, .pol k U)]
    | .circ _ items => leavesItems items
  def leavesItems : PItems R → List (ℕ × PLeaf R)
    | .nil => []
    | .cons off c rest => (leaves c).map (fun p => (p.1 + off, p.2)) ++ leavesItems rest
end

mutual
  theorem flatten_dbl [Zero R] : (c : PComp R) →
      C01.flatten (dbl c) = (leaves c).map fun p => (p.1 * 2, p.2.block)
    | .plain _ _ => by simp [dbl, C01.flatten, leaves, PLeaf.block]
    | .pol _ _ => by simp [dbl, C01.flatten, leaves, PLeaf.block]
    | .circ _ items => by
      simp only [dbl, C01.flatten, leaves]
      exact flattenItems_dbl items
  theorem flattenItems_dbl [Zero R] : (items : PItems R) →
      C01.flattenItems (dblItems items) = (leavesItems items).map fun p => (p.1 * 2, p.2.block)
    | .nil => by simp [dblItems, C01.flattenItems, leavesItems]
    | .cons off c rest => by
      simp only [dblItems, C01.flattenItems, leavesItems, List.map_append, List.map_map]
      rw [flatten_dbl c, flattenItems_dbl rest, List.map_map]
      congr 1
      apply List.map_congr_left
      intro p _
      simp only [Function.comp]
      congr 1
      ring
end


/-! ### the long-lived simulator object -/

section Session
variable {C I M S O : Type}

/-- the object follows the specification machine: `_upol` is the compiled circuit in force
(nothing is said about the circuit held by the wrapped simulator) -/
def Tracks (env : Env C I M S O) (st : Layer M) (cur : Option C) : Prop :=
  match cur with
  | none => st.upol = none
  | some c => ∃ u, env.compile c = .ok u ∧ st.upol = some u

/-- one request: the relation is kept and the two machines give the same reply -/
theorem sessionStep_tracks (env : Env C I M S O) (st : Layer M) (cur : Option C) (op : Cmd C I)
    (h : Tracks env st cur) :
    Tracks env (sessionStep env st op).1 (specStep env cur op).1 ∧
      (sessionStep env st op).2 = (specStep env cur op).2 := by
  cases op with
  | setCircuit c =>
    cases hc : env.compile c with
    | error e => simp only [sessionStep, specStep, hc]; exact ⟨h, trivial⟩
    | ok u => simp only [sessionStep, specStep, hc]; exact ⟨⟨u, hc, rfl⟩, trivial⟩
  | probs i =>
    cases hp : env.prepare i with
    | error e => simp only [sessionStep, specStep, answer, hp]; exact ⟨h, trivial⟩
    | ok sp =>
      obtain ⟨s, p⟩ := sp
      cases cur with
      | none =>
        have hu : st.upol = none := h
        simp only [sessionStep, specStep, answer, hp, hu]
        exact ⟨h, trivial⟩
      | some c =>
        obtain ⟨u, hc, hu⟩ := h
        cases hw : env.mkUnitary u p with
        | error e =>
          simp only [sessionStep, specStep, answer, hp, hu, hc, hw]
          exact ⟨⟨u, hc, hu⟩, trivial⟩
        | ok w =>
          simp only [sessionStep, specStep, answer, hp, hu, hc, hw]
          exact ⟨⟨u, hc, rfl⟩, by simp⟩

end Session

end PM.C13
