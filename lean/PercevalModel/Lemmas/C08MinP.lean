/-
  C08 — `simulate_detectors` at a positive `min_p`: exact law ("every contribution is kept when it
  exceeds `min_p` and dropped otherwise", at the two places where `ProbabilityDistribution.add` is
  used: inside `Detector.detect` and when accumulating the result) and the resulting deviation bound
  from the `min_p = 0` law.
-/
import PercevalModel.Lemmas.C08

set_option linter.unusedSectionVars false

namespace PM.C08

section keepLemmas
variable {K : Type} [Field K] [LinearOrder K] [IsStrictOrderedRing K]

theorem keep_le {minP p : K} (hp : 0 ≤ p) : keep minP p ≤ p := by
  unfold keep; split
  · exact le_refl _
  · exact hp

theorem keep_nonneg {minP p : K} (hp : 0 ≤ p) : 0 ≤ keep minP p := by
  unfold keep; split
  · exact hp
  · exact le_refl _

theorem sub_le_keep {minP : K} (h0 : 0 ≤ minP) (p : K) : p - minP ≤ keep minP p := by
  unfold keep; split
  · linarith
  · next h => linarith [not_lt.mp h]

theorem keep_zero (minP : K) : keep minP (0 : K) = 0 := by
  unfold keep; split <;> rfl

theorem wt_nonneg {σ : Type} [DecidableEq σ] (d : Dist σ K) (h : Nonneg d) (k : σ) : 0 ≤ wt d k := by
  induction d with
  | nil => exact le_refl _
  | cons e d ih =>
    have he : 0 ≤ e.2 := h e (by simp)
    have hd : Nonneg d := fun x hx => h x (by simp [hx])
    simp only [wt]
    split
    · exact add_nonneg he (ih hd)
    · simpa using ih hd

theorem wt_le_mass {σ : Type} [DecidableEq σ] (d : Dist σ K) (h : Nonneg d) (k : σ) :
    wt d k ≤ mass d := by
  induction d with
  | nil => exact le_refl _
  | cons e d ih =>
    have he : 0 ≤ e.2 := h e (by simp)
    have hd : Nonneg d := fun x hx => h x (by simp [hx])
    simp only [wt, mass_cons]
    split
    · linarith [ih hd]
    · linarith [ih hd]

end keepLemmas

/-! ### the per-mode kernels at an arbitrary `min_p` -/
section kernelsMinP
variable {K : Type} [Field K] [LinearOrder K] [IsStrictOrderedRing K]

/-- whatever `min_p` is, a kernel has no negative entry -/
theorem kernel_nonneg (minP : K) (d : AnyDet K) (hd : d.WF) (n : ℕ) : Nonneg (d.kernel minP n) := by
  have hstate : ∀ k : ℕ, Nonneg ([(k, (1 : K))] : Dist ℕ K) :=
    fun k => by intro e he; simp at he; subst he; simp
  cases d with
  | none => exact hstate n
  | det d =>
    cases d with
    | pnr =>
      simp only [AnyDet.kernel, AnyDet.detect, Det.detect, Det.type]
      simp only [or_true, if_true, DetOut.toDist]
      exact hstate n
    | wired w mx =>
      simp only [AnyDet.kernel, AnyDet.detect, Det.detect]
      split
      · exact hstate n
      · next h1 =>
        split
        · exact hstate 1
        · have hn : 1 ≤ n := by
            by_contra hc; exact h1 (Or.inl (by omega))
          exact detectWired_nonneg w mx hd minP hn
  | bs L r =>
    simp only [AnyDet.kernel, AnyDet.detect, bsDetectP]
    split
    · exact hstate n
    · exact aggregate_nonneg (fun e he => treeOcc_nonneg hd.1 hd.2 L n e (List.mem_of_mem_filter he))

/-- the dictionary built by `aggregate` holds at `k` the sum of the entries whose state has `k` clicks -/
theorem wt_aggregate_sum (d : Dist (List ℕ) K) (k : ℕ) :
    wt (aggregate d) k = (d.map fun e => if clicks e.1 = k then e.2 else 0).sum := by
  unfold aggregate
  have : ∀ out : Dist ℕ K, wt (d.foldl (fun out e => bump out (clicks e.1) e.2) out) k
      = wt out k + (d.map fun e => if clicks e.1 = k then e.2 else 0).sum := by
    induction d with
    | nil => intro out; simp
    | cons e d ih =>
      intro out
      simp only [List.foldl_cons, List.map_cons, List.sum_cons]
      rw [ih, wt_bump]; ring
  rw [this]; simp [wt]

/-- after the backend's `add`: every leaf state is kept iff its probability exceeds `min_p` -/
theorem wt_aggregate_treeOccP (minP r : K) (L n k : ℕ) :
    wt (aggregate (treeOccP minP r L n)) k
      = ((treeOcc r L n).map fun e => if clicks e.1 = k then keep minP e.2 else 0).sum := by
  rw [wt_aggregate_sum]
  unfold treeOccP
  generalize treeOcc r L n = D
  induction D with
  | nil => rfl
  | cons e D ih =>
    simp only [List.filter_cons, List.map_cons, List.sum_cons]
    by_cases h : minP < e.2
    · simp only [h, decide_true, if_true, List.map_cons, List.sum_cons, ih, keep]
    · simp only [h, decide_false, ih, keep, Bool.false_eq_true, if_false]
      by_cases hc : clicks e.1 = k <;> simp [hc]

theorem sum_ite_keep_bounds {minP : K} (h0 : 0 ≤ minP) (D : Dist (List ℕ) K) (hD : Nonneg D) (c : List ℕ → Prop)
    [DecidablePred c] :
    0 ≤ (D.map fun e => if c e.1 then keep minP e.2 else 0).sum ∧
    (D.map fun e => if c e.1 then keep minP e.2 else 0).sum ≤ (D.map fun e => if c e.1 then e.2 else 0).sum ∧
    (D.map fun e => if c e.1 then e.2 else 0).sum - (D.length : K) * minP
      ≤ (D.map fun e => if c e.1 then keep minP e.2 else 0).sum := by
  induction D with
  | nil => simp
  | cons e D ih =>
    have he : 0 ≤ e.2 := hD e (by simp)
    obtain ⟨i0, i1, i2⟩ := ih (fun x hx => hD x (by simp [hx]))
    have k0 := keep_nonneg (minP := minP) he
    have k1 := keep_le (minP := minP) he
    have k2 := sub_le_keep h0 e.2
    simp only [List.map_cons, List.sum_cons, List.length_cons, Nat.cast_add, Nat.cast_one]
    by_cases hc : c e.1
    · simp only [hc, if_true]; refine ⟨by linarith, by linarith, by linarith⟩
    · simp only [hc, if_false]; refine ⟨by linarith, by linarith, by linarith⟩

/-- **exact kernel law at any `min_p`**: every entry of a mode's detector result is the entry of
the `min_p = 0` law, either untouched (unset / PNR / threshold / `n < 2`: no `add` involved), or passed through
`add` (`Detector.detect` loop: kept if it exceeds `min_p`, dropped otherwise), or — beam-splitter tree — the sum
over the leaf states with that many clicks of the leaf probabilities, each kept iff it exceeds `min_p` (the
backend's `add`) -/
theorem kernel_wt_minp (minP : K) (d : AnyDet K) (hd : d.WF) (n k : ℕ) :
    wt (d.kernel minP n) k = wt (d.kernel 0 n) k ∨
      wt (d.kernel minP n) k = keep minP (wt (d.kernel 0 n) k) ∨
      ∃ L r, d = .bs L r ∧ 2 ≤ n ∧ wt (d.kernel minP n) k
        = ((treeOcc r L n).map fun e => if clicks e.1 = k then keep minP e.2 else 0).sum := by
  cases d with
  | none => exact Or.inl rfl
  | det d =>
    cases d with
    | pnr =>
      left
      simp [AnyDet.kernel, AnyDet.detect, Det.detect, Det.type]
    | wired w mx =>
      by_cases hs : n < 2 ∨ w = 1
      · left
        simp only [AnyDet.kernel, AnyDet.detect]
        rw [detect_wired_small w mx minP hs, detect_wired_small w mx 0 hs]
      · right; left
        have hn : 2 ≤ n := by omega
        have hw1 : w ≠ 1 := fun h => hs (Or.inr h)
        have hw : 0 < w := hd
        simp only [AnyDet.kernel, AnyDet.detect]
        rw [detect_wired_big w mx minP hn hw1, detect_wired_big w mx 0 hn hw1]
        simp only [DetOut.toDist]
        rw [← prob_eq_wt _ (detectWired_nodup w mx minP n), ← prob_eq_wt _ (detectWired_nodup w mx 0 n),
          detectWired_prob w mx hw minP (by omega : 1 ≤ n), detectWired_prob w mx hw 0 (by omega : 1 ≤ n)]
        have hnn : (0 : K) ≤ detectSpec w mx n k := by
          rw [detectSpec_eq_readLaw w mx (by omega : 1 ≤ n)]; exact readLaw_nonneg _ _ _ _
        rw [keep_of_nonpos (le_refl (0 : K)) hnn]
  | bs L r =>
    by_cases hn : n < 2
    · left
      simp [AnyDet.kernel, AnyDet.detect, bsDetectP, hn]
    · right; right
      refine ⟨L, r, rfl, by omega, ?_⟩
      simp only [AnyDet.kernel, AnyDet.detect, bsDetectP, if_neg hn, DetOut.toDist]
      exact wt_aggregate_treeOccP minP r L n k

/-- entry-wise deviation of a kernel from its `min_p = 0` law: never above, at most `min_p` per `add` call
(`addCount`) below -/
theorem kernel_wt_dev {minP : K} (h0 : 0 ≤ minP) (d : AnyDet K) (hd : d.WF) (n k : ℕ) :
    0 ≤ wt (d.kernel minP n) k ∧ wt (d.kernel minP n) k ≤ wt (d.kernel 0 n) k ∧
      wt (d.kernel 0 n) k ≤ 1 ∧ wt (d.kernel 0 n) k - (d.addCount n : K) * minP ≤ wt (d.kernel minP n) k := by
  have hnn : 0 ≤ wt (d.kernel 0 n) k := wt_nonneg _ (kernel_nonneg 0 d hd n) k
  have h1 : wt (d.kernel 0 n) k ≤ 1 := by
    have := kernel_mass_one (K := K) (le_refl 0) d hd n
    rw [← this.1]
    exact wt_le_mass _ this.2 k
  have hc : 0 ≤ (d.addCount n : K) * minP := mul_nonneg (Nat.cast_nonneg _) h0
  by_cases hsame : wt (d.kernel minP n) k = wt (d.kernel 0 n) k
  · rw [hsame]; exact ⟨hnn, le_refl _, h1, by linarith⟩
  · rcases kernel_wt_minp minP d hd n k with e | e | ⟨L, r, he, hn, eP⟩
    · exact absurd e hsame
    · rw [e]
      have hone : minP ≤ (d.addCount n : K) * minP := by
        cases d with
        | none => exact absurd rfl hsame
        | det d =>
          cases d with
          | pnr => exact absurd (by simp [AnyDet.kernel, AnyDet.detect, Det.detect, Det.type]) hsame
          | wired w mx =>
            have hn : 1 ≤ n := by
              by_contra hlt
              apply hsame
              simp only [AnyDet.kernel, AnyDet.detect]
              rw [detect_wired_small w mx minP (Or.inl (by omega)), detect_wired_small w mx 0 (Or.inl (by omega))]
            have : (1 : K) ≤ (n : K) := by exact_mod_cast hn
            calc minP = 1 * minP := (one_mul _).symm
              _ ≤ (n : K) * minP := mul_le_mul_of_nonneg_right this h0
        | bs L r =>
          have hge : ¬ n < 2 := by
            intro hn
            apply hsame
            simp [AnyDet.kernel, AnyDet.detect, bsDetectP, hn]
          have hpos : 0 < (treeOcc r L n).length := by
            rw [List.length_pos_iff]
            intro hnil
            have := treeOcc_mass r L n
            rw [hnil] at this
            simp at this
          have : (1 : K) ≤ ((treeOcc r L n).length : K) := by exact_mod_cast hpos
          calc minP = 1 * minP := (one_mul _).symm
            _ ≤ ((treeOcc r L n).length : K) * minP := mul_le_mul_of_nonneg_right this h0
      exact ⟨keep_nonneg hnn, keep_le hnn, h1, by linarith [sub_le_keep h0 (wt (d.kernel 0 n) k)]⟩
    · subst he
      have hnn' := treeOcc_nonneg hd.1 hd.2 L n
      have e0 : wt ((AnyDet.bs L r : AnyDet K).kernel 0 n) k
          = ((treeOcc r L n).map fun e => if clicks e.1 = k then e.2 else 0).sum := by
        simp only [AnyDet.kernel, AnyDet.detect, bsDetectP, if_neg (by omega : ¬ n < 2), DetOut.toDist]
        rw [wt_aggregate_treeOccP]
        congr 1
        apply List.map_congr_left
        intro e he
        rw [keep_of_nonpos (le_refl (0 : K)) (hnn' e he)]
      obtain ⟨b0, b1, b2⟩ := sum_ite_keep_bounds h0 (treeOcc r L n) hnn' (fun s => clicks s = k)
      rw [eP, e0]
      exact ⟨b0, b1, by rw [← e0]; exact h1, b2⟩

/-- number of `add` calls behind the kernels of one input state -/
def kcount (ds : List (AnyDet K)) (s : List ℕ) : ℕ := (List.zipWith (fun n d => d.addCount n) s ds).sum

theorem kcount_nil_left (s : List ℕ) : kcount ([] : List (AnyDet K)) s = 0 := by simp [kcount]
theorem kcount_nil_right (ds : List (AnyDet K)) : kcount ds [] = 0 := by simp [kcount]
theorem kcount_cons (d : AnyDet K) (ds : List (AnyDet K)) (n : ℕ) (s : List ℕ) :
    kcount (d :: ds) (n :: s) = d.addCount n + kcount ds s := by simp [kcount]

theorem kernels_nil_left (minP : K) (s : List ℕ) : kernels minP ([] : List (AnyDet K)) s = [] := by
  simp [kernels]

theorem kernels_nil_right (minP : K) (ds : List (AnyDet K)) : kernels minP ds [] = [] := by
  simp [kernels]

theorem kernels_cons (minP : K) (d : AnyDet K) (ds : List (AnyDet K)) (n : ℕ) (s : List ℕ) :
    kernels minP (d :: ds) (n :: s) = d.kernel minP n :: kernels minP ds s := rfl

theorem kprod_nil_dev {minP : K} (h0 : 0 ≤ minP) (m : ℕ) (t : List ℕ) :
    0 ≤ kprod ([] : List (Dist ℕ K)) t ∧ kprod ([] : List (Dist ℕ K)) t ≤ kprod ([] : List (Dist ℕ K)) t ∧
      kprod ([] : List (Dist ℕ K)) t ≤ 1 ∧
      kprod ([] : List (Dist ℕ K)) t - (m : K) * minP ≤ kprod ([] : List (Dist ℕ K)) t := by
  have hm : 0 ≤ (m : K) * minP := mul_nonneg (Nat.cast_nonneg _) h0
  cases t with
  | nil => simp only [kprod]; exact ⟨zero_le_one, le_refl _, le_refl _, by linarith⟩
  | cons k u => simp only [kprod]; exact ⟨le_refl _, le_refl _, zero_le_one, by linarith⟩

/-- deviation of the mode-wise product: never above the `min_p = 0` product, at most
`(number of add calls behind the kernels)·min_p` below -/
theorem kprod_kernels_dev {minP : K} (h0 : 0 ≤ minP) (ds : List (AnyDet K)) (hwf : ∀ d ∈ ds, d.WF)
    (s t : List ℕ) :
    0 ≤ kprod (kernels minP ds s) t ∧ kprod (kernels minP ds s) t ≤ kprod (kernels 0 ds s) t ∧
      kprod (kernels 0 ds s) t ≤ 1 ∧
      kprod (kernels 0 ds s) t - (kcount ds s : K) * minP ≤ kprod (kernels minP ds s) t := by
  induction ds generalizing s t with
  | nil =>
    rw [kernels_nil_left, kernels_nil_left]
    exact kprod_nil_dev h0 _ t
  | cons d ds ih =>
    cases s with
    | nil =>
      rw [kernels_nil_right, kernels_nil_right]
      exact kprod_nil_dev h0 _ t
    | cons n s =>
      rw [kernels_cons, kernels_cons, kcount_cons]
      have hm : 0 ≤ ((d.addCount n + kcount ds s : ℕ) : K) * minP := mul_nonneg (Nat.cast_nonneg _) h0
      cases t with
      | nil => simp only [kprod]; exact ⟨le_refl _, le_refl _, zero_le_one, by linarith⟩
      | cons k u =>
        obtain ⟨a0, a1, a2, a3⟩ := kernel_wt_dev h0 d (hwf d (by simp)) n k
        obtain ⟨b0, b1, b2, b3⟩ := ih (fun x hx => hwf x (by simp [hx])) s u
        simp only [kprod, Nat.cast_add]
        set a' := wt (d.kernel minP n) k
        set a := wt (d.kernel 0 n) k
        set b' := kprod (kernels minP ds s) u
        set b := kprod (kernels 0 ds s) u
        have hb0 : 0 ≤ b := le_trans b0 b1
        have ha0 : 0 ≤ a := le_trans a0 a1
        have hca : 0 ≤ (d.addCount n : K) * minP := mul_nonneg (Nat.cast_nonneg _) h0
        refine ⟨mul_nonneg a0 b0, mul_le_mul a1 b1 b0 ha0, ?_, ?_⟩
        · calc a * b ≤ 1 * 1 := mul_le_mul a2 b2 hb0 zero_le_one
            _ = 1 := one_mul 1
        · have e1 : a * (b - b') ≤ 1 * (b - b') :=
            mul_le_mul_of_nonneg_right a2 (by linarith)
          have e2 : (a - a') * b' ≤ ((d.addCount n : K) * minP) * 1 :=
            mul_le_mul (by linarith) (le_trans b1 b2) b0 hca
          have e3 : a * b - a' * b' = a * (b - b') + (a - a') * b' := by ring
          linarith

theorem kernels_nonneg (minP : K) (ds : List (AnyDet K)) (hwf : ∀ d ∈ ds, d.WF) (s : List ℕ) :
    ∀ k ∈ kernels minP ds s, Nonneg k := by
  intro k hk
  unfold kernels at hk
  rw [List.mem_iff_getElem] at hk
  obtain ⟨i, hi, rfl⟩ := hk
  rw [List.getElem_zipWith]
  exact kernel_nonneg minP _ (hwf _ (List.getElem_mem _)) _

theorem kernels_nodup (minP : K) (ds : List (AnyDet K)) (s : List ℕ) :
    ∀ k ∈ kernels minP ds s, (keys k).Nodup := by
  intro k hk
  unfold kernels at hk
  rw [List.mem_iff_getElem] at hk
  obtain ⟨i, hi, rfl⟩ := hk
  rw [List.getElem_zipWith]
  exact kernel_nodup minP _ _

/-- the tensor product of the kernels, at any `min_p` -/
theorem stateDist_wt_minp (minP : K) (ds : List (AnyDet K)) (hwf : ∀ d ∈ ds, d.WF)
    (s : List ℕ) (hlen : s.length = ds.length) (hne : ds ≠ []) (t : List ℕ) :
    wt (stateDist minP ds s) t = kprod (kernels minP ds s) t :=
  listTensor_wt _ (kernels_ne_nil minP hne hlen) (kernels_nonneg minP ds hwf s) t

end kernelsMinP

/-! ### `list_tensor_product` never records a state twice -/
section tensorNodup
variable {K : Type} [Field K] [LinearOrder K]

theorem innerTensor_nodup (fs : List (Dist ℕ K)) :
    ∀ (cur : List ℕ) (p : K) (res : Dist (List ℕ) K), (keys res).Nodup →
      (keys (innerTensor fs cur p res)).Nodup := by
  induction fs with
  | nil => intro cur p res h; exact nodup_bump h cur p
  | cons d rest ih =>
    intro cur p res h
    simp only [innerTensor]
    have key : ∀ (l : Dist ℕ K) (res : Dist (List ℕ) K), (keys res).Nodup →
        (keys (l.foldl (fun acc e => if p * e.2 < 0 then acc
            else innerTensor rest (cur ++ [e.1]) (p * e.2) acc) res)).Nodup := by
      intro l
      induction l with
      | nil => intro res h; exact h
      | cons e l ihl =>
        intro res h
        simp only [List.foldl_cons]
        apply ihl
        split
        · exact h
        · exact ih _ _ _ h
    exact key d res h

theorem listTensor_nodup (ds : List (Dist ℕ K)) (h : ∀ d ∈ ds, (keys d).Nodup) :
    (keys (listTensor ds)).Nodup := by
  match ds, h with
  | [], _ => simp [listTensor, keys]
  | [d], h =>
    have hd : (keys d).Nodup := h d (by simp)
    have e : keys (listTensor [d]) = (keys d).map fun k => [k] := by
      simp [listTensor, keys, List.map_map, Function.comp_def]
    rw [e]
    exact hd.map (fun a b hab => by simpa using hab)
  | d1 :: d2 :: rest, _ =>
    have hunf : listTensor (d1 :: d2 :: rest) =
        if (d1 :: d2 :: rest).any (·.isEmpty) then []
        else innerTensor ((d1 :: d2 :: rest).map fun d => d.filter fun e => 0 < e.2) [] 1 [] := rfl
    rw [hunf]
    split
    · simp [keys]
    · exact innerTensor_nodup _ _ _ _ (by simp [keys])

theorem stateDist_nodup (minP : K) (ds : List (AnyDet K)) (s : List ℕ) :
    (keys (stateDist minP ds s)).Nodup := by
  unfold stateDist
  apply listTensor_nodup
  intro k hk
  rw [List.mem_iff_getElem] at hk
  obtain ⟨i, hi, rfl⟩ := hk
  rw [List.getElem_zipWith]
  exact kernel_nodup minP _ _

end tensorNodup

/-! ### the general branch of `simulate_detectors` at `min_p ≥ 0` -/
section simMinP
variable {K : Type} [Field K] [LinearOrder K] [IsStrictOrderedRing K]

/-- one input state: every output state receives ONE contribution, kept iff it exceeds `min_p` -/
theorem simState_wt_minp (minP : K) (minPhotons : Option ℕ) (p : K)
    (sd : Dist (List ℕ) K) (hnd : (keys sd).Nodup) (a : Acc K) (t : List ℕ) :
    wt (simState minP minPhotons p sd a).1 t
      = wt a.1 t + if belowFilter minPhotons t then 0 else keep minP (p * wt sd t) := by
  unfold simState
  induction sd generalizing a with
  | nil => simp [wt, keep_zero minP]
  | cons o sd ih =>
    have hnd' : (keys sd).Nodup := by
      simp only [keys, List.map_cons, List.nodup_cons] at hnd; exact hnd.2
    have hnot : o.1 ∉ keys sd := by
      simp only [keys, List.map_cons, List.nodup_cons] at hnd; exact hnd.1
    simp only [List.foldl_cons]
    rw [ih hnd']
    by_cases ht : o.1 = t
    · have hz : wt sd t = 0 := by rw [← ht]; exact wt_of_not_mem sd o.1 hnot
      by_cases hb : belowFilter minPhotons t = true
      · simp [ht, hb]
      · simp only [ht, hb, Bool.false_eq_true, if_false, wt_addP, wt, if_true, hz, mul_zero,
          keep_zero minP, add_zero]
    · by_cases hb : belowFilter minPhotons o.1 = true
      · simp only [hb, if_true, wt, if_neg ht, zero_add]
      · simp only [hb, Bool.false_eq_true, if_false, wt_addP, wt, if_neg ht, zero_add, add_zero]

/-- **exact law of the general branch at ANY `min_p`**: at the output state `t` the
un-normalised result holds one contribution `p · ∏_i kernel_i(s_i)(t_i)` per input state `(s,p)`
(kernels computed at the same `min_p`), each kept iff it exceeds `min_p` -/
theorem simGeneral_wt_minp (minP : K) (minPhotons : Option ℕ) (ds : List (AnyDet K))
    (hwf : ∀ d ∈ ds, d.WF) (hne : ds ≠ []) (dist : Dist (List ℕ) K)
    (hlen : ∀ e ∈ dist, e.1.length = ds.length) (t : List ℕ) :
    wt (simGeneral minP minPhotons ds dist).1 t
      = if belowFilter minPhotons t then 0
        else (dist.map fun e => keep minP (e.2 * kprod (kernels minP ds e.1) t)).sum := by
  unfold simGeneral
  have : ∀ a : Acc K, wt (dist.foldl (fun a e =>
      simState minP minPhotons e.2 (stateDist minP ds e.1) a) a).1 t
      = wt a.1 t + if belowFilter minPhotons t then 0
        else (dist.map fun e => keep minP (e.2 * kprod (kernels minP ds e.1) t)).sum := by
    induction dist with
    | nil => intro a; simp
    | cons e dist ih =>
      intro a
      simp only [List.foldl_cons]
      rw [ih (fun x hx => hlen x (by simp [hx])),
        simState_wt_minp minP minPhotons e.2 _ (stateDist_nodup minP ds e.1),
        stateDist_wt_minp minP ds hwf e.1 (hlen e (by simp)) hne]
      simp only [List.map_cons, List.sum_cons]
      split <;> ring
  rw [this]; simp [wt]

/-- summing the per-contribution bounds over the input distribution -/
theorem sum_keep_bounds {minP : K} (h0 : 0 ≤ minP) (m : List ℕ → K) (dist : Dist (List ℕ) K)
    (hnn : Nonneg dist) (f g : List ℕ → K) (hg0 : ∀ e ∈ dist, 0 ≤ g e.1)
    (hgf : ∀ e ∈ dist, g e.1 ≤ f e.1) (hfg : ∀ e ∈ dist, f e.1 - m e.1 * minP ≤ g e.1) :
    (dist.map fun e => keep minP (e.2 * g e.1)).sum ≤ (dist.map fun e => e.2 * f e.1).sum ∧
      (dist.map fun e => e.2 * f e.1).sum
          - minP * ((dist.map fun e => e.2 * m e.1).sum + (dist.length : K))
        ≤ (dist.map fun e => keep minP (e.2 * g e.1)).sum := by
  induction dist with
  | nil => simp
  | cons e dist ih =>
    have he : 0 ≤ e.2 := hnn e (by simp)
    obtain ⟨i1, i2⟩ := ih (fun x hx => hnn x (by simp [hx])) (fun x hx => hg0 x (by simp [hx]))
      (fun x hx => hgf x (by simp [hx])) (fun x hx => hfg x (by simp [hx]))
    have hg : 0 ≤ e.2 * g e.1 := mul_nonneg he (hg0 e (by simp))
    have u1 : keep minP (e.2 * g e.1) ≤ e.2 * g e.1 := keep_le hg
    have u2 : e.2 * g e.1 ≤ e.2 * f e.1 := mul_le_mul_of_nonneg_left (hgf e (by simp)) he
    have l1 : e.2 * g e.1 - minP ≤ keep minP (e.2 * g e.1) := sub_le_keep h0 _
    have l2 : e.2 * (f e.1 - m e.1 * minP) ≤ e.2 * g e.1 :=
      mul_le_mul_of_nonneg_left (hfg e (by simp)) he
    simp only [List.map_cons, List.sum_cons, List.length_cons, Nat.cast_add, Nat.cast_one]
    constructor
    · linarith
    · have e3 : e.2 * (f e.1 - m e.1 * minP) = e.2 * f e.1 - minP * (e.2 * m e.1) := by ring
      have e4 : minP * (e.2 * m e.1 + (dist.map fun e => e.2 * m e.1).sum + ((dist.length : K) + 1))
          = minP * ((dist.map fun e => e.2 * m e.1).sum + (dist.length : K)) + minP * (e.2 * m e.1) + minP := by
        ring
      linarith

theorem mass_nonneg {σ : Type} (d : Dist σ K) (h : Nonneg d) : 0 ≤ mass d := by
  induction d with
  | nil => exact le_refl _
  | cons e d ih =>
    rw [mass_cons]
    exact add_nonneg (h e (by simp)) (ih fun x hx => h x (by simp [hx]))

/-- **deviation bound of the general branch at `min_p ≥ 0`** from the exact (`min_p = 0`) law:
never above; below by at most `min_p` per `add` call — the `kcount` calls behind the kernels of an input state
`(s,p)` weighted by `p`, and one accumulation per input state -/
theorem simGeneral_wt_bound {minP : K} (h0 : 0 ≤ minP) (minPhotons : Option ℕ) (ds : List (AnyDet K))
    (hwf : ∀ d ∈ ds, d.WF) (hne : ds ≠ []) (dist : Dist (List ℕ) K) (hnn : Nonneg dist)
    (hlen : ∀ e ∈ dist, e.1.length = ds.length) (t : List ℕ) :
    wt (simGeneral minP minPhotons ds dist).1 t
        ≤ (if belowFilter minPhotons t then 0
           else (dist.map fun e => e.2 * kprod (kernels 0 ds e.1) t).sum) ∧
      (if belowFilter minPhotons t then 0
        else (dist.map fun e => e.2 * kprod (kernels 0 ds e.1) t).sum)
          - minP * ((dist.map fun e => e.2 * (kcount ds e.1 : K)).sum + (dist.length : K))
        ≤ wt (simGeneral minP minPhotons ds dist).1 t := by
  rw [simGeneral_wt_minp minP minPhotons ds hwf hne dist hlen t]
  have hslack : 0 ≤ minP * ((dist.map fun e => e.2 * (kcount ds e.1 : K)).sum + (dist.length : K)) := by
    apply mul_nonneg h0 (add_nonneg _ (Nat.cast_nonneg _))
    apply List.sum_nonneg
    intro x hx
    obtain ⟨e, he, rfl⟩ := List.mem_map.mp hx
    exact mul_nonneg (hnn e he) (Nat.cast_nonneg _)
  split
  · exact ⟨le_refl _, by linarith⟩
  · exact sum_keep_bounds h0 (fun s => (kcount ds s : K)) dist hnn
      (fun s => kprod (kernels 0 ds s) t) (fun s => kprod (kernels minP ds s) t)
      (fun e _ => (kprod_kernels_dev h0 ds hwf e.1 t).1)
      (fun e _ => (kprod_kernels_dev h0 ds hwf e.1 t).2.1)
      (fun e _ => (kprod_kernels_dev h0 ds hwf e.1 t).2.2.2)

end simMinP

/-! ### how much mass `add` can drop: at most `min_p` per call -/
section massMinP
variable {K : Type} [Field K] [LinearOrder K] [IsStrictOrderedRing K]

open Finset in
/-- `Detector.detect` (loop branch) at `min_p ≥ 0`: the result has mass at most one and has lost at
most `min_p` per `add` call (`max(cap,1) ≤ n` calls) -/
theorem detectWired_mass_bounds (w mx : ℕ) (hw : 0 < w) {minP : K} (h0 : 0 ≤ minP) {n : ℕ}
    (hn : 1 ≤ n) :
    1 - (n : K) * minP ≤ mass (detectWired w mx minP n) ∧ mass (detectWired w mx minP n) ≤ 1 := by
  rw [detectWired_mass w mx hw minP hn]
  have htot : (1 : K) - ∑ i ∈ Ico 1 (min mx n), (closed w i n : K) = tailSum w (min mx n) n :=
    remaining_eq_tail w hw hn (Nat.min_le_right _ _)
  have hup : ∑ i ∈ Ico 1 (min mx n), keep minP (closed w i n : K)
      ≤ ∑ i ∈ Ico 1 (min mx n), (closed w i n : K) :=
    Finset.sum_le_sum fun i _ => keep_le (closed_nonneg w i n)
  have hlo : ∑ i ∈ Ico 1 (min mx n), ((closed w i n : K) - minP)
      ≤ ∑ i ∈ Ico 1 (min mx n), keep minP (closed w i n : K) :=
    Finset.sum_le_sum fun i _ => sub_le_keep h0 _
  rw [Finset.sum_sub_distrib, Finset.sum_const, Nat.card_Ico, nsmul_eq_mul] at hlo
  have ht1 : keep minP (tailSum w (min mx n) n : K) ≤ tailSum w (min mx n) n :=
    keep_le (tailSum_nonneg _ _ _)
  have ht2 : (tailSum w (min mx n) n : K) - minP ≤ keep minP (tailSum w (min mx n) n) :=
    sub_le_keep h0 _
  have hcnt : ((min mx n - 1 : ℕ) : K) + 1 ≤ (n : K) := by
    have : min mx n - 1 + 1 ≤ n := by omega
    exact_mod_cast this
  have hmul : (((min mx n - 1 : ℕ) : K) + 1) * minP ≤ (n : K) * minP :=
    mul_le_mul_of_nonneg_right hcnt h0
  constructor
  · linarith
  · linarith

/-- the backend's leaf distribution after `add`: mass in `[1 - (number of leaf states)·min_p, 1]` -/
theorem treeOccP_mass_bounds {minP r : K} (h0 : 0 ≤ minP) (hr0 : 0 ≤ r) (hr1 : r ≤ 1) (L n : ℕ) :
    1 - ((treeOcc r L n).length : K) * minP ≤ mass (treeOccP minP r L n) ∧ mass (treeOccP minP r L n) ≤ 1 := by
  have hnn := treeOcc_nonneg hr0 hr1 L n
  have hm := treeOcc_mass r L n
  have key : ∀ D : Dist (List ℕ) K, Nonneg D →
      mass D - (D.length : K) * minP ≤ mass (D.filter fun e => minP < e.2) ∧
        mass (D.filter fun e => minP < e.2) ≤ mass D := by
    intro D
    induction D with
    | nil => intro _; simp
    | cons e D ih =>
      intro hD
      have he : 0 ≤ e.2 := hD e (by simp)
      obtain ⟨i1, i2⟩ := ih (fun x hx => hD x (by simp [hx]))
      simp only [List.filter_cons, mass_cons, List.length_cons, Nat.cast_add, Nat.cast_one]
      by_cases h : minP < e.2
      · simp only [h, decide_true, if_true, mass_cons]; constructor <;> linarith
      · simp only [h, decide_false, Bool.false_eq_true, if_false]
        have : e.2 ≤ minP := not_lt.mp h
        constructor <;> linarith
  obtain ⟨k1, k2⟩ := key _ hnn
  unfold treeOccP
  rw [hm] at k1 k2
  exact ⟨k1, k2⟩

/-- every kernel at `min_p ≥ 0`: mass in `[1 - addCount·min_p, 1]` -/
theorem kernel_mass_bounds {minP : K} (h0 : 0 ≤ minP) (d : AnyDet K) (hd : d.WF) (n : ℕ) :
    1 - (d.addCount n : K) * minP ≤ mass (d.kernel minP n) ∧ mass (d.kernel minP n) ≤ 1 := by
  have hs : 0 ≤ (d.addCount n : K) * minP := mul_nonneg (Nat.cast_nonneg _) h0
  have hone : ∀ dd : Dist ℕ K, mass dd = 1 → 1 - (d.addCount n : K) * minP ≤ mass dd ∧ mass dd ≤ 1 :=
    fun dd h => by rw [h]; exact ⟨by linarith, le_refl _⟩
  cases d with
  | none => exact hone _ (by simp [AnyDet.kernel, AnyDet.detect, DetOut.toDist])
  | det d =>
    cases d with
    | pnr => exact hone _ (by simp [AnyDet.kernel, AnyDet.detect, Det.detect, Det.type, DetOut.toDist])
    | wired w mx =>
      by_cases hsm : n < 2 ∨ w = 1
      · apply hone
        simp only [AnyDet.kernel, AnyDet.detect]
        rw [detect_wired_small w mx minP hsm]
        simp [DetOut.toDist]
      · have hn : 2 ≤ n := by omega
        have hw1 : w ≠ 1 := fun h => hsm (Or.inr h)
        simp only [AnyDet.kernel, AnyDet.detect, AnyDet.addCount]
        rw [detect_wired_big w mx minP hn hw1]
        exact detectWired_mass_bounds w mx hd h0 (n := n) (by omega : 1 ≤ n)
  | bs L r =>
    by_cases hn : n < 2
    · apply hone
      simp [AnyDet.kernel, AnyDet.detect, bsDetectP, hn, DetOut.toDist]
    · simp only [AnyDet.kernel, AnyDet.detect, bsDetectP, if_neg hn, DetOut.toDist, AnyDet.addCount]
      rw [aggregate_mass]
      exact treeOccP_mass_bounds h0 hd.1 hd.2 L n

/-- product of the kernel masses of one input state: in `[1 - kcount·min_p, 1]` -/
theorem kernels_mass_prod_bounds {minP : K} (h0 : 0 ≤ minP) (ds : List (AnyDet K))
    (hwf : ∀ d ∈ ds, d.WF) (s : List ℕ) :
    0 ≤ ((kernels minP ds s).map mass).prod ∧ ((kernels minP ds s).map mass).prod ≤ 1 ∧
      1 - (kcount ds s : K) * minP ≤ ((kernels minP ds s).map mass).prod := by
  have hs : ∀ c : ℕ, 0 ≤ (c : K) * minP := fun c => mul_nonneg (Nat.cast_nonneg _) h0
  induction ds generalizing s with
  | nil =>
    rw [kernels_nil_left]
    simp only [List.map_nil, List.prod_nil]
    exact ⟨zero_le_one, le_refl _, by linarith [hs (kcount ([] : List (AnyDet K)) s)]⟩
  | cons d ds ih =>
    cases s with
    | nil =>
      rw [kernels_nil_right]
      simp only [List.map_nil, List.prod_nil]
      exact ⟨zero_le_one, le_refl _, by linarith [hs (kcount (d :: ds) [])]⟩
    | cons n s =>
      rw [kernels_cons, kcount_cons]
      obtain ⟨b0, b1, b2⟩ := ih (fun x hx => hwf x (by simp [hx])) s
      obtain ⟨a1, a2⟩ := kernel_mass_bounds h0 d (hwf d (by simp)) n
      have a0 : 0 ≤ mass (d.kernel minP n) := mass_nonneg _ (kernel_nonneg minP d (hwf d (by simp)) n)
      simp only [List.map_cons, List.prod_cons, Nat.cast_add]
      set m := mass (d.kernel minP n)
      set P := ((kernels minP ds s).map mass).prod
      refine ⟨mul_nonneg a0 b0, ?_, ?_⟩
      · calc m * P ≤ 1 * 1 := mul_le_mul a2 b1 b0 zero_le_one
          _ = 1 := one_mul 1
      · have e1 : m * (1 - P) ≤ 1 * (1 - P) := mul_le_mul_of_nonneg_right a2 (by linarith)
        have e2 : 1 - m * P = (1 - m) + m * (1 - P) := by ring
        have e3 : ((d.addCount n : K) + (kcount ds s : K)) * minP
            = (d.addCount n : K) * minP + (kcount ds s : K) * minP := by ring
        linarith

theorem stateDist_mass_bounds {minP : K} (h0 : 0 ≤ minP) (ds : List (AnyDet K))
    (hwf : ∀ d ∈ ds, d.WF) (s : List ℕ) (hlen : s.length = ds.length) (hne : ds ≠ []) :
    1 - (kcount ds s : K) * minP ≤ mass (stateDist minP ds s) ∧ mass (stateDist minP ds s) ≤ 1 ∧
      Nonneg (stateDist minP ds s) := by
  obtain ⟨m, nn⟩ := listTensor_spec (kernels minP ds s) (kernels_ne_nil minP hne hlen)
    (kernels_nonneg minP ds hwf s)
  obtain ⟨_, b1, b2⟩ := kernels_mass_prod_bounds h0 ds hwf s
  have e : stateDist minP ds s = listTensor (kernels minP ds s) := rfl
  rw [e, m]
  exact ⟨b2, b1, nn⟩

/-- one input state at `min_p ≥ 0`: nothing is gained, at most `min_p` per recorded output state
is lost -/
theorem simState_bal_bounds {minP : K} (h0 : 0 ≤ minP) (minPhotons : Option ℕ) {p : K} (hp : 0 ≤ p)
    (sd : Dist (List ℕ) K) (hsd : Nonneg sd) (a : Acc K) :
    bal a + p * mass sd - minP * (sd.length : K) ≤ bal (simState minP minPhotons p sd a) ∧
      bal (simState minP minPhotons p sd a) ≤ bal a + p * mass sd := by
  unfold simState
  induction sd generalizing a with
  | nil => simp
  | cons o sd ih =>
    have ho : 0 ≤ o.2 := hsd o (by simp)
    have hsd' : Nonneg sd := fun x hx => hsd x (by simp [hx])
    have hpo : 0 ≤ p * o.2 := mul_nonneg hp ho
    simp only [List.foldl_cons, List.length_cons, Nat.cast_add, Nat.cast_one, mass_cons]
    split
    · obtain ⟨i1, i2⟩ := ih hsd' (a.1, a.2 - p * o.2)
      simp only [bal] at i1 i2 ⊢
      constructor <;> nlinarith
    · obtain ⟨i1, i2⟩ := ih hsd' (addP minP a.1 o.1 (p * o.2), a.2)
      simp only [bal, mass_addP] at i1 i2 ⊢
      have k1 := keep_le (minP := minP) hpo
      have k2 := sub_le_keep h0 (p * o.2)
      constructor <;> nlinarith

/-- number of `add` calls that can drop something, weighted as they enter the balance: per input
state `(s,p)`, `p·kcount(s)` for the calls behind its kernels (`Detector.detect` loops: at most the photons of
the mode; beam-splitter tree: one per leaf state in the backend) and one per recorded output state -/
def addCalls (minP : K) (ds : List (AnyDet K)) (dist : Dist (List ℕ) K) : K :=
  (dist.map fun e => e.2 * (kcount ds e.1 : K) + ((stateDist minP ds e.1).length : K)).sum

theorem addCalls_nonneg (minP : K) (ds : List (AnyDet K)) (dist : Dist (List ℕ) K)
    (hnn : Nonneg dist) : 0 ≤ addCalls minP ds dist := by
  unfold addCalls
  apply List.sum_nonneg
  intro x hx
  obtain ⟨e, he, rfl⟩ := List.mem_map.mp hx
  exact add_nonneg (mul_nonneg (hnn e he) (Nat.cast_nonneg _)) (Nat.cast_nonneg _)

theorem simGeneral_bal_bounds {minP : K} (h0 : 0 ≤ minP) (minPhotons : Option ℕ)
    (ds : List (AnyDet K)) (hwf : ∀ d ∈ ds, d.WF) (hne : ds ≠ []) (dist : Dist (List ℕ) K)
    (hnn : Nonneg dist) (hlen : ∀ e ∈ dist, e.1.length = ds.length) :
    mass dist - 1 - minP * addCalls minP ds dist ≤ bal (simGeneral minP minPhotons ds dist) ∧
      bal (simGeneral minP minPhotons ds dist) ≤ mass dist - 1 := by
  unfold simGeneral
  have : ∀ a : Acc K,
      bal a + mass dist - minP * addCalls minP ds dist
        ≤ bal (dist.foldl (fun a e => simState minP minPhotons e.2 (stateDist minP ds e.1) a) a) ∧
      bal (dist.foldl (fun a e => simState minP minPhotons e.2 (stateDist minP ds e.1) a) a)
        ≤ bal a + mass dist := by
    induction dist with
    | nil => intro a; simp [addCalls]
    | cons e dist ih =>
      intro a
      have he : 0 ≤ e.2 := hnn e (by simp)
      obtain ⟨m1, m2, n1⟩ := stateDist_mass_bounds h0 ds hwf e.1 (hlen e (by simp)) hne
      obtain ⟨s1, s2⟩ := simState_bal_bounds h0 minPhotons he (stateDist minP ds e.1) n1 a
      obtain ⟨i1, i2⟩ := ih (fun x hx => hnn x (by simp [hx])) (fun x hx => hlen x (by simp [hx]))
        (simState minP minPhotons e.2 (stateDist minP ds e.1) a)
      have q1 : e.2 * (1 - (kcount ds e.1 : K) * minP) ≤ e.2 * mass (stateDist minP ds e.1) :=
        mul_le_mul_of_nonneg_left m1 he
      have q2 : e.2 * mass (stateDist minP ds e.1) ≤ e.2 * 1 := mul_le_mul_of_nonneg_left m2 he
      have ec : addCalls minP ds (e :: dist)
          = e.2 * (kcount ds e.1 : K) + ((stateDist minP ds e.1).length : K) + addCalls minP ds dist := by
        simp [addCalls]
      simp only [List.foldl_cons, mass_cons]
      rw [ec]
      constructor <;> nlinarith
  obtain ⟨t1, t2⟩ := this ([], 1)
  simp only [bal, mass_nil] at t1 t2 ⊢
  constructor <;> linarith

end massMinP

end PM.C08
