/-
  C19 (wave 10, proofs only) — the ghost list `retired` is write-only: every operation of the machine, and the
  crash step of the extended machine, leaves `retired` alone or prepends to it.
-/
import PercevalModel.Lemmas.C19CrashM

namespace PM.C19
open PM.SM

theorem write_ret {s s' : State} (h : write s = .ok s') : s'.retired = s.retired := by
  unfold write at h
  split at h
  · cases h
  · cases h; rfl

theorem writeR_ret (s : State) : (writeR s).1.retired = s.retired := by
  unfold writeR
  split
  · next s' h => exact write_ret h
  · rfl

theorem writeOr_ret (s0 s : State) (h0 : s0.retired = s.retired) : (writeOr s0 s).1.retired = s.retired := by
  unfold writeOr
  split
  · next s' h => exact write_ret h
  · exact h0

theorem construct_ret (v : Variant) (s : State) : (construct v s).1.retired = s.retired := by
  unfold construct
  dsimp only
  split
  · rfl
  · rw [writeR_ret]

theorem kill_ret (v : Variant) (s : State) : (kill v s).1.retired = s.retired := construct_ret v s

theorem afterSend_ret (v : Variant) (seq : Bool) (s : State) (p : Nat) :
    (afterSend v seq s p).1.retired = s.retired := by
  unfold afterSend
  split
  · rfl
  · next s1 h1 =>
    have e1 := write_ret h1
    split
    · split
      · exact e1
      · split
        · rw [kill_ret]; exact e1
        · next x rest _ =>
          have e2 := writeR_ret { s1 with sts := rest, mem := upd (setSt x) s1.mem p }
          split
          · next s2 h2 =>
            have e3 : s2.retired = s.retired := by
              have : s2 = (writeR { s1 with sts := rest, mem := upd (setSt x) s1.mem p }).1 := by rw [h2]
              rw [this, e2]; exact e1
            split
            · exact e3
            · exact e3
          · rw [e2]; exact e1
        · split
          · dsimp only
            split
            · next s3 h3 => rw [write_ret h3]; exact e1
            · exact e1
          · exact e1
    · exact e1

theorem refreshOne_ret (v : Variant) (s : State) (i : Nat) : (refreshOne v s i).1.retired = s.retired := by
  unfold refreshOne
  split
  · rfl
  · split
    · split
      · exact kill_ret v s
      · split
        · rfl
        · rw [writeR_ret]
      · rfl
      · rfl
      · rfl
    · rfl

theorem refreshIdx_ret (v : Variant) : ∀ (is : List Nat) (s : State), (refreshIdx v is s).1.retired = s.retired
  | [], s => rfl
  | i :: is, s => by
    unfold refreshIdx
    have e := refreshOne_ret v s i
    split
    · next s' h => rw [refreshIdx_ret v is s']; rw [h] at e; exact e
    · exact e

theorem refreshAll_ret (v : Variant) (s : State) : (refreshAll v s).1.retired = s.retired := refreshIdx_ret v _ s

theorem execIter_ret (v : Variant) (seq : Bool) (s : State) (i : Nat) :
    (execIter v seq s i).1.retired = s.retired := by
  unfold execIter
  split
  · rfl
  · split
    · rfl
    · split
      · rfl
      · split
        · rfl
        · split
          · exact kill_ret v s
          · rfl
          · rw [afterSend_ret]

theorem rerunIter_ret (rp seq : Bool) (s : State) (i : Nat) :
    s.retired <:+ (rerunIter fixed rp seq s i).1.retired := by
  unfold rerunIter
  have e : (if fixed.statFix = true then (s, Res.ok) else query s i) = (s, Res.ok) := by simp [fixed]
  simp only [e]
  split
  · exact List.suffix_refl _
  · split
    · exact List.suffix_refl _
    · split
      · exact List.suffix_refl _
      · split
        · rw [kill_ret]; exact List.suffix_refl _
        · exact List.suffix_refl _
        · split
          · rw [afterSend_ret]
            split
            · exact List.suffix_cons _ _
            · exact List.suffix_refl _
          · rw [afterSend_ret]; exact List.suffix_refl _

theorem launchIdx_ret (rr rp seq : Bool) : ∀ (is : List Nat) (s : State),
    s.retired <:+ (launchIdx fixed rr rp seq is s).1.retired
  | [], s => List.suffix_refl _
  | i :: is, s => by
    unfold launchIdx
    have e : s.retired <:+ (if rr = true then rerunIter fixed rp seq s i else execIter fixed seq s i).1.retired := by
      cases rr
      · simp only [Bool.false_eq_true, if_false]; rw [execIter_ret]; exact List.suffix_refl _
      · simp only [if_true]; exact rerunIter_ret rp seq s i
    split
    · next s' h => rw [h] at e; exact e.trans (launchIdx_ret rr rp seq is s')
    · exact e

theorem launchOp_ret (rr rp seq : Bool) (s : State) : s.retired <:+ (launchOp fixed rr rp seq s).1.retired := by
  unfold launchOp
  have e : (if rr = true then refreshAll fixed s else (s, Res.ok)).1.retired = s.retired := by
    cases rr
    · rfl
    · simp only [if_true]; exact refreshAll_ret fixed s
  split
  · next s1 h =>
    rw [h] at e
    have := launchIdx_ret rr rp seq (List.range s1.mem.length) s1
    rw [e] at this
    exact this
  · rw [e]; exact List.suffix_refl _

theorem addOp_ret (s : State) (j : Job) (kw : Option Nat) : (addOp fixed s j kw).1.retired = s.retired := by
  rw [addOp_eq]
  split
  · rfl
  · unfold addRest
    split
    · rfl
    · simp only [fixed, if_true]
      exact writeOr_ret _ _ rfl

theorem wipeOp_ret (s : State) (now : Nat) : (wipeOp fixed s now).1.retired = s.issued ++ s.retired := by
  unfold wipeOp
  rw [construct_ret]

theorem deleteDateOp_ret (s : State) (c now : Nat) : s.retired <:+ (deleteDateOp fixed s c now).1.retired := by
  unfold deleteDateOp
  split
  · rw [wipeOp_ret]; exact List.suffix_append _ _
  · rw [construct_ret]; exact List.suffix_refl _

/-- every operation of the machine, started in a reachable state, leaves `retired` alone or prepends to it -/
theorem step_retired {s : State} (h : Inv s) (op : Op) : s.retired <:+ (step fixed s op).1.retired := by
  cases op with
  | reopen => show s.retired <:+ (construct fixed s).1.retired; rw [construct_ret]; exact List.suffix_refl _
  | add j kw =>
    show s.retired <:+ (addOp fixed (clearScript s) j kw).1.retired
    rw [addOp_ret]; exact List.suffix_refl _
  | addLocal => exact List.suffix_refl _
  | launch rr rp sq outs sts => exact launchOp_ret rr rp sq { s with outs := outs, sts := sts }
  | progress sts =>
    show s.retired <:+ (refreshAll fixed { s with outs := [], sts := sts }).1.retired
    rw [refreshAll_ret]; exact List.suffix_refl _
  | list k sts =>
    simp only [step]
    split
    · exact List.suffix_refl _
    · show s.retired <:+ (refreshAll fixed { s with outs := [], sts := sts }).1.retired
      rw [refreshAll_ret]; exact List.suffix_refl _
  | getResults sts rsps =>
    have f := getResultsOp_frame (inv_script3 h [] sts rsps)
    show s.retired <:+ (getResultsOp fixed { s with outs := [], sts := sts, rsps := rsps }).1.retired
    rw [f.retired]; exact List.suffix_refl _
  | track sts =>
    have f := trackOp_frame (inv_script3 h [] sts [])
    show s.retired <:+ (trackOp fixed { s with outs := [], sts := sts, rsps := [] }).1.retired
    rw [f.retired]; exact List.suffix_refl _
  | wipe now =>
    show s.retired <:+ (wipeOp fixed (clearScript s) now).1.retired
    rw [wipeOp_ret]; exact List.suffix_append _ _
  | deleteDate c now => exact deleteDateOp_ret (clearScript s) c now
  | other => exact List.suffix_refl _

theorem lose_ret (s : State) (g : Nat) : (lose s g).retired = (s.next + g) :: s.retired := by
  unfold lose
  rw [construct_ret]

theorem xstep_retired {x : XState} (h : Inv x.st) (o : XOp) : x.st.retired <:+ (xstep x o).1.st.retired := by
  cases o with
  | op o => exact step_retired h o
  | crash g => show x.st.retired <:+ (lose x.st g).retired; rw [lose_ret]; exact List.suffix_cons _ _

/-- the ledger is part of `retired` -/
def LostRet (x : XState) : Prop := Inv x.st ∧ ∀ k ∈ x.lost, k ∈ x.st.retired

theorem xstep_lostRet {x : XState} (h : LostRet x) {o : XOp} (hw : WFX o) : LostRet (xstep x o).1 := by
  refine ⟨xstep_inv h.1 hw, ?_⟩
  have hs := xstep_retired h.1 o
  cases o with
  | op o => intro k hk; exact hs.subset (h.2 k hk)
  | crash g =>
    intro k hk
    have e : (xstep x (.crash g)).1.st.retired = (x.st.next + g) :: x.st.retired := lose_ret x.st g
    rw [e]
    rcases List.mem_cons.1 hk with rfl | hk
    · exact List.mem_cons_self
    · exact List.mem_cons_of_mem _ (h.2 k hk)

theorem xexec_lostRet (dir : Bool) (xs : List XOp) (hw : ∀ o ∈ xs, WFX o) : LostRet (exec xstep (xinit dir) xs) :=
  inv_exec_of xstep WFX LostRet (fun _ _ hop hi => xstep_lostRet hi hop) _
    ⟨create_inv dir, fun _ hk => by simp [xinit] at hk⟩ xs hw

theorem xexec_retired_suffix (xs : List XOp) : ∀ (x : XState), Inv x.st → (∀ o ∈ xs, WFX o) →
    x.st.retired <:+ (exec xstep x xs).st.retired := by
  induction xs with
  | nil => intro x _ _; exact List.suffix_refl _
  | cons o r ih =>
    intro x h hw
    rw [exec_cons]
    exact (xstep_retired h o).trans
      (ih _ (xstep_inv h (hw o (by simp))) (fun o' ho => hw o' (by simp [ho])))

end PM.C19
