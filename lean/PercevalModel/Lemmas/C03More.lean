/-
  C03 — helper lemmas for the statements that used to be validated by the correspondence only:
  generic path on a Fock member = fast path, probability-by-partitions = convolution, the photon-number
  split preserves the mixture, threshold 0 = no threshold.
-/
import PercevalModel.Lemmas.C03Mass

open Matrix

namespace PM.C03
open PM.Fock PM.Dist PM.SimSpec PM.FockComp

/-! ### `GQ` -/

theorem normSq_mul (a b : GQ) : GQ.normSq (a * b) = GQ.normSq a * GQ.normSq b := by
  simp only [GQ.normSq, GQ.mul_re, GQ.mul_im]; ring

theorem normSq_nonneg (a : GQ) : 0 ≤ GQ.normSq a := by
  unfold GQ.normSq
  exact add_nonneg (mul_self_nonneg _) (mul_self_nonneg _)

theorem normSq_eq_zero {a : GQ} (h : GQ.normSq a = 0) : a = 0 := by
  unfold GQ.normSq at h
  have h1 := mul_self_nonneg a.re
  have h2 := mul_self_nonneg a.im
  have e1 : a.re * a.re = 0 := by linarith
  have e2 : a.im * a.im = 0 := by linarith
  ext
  · simpa using e1
  · simpa using e2

theorem normSq_zero : GQ.normSq 0 = 0 := by simp [GQ.normSq]

theorem normSq_ne_zero {a : GQ} (h : a ≠ 0) : GQ.normSq a ≠ 0 := fun e => h (normSq_eq_zero e)

/-! ### `gatherAmps` on a list without repeated keys -/

theorem foldl_gstep_of_nodup (l acc : AL) (h : ((acc ++ l).map (·.1)).Nodup) :
    l.foldl gstep acc = acc ++ l := by
  induction l generalizing acc with
  | nil => simp
  | cons p r ih =>
    have hnot : ¬ (acc.any (·.1 == p.1) = true) := by
      intro hany
      obtain ⟨q, hq, he⟩ := List.any_eq_true.1 hany
      have hqp : q.1 = p.1 := by simpa using he
      rw [List.map_append, List.nodup_append] at h
      exact h.2.2 q.1 (List.mem_map_of_mem hq) p.1 (by simp) hqp
    have hs : gstep acc p = acc ++ [p] := by unfold gstep; rw [if_neg hnot]
    rw [List.foldl_cons, hs, ih]
    · simp
    · simpa using h

theorem gatherAmps_of_nodup (l : AL) (h : (l.map (·.1)).Nodup) : gatherAmps l = l := by
  rw [gatherAmps_eq, foldl_gstep_of_nodup l [] (by simpa using h)]
  rfl

/-! ### flattening a tuple of per-tag outputs -/

theorem foldl_fadd (a b : Fock) (ts : List Fock) :
    ts.foldl fadd (fadd a b) = fadd a (ts.foldl fadd b) := by
  induction ts generalizing b with
  | nil => rfl
  | cons t r ih => rw [List.foldl_cons, List.foldl_cons, fadd_assoc, ih]

theorem flattenTuple_cons (m : ℕ) (t : Fock) (ts : List Fock) :
    flattenTuple m (t :: ts) = fadd t (flattenTuple m ts) := by
  unfold flattenTuple
  rw [List.foldl_cons, fadd_comm (zeros m) t, foldl_fadd]

/-! ### right-nested convolutions -/

theorem foldConv_eqv_foldr (i : D) (ds : List D) : Eqv (foldConv i ds) (ds.foldr conv i) := by
  induction ds with
  | nil => exact Eqv.refl _
  | cons d r ih =>
    have h1 : Eqv (foldConv i (d :: r)) (foldConv i (r ++ [d])) :=
      foldConv_perm (List.perm_append_singleton d r).symm i
    have h2 : foldConv i (r ++ [d]) = conv (foldConv i r) d := by
      simp [foldConv, List.foldl_append]
    rw [h2] at h1
    exact (h1.trans (conv_comm_eqv _ _)).trans (conv_congr_right d ih)

/-! ### one Fock member on the generic path -/

/-- the distribution of the tuples of one tagged basis state -/
def tupD {m : ℕ} (U : Matrix (Fin m) (Fin m) GQ) (gs : List Fock) : D :=
  (tuples U gs).map fun p =>
    (flattenTuple m p.1,
      GQ.normSq p.2 / (((p.1.map prodFact).prod : ℕ) : ℚ) / (((gs.map prodFact).prod : ℕ) : ℚ))

theorem tupD_cons {m : ℕ} (U : Matrix (Fin m) (Fin m) GQ) (s : Fock) (rest : List Fock) :
    tupD U (s :: rest) = conv (probsFock U s) (tupD U rest) := by
  unfold tupD conv probsFock
  rw [tuples_cons]
  simp only [List.map_flatMap, List.flatMap_map, List.map_map]
  apply List.flatMap_congr
  intro t _
  apply List.map_congr_left
  intro p _
  simp only [Function.comp_apply]
  rw [flattenTuple_cons]
  congr 1
  unfold prob
  rw [normSq_mul]
  simp only [List.map_cons, List.prod_cons, Nat.cast_mul]
  rw [div_div, div_div, div_mul_div_comm]
  congr 1
  ring

theorem tupD_eqv {m : ℕ} (U : Matrix (Fin m) (Fin m) GQ) (gs : List Fock) :
    Eqv (tupD U gs) (probsTagged U gs) := by
  rw [probsTagged_eq_foldConv]
  refine Eqv.trans ?_ (foldConv_eqv_foldr _ _).symm
  induction gs with
  | nil =>
    intro t
    simp [tupD, tuples, flattenTuple, GQ.normSq]
  | cons s rest ih =>
    rw [tupD_cons, List.map_cons, List.foldr_cons]
    exact conv_congr_right _ ih

theorem svAmps_single {m : ℕ} (U : Matrix (Fin m) (Fin m) GQ) (term : Term) :
    svAmps U [term] = termAmps U term := by
  unfold svAmps
  simp only [List.flatMap_cons, List.flatMap_nil, List.append_nil]
  apply gatherAmps_of_nodup
  have : (termAmps U term).map (·.1) = (tuples U term.groups).map (·.1) := by
    simp [termAmps, List.map_map, Function.comp_def]
  rw [this]
  exact tuples_keys_nodup U term.groups

theorem probsSV_single {m : ℕ} (U : Matrix (Fin m) (Fin m) GQ) (c : GQ) (gs : List Fock)
    (hc : c ≠ 0) : probsSV U [⟨c, gs⟩] = tupD U gs := by
  unfold probsSV tupD
  rw [svAmps_single]
  simp only [termAmps, List.map_map]
  apply List.map_congr_left
  intro p _
  simp only [Function.comp_apply, svNorm2, List.map_cons, List.map_nil, List.sum_cons, List.sum_nil,
    add_zero]
  congr 1
  rw [normSq_mul]
  have h1 := normSq_ne_zero hc
  have h2 : (((gs.map prodFact).prod : ℕ) : ℚ) ≠ 0 := by
    apply Nat.cast_ne_zero.2
    apply List.prod_ne_zero
    intro h0
    obtain ⟨s, _, hs⟩ := List.mem_map.1 h0
    exact prodFact_ne_zero s hs
  field_simp

/-! ### vacuum groups: `realGroups` -/

theorem allStates_zero : ∀ m : ℕ, allStates m 0 = [zeros m]
  | 0 => rfl
  | m + 1 => by
    have ih := allStates_zero m
    simp [allStates, ih, zeros, List.replicate_succ]

theorem pamp_vacuum {m : ℕ} (U : Matrix (Fin m) (Fin m) GQ) (s t : Fock) (hs : s.sum = 0)
    (ht : t.sum = 0) : pamp U s t = 1 := by
  unfold pamp
  rw [if_pos (hs.trans ht.symm)]
  have : IsEmpty (Fin s.sum) := by rw [hs]; infer_instance
  exact Matrix.permanent_isEmpty

theorem prodFact_of_sum_zero (s : Fock) (hs : s.sum = 0) : prodFact s = 1 := by
  unfold prodFact
  apply List.prod_eq_one
  intro x hx
  obtain ⟨a, ha, rfl⟩ := List.mem_map.1 hx
  have : a = 0 := by
    have := List.single_le_sum (fun _ _ => Nat.zero_le _) a ha
    omega
  rw [this]; rfl

theorem zeros_sum (m : ℕ) : (zeros m).sum = 0 := by simp [zeros]

theorem probsFock_vacuum {m : ℕ} (U : Matrix (Fin m) (Fin m) GQ) (s : Fock) (hs : s.sum = 0) :
    probsFock U s = [(zeros m, 1)] := by
  unfold probsFock
  rw [hs, allStates_zero]
  simp only [List.map_cons, List.map_nil, prob]
  rw [pamp_vacuum U s _ hs (zeros_sum m), prodFact_of_sum_zero s hs,
    prodFact_of_sum_zero _ (zeros_sum m)]
  simp [GQ.normSq]

def KeysLen (m : ℕ) (d : D) : Prop := ∀ e ∈ d, e.1.length = m

theorem fadd_length (a b : Fock) (h : a.length = b.length) : (fadd a b).length = a.length := by
  induction a generalizing b with
  | nil => cases b <;> simp_all [fadd]
  | cons x xs ih =>
    cases b with
    | nil => simp at h
    | cons y ys =>
      simp only [fadd, List.length_cons]
      rw [ih ys (by simpa using h)]

theorem keysLen_conv (m : ℕ) (a b : D) (ha : KeysLen m a) (hb : KeysLen m b) :
    KeysLen m (conv a b) := by
  intro e he
  simp only [conv, List.mem_flatMap, List.mem_map] at he
  obtain ⟨p, hp, q, hq, rfl⟩ := he
  rw [fadd_length _ _ ((ha p hp).trans (hb q hq).symm)]
  exact ha p hp

theorem conv_unit_right (m : ℕ) (d : D) (hd : KeysLen m d) : conv d [(zeros m, 1)] = d := by
  simp only [conv, List.map_cons, List.map_nil, mul_one]
  rw [← List.map_eq_flatMap]
  conv_rhs => rw [← List.map_id d]
  apply List.map_congr_left
  intro e he
  rw [fadd_comm, fadd_zeros_left m e.1 (hd e he)]
  rfl

theorem foldConv_filter_vacuum {m : ℕ} (U : Matrix (Fin m) (Fin m) GQ) (gs : List Fock) (i : D)
    (hi : KeysLen m i) :
    foldConv i (gs.map (probsFock U)) =
      foldConv i ((gs.filter fun s => s.sum ≠ 0).map (probsFock U)) := by
  induction gs generalizing i with
  | nil => rfl
  | cons s rest ih =>
    by_cases hs : s.sum = 0
    · have hf : (s :: rest).filter (fun s => s.sum ≠ 0) = rest.filter (fun s => s.sum ≠ 0) := by
        simp [hs]
      rw [hf, List.map_cons]
      show foldConv (conv i (probsFock U s)) _ = _
      rw [probsFock_vacuum U s hs, conv_unit_right m i hi]
      exact ih i hi
    · have hf : (s :: rest).filter (fun s => s.sum ≠ 0) = s :: rest.filter (fun s => s.sum ≠ 0) := by
        simp [hs]
      rw [hf, List.map_cons, List.map_cons]
      show foldConv (conv i (probsFock U s)) _ = foldConv (conv i (probsFock U s)) _
      apply ih
      exact keysLen_conv m _ _ hi (probsFock_length U s)

/-- tags without photons do not change the convolution: literally the same list -/
theorem probsTagged_realGroups {m : ℕ} (U : Matrix (Fin m) (Fin m) GQ) (gs : List Fock) :
    probsTagged U (realGroups m gs) = probsTagged U gs := by
  have hi : KeysLen m [(zeros m, (1 : ℚ))] := by
    intro e he
    simp only [List.mem_singleton] at he
    rw [he]; exact zeros_length m
  rw [probsTagged_eq_foldConv, probsTagged_eq_foldConv, foldConv_filter_vacuum U gs _ hi]
  unfold realGroups
  simp only
  split
  · rename_i h
    rw [h]
    simp only [List.map_cons, List.map_nil, foldConv, List.foldl_cons, List.foldl_nil]
    rw [probsFock_vacuum U _ (zeros_sum m), conv_unit_right m _ hi]
  · rfl

/-! ### probability by partitions -/

theorem wsum_congr_mem {g g' : Fock → ℚ} (d : D) (h : ∀ e ∈ d, g e.1 = g' e.1) :
    wsum g d = wsum g' d := by
  induction d with
  | nil => rfl
  | cons p r ih =>
    rw [wsum_cons, wsum_cons, h p List.mem_cons_self,
      ih fun e he => h e (List.mem_cons_of_mem _ he)]

theorem fsub?_some : ∀ {t o r : Fock}, fsub? t o = some r →
    fadd o r = t ∧ r.length = t.length ∧ o.length = t.length
  | [], [], r, h => by
    simp only [fsub?, Option.some.injEq] at h
    subst h; simp [fadd]
  | a :: as, b :: bs, r, h => by
    simp only [fsub?] at h
    by_cases hb : b ≤ a
    · rw [if_pos hb] at h
      cases h' : fsub? as bs with
      | none => rw [h'] at h; simp at h
      | some r' =>
        rw [h'] at h
        simp only [Option.map_some, Option.some.injEq] at h
        subst h
        obtain ⟨h1, h2, h3⟩ := fsub?_some h'
        refine ⟨?_, by simp [h2], by simp [h3]⟩
        simp only [fadd, h1]
        congr 1
        omega
    · rw [if_neg hb] at h; cases h
  | [], _ :: _, r, h => by simp [fsub?] at h
  | _ :: _, [], r, h => by simp [fsub?] at h

theorem fsub?_fadd : ∀ (o q : Fock), o.length = q.length → fsub? (fadd o q) o = some q
  | [], [], _ => rfl
  | x :: xs, y :: ys, h => by
    have ih := fsub?_fadd xs ys (by simpa using h)
    simp only [fadd, fsub?, Nat.le_add_right, if_true, ih, Option.map_some, Nat.add_sub_cancel_left]
  | [], _ :: _, h => by simp at h
  | _ :: _, [], h => by simp at h

/-- the mass a list of `m`-mode outcomes puts on `t - o` -/
theorem wsum_fadd_eq (m : ℕ) (d : D) (hd : KeysLen m d) (o t : Fock) (ho : o.length = m) :
    wsum (fun y => if fadd o y == t then 1 else 0) d =
      match fsub? t o with
      | some r => get d r
      | none => 0 := by
  cases h : fsub? t o with
  | none =>
    simp only
    refine (wsum_congr_mem d ?_).trans (wsum_zero d)
    intro e he
    have : ¬ fadd o e.1 = t := by
      intro e'
      have := fsub?_fadd o e.1 (ho.trans (hd e he).symm)
      rw [e', h] at this
      cases this
    simp [this]
  | some r =>
    simp only
    rw [get_eq_wsum]
    apply wsum_congr_mem
    intro e he
    have hiff : fadd o e.1 = t ↔ e.1 = r := by
      constructor
      · intro e'
        have := fsub?_fadd o e.1 (ho.trans (hd e he).symm)
        rw [e', h] at this
        exact (Option.some.inj this).symm
      · intro e'
        rw [e']; exact (fsub?_some h).1
    by_cases hc : e.1 = r
    · simp [hc, (fsub?_some h).1]
    · have : ¬ fadd o e.1 = t := fun x => hc (hiff.1 x)
      simp [hc, this]

/-- the sum over `partition`s of `Simulator.probability` -/
def partSum {m : ℕ} (U : Matrix (Fin m) (Fin m) GQ) (gs : List Fock) (t : Fock) : ℚ :=
  ((partitions m t (gs.map List.sum)).map fun os =>
    (List.zipWith (fun s o => prob U s o) gs os).prod).sum

theorem partSum_nil {m : ℕ} (U : Matrix (Fin m) (Fin m) GQ) (t : Fock) :
    partSum U [] t = if t.all (· == 0) then 1 else 0 := by
  unfold partSum
  simp only [List.map_nil, partitions]
  split <;> simp

theorem partSum_cons {m : ℕ} (U : Matrix (Fin m) (Fin m) GQ) (s : Fock) (gs : List Fock) (t : Fock) :
    partSum U (s :: gs) t = ((allStates m s.sum).map fun o =>
      match fsub? t o with
      | some r => prob U s o * partSum U gs r
      | none => 0).sum := by
  unfold partSum
  simp only [List.map_cons, partitions]
  rw [sum_flatMap']
  congr 1
  apply List.map_congr_left
  intro o _
  cases fsub? t o with
  | none => simp
  | some r =>
    simp only [List.map_map, Function.comp_def, List.zipWith_cons_cons, List.prod_cons]
    rw [List.sum_map_mul_left]

theorem all_zero_iff (m : ℕ) (t : Fock) (ht : t.length = m) :
    (t.all (· == 0) = true) ↔ zeros m = t := by
  unfold zeros
  constructor
  · intro h
    symm
    rw [List.eq_replicate_iff]
    exact ⟨ht, by simpa using h⟩
  · intro h
    rw [← h]; simp

/-- the right-nested convolution of the groups' distributions -/
def convR {m : ℕ} (U : Matrix (Fin m) (Fin m) GQ) (gs : List Fock) : D :=
  (gs.map (probsFock U)).foldr conv [(zeros m, 1)]

theorem keysLen_unit (m : ℕ) : KeysLen m [(zeros m, (1 : ℚ))] := by
  intro e he
  simp only [List.mem_singleton] at he
  rw [he]; exact zeros_length m

theorem keysLen_convR {m : ℕ} (U : Matrix (Fin m) (Fin m) GQ) (gs : List Fock) :
    KeysLen m (convR U gs) := by
  induction gs with
  | nil => exact keysLen_unit m
  | cons s r ih => exact keysLen_conv m _ _ (probsFock_length U s) ih

theorem convR_eqv {m : ℕ} (U : Matrix (Fin m) (Fin m) GQ) (gs : List Fock) :
    Eqv (probsTagged U gs) (convR U gs) := by
  rw [probsTagged_eq_foldConv]
  exact foldConv_eqv_foldr _ _

theorem get_convR_cons {m : ℕ} (U : Matrix (Fin m) (Fin m) GQ) (s : Fock) (gs : List Fock) (t : Fock) :
    get (convR U (s :: gs)) t = ((allStates m s.sum).map fun o =>
      match fsub? t o with
      | some r => prob U s o * get (convR U gs) r
      | none => 0).sum := by
  show get (conv (probsFock U s) (convR U gs)) t = _
  rw [get_eq_wsum, wsum_conv]
  unfold wsum probsFock
  rw [List.map_map]
  congr 1
  apply List.map_congr_left
  intro o ho
  simp only [Function.comp_apply]
  have hol : o.length = m := ((mem_allStates_iff m s.sum o).1 ho).1
  have := wsum_fadd_eq m (convR U gs) (keysLen_convR U gs) o t hol
  unfold wsum at this
  rw [this]
  cases fsub? t o with
  | none => simp
  | some r => simp [mul_comm]

theorem get_convR_eq_partSum {m : ℕ} (U : Matrix (Fin m) (Fin m) GQ) (gs : List Fock) :
    ∀ t : Fock, t.length = m → get (convR U gs) t = partSum U gs t := by
  induction gs with
  | nil =>
    intro t ht
    rw [partSum_nil]
    show get [(zeros m, 1)] t = _
    rw [get_cons, get_nil, add_zero]
    by_cases h : zeros m = t
    · rw [if_pos ((all_zero_iff m t ht).2 h)]; simp [h]
    · have : ¬ (t.all (· == 0) = true) := fun x => h ((all_zero_iff m t ht).1 x)
      rw [if_neg this]; simp [h]
  | cons s r ih =>
    intro t ht
    rw [get_convR_cons, partSum_cons]
    congr 1
    apply List.map_congr_left
    intro o _
    cases h : fsub? t o with
    | none => rfl
    | some q =>
      simp only
      rw [ih q ((fsub?_some h).2.1.trans ht)]

theorem tagsOf_of_vacuum (st : AState) (h : (occ st).sum = 0) : tagsOf st = [] := by
  have : st.flatten = [] := by
    apply List.eq_nil_of_length_eq_zero
    rw [List.length_flatten]
    exact h
  simp [tagsOf, this]

/-! ### sums over gathered amplitude lists depend on `ampGet` only -/

/-- two amplitude lists with the same meaning -/
def AEqv (a b : AL) : Prop := ∀ K, ampGet a K = ampGet b K

theorem gatherSum_eq {M : Type*} [AddCommMonoid M] (l : AL) (g : List Fock → GQ → M)
    (hg : ∀ K, g K 0 = 0) (S : Finset (List Fock)) (hS : ∀ K ∈ l.map (·.1), K ∈ S) :
    ((gatherAmps l).map fun p => g p.1 p.2).sum = ∑ K ∈ S, g K (ampGet l K) := by
  rw [sum_gatherAmps]
  apply Finset.sum_subset
  · intro K hK
    exact hS K (List.mem_toFinset.1 hK)
  · intro K _ hK
    rw [ampGet_of_not_mem l K (fun h => hK (List.mem_toFinset.2 h)), hg]

theorem get_map_pair {α : Type*} (l : List α) (k : α → Fock) (v : α → ℚ) (t : Fock) :
    get (l.map fun p => (k p, v p)) t = (l.map fun p => if k p == t then v p else 0).sum := by
  induction l with
  | nil => rfl
  | cons p r ih => rw [List.map_cons, get_cons, ih, List.map_cons, List.sum_cons]

/-- the weight an annotated output `K` with amplitude `v` gives to the outcome `t` -/
def outW (m : ℕ) (t : Fock) (K : List Fock) (v : GQ) : ℚ :=
  if flattenTuple m K == t then GQ.normSq v / (((K.map prodFact).prod : ℕ) : ℚ) else 0

theorem outW_zero (m : ℕ) (t : Fock) (K : List Fock) : outW m t K 0 = 0 := by
  unfold outW; split <;> simp [normSq_zero]

/-- the probability of an outcome under `_to_bsd` of a gathered amplitude list -/
theorem get_toBsd (m : ℕ) (l : AL) (n2 : ℚ) (t : Fock) (S : Finset (List Fock))
    (hS : ∀ K ∈ l.map (·.1), K ∈ S) :
    get ((gatherAmps l).map fun p =>
      (flattenTuple m p.1, GQ.normSq p.2 / (((p.1.map prodFact).prod : ℕ) : ℚ) / n2)) t =
      (∑ K ∈ S, outW m t K (ampGet l K)) / n2 := by
  rw [get_map_pair, div_eq_mul_inv, Finset.sum_mul,
    ← gatherSum_eq l (fun K v => outW m t K v * n2⁻¹) (fun K => by rw [outW_zero, zero_mul]) S hS]
  congr 1
  apply List.map_congr_left
  intro p _
  unfold outW
  split
  · rw [div_eq_mul_inv]
  · rw [zero_mul]

theorem get_toBsd_congr (m : ℕ) (l l' : AL) (h : AEqv l l') (n2 : ℚ) (t : Fock) :
    get ((gatherAmps l).map fun p =>
      (flattenTuple m p.1, GQ.normSq p.2 / (((p.1.map prodFact).prod : ℕ) : ℚ) / n2)) t =
    get ((gatherAmps l').map fun p =>
      (flattenTuple m p.1, GQ.normSq p.2 / (((p.1.map prodFact).prod : ℕ) : ℚ) / n2)) t := by
  classical
  rw [get_toBsd m l n2 t ((l.map (·.1)).toFinset ∪ (l'.map (·.1)).toFinset)
      (fun K hK => Finset.mem_union_left _ (List.mem_toFinset.2 hK)),
    get_toBsd m l' n2 t ((l.map (·.1)).toFinset ∪ (l'.map (·.1)).toFinset)
      (fun K hK => Finset.mem_union_right _ (List.mem_toFinset.2 hK))]
  congr 1
  exact Finset.sum_congr rfl fun K _ => by rw [h K]

/-! ### threshold 0 is no threshold -/

def strip (a : AmpsF) : AL := a.map fun x => (x.1, x.2.1)
def stripB (b : List (Fock × GQ × ℚ)) : List (Fock × GQ) := b.map fun y => (y.1, y.2.1)

/-- amplitude of one output of a group -/
def bget (b : List (Fock × GQ)) (t : Fock) : GQ := ((b.filter (·.1 == t)).map (·.2)).sum

theorem bget_cons (y : Fock × GQ) (b : List (Fock × GQ)) (t : Fock) :
    bget (y :: b) t = (if y.1 = t then y.2 else 0) + bget b t := by
  unfold bget
  by_cases h : y.1 = t <;> simp [h]

theorem snoc_inj {α : Type*} (a b : List α) (x y : α) : a ++ [x] = b ++ [y] ↔ a = b ∧ x = y := by
  constructor
  · intro h
    have := List.append_inj' h rfl
    exact ⟨this.1, by simpa using this.2⟩
  · rintro ⟨rfl, rfl⟩; rfl

theorem ampGet_mergeRow (x : List Fock × GQ) (b : List (Fock × GQ)) (K : List Fock) (t : Fock) :
    ampGet (b.map fun y => (x.1 ++ [y.1], x.2 * y.2)) (K ++ [t]) =
      (if x.1 = K then x.2 else 0) * bget b t := by
  induction b with
  | nil => simp [ampGet, bget]
  | cons y ys ih =>
    rw [List.map_cons, ampGet_cons', ih, bget_cons]
    simp only [snoc_inj]
    by_cases h1 : x.1 = K <;> by_cases h2 : y.1 = t <;> (simp [h1, h2]; try ring)

theorem ampGet_mergeSV_snoc (a : AL) (b : List (Fock × GQ)) (K : List Fock) (t : Fock) :
    ampGet (mergeSV a b) (K ++ [t]) = ampGet a K * bget b t := by
  induction a with
  | nil => simp [mergeSV, ampGet]
  | cons x r ih =>
    have : mergeSV (x :: r) b = (b.map fun y => (x.1 ++ [y.1], x.2 * y.2)) ++ mergeSV r b := by
      simp [mergeSV]
    rw [this, ampGet_append, ih, ampGet_mergeRow, ampGet_cons']
    ring

theorem ampGet_mergeSV_nil (a : AL) (b : List (Fock × GQ)) : ampGet (mergeSV a b) [] = 0 := by
  apply ampGet_of_not_mem
  simp [mergeSV]

theorem mergeSV_congr {a a' : AL} (h : AEqv a a') (b : List (Fock × GQ)) :
    AEqv (mergeSV a b) (mergeSV a' b) := by
  intro K
  rcases List.eq_nil_or_concat' K with rfl | ⟨L, t, rfl⟩
  · rw [ampGet_mergeSV_nil, ampGet_mergeSV_nil]
  · rw [ampGet_mergeSV_snoc, ampGet_mergeSV_snoc, h L]

def FPos (a : AmpsF) : Prop := ∀ x ∈ a, 0 < x.2.2
def FPosB (b : List (Fock × GQ × ℚ)) : Prop := ∀ y ∈ b, 0 < y.2.2

theorem strip_mergeAllF (a : AmpsF) (b : List (Fock × GQ × ℚ)) :
    strip (mergeAllF a b) = mergeSV (strip a) (stripB b) := by
  simp [strip, stripB, mergeAllF, mergeSV, List.map_flatMap, List.flatMap_map, List.map_map,
    Function.comp_def]

theorem fpos_mergeAllF (a : AmpsF) (b : List (Fock × GQ × ℚ)) (ha : FPos a) (hb : FPosB b) :
    FPos (mergeAllF a b) := by
  intro z hz
  simp only [mergeAllF, List.mem_flatMap, List.mem_map] at hz
  obtain ⟨x, hx, y, hy, rfl⟩ := hz
  exact mul_pos (ha x hx) (hb y hy)

theorem ampGet_strip_filter (l : AmpsF) (P : List Fock × GQ × ℚ → Bool)
    (h : ∀ z ∈ l, P z = false → z.2.1 = 0) : AEqv (strip (l.filter P)) (strip l) := by
  intro K
  induction l with
  | nil => rfl
  | cons z r ih =>
    have ih' := ih fun z hz => h z (List.mem_cons_of_mem _ hz)
    by_cases hp : P z = true
    · simp only [List.filter_cons, hp, if_true, strip, List.map_cons] at ih' ⊢
      rw [ampGet_cons', ampGet_cons', ih']
    · have hp' : P z = false := by simpa using hp
      have hz := h z List.mem_cons_self hp'
      simp only [List.filter_cons, hp', strip, List.map_cons] at ih' ⊢
      rw [ampGet_cons', ← ih', hz]
      simp

theorem strip_mergeSVθ_zero (a : AmpsF) (b : List (Fock × GQ × ℚ)) (ha : FPos a) (hb : FPosB b) :
    AEqv (strip (mergeSVθ 0 a b)) (mergeSV (strip a) (stripB b)) := by
  rw [mergeSVθ_eq_filter, ← strip_mergeAllF]
  apply ampGet_strip_filter
  intro z hz hk
  have hf := fpos_mergeAllF a b ha hb z hz
  have hk' : ¬ (0 < GQ.normSq z.2.1 / z.2.2) := of_decide_eq_false hk
  apply normSq_eq_zero
  have h0 := normSq_nonneg z.2.1
  have : GQ.normSq z.2.1 ≤ 0 := by
    by_contra hlt
    exact hk' (div_pos (lt_of_not_ge hlt) hf)
  linarith

theorem strip_map_snoc (a : AmpsF) (s : Fock) :
    strip (a.map fun x => (x.1 ++ [s], x.2.1, x.2.2)) = mergeSV (strip a) [(s, 1)] := by
  induction a with
  | nil => rfl
  | cons x r ih =>
    simp only [strip, mergeSV, List.map_cons, List.flatMap_cons, List.map_nil, List.singleton_append,
      mul_one] at ih ⊢
    rw [ih]

theorem eq_zeros_of_sum_zero (m : ℕ) (s : Fock) (hl : s.length = m) (hs : s.sum = 0) : s = zeros m := by
  have := (mem_allStates_iff m 0 s).2 ⟨hl, hs⟩
  rw [allStates_zero] at this
  simpa using this

theorem groupEvolve_vacuum {m : ℕ} (U : Matrix (Fin m) (Fin m) GQ) (s : Fock) (hl : s.length = m)
    (hs : s.sum = 0) : groupEvolve U s = [(s, 1)] := by
  unfold groupEvolve
  rw [hs, allStates_zero, List.map_cons, List.map_nil, pamp_vacuum U s _ hs (zeros_sum m),
    ← eq_zeros_of_sum_zero m s hl hs]

theorem stripB_groupEvolveF {m : ℕ} (U : Matrix (Fin m) (Fin m) GQ) (s : Fock) :
    stripB (groupEvolveF U s) = groupEvolve U s := by
  simp [stripB, groupEvolveF, groupEvolve, List.map_map, Function.comp_def]

theorem fposB_groupEvolveF {m : ℕ} (U : Matrix (Fin m) (Fin m) GQ) (s : Fock) :
    FPosB (groupEvolveF U s) := by
  intro y hy
  simp only [groupEvolveF, List.mem_map] at hy
  obtain ⟨t, _, rfl⟩ := hy
  have h1 := Nat.pos_of_ne_zero (prodFact_ne_zero s)
  have h2 := Nat.pos_of_ne_zero (prodFact_ne_zero t)
  show (0 : ℚ) < ((prodFact s * prodFact t : ℕ) : ℚ)
  exact_mod_cast Nat.mul_pos h1 h2

/-- one step of the thresholded fold at threshold 0 against one step of the plain fold -/
theorem stepθ_zero {m : ℕ} (U : Matrix (Fin m) (Fin m) GQ) (acc : AmpsF × Bool) (a : AL) (s : Fock)
    (hl : s.length = m) (h1 : AEqv (strip acc.1) a) (h2 : FPos acc.1) :
    AEqv (strip (stepθ U 0 acc s).1) (mergeSV a (groupEvolve U s)) ∧ FPos (stepθ U 0 acc s).1 := by
  unfold stepθ
  by_cases hs : s.sum = 0
  · simp only [hs, if_true]
    constructor
    · rw [groupEvolve_vacuum U s hl hs]
      rw [strip_map_snoc]
      exact mergeSV_congr h1 _
    · intro x hx
      obtain ⟨y, hy, rfl⟩ := List.mem_map.1 hx
      exact h2 y hy
  · simp only [hs, if_false]
    by_cases hb : acc.2 = true
    · simp only [hb, if_true]
      constructor
      · intro K
        rw [strip_mergeSVθ_zero _ _ h2 (fposB_groupEvolveF U s) K, stripB_groupEvolveF]
        exact mergeSV_congr h1 _ K
      · rw [mergeSVθ_eq_filter]
        intro x hx
        exact fpos_mergeAllF _ _ h2 (fposB_groupEvolveF U s) x (List.mem_of_mem_filter hx)
    · have hb' : acc.2 = false := by simpa using hb
      simp only [hb', Bool.false_eq_true, if_false]
      constructor
      · intro K
        have := strip_mergeAllF acc.1 (groupEvolveF U s)
        unfold mergeAllF at this
        rw [this, stripB_groupEvolveF]
        exact mergeSV_congr h1 _ K
      · exact fpos_mergeAllF _ _ h2 (fposB_groupEvolveF U s)

theorem foldl_stepθ_zero {m : ℕ} (U : Matrix (Fin m) (Fin m) GQ) (gs : List Fock)
    (hl : ∀ s ∈ gs, s.length = m) : ∀ (acc : AmpsF × Bool) (a : AL), AEqv (strip acc.1) a → FPos acc.1 →
    AEqv (strip (gs.foldl (stepθ U 0) acc).1) (gs.foldl (fun acc s => mergeSV acc (groupEvolve U s)) a) := by
  induction gs with
  | nil => intro acc a h1 _; exact h1
  | cons s r ih =>
    intro acc a h1 h2
    obtain ⟨k1, k2⟩ := stepθ_zero U acc a s (hl s List.mem_cons_self) h1 h2
    simp only [List.foldl_cons]
    exact ih (fun x hx => hl x (List.mem_cons_of_mem _ hx)) _ _ k1 k2

theorem evolveTermθ_zero {m : ℕ} (U : Matrix (Fin m) (Fin m) GQ) (gs : List Fock)
    (hl : ∀ s ∈ gs, s.length = m) : AEqv (strip (evolveTermθ U 0 gs)) (evolveTerm U gs) := by
  rw [evolveTermθ_eq_foldl]
  apply foldl_stepθ_zero U gs hl
  · intro K; rfl
  · intro x hx
    simp only [List.mem_singleton] at hx
    rw [hx]; exact zero_lt_one

theorem ampsθ_zero {m : ℕ} (U : Matrix (Fin m) (Fin m) GQ) (terms : List Term) (thr : Term → ℚ)
    (hthr : ∀ t ∈ terms, thr t = 0) (hl : ∀ t ∈ terms, ∀ s ∈ t.groups, s.length = m) :
    AEqv (terms.flatMap fun t => (evolveTermθ U (thr t) t.groups).map fun x => (x.1, t.coef * x.2.1))
      (evolveCode U (terms.map toTermR)) := by
  intro K
  induction terms with
  | nil => rfl
  | cons t r ih =>
    have ih' := ih (fun t ht => hthr t (List.mem_cons_of_mem _ ht))
      (fun t ht => hl t (List.mem_cons_of_mem _ ht))
    simp only [evolveCode, List.map_cons, List.flatMap_cons, ampGet_append] at ih' ⊢
    rw [ih', hthr t List.mem_cons_self]
    congr 1
    have : ((evolveTermθ U 0 t.groups).map fun x => (x.1, t.coef * x.2.1)) =
        (strip (evolveTermθ U 0 t.groups)).map fun p => (p.1, t.coef * p.2) := by
      simp [strip, List.map_map, Function.comp_def]
    rw [this, ampGet_map_mul, ampGet_map_mul, evolveTermθ_zero U t.groups (hl t List.mem_cons_self) K]
    rfl

/-! ### the split by photon number -/

/-- photon number of an annotated output -/
def keyN (K : List Fock) : ℕ := (K.map List.sum).sum

theorem tuples_keyN {m : ℕ} (U : Matrix (Fin m) (Fin m) GQ) :
    ∀ (gs : List Fock) (p : List Fock × GQ), p ∈ tuples U gs → keyN p.1 = (gs.map List.sum).sum
  | [], p, hp => by
    simp only [tuples, List.mem_singleton] at hp
    rw [hp]; rfl
  | s :: rest, p, hp => by
    rw [tuples_cons] at hp
    simp only [List.mem_flatMap, List.mem_map] at hp
    obtain ⟨t, ht, q, hq, rfl⟩ := hp
    have := tuples_keyN U rest q hq
    simp only [keyN, List.map_cons, List.sum_cons] at this ⊢
    rw [this, ((mem_allStates_iff m s.sum t).1 ht).2]

theorem ampGet_tuples_of_keyN_ne {m : ℕ} (U : Matrix (Fin m) (Fin m) GQ) (gs : List Fock)
    (K : List Fock) (h : keyN K ≠ (gs.map List.sum).sum) : ampGet (tuples U gs) K = 0 := by
  apply ampGet_of_not_mem
  intro hK
  obtain ⟨p, hp, rfl⟩ := List.mem_map.1 hK
  exact h (tuples_keyN U gs p hp)

def sector (ts : List Term) (n : ℕ) : List Term := ts.filter (termN · == n)

theorem sum_map_filter_of_zero {α : Type*} (l : List α) (p : α → Bool) (f : α → GQ)
    (h : ∀ a ∈ l, p a = false → f a = 0) : ((l.filter p).map f).sum = (l.map f).sum := by
  induction l with
  | nil => rfl
  | cons a r ih =>
    have ih' := ih fun b hb => h b (List.mem_cons_of_mem _ hb)
    by_cases hp : p a = true
    · simp only [List.filter_cons, hp, if_true, List.map_cons, List.sum_cons, ih']
    · have hp' : p a = false := by simpa using hp
      simp only [List.filter_cons, hp', List.map_cons, List.sum_cons,
        h a List.mem_cons_self hp', zero_add]
      simpa using ih'

/-- the amplitude of an annotated output only comes from the terms with its photon number -/
theorem ampGet_sector_self {m : ℕ} (U : Matrix (Fin m) (Fin m) GQ) (ts : List Term) (K : List Fock) :
    ampGet ((sector ts (keyN K)).flatMap (termAmps U)) K = ampGet (ts.flatMap (termAmps U)) K := by
  rw [ampGet_flatMap_termAmps, ampGet_flatMap_termAmps]
  apply sum_map_filter_of_zero
  intro t _ ht
  have : termN t ≠ keyN K := by simpa using ht
  rw [ampGet_tuples_of_keyN_ne U t.groups K (fun e => this e.symm), mul_zero]

theorem ampGet_sector_other {m : ℕ} (U : Matrix (Fin m) (Fin m) GQ) (ts : List Term) (K : List Fock)
    (n : ℕ) (h : n ≠ keyN K) : ampGet ((sector ts n).flatMap (termAmps U)) K = 0 := by
  rw [ampGet_flatMap_termAmps]
  apply List.sum_eq_zero
  intro x hx
  obtain ⟨t, ht, rfl⟩ := List.mem_map.1 hx
  have : termN t = n := by simpa using (List.mem_filter.1 ht).2
  rw [ampGet_tuples_of_keyN_ne U t.groups K (fun e => h (this ▸ e.symm)), mul_zero]

theorem mem_photonCounts (ts : List Term) (n : ℕ) : n ∈ photonCounts ts ↔ ∃ t ∈ ts, termN t = n := by
  simp [photonCounts]

theorem photonCounts_nodup (ts : List Term) : (photonCounts ts).Nodup :=
  List.nodup_reverse.mpr (List.nodup_dedup _)

theorem sector_eq_nil (ts : List Term) (n : ℕ) (h : n ∉ photonCounts ts) : sector ts n = [] := by
  unfold sector
  rw [List.filter_eq_nil_iff]
  intro t ht e
  exact h ((mem_photonCounts ts n).2 ⟨t, ht, by simpa using e⟩)

/-- a sum over a list without repetitions whose terms vanish except at `a` -/
theorem sum_map_single {M : Type*} [AddCommMonoid M] (L : List ℕ) (hnd : L.Nodup) (a : ℕ) (f : ℕ → M)
    (h : ∀ b ∈ L, b ≠ a → f b = 0) : (L.map f).sum = if a ∈ L then f a else 0 := by
  induction L with
  | nil => rfl
  | cons b r ih =>
    rw [List.nodup_cons] at hnd
    have ih' := ih hnd.2 fun c hc => h c (List.mem_cons_of_mem _ hc)
    rw [List.map_cons, List.sum_cons, ih']
    by_cases e : b = a
    · subst e
      rw [if_neg hnd.1, if_pos List.mem_cons_self, add_zero]
    · rw [h b List.mem_cons_self e, zero_add]
      have : a ∈ b :: r ↔ a ∈ r := by
        simp only [List.mem_cons]
        constructor
        · rintro (h' | h')
          · exact absurd h'.symm e
          · exact h'
        · exact Or.inr
      rw [if_congr this rfl rfl]

/-- per annotated output: the weight it gives to `t` is the sum of the weights the sectors give -/
theorem outW_sectors {m : ℕ} (U : Matrix (Fin m) (Fin m) GQ) (ts : List Term) (t : Fock)
    (K : List Fock) :
    ((photonCounts ts).map fun n => outW m t K (ampGet ((sector ts n).flatMap (termAmps U)) K)).sum =
      outW m t K (ampGet (ts.flatMap (termAmps U)) K) := by
  rw [sum_map_single (photonCounts ts) (photonCounts_nodup ts) (keyN K)]
  · rw [ampGet_sector_self]
    split
    · rfl
    · rename_i h
      rw [← ampGet_sector_self, sector_eq_nil ts _ h]
      exact (outW_zero m t K).symm
  · intro n _ hn
    rw [ampGet_sector_other U ts K n hn, outW_zero]

theorem sector_keys_subset {m : ℕ} (U : Matrix (Fin m) (Fin m) GQ) (ts : List Term) (n : ℕ) :
    ∀ K ∈ ((sector ts n).flatMap (termAmps U)).map (·.1), K ∈ ((ts.flatMap (termAmps U)).map (·.1)).toFinset := by
  intro K hK
  rw [List.mem_toFinset]
  obtain ⟨p, hp, rfl⟩ := List.mem_map.1 hK
  obtain ⟨t, ht, hpt⟩ := List.mem_flatMap.1 hp
  exact List.mem_map_of_mem (List.mem_flatMap.2 ⟨t, List.mem_of_mem_filter ht, hpt⟩)

/-- the un-normalised weight of the outcome `t` under a superposition -/
def rawW {m : ℕ} (U : Matrix (Fin m) (Fin m) GQ) (S : Finset (List Fock)) (ts : List Term) (t : Fock) : ℚ :=
  ∑ K ∈ S, outW m t K (ampGet (ts.flatMap (termAmps U)) K)

theorem get_probsSV_raw {m : ℕ} (U : Matrix (Fin m) (Fin m) GQ) (ts : List Term) (t : Fock)
    (S : Finset (List Fock)) (hS : ∀ K ∈ (ts.flatMap (termAmps U)).map (·.1), K ∈ S) :
    get (probsSV U ts) t = rawW U S ts t / svNorm2 ts := by
  unfold probsSV svAmps rawW
  exact get_toBsd m _ _ t S hS

theorem rawW_sectors {m : ℕ} (U : Matrix (Fin m) (Fin m) GQ) (S : Finset (List Fock)) (ts : List Term)
    (t : Fock) : ((photonCounts ts).map fun n => rawW U S (sector ts n) t).sum = rawW U S ts t := by
  unfold rawW
  rw [← List.sum_toFinset _ (photonCounts_nodup ts), Finset.sum_comm]
  refine Finset.sum_congr rfl fun K _ => ?_
  rw [List.sum_toFinset _ (photonCounts_nodup ts)]
  exact outW_sectors U ts t K

theorem coef_zero_of_svNorm2 (ts : List Term) (h : svNorm2 ts = 0) : ∀ t ∈ ts, t.coef = 0 := by
  intro t ht
  by_contra hc
  exact svNorm2_ne_zero ts ⟨t, ht, hc⟩ h

theorem rawW_of_svNorm2_zero {m : ℕ} (U : Matrix (Fin m) (Fin m) GQ) (S : Finset (List Fock))
    (ts : List Term) (t : Fock) (h : svNorm2 ts = 0) : rawW U S ts t = 0 := by
  unfold rawW
  apply Finset.sum_eq_zero
  intro K _
  rw [ampGet_flatMap_termAmps, List.sum_eq_zero, outW_zero]
  intro x hx
  obtain ⟨t', ht', rfl⟩ := List.mem_map.1 hx
  rw [coef_zero_of_svNorm2 ts h t' ht', zero_mul]

/-- a sum over the terms is the sum over the sectors of the sums over their terms -/
theorem sum_sectors (ts : List Term) (f : Term → ℚ) (C : List ℕ) (hC : C.Nodup)
    (hmem : ∀ t ∈ ts, termN t ∈ C) :
    (C.map fun n => ((sector ts n).map f).sum).sum = (ts.map f).sum := by
  induction ts with
  | nil => simp [sector]
  | cons t r ih =>
    have ih' := ih fun x hx => hmem x (List.mem_cons_of_mem _ hx)
    have hstep : ∀ n, ((sector (t :: r) n).map f).sum =
        (if n = termN t then f t else 0) + ((sector r n).map f).sum := by
      intro n
      unfold sector
      by_cases e : termN t = n
      · simp [e]
      · have : ¬ n = termN t := fun x => e x.symm
        simp [e, this]
    simp only [hstep, List.sum_map_add, ih', List.map_cons, List.sum_cons]
    congr 1
    rw [sum_map_single C hC (termN t) (fun n => if n = termN t then f t else 0)
      (fun b _ hb => by simp [hb]), if_pos (hmem t List.mem_cons_self)]
    simp

theorem svNorm2_sectors (ts : List Term) :
    ((photonCounts ts).map fun n => svNorm2 (sector ts n)).sum = svNorm2 ts := by
  unfold svNorm2
  exact sum_sectors ts _ _ (photonCounts_nodup ts)
    (fun t ht => (mem_photonCounts ts _).2 ⟨t, ht, rfl⟩)

theorem svNorm2_nonneg (ts : List Term) : 0 ≤ svNorm2 ts := by
  unfold svNorm2
  apply List.sum_nonneg
  intro x hx
  obtain ⟨t, _, rfl⟩ := List.mem_map.1 hx
  exact mul_nonneg (normSq_nonneg _) (by positivity)

theorem probsSV_single' {m : ℕ} (U : Matrix (Fin m) (Fin m) GQ) (term : Term) (hc : term.coef ≠ 0) :
    probsSV U [term] = tupD U term.groups :=
  probsSV_single U term.coef term.groups hc

theorem sector_summand (w N Nn R : ℚ) (h : Nn = 0 → R = 0) : w * (Nn / N) * (R / Nn) = w / N * R := by
  by_cases hn : Nn = 0
  · rw [h hn, hn]; simp
  · field_simp

/-! ### `mixAt` -/

theorem mixAt_nil (f : List Term → D) (t : Fock) : mixAt f [] t = 0 := rfl

theorem mixAt_cons (f : List Term → D) (x : Member) (l : List Member) (t : Fock) :
    mixAt f (x :: l) t = x.w * get (f x.terms) t + mixAt f l t := by
  simp [mixAt]

theorem mixAt_append (f : List Term → D) (a b : List Member) (t : Fock) :
    mixAt f (a ++ b) t = mixAt f a t + mixAt f b t := by
  simp [mixAt]

theorem mixAt_filter_add (f : List Term → D) (p : Member → Bool) (l : List Member) (t : Fock) :
    mixAt f (l.filter p) t + mixAt f (l.filter fun x => !p x) t = mixAt f l t := by
  induction l with
  | nil => simp [mixAt]
  | cons x r ih =>
    by_cases h : p x = true
    · simp only [List.filter_cons, h, if_true, Bool.not_true, Bool.false_eq_true, if_false, mixAt_cons]
      rw [← ih]; ring
    · have h' : p x = false := by simpa using h
      simp only [List.filter_cons, h', Bool.false_eq_true, if_false, Bool.not_false, if_true, mixAt_cons]
      rw [← ih]; ring

theorem mixAt_filter_pos (f : List Term → D) (l : List Member) (hw : ∀ mb ∈ l, 0 ≤ mb.w) (t : Fock) :
    mixAt f (l.filter fun mb => decide (0 < mb.w)) t = mixAt f l t := by
  induction l with
  | nil => rfl
  | cons x r ih =>
    have ih' := ih fun mb h => hw mb (List.mem_cons_of_mem _ h)
    by_cases h : 0 < x.w
    · simp only [List.filter_cons, h, decide_true, if_true, mixAt_cons, ih']
    · have h0 : x.w = 0 := le_antisymm (not_lt.1 h) (hw x List.mem_cons_self)
      rw [List.filter_cons, if_neg (by simpa using h), ih', mixAt_cons, h0]
      ring

/-! ### the dict operations of `_preprocess_svd` -/

theorem needsSplit_of_sameKey (y x : Member) (h : sameKey y x = true) : needsSplit y = false := by
  unfold sameKey at h
  split at h
  · rename_i s u hs hu
    simp [needsSplit, hs]
  · cases h

theorem partAdd_forall (P : Member → Prop) (d : List Member) (x : Member) (hd : ∀ y ∈ d, P y) (hx : P x)
    (hupd : ∀ y, P y → sameKey y x = true → P { y with w := y.w + x.w }) :
    ∀ z ∈ (partAdd d x).1, P z := by
  induction d with
  | nil =>
    intro z hz
    simp only [partAdd, List.mem_singleton] at hz
    rw [hz]; exact hx
  | cons y r ih =>
    have ih' := ih fun z hz => hd z (List.mem_cons_of_mem _ hz)
    intro z hz
    by_cases h : sameKey y x = true
    · simp only [partAdd, h, if_true, List.mem_cons] at hz
      rcases hz with rfl | hz
      · exact hupd y (hd y List.mem_cons_self) h
      · exact hd z (List.mem_cons_of_mem _ hz)
    · simp only [partAdd, h, Bool.false_eq_true, if_false, List.mem_cons] at hz
      rcases hz with rfl | hz
      · exact hd _ List.mem_cons_self
      · exact ih' z hz

theorem partAddAll_forall (P : Member → Prop) (xs d : List Member) (hd : ∀ y ∈ d, P y)
    (hx : ∀ x ∈ xs, P x)
    (hupd : ∀ x ∈ xs, ∀ y, P y → sameKey y x = true → P { y with w := y.w + x.w }) :
    ∀ z ∈ partAddAll d xs, P z := by
  induction xs generalizing d with
  | nil => exact hd
  | cons x r ih =>
    simp only [partAddAll, List.foldl_cons]
    apply ih
    · exact partAdd_forall P d x hd (hx x List.mem_cons_self) (hupd x List.mem_cons_self)
    · exact fun x hx' => hx x (List.mem_cons_of_mem _ hx')
    · exact fun x hx' => hupd x (List.mem_cons_of_mem _ hx')

theorem partAdd_filter_needsSplit (d : List Member) (x : Member) (hx : needsSplit x = false) :
    (partAdd d x).1.filter needsSplit = d.filter needsSplit := by
  induction d with
  | nil => simp [partAdd, hx]
  | cons y r ih =>
    by_cases h : sameKey y x = true
    · have hy := needsSplit_of_sameKey y x h
      have hy' : needsSplit { y with w := y.w + x.w } = false := hy
      simp only [partAdd, h, if_true, List.filter_cons, hy, hy', Bool.false_eq_true, if_false]
    · simp only [partAdd, h, Bool.false_eq_true, if_false, List.filter_cons, ih]

theorem partAddAll_filter_needsSplit (xs d : List Member) (hx : ∀ x ∈ xs, needsSplit x = false) :
    (partAddAll d xs).filter needsSplit = d.filter needsSplit := by
  induction xs generalizing d with
  | nil => rfl
  | cons x r ih =>
    simp only [partAddAll, List.foldl_cons]
    have := ih (partAdd d x).1 fun x hx' => hx x (List.mem_cons_of_mem _ hx')
    simp only [partAddAll] at this
    rw [this, partAdd_filter_needsSplit d x (hx x List.mem_cons_self)]

/-- the loop that also follows `max_p` builds the same dict -/
theorem foldl_partAdd_max (xs d : List Member) (mx : ℚ) :
    (xs.foldl (fun (acc : List Member × ℚ) x =>
      ((partAdd acc.1 x).1, max acc.2 (partAdd acc.1 x).2)) (d, mx)).1 = partAddAll d xs := by
  induction xs generalizing d mx with
  | nil => rfl
  | cons x r ih =>
    simp only [List.foldl_cons, partAddAll]
    rw [ih]; rfl

theorem nodup_all_eq_length {l : List ℕ} (hnd : l.Nodup) (n : ℕ) (h : ∀ x ∈ l, x = n) : l.length ≤ 1 := by
  match l, hnd, h with
  | [], _, _ => simp
  | [_], _, _ => simp
  | a :: b :: r, hnd, h =>
    exfalso
    have ha := h a List.mem_cons_self
    have hb := h b (List.mem_cons_of_mem _ List.mem_cons_self)
    rw [List.nodup_cons] at hnd
    exact hnd.1 (by rw [ha, hb]; exact List.mem_cons_self)

theorem needsSplit_sector (ts : List Term) (n : ℕ) (hn : n ∈ photonCounts ts) (w : ℚ) :
    needsSplit ⟨w, sector ts n⟩ = false := by
  obtain ⟨t, ht, htn⟩ := (mem_photonCounts ts n).1 hn
  have hmem : t ∈ sector ts n := List.mem_filter.2 ⟨ht, by simpa using htn⟩
  have h1 : (photonCounts (sector ts n)).length ≤ 1 := by
    apply nodup_all_eq_length (photonCounts_nodup _) n
    intro x hx
    obtain ⟨u, hu, rfl⟩ := (mem_photonCounts _ x).1 hx
    simpa using (List.mem_filter.1 hu).2
  have h2 : 0 < (photonCounts (sector ts n)).length :=
    List.length_pos_of_mem ((mem_photonCounts _ n).2 ⟨t, hmem, htn⟩)
  have : (photonCounts (sector ts n)).length = 1 := by omega
  simp [needsSplit, this]

theorem splitByN_eq (mb : Member) :
    splitByN mb = (photonCounts mb.terms).map fun n =>
      ⟨mb.w * (svNorm2 (sector mb.terms n) / svNorm2 mb.terms), sector mb.terms n⟩ := rfl

theorem mem_splitByN (mb x : Member) (h : x ∈ splitByN mb) :
    ∃ n ∈ photonCounts mb.terms,
      x = ⟨mb.w * (svNorm2 (sector mb.terms n) / svNorm2 mb.terms), sector mb.terms n⟩ := by
  rw [splitByN_eq] at h
  obtain ⟨n, hn, rfl⟩ := List.mem_map.1 h
  exact ⟨n, hn, rfl⟩

/-! ### the split preserves the mixture -/

theorem mixAt_splitByN {m : ℕ} (U : Matrix (Fin m) (Fin m) GQ) (mb : Member) (t : Fock) :
    mixAt (probsSV U) (splitByN mb) t = mb.w * get (probsSV U mb.terms) t := by
  classical
  have hSall : ∀ K ∈ (mb.terms.flatMap (termAmps U)).map (·.1),
      K ∈ ((mb.terms.flatMap (termAmps U)).map (·.1)).toFinset := fun K hK => List.mem_toFinset.2 hK
  rw [splitByN_eq]
  unfold mixAt
  rw [List.map_map]
  calc ((photonCounts mb.terms).map _).sum
      = ((photonCounts mb.terms).map fun n => mb.w / svNorm2 mb.terms *
          rawW U ((mb.terms.flatMap (termAmps U)).map (·.1)).toFinset (sector mb.terms n) t).sum := by
        congr 1
        apply List.map_congr_left
        intro n _
        simp only [Function.comp_apply]
        rw [get_probsSV_raw U (sector mb.terms n) t _ (sector_keys_subset U mb.terms n)]
        exact sector_summand _ _ _ _ (rawW_of_svNorm2_zero U _ _ t)
    _ = mb.w / svNorm2 mb.terms *
          rawW U ((mb.terms.flatMap (termAmps U)).map (·.1)).toFinset mb.terms t := by
        rw [List.sum_map_mul_left, rawW_sectors]
    _ = _ := by
        rw [get_probsSV_raw U mb.terms t _ hSall]; ring

theorem mixAt_flatMap_splitByN {m : ℕ} (U : Matrix (Fin m) (Fin m) GQ) (l : List Member) (t : Fock) :
    mixAt (probsSV U) (l.flatMap splitByN) t = mixAt (probsSV U) l t := by
  induction l with
  | nil => rfl
  | cons x r ih => rw [List.flatMap_cons, mixAt_append, mixAt_splitByN, ih, mixAt_cons]

theorem sameKey_probsSV {m : ℕ} (U : Matrix (Fin m) (Fin m) GQ) (a b : Member)
    (h : sameKey a b = true) (t : Fock) :
    get (probsSV U a.terms) t = get (probsSV U b.terms) t := by
  unfold sameKey at h
  split at h
  · rename_i s u hs hu
    simp only [Bool.and_eq_true, beq_iff_eq, decide_eq_true_eq] at h
    obtain ⟨⟨hg, _⟩, hpos⟩ := h
    have hs0 : s.coef ≠ 0 := by
      intro e; rw [e] at hpos; simp at hpos
    have hu0 : u.coef ≠ 0 := by
      intro e; rw [e] at hpos; simp at hpos
    rw [hs, hu, probsSV_single' U s hs0, probsSV_single' U u hu0, hg]
  · cases h

theorem dict_accumulate_mix (f : List Term → D)
    (hf : ∀ a b : Member, sameKey a b = true → ∀ t, get (f a.terms) t = get (f b.terms) t)
    (d : List Member) (x : Member) (t : Fock) :
    mixAt f (partAdd d x).1 t = mixAt f d t + x.w * get (f x.terms) t := by
  induction d with
  | nil => simp [partAdd, mixAt]
  | cons y r ih =>
    by_cases h : sameKey y x = true
    · have := hf y x h t
      simp only [partAdd, h, if_true, mixAt_cons]
      rw [← this]; ring
    · simp only [partAdd, h, Bool.false_eq_true, if_false, mixAt_cons, ih]
      ring

theorem dict_accumulate_all_mix (f : List Term → D)
    (hf : ∀ a b : Member, sameKey a b = true → ∀ t, get (f a.terms) t = get (f b.terms) t)
    (d xs : List Member) (t : Fock) :
    mixAt f (partAddAll d xs) t = mixAt f d t + mixAt f xs t := by
  induction xs generalizing d with
  | nil => simp [partAddAll, mixAt]
  | cons x r ih =>
    have h := ih (partAdd d x).1
    simp only [partAddAll, List.foldl_cons] at h ⊢
    rw [h, dict_accumulate_mix f hf, mixAt_cons]
    ring

/-- the members `_preprocess_svd` keeps when some member has to be split (precision 0) -/
def keptSplit (t₁ : List Member) : List Member :=
  (partAddAll t₁ (partAddAll [] ((t₁.filter needsSplit).flatMap splitByN))).filter
    fun mb => !needsSplit mb && decide (0 < mb.w)

theorem preprocess_zero (ms : List Member) :
    preprocess 0 0 ms =
      if (ms.filter fun mb => decide (0 < mb.w)).any needsSplit then
        { kept := keptSplit (ms.filter fun mb => decide (0 < mb.w)), θ := 0,
          superposed := (keptSplit (ms.filter fun mb => decide (0 < mb.w))).any (·.terms.length > 1) }
      else
        { kept := ms.filter fun mb => decide (0 < mb.w), θ := 0,
          superposed := (ms.filter fun mb => decide (0 < mb.w)).any (·.terms.length > 1) } := by
  unfold preprocess keptSplit
  simp only [mul_zero, max_self, foldl_partAdd_max]

theorem split_parts_ok (t₁ : List Member) (hw : ∀ mb ∈ t₁, 0 ≤ mb.w) :
    ∀ x ∈ (t₁.filter needsSplit).flatMap splitByN, needsSplit x = false ∧ 0 ≤ x.w := by
  intro x hx
  obtain ⟨mb, hmb, hx⟩ := List.mem_flatMap.1 hx
  obtain ⟨n, hn, rfl⟩ := mem_splitByN mb x hx
  refine ⟨needsSplit_sector mb.terms n hn _, ?_⟩
  exact mul_nonneg (hw mb (List.mem_of_mem_filter hmb))
    (div_nonneg (svNorm2_nonneg _) (svNorm2_nonneg _))

theorem keptSplit_mixture {m : ℕ} (U : Matrix (Fin m) (Fin m) GQ) (t₁ : List Member)
    (hw : ∀ mb ∈ t₁, 0 ≤ mb.w) (t : Fock) :
    mixAt (probsSV U) (keptSplit t₁) t = mixAt (probsSV U) t₁ t := by
  have hf := sameKey_probsSV U
  have hX := split_parts_ok t₁ hw
  set X := (t₁.filter needsSplit).flatMap splitByN with hXdef
  have hA : ∀ z ∈ partAddAll [] X, needsSplit z = false ∧ 0 ≤ z.w := by
    apply partAddAll_forall (fun z => needsSplit z = false ∧ 0 ≤ z.w) X [] (by simp) hX
    intro x hx y hy _
    exact ⟨hy.1, add_nonneg hy.2 (hX x hx).2⟩
  have hAcc : ∀ z ∈ partAddAll t₁ (partAddAll [] X), 0 ≤ z.w := by
    apply partAddAll_forall (fun z => 0 ≤ z.w) _ t₁ hw (fun x hx => (hA x hx).2)
    intro x hx y hy _
    exact add_nonneg hy (hA x hx).2
  have hmixA : mixAt (probsSV U) (partAddAll [] X) t = mixAt (probsSV U) (t₁.filter needsSplit) t := by
    rw [dict_accumulate_all_mix (probsSV U) hf, mixAt_nil, zero_add, hXdef, mixAt_flatMap_splitByN]
  have hmixAcc : mixAt (probsSV U) (partAddAll t₁ (partAddAll [] X)) t =
      mixAt (probsSV U) t₁ t + mixAt (probsSV U) (t₁.filter needsSplit) t := by
    rw [dict_accumulate_all_mix (probsSV U) hf, hmixA]
  have hns : (partAddAll t₁ (partAddAll [] X)).filter needsSplit = t₁.filter needsSplit :=
    partAddAll_filter_needsSplit _ _ fun x hx => (hA x hx).1
  have hk : keptSplit t₁ = ((partAddAll t₁ (partAddAll [] X)).filter fun x => !needsSplit x).filter
      fun mb => decide (0 < mb.w) := by
    unfold keptSplit
    rw [List.filter_filter]
    apply List.filter_congr
    intro x _
    rw [Bool.and_comm]
  rw [hk, mixAt_filter_pos _ _ (fun mb h => hAcc mb (List.mem_of_mem_filter h))]
  have := mixAt_filter_add (probsSV U) needsSplit (partAddAll t₁ (partAddAll [] X)) t
  rw [hns, hmixAcc] at this
  linarith

/-- well-formed terms: non-zero coefficients, `m`-mode groups -/
def TermsOK (m : ℕ) (mb : Member) : Prop :=
  ∀ t ∈ mb.terms, t.coef ≠ 0 ∧ ∀ s ∈ t.groups, s.length = m

theorem keptSplit_ok (m : ℕ) (t₁ : List Member) (h : ∀ mb ∈ t₁, TermsOK m mb) :
    ∀ mb ∈ keptSplit t₁, TermsOK m mb := by
  intro mb hmb
  have hX : ∀ x ∈ (t₁.filter needsSplit).flatMap splitByN, TermsOK m x := by
    intro x hx
    obtain ⟨y, hy, hx⟩ := List.mem_flatMap.1 hx
    obtain ⟨n, _, rfl⟩ := mem_splitByN y x hx
    intro t ht
    exact h y (List.mem_of_mem_filter hy) t (List.mem_of_mem_filter ht)
  have hA : ∀ z ∈ partAddAll [] ((t₁.filter needsSplit).flatMap splitByN), TermsOK m z :=
    partAddAll_forall (TermsOK m) _ [] (by simp) hX (fun _ _ _ hy _ => hy)
  exact partAddAll_forall (TermsOK m) _ t₁ h hA (fun _ _ _ hy _ => hy) mb (List.mem_of_mem_filter hmb)

end PM.C03
