/-
  C18 — helper lemmas for the access-level model of the asynchronous run (`Model/C18Race.lean`).
-/
import PercevalModel.Model.C18Race
import PercevalModel.Lemmas.C18

namespace PM.C18
open PM.SM

/-- the outcome that is already decided at a program counter of the worker (the cancel flag has been read, or
the exception has been caught) -/
def WPc.fate : WPc → Option Outcome
  | .stop1 r c => some (.returned r c)
  | .stop2 r => some (.returned r false)
  | .stop3 r c => some (.returned r c)
  | .exc1 c t => some (.raised c t)
  | .exc2 c t => some (.raised c t)
  | .exiting o => some o
  | .dead o => some o
  | _ => none

/-- the job holds the task's value `r`, untouched or converted exactly once with the job's mapping arguments -/
def RHolds (r : Ret) (s : RState) : Prop :=
  s.results = r ∨ (s.mapPending = false ∧ convertRet s.mapping r = some s.results)

/-- shared memory as a function of the worker's program counter (code with the fix: the caller never writes
status, message or progress) -/
def wShape (s : RState) : Prop :=
  match s.wpc with
  | .stop2 _ => s.st = .success ∧ s.msg = .none ∧ s.alive = true ∧ s.started = true
  | .stop3 _ c => s.st = (if c then .canceled else .success) ∧ s.msg = .none ∧ s.alive = true ∧ s.started = true ∧
      (c = false → s.prog = 8)
  | .exc2 _ _ => s.st = .error ∧ s.msg = .none ∧ s.alive = true ∧ s.started = true
  | .exiting o => s.st = o.st ∧ s.msg = o.msg ∧ s.alive = true ∧ s.started = true ∧ (o.st = .success → s.prog = 8)
  | .dead o => s.st = o.st ∧ s.msg = o.msg ∧ s.alive = false ∧ s.started = true ∧ (o.st = .success → s.prog = 8)
  | _ => s.st = (if s.started then .running else .waiting) ∧ s.msg = .none ∧ s.alive = s.started

/-- what the caller's program counter knows -/
def cShape (s : RState) : Prop :=
  match s.cpc with
  | .prop0 _ => s.started = true
  | .prop1 _ => ∃ o, s.wpc = .dead o
  | .rep1 _ | .rep2 _ | .rep3 _ => False
  | .obs2 a => a.isFinal = true → ∃ o, s.wpc.fate = some o ∧ a = o.st ∧ s.wpc.preFinal = false
  | .obs3 a m => (a.isFinal = true → ∃ o, s.wpc.fate = some o ∧ a = o.st ∧ s.wpc.preFinal = false) ∧
      (m = .none ∨ ∃ o, s.wpc.fate = some o ∧ m = o.msg ∧ s.wpc.preFinal = false)
  | .get2 | .get3 | .get5 | .get6 => s.wpc.preFinal = false ∧ s.started = true
  | _ => True

def resShape (s : RState) : Prop :=
  (∀ r, s.wpc = .ret2 r → RHolds r s) ∧ (∀ r c, s.wpc.fate = some (.returned r c) → RHolds r s)

def RInv (s : RState) : Prop :=
  wShape s ∧ cShape s ∧ (s.started = false → s.wpc = .entry) ∧
  (∀ r, s.wpc.fate = some (.returned r true) → s.cancelReq = true) ∧ resShape s

theorem rinv_init (cfg : Cfg) : RInv (rinit cfg) := by
  simp [RInv, rinit, wShape, cShape, resShape, WPc.fate]

theorem Outcome.st_isFinal (o : Outcome) : o.st.isFinal = true := by
  rcases o with ⟨r, c⟩ | ⟨c, t⟩
  · cases c <;> rfl
  · rfl

theorem Outcome.st_ne_waiting (o : Outcome) : o.st ≠ .waiting := by
  intro h; have := o.st_isFinal; rw [h] at this; simp [St.isFinal] at this

theorem Outcome.st_ne_running (o : Outcome) : o.st ≠ .running := by
  intro h; have := o.st_isFinal; rw [h] at this; simp [St.isFinal] at this

theorem st_of_started {s : RState} (h : wShape s) (hs : s.started = true) : s.st ≠ .waiting := by
  unfold wShape at h
  split at h
  · simp [h.1]
  · rw [h.1]; split <;> simp
  · simp [h.1]
  · rw [h.1]; exact Outcome.st_ne_waiting _
  · rw [h.1]; exact Outcome.st_ne_waiting _
  · simp [h.1, hs]

/-- the caller's knowledge survives whatever leaves its program counter alone and only moves the worker forward -/
theorem cShape_mono {s s' : RState} (h : cShape s) (hc : s'.cpc = s.cpc) (hs : s.started = true → s'.started = true)
    (hf : ∀ o, s.wpc.fate = some o → s'.wpc.fate = some o)
    (hp : s.wpc.preFinal = false → s'.wpc.preFinal = false)
    (hd : ∀ o, s.wpc = .dead o → s'.wpc = .dead o) : cShape s' := by
  unfold cShape at *
  rw [hc]
  split at h
  · exact hs h
  · obtain ⟨o, ho⟩ := h; exact ⟨o, hd o ho⟩
  · exact h
  · exact h
  · exact h
  · intro ha; obtain ⟨o, h1, h2, h3⟩ := h ha; exact ⟨o, hf o h1, h2, hp h3⟩
  · refine ⟨fun ha => ?_, ?_⟩
    · obtain ⟨o, h1, h2, h3⟩ := h.1 ha; exact ⟨o, hf o h1, h2, hp h3⟩
    · rcases h.2 with h | ⟨o, h1, h2, h3⟩
      · exact Or.inl h
      · exact Or.inr ⟨o, hf o h1, h2, hp h3⟩
  · exact ⟨hp h.1, hs h.2⟩
  · exact ⟨hp h.1, hs h.2⟩
  · exact ⟨hp h.1, hs h.2⟩
  · exact ⟨hp h.1, hs h.2⟩
  · trivial

theorem rinv_worker (s : RState) (h : RInv s) : RInv (workerStep s).1 := by
  obtain ⟨hw, hc, h0, hcr, hres⟩ := h
  unfold workerStep
  split
  next hsa =>
    simp only [Bool.and_eq_true] at hsa
    obtain ⟨hst, hal⟩ := hsa
    split
    all_goals (rename_i hpc)
    all_goals (try split)
    all_goals refine ⟨?_, ?_, ?_, ?_, ?_⟩
    all_goals first
      | (simp only [wShape, hpc] at hw ⊢; simp_all [Outcome.st, Outcome.msg]; done)
      | (refine cShape_mono hc rfl (fun h => h) ?_ ?_ ?_ <;> simp [hpc, WPc.fate, WPc.preFinal]; done)
      | (refine cShape_mono hc rfl (fun h => h) ?_ ?_ ?_ <;> simp [hpc, WPc.fate, WPc.preFinal] <;> split <;> simp [WPc.fate, WPc.preFinal, *]; done)
      | (refine cShape_mono hc rfl (fun h => h) ?_ ?_ ?_ <;> simp_all [WPc.fate, WPc.preFinal]; done)
      | (intro hh; simp_all; done)
      | (simp_all [WPc.fate]; done)
      | (simp only [resShape, RHolds, hpc, WPc.fate] at hres ⊢; simp_all; done)
  next => exact ⟨hw, hc, h0, hcr, hres⟩

theorem rinv_task (s : RState) (e : TEv) (h : RInv s) : RInv (taskStep s e).1 := by
  obtain ⟨hw, hc, h0, hcr, hres⟩ := h
  unfold taskStep
  split
  next hsa =>
    simp only [Bool.and_eq_true, decide_eq_true_eq] at hsa
    obtain ⟨⟨hst, hal⟩, hpc⟩ := hsa
    cases e
    all_goals refine ⟨?_, ?_, ?_, ?_, ?_⟩
    all_goals first
      | (simp only [wShape, hpc] at hw ⊢; simp_all; done)
      | (refine cShape_mono hc rfl (fun h => h) ?_ ?_ ?_ <;> simp [hpc, WPc.fate, WPc.preFinal]; done)
      | (intro hh; simp_all; done)
      | (simp_all [WPc.fate]; done)
      | (simp only [resShape, RHolds, hpc, WPc.fate] at hres ⊢; simp_all; done)
  next => exact ⟨hw, hc, h0, hcr, hres⟩

theorem wShape_final {s : RState} (h : wShape s) (hf : s.st.isFinal = true) :
    ∃ o, s.wpc.fate = some o ∧ s.st = o.st ∧ s.wpc.preFinal = false ∧ s.started = true := by
  unfold wShape at h
  split at h
  · rename_i r hpc; exact ⟨.returned r false, by simp [hpc, WPc.fate], by simp [h.1, Outcome.st], by simp [hpc, WPc.preFinal], h.2.2.2⟩
  · rename_i r c hpc; exact ⟨.returned r c, by simp [hpc, WPc.fate], by rw [h.1]; cases c <;> simp [Outcome.st], by simp [hpc, WPc.preFinal], h.2.2.2.1⟩
  · rename_i c t hpc; exact ⟨.raised c t, by simp [hpc, WPc.fate], by simp [h.1, Outcome.st], by simp [hpc, WPc.preFinal], h.2.2.2⟩
  · rename_i o hpc; exact ⟨o, by simp [hpc, WPc.fate], h.1, by simp [hpc, WPc.preFinal], h.2.2.2.1⟩
  · rename_i o hpc; exact ⟨o, by simp [hpc, WPc.fate], h.1, by simp [hpc, WPc.preFinal], h.2.2.2.1⟩
  · rw [h.1] at hf; split at hf <;> simp [St.isFinal] at hf

theorem wShape_msg {s : RState} (h : wShape s) :
    s.msg = .none ∨ ∃ o, s.wpc.fate = some o ∧ s.msg = o.msg ∧ s.wpc.preFinal = false := by
  unfold wShape at h
  split at h
  · exact Or.inl h.2.1
  · exact Or.inl h.2.1
  · exact Or.inl h.2.1
  · rename_i o hpc; exact Or.inr ⟨o, by simp [hpc, WPc.fate], h.2.1, by simp [hpc, WPc.preFinal]⟩
  · rename_i o hpc; exact Or.inr ⟨o, by simp [hpc, WPc.fate], h.2.1, by simp [hpc, WPc.preFinal]⟩
  · exact Or.inl h.2.1

theorem wShape_dead {s : RState} (h : wShape s) (hs : s.started = true) (ha : s.alive = false) :
    ∃ o, s.wpc = .dead o := by
  unfold wShape at h
  split at h
  · simp [ha] at h
  · simp [ha] at h
  · simp [ha] at h
  · simp [ha] at h
  · rename_i o hpc; exact ⟨o, hpc⟩
  · simp [ha, hs] at h

theorem rinv_caller (s : RState) (h : RInv s) : RInv (callerStep true s).1 := by
  obtain ⟨hw, hc, h0, hcr, hres⟩ := h
  unfold callerStep
  split
  all_goals rename_i hpc
  · exact ⟨hw, hc, h0, hcr, hres⟩
  · -- prop0: R alive
    rename_i k
    have hst : s.started = true := by simpa [cShape, hpc] using hc
    simp only [↓reduceIte]
    split
    · refine ⟨hw, ?_, h0, hcr, hres⟩
      cases k <;> simp [cShape, propDone]
    · rename_i hal
      refine ⟨hw, ?_, h0, hcr, hres⟩
      obtain ⟨o, ho⟩ := wShape_dead hw hst (by simpa using hal)
      simp [cShape, ho]
  · -- prop1: R _status, the worker is dead
    rename_i k
    obtain ⟨o, ho⟩ : ∃ o, s.wpc = .dead o := by simpa [cShape, hpc] using hc
    have hs : s.st = o.st := by have := hw; simp only [wShape, ho] at this; exact this.1
    simp only [↓reduceIte]
    split
    · rename_i hr; rw [hs] at hr; exact absurd hr (Outcome.st_ne_running o)
    · refine ⟨hw, ?_, h0, hcr, hres⟩
      cases k <;> simp [cShape, propDone]
  · simp [cShape, hpc] at hc
  · simp [cShape, hpc] at hc
  · simp [cShape, hpc] at hc
  · -- obs1
    refine ⟨hw, ?_, h0, hcr, hres⟩
    simp only [cShape]
    intro hf
    obtain ⟨o, h1, h2, h3, _⟩ := wShape_final hw hf
    exact ⟨o, h1, h2, h3⟩
  · -- obs2
    rename_i a
    refine ⟨hw, ?_, h0, hcr, hres⟩
    have := hc; simp only [cShape, hpc] at this
    simp only [cShape]
    exact ⟨this, wShape_msg hw⟩
  · refine ⟨hw, ?_, h0, hcr, hres⟩; simp [cShape]
  · -- get1
    split
    · rename_i hf
      refine ⟨hw, ?_, h0, hcr, hres⟩
      obtain ⟨o, h1, h2, h3, h4⟩ := wShape_final hw hf
      simp only [cShape]; exact ⟨h3, h4⟩
    · refine ⟨hw, ?_, h0, hcr, hres⟩; simp [cShape]
  · refine ⟨hw, ?_, h0, hcr, hres⟩
    have := hc; simp only [cShape, hpc] at this
    simp only [cShape]; exact this
  · -- get3: the conversion
    have hk := hc; simp only [cShape, hpc] at hk
    split
    · rename_i hmp
      split
      · rename_i r hcv
        refine ⟨hw, by simp [cShape], h0, hcr, ?_⟩
        have hres' := hres
        obtain ⟨hr1, hr2⟩ := hres'
        have key : ∀ r0, RHolds r0 s → RHolds r0 { s with results := r, mapPending := false, cpc := .idle } := by
          intro r0 hh
          rcases hh with hh | hh
          · right; exact ⟨rfl, by simpa [hh] using hcv⟩
          · rw [hmp] at hh; simp at hh
        exact ⟨fun r0 h => key r0 (hr1 r0 h), fun r0 c h => key r0 (hr2 r0 c h)⟩
      · refine ⟨hw, ?_, h0, hcr, hres⟩
        simp only [cShape]; exact hk
    · refine ⟨hw, by simp [cShape], h0, hcr, hres⟩
  · split
    · refine ⟨hw, ?_, h0, hcr, hres⟩
      have := hc; simp only [cShape, hpc] at this
      simp only [cShape]; exact this
    · refine ⟨hw, by simp [cShape], h0, hcr, hres⟩
  · refine ⟨hw, by simp [cShape], h0, hcr, hres⟩
  · refine ⟨hw, by simp [cShape], h0, fun _ _ => rfl, hres⟩

theorem rinv_exec (cfg : Cfg) (s : RState) (c : Call) (hi : s.cpc = .idle) (h : RInv s) : RInv (rexec cfg s c).1 := by
  obtain ⟨hw, hc, h0, hcr, hres⟩ := h
  unfold rexec
  split
  · exact ⟨hw, hc, h0, hcr, hres⟩
  · rename_i hwt
    have hwt : s.st = .waiting := by simpa using hwt
    have hns : s.started = false := by
      cases hs : s.started
      · rfl
      · exact absurd hwt (st_of_started hw hs)
    have hpc := h0 hns
    have hm : s.msg = .none := by have := hw; simp only [wShape, hpc] at this; exact this.2.1
    split
    · refine ⟨?_, ?_, ?_, ?_, ?_⟩
      · have := hw; simp only [wShape, hpc] at this ⊢; exact this
      · simp [cShape, hi]
      · intro _; exact hpc
      · intro r hr; simp [hpc, WPc.fate] at hr
      · refine ⟨fun r hr => ?_, fun r c hr => ?_⟩ <;> simp [hpc, WPc.fate] at hr
    · refine ⟨?_, ?_, ?_, ?_, ?_⟩
      · simp [wShape, hm]
      · simp [cShape, hi]
      · intro hh; simp at hh
      · intro r hr; simp [WPc.fate] at hr
      · refine ⟨fun r hr => ?_, fun r c hr => ?_⟩ <;> simp [WPc.fate] at hr

theorem rinv_step (cfg : Cfg) (s : RState) (e : REv) (h : RInv s) : RInv (rstep true cfg s e).1 := by
  cases e with
  | exec c =>
    simp only [rstep]
    split
    · rename_i hi; exact rinv_exec cfg s c hi h
    · exact h
  | «begin» a =>
    simp only [rstep]
    split
    · rename_i hi
      obtain ⟨hw, hc, h0, hcr, hres⟩ := h
      cases a
      · refine ⟨hw, ?_, h0, hcr, hres⟩
        simp only [propStart]
        cases hs : s.started <;> simp [cShape, propDone, hs]
      · exact ⟨hw, by simp [cShape], h0, hcr, hres⟩
      · refine ⟨hw, ?_, h0, hcr, hres⟩
        simp only [propStart]
        cases hs : s.started <;> simp [cShape, propDone, hs]
    · exact h
  | c => exact rinv_caller s h
  | w => exact rinv_worker s h
  | task e => exact rinv_task s e h

/-- every state a schedule reaches (code with the fix) satisfies the invariant -/
theorem rinv_after (cfg : Cfg) (w : List REv) : RInv (rafter true cfg w) :=
  inv_exec (rstep true cfg) RInv (rinv_step cfg) _ (rinv_init cfg) w

/-- once the outcome is decided at the worker, no step of anybody changes it -/
theorem fate_step (cfg : Cfg) (s : RState) (e : REv) (h : RInv s) (o : Outcome) (hf : s.wpc.fate = some o) :
    (rstep true cfg s e).1.wpc.fate = some o := by
  have hstd : s.started = true := by
    cases hs : s.started
    · rw [h.2.2.1 hs] at hf; simp [WPc.fate] at hf
    · rfl
  cases e with
  | exec c =>
    simp only [rstep]
    split
    · unfold rexec
      rw [if_pos (st_of_started h.1 hstd)]; exact hf
    · exact hf
  | «begin» a =>
    simp only [rstep]
    split
    · cases a <;> exact hf
    · exact hf
  | c =>
    have : (callerStep true s).1.wpc = s.wpc := by
      unfold callerStep
      repeat' split
      all_goals rfl
    simp only [rstep, this, hf]
  | w =>
    simp only [rstep]
    unfold workerStep
    split
    · split
      all_goals (rename_i hpc; rw [hpc] at hf; simp only [WPc.fate] at hf ⊢)
      all_goals first
        | exact hf
        | (simp at hf; done)
        | (rename_i c; cases c <;> simp_all [WPc.fate]; done)
        | (simp_all [WPc.fate]; done)
    · exact hf
  | task e =>
    simp only [rstep]
    unfold taskStep
    split
    · rename_i hsa
      simp only [Bool.and_eq_true, decide_eq_true_eq] at hsa
      rw [hsa.2] at hf; simp [WPc.fate] at hf
    · exact hf

theorem fate_exec (cfg : Cfg) (w : List REv) (s : RState) (h : RInv s) (o : Outcome) (hf : s.wpc.fate = some o) :
    (exec (rstep true cfg) s w).wpc.fate = some o ∧ RInv (exec (rstep true cfg) s w) := by
  induction w generalizing s with
  | nil => exact ⟨hf, h⟩
  | cons e w ih => rw [exec_cons]; exact ih _ (rinv_step cfg s e h) (fate_step cfg s e h o hf)

/-- the task has returned `r` while the cancel flag was set: the worker is on its way to CANCELED -/
def CancelledRet (r : Ret) (s : RState) : Prop :=
  (s.cancelReq = true ∧ (s.wpc = .ret1 r ∨ s.wpc = .ret2 r)) ∨ s.wpc.fate = some (.returned r true)

theorem caller_frame (fixed : Bool) (s : RState) :
    (callerStep fixed s).1.wpc = s.wpc ∧ (s.cancelReq = true → (callerStep fixed s).1.cancelReq = true) := by
  unfold callerStep
  repeat' split
  all_goals simp

theorem cancelledRet_step (cfg : Cfg) (r : Ret) (s : RState) (e : REv) (h : RInv s) (hc : CancelledRet r s) :
    CancelledRet r (rstep true cfg s e).1 := by
  rcases hc with ⟨hcr, hpc⟩ | hf
  · have hstd : s.started = true := by
      cases hs : s.started
      · rw [h.2.2.1 hs] at hpc; simp at hpc
      · rfl
    cases e with
    | exec c =>
      simp only [rstep]
      split
      · unfold rexec
        rw [if_pos (st_of_started h.1 hstd)]; exact Or.inl ⟨hcr, hpc⟩
      · exact Or.inl ⟨hcr, hpc⟩
    | «begin» a =>
      simp only [rstep]
      split
      · cases a <;> exact Or.inl ⟨hcr, hpc⟩
      · exact Or.inl ⟨hcr, hpc⟩
    | c =>
      obtain ⟨h1, h2⟩ := caller_frame true s
      simp only [rstep]
      exact Or.inl ⟨h2 hcr, by rw [h1]; exact hpc⟩
    | w =>
      simp only [rstep]
      unfold workerStep
      split
      · rcases hpc with hpc | hpc
        · rw [hpc]; exact Or.inl ⟨hcr, Or.inr rfl⟩
        · rw [hpc]; right; simp [WPc.fate, hcr]
      · exact Or.inl ⟨hcr, hpc⟩
    | task e =>
      simp only [rstep]
      unfold taskStep
      split
      · rename_i hsa
        simp only [Bool.and_eq_true, decide_eq_true_eq] at hsa
        rw [hsa.2] at hpc; simp at hpc
      · exact Or.inl ⟨hcr, hpc⟩
  · exact Or.inr (fate_step cfg s e h _ hf)

theorem cancelledRet_exec (cfg : Cfg) (r : Ret) (w : List REv) (s : RState) (h : RInv s) (hc : CancelledRet r s) :
    CancelledRet r (exec (rstep true cfg) s w) ∧ RInv (exec (rstep true cfg) s w) := by
  induction w generalizing s with
  | nil => exact ⟨hc, h⟩
  | cons e w ih => rw [exec_cons]; exact ih _ (rinv_step cfg s e h) (cancelledRet_step cfg r s e h hc)

/-- a property of the worker's program counter that holds neither before the task nor inside it and is kept by the
worker's own steps is kept by every step of every thread -/
theorem wpc_pred_step (cfg : Cfg) (P : WPc → Prop) (hen : ¬ P .entry) (hin : ¬ P .inTask)
    (hw : ∀ s : RState, P s.wpc → P (workerStep s).1.wpc) (s : RState) (e : REv) (h : RInv s) (hp : P s.wpc) :
    P (rstep true cfg s e).1.wpc := by
  have hstd : s.started = true := by
    cases hs : s.started
    · rw [h.2.2.1 hs] at hp; exact absurd hp hen
    · rfl
  cases e with
  | exec c =>
    simp only [rstep]
    split
    · unfold rexec
      rw [if_pos (st_of_started h.1 hstd)]; exact hp
    · exact hp
  | «begin» a =>
    simp only [rstep]
    split
    · cases a <;> exact hp
    · exact hp
  | c => simp only [rstep]; rw [(caller_frame true s).1]; exact hp
  | w => exact hw s hp
  | task e =>
    simp only [rstep]
    unfold taskStep
    split
    · rename_i hsa
      simp only [Bool.and_eq_true, decide_eq_true_eq] at hsa
      rw [hsa.2] at hp; exact absurd hp hin
    · exact hp

theorem wpc_pred_exec (cfg : Cfg) (P : WPc → Prop) (hen : ¬ P .entry) (hin : ¬ P .inTask)
    (hw : ∀ s : RState, P s.wpc → P (workerStep s).1.wpc) (w : List REv) (s : RState) (h : RInv s) (hp : P s.wpc) :
    P (exec (rstep true cfg) s w).wpc := by
  induction w generalizing s with
  | nil => exact hp
  | cons e w ih => rw [exec_cons]; exact ih _ (rinv_step cfg s e h) (wpc_pred_step cfg P hen hin hw s e h hp)

theorem dead_exec (cfg : Cfg) (o : Outcome) (w : List REv) (s : RState) (h : RInv s) (hp : s.wpc = .dead o) :
    (exec (rstep true cfg) s w).wpc = .dead o := by
  refine wpc_pred_exec cfg (fun pc => pc = .dead o) (by simp) (by simp) ?_ w s h hp
  intro s hp
  simp only [workerStep, hp]
  split <;> exact hp

theorem notPreFinal_exec (cfg : Cfg) (w : List REv) (s : RState) (h : RInv s) (hp : s.wpc.preFinal = false) :
    (exec (rstep true cfg) s w).wpc.preFinal = false := by
  refine wpc_pred_exec cfg (fun pc => pc.preFinal = false) (by simp [WPc.preFinal]) (by simp [WPc.preFinal]) ?_ w s h hp
  intro s hp
  unfold workerStep
  split
  · split
    all_goals (rename_i hpc; rw [hpc] at hp; simp only [WPc.preFinal] at hp ⊢)
    all_goals try first | exact hp | (simp at hp; done) | rfl | (rw [hpc]; rfl) | (simp [hpc]; done)
  · exact hp

theorem wShape_st_of_fate {s : RState} {o : Outcome} (hw : wShape s) (hf : s.wpc.fate = some o)
    (hp : s.wpc.preFinal = false) : s.st = o.st := by
  unfold wShape at hw
  cases hpc : s.wpc
  all_goals (rw [hpc] at hf hp; simp only [hpc] at hw)
  all_goals try (simp [WPc.preFinal] at hp; done)
  all_goals (simp only [WPc.fate, Option.some.injEq] at hf; subst hf)
  · simp [hw.1, Outcome.st]
  · rename_i r c; cases c <;> simp [hw.1, Outcome.st]
  · simp [hw.1, Outcome.st]
  · exact hw.1
  · exact hw.1

end PM.C18
