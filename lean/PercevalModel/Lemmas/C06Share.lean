/-
  C06 — support reasoning for the link `oneTag` ↔ `allCommon` ("two photons share a tag" versus "both carry
  the common tag"): a generic propagation of a graded class of photon lists through the two tensor products
  of `generate_distribution` (any threshold), instantiated with
    * the kind of the annotations (all photons annotated when the source is partially distinguishable, none
      otherwise — a mixture never mixes `_:0` with unannotated photons),
    * the photon number for a source that loses nothing and emits exactly one photon per request.
  No probabilities.
-/
import PercevalModel.Lemmas.C06Fresh
import PercevalModel.Lemmas.C06Anon
import PercevalModel.Model.C06Samp

namespace PM.C06

/-- a family of classes of photon lists, graded by the number of requested photons, closed under the
operations of the tensor products (start state, union of two modes / concatenation of modes, re-sorting) -/
structure Graded (Q : ℕ → Mode → Prop) : Prop where
  nil : Q 0 []
  append : ∀ {a b : ℕ} {s e : Mode}, Q a s → Q b e → Q (a + b) (s ++ e)
  perm : ∀ {a : ℕ} {m m' : Mode}, m.Perm m' → Q a m → Q a m'

theorem Graded.merge {Q : ℕ → Mode → Prop} (hQ : Graded Q) {a b : ℕ} {s e : Mode} (hs : Q a s)
    (he : Q b e) : Q (a + b) (mergeTags e s) :=
  hQ.perm ((List.perm_append_comm).trans (List.mergeSort_perm (e ++ s) _).symm) (hQ.append hs he)

section graded
variable {Q : ℕ → Mode → Prop} (hQ : Graded Q) (P : Params) (θ : ℚ)
include hQ

theorem dfs_mode_graded (h1 : ∀ t, ∀ x ∈ onePhoton P t, Q 1 x.1) (n : ℕ) :
    ∀ (t : ℕ) (s : Mode) (p : ℚ) (a : ℕ), Q a s →
      ∀ x ∈ dfs θ (fun s e => mergeTags e s) ((photonDists P n t).map (trim θ)) s p, Q (a + n) x.1 := by
  induction n with
  | zero =>
    intro t s p a hs x hx
    simp only [photonDists, List.map_nil, dfs, List.mem_singleton] at hx
    subst hx
    exact hs
  | succ n ih =>
    intro t s p a hs x hx
    simp only [photonDists, List.map_cons, dfs, List.mem_flatMap] at hx
    obtain ⟨e, he, hx⟩ := hx
    split at hx
    · simp at hx
    · have hm : Q (a + 1) (mergeTags e.1 s) := hQ.merge hs (h1 t e (mem_trim he))
      have h := ih (nextTag P t) _ _ (a + 1) hm x hx
      have e1 : a + 1 + n = a + (n + 1) := by omega
      rw [e1] at h
      exact h

theorem probDist_graded (h1 : ∀ t, ∀ x ∈ onePhoton P t, Q 1 x.1)
    (h0 : ∀ n, shortcut P n = true → Q n (List.replicate n none)) (n t : ℕ) :
    ∀ x ∈ probDist P θ n t, Q n x.1 := by
  intro x hx
  unfold probDist at hx
  by_cases hs : shortcut P n = true
  · simp only [hs, if_true, List.mem_singleton] at hx
    subst hx
    exact h0 n hs
  · simp only [hs, Bool.false_eq_true, if_false] at hx
    match n, hx with
    | 0, hx => simp [photonDists, ltpMode] at hx
    | 1, hx =>
      simp only [photonDists, ltpMode] at hx
      exact h1 t x hx
    | n + 2, hx =>
      simp only [photonDists, ltpMode] at hx
      split at hx
      · simp at hx
      · obtain ⟨y, hy, hk⟩ := mem_accum_key _ x hx
        rw [← hk]
        have h := dfs_mode_graded hQ P θ h1 (n + 2) t [] 1 0 hQ.nil y hy
        rw [Nat.zero_add] at h
        exact h

theorem dfs_state_graded (h1 : ∀ t, ∀ x ∈ onePhoton P t, Q 1 x.1)
    (h0 : ∀ n, shortcut P n = true → Q n (List.replicate n none)) (ns : List ℕ) :
    ∀ (t : ℕ) (s : State) (p : ℚ) (a : ℕ), Q a s.flatten →
      ∀ x ∈ dfs θ (fun s e => s ++ e) (((modeDists P θ ns t).map lift).map (trim θ)) s p,
        Q (a + ns.sum) x.1.flatten := by
  induction ns with
  | nil =>
    intro t s p a hs x hx
    simp only [modeDists, List.map_nil, dfs, List.mem_singleton] at hx
    subst hx
    exact hs
  | cons n ns ih =>
    intro t s p a hs x hx
    simp only [modeDists, List.map_cons, dfs, List.mem_flatMap] at hx
    obtain ⟨e, he, hx⟩ := hx
    split at hx
    · simp at hx
    · have he' := mem_trim he
      simp only [lift, List.mem_map] at he'
      obtain ⟨y, hy, rfl⟩ := he'
      have hi := probDist_graded hQ P θ h1 h0 n t y hy
      have hm : Q (a + n) (s ++ [y.1]).flatten := by
        simp only [List.flatten_append, List.flatten_cons, List.flatten_nil, List.append_nil]
        exact hQ.append hs hi
      have h := ih (probDistTag P n t) _ _ (a + n) hm x hx
      have e1 : a + n + ns.sum = a + (n :: ns).sum := by simp only [List.sum_cons]; omega
      rw [e1] at h
      exact h

theorem generateRaw_graded (h1 : ∀ t, ∀ x ∈ onePhoton P t, Q 1 x.1)
    (h0 : ∀ n, shortcut P n = true → Q n (List.replicate n none)) (ns : List ℕ) (t : ℕ) :
    ∀ x ∈ generateRaw P θ ns t, Q ns.sum x.1.flatten := by
  intro x hx
  unfold generateRaw at hx
  match ns, hx with
  | [], hx => simp [modeDists, ltpState] at hx
  | [n], hx =>
    simp only [modeDists, List.map_cons, List.map_nil, ltpState, lift, List.mem_map] at hx
    obtain ⟨y, hy, rfl⟩ := hx
    have h := probDist_graded hQ P θ h1 h0 n t y hy
    simpa using h
  | n₁ :: n₂ :: ns, hx =>
    have hx' : x ∈ dfs θ (fun s e => s ++ e)
        (((modeDists P θ (n₁ :: n₂ :: ns) t).map lift).map (trim θ)) [] 1 := by
      simpa only [modeDists, List.map_cons, ltpState] using hx
    have h := dfs_state_graded hQ P θ h1 h0 _ t [] 1 0 (by simpa using hQ.nil) x hx'
    rw [Nat.zero_add] at h
    exact h

/-- every state of the mixture `generate_distribution` returns (any threshold) lies in the class of its
number of requested photons -/
theorem generateAt_graded (h1 : ∀ t, ∀ x ∈ onePhoton P t, Q 1 x.1)
    (h0 : ∀ n, shortcut P n = true → Q n (List.replicate n none)) (ns : List ℕ) (t : ℕ) :
    ∀ x ∈ generateAt P θ ns t, Q ns.sum x.1.flatten := by
  intro x hx
  obtain ⟨y, hy, hk⟩ := mem_normalize_key _ x hx
  rw [← hk]
  exact generateRaw_graded hQ P θ h1 h0 ns t y hy

end graded

/-! ### instance 1: the kind of the annotations -/

theorem kindGraded (c : Bool) : Graded fun _ m => ∀ tg ∈ m, tg.isSome = c where
  nil := fun _ h => by simp at h
  append := fun hs he tg h => by
    rcases List.mem_append.mp h with h | h
    · exact hs tg h
    · exact he tg h
  perm := fun hp h tg ht => h tg (hp.mem_iff.mpr ht)

theorem onePhoton_kind (P : Params) (t : ℕ) :
    ∀ x ∈ onePhoton P t, ∀ tg ∈ x.1, tg.isSome = partDist P := by
  intro x hx
  have hx' : x ∈ onePhotonRaw P t := (List.mem_filter.mp hx).1
  unfold onePhotonRaw at hx'
  by_cases hpd : partDist P = true <;> by_cases hdm : P.dm = true <;>
    simp only [hpd, hdm, if_true, if_false, Bool.false_eq_true, List.cons_append, List.nil_append,
      List.mem_cons, List.not_mem_nil, or_false] at hx' <;>
    (try rcases hx' with rfl | rfl | rfl | rfl | rfl) <;> (try rcases hx' with rfl | rfl | rfl) <;>
    simp [hpd, hdm]

theorem partDist_of_isPerfect {P : Params} (h : isPerfect P = true) : partDist P = false := by
  unfold isPerfect at h
  simp only [Bool.and_eq_true, decide_eq_true_eq] at h
  unfold partDist
  simp [h.1.1.2, h.1.2]

theorem shortcut_kind (P : Params) (n : ℕ) (h : shortcut P n = true) :
    ∀ tg ∈ List.replicate n (none : Tag), tg.isSome = partDist P := by
  intro tg htg
  obtain ⟨hn, rfl⟩ := List.mem_replicate.mp htg
  unfold shortcut at h
  simp only [Bool.or_eq_true, decide_eq_true_eq] at h
  rcases h with h | h
  · exact absurd h hn
  · rw [partDist_of_isPerfect h]; rfl

/-- a mixture never mixes annotated and unannotated photons: every photon of every state is annotated when
the source is partially distinguishable, and none is otherwise (any threshold) -/
theorem generateAt_kind (P : Params) (θ : ℚ) (ns : List ℕ) (t : ℕ) :
    ∀ x ∈ generateAt P θ ns t, ∀ tg ∈ x.1.flatten, tg.isSome = partDist P :=
  generateAt_graded (kindGraded (partDist P)) P θ (onePhoton_kind P) (shortcut_kind P) ns t

/-! ### instance 2: the photon number of a source that emits exactly one photon per request -/

theorem lenGraded : Graded fun k m => m.length = k where
  nil := rfl
  append := fun hs he => by rw [List.length_append, hs, he]
  perm := fun hp h => by rw [← hp.length_eq, h]

theorem onePhoton_len {P : Params} (hb : P.beta = 1) (hg : P.g2 = 0) (he : P.eta = 1) (t : ℕ) :
    ∀ x ∈ onePhoton P t, x.1.length = 1 := by
  intro x hx
  obtain ⟨hx', hpos⟩ := List.mem_filter.mp hx
  have hpos' : 0 < x.2 := by simpa using hpos
  have h22 : p22 P = 0 := by simp [p22, p2, hg]
  have h21 : p21 P = 0 := by simp [p21, p2, hg]
  have h11 : p11 P = 1 := by simp [p11, p1, p2, hg, hb, he]
  have h0 : p0 P = 0 := by simp [p0, h22, h21, h11]
  unfold onePhotonRaw at hx'
  by_cases hpd : partDist P = true <;> by_cases hdm : P.dm = true <;>
    simp only [hpd, hdm, if_true, if_false, Bool.false_eq_true, List.cons_append, List.nil_append,
      List.mem_cons, List.not_mem_nil, or_false, h22, h21, h0, mul_zero] at hx' <;>
    (try rcases hx' with rfl | rfl | rfl | rfl | rfl) <;> (try rcases hx' with rfl | rfl | rfl) <;>
    first
      | rfl
      | exact absurd hpos' (lt_irrefl 0)

/-- the source whose only defect may be the indistinguishability delivers exactly the requested photons in
every state of the mixture (any threshold) -/
theorem generateAt_len {P : Params} (hb : P.beta = 1) (hg : P.g2 = 0) (he : P.eta = 1) (θ : ℚ)
    (ns : List ℕ) (t : ℕ) : ∀ x ∈ generateAt P θ ns t, x.1.flatten.length = ns.sum :=
  generateAt_graded lenGraded P θ (onePhoton_len hb hg he) (fun n _ => List.length_replicate ..) ns t

/-! ### share a tag ⇔ carry the common tag -/

theorem allCommon_eq (s : State) : allCommon s = s.flatten.all commonTag := by
  unfold allCommon
  rw [List.all_flatten]

theorem photons_eq_length_flatten (s : State) : photons s = s.flatten.length := by
  simp [photons, List.length_flatten]

theorem commonTag_eq_of_kind {a b : Tag} (ha : commonTag a = true) (hb : commonTag b = true)
    (hk : a.isSome = b.isSome) : a = b := by
  rcases a with _ | _ | k <;> rcases b with _ | _ | k' <;> simp_all [commonTag]

/-- for a state that does not mix annotated and unannotated photons and whose fresh tags are pairwise
different: all photons carry one and the same tag iff all carry the common tag or there is at most one -/
theorem oneTag_eq_of_kind (s : State) (c : Bool) (hk : ∀ tg ∈ s.flatten, tg.isSome = c)
    (hf : (freshTags s.flatten).Nodup) :
    oneTag s = (allCommon s || decide (photons s ≤ 1)) := by
  rw [Bool.eq_iff_iff, oneTag_iff, allCommon_eq, photons_eq_length_flatten]
  generalize s.flatten = l at hk hf
  simp only [Bool.or_eq_true, List.all_eq_true, decide_eq_true_eq]
  constructor
  · intro h
    match l, hk, hf, h with
    | [], _, _, _ => right; simp
    | [_], _, _, _ => right; simp
    | a :: b :: l, _, hf, h =>
      left
      have hba : b = a := h b (by simp) a (by simp)
      subst hba
      by_cases hc : commonTag b = true
      · intro x hx
        rw [h x hx b (by simp)]
        exact hc
      · exfalso
        have hc' : (!commonTag b) = true := by simpa using hc
        simp only [freshTags, List.filter_cons, hc', if_true] at hf
        exact (List.nodup_cons.mp hf).1 (by simp)
  · rintro (h | h) a ha b hb
    · exact commonTag_eq_of_kind (h a ha) (h b hb) (by rw [hk a ha, hk b hb])
    · match l, ha, hb, h with
      | [_], ha, hb, _ =>
        rw [List.mem_singleton.mp ha, List.mem_singleton.mp hb]
      | _ :: _ :: _, _, _, h => simp at h

/-! ### the tag counter after `_generate_samples_no_filter` -/

theorem shortcut_of_not_perfect {P : Params} (h : isPerfect P = false) (n : ℕ) :
    shortcut P n = decide (n = 0) := by
  simp [shortcut, h]

theorem probDistTag_of_not_perfect {P : Params} (h : isPerfect P = false) (n t : ℕ) :
    probDistTag P n t = tagAfter P n t := by
  unfold probDistTag
  rw [shortcut_of_not_perfect h]
  by_cases hn : n = 0
  · subst hn; simp [tagAfter]
  · simp [hn]

theorem genTagPd_eq_genTag {P : Params} (h : isPerfect P = false) (ns : List ℕ) (t : ℕ) :
    nfTag.genTagPd P ns t = genTag P ns t := by
  induction ns generalizing t with
  | nil => rfl
  | cons n ns ih => simp only [nfTag.genTagPd, genTag, probDistTag_of_not_perfect h, ih]

theorem le_genTag (P : Params) (ns : List ℕ) (t : ℕ) : t ≤ genTag P ns t := by
  induction ns generalizing t with
  | nil => exact Nat.le_refl t
  | cons n ns ih => exact Nat.le_trans (le_probDistTag P n t) (ih _)

end PM.C06
