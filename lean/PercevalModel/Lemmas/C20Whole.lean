/-
  C20 — the WHOLE converted circuit as the converter builds it (`_generate_converted_processor`): for a source gate
  sequence and its labels, the list of placed gates (`convGatesM`: one-qubit gates on `[2q, 2q+1]`, catalog
  two-qubit gates on `gateModes` with the running index of their herald pair, SWAPs as the four-rail `PERM`), and
  the facts `converted_circuit_implements_product_labelled` asks for: the list has the shape `convShape` computes
  (`convGatesM_shape`), every abstractly given gate is a proved step (`convGatesM_good`), no herald mode is shared
  by two gates (`convGatesM_pairwise`).  Hence `converted_processor_implements` (Props section (10)): no hypothesis
  on labelling, shape, SWAPs or herald sharing is left.
-/
import PercevalModel.Lemmas.C20Swap
import PercevalModel.Lemmas.C20LabelCut

open Matrix

namespace PM.C20
open PM.Fock PM.SimSpec

variable {R : Type*}

/-! ### a one-qubit gate of a converted processor is a placement -/

def oneQInv (q : ℕ) (i : ℕ) : Option (Fin 2) := if i = 2 * q then some 0 else if i = 2 * q + 1 then some 1 else none

def oneQPlacement (n : ℕ) (hv : List ℕ) (q : ℕ) (hq : q < n) : Placement ⟨2, [0], []⟩ (convLayout n hv) where
  φ := fun k => [2 * q, 2 * q + 1].getD k 0
  g := fun i => oneQInv q i.val
  sel := [q]
  φ_lt := by
    intro k hk
    have hk' : k < 2 := hk
    simp only [convLayout]
    interval_cases k <;> simp <;> omega
  inv := by
    intro x y
    obtain ⟨y, hy⟩ := y
    simp only [convLayout] at hy
    by_cases h1 : y = 2 * q <;> by_cases h2 : y = 2 * q + 1 <;> fin_cases x <;>
      simp [oneQInv, Fin.ext_iff, h1, h2] <;> omega
  sel_length := rfl
  sel_lt := by
    intro k hk
    simp only [List.mem_cons, List.not_mem_nil, or_false] at hk
    simp only [convLayout, List.length_map, List.length_range]
    rw [hk]; exact hq
  qubit := by
    intro i hi
    have hi' : i < 1 := hi
    interval_cases i
    have e := convLayout_qubit n hv q hq
    exact ⟨by show [2 * q, 2 * q + 1].getD 0 0 = (convLayout n hv).qubits.getD q 0; rw [e]; rfl,
      by show [2 * q, 2 * q + 1].getD 1 0 = (convLayout n hv).qubits.getD q 0 + 1; rw [e]; rfl⟩
  herald := by
    intro h hh
    simp at hh

/-! ### the list of placed gates -/

/-- the `j`-th herald pair of the layout is there, with value `v`, and the two qubits are distinct qubits -/
def SlotOk (n : ℕ) (hv : List ℕ) (a b j v : ℕ) : Prop :=
  a < n ∧ b < n ∧ a ≠ b ∧ 2 * j + 1 < hv.length ∧ hv.getD (2 * j) 0 = v ∧ hv.getD (2 * j + 1) 0 = v

instance (n : ℕ) (hv : List ℕ) (a b j v : ℕ) : Decidable (SlotOk n hv a b j v) := by
  unfold SlotOk; infer_instance

def catPlacement (n : ℕ) (hv : List ℕ) (a b j v : ℕ) (h : SlotOk n hv a b j v) :
    Placement ⟨6, [0, 2], [(4, v), (5, v)]⟩ (convLayout n hv) :=
  gatePlacement n hv a b j v h.1 h.2.1 h.2.2.1 h.2.2.2.1 h.2.2.2.2.1 h.2.2.2.2.2

/-- the SWAP step of qubits `a`, `b` -/
def swapStepOf [Zero R] [One R] (n : ℕ) (hv : List ℕ) (a b : ℕ) (h : a < n ∧ b < n ∧ a ≠ b) :
    Step (convLayout n hv) R :=
  placedStep (swapPlacement n hv a b h.1 h.2.1 h.2.2) (swapMatrix (R := R)) (twoQubit swapEntry) 1 false

/-- **what `_generate_converted_processor` places**, gate by gate (`none`: the conversion raises — a qubit out of
range, a two-qubit gate on one qubit, an unknown gate, a gate on three or more qubits); `oneQ g` = the 2×2 matrix of
the one-qubit gate `g`; `j` = number of catalog two-qubit gates placed so far -/
def convGatesM [Zero R] [One R] (n : ℕ) (hv : List ℕ) (oneQ : Gate → Matrix (Fin 2) (Fin 2) R) :
    List Gate → List String → ℕ → Option (List (ConvGate (convLayout n hv) R))
  | [], _, _ => some []
  | _ :: _, [], _ => none
  | g :: gs, l :: ls, j =>
    match g.qubits with
    | [q] =>
      if hq : q < n then
        (convGatesM n hv oneQ gs ls j).map (ConvGate.oneQ (oneQPlacement n hv q hq) (oneQ g) :: ·)
      else none
    | [a, b] =>
      if twoQubitKind true l = "PERM" then
        if h : a < n ∧ b < n ∧ a ≠ b then
          (convGatesM n hv oneQ gs ls j).map (ConvGate.other (swapStepOf n hv a b h) :: ·)
        else none
      else if twoQubitKind true l = "Heralded CZ" then
        if h : SlotOk n hv a b j 1 then
          (convGatesM n hv oneQ gs ls (j + 1)).map (ConvGate.hcz (catPlacement n hv a b j 1 h) :: ·)
        else none
      else if twoQubitKind true l = "Heralded CNOT" then
        if h : SlotOk n hv a b j 1 then
          (convGatesM n hv oneQ gs ls (j + 1)).map (ConvGate.hcnot (catPlacement n hv a b j 1 h) :: ·)
        else none
      else if twoQubitKind true l = "PostProcessed CNOT" then
        if h : SlotOk n hv a b j 0 then
          (convGatesM n hv oneQ gs ls (j + 1)).map (ConvGate.ppcnot (catPlacement n hv a b j 0 h) :: ·)
        else none
      else none
    | _ => none

/-! ### what one gate of the source sequence becomes -/

section field
variable [Field R] [CharZero R]

/-- the placed gate `cg` made for the source gate `g` with label `l` when `j` catalog gates precede it; `j'` = the
index handed to the next gate -/
inductive Head (n : ℕ) (hv : List ℕ) (oneQ : Gate → Matrix (Fin 2) (Fin 2) R) (g : Gate) (l : String) (j : ℕ) :
    ConvGate (convLayout n hv) R → ℕ → Prop
  | oneQ (q : ℕ) (hq : q < n) (hg : g.qubits = [q]) :
      Head n hv oneQ g l j (ConvGate.oneQ (oneQPlacement n hv q hq) (oneQ g)) j
  | swap (a b : ℕ) (h : a < n ∧ b < n ∧ a ≠ b) (hg : g.qubits = [a, b]) (hk : twoQubitKind true l = "PERM") :
      Head n hv oneQ g l j (ConvGate.other (swapStepOf n hv a b h)) j
  | hcz (a b : ℕ) (h : SlotOk n hv a b j 1) (hg : g.qubits = [a, b]) (hk : twoQubitKind true l = "Heralded CZ") :
      Head n hv oneQ g l j (ConvGate.hcz (catPlacement n hv a b j 1 h)) (j + 1)
  | hcnot (a b : ℕ) (h : SlotOk n hv a b j 1) (hg : g.qubits = [a, b])
      (hk : twoQubitKind true l = "Heralded CNOT") :
      Head n hv oneQ g l j (ConvGate.hcnot (catPlacement n hv a b j 1 h)) (j + 1)
  | ppcnot (a b : ℕ) (h : SlotOk n hv a b j 0) (hg : g.qubits = [a, b])
      (hk : twoQubitKind true l = "PostProcessed CNOT") :
      Head n hv oneQ g l j (ConvGate.ppcnot (catPlacement n hv a b j 0 h)) (j + 1)

theorem convGatesM_cons (n : ℕ) (hv : List ℕ) (oneQ : Gate → Matrix (Fin 2) (Fin 2) R) (g : Gate) (gs : List Gate)
    (l : String) (ls : List String) (j : ℕ) (cgs : List (ConvGate (convLayout n hv) R))
    (h : convGatesM n hv oneQ (g :: gs) (l :: ls) j = some cgs) :
    ∃ cg rest j', cgs = cg :: rest ∧ Head n hv oneQ g l j cg j' ∧ convGatesM n hv oneQ gs ls j' = some rest := by
  rw [convGatesM] at h
  rcases hgq : g.qubits with _ | ⟨a, _ | ⟨b, _ | ⟨c, t⟩⟩⟩
  · rw [hgq] at h; simp at h
  · rw [hgq] at h
    simp only at h
    split at h
    · rename_i hq
      obtain ⟨rest, hrest, rfl⟩ := Option.map_eq_some_iff.1 h
      exact ⟨_, rest, j, rfl, Head.oneQ a hq hgq, hrest⟩
    · cases h
  · rw [hgq] at h
    simp only at h
    split at h
    · rename_i hk
      split at h
      · rename_i hab
        obtain ⟨rest, hrest, rfl⟩ := Option.map_eq_some_iff.1 h
        exact ⟨_, rest, j, rfl, Head.swap a b hab hgq hk, hrest⟩
      · cases h
    · split at h
      · rename_i hk
        split at h
        · rename_i hs
          obtain ⟨rest, hrest, rfl⟩ := Option.map_eq_some_iff.1 h
          exact ⟨_, rest, j + 1, rfl, Head.hcz a b hs hgq hk, hrest⟩
        · cases h
      · split at h
        · rename_i hk
          split at h
          · rename_i hs
            obtain ⟨rest, hrest, rfl⟩ := Option.map_eq_some_iff.1 h
            exact ⟨_, rest, j + 1, rfl, Head.hcnot a b hs hgq hk, hrest⟩
          · cases h
        · split at h
          · rename_i hk
            split at h
            · rename_i hs
              obtain ⟨rest, hrest, rfl⟩ := Option.map_eq_some_iff.1 h
              exact ⟨_, rest, j + 1, rfl, Head.ppcnot a b hs hgq hk, hrest⟩
            · cases h
          · cases h
  · rw [hgq] at h; simp at h

/-- a catalog gate's placement selects its two qubits and sits on `gateModes` -/
theorem catPlacement_sel (n : ℕ) (hv : List ℕ) (a b j v : ℕ) (h : SlotOk n hv a b j v) :
    (catPlacement n hv a b j v h).sel = [a, b] := rfl

theorem catPlacement_support (n : ℕ) (hv : List ℕ) (a b j v : ℕ) (h : SlotOk n hv a b j v) :
    (List.ofFn fun k : Fin 6 => ((catPlacement n hv a b j v h).f k).val) = gateModes n a b j :=
  gatePlacement_support n hv a b j v h.1 h.2.1 h.2.2.1 h.2.2.2.1 h.2.2.2.2.1 h.2.2.2.2.2

theorem qubits_two (n : ℕ) (hv : List ℕ) (a b : ℕ) (ha : a < n) (hb : b < n) :
    ([a, b].map fun k => (convLayout n hv).qubits.getD k 0) = [2 * a, 2 * b] := by
  rw [List.map_cons, List.map_cons, List.map_nil, convLayout_qubit n hv a ha, convLayout_qubit n hv b hb]

/-- the shape entry of one placed gate is the one `convShape` computes -/
theorem head_shape (n : ℕ) (hv : List ℕ) (oneQ : Gate → Matrix (Fin 2) (Fin 2) R) (r h c2 s2 : R) (g : Gate)
    (l : String) (j j' : ℕ) (cg : ConvGate (convLayout n hv) R) (hd : Head n hv oneQ g l j cg j') :
    ((cg.step r h c2 s2).Q, (cg.step r h c2 s2).leaky) =
      (g.qubits.map (2 * ·), g.qubits.length == 2 && twoQubitKind true l == "PostProcessed CNOT") := by
  cases hd with
  | oneQ q hq hg =>
    simp only [ConvGate.step, placedStep, oneQPlacement, hg, List.map_cons, List.map_nil,
      convLayout_qubit n hv q hq]
    rfl
  | swap a b hab hg hk =>
    have := qubits_two n hv a b hab.1 hab.2.1
    simp only [ConvGate.step, swapStepOf, placedStep, swapPlacement, hg, hk] at this ⊢
    rw [this]
    rfl
  | hcz a b hs hg hk =>
    have := qubits_two n hv a b hs.1 hs.2.1
    simp only [ConvGate.step, placedStep, catPlacement_sel, hg, hk] at this ⊢
    rw [this]
    rfl
  | hcnot a b hs hg hk =>
    have := qubits_two n hv a b hs.1 hs.2.1
    simp only [ConvGate.step, placedStep, catPlacement_sel, hg, hk] at this ⊢
    rw [this]
    rfl
  | ppcnot a b hs hg hk =>
    have := qubits_two n hv a b hs.1 hs.2.1
    simp only [ConvGate.step, placedStep, catPlacement_sel, hg, hk] at this ⊢
    rw [this]
    rfl

/-- **the list of placed gates has the shape `convShape` computes for the source sequence** -/
theorem convGatesM_shape (n : ℕ) (hv : List ℕ) (oneQ : Gate → Matrix (Fin 2) (Fin 2) R) (r h c2 s2 : R) :
    ∀ (gs : List Gate) (ls : List String) (j : ℕ) (cgs : List (ConvGate (convLayout n hv) R)),
      convGatesM n hv oneQ gs ls j = some cgs →
      (convSteps r h c2 s2 cgs).map (fun s => (s.Q, s.leaky)) = convShape true gs ls
  | [], ls, j, cgs, hc => by
    rw [convGatesM] at hc
    cases hc
    cases ls <;> rfl
  | g :: gs, [], j, cgs, hc => by
    rw [convGatesM] at hc; cases hc
  | g :: gs, l :: ls, j, cgs, hc => by
    obtain ⟨cg, rest, j', rfl, hd, hrest⟩ := convGatesM_cons n hv oneQ g gs l ls j cgs hc
    have ih := convGatesM_shape n hv oneQ r h c2 s2 gs ls j' rest hrest
    simp only [convSteps, List.map_cons, convShape] at ih ⊢
    rw [ih, head_shape n hv oneQ r h c2 s2 g l j j' cg hd]

end field

section field2
variable [Field R] [CharZero R]

/-- every abstractly given gate of the list (the SWAPs) is a proved heralded step -/
theorem head_good (n : ℕ) (hv : List ℕ) (hle : ∀ v ∈ hv, v ≤ 1) (oneQ : Gate → Matrix (Fin 2) (Fin 2) R) (g : Gate)
    (l : String) (j j' : ℕ) (cg : ConvGate (convLayout n hv) R) (hd : Head n hv oneQ g l j cg j') : cg.Good := by
  cases hd with
  | swap a b hab hg hk =>
    exact ⟨swap_step_ok _ (convLayout_ok n hv) (convLayout_heralds_le n hv hle), rfl⟩
  | _ => trivial

theorem convGatesM_good (n : ℕ) (hv : List ℕ) (hle : ∀ v ∈ hv, v ≤ 1) (oneQ : Gate → Matrix (Fin 2) (Fin 2) R) :
    ∀ (gs : List Gate) (ls : List String) (j : ℕ) (cgs : List (ConvGate (convLayout n hv) R)),
      convGatesM n hv oneQ gs ls j = some cgs → ∀ cg ∈ cgs, cg.Good
  | [], ls, j, cgs, hc => by
    rw [convGatesM] at hc
    cases hc
    intro cg hcg
    cases hcg
  | g :: gs, [], j, cgs, hc => by
    rw [convGatesM] at hc; cases hc
  | g :: gs, l :: ls, j, cgs, hc => by
    obtain ⟨cg, rest, j', rfl, hd, hrest⟩ := convGatesM_cons n hv oneQ g gs l ls j cgs hc
    intro x hx
    rcases List.mem_cons.1 hx with rfl | hx
    · exact head_good n hv hle oneQ g l j j' _ hd
    · exact convGatesM_good n hv hle oneQ gs ls j' rest hrest x hx

/-- the modes of a placed gate: qubit modes, or the herald pair with its own index -/
theorem head_support (n : ℕ) (hv : List ℕ) (oneQ : Gate → Matrix (Fin 2) (Fin 2) R) (r h c2 s2 : R) (g : Gate)
    (l : String) (j j' : ℕ) (cg : ConvGate (convLayout n hv) R) (hd : Head n hv oneQ g l j cg j') :
    j ≤ j' ∧ ∀ k ∈ (cg.step r h c2 s2).S, k < 2 * n ∨ (2 * n + 2 * j ≤ k ∧ k < 2 * n + 2 * j') := by
  cases hd with
  | oneQ q hq hg =>
    refine ⟨le_refl _, fun k hk => Or.inl ?_⟩
    simp only [ConvGate.step, placedStep, Placement.f, oneQPlacement] at hk
    rw [List.mem_ofFn] at hk
    obtain ⟨⟨i, hi⟩, rfl⟩ := hk
    have hi' : i < 2 := hi
    interval_cases i <;> simp <;> omega
  | swap a b hab hg hk =>
    refine ⟨le_refl _, fun k hk' => Or.inl ?_⟩
    simp only [ConvGate.step, swapStepOf, placedStep, Placement.f, swapPlacement, List.ofFn_succ,
      List.ofFn_zero] at hk'
    simp at hk'
    omega
  | hcz a b hs hg hk =>
    refine ⟨Nat.le_succ _, fun k hk' => ?_⟩
    simp only [ConvGate.step, placedStep] at hk'
    have hk' : k ∈ gateModes n a b j := by
      rw [← catPlacement_support n hv a b j _ hs]; exact hk'
    simp only [gateModes, List.mem_cons, List.not_mem_nil, or_false] at hk'
    have := hs.1; have := hs.2.1
    omega
  | hcnot a b hs hg hk =>
    refine ⟨Nat.le_succ _, fun k hk' => ?_⟩
    simp only [ConvGate.step, placedStep] at hk'
    have hk' : k ∈ gateModes n a b j := by
      rw [← catPlacement_support n hv a b j _ hs]; exact hk'
    simp only [gateModes, List.mem_cons, List.not_mem_nil, or_false] at hk'
    have := hs.1; have := hs.2.1
    omega
  | ppcnot a b hs hg hk =>
    refine ⟨Nat.le_succ _, fun k hk' => ?_⟩
    simp only [ConvGate.step, placedStep] at hk'
    have hk' : k ∈ gateModes n a b j := by
      rw [← catPlacement_support n hv a b j _ hs]; exact hk'
    simp only [gateModes, List.mem_cons, List.not_mem_nil, or_false] at hk'
    have := hs.1; have := hs.2.1
    omega

/-- every later gate only touches qubit modes and herald pairs of index `≥ j` -/
theorem convGatesM_above (n : ℕ) (hv : List ℕ) (oneQ : Gate → Matrix (Fin 2) (Fin 2) R) (r h c2 s2 : R) :
    ∀ (gs : List Gate) (ls : List String) (j : ℕ) (cgs : List (ConvGate (convLayout n hv) R)),
      convGatesM n hv oneQ gs ls j = some cgs →
      ∀ s ∈ convSteps r h c2 s2 cgs, ∀ k ∈ s.S, k < 2 * n ∨ 2 * n + 2 * j ≤ k
  | [], ls, j, cgs, hc => by
    rw [convGatesM] at hc
    cases hc
    intro s hs
    simp [convSteps] at hs
  | g :: gs, [], j, cgs, hc => by
    rw [convGatesM] at hc; cases hc
  | g :: gs, l :: ls, j, cgs, hc => by
    obtain ⟨cg, rest, j', rfl, hd, hrest⟩ := convGatesM_cons n hv oneQ g gs l ls j cgs hc
    obtain ⟨hjj, hsup⟩ := head_support n hv oneQ r h c2 s2 g l j j' cg hd
    intro s hs k hk
    simp only [convSteps, List.map_cons, List.mem_cons] at hs
    rcases hs with rfl | hs
    · rcases hsup k hk with h1 | h1
      · exact Or.inl h1
      · exact Or.inr h1.1
    · rcases convGatesM_above n hv oneQ r h c2 s2 gs ls j' rest hrest s hs k hk with h1 | h1
      · exact Or.inl h1
      · exact Or.inr (by omega)

/-- **no herald mode is shared by two gates of the converted circuit** -/
theorem convGatesM_pairwise (n : ℕ) (hv : List ℕ) (oneQ : Gate → Matrix (Fin 2) (Fin 2) R) (r h c2 s2 : R) :
    ∀ (gs : List Gate) (ls : List String) (j : ℕ) (cgs : List (ConvGate (convLayout n hv) R)),
      convGatesM n hv oneQ gs ls j = some cgs →
      (convSteps r h c2 s2 cgs).Pairwise
        (fun g g' => ∀ hd ∈ (convLayout n hv).heralds, hd.1 ∉ g.S ∨ hd.1 ∉ g'.S)
  | [], ls, j, cgs, hc => by
    rw [convGatesM] at hc
    cases hc
    simp [convSteps]
  | g :: gs, [], j, cgs, hc => by
    rw [convGatesM] at hc; cases hc
  | g :: gs, l :: ls, j, cgs, hc => by
    obtain ⟨cg, rest, j', rfl, hd, hrest⟩ := convGatesM_cons n hv oneQ g gs l ls j cgs hc
    obtain ⟨hjj, hsup⟩ := head_support n hv oneQ r h c2 s2 g l j j' cg hd
    have ih := convGatesM_pairwise n hv oneQ r h c2 s2 gs ls j' rest hrest
    have hab := convGatesM_above n hv oneQ r h c2 s2 gs ls j' rest hrest
    simp only [convSteps, List.map_cons, List.pairwise_cons] at ih ⊢
    refine ⟨fun s hs hd' hhd' => ?_, ih⟩
    have hge := convLayout_herald_mode n hv hd' hhd'
    by_cases h1 : hd'.1 ∈ (cg.step r h c2 s2).S
    · right
      intro h2
      rcases hsup _ h1 with h3 | h3
      · omega
      · rcases hab s hs _ h2 with h4 | h4 <;> omega
    · exact Or.inl h1

end field2

/-! ### the conversion succeeds on every valid sequence -/

/-- a source gate the converter accepts, with its label: one qubit in range, or two distinct qubits in range and a
label that `_create_2_qubit_gates_from_catalog` knows -/
def GateOk (n : ℕ) (g : Gate) (l : String) : Prop :=
  (∃ q, g.qubits = [q] ∧ q < n) ∨
  (∃ a b, g.qubits = [a, b] ∧ a < n ∧ b < n ∧ a ≠ b ∧
    (twoQubitKind true l = "PERM" ∨ twoQubitKind true l = "Heralded CZ" ∨ twoQubitKind true l = "Heralded CNOT" ∨
      twoQubitKind true l = "PostProcessed CNOT"))

theorem drop_two_of_eq {hv : List ℕ} {j v : ℕ} {rest : List ℕ} (h : hv.drop (2 * j) = v :: v :: rest) :
    2 * j + 1 < hv.length ∧ hv.getD (2 * j) 0 = v ∧ hv.getD (2 * j + 1) 0 = v ∧ hv.drop (2 * (j + 1)) = rest := by
  have hlen : (hv.drop (2 * j)).length = rest.length + 2 := by rw [h]; simp
  rw [List.length_drop] at hlen
  have h0 : (hv.drop (2 * j))[0]? = some v := by rw [h]; rfl
  have h1 : (hv.drop (2 * j))[1]? = some v := by rw [h]; rfl
  rw [List.getElem?_drop] at h0 h1
  refine ⟨by omega, ?_, ?_, ?_⟩
  · rw [List.getD_eq_getElem?_getD]; simpa using congrArg (·.getD 0) h0
  · rw [List.getD_eq_getElem?_getD]; simpa using congrArg (·.getD 0) h1
  · have : hv.drop (2 * (j + 1)) = (hv.drop (2 * j)).drop 2 := by
      rw [List.drop_drop]; congr 1
    rw [this, h]; rfl

section field3
variable [Field R] [CharZero R]

/-- **the conversion goes through** on every sequence of accepted gates when the layout's herald values are the
ones `planHeralds` lists for the remaining catalog gates -/
theorem convGatesM_succeeds (n : ℕ) (oneQ : Gate → Matrix (Fin 2) (Fin 2) R) :
    ∀ (gs : List Gate) (ls : List String) (j : ℕ) (hv : List ℕ), List.Forall₂ (GateOk n) gs ls →
      hv.drop (2 * j) = planHeralds (planKinds true gs ls) →
      (convGatesM n hv oneQ gs ls j).isSome = true
  | [], ls, j, hv, _, _ => by rw [convGatesM]; rfl
  | g :: gs, [], j, hv, hf, _ => by cases hf
  | g :: gs, l :: ls, j, hv, hf, hd => by
    obtain ⟨hok, hf'⟩ := List.forall₂_cons.1 hf
    rw [convGatesM]
    rcases hok with ⟨q, hgq, hq⟩ | ⟨a, b, hgq, ha, hb, hab, hk⟩
    · have hpk : planKinds true (g :: gs) (l :: ls) = "1q" :: planKinds true gs ls := by
        simp [planKinds, hgq]
      have hph : planHeralds ("1q" :: planKinds true gs ls) = planHeralds (planKinds true gs ls) := by
        simp only [planHeralds, List.flatMap_cons]
        rfl
      rw [hpk, hph] at hd
      simp only [hgq, hq, dite_true, Option.isSome_map]
      exact convGatesM_succeeds n oneQ gs ls j hv hf' hd
    · have hlen : g.qubits.length = 2 := by rw [hgq]; rfl
      have hpk : ∀ k, twoQubitKind true l = k → k.startsWith "rejected" = false →
          planKinds true (g :: gs) (l :: ls) = k :: planKinds true gs ls := by
        intro k hk' hrej
        simp [planKinds, hlen, hk', hrej]
      rcases hk with hk | hk | hk | hk
      · rw [hpk _ hk (by decide +kernel)] at hd
        have hph : planHeralds ("PERM" :: planKinds true gs ls) = planHeralds (planKinds true gs ls) := by
          simp only [planHeralds, List.flatMap_cons]
          rfl
        rw [hph] at hd
        simp only [hgq, hk, if_true, ha, hb, hab, ne_eq, not_false_eq_true, and_self, dite_true,
          Option.isSome_map]
        exact convGatesM_succeeds n oneQ gs ls j hv hf' hd
      · rw [hpk _ hk (by decide +kernel)] at hd
        have hph : planHeralds ("Heralded CZ" :: planKinds true gs ls) =
            1 :: 1 :: planHeralds (planKinds true gs ls) := by
          simp only [planHeralds, List.flatMap_cons]
          rfl
        rw [hph] at hd
        obtain ⟨h1, h2, h3, h4⟩ := drop_two_of_eq hd
        have hs : SlotOk n hv a b j 1 := ⟨ha, hb, hab, h1, h2, h3⟩
        have e1 : ¬ ("Heralded CZ" = "PERM") := by decide
        simp only [hgq, hk, e1, if_false, if_true, hs, dite_true, Option.isSome_map]
        exact convGatesM_succeeds n oneQ gs ls (j + 1) hv hf' h4
      · rw [hpk _ hk (by decide +kernel)] at hd
        have hph : planHeralds ("Heralded CNOT" :: planKinds true gs ls) =
            1 :: 1 :: planHeralds (planKinds true gs ls) := by
          simp only [planHeralds, List.flatMap_cons]
          rfl
        rw [hph] at hd
        obtain ⟨h1, h2, h3, h4⟩ := drop_two_of_eq hd
        have hs : SlotOk n hv a b j 1 := ⟨ha, hb, hab, h1, h2, h3⟩
        have e1 : ¬ ("Heralded CNOT" = "PERM") := by decide
        have e2 : ¬ ("Heralded CNOT" = "Heralded CZ") := by decide
        simp only [hgq, hk, e1, e2, if_false, if_true, hs, dite_true, Option.isSome_map]
        exact convGatesM_succeeds n oneQ gs ls (j + 1) hv hf' h4
      · rw [hpk _ hk (by decide +kernel)] at hd
        have hph : planHeralds ("PostProcessed CNOT" :: planKinds true gs ls) =
            0 :: 0 :: planHeralds (planKinds true gs ls) := by
          simp only [planHeralds, List.flatMap_cons]
          rfl
        rw [hph] at hd
        obtain ⟨h1, h2, h3, h4⟩ := drop_two_of_eq hd
        have hs : SlotOk n hv a b j 0 := ⟨ha, hb, hab, h1, h2, h3⟩
        have e1 : ¬ ("PostProcessed CNOT" = "PERM") := by decide
        have e2 : ¬ ("PostProcessed CNOT" = "Heralded CZ") := by decide
        have e3 : ¬ ("PostProcessed CNOT" = "Heralded CNOT") := by decide
        simp only [hgq, hk, e1, e2, e3, if_false, if_true, hs, dite_true, Option.isSome_map]
        exact convGatesM_succeeds n oneQ gs ls (j + 1) hv hf' h4

theorem planHeralds_le_one (kinds : List String) : ∀ v ∈ planHeralds kinds, v ≤ 1 := by
  intro v hv
  simp only [planHeralds, List.mem_flatMap] at hv
  obtain ⟨k, _, hk⟩ := hv
  split_ifs at hk <;> simp at hk <;> omega

end field3

/-! ### the modes the placed gates sit on are the ones the driver reports (`planModes`) -/

section field4
variable [Field R] [CharZero R]

theorem ofFn_four (f : Fin 4 → ℕ) : List.ofFn f = [f 0, f 1, f 2, f 3] := by
  simp [List.ofFn_succ]

theorem ofFn_two (f : Fin 2 → ℕ) : List.ofFn f = [f 0, f 1] := by
  simp [List.ofFn_succ]

/-- the support of one placed gate -/
theorem head_modes (n : ℕ) (hv : List ℕ) (oneQ : Gate → Matrix (Fin 2) (Fin 2) R) (r h c2 s2 : R) (g : Gate)
    (l : String) (j j' : ℕ) (cg : ConvGate (convLayout n hv) R) (hd : Head n hv oneQ g l j cg j') :
    (cg.step r h c2 s2).S =
      (if g.qubits.length == 1 then [2 * g.qubits.getD 0 0, 2 * g.qubits.getD 0 0 + 1]
       else if twoQubitKind true l == "PERM" then
        [2 * g.qubits.getD 0 0, 2 * g.qubits.getD 0 0 + 1, 2 * g.qubits.getD 1 0, 2 * g.qubits.getD 1 0 + 1]
       else gateModes n (g.qubits.getD 0 0) (g.qubits.getD 1 0) j) ∧
      j' = (if g.qubits.length == 1 then j else if twoQubitKind true l == "PERM" then j else j + 1) := by
  cases hd with
  | oneQ q hq hg =>
    refine ⟨?_, by simp [hg]⟩
    simp only [ConvGate.step, placedStep, hg]
    exact ofFn_two _
  | swap a b hab hg hk =>
    refine ⟨?_, by simp [hg, hk]⟩
    simp only [ConvGate.step, swapStepOf, placedStep, hg, hk]
    exact ofFn_four _
  | hcz a b hs hg hk =>
    refine ⟨?_, by simp [hg, hk]⟩
    simp only [ConvGate.step, placedStep, hg, hk]
    refine (catPlacement_support n hv a b j 1 hs).trans ?_
    simp
  | hcnot a b hs hg hk =>
    refine ⟨?_, by simp [hg, hk]⟩
    simp only [ConvGate.step, placedStep, hg, hk]
    refine (catPlacement_support n hv a b j 1 hs).trans ?_
    simp
  | ppcnot a b hs hg hk =>
    refine ⟨?_, by simp [hg, hk]⟩
    simp only [ConvGate.step, placedStep, hg, hk]
    refine (catPlacement_support n hv a b j 0 hs).trans ?_
    simp

/-- **the modes of the placed gates are `planModes`** — the list the driver's `modes` op returns and the harness
compares with the positions of the real processor's components -/
theorem convGatesM_modes (n : ℕ) (hv : List ℕ) (oneQ : Gate → Matrix (Fin 2) (Fin 2) R) (r h c2 s2 : R) :
    ∀ (gs : List Gate) (ls : List String) (j : ℕ) (cgs : List (ConvGate (convLayout n hv) R)),
      convGatesM n hv oneQ gs ls j = some cgs →
      (convSteps r h c2 s2 cgs).map (·.S) = planModes n gs (ls.map (twoQubitKind true)) j
  | [], ls, j, cgs, hc => by
    rw [convGatesM] at hc
    cases hc
    cases ls <;> rfl
  | g :: gs, [], j, cgs, hc => by
    rw [convGatesM] at hc; cases hc
  | g :: gs, l :: ls, j, cgs, hc => by
    obtain ⟨cg, rest, j', rfl, hd, hrest⟩ := convGatesM_cons n hv oneQ g gs l ls j cgs hc
    have ih := convGatesM_modes n hv oneQ r h c2 s2 gs ls j' rest hrest
    obtain ⟨hS, hj'⟩ := head_modes n hv oneQ r h c2 s2 g l j j' cg hd
    simp only [convSteps, List.map_cons, planModes] at ih ⊢
    rw [ih, hS, hj']
    by_cases h1 : (g.qubits.length == 1) = true
    · simp only [h1, if_true]
    · by_cases h2 : (twoQubitKind true l == "PERM") = true
      · simp only [h1, h2, if_true, if_false, Bool.false_eq_true]
      · simp only [h1, h2, if_false, Bool.false_eq_true]

end field4

section field5
variable [Field R] [CharZero R]

/-- the kind `planKinds` lists for a gate that was placed -/
theorem head_kinds (n : ℕ) (hv : List ℕ) (oneQ : Gate → Matrix (Fin 2) (Fin 2) R) (g : Gate) (gs : List Gate)
    (l : String) (ls : List String) (j j' : ℕ) (cg : ConvGate (convLayout n hv) R)
    (hd : Head n hv oneQ g l j cg j') :
    planKinds true (g :: gs) (l :: ls) =
      (if g.qubits.length == 1 then "1q" else twoQubitKind true l) :: planKinds true gs ls := by
  cases hd with
  | oneQ q hq hg => simp [planKinds, hg]
  | swap a b hab hg hk =>
    have : ("PERM" : String).startsWith "rejected" = false := by decide +kernel
    simp [planKinds, hg, hk, this]
  | hcz a b hs hg hk =>
    have : ("Heralded CZ" : String).startsWith "rejected" = false := by decide +kernel
    simp [planKinds, hg, hk, this]
  | hcnot a b hs hg hk =>
    have : ("Heralded CNOT" : String).startsWith "rejected" = false := by decide +kernel
    simp [planKinds, hg, hk, this]
  | ppcnot a b hs hg hk =>
    have : ("PostProcessed CNOT" : String).startsWith "rejected" = false := by decide +kernel
    simp [planKinds, hg, hk, this]

/-- **the modes of the placed gates are exactly what the driver's `modes` request returns**
(`planModes n gs (planKinds true gs labels) 0`), which the harness compares with the real processor -/
theorem convGatesM_modes_planKinds (n : ℕ) (hv : List ℕ) (oneQ : Gate → Matrix (Fin 2) (Fin 2) R) (r h c2 s2 : R) :
    ∀ (gs : List Gate) (ls : List String) (j : ℕ) (cgs : List (ConvGate (convLayout n hv) R)),
      convGatesM n hv oneQ gs ls j = some cgs →
      (convSteps r h c2 s2 cgs).map (·.S) = planModes n gs (planKinds true gs ls) j
  | [], ls, j, cgs, hc => by
    rw [convGatesM] at hc
    cases hc
    cases ls <;> rfl
  | g :: gs, [], j, cgs, hc => by
    rw [convGatesM] at hc; cases hc
  | g :: gs, l :: ls, j, cgs, hc => by
    obtain ⟨cg, rest, j', rfl, hd, hrest⟩ := convGatesM_cons n hv oneQ g gs l ls j cgs hc
    have ih := convGatesM_modes_planKinds n hv oneQ r h c2 s2 gs ls j' rest hrest
    obtain ⟨hS, hj'⟩ := head_modes n hv oneQ r h c2 s2 g l j j' cg hd
    rw [head_kinds n hv oneQ g gs l ls j j' cg hd]
    simp only [convSteps, List.map_cons, planModes] at ih ⊢
    rw [ih, hS, hj']
    by_cases h1 : (g.qubits.length == 1) = true
    · simp only [h1, if_true]
    · by_cases h2 : (twoQubitKind true l == "PERM") = true
      · simp only [h1, h2, if_true, if_false, Bool.false_eq_true]
      · simp only [h1, h2, if_false, Bool.false_eq_true]

end field5

/-! ### validity read on the SOURCE sequence alone -/

/-- a source gate the converter can handle: one qubit in range; or two distinct qubits in range and a CNOT, or a
gate called CZ / CSIGN / SWAP (any letter case) -/
def SrcOk (n : ℕ) (g : Gate) : Prop :=
  (∃ q, g.qubits = [q] ∧ q < n) ∨
  (∃ a b, g.qubits = [a, b] ∧ a < n ∧ b < n ∧ a ≠ b ∧
    (isCnot g = true ∨ g.name.toUpper = "CZ" ∨ g.name.toUpper = "CSIGN" ∨ g.name.toUpper = "SWAP"))

theorem twoQubitKind_of_upper (l : String) :
    (l.toUpper = "CZ" → twoQubitKind true l = "Heralded CZ") ∧
    (l.toUpper = "CSIGN" → twoQubitKind true l = "Heralded CZ") ∧
    (l.toUpper = "SWAP" → twoQubitKind true l = "PERM") := by
  refine ⟨fun h => ?_, fun h => ?_, fun h => ?_⟩ <;> (unfold twoQubitKind; simp only [h]; decide)

theorem twoQubitKind_labels :
    twoQubitKind true "postprocessed cnot" = "PostProcessed CNOT" ∧
      twoQubitKind true "heralded cnot" = "Heralded CNOT" := by decide +kernel

/-- relabelling a valid source sequence with ANY flags (one per CNOT) gives accepted (gate, label) pairs -/
theorem gateOk_relabel (n : ℕ) : ∀ (gs : List Gate) (fl : List Bool), (∀ g ∈ gs, SrcOk n g) →
    fl.length = (gs.filter isCnot).length → List.Forall₂ (GateOk n) gs (relabel gs fl)
  | [], _, _, _ => by rw [relabel.eq_def]; exact List.Forall₂.nil
  | g :: gs, fl, hok, hlen => by
    have hok' : ∀ g' ∈ gs, SrcOk n g' := fun g' hg' => hok g' (List.mem_cons_of_mem _ hg')
    have hg := hok g List.mem_cons_self
    by_cases hc : isCnot g = true
    · rw [List.filter_cons, if_pos hc] at hlen
      cases fl with
      | nil => simp at hlen
      | cons f fs =>
        have hlen' : fs.length = (gs.filter isCnot).length := by simpa using hlen
        rw [relabel.eq_def]
        simp only [hc, if_true]
        refine List.Forall₂.cons ?_ (gateOk_relabel n gs fs hok' hlen')
        rcases hg with h1 | ⟨a, b, hq, ha, hb, hab, _⟩
        · exact Or.inl h1
        · refine Or.inr ⟨a, b, hq, ha, hb, hab, ?_⟩
          cases f
          · exact Or.inr (Or.inr (Or.inl twoQubitKind_labels.2))
          · exact Or.inr (Or.inr (Or.inr twoQubitKind_labels.1))
    · have hc' : isCnot g = false := by simpa using hc
      rw [List.filter_cons, if_neg hc] at hlen
      rw [relabel.eq_def]
      simp only [hc', Bool.false_eq_true, if_false]
      refine List.Forall₂.cons ?_ (gateOk_relabel n gs fl hok' hlen)
      rcases hg with h1 | ⟨a, b, hq, ha, hb, hab, hk⟩
      · exact Or.inl h1
      · refine Or.inr ⟨a, b, hq, ha, hb, hab, ?_⟩
        obtain ⟨k1, k2, k3⟩ := twoQubitKind_of_upper g.name
        rcases hk with hk | hk | hk | hk
        · exact absurd hk hc
        · exact Or.inr (Or.inl (k1 hk))
        · exact Or.inr (Or.inl (k2 hk))
        · exact Or.inl (k3 hk)

/-- **a valid source sequence, labelled by the converter, is accepted gate by gate** -/
theorem gateOk_labelCnots (n : ℕ) (gs : List Gate) (hok : ∀ g ∈ gs, SrcOk n g) :
    List.Forall₂ (GateOk n) gs (labelCnots true gs) :=
  gateOk_relabel n gs _ hok (cnotFlags_length true gs)

theorem srcOk_qubits {n : ℕ} {g : Gate} (h : SrcOk n g) : g.qubits.length = 1 ∨ g.qubits.length = 2 := by
  rcases h with ⟨q, hq, _⟩ | ⟨a, b, hq, _⟩
  · left; rw [hq]; rfl
  · right; rw [hq]; rfl

theorem srcOk_name {n : ℕ} {g : Gate} (h : SrcOk n g) (hc : isCnot g = false)
    (h2 : g.qubits.length = 2) : g.name.toUpper ≠ "POSTPROCESSED CNOT" := by
  rcases h with ⟨q, hq, _⟩ | ⟨a, b, _, _, _, _, hk⟩
  · rw [hq] at h2; cases h2
  · rcases hk with hk | hk | hk | hk
    · rw [hk] at hc; cases hc
    · rw [hk]; decide
    · rw [hk]; decide
    · rw [hk]; decide

/-! ### the converter's post-selection accepts every logical state -/

/-- the post-selection a converted processor carries: one condition `[p, p+1] == 1` per qubit pair a
post-processed CNOT acts on (moved along with the photons by later SWAPs: always the two rails of a qubit) -/
def pairPS : List ℕ → PS
  | [] => .tt
  | p :: ps => .and (.cond [p, p + 1] .eq 1) (pairPS ps)

theorem pairPS_accepts_logical (L : Layout) (hok : L.ok = true) :
    ∀ (pairs : List ℕ), (∀ p ∈ pairs, p ∈ L.qubits) → ∀ b : List Bool, b.length = L.qubits.length →
      (pairPS pairs).eval (encode L b) = true
  | [], _, _, _ => rfl
  | p :: ps, hp, b, hb => by
    have hlog := (isLogical_iff L (encode L b)).1 (encode_isLogical L hok b hb) p (hp p List.mem_cons_self)
    have ih := pairPS_accepts_logical L hok ps (fun q hq => hp q (List.mem_cons_of_mem _ hq)) b hb
    simp only [pairPS, PS.eval, Cmp.eval, List.map_cons, List.map_nil, List.sum_cons, List.sum_nil, ih,
      Bool.and_true]
    unfold pairAt at hlog
    simp only [List.getD_eq_getElem?_getD] at hlog
    simp [hlog]

end PM.C20
